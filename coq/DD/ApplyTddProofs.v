(** * Correctness of the TDD apply algorithms on hash-consed tables, part 1:
      [terminal_bin], the apply cache, [apply_not], [apply_bin]
      (DD/ApplyTdd.v: [td_tb], [td_apply_not], [td_apply_bin])

    - [td_tb_sound]: every arm of [terminal_bin] (8 operators, [f == g]
      short-cuts, terminal short-cuts, operand normalisation) agrees with the
      operator's FIXED TABLE [table op] of DD/Tdd.v: a finished result denotes
      [fn_bin op phi psi]; a [Not] result names an operand whose negation is the
      table's value; a [Binary] result carries the operator that was asked for,
      not both operands are terminals, and the operands are as given or - only
      for a commutative table - swapped;
    - [TCacheOK]: every entry a cache can serve is semantically correct: the
      key (operator code, operands) determines the pointwise meaning of the
      memoised value;
    - [td_apply_not_ok], [td_apply_bin_ok] ([tresult_ok]): with fuel above the
      height the algorithms return (never [None]) a table that only extends
      the old one, [TdOK] and [TCacheOK] again, and a reference denoting
      [fn_not phi] resp. [fn_bin op phi psi] - for every cache implementation
      that only ever serves what was added ([lossy]) and every edge order; if
      the result function already has a reference, this reference is returned
      and the table is unchanged. *)

From Coq Require Import List NArith PArith Bool Arith Lia FMapPositive.
From OxiVerif Require Import DD.Table DD.TableProofs DD.Canon DD.Build DD.BuildProofs
  DD.Apply DD.ApplyProofs DD.Tdd DD.TddTables DD.ApplyTdd DD.ApplyTddBase.
Import ListNotations.

(** ** Scalar facts about the fixed tables used below *)

Lemma top_code_inj : forall o o', top_code o = top_code o' -> o = o'.
Proof. intros [] [] E; simpl in E; try discriminate; reflexivity. Qed.

Lemma top_code_not : forall o, top_code o <> tcode_not.
Proof. intros [] E; discriminate. Qed.

(** ** Every arm of [terminal_bin] *)

Section TB.
Variable gt : ref -> ref -> bool.

Definition tb_postT (s : snap) (op : binop) (f g : ref) (vf vg : tview) (phi psi : tfun)
    (res : td_res) : Prop :=
  match res with
  | DDone r => DenT s r (fn_bin op phi psi)
  | DNot r =>
    (r = f /\ forall a, fn_bin op phi psi a = k_not (phi a)) \/
    (r = g /\ forall a, fn_bin op phi psi a = k_not (psi a))
  | DBin o a b =>
    o = op /\ (is_term vf = false \/ is_term vg = false) /\ f <> g /\
    ((a = f /\ b = g) \/ (a = g /\ b = f /\ commutative op = true))
  | DFail => False
  end.

Lemma get_term3_den : forall s v, TdOK s ->
  match get_term3 s v with DDone r => DenT s r (fn_const v) | _ => False end.
Proof.
  intros s v B. unfold get_term3. destruct (term3_total s v B) as [t E]. rewrite E.
  apply dent_const; assumption.
Qed.

Theorem td_tb_sound : forall s op f g vf vg phi psi, TdOK s ->
  DenT s f phi -> DenT s g psi -> td_view s f = Some vf -> td_view s g = Some vg ->
  tb_postT s op f g vf vg phi psi (td_tb gt s op f g vf vg).
Proof.
  intros s op f g vf vg phi psi B Hf Hg Vf Vg.
  assert (Ff : forall v, vf = TVT v -> forall a, phi a = v)
    by (intros v -> a; apply (view_dent_T s f v phi Hf Vf a)).
  assert (Fg : forall v, vg = TVT v -> forall a, psi a = v)
    by (intros v -> a; apply (view_dent_T s g v psi Hg Vg a)).
  assert (Fe : ref_eqb f g = true -> forall a, phi a = psi a).
  { intros E a. apply ref_eqb_eq in E. subst g. apply (dent_unique s f phi psi Hf Hg a). }
  assert (Fn : ref_eqb f g = false -> f <> g).
  { intros E ->. assert (X : ref_eqb g g = true) by (apply ref_eqb_eq; reflexivity). congruence. }
  pose proof (get_term3_den s TF B) as Ht0. pose proof (get_term3_den s TU B) as Ht1.
  pose proof (get_term3_den s TT B) as Ht2.
  Local Ltac pwT Ff Fg Fe phi psi :=
    let a := fresh "a" in
    intros a; unfold fn_bin, fn_const; cbv beta;
    try (pose proof (Ff _ eq_refl a));
    try (pose proof (Fg _ eq_refl a));
    try (pose proof (Fe eq_refl a));
    destruct (phi a); destruct (psi a); try discriminate; reflexivity.
  Local Ltac tbT Ff Fg Fe Fn phi psi Hf Hg Ht0 Ht2 gt :=
    cbv beta iota;
    match goal with
    | |- tb_postT _ _ _ _ _ _ _ _ (get_term3 _ TF) =>
        unfold tb_postT; destruct (get_term3 _ TF); try contradiction;
        eapply dent_ext; [exact Ht0 | pwT Ff Fg Fe phi psi]
    | |- tb_postT _ _ _ _ _ _ _ _ (get_term3 _ TT) =>
        unfold tb_postT; destruct (get_term3 _ TT); try contradiction;
        eapply dent_ext; [exact Ht2 | pwT Ff Fg Fe phi psi]
    | |- tb_postT _ _ _ _ _ _ _ _ (DDone _) =>
        unfold tb_postT;
        first [ eapply dent_ext; [exact Hf | pwT Ff Fg Fe phi psi]
              | eapply dent_ext; [exact Hg | pwT Ff Fg Fe phi psi] ]
    | |- tb_postT _ _ _ _ _ _ _ _ (DNot _) =>
        unfold tb_postT;
        first [ left; split; [reflexivity | pwT Ff Fg Fe phi psi]
              | right; split; [reflexivity | pwT Ff Fg Fe phi psi] ]
    | |- tb_postT _ _ _ _ _ _ _ _ (td_norm _ _ _ _) =>
        unfold td_norm; destruct (gt _ _); unfold tb_postT;
        (split; [reflexivity|]; split; [simpl; tauto|]; split; [apply Fn; reflexivity|]);
        [ right; split; [reflexivity|]; split; reflexivity
        | left; split; reflexivity ]
    | |- tb_postT _ _ _ _ _ _ _ _ (DBin _ _ _) =>
        unfold tb_postT;
        split; [reflexivity|]; split; [simpl; tauto|]; split; [apply Fn; reflexivity|];
        left; split; reflexivity
    end.
  destruct op; unfold td_tb; destruct (ref_eqb f g) eqn:E;
    try (tbT Ff Fg Fe Fn phi psi Hf Hg Ht0 Ht2 gt; fail);
    destruct vf as [nf|[]], vg as [ng|[]]; simpl is_tv; simpl orb; cbv iota;
    first [ tbT Ff Fg Fe Fn phi psi Hf Hg Ht0 Ht2 gt; fail
          | (* two different references to the Unknown terminal: excluded *)
            exfalso; apply (Fn eq_refl);
            apply (td_view_T_inj s f g TU (to_wf s B) Vf Vg) ].
Qed.

End TB.

(** ** Caches *)

Section CacheSec.
Variable gt : ref -> ref -> bool.
Variable C : Type.
Variable cget : C -> N -> list ref -> option ref.
Variable cadd : C -> N -> list ref -> ref -> C.
Hypothesis Hlossy : lossy cget cadd.

(** an entry is correct in table [s]: the key determines the pointwise
    meaning of the value *)
Definition tentry_ok (s : snap) (code : N) (args : list ref) (r : ref) : Prop :=
  match args with
  | [f] => code = tcode_not ->
      exists phi, DenT s f phi /\ DenT s r (fn_not phi)
  | [f; g] => forall o, code = top_code o ->
      exists phi psi, DenT s f phi /\ DenT s g psi /\ DenT s r (fn_bin o phi psi)
  | [f; g; h] => code = tcode_ite ->
      exists phi psi theta, DenT s f phi /\ DenT s g psi /\ DenT s h theta /\
                            DenT s r (fn_ite phi psi theta)
  | _ => True
  end.

Definition TCacheOK (s : snap) (c : C) : Prop :=
  forall code args r, cget c code args = Some r -> tentry_ok s code args r.

Lemma tentry_ok_extends : forall s s' code args r, TdOK s -> extends s s' ->
  tentry_ok s code args r -> tentry_ok s' code args r.
Proof.
  intros s s' code args r B X. unfold tentry_ok.
  destruct args as [|f [|g [|h [|x rest]]]]; auto.
  - intros Hx Hc. destruct (Hx Hc) as [phi [A D]]. exists phi.
    split; eapply dent_extends; eauto.
  - intros Hx o Hc. destruct (Hx o Hc) as [phi [psi [A [A' D]]]]. exists phi, psi.
    repeat split; eapply dent_extends; eauto.
  - intros Hx Hc. destruct (Hx Hc) as [phi [psi [theta [A [A' [A'' D]]]]]]. exists phi, psi, theta.
    repeat split; eapply dent_extends; eauto.
Qed.

Lemma tcacheok_extends : forall s s' c, TdOK s -> extends s s' -> TCacheOK s c -> TCacheOK s' c.
Proof. intros s s' c B X O code args r E. eapply tentry_ok_extends; eauto. Qed.

Lemma tcacheok_add : forall s c code args r, TCacheOK s c -> tentry_ok s code args r ->
  TCacheOK s (cadd c code args r).
Proof.
  intros s c code args r O Hn code' args' r' E.
  destruct (Hlossy _ _ _ _ _ _ _ E) as [[-> [-> ->]]|E']; [exact Hn | apply (O _ _ _ E')].
Qed.

Definition tresult_ok (s : snap) (c : C) (res : option (snap * C * ref)) (Phi : tfun) : Prop :=
  exists s' c' r, res = Some (s', c', r) /\
    TdOK s' /\ extends s s' /\ TCacheOK s' c' /\ DenT s' r Phi /\
    (* if the result function already has a reference, that reference is
       returned and the table is unchanged *)
    (forall r0, DenT s r0 Phi -> s' = s /\ r = r0).

Lemma tresult_ok_ext : forall s c res Phi Phi', tresult_ok s c res Phi ->
  (forall a, Phi a = Phi' a) -> tresult_ok s c res Phi'.
Proof.
  intros s c res Phi Phi' [s' [c' [r [E [B [X [O [D S]]]]]]]] Hp.
  exists s', c', r. split; [exact E|]. split; [exact B|]. split; [exact X|]. split; [exact O|].
  split; [apply (dent_ext s' r Phi Phi' D Hp)|].
  intros r0 D0. apply S. apply (dent_ext s r0 Phi' Phi D0). intros a. symmetry. apply Hp.
Qed.

Lemma tresult_ok_here : forall s c r Phi, TdOK s -> TCacheOK s c -> DenT s r Phi ->
  tresult_ok s c (Some (s, c, r)) Phi.
Proof.
  intros s c r Phi B O D. exists s, c, r.
  split; [reflexivity|]. split; [exact B|]. split; [apply extends_refl|]. split; [exact O|].
  split; [exact D|]. intros r0 D0. split; [reflexivity | apply (dent_canon s r r0 Phi B D D0)].
Qed.

(** the last step of every expansion: three finished recursive calls, then
    [reduce] and the cache insertion *)
Lemma expand_finish : forall s s1 s2 s3 (c0 c3 : C) lvl t u e (Phi : tfun) (G : tri -> tfun) code args
    (S1 : forall r0, DenT s r0 (G TT) -> s1 = s /\ t = r0)
    (S2 : forall r0, DenT s1 r0 (G TU) -> s2 = s1 /\ u = r0)
    (S3 : forall r0, DenT s2 r0 (G TF) -> s3 = s2 /\ e = r0),
  TdOK s -> TdOK s1 -> TdOK s2 -> TdOK s3 ->
  extends s s1 -> extends s1 s2 -> extends s2 s3 -> TCacheOK s3 c3 ->
  lvl < nlevels s ->
  DenT s1 t (G TT) -> DenT s2 u (G TU) -> DenT s3 e (G TF) ->
  (forall v, indepT (G v) (S lvl)) ->
  (forall a, pick3 lvl (G TT) (G TU) (G TF) a = Phi a) ->
  indepT Phi lvl ->
  (forall v, forall r0, DenT s r0 Phi -> exists q, DenT s q (G v)) ->
  (forall s4 r, extends s s4 -> DenT s4 r Phi -> tentry_ok s4 code args r) ->
  tresult_ok s c0
    (let '(s4, h) := mk_node s3 lvl [E t; E u; E e] in
     Some (s4, cadd c3 code args (eref h), eref h)) Phi.
Proof.
  intros s s1 s2 s3 c0 c3 lvl t u e Phi G code args S1 S2 S3 B B1 B2 B3 X1 X2 X3 O3 Hlvl
    D1 D2 D3 II Heq J Hq Hent.
  destruct (mk_node s3 lvl [E t; E u; E e]) as [s4 h] eqn:Em.
  assert (D1' : DenT s3 t (G TT))
    by (apply (dent_extends s2 s3 _ _ B2 X3); apply (dent_extends s1 s2 _ _ B1 X2 D1)).
  assert (D2' : DenT s3 u (G TU)) by (apply (dent_extends s2 s3 _ _ B2 X3 D2)).
  assert (Hl3 : lvl < nlevels s3)
    by (rewrite (ext_nlevels _ _ X3), (ext_nlevels _ _ X2), (ext_nlevels _ _ X1); exact Hlvl).
  destruct (node_stepT s3 lvl t u e _ _ _ s4 h B3 Hl3 D1' D2' D3 (II TT) (II TU) (II TF) Em)
    as [B4 [X4 Dh]].
  assert (X04 : extends s s4).
  { eapply extends_trans; [|exact X4]. eapply extends_trans; [|exact X3].
    eapply extends_trans; eauto. }
  assert (Dres : DenT s4 (eref h) Phi) by (apply (dent_ext _ _ _ _ Dh Heq)).
  exists s4, (cadd c3 code args (eref h)), (eref h).
  split; [reflexivity|]. split; [exact B4|]. split; [exact X04|].
  split; [|split; [exact Dres|]].
  { apply tcacheok_add; [apply (tcacheok_extends s3 s4 c3 B3 X4 O3)|]. apply Hent; assumption. }
  intros r0 D0.
  destruct (Hq TT r0 D0) as [q0 Dq0]. destruct (S1 q0 Dq0) as [Es1 Et]. subst s1 t.
  destruct (Hq TU r0 D0) as [q1 Dq1]. destruct (S2 q1 Dq1) as [Es2 Eu]. subst s2 u.
  destruct (Hq TF r0 D0) as [q2 Dq2]. destruct (S3 q2 Dq2) as [Es3 Ee]. subst s3 e.
  apply (mk_node_stableT s lvl q0 q1 q2 _ _ _ s4 h r0 B Hlvl D1' D2' D3 (II TT) (II TU) (II TF) Em).
  apply (dent_ext s r0 _ _ D0). intros a. symmetry. apply Heq.
Qed.

(** ** [apply_not] *)

Lemma td_apply_not_S : forall n s c f,
  td_apply_not C cget cadd (S n) s c f =
  match td_view s f with
  | None => None
  | Some (TVT v) =>
    match term3 s (k_not v) with Some t => Some (s, c, RT t) | None => None end
  | Some (TVI nd) =>
    match cget c tcode_not [f] with
    | Some h => Some (s, c, h)
    | None =>
      match children3 nd with
      | None => None
      | Some (f0, f1, f2) =>
        match td_apply_not C cget cadd n s c f0 with
        | None => None
        | Some (s1, c1, t) =>
          match td_apply_not C cget cadd n s1 c1 f1 with
          | None => None
          | Some (s2, c2, u) =>
            match td_apply_not C cget cadd n s2 c2 f2 with
            | None => None
            | Some (s3, c3, e) =>
              let '(s4, h) := mk_node s3 (nstored nd) [E t; E u; E e] in
              Some (s4, cadd c3 tcode_not [f] (eref h), eref h)
            end
          end
        end
      end
    end
  end.
Proof. reflexivity. Qed.

Theorem td_apply_not_ok : forall fuel s c f phi,
  TdOK s -> TCacheOK s c -> DenT s f phi -> nlevels s - rlevel s f < fuel ->
  tresult_ok s c (td_apply_not C cget cadd fuel s c f) (fn_not phi).
Proof.
  induction fuel as [|n IH]; intros s c f phi B O D Hf; [lia|].
  pose proof (to_wf s B) as H.
  rewrite td_apply_not_S.
  destruct (td_view_total s f B (proj1 D)) as [x V]. rewrite V. destruct x as [nd|v].
  2:{ destruct (term3_total s (k_not v) B) as [t' Et]. rewrite Et.
      apply tresult_ok_here; auto.
      apply (dent_ext s (RT t') (fn_const (k_not v))); [apply dent_const; auto|].
      intros a. unfold fn_not, fn_const. rewrite (view_dent_T s f v phi D V a). reflexivity. }
  destruct (td_view_TVI s f nd V) as [id [-> E]].
  rewrite (rlevel_node s id nd E) in Hf. pose proof (wf_level s H id nd E) as Hlv.
  destruct (cget c tcode_not [RN id]) as [h|] eqn:Eg.
  { destruct (O _ _ _ Eg eq_refl) as [phi' [D' Dh]].
    apply tresult_ok_here; auto. apply (dent_ext s h _ _ Dh). intros a. unfold fn_not.
    rewrite (dent_unique s (RN id) phi' phi D' D a). reflexivity. }
  assert (Hle : nlevel nd <= rlevel s (RN id)) by (rewrite (rlevel_node s id nd E); lia).
  destruct (td_cof_ok s (RN id) (TVI nd) phi (nlevel nd) B D V Hle Hlv)
    as [f0 [f1 [f2 [Ecf [D0 [D1 [D2 [L0 [L1 L2]]]]]]]]].
  simpl td_cof in Ecf. rewrite (wf_stored s H id nd E), Nat.eqb_refl in Ecf. rewrite Ecf.
  set (lvl := nlevel nd) in *.
  set (G := fun v : tri => fn_not (fn_restrict phi lvl v)).
  destruct (IH s c f0 _ B O D0 ltac:(lia)) as [s1 [c1 [t [E1 [B1 [X1 [O1 [R1 S1]]]]]]]].
  rewrite E1.
  assert (D1s : DenT s1 f1 (fn_restrict phi lvl TU)) by (apply (dent_extends s s1 _ _ B X1 D1)).
  assert (Hf1 : nlevels s1 - rlevel s1 f1 < n)
    by (rewrite (ext_nlevels _ _ X1), (ext_rlevel _ _ _ X1 (proj1 D1)); lia).
  destruct (IH s1 c1 f1 _ B1 O1 D1s Hf1) as [s2 [c2 [u [E2 [B2 [X2 [O2 [R2 S2]]]]]]]].
  rewrite E2.
  assert (X02 : extends s s2) by (eapply extends_trans; eauto).
  assert (D2s : DenT s2 f2 (fn_restrict phi lvl TF)) by (apply (dent_extends s s2 _ _ B X02 D2)).
  assert (Hf2 : nlevels s2 - rlevel s2 f2 < n)
    by (rewrite (ext_nlevels _ _ X02), (ext_rlevel _ _ _ X02 (proj1 D2)); lia).
  destruct (IH s2 c2 f2 _ B2 O2 D2s Hf2) as [s3 [c3 [e [E3 [B3 [X3 [O3 [R3 S3]]]]]]]].
  rewrite E3.
  assert (Ip : indepT phi lvl)
    by (unfold lvl; rewrite <- (rlevel_node s id nd E); apply (dent_indep s _ phi H D)).
  rewrite (wf_stored s H id nd E). fold lvl.
  apply (expand_finish s s1 s2 s3 c c3 lvl t u e (fn_not phi) G tcode_not [RN id] S1 S2 S3); auto.
  - intros v a a' Ea. unfold G, fn_not. f_equal. apply (indepT_cof phi _ lvl v Ip (le_n _)); auto.
  - intros a. unfold G, fn_not.
    apply (pick3_restrict s (RN id) phi lvl (fun _ x => k_not x) a H D).
  - intros a a' Ea. unfold fn_not. f_equal. apply Ip; auto.
  - intros v r0 D0'. unfold G.
    assert (J : indepT (fn_not phi) lvl) by (intros a a' Ea; unfold fn_not; f_equal; apply Ip; auto).
    assert (L : lvl <= rlevel s r0) by (apply (dent_level s r0 _ lvl B D0' ltac:(lia) J)).
    destruct (dent_cof_exists s r0 _ lvl v B D0' L Hlv) as [q Dq]. exists q. exact Dq.
  - intros s4 r X04 Dr _. exists phi. split; [apply (dent_extends s s4 _ _ B X04 D) | exact Dr].
Qed.

(** ** [apply_bin] *)

Lemma td_apply_bin_S : forall n s c op f g,
  td_apply_bin gt C cget cadd (S n) s c op f g =
  match td_view s f, td_view s g with
  | Some vf, Some vg =>
    match td_tb gt s op f g vf vg with
    | DFail => None
    | DDone h => Some (s, c, h)
    | DNot r => td_apply_not C cget cadd (S n) s c r
    | DBin o a b =>
      match cget c (top_code o) [a; b] with
      | Some h => Some (s, c, h)
      | None =>
        match lmin (tlevel vf) (tlevel vg) with
        | None => None
        | Some lvl =>
          match td_cof f vf lvl, td_cof g vg lvl with
          | Some (f0, f1, f2), Some (g0, g1, g2) =>
            match td_apply_bin gt C cget cadd n s c op f0 g0 with
            | None => None
            | Some (s1, c1, t) =>
              match td_apply_bin gt C cget cadd n s1 c1 op f1 g1 with
              | None => None
              | Some (s2, c2, u) =>
                match td_apply_bin gt C cget cadd n s2 c2 op f2 g2 with
                | None => None
                | Some (s3, c3, e) =>
                  let '(s4, h) := mk_node s3 lvl [E t; E u; E e] in
                  Some (s4, cadd c3 (top_code o) [a; b] (eref h), eref h)
                end
              end
            end
          | _, _ => None
          end
        end
      end
    end
  | _, _ => None
  end.
Proof. reflexivity. Qed.

(** the split level of two operands that are not both terminals *)
Lemma lmin_level : forall s f g vf vg, WF s -> td_view s f = Some vf -> td_view s g = Some vg ->
  (is_term vf = false \/ is_term vg = false) ->
  lmin (tlevel vf) (tlevel vg) = Some (Nat.min (rlevel s f) (rlevel s g)) /\
  Nat.min (rlevel s f) (rlevel s g) < nlevels s.
Proof.
  intros s f g vf vg H Vf Vg Hi.
  pose proof (tlevel_rlevel s f vf H Vf) as Lf. pose proof (tlevel_rlevel s g vg H Vg) as Lg.
  pose proof (rlevel_le s H f). pose proof (rlevel_le s H g).
  destruct vf as [nf|a], vg as [ng|b]; simpl in *.
  - destruct Lf as [-> ?], Lg as [-> ?]. split; [reflexivity | lia].
  - destruct Lf as [-> ?]. rewrite Lg. split; [f_equal; lia | lia].
  - destruct Lg as [-> ?]. rewrite Lf. split; [f_equal; lia | lia].
  - exfalso. destruct Hi; discriminate.
Qed.

Theorem td_apply_bin_ok : forall op fuel s c f g phi psi,
  TdOK s -> TCacheOK s c -> DenT s f phi -> DenT s g psi ->
  nlevels s - Nat.min (rlevel s f) (rlevel s g) < fuel ->
  tresult_ok s c (td_apply_bin gt C cget cadd fuel s c op f g) (fn_bin op phi psi).
Proof.
  intros op. induction fuel as [|n IH]; intros s c f g phi psi B O Df Dg Hfuel; [lia|].
  pose proof (to_wf s B) as H.
  rewrite td_apply_bin_S.
  destruct (td_view_total s f B (proj1 Df)) as [vf Vf]. destruct (td_view_total s g B (proj1 Dg)) as [vg Vg].
  rewrite Vf, Vg.
  pose proof (td_tb_sound gt s op f g vf vg phi psi B Df Dg Vf Vg) as T.
  destruct (td_tb gt s op f g vf vg) as [r|r|o a b|] eqn:Etb; simpl in T; [| | |contradiction].
  - apply tresult_ok_here; auto.
  - destruct T as [[-> Hr]|[-> Hr]].
    + apply (tresult_ok_ext s c _ (fn_not phi)).
      * apply (td_apply_not_ok (S n) s c f phi B O Df). lia.
      * intros a. symmetry. apply Hr.
    + apply (tresult_ok_ext s c _ (fn_not psi)).
      * apply (td_apply_not_ok (S n) s c g psi B O Dg). lia.
      * intros a. symmetry. apply Hr.
  - destruct T as [-> [Hin [Hne Hab]]].
    destruct (cget c (top_code op) [a; b]) as [h|] eqn:Ec.
    + (* cache hit *)
      destruct (O _ _ _ Ec op eq_refl) as [pa [pb [Da [Db Dh]]]].
      apply tresult_ok_here; auto. apply (dent_ext s h _ _ Dh). intros x. unfold fn_bin.
      destruct Hab as [[-> ->]|[-> [-> Hcomm]]].
      * rewrite (dent_unique s _ pa phi Da Df x), (dent_unique s _ pb psi Db Dg x). reflexivity.
      * rewrite (dent_unique s _ pa psi Da Dg x), (dent_unique s _ pb phi Db Df x).
        apply table_comm. exact Hcomm.
    + destruct (lmin_level s f g vf vg H Vf Vg Hin) as [El Hlvl]. rewrite El.
      set (lvl := Nat.min (rlevel s f) (rlevel s g)) in *.
      destruct (td_cof_ok s f vf phi lvl B Df Vf ltac:(lia) Hlvl)
        as [f0 [f1 [f2 [Ecf [Df0 [Df1 [Df2 [Lf0 [Lf1 Lf2]]]]]]]]].
      destruct (td_cof_ok s g vg psi lvl B Dg Vg ltac:(lia) Hlvl)
        as [g0 [g1 [g2 [Ecg [Dg0 [Dg1 [Dg2 [Lg0 [Lg1 Lg2]]]]]]]]].
      rewrite Ecf, Ecg.
      set (G := fun v : tri => fn_bin op (fn_restrict phi lvl v) (fn_restrict psi lvl v)).
      destruct (IH s c f0 g0 _ _ B O Df0 Dg0 ltac:(lia)) as [s1 [c1 [t [E1 [B1 [X1 [O1 [R1 S1]]]]]]]].
      rewrite E1.
      assert (Df1s : DenT s1 f1 (fn_restrict phi lvl TU)) by (apply (dent_extends s s1 _ _ B X1 Df1)).
      assert (Dg1s : DenT s1 g1 (fn_restrict psi lvl TU)) by (apply (dent_extends s s1 _ _ B X1 Dg1)).
      assert (Hf1 : nlevels s1 - Nat.min (rlevel s1 f1) (rlevel s1 g1) < n).
      { rewrite (ext_nlevels _ _ X1), (ext_rlevel _ _ _ X1 (proj1 Df1)), (ext_rlevel _ _ _ X1 (proj1 Dg1)). lia. }
      destruct (IH s1 c1 f1 g1 _ _ B1 O1 Df1s Dg1s Hf1) as [s2 [c2 [u [E2 [B2 [X2 [O2 [R2 S2]]]]]]]].
      rewrite E2.
      assert (X02 : extends s s2) by (eapply extends_trans; eauto).
      assert (Df2s : DenT s2 f2 (fn_restrict phi lvl TF)) by (apply (dent_extends s s2 _ _ B X02 Df2)).
      assert (Dg2s : DenT s2 g2 (fn_restrict psi lvl TF)) by (apply (dent_extends s s2 _ _ B X02 Dg2)).
      assert (Hf2 : nlevels s2 - Nat.min (rlevel s2 f2) (rlevel s2 g2) < n).
      { rewrite (ext_nlevels _ _ X02), (ext_rlevel _ _ _ X02 (proj1 Df2)), (ext_rlevel _ _ _ X02 (proj1 Dg2)). lia. }
      destruct (IH s2 c2 f2 g2 _ _ B2 O2 Df2s Dg2s Hf2) as [s3 [c3 [e [E3 [B3 [X3 [O3 [R3 S3]]]]]]]].
      rewrite E3.
      assert (Ip : indepT phi (rlevel s f)) by (apply (dent_indep s _ phi H Df)).
      assert (Iq : indepT psi (rlevel s g)) by (apply (dent_indep s _ psi H Dg)).
      assert (J : indepT (fn_bin op phi psi) lvl).
      { intros x y Exy. unfold fn_bin. f_equal.
        - apply (indepT_mono phi _ lvl Ip ltac:(lia)); auto.
        - apply (indepT_mono psi _ lvl Iq ltac:(lia)); auto. }
      apply (expand_finish s s1 s2 s3 c c3 lvl t u e (fn_bin op phi psi) G (top_code op) [a; b] S1 S2 S3); auto.
      * intros v x y Exy. unfold G, fn_bin. f_equal.
        -- apply (indepT_cof phi _ lvl v Ip ltac:(lia)); auto.
        -- apply (indepT_cof psi _ lvl v Iq ltac:(lia)); auto.
      * intros x. unfold G, fn_bin, pick3.
        rewrite <- (dent_upd_self s f phi x lvl H Df), <- (dent_upd_self s g psi x lvl H Dg).
        destruct (x lvl); reflexivity.
      * intros v r0 D0.
        assert (L : lvl <= rlevel s r0) by (apply (dent_level s r0 _ lvl B D0 ltac:(lia) J)).
        destruct (dent_cof_exists s r0 _ lvl v B D0 L Hlvl) as [q Dq]. exists q. exact Dq.
      * intros s4 r X04 Dr o Ho. apply top_code_inj in Ho. subst o.
        pose proof (dent_extends s s4 _ _ B X04 Df) as Df4.
        pose proof (dent_extends s s4 _ _ B X04 Dg) as Dg4.
        destruct Hab as [[-> ->]|[-> [-> Hcomm]]].
        -- exists phi, psi. auto.
        -- exists psi, phi. split; [exact Dg4|]. split; [exact Df4|].
           apply (dent_ext _ _ _ _ Dr). intros x. unfold fn_bin. apply table_comm. exact Hcomm.
Qed.

End CacheSec.

Arguments TCacheOK {C}.
Arguments tentry_ok s code args r : simpl never.
