(** * TDD operations on hash-consed tables: constants, variables, cofactors,
      the theorems in terms of the interpreter [semk] and of three-valued
      assignments of the VARIABLES, cache transparency, history independence

    - [td_const_ok], [td_var_ok], [td_cofactors_ok];
    - [td_apply_not_sound], [td_apply_bin_sound], [td_apply_ite_sound]: for
      every [TdOK] table, correct cache of any [lossy] implementation, edge
      order and fuel >= [FUEL s], the operations return a result whose value
      under every three-valued assignment is the FIXED TABLE of DD/Tdd.v
      ([k_not], [table op], [ite3]) applied to the operands' values;
    - [tfun_of], [td_*_tfun]: the same for assignments variable |-> tri under
      the table's variable order;
    - [td_*_cache_transparent], [td_*_history_independent],
      [td_*_result_unique]: the returned reference does not depend on the
      cache, the edge order or the history. *)

From Coq Require Import List NArith PArith Bool Arith Lia FMapPositive.
From OxiVerif Require Import DD.Table DD.TableProofs DD.Canon DD.Build DD.BuildProofs
  DD.Apply DD.ApplyProofs DD.Cache DD.CacheProofs DD.Tdd DD.TddTables
  DD.ApplyTdd DD.ApplyTddBase DD.ApplyTddProofs DD.ApplyTddIte.
Import ListNotations.

(** ** Cache instances (the instances of DD/Apply.v and DD/Cache.v) *)

Lemma tac_empty_ok : forall s, TCacheOK ac_get s [].
Proof. intros s code args r E. discriminate. Qed.

Lemma tnc_ok : forall s c, TCacheOK nc_get s c.
Proof. intros s c code args r E. discriminate. Qed.

(** the direct-mapped, lossy cache of oxidd-cache (DD/Cache.v), any hash *)
Lemma tdm_init_ok : forall hash s nb cap, TCacheOK (dmr_get hash) s (dm_init nb cap).
Proof. intros hash s nb cap code args r E. rewrite dmr_get_init in E. discriminate. Qed.

Lemma tdm_clear_ok : forall hash s c, TCacheOK (dmr_get hash) s (dm_clear c).
Proof. intros hash s c code args r E. rewrite dmr_get_clear in E. discriminate. Qed.

(** ** Constants *)

Theorem td_const_ok : forall s v, TdOK s ->
  exists t, td_const s v = Some (RT t) /\ DenT s (RT t) (fn_const v) /\
    forall r0, DenT s r0 (fn_const v) -> r0 = RT t.
Proof.
  intros s v B. unfold td_const. destruct (term3_total s v B) as [t E]. rewrite E.
  exists t. split; [reflexivity|]. pose proof (dent_const s v t B E) as D. split; [exact D|].
  intros r0 D0. apply (dent_canon s r0 (RT t) _ B D0 D).
Qed.

(** ** Variables *)

Theorem td_var_ok : forall s v, TdOK s -> v < nlevels s ->
  exists lvl s' r, nth_error (s_v2l s) v = Some lvl /\ nth_error (s_l2v s) lvl = Some v /\
    td_var s v = Some (s', r) /\ TdOK s' /\ extends s s' /\ DenT s' r (fn_var lvl) /\
    (forall r0, DenT s r0 (fn_var lvl) -> s' = s /\ r = r0).
Proof.
  intros s v B Hv. pose proof (to_wf s B) as H.
  assert (Hv' : v < length (s_v2l s)) by (rewrite (wf_perm_len s H); exact Hv).
  destruct (wf_perm_v2l s H v Hv') as [lvl [E1 E2]].
  assert (Hlvl : lvl < nlevels s) by (unfold nlevels; apply nth_error_Some; congruence).
  unfold td_var. rewrite E1.
  destruct (term3_total s TT B) as [t2 T2]. destruct (term3_total s TU B) as [t1 T1].
  destruct (term3_total s TF B) as [t0 T0]. rewrite T2, T1, T0.
  pose proof (term3_spec s TT t2 H T2) as V2. pose proof (term3_spec s TU t1 H T1) as V1.
  pose proof (term3_spec s TF t0 H T0) as V0.
  assert (Hne : t2 <> t1) by (intros ->; rewrite V2 in V1; discriminate).
  set (ch := [E (RT t2); E (RT t1); E (RT t0)]).
  assert (Hae : all_equal ch = false).
  { unfold ch. simpl. unfold edge_eqb at 1. simpl.
    destruct (N.eqb_spec t2 t1); [contradiction | reflexivity]. }
  assert (Hch : children_ok s lvl ch).
  { split; [rewrite (to_kind s B); reflexivity|].
    intros x [<-|[<-|[<-|[]]]]; simpl;
      (split; [eexists; eassumption | split; [exact Hlvl | reflexivity]]). }
  destruct (get_or_insert s lvl ch) as [s' h] eqn:Eg.
  destruct (get_or_insert_wf s lvl ch s' h H (td_kary s B) Hlvl Hch Hae Eg) as [W [X [O3 [_ [_ Sh]]]]].
  assert (B' : TdOK s') by (apply (tdok_extends s s' B X W)).
  assert (D : DenT s' (eref h) (fn_var lvl)).
  { split; [exact O3|]. intros a. unfold fn_var.
    assert (Ec : chc a lvl = choice_of (a lvl)) by reflexivity.
    destruct (a lvl); simpl in Ec.
    - rewrite (Sh (chc a) 2 (E (RT t0)) Ec eq_refl). simpl. rewrite semk_T. exact V0.
    - rewrite (Sh (chc a) 1 (E (RT t1)) Ec eq_refl). simpl. rewrite semk_T. exact V1.
    - rewrite (Sh (chc a) 0 (E (RT t2)) Ec eq_refl). simpl. rewrite semk_T. exact V2. }
  exists lvl, s', (eref h). repeat (split; [assumption || reflexivity|]).
  intros r0 D0.
  assert (Eh : eref h = r0) by (apply (dent_canon s' _ _ _ B' D (dent_extends s s' _ _ B X D0))).
  split; [|exact Eh].
  unfold get_or_insert in Eg. destruct (find_dup s lvl ch); inversion Eg; [reflexivity|].
  exfalso. subst h. simpl in Eh. subst r0. destruct (proj1 D0) as [nd En].
  rewrite fresh_id_free in En. discriminate.
Qed.

(** ** Cofactors: the children in the order true, unknown, false *)

Theorem td_cofactors_ok : forall s r phi, TdOK s -> DenT s r phi ->
  match r with
  | RT _ => td_cofactors s r = None
  | RN id =>
    exists nd t u e, find_node s id = Some nd /\ td_cofactors s r = Some (t, u, e) /\
      DenT s t (fn_restrict phi (nlevel nd) TT) /\
      DenT s u (fn_restrict phi (nlevel nd) TU) /\
      DenT s e (fn_restrict phi (nlevel nd) TF) /\
      (* the root's level is a level the function really depends on, and none above it *)
      ~ (t = u /\ u = e) /\ indepT phi (nlevel nd) /\
      nlevel nd < rlevel s t /\ nlevel nd < rlevel s u /\ nlevel nd < rlevel s e
  end.
Proof.
  intros s r phi B D. pose proof (to_wf s B) as H. destruct r as [t|id]; [reflexivity|].
  destruct (proj1 D) as [nd E].
  destruct (children3_total s id nd B E) as [x [y [z [Ech E3]]]].
  exists nd, (eref x), (eref y), (eref z). split; [exact E|].
  split; [simpl; rewrite E; exact E3|].
  assert (Hx : nth_error (nchildren nd) (choice_of TT) = Some x) by (rewrite Ech; reflexivity).
  assert (Hy : nth_error (nchildren nd) (choice_of TU) = Some y) by (rewrite Ech; reflexivity).
  assert (Hz : nth_error (nchildren nd) (choice_of TF) = Some z) by (rewrite Ech; reflexivity).
  split; [apply (dent_child s id nd TT x phi B D E Hx)|].
  split; [apply (dent_child s id nd TU y phi B D E Hy)|].
  split; [apply (dent_child s id nd TF z phi B D E Hz)|].
  split.
  { intros [Exy Eyz].
    apply (reduced_kary s (td_kary s B) _ (wf_reduced s H id nd E)).
    assert (Tg : forall w, In w (nchildren nd) -> etag w = false)
      by (intros w Hw; apply (wf_tags s H (proj1 (td_kary s B)) id nd w E Hw)).
    assert (Ex : x = y) by (apply edge_ext; [exact Exy | rewrite !Tg; [reflexivity | rewrite Ech | rewrite Ech]; simpl; auto]).
    assert (Ey : y = z) by (apply edge_ext; [exact Eyz | rewrite !Tg; [reflexivity | rewrite Ech | rewrite Ech]; simpl; auto]).
    subst y z. intros a b Ha Hb. rewrite Ech in Ha, Hb. simpl in Ha, Hb.
    destruct Ha as [<-|[<-|[<-|[]]]], Hb as [<-|[<-|[<-|[]]]]; reflexivity. }
  split; [rewrite <- (rlevel_node s id nd E); apply (dent_indep s _ phi H D)|].
  split; [apply (child_nth s H id nd _ x E Hx)|].
  split; [apply (child_nth s H id nd _ y E Hy) | apply (child_nth s H id nd _ z E Hz)].
Qed.

(** ** The theorems in terms of [semk] only *)

(** value of [r] under the choice [c0]: [semk] with the standard fuel *)
Definition tvalue (s : snap) (r : ref) (c0 : nat -> nat) (x : tri) : Prop :=
  semk s (FUEL s) r c0 = Some (tcode x).

Lemma tvalue_fun : forall s r c0 x y, tvalue s r c0 x -> tvalue s r c0 y -> x = y.
Proof. intros s r c0 x y A B. unfold tvalue in *. apply tcode_inj. congruence. Qed.

Section Top.
Variable gt : ref -> ref -> bool.
Variable C : Type.
Variable cget : C -> N -> list ref -> option ref.
Variable cadd : C -> N -> list ref -> ref -> C.
Hypothesis Hlossy : lossy cget cadd.

Theorem td_apply_not_sound : forall fuel s c f,
  TdOK s -> TCacheOK cget s c -> ref_ok s f -> FUEL s <= fuel ->
  exists s' c' r, td_apply_not C cget cadd fuel s c f = Some (s', c', r) /\
    TdOK s' /\ extends s s' /\ TCacheOK cget s' c' /\ ref_ok s' r /\
    forall a : assignment, exists x,
      tvalue s f (chc a) x /\ tvalue s' r (chc a) (k_not x).
Proof.
  intros fuel s c f B O Hf Hfuel.
  destruct (dent_exists s f B Hf) as [phi Df]. unfold FUEL in Hfuel.
  destruct (td_apply_not_ok C cget cadd Hlossy fuel s c f phi B O Df ltac:(lia))
    as [s' [c' [r [E [B' [X [O' [D' _]]]]]]]].
  exists s', c', r. repeat (split; [assumption|]). split; [apply (proj1 D')|].
  intros a. exists (phi a). split; [apply (proj2 Df a) | apply (proj2 D' a)].
Qed.

Theorem td_apply_bin_sound : forall op fuel s c f g,
  TdOK s -> TCacheOK cget s c -> ref_ok s f -> ref_ok s g -> FUEL s <= fuel ->
  exists s' c' r, td_apply_bin gt C cget cadd fuel s c op f g = Some (s', c', r) /\
    TdOK s' /\ extends s s' /\ TCacheOK cget s' c' /\ ref_ok s' r /\
    forall a : assignment, exists x y,
      tvalue s f (chc a) x /\ tvalue s g (chc a) y /\ tvalue s' r (chc a) (table op x y).
Proof.
  intros op fuel s c f g B O Hf Hg Hfuel.
  destruct (dent_exists s f B Hf) as [phi Df]. destruct (dent_exists s g B Hg) as [psi Dg].
  unfold FUEL in Hfuel.
  destruct (td_apply_bin_ok gt C cget cadd Hlossy op fuel s c f g phi psi B O Df Dg ltac:(lia))
    as [s' [c' [r [E [B' [X [O' [D' _]]]]]]]].
  exists s', c', r. repeat (split; [assumption|]). split; [apply (proj1 D')|].
  intros a. exists (phi a), (psi a).
  split; [apply (proj2 Df a)|]. split; [apply (proj2 Dg a) | apply (proj2 D' a)].
Qed.

Theorem td_apply_ite_sound : forall fuel s c f g h,
  TdOK s -> TCacheOK cget s c -> ref_ok s f -> ref_ok s g -> ref_ok s h -> FUEL s <= fuel ->
  exists s' c' r, td_apply_ite gt C cget cadd fuel s c f g h = Some (s', c', r) /\
    TdOK s' /\ extends s s' /\ TCacheOK cget s' c' /\ ref_ok s' r /\
    forall a : assignment, exists x y z,
      tvalue s f (chc a) x /\ tvalue s g (chc a) y /\ tvalue s h (chc a) z /\
      tvalue s' r (chc a) (ite3 x y z).
Proof.
  intros fuel s c f g h B O Hf Hg Hh Hfuel.
  destruct (dent_exists s f B Hf) as [phi Df]. destruct (dent_exists s g B Hg) as [psi Dg].
  destruct (dent_exists s h B Hh) as [theta Dh]. unfold FUEL in Hfuel.
  destruct (td_apply_ite_ok gt C cget cadd Hlossy fuel s c f g h phi psi theta B O Df Dg Dh ltac:(lia))
    as [s' [c' [r [E [B' [X [O' [D' _]]]]]]]].
  exists s', c', r. repeat (split; [assumption|]). split; [apply (proj1 D')|].
  intros a. exists (phi a), (psi a), (theta a).
  split; [apply (proj2 Df a)|]. split; [apply (proj2 Dg a)|].
  split; [apply (proj2 Dh a) | apply (proj2 D' a)].
Qed.

End Top.

(** ** In terms of three-valued assignments of the variables *)

(** the assignment by level that an assignment of the variables induces under
    the table's variable order *)
Definition lvl_asg (s : snap) (av : nat -> tri) : assignment :=
  fun l => match nth_error (s_l2v s) l with Some v => av v | None => TT end.

(** the three-valued function (of the variables) of a reference *)
Definition tfun_of (s : snap) (r : ref) : (nat -> tri) -> tri :=
  fun av => match semk s (FUEL s) r (chc (lvl_asg s av)) with
            | Some c => match tdecode c with Some v => v | None => TF end
            | None => TF
            end.

Lemma tfun_of_den : forall s r phi, DenT s r phi -> forall av, tfun_of s r av = phi (lvl_asg s av).
Proof.
  intros s r phi [_ D] av. unfold tfun_of, FUEL. rewrite D, tdecode_tcode. reflexivity.
Qed.

Lemma lvl_asg_extends : forall s s' av l, extends s s' -> lvl_asg s' av l = lvl_asg s av l.
Proof. intros s s' av l X. unfold lvl_asg. rewrite (ext_l2v _ _ X). reflexivity. Qed.

Section TopAsg.
Variable gt : ref -> ref -> bool.
Variable C : Type.
Variable cget : C -> N -> list ref -> option ref.
Variable cadd : C -> N -> list ref -> ref -> C.
Hypothesis Hlossy : lossy cget cadd.

Lemma tfun_of_ext : forall s s' r phi av, TdOK s' -> extends s s' -> DenT s' r phi ->
  tfun_of s' r av = phi (lvl_asg s av).
Proof.
  intros s s' r phi av B' X D. rewrite (tfun_of_den s' r phi D).
  apply (dent_pointwise s' r phi _ _ (to_wf s' B') D). intros l. apply lvl_asg_extends. exact X.
Qed.

Theorem td_apply_not_tfun : forall s c f,
  TdOK s -> TCacheOK cget s c -> ref_ok s f ->
  exists s' c' r, td_apply_not C cget cadd (FUEL s) s c f = Some (s', c', r) /\
    TdOK s' /\ extends s s' /\ ref_ok s' r /\
    forall av, tfun_of s' r av = k_not (tfun_of s f av).
Proof.
  intros s c f B O Hf. destruct (dent_exists s f B Hf) as [phi Df].
  destruct (td_apply_not_ok C cget cadd Hlossy (FUEL s) s c f phi B O Df ltac:(unfold FUEL; lia))
    as [s' [c' [r [E [B' [X [_ [D' _]]]]]]]].
  exists s', c', r. split; [exact E|]. split; [exact B'|]. split; [exact X|]. split; [apply (proj1 D')|].
  intros av. rewrite (tfun_of_ext s s' r _ av B' X D'), (tfun_of_den s f phi Df). reflexivity.
Qed.

Theorem td_apply_bin_tfun : forall op s c f g,
  TdOK s -> TCacheOK cget s c -> ref_ok s f -> ref_ok s g ->
  exists s' c' r, td_apply_bin gt C cget cadd (FUEL s) s c op f g = Some (s', c', r) /\
    TdOK s' /\ extends s s' /\ ref_ok s' r /\
    forall av, tfun_of s' r av = table op (tfun_of s f av) (tfun_of s g av).
Proof.
  intros op s c f g B O Hf Hg.
  destruct (dent_exists s f B Hf) as [phi Df]. destruct (dent_exists s g B Hg) as [psi Dg].
  destruct (td_apply_bin_ok gt C cget cadd Hlossy op (FUEL s) s c f g phi psi B O Df Dg
              ltac:(unfold FUEL; lia)) as [s' [c' [r [E [B' [X [_ [D' _]]]]]]]].
  exists s', c', r. split; [exact E|]. split; [exact B'|]. split; [exact X|]. split; [apply (proj1 D')|].
  intros av. rewrite (tfun_of_ext s s' r _ av B' X D'), (tfun_of_den s f phi Df), (tfun_of_den s g psi Dg).
  reflexivity.
Qed.

Theorem td_apply_ite_tfun : forall s c f g h,
  TdOK s -> TCacheOK cget s c -> ref_ok s f -> ref_ok s g -> ref_ok s h ->
  exists s' c' r, td_apply_ite gt C cget cadd (FUEL s) s c f g h = Some (s', c', r) /\
    TdOK s' /\ extends s s' /\ ref_ok s' r /\
    forall av, tfun_of s' r av = ite3 (tfun_of s f av) (tfun_of s g av) (tfun_of s h av).
Proof.
  intros s c f g h B O Hf Hg Hh.
  destruct (dent_exists s f B Hf) as [phi Df]. destruct (dent_exists s g B Hg) as [psi Dg].
  destruct (dent_exists s h B Hh) as [theta Dh].
  destruct (td_apply_ite_ok gt C cget cadd Hlossy (FUEL s) s c f g h phi psi theta B O Df Dg Dh
              ltac:(unfold FUEL; lia)) as [s' [c' [r [E [B' [X [_ [D' _]]]]]]]].
  exists s', c', r. split; [exact E|]. split; [exact B'|]. split; [exact X|]. split; [apply (proj1 D')|].
  intros av. rewrite (tfun_of_ext s s' r _ av B' X D'), (tfun_of_den s f phi Df),
    (tfun_of_den s g psi Dg), (tfun_of_den s h theta Dh). reflexivity.
Qed.

End TopAsg.

Theorem td_const_tfun : forall s v, TdOK s ->
  exists r, td_const s v = Some r /\ ref_ok s r /\ forall av, tfun_of s r av = v.
Proof.
  intros s v B. destruct (td_const_ok s v B) as [t [E [D _]]]. exists (RT t).
  split; [exact E|]. split; [apply (proj1 D)|]. intros av. apply (tfun_of_den s _ _ D).
Qed.

Theorem td_var_tfun : forall s v, TdOK s -> v < nlevels s ->
  exists s' r, td_var s v = Some (s', r) /\ TdOK s' /\ extends s s' /\ ref_ok s' r /\
    forall av, tfun_of s' r av = av v.
Proof.
  intros s v B Hv.
  destruct (td_var_ok s v B Hv) as [lvl [s' [r [E1 [E2 [Em [B' [X [D _]]]]]]]]].
  exists s', r. split; [exact Em|]. split; [exact B'|]. split; [exact X|]. split; [apply (proj1 D)|].
  intros av. rewrite (tfun_of_den s' r _ D). unfold fn_var, lvl_asg.
  rewrite (ext_l2v _ _ X), E2. reflexivity.
Qed.

(** ** The returned handle does not depend on the cache, the edge order or
       the history *)

Section Transparent.
(** two arbitrary cache implementations and edge orders *)
Variables gt1 gt2 : ref -> ref -> bool.
Variables C1 C2 : Type.
Variable cget1 : C1 -> N -> list ref -> option ref.
Variable cadd1 : C1 -> N -> list ref -> ref -> C1.
Variable cget2 : C2 -> N -> list ref -> option ref.
Variable cadd2 : C2 -> N -> list ref -> ref -> C2.
Hypothesis L1 : lossy cget1 cadd1.
Hypothesis L2 : lossy cget2 cadd2.

(** (a) whatever the two caches contain (as long as it is correct), the two
    runs on the same table return the same reference: started from the table
    the first run produced, the second run creates nothing *)
Theorem td_apply_bin_cache_transparent : forall op s c1 c2 f g fuel1 fuel2 s1 c1' r1 s2 c2' r2,
  TdOK s -> TCacheOK cget1 s c1 -> TCacheOK cget2 s c2 -> ref_ok s f -> ref_ok s g ->
  FUEL s <= fuel1 -> FUEL s <= fuel2 ->
  td_apply_bin gt1 C1 cget1 cadd1 fuel1 s c1 op f g = Some (s1, c1', r1) ->
  td_apply_bin gt2 C2 cget2 cadd2 fuel2 s c2 op f g = Some (s2, c2', r2) ->
  forall a : assignment, semk s1 (FUEL s1) r1 (chc a) = semk s2 (FUEL s2) r2 (chc a).
Proof.
  intros op s c1 c2 f g fuel1 fuel2 s1 c1' r1 s2 c2' r2 B O1 O2 Hf Hg F1 F2 E1 E2 a.
  destruct (dent_exists s f B Hf) as [phi Df]. destruct (dent_exists s g B Hg) as [psi Dg].
  unfold FUEL in F1, F2.
  destruct (td_apply_bin_ok gt1 C1 cget1 cadd1 L1 op fuel1 s c1 f g phi psi B O1 Df Dg ltac:(lia))
    as [sa [ca [ra [Ea [_ [_ [_ [Da _]]]]]]]].
  destruct (td_apply_bin_ok gt2 C2 cget2 cadd2 L2 op fuel2 s c2 f g phi psi B O2 Df Dg ltac:(lia))
    as [sb [cb [rb [Eb [_ [_ [_ [Db _]]]]]]]].
  rewrite E1 in Ea. rewrite E2 in Eb. inversion Ea; subst. inversion Eb; subst.
  unfold FUEL. rewrite (proj2 Da a), (proj2 Db a). reflexivity.
Qed.

(** (b) repeating the operation in any later state of the same table (more
    nodes, any correct cache of any implementation, any edge order) returns
    the identical reference and leaves the table unchanged *)
Theorem td_apply_not_history_independent : forall s c1 f fuel1 s1 c1' r1,
  TdOK s -> TCacheOK cget1 s c1 -> ref_ok s f -> FUEL s <= fuel1 ->
  td_apply_not C1 cget1 cadd1 fuel1 s c1 f = Some (s1, c1', r1) ->
  forall s2 c2 fuel2, TdOK s2 -> extends s1 s2 -> TCacheOK cget2 s2 c2 -> FUEL s2 <= fuel2 ->
  exists c2', td_apply_not C2 cget2 cadd2 fuel2 s2 c2 f = Some (s2, c2', r1).
Proof.
  intros s c1 f fuel1 s1 c1' r1 B O1 Hf F1 E1 s2 c2 fuel2 B2 X O2 F2.
  destruct (dent_exists s f B Hf) as [phi Df]. unfold FUEL in F1, F2.
  destruct (td_apply_not_ok C1 cget1 cadd1 L1 fuel1 s c1 f phi B O1 Df ltac:(lia))
    as [sa [ca [ra [Ea [Ba [Xa [_ [Da _]]]]]]]].
  rewrite E1 in Ea. inversion Ea; subst sa ca ra.
  assert (X02 : extends s s2) by (eapply extends_trans; eauto).
  pose proof (dent_extends s s2 _ _ B X02 Df) as Df2.
  destruct (td_apply_not_ok C2 cget2 cadd2 L2 fuel2 s2 c2 f phi B2 O2 Df2 ltac:(lia))
    as [sb [cb [rb [Eb [_ [_ [_ [_ Sb]]]]]]]].
  destruct (Sb r1 (dent_extends s1 s2 _ _ Ba X Da)) as [-> ->].
  exists cb. exact Eb.
Qed.

Theorem td_apply_bin_history_independent : forall op s c1 f g fuel1 s1 c1' r1,
  TdOK s -> TCacheOK cget1 s c1 -> ref_ok s f -> ref_ok s g -> FUEL s <= fuel1 ->
  td_apply_bin gt1 C1 cget1 cadd1 fuel1 s c1 op f g = Some (s1, c1', r1) ->
  forall s2 c2 fuel2, TdOK s2 -> extends s1 s2 -> TCacheOK cget2 s2 c2 -> FUEL s2 <= fuel2 ->
  exists c2', td_apply_bin gt2 C2 cget2 cadd2 fuel2 s2 c2 op f g = Some (s2, c2', r1).
Proof.
  intros op s c1 f g fuel1 s1 c1' r1 B O1 Hf Hg F1 E1 s2 c2 fuel2 B2 X O2 F2.
  destruct (dent_exists s f B Hf) as [phi Df]. destruct (dent_exists s g B Hg) as [psi Dg].
  unfold FUEL in F1, F2.
  destruct (td_apply_bin_ok gt1 C1 cget1 cadd1 L1 op fuel1 s c1 f g phi psi B O1 Df Dg ltac:(lia))
    as [sa [ca [ra [Ea [Ba [Xa [_ [Da _]]]]]]]].
  rewrite E1 in Ea. inversion Ea; subst sa ca ra.
  assert (X02 : extends s s2) by (eapply extends_trans; eauto).
  pose proof (dent_extends s s2 _ _ B X02 Df) as Df2. pose proof (dent_extends s s2 _ _ B X02 Dg) as Dg2.
  destruct (td_apply_bin_ok gt2 C2 cget2 cadd2 L2 op fuel2 s2 c2 f g phi psi B2 O2 Df2 Dg2 ltac:(lia))
    as [sb [cb [rb [Eb [_ [_ [_ [_ Sb]]]]]]]].
  destruct (Sb r1 (dent_extends s1 s2 _ _ Ba X Da)) as [-> ->].
  exists cb. exact Eb.
Qed.

Theorem td_apply_ite_history_independent : forall s c1 f g h fuel1 s1 c1' r1,
  TdOK s -> TCacheOK cget1 s c1 -> ref_ok s f -> ref_ok s g -> ref_ok s h -> FUEL s <= fuel1 ->
  td_apply_ite gt1 C1 cget1 cadd1 fuel1 s c1 f g h = Some (s1, c1', r1) ->
  forall s2 c2 fuel2, TdOK s2 -> extends s1 s2 -> TCacheOK cget2 s2 c2 -> FUEL s2 <= fuel2 ->
  exists c2', td_apply_ite gt2 C2 cget2 cadd2 fuel2 s2 c2 f g h = Some (s2, c2', r1).
Proof.
  intros s c1 f g h fuel1 s1 c1' r1 B O1 Hf Hg Hh F1 E1 s2 c2 fuel2 B2 X O2 F2.
  destruct (dent_exists s f B Hf) as [phi Df]. destruct (dent_exists s g B Hg) as [psi Dg].
  destruct (dent_exists s h B Hh) as [theta Dh]. unfold FUEL in F1, F2.
  destruct (td_apply_ite_ok gt1 C1 cget1 cadd1 L1 fuel1 s c1 f g h phi psi theta B O1 Df Dg Dh ltac:(lia))
    as [sa [ca [ra [Ea [Ba [Xa [_ [Da _]]]]]]]].
  rewrite E1 in Ea. inversion Ea; subst sa ca ra.
  assert (X02 : extends s s2) by (eapply extends_trans; eauto).
  pose proof (dent_extends s s2 _ _ B X02 Df) as Df2. pose proof (dent_extends s s2 _ _ B X02 Dg) as Dg2.
  pose proof (dent_extends s s2 _ _ B X02 Dh) as Dh2.
  destruct (td_apply_ite_ok gt2 C2 cget2 cadd2 L2 fuel2 s2 c2 f g h phi psi theta B2 O2 Df2 Dg2 Dh2 ltac:(lia))
    as [sb [cb [rb [Eb [_ [_ [_ [_ Sb]]]]]]]].
  destruct (Sb r1 (dent_extends s1 s2 _ _ Ba X Da)) as [-> ->].
  exists cb. exact Eb.
Qed.

End Transparent.

(** (c) in its result table the returned reference is THE reference with the
    result's meaning *)
Theorem td_apply_bin_result_unique : forall gt C cget cadd, lossy cget cadd ->
  forall op fuel s (c : C) f g s' c' r,
  TdOK s -> TCacheOK cget s c -> ref_ok s f -> ref_ok s g -> FUEL s <= fuel ->
  td_apply_bin gt C cget cadd fuel s c op f g = Some (s', c', r) ->
  forall r0, ref_ok s' r0 ->
    (forall a : assignment, exists x y,
        tvalue s f (chc a) x /\ tvalue s g (chc a) y /\ tvalue s' r0 (chc a) (table op x y)) ->
    r0 = r.
Proof.
  intros gt C cget cadd L op fuel s c f g s' c' r B O Hf Hg F E r0 H0 Hsem.
  destruct (dent_exists s f B Hf) as [phi Df]. destruct (dent_exists s g B Hg) as [psi Dg].
  unfold FUEL in F.
  destruct (td_apply_bin_ok gt C cget cadd L op fuel s c f g phi psi B O Df Dg ltac:(lia))
    as [sa [ca [ra [Ea [Ba [_ [_ [Da _]]]]]]]].
  rewrite E in Ea. inversion Ea; subst sa ca ra.
  apply (dent_canon s' r0 r (fn_bin op phi psi) Ba); [|exact Da].
  split; [exact H0|]. intros a. destruct (Hsem a) as [x [y [Vx [Vy V0]]]]. unfold fn_bin.
  rewrite (tvalue_fun s f (chc a) _ _ (proj2 Df a) Vx), (tvalue_fun s g (chc a) _ _ (proj2 Dg a) Vy).
  exact V0.
Qed.

Theorem td_apply_ite_result_unique : forall gt C cget cadd, lossy cget cadd ->
  forall fuel s (c : C) f g h s' c' r,
  TdOK s -> TCacheOK cget s c -> ref_ok s f -> ref_ok s g -> ref_ok s h -> FUEL s <= fuel ->
  td_apply_ite gt C cget cadd fuel s c f g h = Some (s', c', r) ->
  forall r0, ref_ok s' r0 ->
    (forall a : assignment, exists x y z,
        tvalue s f (chc a) x /\ tvalue s g (chc a) y /\ tvalue s h (chc a) z /\
        tvalue s' r0 (chc a) (ite3 x y z)) ->
    r0 = r.
Proof.
  intros gt C cget cadd L fuel s c f g h s' c' r B O Hf Hg Hh F E r0 H0 Hsem.
  destruct (dent_exists s f B Hf) as [phi Df]. destruct (dent_exists s g B Hg) as [psi Dg].
  destruct (dent_exists s h B Hh) as [theta Dh]. unfold FUEL in F.
  destruct (td_apply_ite_ok gt C cget cadd L fuel s c f g h phi psi theta B O Df Dg Dh ltac:(lia))
    as [sa [ca [ra [Ea [Ba [_ [_ [Da _]]]]]]]].
  rewrite E in Ea. inversion Ea; subst sa ca ra.
  apply (dent_canon s' r0 r (fn_ite phi psi theta) Ba); [|exact Da].
  split; [exact H0|]. intros a. destruct (Hsem a) as [x [y [z [Vx [Vy [Vz V0]]]]]]. unfold fn_ite.
  rewrite (tvalue_fun s f (chc a) _ _ (proj2 Df a) Vx), (tvalue_fun s g (chc a) _ _ (proj2 Dg a) Vy),
    (tvalue_fun s h (chc a) _ _ (proj2 Dh a) Vz).
  exact V0.
Qed.
