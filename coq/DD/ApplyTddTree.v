(** * The tree model of C11 (DD/Tdd.v) is the unfolding of the table model
      (DD/ApplyTdd.v)

    [td_unfold s r] reads the sub-diagram below reference [r] as a value of the
    tree type [tdd] of DD/Tdd.v (structural sharing forgotten).

    - [td_unfold_ok]: every reference of a [TdOK] table unfolds to an ordered,
      reduced, level-bounded tree whose function ([Tdd.sem]) is the function the
      reference denotes;
    - [td_unfold_inj]: two references of one table with the same unfolding are
      the same reference (hash-consing = structural equality of the trees: the
      justification of [tdd_eqb] as "edge equality" in DD/Tdd.v);
    - [td_apply_not_tree], [td_apply_bin_tree], [td_apply_ite_tree]: the result
      of the table algorithm unfolds to the result of the tree algorithm of
      DD/Tdd.v on the unfolded operands, for every pair of edge orders, cache
      and cache contents. *)

From Coq Require Import List NArith PArith Bool Arith Lia FMapPositive.
From OxiVerif Require Import DD.Table DD.TableProofs DD.Canon DD.Build DD.BuildProofs
  DD.Apply DD.ApplyProofs DD.Tdd DD.TddTables DD.TddBasic DD.TddCanon DD.TddApplyBin DD.TddApplyIte
  DD.ApplyTdd DD.ApplyTddBase DD.ApplyTddProofs DD.ApplyTddIte DD.ApplyTddTop.
Import ListNotations.

Definition unfoldT (s : snap) (r : ref) : option tdd := td_unfold (FUEL s) s r.

Theorem td_unfold_ok : forall s, TdOK s -> forall fuel r phi, DenT s r phi ->
  nlevels s - rlevel s r < fuel ->
  exists t, td_unfold fuel s r = Some t /\ (forall a, sem t a = phi a) /\
    ordered_from (rlevel s r) t /\ reduced t /\ below (nlevels s) t.
Proof.
  intros s B. pose proof (to_wf s B) as H.
  induction fuel as [|n IH]; intros r phi D Hf; [lia|].
  destruct r as [t|id].
  - destruct (proj1 D) as [c Ec]. simpl. rewrite Ec.
    destruct (tdecode_total c (to_codes s B t c Ec)) as [v Ev]. rewrite Ev.
    exists (Leaf v). split; [reflexivity|]. split; [|simpl; auto].
    intros a. simpl. apply tcode_inj. pose proof (proj2 D a) as E. rewrite semk_T, Ec in E.
    rewrite (tcode_tdecode c v Ev). congruence.
  - pose proof (td_cofactors_ok s (RN id) phi B D) as K.
    destruct K as [nd [x [y [z [E [Ecof [Dx [Dy [Dz [Hred [Ip [Lx [Ly Lz]]]]]]]]]]]]].
    simpl in Ecof. rewrite E in Ecof. unfold children3 in Ecof.
    destruct (nchildren nd) as [|ex [|ey [|ez [|w rest]]]] eqn:Ech; try discriminate.
    inversion Ecof; subst x y z. clear Ecof.
    rewrite (rlevel_node s id nd E) in Hf. pose proof (wf_level s H id nd E) as Hl.
    pose proof (rlevel_le s H (eref ex)). pose proof (rlevel_le s H (eref ey)).
    pose proof (rlevel_le s H (eref ez)).
    destruct (IH _ _ Dx ltac:(lia)) as [tx [Ux [Sx [Ox [Rx Bx]]]]].
    destruct (IH _ _ Dy ltac:(lia)) as [ty [Uy [Sy [Oy [Ry By]]]]].
    destruct (IH _ _ Dz ltac:(lia)) as [tz [Uz [Sz [Oz [Rz Bz]]]]].
    simpl. rewrite E, Ech, Ux, Uy, Uz.
    exists (Node (nlevel nd) tx ty tz). split; [reflexivity|].
    split; [|split; [|split]].
    + intros a. rewrite sem_node.
      rewrite <- (dent_upd_self s (RN id) phi a (nlevel nd) H D).
      destruct (a (nlevel nd)); [apply Sz | apply Sy | apply Sx].
    + try rewrite (rlevel_node s id nd E). simpl. split; [apply le_n|].
      split; [apply (ordered_from_mono tx _ _ Lx Ox)|].
      split; [apply (ordered_from_mono ty _ _ Ly Oy) | apply (ordered_from_mono tz _ _ Lz Oz)].
    + simpl. split; [|auto]. intros [Exy Eyz]. apply Hred. subst ty tz. split.
      * apply (dent_canon s _ _ (fn_restrict phi (nlevel nd) TT) B Dx).
        apply (dent_ext s _ _ _ Dy). intros a. rewrite <- Sy. apply Sx.
      * apply (dent_canon s _ _ (fn_restrict phi (nlevel nd) TU) B Dy).
        apply (dent_ext s _ _ _ Dz). intros a. rewrite <- Sz. apply Sy.
    + simpl. auto.
Qed.

Corollary unfoldT_ok : forall s r phi, TdOK s -> DenT s r phi ->
  exists t, unfoldT s r = Some t /\ (forall a, sem t a = phi a) /\
    ordered t /\ reduced t /\ below (nlevels s) t.
Proof.
  intros s r phi B D.
  destruct (td_unfold_ok s B (FUEL s) r phi D ltac:(unfold FUEL; lia)) as [t [U [S [O [R Bl]]]]].
  exists t. split; [exact U|]. split; [exact S|]. split; [|auto].
  apply (ordered_from_mono t _ 0 (Nat.le_0_l _) O).
Qed.

(** the tree determines the reference *)
Theorem td_unfold_inj : forall s r1 r2 t, TdOK s -> ref_ok s r1 -> ref_ok s r2 ->
  unfoldT s r1 = Some t -> unfoldT s r2 = Some t -> r1 = r2.
Proof.
  intros s r1 r2 t B O1 O2 U1 U2.
  destruct (dent_exists s r1 B O1) as [p1 D1]. destruct (dent_exists s r2 B O2) as [p2 D2].
  destruct (unfoldT_ok s r1 p1 B D1) as [t1 [V1 [S1 _]]].
  destruct (unfoldT_ok s r2 p2 B D2) as [t2 [V2 [S2 _]]].
  rewrite U1 in V1. rewrite U2 in V2. inversion V1; subst t1. inversion V2; subst t2.
  apply (dent_canon s r1 r2 p1 B D1). apply (dent_ext s r2 p2 p1 D2).
  intros a. rewrite <- S1, <- S2. reflexivity.
Qed.

(** and vice versa: the unfolding of a reference is the only ordered reduced
    tree with the reference's function *)
Theorem td_unfold_unique : forall s r phi t, TdOK s -> DenT s r phi ->
  ordered t -> reduced t -> (forall a, sem t a = phi a) -> unfoldT s r = Some t.
Proof.
  intros s r phi t B D Ot Rt St.
  destruct (unfoldT_ok s r phi B D) as [t' [U [S [O [R _]]]]]. rewrite U. f_equal.
  apply canon; auto. intros a. rewrite S, St. reflexivity.
Qed.

(** the unfolding of a reference does not change when the table grows *)
Theorem td_unfold_extends : forall s s' r, TdOK s -> TdOK s' -> extends s s' -> ref_ok s r ->
  unfoldT s' r = unfoldT s r.
Proof.
  intros s s' r B B' X Hok. destruct (dent_exists s r B Hok) as [phi D].
  destruct (unfoldT_ok s r phi B D) as [t [U [S [O [R _]]]]]. rewrite U.
  apply (td_unfold_unique s' r phi t B' (dent_extends s s' r phi B X D) O R S).
Qed.

(** ** The algorithms commute with unfolding *)

Section Tree.
Variable gt : ref -> ref -> bool.              (* edge order of the table algorithm *)
Variable gtt : tdd -> tdd -> bool.             (* edge order of the tree algorithm *)
Variable C : Type.
Variable cget : C -> N -> list ref -> option ref.
Variable cadd : C -> N -> list ref -> ref -> C.
Hypothesis Hlossy : lossy cget cadd.

Theorem td_apply_not_tree : forall fuel s c f s' c' r,
  TdOK s -> TCacheOK cget s c -> ref_ok s f -> FUEL s <= fuel ->
  td_apply_not C cget cadd fuel s c f = Some (s', c', r) ->
  exists tf, unfoldT s f = Some tf /\ unfoldT s' r = Some (Tdd.apply_not tf).
Proof.
  intros fuel s c f s' c' r B O Hf F E.
  destruct (dent_exists s f B Hf) as [phi Df]. unfold FUEL in F.
  destruct (td_apply_not_ok C cget cadd Hlossy fuel s c f phi B O Df ltac:(lia))
    as [sa [ca [ra [Ea [Ba [_ [_ [Da _]]]]]]]].
  rewrite E in Ea. inversion Ea; subst sa ca ra.
  destruct (unfoldT_ok s f phi B Df) as [tf [Uf [Sf [Of [Rf _]]]]].
  exists tf. split; [exact Uf|].
  apply (td_unfold_unique s' r (fn_not phi) _ Ba Da).
  - apply apply_not_ordered. exact Of.
  - apply apply_not_reduced. exact Rf.
  - intros a. rewrite apply_not_sem, Sf. reflexivity.
Qed.

Theorem td_apply_bin_tree : forall op fuel s c f g s' c' r,
  TdOK s -> TCacheOK cget s c -> ref_ok s f -> ref_ok s g -> FUEL s <= fuel ->
  td_apply_bin gt C cget cadd fuel s c op f g = Some (s', c', r) ->
  exists tf tg, unfoldT s f = Some tf /\ unfoldT s g = Some tg /\
    unfoldT s' r = Tdd.apply_bin_auto gtt op tf tg.
Proof.
  intros op fuel s c f g s' c' r B O Hf Hg F E.
  destruct (dent_exists s f B Hf) as [phi Df]. destruct (dent_exists s g B Hg) as [psi Dg].
  unfold FUEL in F.
  destruct (td_apply_bin_ok gt C cget cadd Hlossy op fuel s c f g phi psi B O Df Dg ltac:(lia))
    as [sa [ca [ra [Ea [Ba [_ [_ [Da _]]]]]]]].
  rewrite E in Ea. inversion Ea; subst sa ca ra.
  destruct (unfoldT_ok s f phi B Df) as [tf [Uf [Sf [Of [Rf _]]]]].
  destruct (unfoldT_ok s g psi B Dg) as [tg [Ug [Sg [Og [Rg _]]]]].
  exists tf, tg. split; [exact Uf|]. split; [exact Ug|].
  destruct (apply_bin_auto_correct gtt op tf tg) as [tr [Er [Sr [Or [Rr _]]]]].
  rewrite Er.
  apply (td_unfold_unique s' r (fn_bin op phi psi) tr Ba Da).
  - apply (Or 0); assumption.
  - apply Rr; assumption.
  - intros a. rewrite Sr, Sf, Sg. reflexivity.
Qed.

Theorem td_apply_ite_tree : forall fuel s c f g h s' c' r,
  TdOK s -> TCacheOK cget s c -> ref_ok s f -> ref_ok s g -> ref_ok s h -> FUEL s <= fuel ->
  td_apply_ite gt C cget cadd fuel s c f g h = Some (s', c', r) ->
  exists tf tg th, unfoldT s f = Some tf /\ unfoldT s g = Some tg /\ unfoldT s h = Some th /\
    unfoldT s' r = Tdd.apply_ite_auto gtt tf tg th.
Proof.
  intros fuel s c f g h s' c' r B O Hf Hg Hh F E.
  destruct (dent_exists s f B Hf) as [phi Df]. destruct (dent_exists s g B Hg) as [psi Dg].
  destruct (dent_exists s h B Hh) as [theta Dh]. unfold FUEL in F.
  destruct (td_apply_ite_ok gt C cget cadd Hlossy fuel s c f g h phi psi theta B O Df Dg Dh ltac:(lia))
    as [sa [ca [ra [Ea [Ba [_ [_ [Da _]]]]]]]].
  rewrite E in Ea. inversion Ea; subst sa ca ra.
  destruct (unfoldT_ok s f phi B Df) as [tf [Uf [Sf [Of [Rf _]]]]].
  destruct (unfoldT_ok s g psi B Dg) as [tg [Ug [Sg [Og [Rg _]]]]].
  destruct (unfoldT_ok s h theta B Dh) as [th [Uh [Sh [Oh [Rh _]]]]].
  exists tf, tg, th. split; [exact Uf|]. split; [exact Ug|]. split; [exact Uh|].
  destruct (apply_ite_auto_correct gtt tf tg th) as [tr [Er [Sr [Or [Rr _]]]]].
  rewrite Er.
  apply (td_unfold_unique s' r (fn_ite phi psi theta) tr Ba Da).
  - apply (Or 0); assumption.
  - apply Rr; assumption.
  - intros a. rewrite Sr, Sf, Sg, Sh. reflexivity.
Qed.

End Tree.
