(** * Node construction on a snapshot (k-ary reduction rule: BDD, MTBDD, TDD)

    Executable definitions only; the proofs are in DD/BuildProofs.v.

    [mk_node] mirrors [reduce] of oxidd-rules-bdd/src/simple/mod.rs (the
    "all children equal" test of [BDDRules::reduce]) followed by
    [LevelView::get_or_insert] of the manager: an existing node with the same
    level and children is reused, otherwise a node is inserted under a fresh
    id.  Reference counts are not part of this development: new nodes get
    [nrc := 0]. *)

From Coq Require Import List NArith PArith Bool Arith FMapPositive.
From OxiVerif Require Import DD.Table.
Import ListNotations.

(** an untagged edge to [r] (the only edges a BDD has) *)
Definition E (r : ref) : edge := mkEdge r false.

Definition node_matches (lvl : nat) (ch : list edge) (p : positive * node) : bool :=
  Nat.eqb (nlevel (snd p)) lvl && edges_eqb (nchildren (snd p)) ch.

(** the unique-table lookup of [LevelView::get_or_insert]: a stored node of
    level [lvl] with exactly these children *)
Definition find_dup (s : snap) (lvl : nat) (ch : list edge) : option positive :=
  match find (node_matches lvl ch) (PositiveMap.elements (s_nodes s)) with
  | Some p => Some (fst p)
  | None => None
  end.

Definition max_id (s : snap) : positive :=
  fold_left (fun m (p : positive * node) => Pos.max m (fst p))
            (PositiveMap.elements (s_nodes s)) 1%positive.

(** an id that no stored node carries (the slot the node store hands out) *)
Definition fresh_id (s : snap) : positive := Pos.succ (max_id s).

Definition set_nodes (s : snap) (m : PositiveMap.t node) : snap :=
  mkSnap (s_kind s) m (s_terms s) (s_v2l s) (s_l2v s) (s_handles s).

(** [LevelView::get_or_insert (InnerNode::new level children)] *)
Definition get_or_insert (s : snap) (lvl : nat) (ch : list edge) : snap * edge :=
  match find_dup s lvl ch with
  | Some id => (s, E (RN id))
  | None =>
    let id := fresh_id s in
    (set_nodes s (PositiveMap.add id (mkNode lvl ch lvl 0%N) (s_nodes s)), E (RN id))
  end.

(** [reduce manager level t e op] (for any arity: all children equal -> that
    child).  The empty child list does not occur (arity >= 2); the theorems
    require [length ch = arity]. *)
Definition mk_node (s : snap) (lvl : nat) (ch : list edge) : snap * edge :=
  match ch with
  | [] => (s, E (RT 0%N))
  | c0 :: _ => if all_equal ch then (s, c0) else get_or_insert s lvl ch
  end.
