(** * The canonical object of C03: the reduced ordered diagram of a function,
      built bottom-up from the function itself

    Executable definitions only (proofs: DD/BuildCanonProofs.v,
    DD/BuildCanonBcdd.v, DD/BuildCanonZbdd.v).

    C03's last clause says that the node count of a handle "equals the size
    of the unique reduced diagram of its function under the current order".
    [count_reach] (DD/Table.v) counts the nodes below a handle of a stored
    table; this file constructs the object on the other side of that
    equation.  Nothing here mirrors a Rust function of its own: [build_*] is
    the textbook construction (Shannon expansion level by level, from the top
    level down, nodes created on the way back up).  The only node constructor
    it uses is the model of the code's own [reduce] + [LevelView::get_or_insert]:

    - BDD:  [mk_node]  (DD/Build.v,     oxidd-rules-bdd/src/simple/mod.rs [reduce]),
    - BCDD: [cmk_node] (DD/ApplyBcdd.v, oxidd-rules-bdd/src/complement_edge/mod.rs [reduce]),
    - ZBDD: [zmk_node] (DD/ZbddOps.v,   oxidd-rules-zbdd/src/lib.rs [reduce]),

    and the terminal lookups [term_of] / [cget_terminal] of those files
    ([Manager::get_terminal]).

    The function is given over *levels*: a [cfun] maps a choice (level |->
    child index taken there; 0 = then = the level's variable is true, see
    DD/Table.v) to a Boolean.  [lvl_fun] turns a function of the variables
    into a function of the levels under a given variable order, so that
    [build_* v2l l2v (lvl_fun v2l g)] is "the reduced diagram of [g] under
    the order [v2l]".

    The recursion descends through all [n] levels and calls the function once
    per complete choice (2^n calls): it is a specification device and a
    test oracle for small [n], not an algorithm to be used on large inputs. *)

From Coq Require Import List NArith PArith Bool Arith FMapPositive.
From OxiVerif Require Import DD.Table DD.Sem DD.Build DD.Apply DD.ApplyBcdd DD.ZbddOps.
Import ListNotations.

(** a Boolean function of the choice (= assignment by level) *)
Definition cfun := (nat -> nat) -> bool.

(** the choice [c] with level [l] set to child index [i]
    (the same function as [TableProofs.upd]; repeated here because model files
    do not import proof files) *)
Definition cset (c : nat -> nat) (l i : nat) : nat -> nat :=
  fun x => if Nat.eqb x l then i else c x.

(** the choice that agrees with [c] on the levels [lvl, lvl + cnt) and with
    [c0] elsewhere; defined by the same recursion as [build_*] so that the
    leaves of the construction evaluate the function at exactly this choice *)
Fixpoint cmerge (lvl cnt : nat) (c0 c : nat -> nat) : nat -> nat :=
  match cnt with
  | O => c0
  | S k => cmerge (S lvl) k (cset c0 lvl (c lvl)) c
  end.

(** [c] on the levels below [n], "then" (child 0) on all others *)
Definition ctrunc (n : nat) (c : nat -> nat) : nat -> nat := cmerge 0 n (fun _ => 0) c.

(** a function of the variables as a function of the levels, under the order
    [v2l] (variable |-> level); child index 0 = variable true *)
Definition lvl_fun (v2l : list nat) (g : bfun) : cfun :=
  fun c => g (fun v => match nth_error v2l v with
                       | Some l => Nat.eqb (c l) 0
                       | None => false
                       end).

(** an empty table (no inner nodes, no handles) of kind [k] with the given
    terminals and variable order *)
Definition base_snap (k : kind) (terms : list (N * N)) (v2l l2v : list nat) : snap :=
  mkSnap k (PositiveMap.empty node) terms v2l l2v [].

(** terminal ids and value codes of the Boolean kinds with two terminals
    (BDD: False / True; ZBDD: Empty / Base) *)
Definition bool_terms : list (N * N) := [(0%N, 0%N); (1%N, 1%N)].

(** ** BDD *)

(** the reduced diagram, in table [s], of [fun c => f (cmerge lvl cnt c0 c)];
    [lvl + cnt] is the number of levels.  [None] = a terminal is missing
    ([get_terminal(..).unwrap()] would panic); never on a BDD table (proved). *)
Fixpoint build_bdd_from (s : snap) (lvl cnt : nat) (f : cfun) (c0 : nat -> nat)
  : option (snap * ref) :=
  match cnt with
  | O => match term_of s (f c0) with Some t => Some (s, RT t) | None => None end
  | S k =>
    match build_bdd_from s (S lvl) k f (cset c0 lvl 0) with
    | None => None
    | Some (s1, r0) =>
      match build_bdd_from s1 (S lvl) k f (cset c0 lvl 1) with
      | None => None
      | Some (s2, r1) => let '(s3, h) := mk_node s2 lvl [E r0; E r1] in Some (s3, eref h)
      end
    end
  end.

(** the reduced ordered BDD of [f] over [length l2v] levels in a table of its
    own, and its root edge *)
Definition build_bdd (v2l l2v : list nat) (f : cfun) : option (snap * edge) :=
  match build_bdd_from (base_snap KBdd bool_terms v2l l2v) 0 (length l2v) f (fun _ => 0) with
  | Some (s, r) => Some (s, E r)
  | None => None
  end.

(** ** BCDD *)

Fixpoint build_bcdd_from (s : snap) (lvl cnt : nat) (f : cfun) (c0 : nat -> nat)
  : option (snap * edge) :=
  match cnt with
  | O => match cget_terminal s (f c0) with Some e => Some (s, e) | None => None end
  | S k =>
    match build_bcdd_from s (S lvl) k f (cset c0 lvl 0) with
    | None => None
    | Some (s1, e0) =>
      match build_bcdd_from s1 (S lvl) k f (cset c0 lvl 1) with
      | None => None
      | Some (s2, e1) => Some (cmk_node s2 lvl e0 e1)
      end
    end
  end.

(** the single BCDD terminal (id 0; its value code is not interpreted) *)
Definition bcdd_terms : list (N * N) := [(0%N, 1%N)].

Definition build_bcdd (v2l l2v : list nat) (f : cfun) : option (snap * edge) :=
  build_bcdd_from (base_snap KBcdd bcdd_terms v2l l2v) 0 (length l2v) f (fun _ => 0).

(** ** ZBDD *)

(** a ZBDD handle denotes a Boolean function over all levels ([semz] at level
    0); the diagram is that of the family { set of true levels | f true },
    built with the zero-suppression rule *)
Fixpoint build_zbdd_from (s : snap) (lvl cnt : nat) (f : cfun) (c0 : nat -> nat)
  : option (snap * ref) :=
  match cnt with
  | O => match term_of s (f c0) with Some t => Some (s, RT t) | None => None end
  | S k =>
    match build_zbdd_from s (S lvl) k f (cset c0 lvl 0) with
    | None => None
    | Some (s1, hi) =>
      match build_zbdd_from s1 (S lvl) k f (cset c0 lvl 1) with
      | None => None
      | Some (s2, lo) => Some (zmk_node s2 lvl hi lo)
      end
    end
  end.

Definition build_zbdd (v2l l2v : list nat) (f : cfun) : option (snap * edge) :=
  match build_zbdd_from (base_snap KZbdd bool_terms v2l l2v) 0 (length l2v) f (fun _ => 0) with
  | Some (s, r) => Some (s, E r)
  | None => None
  end.

(** the diagram of the kind of the given table's kind ([None] for the kinds
    not covered: MTBDD, TDD) *)
Definition build_kind (k : kind) (v2l l2v : list nat) (f : cfun) : option (snap * edge) :=
  match k with
  | KBdd => build_bdd v2l l2v f
  | KBcdd => build_bcdd v2l l2v f
  | KZbdd => build_zbdd v2l l2v f
  | _ => None
  end.

(** the hypothesis of the node-count theorems as a checker for real snapshots:
    a well-formed table of one of the three Boolean kinds with that kind's
    terminals ([bdd_ok_b], [bcok_b], [zbdd_ok_b] of DD/Apply.v, DD/ApplyBcdd.v,
    DD/ZbddOps.v) *)
Definition bool_kind_ok_b (s : snap) : bool := bdd_ok_b s || bcok_b s || zbdd_ok_b s.

(** the value of a handle as a Boolean function of the choice ([false] where
    the interpretation is undefined, which does not happen on a well-formed
    table) *)
Definition cfun_of (s : snap) (e : edge) : cfun :=
  fun c => match sem_edge s e c with Some 1%N => true | _ => false end.

(** the number [node_count] must report for handle [e] of table [s]: the size
    of the diagram built from the handle's function under the table's order *)
Definition canonical_count (s : snap) (e : edge) : option N :=
  match build_kind (s_kind s) (s_v2l s) (s_l2v s) (cfun_of s e) with
  | Some (s', e') => Some (count_reach s' e')
  | None => None
  end.

(** ** The textbook count (BDD kind): distinct subfunctions

    An oracle for the node count that does not build a diagram at all: the
    number of nodes of level [L] is the number of distinct pairs (then-cofactor,
    else-cofactor) of the subfunctions obtained by fixing the levels above
    [L] whose two components differ (the subfunction depends on level [L]);
    the number of terminals is the number of distinct values.  Subfunctions
    are compared through their truth tables.  Proved equal to [count_reach]
    in DD/BuildCanonSize.v. *)

(** truth table of [fun c => f (cmerge lvl cnt c0 c)] over the [cnt] levels
    from [lvl] on ("then" half first) *)
Fixpoint table (lvl cnt : nat) (f : cfun) (c0 : nat -> nat) : list bool :=
  match cnt with
  | O => [f c0]
  | S k => table (S lvl) k f (cset c0 lvl 0) ++ table (S lvl) k f (cset c0 lvl 1)
  end.

(** for every way of fixing the [d] levels from [lvl] on: the tables (over the
    [k] levels below) of the two cofactors w.r.t. level [lvl + d] *)
Fixpoint subpairs (lvl d k : nat) (f : cfun) (c0 : nat -> nat) : list (list bool * list bool) :=
  match d with
  | O => [(table (S lvl) k f (cset c0 lvl 0), table (S lvl) k f (cset c0 lvl 1))]
  | S d' => subpairs (S lvl) d' k f (cset c0 lvl 0) ++ subpairs (S lvl) d' k f (cset c0 lvl 1)
  end.

Fixpoint bools_eqb (a b : list bool) : bool :=
  match a, b with
  | [], [] => true
  | x :: r, y :: t => Bool.eqb x y && bools_eqb r t
  | _, _ => false
  end.

Definition pair_eqb (a b : list bool * list bool) : bool :=
  bools_eqb (fst a) (fst b) && bools_eqb (snd a) (snd b).

(** remove duplicates (w.r.t. the Boolean equality test [eqb]) *)
Fixpoint dedup {A : Type} (eqb : A -> A -> bool) (l : list A) : list A :=
  match l with
  | [] => []
  | x :: r => if existsb (eqb x) r then dedup eqb r else x :: dedup eqb r
  end.

(** the two cofactors differ *)
Definition essential (pr : list bool * list bool) : bool := negb (bools_eqb (fst pr) (snd pr)).

(** number of nodes of level [L] in the reduced BDD of [f] over [n] levels *)
Definition level_nodes (n L : nat) (f : cfun) : nat :=
  length (dedup pair_eqb (filter essential (subpairs 0 L (n - S L) f (fun _ => 0)))).

Fixpoint sum_upto (n : nat) (g : nat -> nat) : nat :=
  match n with
  | O => 0
  | S k => sum_upto k g + g k
  end.

(** inner nodes of all levels + distinct terminal values *)
Definition canon_size_bdd (n : nat) (f : cfun) : N :=
  N.of_nat (sum_upto n (fun L => level_nodes n L f) + length (dedup Bool.eqb (table 0 n f (fun _ => 0)))).

(** ** The textbook count, BCDD kind: subfunctions up to complement

    A function and its complement share their nodes; the representative is the
    one that is true on the all-"then" choice (the first table entry). *)

(** complement both cofactor tables unless the first entry of the then-table is true *)
Definition norm_pair (pr : list bool * list bool) : list bool * list bool :=
  if hd true (fst pr) then pr else (map negb (fst pr), map negb (snd pr)).

Definition level_nodes_c (n L : nat) (f : cfun) : nat :=
  length (dedup pair_eqb (map norm_pair (filter essential (subpairs 0 L (n - S L) f (fun _ => 0))))).

(** inner nodes of all levels + the single terminal *)
Definition canon_size_bcdd (n : nat) (f : cfun) : N :=
  N.of_nat (sum_upto n (fun L => level_nodes_c n L f) + 1).

(** ** The textbook count, ZBDD kind: sub-families with a non-empty "then" part

    A ZBDD node of level [L] exists for a sub-family (the levels above [L]
    fixed) iff some member contains [L], i.e. the then-cofactor table is not
    all-false.  The Base terminal is reachable iff the family is non-empty;
    the Empty terminal iff the family is empty or some node's else-part is. *)

Definition any_true (t : list bool) : bool := existsb (fun b : bool => b) t.

Definition hi_nonempty (pr : list bool * list bool) : bool := any_true (fst pr).

Definition level_nodes_z (n L : nat) (f : cfun) : nat :=
  length (dedup pair_eqb (filter hi_nonempty (subpairs 0 L (n - S L) f (fun _ => 0)))).

(** some node of level [L] has an empty else-part *)
Definition lo_empty_at (n L : nat) (f : cfun) : bool :=
  existsb (fun pr => hi_nonempty pr && negb (any_true (snd pr))) (subpairs 0 L (n - S L) f (fun _ => 0)).

Fixpoint exists_upto (n : nat) (g : nat -> bool) : bool :=
  match n with
  | O => false
  | S k => exists_upto k g || g k
  end.

Definition canon_size_zbdd (n : nat) (f : cfun) : N :=
  let nonempty := any_true (table 0 n f (fun _ => 0)) in
  N.of_nat (sum_upto n (fun L => level_nodes_z n L f)
            + (if nonempty then 1 else 0)
            + (if negb nonempty || exists_upto n (fun L => lo_empty_at n L f) then 1 else 0)).
