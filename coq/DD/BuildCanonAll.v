(** * C03, last clause, in one statement for the three Boolean kinds

    "The node count of any handle equals the size of the unique reduced diagram
    of its function under the current order."

    - [node_count_canonical]: on every snapshot accepted by the checker
      [bool_kind_ok_b] (well-formed BDD / BCDD / ZBDD table with that kind's
      terminals), for every existing edge [e]: building the reduced diagram of
      [e]'s function ([cfun_of], the interpreter's reading of [e]) under the
      snapshot's variable order in a fresh table ([build_kind]) succeeds, and
      that diagram has exactly [count_reach s e] nodes -- the number
      [Function::node_count] is compared with on every real snapshot;
    - [node_count_canonical_handles]: the same for the handles of the snapshot;
    - examples: the hypotheses are satisfiable, the count depends on the order. *)

From Coq Require Import List NArith PArith Bool Arith Lia FMapPositive.
From OxiVerif Require Import DD.Table DD.TableExtra DD.TableProofs DD.Sem DD.Build DD.Apply DD.ApplyProofs
  DD.ApplyBcdd DD.ApplyBcddProofs DD.ZbddOps DD.ZbddOpsProofs
  DD.BuildCanon DD.BuildCanonProofs DD.BuildCanonBcdd DD.BuildCanonZbdd.
Import ListNotations.

Theorem bool_kind_ok_b_spec : forall s,
  bool_kind_ok_b s = true <-> BddOK s \/ BcOK s \/ ZbddOK s.
Proof.
  intros s. unfold bool_kind_ok_b.
  rewrite !orb_true_iff, bdd_ok_b_spec, bcok_b_spec, zbdd_ok_b_spec. tauto.
Qed.

Lemma bool_kind_wf : forall s, bool_kind_ok_b s = true -> WF s.
Proof.
  intros s Hs. apply bool_kind_ok_b_spec in Hs.
  destruct Hs as [B|[B|B]]; [apply (bo_wf s B) | apply (bc_wf s B) | apply (zo_wf s B)].
Qed.

Theorem node_count_canonical : forall s e, bool_kind_ok_b s = true -> ref_ok s (eref e) ->
  canonical_count s e = Some (count_reach s e).
Proof.
  intros s e Hs O. apply bool_kind_ok_b_spec in Hs. destruct Hs as [B|[B|B]].
  - apply bdd_node_count_canonical; assumption.
  - apply bcdd_node_count_canonical; assumption.
  - apply zbdd_node_count_canonical; assumption.
Qed.

Theorem node_count_canonical_handles : forall s h, bool_kind_ok_b s = true -> In h (s_handles s) ->
  canonical_count s (snd h) = Some (count_reach s (snd h)).
Proof.
  intros s h Hs Hin. apply (node_count_canonical s (snd h) Hs).
  apply (wf_handles s (bool_kind_wf s Hs) h Hin).
Qed.

(** the table [build_kind] returns is accepted by the same checker, keeps the
    order, and has no handles of its own *)
Theorem build_kind_ok : forall s f, bool_kind_ok_b s = true ->
  exists s' e', build_kind (s_kind s) (s_v2l s) (s_l2v s) f = Some (s', e') /\
    bool_kind_ok_b s' = true /\ s_kind s' = s_kind s /\
    s_v2l s' = s_v2l s /\ s_l2v s' = s_l2v s /\ ref_ok s' (eref e').
Proof.
  intros s f Hs. pose proof (wf_order_ok s (bool_kind_wf s Hs)) as Ho.
  apply bool_kind_ok_b_spec in Hs. destruct Hs as [B|[B|B]].
  - destruct (build_bdd_ok (s_v2l s) (s_l2v s) f Ho) as [s' [e' [E0 [B' [Ev [El [_ [_ D]]]]]]]].
    exists s', e'. unfold build_kind. rewrite (bo_kind s B). split; [exact E0|].
    split; [apply bool_kind_ok_b_spec; left; exact B'|]. split; [apply (bo_kind s' B')|].
    split; [exact Ev|]. split; [exact El | apply (proj1 D)].
  - destruct (build_bcdd_ok (s_v2l s) (s_l2v s) f Ho) as [s' [e' [E0 [B' [Ev [El [_ D]]]]]]].
    exists s', e'. unfold build_kind. rewrite (bc_kind s B). split; [exact E0|].
    split; [apply bool_kind_ok_b_spec; right; left; exact B'|]. split; [apply (bc_kind s' B')|].
    split; [exact Ev|]. split; [exact El | apply (proj1 D)].
  - destruct (build_zbdd_ok (s_v2l s) (s_l2v s) f Ho) as [s' [e' [E0 [B' [Ev [El [_ [_ D]]]]]]]].
    exists s', e'. unfold build_kind. rewrite (zo_kind s B). split; [exact E0|].
    split; [apply bool_kind_ok_b_spec; right; right; exact B'|]. split; [apply (zo_kind s' B')|].
    split; [exact Ev|]. split; [exact El | apply (zden_ok _ _ _ D)].
Qed.

(** ** Examples *)

(** the three example snapshots of DD/TableProofs.v satisfy the hypothesis, and
    the two sides of the equation are the expected numbers *)
Example ex_canonical_counts :
  bool_kind_ok_b ex_snap = true /\ bool_kind_ok_b ex_bcdd = true /\ bool_kind_ok_b ex_zbdd = true /\
  canonical_count ex_snap (ex_edge (RN 3)) = Some 5%N /\ count_reach ex_snap (ex_edge (RN 3)) = 5%N /\
  canonical_count ex_bcdd (mkEdge (RN 2) true) = Some 3%N /\ count_reach ex_bcdd (mkEdge (RN 2) true) = 3%N /\
  canonical_count ex_zbdd (ex_edge (RN 2)) = Some 4%N /\ count_reach ex_zbdd (ex_edge (RN 2)) = 4%N.
Proof. vm_compute. repeat split; reflexivity. Qed.

(** "under the current order": (x0 /\ x1) \/ (x2 /\ x3) has 6 nodes when the
    variables are ordered x0 x1 x2 x3 and 8 nodes under x0 x2 x1 x3 *)
Definition ex_pairs : bfun := fun a => (a 0 && a 1) || (a 2 && a 3).

Definition size_of (r : option (snap * edge)) : option N :=
  match r with Some (s, e) => Some (count_reach s e) | None => None end.

Example ex_order_matters :
  size_of (build_bdd [0; 1; 2; 3] [0; 1; 2; 3] (lvl_fun [0; 1; 2; 3] ex_pairs)) = Some 6%N /\
  size_of (build_bdd [0; 2; 1; 3] [0; 2; 1; 3] (lvl_fun [0; 2; 1; 3] ex_pairs)) = Some 8%N /\
  size_of (build_bcdd [0; 1; 2; 3] [0; 1; 2; 3] (lvl_fun [0; 1; 2; 3] ex_pairs)) = Some 5%N /\
  size_of (build_bcdd [0; 2; 1; 3] [0; 2; 1; 3] (lvl_fun [0; 2; 1; 3] ex_pairs)) = Some 7%N /\
  size_of (build_zbdd [0; 1; 2; 3] [0; 1; 2; 3] (lvl_fun [0; 1; 2; 3] ex_pairs)) = Some 9%N /\
  size_of (build_zbdd [0; 2; 1; 3] [0; 2; 1; 3] (lvl_fun [0; 2; 1; 3] ex_pairs)) = Some 10%N.
Proof. vm_compute. repeat split; reflexivity. Qed.
