(** * The canonical diagram of a function (DD/BuildCanon.v): BCDD kind

    The complement-edge counterpart of DD/BuildCanonProofs.v and of the
    two-table section of DD/Iso.v:

    - [build_bcdd_from_ok], [build_bcdd_ok]: the construction succeeds in every
      BCDD table, extends it, keeps it well-formed; the returned edge denotes
      the function;
    - [same_denc]: two references (of two tables) whose *untagged* edges denote
      the same function; [bcdd_iso]: this is an isomorphism ([iso]), in
      particular corresponding child edges carry the same complement tag;
    - [bcdd_diagram_unique], [bcdd_count_unique]: two edges of two BCDD tables
      denoting the same function have the same tag, isomorphic sub-diagrams and
      the same node count;
    - [bcdd_node_count_canonical]: C03's last clause for the BCDD kind. *)

From Coq Require Import List NArith PArith Bool Arith Lia FMapPositive.
From OxiVerif Require Import DD.Table DD.TableExtra DD.TableProofs DD.Canon DD.CanonBcdd DD.Sem DD.Build
  DD.BuildProofs DD.PickInsert DD.Apply DD.ApplyProofs DD.ApplyBcdd DD.ApplyBcddProofs DD.Iso
  DD.BuildCanon DD.BuildCanonProofs.
Import ListNotations.

(** ** The interpretation only looks at the levels of the table *)

Lemma semc_ext_lt : forall s, WF s -> forall f e c c',
  (forall l, l < nlevels s -> c l = c' l) -> semc s f e c = semc s f e c'.
Proof.
  intros s H. induction f as [|f IH]; intros e c c' Hcc.
  - destruct (eref e) as [t|id] eqn:Er.
    + rewrite !(semc_T _ _ _ _ t Er). reflexivity.
    + rewrite !(semc_O _ _ _ id Er). reflexivity.
  - destruct (eref e) as [t|id] eqn:Er.
    + rewrite !(semc_T _ _ _ _ t Er). reflexivity.
    + rewrite !(semc_S _ _ _ _ id Er).
      destruct (find_node s id) as [nd|] eqn:E; [|reflexivity].
      rewrite <- (Hcc (nlevel nd) (wf_level s H id nd E)).
      destruct (nth_error (nchildren nd) (c (nlevel nd))) as [e'|]; [|reflexivity].
      rewrite (IH e' c c' Hcc). reflexivity.
Qed.

Lemma semc_ctrunc : forall s, WF s -> forall f e c,
  semc s f e (ctrunc (nlevels s) c) = semc s f e c.
Proof.
  intros s H f e c. apply (semc_ext_lt s H). intros l Hl. rewrite ctrunc_spec.
  destruct (Nat.ltb_spec l (nlevels s)); [reflexivity | lia].
Qed.

(** ** The construction inside a given BCDD table *)

Lemma build_bcdd_from_S : forall s lvl k f c0,
  build_bcdd_from s lvl (S k) f c0 =
  match build_bcdd_from s (S lvl) k f (cset c0 lvl 0) with
  | None => None
  | Some (s1, e0) =>
    match build_bcdd_from s1 (S lvl) k f (cset c0 lvl 1) with
    | None => None
    | Some (s2, e1) => Some (cmk_node s2 lvl e0 e1)
    end
  end.
Proof. reflexivity. Qed.

Theorem build_bcdd_from_ok : forall cnt s lvl f c0, BcOK s -> lvl + cnt = nlevels s ->
  exists s' e, build_bcdd_from s lvl cnt f c0 = Some (s', e) /\ BcOK s' /\ extends s s' /\
    DenC s' e (fun c => f (cmerge lvl cnt c0 c)).
Proof.
  induction cnt as [|k IH]; intros s lvl f c0 B Hn.
  - simpl. destruct (cget_terminal_den s (f c0) B) as [e [Ee De]]. rewrite Ee. exists s, e.
    split; [reflexivity|]. split; [exact B|]. split; [apply extends_refl | exact De].
  - rewrite build_bcdd_from_S.
    destruct (IH s (S lvl) f (cset c0 lvl 0) B ltac:(lia)) as [s1 [e0 [E1 [B1 [X1 D0]]]]].
    rewrite E1.
    assert (Hn1 : S lvl + k = nlevels s1) by (rewrite (ext_nlevels _ _ X1); lia).
    destruct (IH s1 (S lvl) f (cset c0 lvl 1) B1 Hn1) as [s2 [e1 [E2 [B2 [X2 D1]]]]].
    rewrite E2.
    destruct (cmk_node s2 lvl e0 e1) as [s3 h] eqn:Em.
    pose proof (denc_extends s1 s2 e0 _ B1 X2 D0) as D0'.
    assert (Hl2 : lvl < nlevels s2) by (rewrite (ext_nlevels _ _ X2); lia).
    destruct (cnode_step s2 lvl e0 e1 _ _ s3 h B2 Hl2 D0' D1
                (indep_cmerge f (S lvl) k (cset c0 lvl 0)) (indep_cmerge f (S lvl) k (cset c0 lvl 1)) Em)
      as [B3 [X3 D3]].
    exists s3, h. split; [reflexivity|]. split; [exact B3|].
    split; [exact (extends_trans _ _ _ X1 (extends_trans _ _ _ X2 X3))|].
    apply (denc_ext s3 h _ _ D3). intros c Hc. simpl cmerge.
    pose proof (Hc lvl) as H2. destruct (c lvl) as [|[|j]]; [reflexivity | reflexivity | lia].
Qed.

Lemma base_bcdd_ok : forall v2l l2v, order_ok v2l l2v -> BcOK (base_snap KBcdd bcdd_terms v2l l2v).
Proof.
  intros v2l l2v Ho. apply bcok_b_spec. unfold bcok_b, wf_b. simpl.
  rewrite (proj2 (perm_inverse_b_spec v2l l2v) Ho). reflexivity.
Qed.

Theorem build_bcdd_ok : forall v2l l2v f, order_ok v2l l2v ->
  exists s e, build_bcdd v2l l2v f = Some (s, e) /\ BcOK s /\
    s_v2l s = v2l /\ s_l2v s = l2v /\ s_handles s = [] /\
    DenC s e (fun c => f (ctrunc (length l2v) c)).
Proof.
  intros v2l l2v f Ho. unfold build_bcdd.
  destruct (build_bcdd_from_ok (length l2v) (base_snap KBcdd bcdd_terms v2l l2v) 0 f (fun _ => 0)
              (base_bcdd_ok v2l l2v Ho) eq_refl) as [s [e [E0 [B [X D]]]]].
  exists s, e. split; [exact E0|]. split; [exact B|].
  split; [apply (ext_v2l _ _ X)|]. split; [apply (ext_l2v _ _ X)|].
  split; [apply (ext_handles _ _ X) | exact D].
Qed.

Corollary build_bcdd_den : forall v2l l2v f, order_ok v2l l2v -> levels_only (length l2v) f ->
  exists s e, build_bcdd v2l l2v f = Some (s, e) /\ BcOK s /\ DenC s e f.
Proof.
  intros v2l l2v f Ho L. destruct (build_bcdd_ok v2l l2v f Ho) as [s [e [E0 [B [_ [_ [_ D]]]]]]].
  exists s, e. split; [exact E0|]. split; [exact B|].
  apply (denc_ext s e _ f D). intros c _. apply levels_only_ctrunc. exact L.
Qed.

(** ** Two BCDD tables *)

(** the value of an edge on the all-"then" path is decided by its tag *)
Lemma denc_all_then : forall s e phi, BcOK s -> DenC s e phi -> phi (fun _ => 0) = negb (etag e).
Proof.
  intros s e phi B [O D]. pose proof (bc_wf s B) as H.
  specialize (D (fun _ => 0) ltac:(intros l; lia)).
  pose proof (rlevel_le s H (eref e)).
  rewrite (semc_all_then s H (bc_kind s B) _ e O) in D by lia. congruence.
Qed.

Lemma denc_untag : forall s e phi, DenC s e phi ->
  DenC s (mkEdge (eref e) false) (fun c => xorb (etag e) (phi c)).
Proof.
  intros s e phi D. pose proof (denc_retag s e phi (etag e) D) as D'.
  unfold retag in D'. rewrite xorb_nilpotent in D'. exact D'.
Qed.

Section TwoTablesC.
Variables s1 s2 : snap.
Hypothesis B1 : BcOK s1.
Hypothesis B2 : BcOK s2.
Hypothesis Hlev : nlevels s1 = nlevels s2.

(** the untagged edges to the two references denote the same function *)
Definition same_denc (r1 r2 : ref) : Prop :=
  exists phi, DenC s1 (mkEdge r1 false) phi /\ DenC s2 (mkEdge r2 false) phi.

(** two edges with the same denotation: equal tags, related references *)
Lemma same_denc_edges : forall e1 e2 phi, DenC s1 e1 phi -> DenC s2 e2 phi ->
  etag e1 = etag e2 /\ same_denc (eref e1) (eref e2).
Proof.
  intros e1 e2 phi D1 D2.
  assert (Ht : etag e1 = etag e2).
  { pose proof (denc_all_then s1 e1 phi B1 D1) as A1. pose proof (denc_all_then s2 e2 phi B2 D2) as A2.
    destruct (etag e1), (etag e2); simpl in *; congruence. }
  split; [exact Ht|]. exists (fun c => xorb (etag e1) (phi c)).
  split; [apply denc_untag; exact D1 | rewrite Ht; apply denc_untag; exact D2].
Qed.

Lemma same_denc_level : forall r1 r2, same_denc r1 r2 -> rlevel s1 r1 = rlevel s2 r2.
Proof.
  intros r1 r2 [phi [D1 D2]].
  pose proof (denc_indep s1 _ phi (bc_wf s1 B1) D1) as I1.
  pose proof (denc_indep s2 _ phi (bc_wf s2 B2) D2) as I2.
  pose proof (rlevel_le s1 (bc_wf s1 B1) r1) as L1.
  pose proof (rlevel_le s2 (bc_wf s2 B2) r2) as L2.
  pose proof (denc_level s2 _ phi (rlevel s1 r1) B2 D2 ltac:(simpl in *; lia) I1).
  pose proof (denc_level s1 _ phi (rlevel s2 r2) B1 D1 ltac:(simpl in *; lia) I2).
  simpl in *. lia.
Qed.

(** related nodes: same level, children pairwise with equal tags and related references *)
Lemma same_denc_children : forall a b n1 n2, same_denc (RN a) (RN b) ->
  find_node s1 a = Some n1 -> find_node s2 b = Some n2 ->
  nlevel n1 = nlevel n2 /\
  exists x0 x1 y0 y1, nchildren n1 = [x0; x1] /\ nchildren n2 = [y0; y1] /\
    etag x0 = etag y0 /\ etag x1 = etag y1 /\
    same_denc (eref x0) (eref y0) /\ same_denc (eref x1) (eref y1).
Proof.
  intros a b n1 n2 HR E1 E2. pose proof (same_denc_level _ _ HR) as Hl.
  rewrite (rlevel_node s1 a n1 E1), (rlevel_node s2 b n2 E2) in Hl.
  split; [exact Hl|]. destruct HR as [phi [D1 D2]].
  destruct (bcdd_children s1 a n1 B1 E1) as [x0 [x1 Ex]].
  destruct (bcdd_children s2 b n2 B2 E2) as [y0 [y1 Ey]].
  exists x0, x1, y0, y1. split; [exact Ex|]. split; [exact Ey|].
  assert (Hx0 : nth_error (nchildren n1) 0 = Some x0) by (rewrite Ex; reflexivity).
  assert (Hx1 : nth_error (nchildren n1) 1 = Some x1) by (rewrite Ex; reflexivity).
  assert (Hy0 : nth_error (nchildren n2) 0 = Some y0) by (rewrite Ey; reflexivity).
  assert (Hy1 : nth_error (nchildren n2) 1 = Some y1) by (rewrite Ey; reflexivity).
  pose proof (denc_child s1 _ a n1 0 x0 phi B1 D1 eq_refl E1 Hx0) as C10.
  pose proof (denc_child s1 _ a n1 1 x1 phi B1 D1 eq_refl E1 Hx1) as C11.
  pose proof (denc_child s2 _ b n2 0 y0 phi B2 D2 eq_refl E2 Hy0) as C20.
  pose proof (denc_child s2 _ b n2 1 y1 phi B2 D2 eq_refl E2 Hy1) as C21.
  simpl etag in C10, C11, C20, C21. rewrite retag_false in C10, C11, C20, C21. rewrite <- Hl in C20, C21.
  destruct (same_denc_edges x0 y0 _ C10 C20) as [T0 R0].
  destruct (same_denc_edges x1 y1 _ C11 C21) as [T1 R1].
  auto.
Qed.

Lemma same_denc_bisim : bisim s1 s2 same_denc.
Proof.
  pose proof (bc_wf s1 B1) as H1. pose proof (bc_wf s2 B2) as H2.
  constructor.
  - intros r1 r2 HR. pose proof (same_denc_level r1 r2 HR) as Hl.
    destruct HR as [phi [D1 D2]].
    destruct r1 as [t|a], r2 as [u|b]; auto.
    + destruct (proj1 D2) as [nd E]. simpl in E. rewrite (rlevel_node s2 b nd E) in Hl. simpl in Hl.
      pose proof (wf_level s2 H2 b nd E). lia.
    + destruct (proj1 D1) as [nd E]. simpl in E. rewrite (rlevel_node s1 a nd E) in Hl. simpl in Hl.
      pose proof (wf_level s1 H1 a nd E). lia.
  - intros a b HR. pose proof HR as [phi [D1 D2]].
    destruct (proj1 D1) as [n1 E1]. destruct (proj1 D2) as [n2 E2]. simpl in E1, E2. rewrite E1, E2.
    destruct (same_denc_children a b n1 n2 HR E1 E2) as [_ [x0 [x1 [y0 [y1 [Ex [Ey [_ [_ [R0 R1]]]]]]]]]].
    rewrite Ex, Ey. simpl. constructor; [exact R0|]. constructor; [exact R1 | constructor].
  - intros a b a' b' [phi [D1 D2]] [phi' [D1' D2']]. split; intros ->.
    + assert (Hr : mkEdge (RN b) false = mkEdge (RN b') false); [|inversion Hr; reflexivity].
      apply (denc_canon s2 _ _ phi B2 D2). apply (denc_ext s2 _ phi' phi D2').
      intros c Hc. apply (denc_unique s1 _ phi' phi D1' D1 c Hc).
    + assert (Hr : mkEdge (RN a) false = mkEdge (RN a') false); [|inversion Hr; reflexivity].
      apply (denc_canon s1 _ _ phi B1 D1). apply (denc_ext s1 _ phi' phi D1').
      intros c Hc. apply (denc_unique s2 _ phi' phi D2' D2 c Hc).
  - (* a BCDD table has one terminal *)
    intros t u t' u' [phi [D1 D2]] [phi' [D1' D2']].
    destruct (proj1 D1) as [v1 V1]. destruct (proj1 D1') as [v1' V1'].
    destruct (proj1 D2) as [v2 V2]. destruct (proj1 D2') as [v2' V2'].
    simpl in *.
    pose proof (bcdd_one_term s1 t t' v1 v1' (bc_kind s1 B1) (bc_terms_kind s1 B1) V1 V1').
    pose proof (bcdd_one_term s2 u u' v2 v2' (bc_kind s2 B2) (bc_terms_kind s2 B2) V2 V2').
    tauto.
Qed.

Theorem bcdd_iso : iso s1 s2 same_denc.
Proof.
  constructor.
  - exact same_denc_bisim.
  - exact same_denc_level.
  - intros t u _ Hk. exfalso. apply Hk. apply (bc_kind s1 B1).
  - intros a b n1 n2 HR E1 E2.
    destruct (same_denc_children a b n1 n2 HR E1 E2) as [_ [x0 [x1 [y0 [y1 [Ex [Ey [T0 [T1 _]]]]]]]]].
    rewrite Ex, Ey. simpl. rewrite T0, T1. reflexivity.
Qed.

(** UNIQUENESS: two edges of two BCDD tables over the same number of levels
    that denote the same function carry the same tag and have isomorphic
    sub-diagrams *)
Theorem bcdd_diagram_unique : forall e1 e2 phi, DenC s1 e1 phi -> DenC s2 e2 phi ->
  etag e1 = etag e2 /\ exists R, iso s1 s2 R /\ R (eref e1) (eref e2).
Proof.
  intros e1 e2 phi D1 D2. destruct (same_denc_edges e1 e2 phi D1 D2) as [Ht HR].
  split; [exact Ht|]. exists same_denc. split; [exact bcdd_iso | exact HR].
Qed.

Theorem bcdd_count_unique : forall e1 e2 phi, DenC s1 e1 phi -> DenC s2 e2 phi ->
  count_reach s1 e1 = count_reach s2 e2.
Proof.
  intros e1 e2 phi D1 D2. destruct (same_denc_edges e1 e2 phi D1 D2) as [_ HR].
  apply (count_reach_bisim s1 s2 same_denc same_denc_bisim
           (wf_arity_ok s1 (bc_wf s1 B1)) (wf_arity_ok s2 (bc_wf s2 B2)) e1 e2 HR).
Qed.

End TwoTablesC.

(** ** The node count of an edge is the size of the diagram built from its function *)

Theorem bcdd_count_is_build : forall s e f v2l l2v, BcOK s -> order_ok v2l l2v ->
  length l2v = nlevels s -> DenC s e (fun c => f (ctrunc (length l2v) c)) ->
  exists s' e', build_bcdd v2l l2v f = Some (s', e') /\ BcOK s' /\
    count_reach s e = count_reach s' e' /\ etag e = etag e' /\
    exists R, iso s s' R /\ R (eref e) (eref e').
Proof.
  intros s e f v2l l2v B Ho Hlen D.
  destruct (build_bcdd_ok v2l l2v f Ho) as [s' [e' [E0 [B' [_ [El [_ D']]]]]]].
  exists s', e'. split; [exact E0|]. split; [exact B'|].
  assert (Hl : nlevels s = nlevels s') by (unfold nlevels at 2; rewrite El; symmetry; exact Hlen).
  split; [apply (bcdd_count_unique s s' B B' Hl e e' _ D D')|].
  apply (bcdd_diagram_unique s s' B B' Hl e e' _ D D').
Qed.

Lemma sem_edge_bcdd_code : forall s e c, s_kind s = KBcdd ->
  sem_edge s e c = option_map (fun b : bool => if b then 1%N else 0%N) (semc s (S (nlevels s)) e c).
Proof. intros s e c Hk. unfold sem_edge. rewrite Hk. reflexivity. Qed.

Lemma cfun_of_den_bcdd : forall s e, BcOK s -> ref_ok s (eref e) ->
  DenC s e (fun c => cfun_of s e (ctrunc (nlevels s) c)).
Proof.
  intros s e B O. split; [exact O|]. intros c Hc. unfold cfun_of.
  rewrite (sem_edge_bcdd_code s e _ (bc_kind s B)), (semc_ctrunc s (bc_wf s B)).
  pose proof (rlevel_le s (bc_wf s B) (eref e)).
  destruct (semc_total s (bc_wf s B) (S (nlevels s)) e c O (proj2 (bchoice_okc s c B) Hc) ltac:(lia))
    as [v Ev].
  rewrite Ev. destruct v; reflexivity.
Qed.

(** C03, last clause, BCDD kind *)
Theorem bcdd_node_count_canonical : forall s e, BcOK s -> ref_ok s (eref e) ->
  canonical_count s e = Some (count_reach s e).
Proof.
  intros s e B O. unfold canonical_count, build_kind. rewrite (bc_kind s B).
  destruct (bcdd_count_is_build s e (cfun_of s e) (s_v2l s) (s_l2v s) B
              (wf_order_ok s (bc_wf s B)) eq_refl (cfun_of_den_bcdd s e B O))
    as [s' [e' [E0 [_ [Hc _]]]]].
  rewrite E0. f_equal. symmetry. exact Hc.
Qed.
