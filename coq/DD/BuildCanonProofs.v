(** * The canonical diagram of a function (DD/BuildCanon.v): BDD kind

    - [cmerge_spec], [cmerge_ext]: what the leaves of the construction see;
    - [build_bdd_from_ok]: in every BDD table the construction succeeds,
      extends the table, keeps it well-formed, and the returned reference
      denotes the function;
    - [build_bdd_ok]: [build_bdd] yields a well-formed table of its own whose
      root denotes [f] (restricted to the [n] levels);
    - [iso]: what "the same diagram" means between two tables (a one-to-one
      relation between the references that maps terminals to terminals of the
      same value, nodes to nodes of the same level, children to children);
    - [bdd_iso]: two references of two BDD tables that denote the same
      function have isomorphic sub-diagrams; [bdd_count_unique]: and the same
      node count;
    - [bdd_node_count_canonical]: the node count of any reference of any BDD
      table is the node count of the diagram built from its function under the
      table's order -- C03's last clause for the BDD kind. *)

From Coq Require Import List NArith PArith Bool Arith Lia FMapPositive.
From OxiVerif Require Import DD.Table DD.TableProofs DD.Canon DD.Sem DD.Build DD.BuildProofs
  DD.Apply DD.ApplyProofs DD.ApplyEvalProofs DD.Iso DD.BuildCanon.
Import ListNotations.

(** ** Choices *)

Lemma cset_upd : forall c l i, cset c l i = cupd c l i.
Proof. reflexivity. Qed.

Lemma cmerge_spec : forall cnt lvl c0 c l,
  cmerge lvl cnt c0 c l = if (lvl <=? l) && (l <? lvl + cnt) then c l else c0 l.
Proof.
  induction cnt as [|k IH]; intros lvl c0 c l.
  - simpl. destruct (Nat.leb_spec lvl l), (Nat.ltb_spec l (lvl + 0)); simpl; try reflexivity; lia.
  - simpl cmerge. rewrite IH. unfold cset.
    destruct (Nat.leb_spec (S lvl) l), (Nat.ltb_spec l (S lvl + k)),
             (Nat.leb_spec lvl l), (Nat.ltb_spec l (lvl + S k)), (Nat.eqb_spec l lvl);
      simpl; subst; try reflexivity; lia.
Qed.

(** the merged choice reads [c] only at the levels from [lvl] on (an equality
    of functions, not just pointwise: no extensionality needed later) *)
Lemma cmerge_ext : forall cnt lvl c0 c c',
  (forall l, lvl <= l -> c l = c' l) -> cmerge lvl cnt c0 c = cmerge lvl cnt c0 c'.
Proof.
  induction cnt as [|k IH]; intros lvl c0 c c' Hcc; [reflexivity|].
  simpl. rewrite (Hcc lvl (le_n _)). apply IH. intros l Hl. apply Hcc. lia.
Qed.

(** ... and only at the levels below [lvl + cnt] *)
Lemma cmerge_ext_range : forall cnt lvl c0 c c',
  (forall l, lvl <= l < lvl + cnt -> c l = c' l) -> cmerge lvl cnt c0 c = cmerge lvl cnt c0 c'.
Proof.
  induction cnt as [|k IH]; intros lvl c0 c c' Hcc; [reflexivity|].
  simpl. rewrite (Hcc lvl) by lia. apply IH. intros l Hl. apply Hcc. lia.
Qed.

Lemma ctrunc_spec : forall n c l, ctrunc n c l = if l <? n then c l else 0.
Proof. intros n c l. unfold ctrunc. rewrite cmerge_spec. reflexivity. Qed.

Lemma bchoice_cmerge : forall cnt lvl c0 c, bchoice c0 -> bchoice c -> bchoice (cmerge lvl cnt c0 c).
Proof.
  intros cnt lvl c0 c H0 Hc l. rewrite cmerge_spec.
  destruct ((lvl <=? l) && (l <? lvl + cnt)); auto.
Qed.

Lemma bchoice_ctrunc : forall n c, bchoice c -> bchoice (ctrunc n c).
Proof. intros n c Hc. apply bchoice_cmerge; [intros l; simpl; lia | exact Hc]. Qed.

Lemma indep_cmerge : forall (f : cfun) lvl cnt c0, indep (fun c => f (cmerge lvl cnt c0 c)) lvl.
Proof. intros f lvl cnt c0 c c' _ _ E. rewrite (cmerge_ext cnt lvl c0 c c' E). reflexivity. Qed.

(** a function of the first [n] levels only *)
Definition levels_only (n : nat) (f : cfun) : Prop :=
  forall c c', (forall l, l < n -> c l = c' l) -> f c = f c'.

Lemma levels_only_ctrunc : forall n f c, levels_only n f -> f (ctrunc n c) = f c.
Proof.
  intros n f c L. apply L. intros l Hl. rewrite ctrunc_spec.
  destruct (Nat.ltb_spec l n); [reflexivity | lia].
Qed.

(** ** The interpretation only looks at the levels of the table *)

Lemma semk_ext_lt : forall s, WF s -> forall f r c c',
  (forall l, l < nlevels s -> c l = c' l) -> semk s f r c = semk s f r c'.
Proof.
  intros s H. induction f as [|f IH]; intros r c c' Hcc.
  - destruct r as [t|id]; [rewrite !semk_T; reflexivity | reflexivity].
  - destruct r as [t|id]; [rewrite !semk_T; reflexivity|].
    rewrite !semk_S. destruct (find_node s id) as [nd|] eqn:E; [|reflexivity].
    rewrite <- (Hcc (nlevel nd) (wf_level s H id nd E)).
    destruct (nth_error (nchildren nd) (c (nlevel nd))) as [e|]; [|reflexivity].
    apply IH. exact Hcc.
Qed.

Lemma semk_ctrunc : forall s, WF s -> forall f r c,
  semk s f r (ctrunc (nlevels s) c) = semk s f r c.
Proof.
  intros s H f r c. apply (semk_ext_lt s H). intros l Hl. rewrite ctrunc_spec.
  destruct (Nat.ltb_spec l (nlevels s)); [reflexivity | lia].
Qed.

(** a denoted function only depends on the levels of the table *)
Lemma den_ext_lt : forall s r phi, WF s -> Den s r phi -> forall c c', bchoice c -> bchoice c' ->
  (forall l, l < nlevels s -> c l = c' l) -> phi c = phi c'.
Proof.
  intros s r phi H [_ D] c c' Hc Hc' E. apply b2c_inj.
  pose proof (D c Hc) as A. pose proof (D c' Hc') as A'.
  rewrite (semk_ext_lt s H _ r c c' E) in A. congruence.
Qed.

(** ** The construction inside a given BDD table *)

Lemma build_bdd_from_S : forall s lvl k f c0,
  build_bdd_from s lvl (S k) f c0 =
  match build_bdd_from s (S lvl) k f (cset c0 lvl 0) with
  | None => None
  | Some (s1, r0) =>
    match build_bdd_from s1 (S lvl) k f (cset c0 lvl 1) with
    | None => None
    | Some (s2, r1) => let '(s3, h) := mk_node s2 lvl [E r0; E r1] in Some (s3, eref h)
    end
  end.
Proof. reflexivity. Qed.

Theorem build_bdd_from_ok : forall cnt s lvl f c0, BddOK s -> lvl + cnt = nlevels s ->
  exists s' r, build_bdd_from s lvl cnt f c0 = Some (s', r) /\ BddOK s' /\ extends s s' /\
    Den s' r (fun c => f (cmerge lvl cnt c0 c)).
Proof.
  induction cnt as [|k IH]; intros s lvl f c0 B Hn.
  - simpl. destruct (term_of_total s (f c0) B) as [t Et]. rewrite Et. exists s, (RT t).
    split; [reflexivity|]. split; [exact B|]. split; [apply extends_refl|].
    exact (den_const s (f c0) t B Et).
  - rewrite build_bdd_from_S.
    destruct (IH s (S lvl) f (cset c0 lvl 0) B ltac:(lia)) as [s1 [r0 [E1 [B1 [X1 D0]]]]].
    rewrite E1.
    assert (Hn1 : S lvl + k = nlevels s1) by (rewrite (ext_nlevels _ _ X1); lia).
    destruct (IH s1 (S lvl) f (cset c0 lvl 1) B1 Hn1) as [s2 [r1 [E2 [B2 [X2 D1]]]]].
    rewrite E2.
    destruct (mk_node s2 lvl [E r0; E r1]) as [s3 h] eqn:Em.
    pose proof (den_extends s1 s2 r0 _ B1 X2 D0) as D0'.
    assert (Hl2 : lvl < nlevels s2) by (rewrite (ext_nlevels _ _ X2); lia).
    destruct (node_step s2 lvl r0 r1 _ _ s3 h B2 Hl2 D0' D1
                (indep_cmerge f (S lvl) k (cset c0 lvl 0)) (indep_cmerge f (S lvl) k (cset c0 lvl 1)) Em)
      as [B3 [X3 D3]].
    exists s3, (eref h). split; [reflexivity|]. split; [exact B3|].
    split; [exact (extends_trans _ _ _ X1 (extends_trans _ _ _ X2 X3))|].
    apply (den_ext s3 (eref h) _ _ D3). intros c Hc. simpl cmerge.
    pose proof (Hc lvl) as H2. destruct (c lvl) as [|[|j]]; [reflexivity | reflexivity | lia].
Qed.

(** ** The table [build_bdd] starts from *)

(** [v2l] and [l2v] are mutually inverse permutations *)
Definition order_ok (v2l l2v : list nat) : Prop :=
  length v2l = length l2v /\ inv_on v2l l2v /\ inv_on l2v v2l.

Lemma wf_order_ok : forall s, WF s -> order_ok (s_v2l s) (s_l2v s).
Proof. intros s H. split; [apply (wf_perm_len s H) | split; [apply (wf_perm_v2l s H) | apply (wf_perm_l2v s H)]]. Qed.

Lemma base_bdd_ok : forall v2l l2v, order_ok v2l l2v -> BddOK (base_snap KBdd bool_terms v2l l2v).
Proof.
  intros v2l l2v Ho. apply bdd_ok_b_spec. unfold bdd_ok_b, wf_b. simpl.
  rewrite (proj2 (perm_inverse_b_spec v2l l2v) Ho). reflexivity.
Qed.

Theorem build_bdd_ok : forall v2l l2v f, order_ok v2l l2v ->
  exists s e, build_bdd v2l l2v f = Some (s, e) /\ BddOK s /\
    s_v2l s = v2l /\ s_l2v s = l2v /\ s_handles s = [] /\ etag e = false /\
    Den s (eref e) (fun c => f (ctrunc (length l2v) c)).
Proof.
  intros v2l l2v f Ho. unfold build_bdd.
  destruct (build_bdd_from_ok (length l2v) (base_snap KBdd bool_terms v2l l2v) 0 f (fun _ => 0)
              (base_bdd_ok v2l l2v Ho) eq_refl) as [s [r [E0 [B [X D]]]]].
  rewrite E0. exists s, (E r). split; [reflexivity|]. split; [exact B|].
  split; [apply (ext_v2l _ _ X)|]. split; [apply (ext_l2v _ _ X)|].
  split; [apply (ext_handles _ _ X)|]. split; [reflexivity|]. exact D.
Qed.

(** for a function of the [n] levels the root denotes the function itself *)
Corollary build_bdd_den : forall v2l l2v f, order_ok v2l l2v -> levels_only (length l2v) f ->
  exists s e, build_bdd v2l l2v f = Some (s, e) /\ BddOK s /\ Den s (eref e) f.
Proof.
  intros v2l l2v f Ho L. destruct (build_bdd_ok v2l l2v f Ho) as [s [e [E0 [B [_ [_ [_ [_ D]]]]]]]].
  exists s, e. split; [exact E0|]. split; [exact B|].
  apply (den_ext s (eref e) _ f D). intros c _. apply levels_only_ctrunc. exact L.
Qed.

(** ** Isomorphic sub-diagrams *)

(** [R] is an isomorphism between (parts of) the diagrams stored in [s1] and
    [s2]: a bisimulation (DD/Iso.v: terminals with terminals, nodes with nodes,
    children related again, one-to-one) that moreover relates only terminals
    of the same value (the value code of the single BCDD terminal carries no
    meaning and is not compared), nodes of the same level, and child edges
    with the same complement tag.  No node id is compared. *)
Record iso (s1 s2 : snap) (R : ref -> ref -> Prop) : Prop := mkIso {
  iso_bisim : bisim s1 s2 R;
  iso_level : forall a b, R a b -> rlevel s1 a = rlevel s2 b;
  iso_term : forall t u, R (RT t) (RT u) -> s_kind s1 <> KBcdd -> term_val s1 t = term_val s2 u;
  iso_tags : forall a b n1 n2, R (RN a) (RN b) ->
    find_node s1 a = Some n1 -> find_node s2 b = Some n2 ->
    map etag (nchildren n1) = map etag (nchildren n2)
}.

(** isomorphic sub-diagrams have the same number of nodes *)
Theorem iso_count : forall s1 s2 R, iso s1 s2 R -> arity_ok s1 -> arity_ok s2 ->
  forall e1 e2, R (eref e1) (eref e2) -> count_reach s1 e1 = count_reach s2 e2.
Proof. intros s1 s2 R I. apply (count_reach_bisim s1 s2 R (iso_bisim _ _ _ I)). Qed.

Theorem bdd_iso : forall s1 s2, BddOK s1 -> BddOK s2 -> nlevels s1 = nlevels s2 ->
  iso s1 s2 (same_den s1 s2).
Proof.
  intros s1 s2 B1 B2 Hl. constructor.
  - apply (same_den_bisim s1 s2 B1 B2 Hl).
  - apply (same_den_level s1 s2 B1 B2 Hl).
  - intros t u [phi [[_ D1] [_ D2]]] _.
    specialize (D1 (fun _ => 0) ltac:(intros l; lia)). specialize (D2 (fun _ => 0) ltac:(intros l; lia)).
    rewrite semk_T in D1, D2. congruence.
  - intros a b n1 n2 _ E1 E2.
    destruct (bdd_children s1 a n1 B1 E1) as [x0 [x1 Ex]].
    destruct (bdd_children s2 b n2 B2 E2) as [y0 [y1 Ey]].
    pose proof (wf_tags s1 (bo_wf s1 B1) (proj1 (bdd_kary s1 B1)) a n1) as T1.
    pose proof (wf_tags s2 (bo_wf s2 B2) (proj1 (bdd_kary s2 B2)) b n2) as T2.
    rewrite Ex in *. rewrite Ey in *. simpl.
    rewrite (T1 x0 E1), (T1 x1 E1), (T2 y0 E2), (T2 y1 E2) by (simpl; auto). reflexivity.
Qed.

(** UNIQUENESS: two references, in any two BDD tables over the same number of
    levels, that denote the same function have isomorphic sub-diagrams *)
Theorem bdd_diagram_unique : forall s1 s2 r1 r2 phi, BddOK s1 -> BddOK s2 -> nlevels s1 = nlevels s2 ->
  Den s1 r1 phi -> Den s2 r2 phi ->
  exists R, iso s1 s2 R /\ R r1 r2.
Proof.
  intros s1 s2 r1 r2 phi B1 B2 Hl D1 D2. exists (same_den s1 s2).
  split; [apply bdd_iso; assumption | exists phi; auto].
Qed.

(** ... and the same node count *)
Theorem bdd_count_unique : forall s1 s2 r1 r2 phi, BddOK s1 -> BddOK s2 -> nlevels s1 = nlevels s2 ->
  Den s1 r1 phi -> Den s2 r2 phi -> count_reach s1 (E r1) = count_reach s2 (E r2).
Proof. intros s1 s2 r1 r2 phi B1 B2 Hl. apply (count_reach_den s1 s2 B1 B2 Hl). Qed.

(** ** The node count of a reference is the size of the diagram built from
       its function *)

(** every reference of every BDD table over [length l2v] levels that denotes
    [f] has as many nodes as the diagram [build_bdd] constructs for [f], and
    the two sub-diagrams are isomorphic *)
Theorem bdd_count_is_build : forall s r f v2l l2v, BddOK s -> order_ok v2l l2v ->
  length l2v = nlevels s -> Den s r (fun c => f (ctrunc (length l2v) c)) ->
  exists s' e', build_bdd v2l l2v f = Some (s', e') /\ BddOK s' /\
    count_reach s (E r) = count_reach s' e' /\
    exists R, iso s s' R /\ R r (eref e').
Proof.
  intros s r f v2l l2v B Ho Hlen D.
  destruct (build_bdd_ok v2l l2v f Ho) as [s' [e' [E0 [B' [_ [El [_ [Et D']]]]]]]].
  exists s', e'. split; [exact E0|]. split; [exact B'|].
  assert (Hl : nlevels s = nlevels s') by (unfold nlevels at 2; rewrite El; symmetry; exact Hlen).
  split.
  - replace e' with (E (eref e')) by (destruct e' as [x t]; simpl in *; subst; reflexivity).
    apply (bdd_count_unique s s' r (eref e') _ B B' Hl D D').
  - apply (bdd_diagram_unique s s' r (eref e') _ B B' Hl D D').
Qed.

Lemma sem_edge_bdd : forall s e c, s_kind s = KBdd -> sem_edge s e c = semk s (S (nlevels s)) (eref e) c.
Proof. intros s e c Hk. unfold sem_edge. rewrite Hk. reflexivity. Qed.

(** the function of a handle ([cfun_of], computed by the interpreter) is what it denotes *)
Lemma cfun_of_den_bdd : forall s e, BddOK s -> ref_ok s (eref e) ->
  Den s (eref e) (fun c => cfun_of s e (ctrunc (nlevels s) c)).
Proof.
  intros s e B O. split; [exact O|]. intros c Hc. unfold cfun_of.
  rewrite (sem_edge_bdd s e _ (bo_kind s B)), (semk_ctrunc s (bo_wf s B)).
  pose proof (rlevel_le s (bo_wf s B) (eref e)).
  destruct (semk_total s (bo_wf s B) (S (nlevels s)) (eref e) c O (proj2 (bchoice_ok s c B) Hc) ltac:(lia))
    as [v Ev].
  rewrite Ev. destruct (semk_code s B _ _ _ _ Ev) as [->| ->]; reflexivity.
Qed.

(** C03, last clause, BDD kind: for every edge of every well-formed BDD
    table, [canonical_count] (build the reduced diagram of the edge's function
    under the table's variable order in a fresh table, count its nodes) is
    defined and equals the node count of the edge *)
Theorem bdd_node_count_canonical : forall s e, BddOK s -> ref_ok s (eref e) ->
  canonical_count s e = Some (count_reach s e).
Proof.
  intros s e B O. unfold canonical_count, build_kind. rewrite (bo_kind s B).
  destruct (bdd_count_is_build s (eref e) (cfun_of s e) (s_v2l s) (s_l2v s) B
              (wf_order_ok s (bo_wf s B)) eq_refl (cfun_of_den_bdd s e B O))
    as [s' [e' [E0 [_ [Hc _]]]]].
  rewrite E0. f_equal. symmetry. exact Hc.
Qed.

(** ** In terms of functions of the variables ([Sem.bfun]) *)

(** the assignment of the variables that a choice stands for under [v2l] *)
Definition asg_of (v2l : list nat) (c : nat -> nat) : asg :=
  fun v => match nth_error v2l v with Some l => Nat.eqb (c l) 0 | None => false end.

Lemma lvl_fun_asg : forall v2l g c, lvl_fun v2l g c = g (asg_of v2l c).
Proof. reflexivity. Qed.

Lemma choice_of_asg_of : forall s c l, WF s -> bchoice c -> l < nlevels s ->
  choice_of s (asg_of (s_v2l s) c) l = c l.
Proof.
  intros s c l H Hc Hl. unfold choice_of, asg_of.
  destruct (wf_perm_l2v s H l Hl) as [v [E1 E2]]. rewrite E1, E2.
  pose proof (Hc l). destruct (c l) as [|[|j]]; [reflexivity | reflexivity | lia].
Qed.

(** "the node count of any handle equals the size of the unique reduced diagram
    of its function under the current order": [g] is the function of the
    variables, [lvl_fun (s_v2l s) g] the same function under the table's order *)
Theorem bdd_node_count_bfun : forall s r (g : bfun), BddOK s -> ref_ok s r ->
  (forall a, bfun_of s r a = g a) ->
  exists s' e', build_bdd (s_v2l s) (s_l2v s) (lvl_fun (s_v2l s) g) = Some (s', e') /\ BddOK s' /\
    count_reach s (E r) = count_reach s' e'.
Proof.
  intros s r g B O Hg. pose proof (bo_wf s B) as H.
  destruct (den_exists s r B O) as [phi D].
  destruct (bdd_count_is_build s r (lvl_fun (s_v2l s) g) (s_v2l s) (s_l2v s) B (wf_order_ok s H) eq_refl)
    as [s' [e' [E0 [B' [Hc _]]]]].
  - apply (den_ext s r phi _ D). intros c Hc. rewrite lvl_fun_asg, <- Hg, (bfun_of_den s r phi D).
    apply (den_ext_lt s r phi H D c _ Hc (choice_of_bchoice s _)).
    intros l Hl. rewrite (choice_of_asg_of s _ l H (bchoice_ctrunc _ c Hc) Hl), ctrunc_spec.
    fold (nlevels s). destruct (Nat.ltb_spec l (nlevels s)); [reflexivity | lia].
  - exists s', e'. auto.
Qed.
