(** * The textbook count of the reduced ordered BDD equals [count_reach]

    [canon_size_bdd n phi] (DD/BuildCanon.v) counts, level by level, the
    distinct subfunctions of [phi] that depend on their first level (compared
    through truth tables) and the distinct values of [phi].  This file proves

    - [bdd_count_is_canon_size]: for every reference [r] of every well-formed
      BDD table that denotes [phi]: [count_reach s (E r) = canon_size_bdd
      (nlevels s) phi];
    - [bdd_node_count_canon_size]: for every existing edge [e]:
      [count_reach s e = canon_size_bdd (nlevels s) (cfun_of s e)].

    The proof puts together [count_reach_spec] (DD/ReachSpec.v: what is
    counted are the reachable references), the correspondence between reachable
    references and subfunctions (DD/BuildCanonSub.v) and canonicity (one
    reference per function). *)

From Coq Require Import List NArith PArith Bool Arith Lia FMapPositive.
From OxiVerif Require Import DD.Table DD.TableProofs DD.Canon DD.Sem DD.Build DD.BuildProofs
  DD.Apply DD.ApplyProofs DD.Iso DD.BuildCanon DD.BuildCanonProofs DD.ReachSpec DD.BuildCanonSub.
Import ListNotations.

(** ** Lists *)

Lemma bools_eqb_eq : forall a b, bools_eqb a b = true <-> a = b.
Proof.
  induction a as [|x a IH]; intros [|y b]; simpl; split; intro E; try discriminate; try reflexivity.
  - apply andb_true_iff in E. destruct E as [E1 E2]. apply Bool.eqb_prop in E1. apply IH in E2. congruence.
  - inversion E; subst. rewrite Bool.eqb_reflx. simpl. apply IH. reflexivity.
Qed.

Lemma pair_eqb_eq : forall a b, pair_eqb a b = true <-> a = b.
Proof.
  intros [a1 a2] [b1 b2]. unfold pair_eqb. simpl. rewrite andb_true_iff, !bools_eqb_eq.
  split; [intros [-> ->]; reflexivity | intros E; inversion E; auto].
Qed.

Lemma bool_eqb_eq : forall a b, Bool.eqb a b = true <-> a = b.
Proof. intros a b. split; [apply Bool.eqb_prop | intros ->; apply Bool.eqb_reflx]. Qed.

Section Dedup.
Variable A : Type.
Variable eqb : A -> A -> bool.
Hypothesis eqb_eq : forall a b, eqb a b = true <-> a = b.

Lemma existsb_eqb_In : forall x l, existsb (eqb x) l = true <-> In x l.
Proof.
  intros x l. rewrite existsb_exists. split.
  - intros [y [Hy E]]. apply eqb_eq in E. subst. exact Hy.
  - intros Hin. exists x. split; [exact Hin | apply eqb_eq; reflexivity].
Qed.

Lemma dedup_In : forall l x, In x (dedup eqb l) <-> In x l.
Proof.
  induction l as [|y l IH]; intros x; simpl; [reflexivity|].
  destruct (existsb (eqb y) l) eqn:E.
  - rewrite IH. split; [auto|]. intros [<-|Hx]; [apply existsb_eqb_In; exact E | exact Hx].
  - simpl. rewrite IH. reflexivity.
Qed.

Lemma dedup_NoDup : forall l, NoDup (dedup eqb l).
Proof.
  induction l as [|y l IH]; simpl; [constructor|].
  destruct (existsb (eqb y) l) eqn:E; [exact IH|].
  constructor; [|exact IH]. intros Hin. apply (proj1 (dedup_In l y)) in Hin.
  apply (proj2 (existsb_eqb_In y l)) in Hin. congruence.
Qed.
End Dedup.

(** two duplicate-free lists with the same members have the same length *)
Lemma NoDup_same_length : forall (A : Type) (l1 l2 : list A), NoDup l1 -> NoDup l2 ->
  (forall x, In x l1 <-> In x l2) -> length l1 = length l2.
Proof.
  intros A l1 l2 N1 N2 E. apply Nat.le_antisymm.
  - apply NoDup_incl_length; [exact N1 | intros x Hx; apply E; exact Hx].
  - apply NoDup_incl_length; [exact N2 | intros x Hx; apply E; exact Hx].
Qed.

(** a duplicate-free list mapped by a function that is injective on it *)
Lemma NoDup_map_inj : forall (A B : Type) (f : A -> B) (l : list A), NoDup l ->
  (forall x y, In x l -> In y l -> f x = f y -> x = y) -> NoDup (map f l).
Proof.
  intros A B f l N. induction N as [|x l Hx N IH]; intros Hinj; simpl; constructor.
  - intros Hin. apply in_map_iff in Hin. destruct Hin as [y [E Hy]].
    assert (y = x) by (apply Hinj; [right; exact Hy | left; reflexivity | exact E]). subst. contradiction.
  - apply IH. intros a b Ha Hb. apply Hinj; right; assumption.
Qed.

Lemma app_inj_len : forall (A : Type) (a a' b b' : list A),
  length a = length a' -> a ++ b = a' ++ b' -> a = a' /\ b = b'.
Proof.
  intros A. induction a as [|x a IH]; intros [|y a'] b b' Hl E; simpl in *; try discriminate; [auto|].
  inversion E; subst. destruct (IH a' b b' ltac:(lia) H1) as [-> ->]. auto.
Qed.

(** ** Sums *)

Lemma sum_upto_ext : forall n g g', (forall L, L < n -> g L = g' L) -> sum_upto n g = sum_upto n g'.
Proof.
  induction n as [|n IH]; intros g g' E; simpl; [reflexivity|].
  rewrite (IH g g') by (intros L HL; apply E; lia). rewrite (E n) by lia. reflexivity.
Qed.

Lemma sum_upto_add : forall n g g', sum_upto n (fun L => g L + g' L) = sum_upto n g + sum_upto n g'.
Proof. induction n as [|n IH]; intros g g'; simpl; [reflexivity | rewrite IH; lia]. Qed.

Lemma sum_upto_zero : forall n, sum_upto n (fun _ => 0) = 0.
Proof. induction n as [|n IH]; simpl; [reflexivity | rewrite IH; reflexivity]. Qed.

Lemma sum_upto_indicator : forall n k,
  sum_upto n (fun L => if Nat.eqb k L then 1 else 0) = if k <? n then 1 else 0.
Proof.
  induction n as [|n IH]; intros k; simpl; [reflexivity|]. rewrite IH.
  destruct (Nat.ltb_spec k n), (Nat.ltb_spec k (S n)), (Nat.eqb_spec k n); lia.
Qed.

(** a list splits by a key with values below [n] *)
Lemma length_partition : forall (A : Type) (key : A -> nat) (l : list A) n,
  (forall x, In x l -> key x < n) ->
  length l = sum_upto n (fun L => length (filter (fun x => Nat.eqb (key x) L) l)).
Proof.
  intros A key l n. induction l as [|x l IH]; intros Hk.
  - simpl. rewrite sum_upto_zero. reflexivity.
  - rewrite (sum_upto_ext n _ (fun L => (if Nat.eqb (key x) L then 1 else 0)
                                        + length (filter (fun y => Nat.eqb (key y) L) l))).
    + rewrite sum_upto_add, sum_upto_indicator, <- IH by (intros y Hy; apply Hk; right; exact Hy).
      specialize (Hk x (or_introl eq_refl)). destruct (Nat.ltb_spec (key x) n); [reflexivity | lia].
    + intros L _. simpl. destruct (Nat.eqb (key x) L); reflexivity.
Qed.

(** ** Truth tables *)

Lemma bchoice_zero : bchoice (fun _ => 0).
Proof. intros l. lia. Qed.

Lemma table_S : forall lvl k f c0,
  table lvl (S k) f c0 = table (S lvl) k f (cset c0 lvl 0) ++ table (S lvl) k f (cset c0 lvl 1).
Proof. reflexivity. Qed.

Lemma table_length : forall cnt lvl f c0, length (table lvl cnt f c0) = 2 ^ cnt.
Proof.
  induction cnt as [|k IH]; intros lvl f c0; [reflexivity|].
  rewrite table_S, app_length, !IH. simpl. lia.
Qed.

(** [cmerge] after setting the first merged level explicitly *)
Lemma cmerge_first : forall lvl k c0 q i, q lvl = i ->
  cmerge lvl (S k) c0 q = cmerge (S lvl) k (cset c0 lvl i) q.
Proof. intros lvl k c0 q i E. simpl. rewrite E. reflexivity. Qed.

Lemma cmerge_set : forall lvl k c0 q i,
  cmerge lvl (S k) c0 (cupd q lvl i) = cmerge (S lvl) k (cset c0 lvl i) q.
Proof.
  intros lvl k c0 q i. rewrite (cmerge_first lvl k c0 _ i) by apply upd_same.
  apply cmerge_ext. intros l Hl. apply upd_other. lia.
Qed.

(** the members of a table are the values on the merged choices *)
Lemma table_In : forall cnt lvl f c0 b,
  In b (table lvl cnt f c0) <-> exists q, bchoice q /\ b = f (cmerge lvl cnt c0 q).
Proof.
  induction cnt as [|k IH]; intros lvl f c0 b.
  - simpl. split.
    + intros [<-|[]]. exists (fun _ => 0). split; [apply bchoice_zero | reflexivity].
    + intros [q [_ ->]]. left. reflexivity.
  - rewrite table_S, in_app_iff, !IH. split.
    + intros [[q [Hq ->]]|[q [Hq ->]]].
      * exists (cupd q lvl 0). split; [apply bchoice_upd; [exact Hq | lia] | rewrite cmerge_set; reflexivity].
      * exists (cupd q lvl 1). split; [apply bchoice_upd; [exact Hq | lia] | rewrite cmerge_set; reflexivity].
    + intros [q [Hq ->]]. pose proof (Hq lvl) as H2.
      destruct (q lvl) as [|[|j]] eqn:E; [left | right | lia]; exists q;
        (split; [exact Hq | rewrite (cmerge_first lvl k c0 q _ E); reflexivity]).
Qed.

(** equal tables <-> equal values on all merged choices *)
Lemma table_ext : forall cnt lvl f f' c0 c0',
  (forall q, bchoice q -> f (cmerge lvl cnt c0 q) = f' (cmerge lvl cnt c0' q)) ->
  table lvl cnt f c0 = table lvl cnt f' c0'.
Proof.
  induction cnt as [|k IH]; intros lvl f f' c0 c0' E.
  - simpl. f_equal. apply (E (fun _ => 0) bchoice_zero).
  - rewrite !table_S. f_equal; apply IH; intros q Hq.
    + rewrite <- !cmerge_set. apply E. apply bchoice_upd; [exact Hq | lia].
    + rewrite <- !cmerge_set. apply E. apply bchoice_upd; [exact Hq | lia].
Qed.

Lemma table_inj : forall cnt lvl f f' c0 c0',
  table lvl cnt f c0 = table lvl cnt f' c0' ->
  forall q, bchoice q -> f (cmerge lvl cnt c0 q) = f' (cmerge lvl cnt c0' q).
Proof.
  induction cnt as [|k IH]; intros lvl f f' c0 c0' E q Hq.
  - simpl in *. inversion E. reflexivity.
  - rewrite !table_S in E.
    destruct (app_inj_len _ _ _ _ _ ltac:(rewrite !table_length; reflexivity) E) as [E0 E1].
    pose proof (Hq lvl) as H2. destruct (q lvl) as [|[|j]] eqn:Eq; [| |lia].
    + rewrite !(cmerge_first lvl k _ q 0 Eq). apply (IH _ _ _ _ _ E0 q Hq).
    + rewrite !(cmerge_first lvl k _ q 1 Eq). apply (IH _ _ _ _ _ E1 q Hq).
Qed.

Lemma subpairs_S : forall lvl d k f c0,
  subpairs lvl (S d) k f c0 = subpairs (S lvl) d k f (cset c0 lvl 0) ++ subpairs (S lvl) d k f (cset c0 lvl 1).
Proof. reflexivity. Qed.

(** the cofactor-table pair of the subfunction selected by the prefix [q] *)
Definition pair_at (lvl d k : nat) (f : cfun) (c0 q : nat -> nat) : list bool * list bool :=
  (table (S (lvl + d)) k f (cset (cmerge lvl d c0 q) (lvl + d) 0),
   table (S (lvl + d)) k f (cset (cmerge lvl d c0 q) (lvl + d) 1)).

Lemma subpairs_In : forall d lvl k f c0 pr,
  In pr (subpairs lvl d k f c0) <-> exists q, bchoice q /\ pr = pair_at lvl d k f c0 q.
Proof.
  induction d as [|d IH]; intros lvl k f c0 pr.
  - unfold pair_at. simpl. rewrite Nat.add_0_r. split.
    + intros [<-|[]]. exists (fun _ => 0). split; [apply bchoice_zero | reflexivity].
    + intros [q [_ ->]]. left. reflexivity.
  - rewrite subpairs_S, in_app_iff, !IH. unfold pair_at.
    replace (lvl + S d) with (S lvl + d) by lia. split.
    + intros [[q [Hq ->]]|[q [Hq ->]]].
      * exists (cupd q lvl 0). split; [apply bchoice_upd; [exact Hq | lia] | rewrite cmerge_set; reflexivity].
      * exists (cupd q lvl 1). split; [apply bchoice_upd; [exact Hq | lia] | rewrite cmerge_set; reflexivity].
    + intros [q [Hq ->]]. pose proof (Hq lvl) as H2.
      destruct (q lvl) as [|[|j]] eqn:E; [left | right | lia]; exists q;
        (split; [exact Hq | rewrite (cmerge_first lvl d c0 q _ E); reflexivity]).
Qed.

(** ** The count *)

Section Size.
Variable s : snap.
Hypothesis B : BddOK s.
Variable r : ref.
Variable phi : cfun.
Hypothesis D : Den s r phi.

Let H : WF s := bo_wf s B.

(** the function of a reference, read off the table by the interpreter *)
Definition dfun (x : ref) : cfun := cfun_of s (E x).

Lemma den_dfun : forall x, ref_ok s x -> Den s x (dfun x).
Proof.
  intros x O. split; [exact O|]. intros c Hc. unfold dfun, cfun_of.
  rewrite (sem_edge_bdd s (E x) c (bo_kind s B)). simpl eref.
  pose proof (rlevel_le s H x).
  destruct (semk_total s H (S (nlevels s)) x c O (proj2 (bchoice_ok s c B) Hc) ltac:(lia)) as [v Ev].
  rewrite Ev. destruct (semk_code s B _ _ _ _ Ev) as [->| ->]; reflexivity.
Qed.

Lemma bchoice_cset : forall c l i, bchoice c -> i < 2 -> bchoice (cset c l i).
Proof. intros c l i Hc Hi. apply (bchoice_upd c l i Hc Hi). Qed.

(** the prefix [p] cut to the levels below [L] *)
Definition pre (L : nat) (p : nat -> nat) : nat -> nat := cmerge 0 L (fun _ => 0) p.

Lemma bchoice_pre : forall L p, bchoice p -> bchoice (pre L p).
Proof. intros L p Hp. apply bchoice_cmerge; [apply bchoice_zero | exact Hp]. Qed.

(** a subfunction evaluated through the merged choice the tables use *)
Lemma sub_as_merge : forall L k p c i, L + S k = nlevels s -> bchoice p -> bchoice c -> i < 2 -> c L = i ->
  sub phi L p c = phi (cmerge (S L) k (cset (pre L p) L i) c).
Proof.
  intros L k p c i Hn Hp Hc Hi Ei. unfold sub.
  apply (den_ext_lt s r phi H D).
  - apply bchoice_glue; assumption.
  - apply bchoice_cmerge; [apply bchoice_cset; [apply bchoice_pre; exact Hp | exact Hi] | exact Hc].
  - intros l Hl. rewrite cmerge_spec. unfold glue, cset, pre. rewrite cmerge_spec.
    destruct (Nat.ltb_spec l L), (Nat.leb_spec (S L) l), (Nat.ltb_spec l (S L + k)), (Nat.eqb_spec l L),
             (Nat.leb_spec 0 l), (Nat.ltb_spec l (0 + L)); simpl; subst; try reflexivity; lia.
Qed.

(** the merged choice of a table entry, restricted to the table's window *)
Lemma merge_window : forall L k c0 c0' q,
  cmerge (S L) k c0' (cmerge (S L) k c0 q) = cmerge (S L) k c0' q.
Proof.
  intros L k c0 c0' q. apply cmerge_ext_range. intros l Hl. rewrite cmerge_spec.
  destruct (Nat.leb_spec (S L) l), (Nat.ltb_spec l (S L + k)); simpl; try reflexivity; lia.
Qed.

Lemma merge_at : forall L k c0 i q, cmerge (S L) k (cset c0 L i) q L = i.
Proof.
  intros L k c0 i q. rewrite cmerge_spec. unfold cset.
  destruct (Nat.leb_spec (S L) L); [lia|]. simpl. rewrite Nat.eqb_refl. reflexivity.
Qed.

(** the key of a reference: the cofactor tables of its own function w.r.t. level [L] *)
Definition key (L : nat) (x : ref) : list bool * list bool :=
  (table (S L) (nlevels s - S L) (dfun x) (cset (fun _ => 0) L 0),
   table (S L) (nlevels s - S L) (dfun x) (cset (fun _ => 0) L 1)).

(** A: the key of a reference denoting the subfunction of prefix [p] is the pair of that prefix *)
Lemma key_is_pair : forall L p x, L < nlevels s -> bchoice p -> Den s x (sub phi L p) ->
  key L x = pair_at 0 L (nlevels s - S L) phi (fun _ => 0) p.
Proof.
  intros L p x HL Hp Dx. unfold key, pair_at. simpl Nat.add. fold (pre L p).
  set (k := nlevels s - S L). assert (Hn : L + S k = nlevels s) by (unfold k; lia).
  pose proof (den_dfun x (proj1 Dx)) as Dd.
  assert (Hside : forall i, i < 2 ->
            table (S L) k (dfun x) (cset (fun _ => 0) L i) = table (S L) k phi (cset (pre L p) L i)).
  { intros i Hi. apply table_ext. intros q Hq.
    set (c1 := cmerge (S L) k (cset (fun _ => 0) L i) q).
    assert (Hc1 : bchoice c1)
      by (apply bchoice_cmerge; [apply bchoice_cset; [apply bchoice_zero | exact Hi] | exact Hq]).
    rewrite (den_unique s x _ _ Dd Dx c1 Hc1).
    rewrite (sub_as_merge L k p c1 i Hn Hp Hc1 Hi (merge_at L k _ i q)).
    unfold c1. rewrite merge_window. reflexivity. }
  rewrite (Hside 0), (Hside 1) by lia. reflexivity.
Qed.

(** B: the pair is essential iff the subfunction depends on level [L] *)
Lemma essential_iff_depends : forall L p, L < nlevels s -> bchoice p ->
  (essential (pair_at 0 L (nlevels s - S L) phi (fun _ => 0) p) = true <-> depends_on (sub phi L p) L).
Proof.
  intros L p HL Hp. unfold essential, pair_at. simpl Nat.add. simpl fst. simpl snd. fold (pre L p).
  set (k := nlevels s - S L). assert (Hn : L + S k = nlevels s) by (unfold k; lia).
  rewrite negb_true_iff. unfold depends_on.
  assert (Hval : forall c i, bchoice c -> i < 2 ->
            sub phi L p (cupd c L i) = phi (cmerge (S L) k (cset (pre L p) L i) c)).
  { intros c i Hc Hi.
    rewrite (sub_as_merge L k p (cupd c L i) i Hn Hp (bchoice_upd c L i Hc Hi) Hi (upd_same c L i)).
    f_equal. apply cmerge_ext. intros l Hl. apply upd_other. lia. }
  split.
  - intros Hne Hig. assert (X : bools_eqb (table (S L) k phi (cset (pre L p) L 0))
                                          (table (S L) k phi (cset (pre L p) L 1)) = true); [|congruence].
    apply bools_eqb_eq. apply table_ext. intros q Hq.
    rewrite <- !Hval by (auto; lia). apply Hig. exact Hq.
  - intros Hdep. destruct (bools_eqb _ _) eqn:E; [|reflexivity]. exfalso. apply Hdep.
    apply bools_eqb_eq in E. intros c Hc. rewrite !Hval by (auto; lia).
    apply (table_inj _ _ _ _ _ _ E c Hc).
Qed.

(** equal pairs: the same subfunction *)
Lemma pair_eq_sub : forall L p p', L < nlevels s -> bchoice p -> bchoice p' ->
  pair_at 0 L (nlevels s - S L) phi (fun _ => 0) p = pair_at 0 L (nlevels s - S L) phi (fun _ => 0) p' ->
  forall c, bchoice c -> sub phi L p c = sub phi L p' c.
Proof.
  intros L p p' HL Hp Hp' E c Hc. unfold pair_at in E. simpl Nat.add in E. fold (pre L p) (pre L p') in E.
  set (k := nlevels s - S L) in *. assert (Hn : L + S k = nlevels s) by (unfold k; lia).
  inversion E as [[E0 E1]]. pose proof (Hc L) as H2.
  destruct (c L) as [|[|j]] eqn:Ec; [| |lia].
  - rewrite (sub_as_merge L k p c 0 Hn Hp Hc ltac:(lia) Ec), (sub_as_merge L k p' c 0 Hn Hp' Hc ltac:(lia) Ec).
    apply (table_inj _ _ _ _ _ _ E0 c Hc).
  - rewrite (sub_as_merge L k p c 1 Hn Hp Hc ltac:(lia) Ec), (sub_as_merge L k p' c 1 Hn Hp' Hc ltac:(lia) Ec).
    apply (table_inj _ _ _ _ _ _ E1 c Hc).
Qed.

(** *** inner nodes, level by level *)

Section Nodes.
Variable ns : list positive.
Hypothesis Nns : NoDup ns.
Hypothesis Hns : forall id, In id ns <-> reachable s [r] (RN id) /\ find_node s id <> None.

Definition at_level (L : nat) : list positive :=
  filter (fun id => Nat.eqb (rlevel s (RN id)) L) ns.

Lemma at_level_In : forall L id, In id (at_level L) <->
  reachable s [r] (RN id) /\ find_node s id <> None /\ rlevel s (RN id) = L.
Proof.
  intros L id. unfold at_level. rewrite filter_In, Hns, Nat.eqb_eq. tauto.
Qed.

(** a reachable node of level [L] denotes a subfunction at [L] *)
Lemma at_level_sub : forall L id, In id (at_level L) ->
  exists p, bchoice p /\ Den s (RN id) (sub phi L p).
Proof.
  intros L id Hin. apply at_level_In in Hin. destruct Hin as [Hr [_ Hl]].
  destruct (reachable_is_sub s B r phi D (RN id) Hr) as [p [Hp Dp]]. rewrite Hl in Dp. eauto.
Qed.

Lemma level_count : forall L, L < nlevels s -> length (at_level L) = level_nodes (nlevels s) L phi.
Proof.
  intros L HL. unfold level_nodes.
  rewrite <- (map_length (fun id => key L (RN id)) (at_level L)).
  apply NoDup_same_length.
  - (* the key is injective on the nodes of the level *)
    apply NoDup_map_inj; [apply NoDup_filter; exact Nns|].
    intros a b Ha Hb Ek.
    destruct (at_level_sub L a Ha) as [p [Hp Da]]. destruct (at_level_sub L b Hb) as [p' [Hp' Db]].
    rewrite (key_is_pair L p (RN a) HL Hp Da), (key_is_pair L p' (RN b) HL Hp' Db) in Ek.
    assert (Hr : RN a = RN b); [|inversion Hr; reflexivity].
    apply (den_canon s _ _ _ B Da). apply (den_ext s _ _ _ Db).
    intros c Hc. symmetry. apply (pair_eq_sub L p p' HL Hp Hp' Ek c Hc).
  - apply dedup_NoDup. exact pair_eqb_eq.
  - intros pr. rewrite (dedup_In _ pair_eqb pair_eqb_eq), filter_In, subpairs_In, in_map_iff. split.
    + intros [id [<- Hin]]. destruct (at_level_sub L id Hin) as [p [Hp Dp]].
      rewrite (key_is_pair L p (RN id) HL Hp Dp). split; [exists p; auto|].
      apply (essential_iff_depends L p HL Hp).
      apply (sub_level_iff s B r phi D L p (RN id) HL Hp Dp).
      apply at_level_In in Hin. apply Hin.
    + intros [[q [Hq ->]] Hess].
      apply (essential_iff_depends L q HL Hq) in Hess.
      destruct (sub_is_reachable s B r phi D L q ltac:(lia) Hq) as [x [Rx [Dx Lx]]].
      apply (sub_level_iff s B r phi D L q x HL Hq Dx) in Hess.
      destruct x as [t|id]; [simpl in Hess; lia|].
      exists id. split; [apply (key_is_pair L q (RN id) HL Hq Dx)|].
      apply at_level_In. split; [exact Rx|]. split; [|exact Hess].
      destruct (proj1 Dx) as [nd En]. congruence.
Qed.

Lemma nodes_count : length ns = sum_upto (nlevels s) (fun L => level_nodes (nlevels s) L phi).
Proof.
  rewrite (length_partition _ (fun id => rlevel s (RN id)) ns (nlevels s)).
  - apply sum_upto_ext. intros L HL. apply (level_count L HL).
  - intros id Hin. apply Hns in Hin. destruct Hin as [_ Hf].
    destruct (find_node s id) as [nd|] eqn:En; [|congruence].
    rewrite (rlevel_node s id nd En). apply (wf_level s H id nd En).
Qed.

End Nodes.

(** *** terminals *)

Definition valb (t : N) : bool := match term_val s t with Some 1%N => true | _ => false end.

Lemma den_term_valb : forall t psi, Den s (RT t) psi -> forall c, bchoice c -> psi c = valb t.
Proof.
  intros t psi [_ Dt] c Hc. specialize (Dt c Hc). rewrite semk_T in Dt. unfold valb. rewrite Dt.
  destruct (psi c); reflexivity.
Qed.

Lemma pre_glue : forall q c, bchoice q -> bchoice c ->
  phi (glue (nlevels s) q c) = phi (cmerge 0 (nlevels s) (fun _ => 0) q).
Proof.
  intros q c Hq Hc. apply (den_ext_lt s r phi H D).
  - apply bchoice_glue; assumption.
  - apply bchoice_cmerge; [apply bchoice_zero | exact Hq].
  - intros l Hl. rewrite cmerge_spec. unfold glue.
    destruct (Nat.ltb_spec l (nlevels s)), (Nat.leb_spec 0 l), (Nat.ltb_spec l (0 + nlevels s));
      simpl; try reflexivity; lia.
Qed.

Lemma terminals_count : forall ts, NoDup ts -> (forall t, In t ts <-> reachable s [r] (RT t)) ->
  length ts = length (dedup Bool.eqb (table 0 (nlevels s) phi (fun _ => 0))).
Proof.
  intros ts Nts Hts. rewrite <- (map_length valb ts). apply NoDup_same_length.
  - apply NoDup_map_inj; [exact Nts|]. intros t u Ht Hu Ev.
    apply Hts in Ht. apply Hts in Hu.
    destruct (reachable_is_sub s B r phi D _ Ht) as [p [_ [[v Et] _]]].
    destruct (reachable_is_sub s B r phi D _ Hu) as [p' [_ [[w Eu] _]]].
    apply (term_val_inj s t u v H Et). rewrite Eu. f_equal. unfold valb in Ev. rewrite Et, Eu in Ev.
    destruct (bo_codes s B t v Et) as [->| ->], (bo_codes s B u w Eu) as [->| ->];
      try reflexivity; discriminate.
  - apply dedup_NoDup. exact bool_eqb_eq.
  - intros b. rewrite (dedup_In _ Bool.eqb bool_eqb_eq), table_In, in_map_iff. split.
    + intros [t [<- Ht]]. apply Hts in Ht.
      destruct (reachable_is_sub s B r phi D _ Ht) as [p [Hp Dp]]. simpl rlevel in Dp.
      exists p. split; [exact Hp|].
      rewrite <- (den_term_valb t _ Dp (fun _ => 0) bchoice_zero). unfold sub.
      apply (pre_glue p _ Hp bchoice_zero).
    + intros [q [Hq ->]].
      destruct (sub_is_reachable s B r phi D (nlevels s) q (le_n _) Hq) as [x [Rx [Dx Lx]]].
      destruct x as [t|id].
      * exists t. split; [|apply Hts; exact Rx].
        rewrite <- (den_term_valb t _ Dx (fun _ => 0) bchoice_zero). unfold sub.
        apply (pre_glue q _ Hq bchoice_zero).
      * exfalso. destruct (proj1 Dx) as [nd En]. rewrite (rlevel_node s id nd En) in Lx.
        pose proof (wf_level s H id nd En). lia.
Qed.

(** the node count of a reference denoting [phi] is the textbook count of [phi] *)
Theorem bdd_count_is_canon_size : count_reach s (E r) = canon_size_bdd (nlevels s) phi.
Proof.
  destruct (count_reach_spec s (wf_arity_ok s H) (E r)) as [ns [ts [Nn [Nt [Hn [Ht Hc]]]]]].
  simpl eref in *. rewrite Hc. unfold canon_size_bdd. f_equal. f_equal.
  - apply (nodes_count ns Nn Hn).
  - apply (terminals_count ts Nt Ht).
Qed.

End Size.

Lemma den_cfun_of : forall s e, BddOK s -> ref_ok s (eref e) -> Den s (eref e) (cfun_of s e).
Proof.
  intros s e B O. split; [exact O|]. intros c Hc. unfold cfun_of.
  rewrite (sem_edge_bdd s e c (bo_kind s B)).
  pose proof (rlevel_le s (bo_wf s B) (eref e)).
  destruct (semk_total s (bo_wf s B) (S (nlevels s)) (eref e) c O (proj2 (bchoice_ok s c B) Hc) ltac:(lia))
    as [v Ev].
  rewrite Ev. destruct (semk_code s B _ _ _ _ Ev) as [->| ->]; reflexivity.
Qed.

(** for every existing edge of a well-formed BDD table *)
Theorem bdd_node_count_canon_size : forall s e, BddOK s -> ref_ok s (eref e) ->
  count_reach s e = canon_size_bdd (nlevels s) (cfun_of s e).
Proof.
  intros s e B O.
  assert (Ec : count_reach s e = count_reach s (E (eref e))) by reflexivity.
  rewrite Ec. apply (bdd_count_is_canon_size s B (eref e) _ (den_cfun_of s e B O)).
Qed.

(** and for the diagram [build_bdd] constructs *)
Theorem build_bdd_canon_size : forall v2l l2v f, order_ok v2l l2v ->
  exists s e, build_bdd v2l l2v f = Some (s, e) /\ BddOK s /\
    count_reach s e = canon_size_bdd (length l2v) (fun c => f (ctrunc (length l2v) c)).
Proof.
  intros v2l l2v f Ho. destruct (build_bdd_ok v2l l2v f Ho) as [s [e [E0 [B [_ [El [_ [Et D]]]]]]]].
  exists s, e. split; [exact E0|]. split; [exact B|].
  assert (Hn : nlevels s = length l2v) by (unfold nlevels; rewrite El; reflexivity).
  rewrite <- Hn in *.
  replace e with (E (eref e)) by (destruct e as [x t]; simpl in *; subst; reflexivity).
  apply (bdd_count_is_canon_size s B (eref e) _ D).
Qed.

(** ** Examples: the count is computable and gives the expected numbers *)

Example ex_canon_size :
  canon_size_bdd (nlevels ex_snap) (cfun_of ex_snap (ex_edge (RN 3))) = 5%N /\
  count_reach ex_snap (ex_edge (RN 3)) = 5%N /\
  canon_size_bdd 4 (lvl_fun [0; 1; 2; 3] (fun a => (a 0 && a 1) || (a 2 && a 3))) = 6%N /\
  canon_size_bdd 4 (lvl_fun [0; 2; 1; 3] (fun a => (a 0 && a 1) || (a 2 && a 3))) = 8%N /\
  canon_size_bdd 3 (fun _ => true) = 1%N /\
  canon_size_bdd 3 (fun c => Nat.eqb (c 1) 0) = 3%N.
Proof. vm_compute. repeat split; reflexivity. Qed.
