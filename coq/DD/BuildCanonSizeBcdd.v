(** * The textbook characterisation and count for complement-edge BDDs

    In a BCDD a function and its complement share their nodes: the references
    reachable from an edge denoting [phi] correspond to the subfunctions of
    [phi] (upper levels fixed) *up to complement*; the untagged edge to a
    reference denotes the representative that is true on the all-"then"
    choice.  A node sits at level [L] iff the subfunction depends on level [L];
    exactly one terminal is reachable.

    - [creachable_is_sub], [csub_is_reachable], [csub_level_iff]: the
      correspondence (counterparts of DD/BuildCanonSub.v);
    - [bcdd_count_is_canon_size]: [count_reach s e = canon_size_bcdd (nlevels s)
      phi] for every edge [e] of every well-formed BCDD table denoting [phi];
      [canon_size_bcdd] (DD/BuildCanon.v) counts per level the distinct
      *normalised* essential cofactor-table pairs, plus one terminal;
    - [bcdd_node_count_canon_size], [build_bcdd_canon_size]. *)

From Coq Require Import List NArith PArith Bool Arith Lia FMapPositive.
From OxiVerif Require Import DD.Table DD.TableExtra DD.TableProofs DD.Canon DD.CanonBcdd DD.Sem DD.Build
  DD.BuildProofs DD.Apply DD.ApplyProofs DD.ApplyBcdd DD.ApplyBcddProofs DD.Iso
  DD.BuildCanon DD.BuildCanonProofs DD.BuildCanonBcdd DD.ReachSpec DD.BuildCanonSub DD.BuildCanonSize.
Import ListNotations.

(** ** Tables under complement *)

Lemma table_negb : forall cnt lvl (f : cfun) c0,
  table lvl cnt (fun c => negb (f c)) c0 = map negb (table lvl cnt f c0).
Proof.
  induction cnt as [|k IH]; intros lvl f c0; [reflexivity|].
  rewrite !table_S, map_app, !IH. reflexivity.
Qed.

Lemma map_negb_inj : forall a b, map negb a = map negb b -> a = b.
Proof.
  induction a as [|x a IH]; intros [|y b] E; simpl in E; try discriminate; [reflexivity|].
  inversion E as [[E1 E2]]. f_equal; [destruct x, y; simpl in *; congruence | apply IH; exact E2].
Qed.

Lemma map_negb_invol : forall a, map negb (map negb a) = a.
Proof. induction a as [|x a IH]; simpl; [reflexivity | rewrite negb_involutive, IH; reflexivity]. Qed.

(** the first entry of a table is the value on the all-"then" completion *)
Lemma table_hd : forall cnt lvl f c0 d,
  hd d (table lvl cnt f c0) = f (cmerge lvl cnt c0 (fun _ => 0)).
Proof.
  induction cnt as [|k IH]; intros lvl f c0 d; [reflexivity|].
  rewrite table_S. pose proof (table_length k (S lvl) f (cset c0 lvl 0)) as Hl.
  destruct (table (S lvl) k f (cset c0 lvl 0)) as [|x t] eqn:Et.
  - simpl in Hl. pose proof (Nat.pow_nonzero 2 k ltac:(lia)). lia.
  - simpl. change x with (hd d (x :: t)). rewrite <- Et, IH. reflexivity.
Qed.

Lemma essential_norm : forall pr, essential (norm_pair pr) = essential pr.
Proof.
  intros [a b]. unfold norm_pair, essential. simpl. destruct (hd true a); simpl; [reflexivity|].
  destruct (bools_eqb a b) eqn:E.
  - apply bools_eqb_eq in E. subst. assert (X : bools_eqb (map negb b) (map negb b) = true)
      by (apply bools_eqb_eq; reflexivity). rewrite X. reflexivity.
  - destruct (bools_eqb (map negb a) (map negb b)) eqn:E'; [|reflexivity].
    apply bools_eqb_eq in E'. apply map_negb_inj in E'. subst.
    assert (X : bools_eqb b b = true) by (apply bools_eqb_eq; reflexivity). congruence.
Qed.

(** ** The correspondence *)

Lemma denc_ext_lt : forall s e phi, WF s -> DenC s e phi -> forall c c', bchoice c -> bchoice c' ->
  (forall l, l < nlevels s -> c l = c' l) -> phi c = phi c'.
Proof.
  intros s e phi H [_ D] c c' Hc Hc' E.
  pose proof (D c Hc) as A. pose proof (D c' Hc') as A'.
  rewrite (semc_ext_lt s H _ e c c' E) in A. congruence.
Qed.

Lemma reachable_trans : forall s r x y, reachable s [r] x -> reachable s [x] y -> reachable s [r] y.
Proof.
  intros s r x y Hx Hy. induction Hy as [z Hz|id nd e Hp IH En He].
  - destruct Hz as [<-|[]]. exact Hx.
  - apply (reach_child s [r] id nd e IH En He).
Qed.

Section SubC.
Variable s : snap.
Hypothesis B : BcOK s.
Variable e0 : edge.
Variable phi : cfun.
Hypothesis D : DenC s e0 phi.

Let H : WF s := bc_wf s B.

Lemma cphi_pointwise : forall c c', bchoice c -> bchoice c' -> (forall l, c l = c' l) -> phi c = phi c'.
Proof. intros c c' Hc Hc' E. apply (denc_ext_lt s e0 phi H D c c' Hc Hc'). intros l _. apply E. Qed.

Lemma csub_indep : forall L p, bchoice p -> indep (sub phi L p) L.
Proof.
  intros L p Hp c c' Hc Hc' E. unfold sub. apply cphi_pointwise; try (apply bchoice_glue; assumption).
  intros l. unfold glue. destruct (Nat.ltb_spec l L); [reflexivity | apply E; lia].
Qed.

Lemma edge_mk : forall e : edge, mkEdge (eref e) (etag e) = e.
Proof. intros [x t]. reflexivity. Qed.

(** every reachable reference denotes, under a suitable tag, a subfunction *)
Theorem creachable_is_sub : forall x, reachable s [eref e0] x ->
  exists p t, bchoice p /\ DenC s (mkEdge x t) (sub phi (rlevel s x) p).
Proof.
  intros x Hx. induction Hx as [x Hr|id nd e Hp IH En He].
  - destruct Hr as [<-|[]]. exists (fun _ => 0), (etag e0). split; [apply bchoice_zero|].
    rewrite edge_mk. apply (denc_ext s e0 phi _ D). intros c Hc. unfold sub.
    apply (denc_indep s e0 phi H D); [exact Hc | apply bchoice_glue; [apply bchoice_zero | exact Hc]|].
    intros l Hl. unfold glue. destruct (Nat.ltb_spec l (rlevel s (eref e0))); [lia | reflexivity].
  - destruct IH as [p [t [Hp0 Dn]]]. rewrite (rlevel_node s id nd En) in Dn.
    destruct (In_nth_error _ _ He) as [i Hi].
    pose proof (denc_child s (mkEdge (RN id) t) id nd i e _ B Dn eq_refl En Hi) as Dc. simpl etag in Dc.
    pose proof (child_index_b s H (bc_kind s B) id nd i e En Hi) as Hi2.
    destruct (child_nth s H id nd i e En Hi) as [_ Hlt].
    set (L := nlevel nd) in *. set (L' := rlevel s (eref e)) in *.
    exists (cupd p L i), (xorb t (etag e)). split; [apply bchoice_upd; assumption|].
    change (mkEdge (eref e) (xorb t (etag e))) with (retag t e).
    apply (denc_ext s _ _ _ Dc). intros c Hc.
    pose proof (denc_indep s _ _ H Dc) as Ic. simpl eref in Ic. fold L' in Ic.
    set (c' := glue L' (cupd p L i) c).
    assert (Hc' : bchoice c') by (apply bchoice_glue; [apply bchoice_upd; assumption | exact Hc]).
    rewrite (Ic c c' Hc Hc')
      by (intros l Hl; unfold c', glue; destruct (Nat.ltb_spec l L'); [lia | reflexivity]).
    unfold cofn, sub. apply cphi_pointwise.
    + apply bchoice_glue; [exact Hp0 | apply bchoice_upd; assumption].
    + exact Hc'.
    + intros l. unfold glue at 1. destruct (Nat.ltb_spec l L) as [Hl|Hl].
      * unfold c', glue, cupd. destruct (Nat.ltb_spec l L'); [|lia].
        destruct (Nat.eqb_spec l L); [lia | reflexivity].
      * unfold cupd at 1. destruct (Nat.eqb_spec l L) as [->|Hne]; [|reflexivity].
        unfold c', glue, cupd. destruct (Nat.ltb_spec L L'); [|lia]. rewrite Nat.eqb_refl. reflexivity.
Qed.

(** every subfunction is denoted by a (possibly tagged) edge to a reachable reference *)
Theorem csub_is_reachable : forall L p, L <= nlevels s -> bchoice p ->
  exists x t, reachable s [eref e0] x /\ DenC s (mkEdge x t) (sub phi L p) /\ L <= rlevel s x.
Proof.
  induction L as [|L IH]; intros p HL Hp.
  - exists (eref e0), (etag e0). split; [apply reach_root; left; reflexivity|]. split; [|lia].
    rewrite edge_mk. apply (denc_ext s e0 phi _ D). intros c Hc. unfold sub.
    apply cphi_pointwise; [exact Hc | apply bchoice_glue; assumption | intros l; reflexivity].
  - destruct (IH p ltac:(lia) Hp) as [x [t [Rx [Dx Lx]]]].
    assert (Hstep : forall c, bchoice c -> cofn (sub phi L p) L (p L) c = sub phi (S L) p c).
    { intros c Hc. unfold cofn, sub. apply cphi_pointwise.
      - apply bchoice_glue; [exact Hp | apply bchoice_upd; auto].
      - apply bchoice_glue; assumption.
      - intros l. unfold glue, cupd.
        destruct (Nat.ltb_spec l L), (Nat.ltb_spec l (S L)), (Nat.eqb_spec l L); subst; try reflexivity; lia. }
    destruct (le_lt_eq_dec _ _ Lx) as [Hlt|Heq].
    + exists x, t. split; [exact Rx|]. split; [|lia].
      apply (denc_ext s _ _ _ (denc_skip s _ _ L (p L) H Dx Hlt (Hp L))). exact Hstep.
    + destruct x as [u|id]; [simpl in Heq; lia|].
      destruct (proj1 Dx) as [nd En]. simpl in En. rewrite (rlevel_node s id nd En) in Heq.
      assert (Hi : p L < arity (s_kind s)) by (rewrite (bc_kind s B); apply Hp).
      destruct (child_exists s H id nd (p L) En Hi) as [e He].
      destruct (child_nth s H id nd _ e En He) as [_ Hle].
      exists (eref e), (xorb t (etag e)).
      split; [apply (reach_child s [eref e0] id nd e Rx En (nth_error_In _ _ He))|].
      split; [|lia].
      pose proof (denc_child s (mkEdge (RN id) t) id nd (p L) e _ B Dx eq_refl En He) as Dc.
      simpl etag in Dc. rewrite <- Heq in Dc.
      change (mkEdge (eref e) (xorb t (etag e))) with (retag t e).
      apply (denc_ext s _ _ _ Dc). exact Hstep.
Qed.

(** ... at level [L] exactly when the subfunction depends on level [L] *)
Theorem csub_level_iff : forall L p e, L < nlevels s -> bchoice p ->
  DenC s e (sub phi L p) ->
  (rlevel s (eref e) = L <-> depends_on (sub phi L p) L).
Proof.
  intros L p e HL Hp De.
  assert (Lx : L <= rlevel s (eref e))
    by (apply (denc_level s e _ L B De); [lia | apply csub_indep; exact Hp]).
  split.
  - intros Heq. destruct (eref e) as [u|id] eqn:Er; [simpl in Heq; lia|].
    pose proof (proj1 De) as O. rewrite Er in O. destruct O as [nd En].
    rewrite (rlevel_node s id nd En) in Heq.
    destruct (bcdd_children s id nd B En) as [a [b Ech]].
    assert (Ha : nth_error (nchildren nd) 0 = Some a) by (rewrite Ech; reflexivity).
    assert (Hb : nth_error (nchildren nd) 1 = Some b) by (rewrite Ech; reflexivity).
    pose proof (denc_child s e id nd 0 a _ B De Er En Ha) as Da.
    pose proof (denc_child s e id nd 1 b _ B De Er En Hb) as Db.
    rewrite Heq in Da, Db.
    intros Hsame.
    apply (proj1 (reduced_bcdd s (bc_kind s B) _ (wf_reduced s H id nd En))).
    intros u v Hu Hv. rewrite Ech in Hu, Hv.
    assert (Eab : a = b).
    { assert (Er2 : retag (etag e) a = retag (etag e) b).
      { apply (denc_canon s _ _ _ B Da). apply (denc_ext s _ _ _ Db).
        intros c Hc. symmetry. apply Hsame. exact Hc. }
      unfold retag in Er2. inversion Er2 as [[E1 E2]].
      apply edge_ext; [exact E1|]. destruct (etag e), (etag a), (etag b); simpl in E2; congruence. }
    destruct Hu as [<-|[<-|[]]], Hv as [<-|[<-|[]]]; congruence.
  - intros Hdep. destruct (le_lt_eq_dec _ _ Lx) as [Hlt|Heq]; [|symmetry; exact Heq].
    exfalso. apply Hdep. intros c Hc.
    apply (denc_indep s e _ H De); try (apply bchoice_upd; auto).
    intros l Hl. unfold cupd. destruct (Nat.eqb_spec l L); [lia | reflexivity].
Qed.

(** ** The count *)

(** the function of the untagged edge to a reference (true on the all-"then" choice) *)
Definition ufun (x : ref) : cfun := cfun_of s (mkEdge x false).

Lemma denc_cfun_of : forall e, ref_ok s (eref e) -> DenC s e (cfun_of s e).
Proof.
  intros e O. split; [exact O|]. intros c Hc. unfold cfun_of.
  rewrite (sem_edge_bcdd_code s e c (bc_kind s B)).
  pose proof (rlevel_le s H (eref e)).
  destruct (semc_total s H (S (nlevels s)) e c O (proj2 (bchoice_okc s c B) Hc) ltac:(lia)) as [v Ev].
  rewrite Ev. destruct v; reflexivity.
Qed.

Lemma denc_ufun : forall x, ref_ok s x -> DenC s (mkEdge x false) (ufun x).
Proof. intros x O. apply (denc_cfun_of (mkEdge x false) O). Qed.

(** the untagged edge denotes the subfunction or its complement, as the tag says *)
Lemma ufun_sub : forall x t L p, DenC s (mkEdge x t) (sub phi L p) ->
  forall c, bchoice c -> ufun x c = xorb t (sub phi L p c).
Proof.
  intros x t L p Dx c Hc. pose proof (denc_untag s _ _ Dx) as Du. simpl in Du.
  apply (denc_unique s _ _ _ (denc_ufun x (proj1 Dx)) Du c Hc).
Qed.

(** the tag is read off the value of the subfunction on the all-"then" choice *)
Lemma tag_of_sub : forall x t L p, DenC s (mkEdge x t) (sub phi L p) ->
  sub phi L p (fun _ => 0) = negb t.
Proof. intros x t L p Dx. apply (denc_all_then s _ _ B Dx). Qed.

Definition ckey (L : nat) (x : ref) : list bool * list bool :=
  (table (S L) (nlevels s - S L) (ufun x) (cset (fun _ => 0) L 0),
   table (S L) (nlevels s - S L) (ufun x) (cset (fun _ => 0) L 1)).

Lemma bchoice_cset' : forall c l i, bchoice c -> i < 2 -> bchoice (cset c l i).
Proof. intros c l i Hc Hi. apply (bchoice_upd c l i Hc Hi). Qed.

Lemma csub_as_merge : forall L k p c i, L + S k = nlevels s -> bchoice p -> bchoice c -> i < 2 -> c L = i ->
  sub phi L p c = phi (cmerge (S L) k (cset (pre L p) L i) c).
Proof.
  intros L k p c i Hn Hp Hc Hi Ei. unfold sub.
  apply (denc_ext_lt s e0 phi H D).
  - apply bchoice_glue; assumption.
  - apply bchoice_cmerge; [apply bchoice_cset'; [apply bchoice_pre; exact Hp | exact Hi] | exact Hc].
  - intros l Hl. rewrite cmerge_spec. unfold glue, cset, pre. rewrite cmerge_spec.
    destruct (Nat.ltb_spec l L), (Nat.leb_spec (S L) l), (Nat.ltb_spec l (S L + k)), (Nat.eqb_spec l L),
             (Nat.leb_spec 0 l), (Nat.ltb_spec l (0 + L)); simpl; subst; try reflexivity; lia.
Qed.

(** the tables of [xorb t o sub] *)
Lemma table_xorb : forall cnt lvl (f : cfun) c0 t,
  table lvl cnt (fun c => xorb t (f c)) c0 = if t then map negb (table lvl cnt f c0) else table lvl cnt f c0.
Proof.
  intros cnt lvl f c0 [|].
  - rewrite <- table_negb. apply table_ext. intros q _. apply xorb_true_l.
  - apply table_ext. intros q _. apply xorb_false_l.
Qed.

(** A: the key of a reference is the normalised pair of the prefix *)
Lemma ckey_is_pair : forall L p x t, L < nlevels s -> bchoice p -> DenC s (mkEdge x t) (sub phi L p) ->
  ckey L x = norm_pair (pair_at 0 L (nlevels s - S L) phi (fun _ => 0) p).
Proof.
  intros L p x t HL Hp Dx. unfold ckey, pair_at. simpl Nat.add. fold (pre L p).
  set (k := nlevels s - S L). assert (Hn : L + S k = nlevels s) by (unfold k; lia).
  assert (Hside : forall i, i < 2 ->
            table (S L) k (ufun x) (cset (fun _ => 0) L i)
            = table (S L) k (fun c => xorb t (phi c)) (cset (pre L p) L i)).
  { intros i Hi. apply table_ext. intros q Hq.
    set (c1 := cmerge (S L) k (cset (fun _ => 0) L i) q).
    assert (Hc1 : bchoice c1)
      by (apply bchoice_cmerge; [apply bchoice_cset'; [apply bchoice_zero | exact Hi] | exact Hq]).
    rewrite (ufun_sub x t L p Dx c1 Hc1).
    rewrite (csub_as_merge L k p c1 i Hn Hp Hc1 Hi (merge_at L k _ i q)).
    unfold c1. rewrite merge_window. reflexivity. }
  rewrite (Hside 0), (Hside 1) by lia. rewrite !table_xorb.
  (* the first entry of the then-table is the value on the all-"then" choice: [negb t] *)
  assert (Hhd : hd true (table (S L) k phi (cset (pre L p) L 0)) = negb t).
  { rewrite table_hd. rewrite <- (tag_of_sub x t L p Dx).
    rewrite (csub_as_merge L k p (fun _ => 0) 0 Hn Hp bchoice_zero ltac:(lia) eq_refl). reflexivity. }
  unfold norm_pair. simpl fst. simpl snd. rewrite Hhd. destruct t; reflexivity.
Qed.

Lemma cessential_iff_depends : forall L p, L < nlevels s -> bchoice p ->
  (essential (pair_at 0 L (nlevels s - S L) phi (fun _ => 0) p) = true <-> depends_on (sub phi L p) L).
Proof.
  intros L p HL Hp. unfold essential, pair_at. simpl Nat.add. simpl fst. simpl snd. fold (pre L p).
  set (k := nlevels s - S L). assert (Hn : L + S k = nlevels s) by (unfold k; lia).
  rewrite negb_true_iff. unfold depends_on.
  assert (Hval : forall c i, bchoice c -> i < 2 ->
            sub phi L p (cupd c L i) = phi (cmerge (S L) k (cset (pre L p) L i) c)).
  { intros c i Hc Hi.
    rewrite (csub_as_merge L k p (cupd c L i) i Hn Hp (bchoice_upd c L i Hc Hi) Hi (upd_same c L i)).
    f_equal. apply cmerge_ext. intros l Hl. apply upd_other. lia. }
  split.
  - intros Hne Hig. assert (X : bools_eqb (table (S L) k phi (cset (pre L p) L 0))
                                          (table (S L) k phi (cset (pre L p) L 1)) = true); [|congruence].
    apply bools_eqb_eq. apply table_ext. intros q Hq.
    rewrite <- !Hval by (auto; lia). apply Hig. exact Hq.
  - intros Hdep. destruct (bools_eqb _ _) eqn:E; [|reflexivity]. exfalso. apply Hdep.
    apply bools_eqb_eq in E. intros c Hc. rewrite !Hval by (auto; lia).
    apply (table_inj _ _ _ _ _ _ E c Hc).
Qed.

(** equal keys at one level: the same function of the untagged edges *)
Lemma ckey_eq_ufun : forall L x y, L < nlevels s -> ref_ok s x -> ref_ok s y ->
  rlevel s x = L -> rlevel s y = L -> ckey L x = ckey L y ->
  forall c, bchoice c -> ufun x c = ufun y c.
Proof.
  intros L x y HL Ox Oy Lx Ly E c Hc. unfold ckey in E.
  set (k := nlevels s - S L) in *. assert (Hn : L + S k = nlevels s) by (unfold k; lia).
  inversion E as [[E0 E1]].
  assert (Hnorm : forall z, ref_ok s z -> rlevel s z = L -> forall i, i < 2 -> c L = i ->
            ufun z c = ufun z (cmerge (S L) k (cset (fun _ => 0) L i) c)).
  { intros z Oz Lz i Hi Ei. pose proof (denc_ufun z Oz) as Dz.
    pose proof (denc_indep s _ _ H Dz) as Iz. simpl eref in Iz. rewrite Lz in Iz.
    set (c2 := cmerge (S L) k (cset (fun _ => 0) L i) c).
    assert (Hc2 : bchoice c2)
      by (apply bchoice_cmerge; [apply bchoice_cset'; [apply bchoice_zero | exact Hi] | exact Hc]).
    (* agree on [L, n): through the choice that is [c2] below [L] and [c] from [L] on *)
    set (m := glue L c2 c).
    assert (Hm : bchoice m) by (apply bchoice_glue; assumption).
    rewrite (Iz c m Hc Hm) by (intros l Hl; unfold m, glue; destruct (Nat.ltb_spec l L); [lia | reflexivity]).
    apply (denc_ext_lt s _ _ H Dz m c2 Hm Hc2). intros l Hl. unfold m, glue.
    destruct (Nat.ltb_spec l L); [reflexivity|]. unfold c2. rewrite cmerge_spec. unfold cset.
    destruct (Nat.leb_spec (S L) l), (Nat.ltb_spec l (S L + k)), (Nat.eqb_spec l L);
      simpl; subst; try reflexivity; lia. }
  pose proof (Hc L) as H2. destruct (c L) as [|[|j]] eqn:Ec; [| |lia].
  - rewrite (Hnorm x Ox Lx 0 ltac:(lia) eq_refl), (Hnorm y Oy Ly 0 ltac:(lia) eq_refl).
    apply (table_inj _ _ _ _ _ _ E0 c Hc).
  - rewrite (Hnorm x Ox Lx 1 ltac:(lia) eq_refl), (Hnorm y Oy Ly 1 ltac:(lia) eq_refl).
    apply (table_inj _ _ _ _ _ _ E1 c Hc).
Qed.

Section NodesC.
Variable ns : list positive.
Hypothesis Nns : NoDup ns.
Hypothesis Hns : forall id, In id ns <-> reachable s [eref e0] (RN id) /\ find_node s id <> None.

Definition cat_level (L : nat) : list positive :=
  filter (fun id => Nat.eqb (rlevel s (RN id)) L) ns.

Lemma cat_level_In : forall L id, In id (cat_level L) <->
  reachable s [eref e0] (RN id) /\ find_node s id <> None /\ rlevel s (RN id) = L.
Proof. intros L id. unfold cat_level. rewrite filter_In, Hns, Nat.eqb_eq. tauto. Qed.

Lemma cat_level_sub : forall L id, In id (cat_level L) ->
  exists p t, bchoice p /\ DenC s (mkEdge (RN id) t) (sub phi L p).
Proof.
  intros L id Hin. apply cat_level_In in Hin. destruct Hin as [Hr [_ Hl]].
  destruct (creachable_is_sub (RN id) Hr) as [p [t [Hp Dp]]]. rewrite Hl in Dp. eauto.
Qed.

Lemma clevel_count : forall L, L < nlevels s -> length (cat_level L) = level_nodes_c (nlevels s) L phi.
Proof.
  intros L HL. unfold level_nodes_c.
  rewrite <- (map_length (fun id => ckey L (RN id)) (cat_level L)).
  apply NoDup_same_length.
  - apply NoDup_map_inj; [apply NoDup_filter; exact Nns|].
    intros a b Ha Hb Ek.
    apply cat_level_In in Ha. apply cat_level_In in Hb.
    destruct Ha as [_ [Fa La]]. destruct Hb as [_ [Fb Lb]].
    assert (Oa : ref_ok s (RN a)) by (destruct (find_node s a) as [nd|] eqn:E; [exists nd; exact E | congruence]).
    assert (Ob : ref_ok s (RN b)) by (destruct (find_node s b) as [nd|] eqn:E; [exists nd; exact E | congruence]).
    assert (Hr : mkEdge (RN a) false = mkEdge (RN b) false); [|inversion Hr; reflexivity].
    apply (denc_canon s _ _ _ B (denc_ufun (RN a) Oa)). apply (denc_ext s _ _ _ (denc_ufun (RN b) Ob)).
    intros c Hc. symmetry. apply (ckey_eq_ufun L (RN a) (RN b) HL Oa Ob La Lb Ek c Hc).
  - apply dedup_NoDup. exact pair_eqb_eq.
  - intros pr. rewrite (dedup_In _ pair_eqb pair_eqb_eq). split.
    + intros Hin. apply in_map_iff in Hin. destruct Hin as [id [<- Hin]].
      destruct (cat_level_sub L id Hin) as [p [t [Hp Dp]]].
      apply in_map_iff.
      exists (pair_at 0 L (nlevels s - S L) phi (fun _ => 0) p).
      split; [symmetry; apply (ckey_is_pair L p (RN id) t HL Hp Dp)|].
      apply filter_In. split; [apply subpairs_In; exists p; auto|].
      apply (cessential_iff_depends L p HL Hp).
      apply (csub_level_iff L p _ HL Hp Dp). simpl eref.
      apply cat_level_In in Hin. apply Hin.
    + intros Hin. apply in_map_iff in Hin. destruct Hin as [pr0 [<- Hin]].
      apply filter_In in Hin. destruct Hin as [Hin Hess].
      apply subpairs_In in Hin. destruct Hin as [q [Hq ->]].
      apply (cessential_iff_depends L q HL Hq) in Hess.
      destruct (csub_is_reachable L q ltac:(lia) Hq) as [x [t [Rx [Dx Lx]]]].
      apply (csub_level_iff L q _ HL Hq Dx) in Hess. simpl eref in Hess.
      destruct x as [u|id]; [simpl in Hess; lia|].
      apply in_map_iff. exists id. split; [apply (ckey_is_pair L q (RN id) t HL Hq Dx)|].
      apply cat_level_In. split; [exact Rx|]. split; [|exact Hess].
      destruct (proj1 Dx) as [nd En]. simpl in En. congruence.
Qed.

Lemma cnodes_count : length ns = sum_upto (nlevels s) (fun L => level_nodes_c (nlevels s) L phi).
Proof.
  rewrite (length_partition _ (fun id => rlevel s (RN id)) ns (nlevels s)).
  - apply sum_upto_ext. intros L HL. apply (clevel_count L HL).
  - intros id Hin. apply Hns in Hin. destruct Hin as [_ Hf].
    destruct (find_node s id) as [nd|] eqn:En; [|congruence].
    rewrite (rlevel_node s id nd En). apply (wf_level s H id nd En).
Qed.

End NodesC.

(** *** exactly one terminal is reachable *)

Lemma term_reachable : forall k x, ref_ok s x -> nlevels s - rlevel s x <= k ->
  exists t, reachable s [x] (RT t).
Proof.
  induction k as [|k IH]; intros x O Hk.
  - destruct x as [t|id]; [exists t; apply reach_root; left; reflexivity|].
    destruct O as [nd En]. rewrite (rlevel_node s id nd En) in Hk.
    pose proof (wf_level s H id nd En). lia.
  - destruct x as [t|id]; [exists t; apply reach_root; left; reflexivity|].
    destruct O as [nd En]. rewrite (rlevel_node s id nd En) in Hk.
    assert (Hi : 0 < arity (s_kind s)) by (rewrite (bc_kind s B); simpl; lia).
    destruct (child_exists s H id nd 0 En Hi) as [e He].
    destruct (child_nth s H id nd 0 e En He) as [Oe Le].
    destruct (IH (eref e) Oe ltac:(lia)) as [t Rt]. exists t.
    apply (reachable_trans s (RN id) (eref e) (RT t)); [|exact Rt].
    apply (reach_child s [RN id] id nd e); [apply reach_root; left; reflexivity | exact En |].
    apply (nth_error_In _ _ He).
Qed.

Lemma cterminals_count : forall ts, NoDup ts -> (forall t, In t ts <-> reachable s [eref e0] (RT t)) ->
  length ts = 1.
Proof.
  intros ts Nts Hts.
  destruct (term_reachable _ (eref e0) (proj1 D) (le_n _)) as [t0 R0].
  assert (H0 : In t0 ts) by (apply Hts; exact R0).
  assert (Hall : forall t, In t ts -> t = t0).
  { intros t Ht. apply Hts in Ht.
    destruct (creachable_is_sub _ Ht) as [_ [_ [_ [[v Ev] _]]]].
    destruct (creachable_is_sub _ R0) as [_ [_ [_ [[v0 Ev0] _]]]]. simpl in Ev, Ev0.
    apply (bcdd_one_term s t t0 v v0 (bc_kind s B) (bc_terms_kind s B) Ev Ev0). }
  destruct ts as [|a [|b ts']]; [destruct H0 | reflexivity|].
  exfalso. inversion Nts as [|? ? Ha _]; subst. apply Ha.
  rewrite (Hall a (or_introl eq_refl)), <- (Hall b (or_intror (or_introl eq_refl))). left. reflexivity.
Qed.

Theorem bcdd_count_is_canon_size : count_reach s e0 = canon_size_bcdd (nlevels s) phi.
Proof.
  destruct (count_reach_spec s (wf_arity_ok s H) e0) as [ns [ts [Nn [Nt [Hn [Ht Hc]]]]]].
  rewrite Hc. unfold canon_size_bcdd. f_equal. f_equal.
  - apply (cnodes_count ns Nn Hn).
  - apply (cterminals_count ts Nt Ht).
Qed.

End SubC.

(** for every existing edge of a well-formed BCDD table *)
Theorem bcdd_node_count_canon_size : forall s e, BcOK s -> ref_ok s (eref e) ->
  count_reach s e = canon_size_bcdd (nlevels s) (cfun_of s e).
Proof. intros s e B O. apply (bcdd_count_is_canon_size s B e _ (denc_cfun_of s B e O)). Qed.

(** and for the diagram [build_bcdd] constructs *)
Theorem build_bcdd_canon_size : forall v2l l2v f, order_ok v2l l2v ->
  exists s e, build_bcdd v2l l2v f = Some (s, e) /\ BcOK s /\
    count_reach s e = canon_size_bcdd (length l2v) (fun c => f (ctrunc (length l2v) c)).
Proof.
  intros v2l l2v f Ho. destruct (build_bcdd_ok v2l l2v f Ho) as [s [e [E0 [B [_ [El [_ D]]]]]]].
  exists s, e. split; [exact E0|]. split; [exact B|].
  assert (Hn : nlevels s = length l2v) by (unfold nlevels; rewrite El; reflexivity).
  rewrite <- Hn in *. apply (bcdd_count_is_canon_size s B e _ D).
Qed.

Example ex_canon_size_bcdd :
  canon_size_bcdd (nlevels ex_bcdd) (cfun_of ex_bcdd (mkEdge (RN 2) true)) = 3%N /\
  count_reach ex_bcdd (mkEdge (RN 2) true) = 3%N /\
  canon_size_bcdd 4 (lvl_fun [0; 1; 2; 3] (fun a => (a 0 && a 1) || (a 2 && a 3))) = 5%N /\
  canon_size_bcdd 4 (lvl_fun [0; 2; 1; 3] (fun a => (a 0 && a 1) || (a 2 && a 3))) = 7%N /\
  canon_size_bcdd 3 (fun _ => false) = 1%N.
Proof. vm_compute. repeat split; reflexivity. Qed.
