(** * The textbook characterisation and count for ZBDDs

    A ZBDD reference denotes a family of sets of levels.  For the root family
    [PZ f 0 n] of a function [f] of the [n] levels, [Q L p] is the sub-family
    with the levels below [L] fixed to the choice [p] (a family of subsets of
    [L, n)).  With the zero-suppression rule

    - [zreachable_is_sub]: every reference reachable from the root denotes a
      sub-family [Q (its level) p];
    - [zsub_is_reachable]: every *non-empty* sub-family [Q L p] is denoted by a
      reachable reference at level [L] or deeper (the empty family is the Empty
      terminal, which need not be reachable);
    - [zsub_level_iff]: exactly at level [L] iff some member contains [L] (the
      "then" part is non-empty);
    - [zbdd_count_is_canon_size]: [count_reach s (E r) = canon_size_zbdd n f]
      ([canon_size_zbdd], DD/BuildCanon.v: per level the distinct cofactor-table
      pairs whose then-table is not all-false; the Base terminal iff the family
      is non-empty; the Empty terminal iff the family is empty or some node has
      an empty else-part). *)

From Coq Require Import List NArith PArith Bool Arith Lia FMapPositive.
From OxiVerif Require Import DD.Table DD.TableExtra DD.TableProofs DD.Canon DD.Sem DD.Build DD.BuildProofs
  DD.Apply DD.ApplyProofs DD.CanonZbdd DD.FamSpec DD.FamSpecProofs DD.ZbddOps DD.ZbddOpsProofs
  DD.ZbddBoolProofs DD.ZbddEvalProofs DD.Iso DD.BuildCanon DD.BuildCanonProofs DD.BuildCanonZbdd
  DD.ReachSpec DD.BuildCanonSub DD.BuildCanonSize.
Import ListNotations.

(** ** Choices and sets *)

Lemma cs_true_levels : forall c cnt from l, bchoice c -> from <= l < from + cnt ->
  cs (true_levels c from cnt) l = c l.
Proof.
  intros c cnt from l Hc Hl. pose proof (Hc l) as H2.
  destruct (c l) as [|[|j]] eqn:E; [| |lia].
  - apply cs_in. apply true_levels_in; assumption.
  - apply cs_notin. intros Hin. apply true_levels_range in Hin. lia.
Qed.

Lemma bchoice_cs : forall S, bchoice (cs S).
Proof. intros S l. apply cs_lt2. Qed.

Lemma forall_lt_weaken : forall (S : lset) a b, a <= b -> Forall (fun x => x < a) S -> Forall (fun x => x < b) S.
Proof. intros S a b Hab Hf. apply Forall_forall. intros x Hx. rewrite Forall_forall in Hf. specialize (Hf x Hx). lia. Qed.

Lemma true_levels_lt : forall c from cnt, Forall (fun x => x < from + cnt) (true_levels c from cnt).
Proof. intros c from cnt. apply Forall_forall. intros x Hx. apply true_levels_range in Hx. lia. Qed.

(** a table has a true entry iff the family is non-empty *)
Lemma any_true_PZ : forall cnt lvl f c0,
  any_true (table lvl cnt f c0) = true <-> exists T, PZ f lvl cnt c0 T.
Proof.
  intros cnt lvl f c0. unfold any_true. rewrite existsb_exists. split.
  - intros [b [Hin Hb]]. subst b. apply table_In in Hin. destruct Hin as [q [Hq Ev]].
    exists (true_levels q lvl cnt). split; [apply true_levels_incr|]. split; [apply true_levels_lt|].
    rewrite (cmerge_ext_range cnt lvl c0 (cs (true_levels q lvl cnt)) q); [symmetry; exact Ev|].
    intros l Hl. apply cs_true_levels; assumption.
  - intros [T [_ [_ Ev]]]. exists true. split; [|reflexivity].
    apply table_In. exists (cs T). split; [apply bchoice_cs | symmetry; exact Ev].
Qed.

Lemma exists_upto_spec : forall n g, exists_upto n g = true <-> exists L, L < n /\ g L = true.
Proof.
  induction n as [|n IH]; intros g; simpl.
  - split; [discriminate | intros [L [HL _]]; lia].
  - rewrite orb_true_iff, IH. split.
    + intros [[L [HL E]]|E]; [exists L; split; [lia | exact E] | exists n; split; [lia | exact E]].
    + intros [L [HL E]]. destruct (Nat.eq_dec L n) as [->|Hne]; [right; exact E | left; exists L; split; [lia | exact E]].
Qed.

(** a duplicate-free list of Booleans *)
Lemma bool_list_count : forall l : list bool, NoDup l ->
  length l = (if existsb (fun b => b) l then 1 else 0) + (if existsb negb l then 1 else 0).
Proof.
  intros l N. destruct l as [|a [|b [|c r]]].
  - reflexivity.
  - destruct a; reflexivity.
  - inversion N as [|? ? Ha _]; subst. destruct a, b; simpl in *; try reflexivity; exfalso; apply Ha; auto.
  - exfalso. inversion N as [|? ? Ha N1]; subst. inversion N1 as [|? ? Hb _]; subst.
    destruct a, b, c; simpl in *; tauto.
Qed.

(** ** The correspondence *)

Section SubZ.
Variable s : snap.
Hypothesis B : ZbddOK s.
Variable r : ref.
Variable f : cfun.
Hypothesis Hf : levels_only (nlevels s) f.
Hypothesis D : ZDen s r (PZ f 0 (nlevels s) (fun _ => 0)).

Let H : WF s := zo_wf s B.

(** the sub-family with the levels below [L] fixed to [p] *)
Definition Q (L : nat) (p : nat -> nat) : fpred := PZ f L (nlevels s - L) (pre L p).

(** its then / else parts w.r.t. level [L] *)
Definition Qc (L : nat) (p : nat -> nat) (i : nat) : fpred :=
  PZ f (S L) (nlevels s - S L) (cset (pre L p) L i).

(** only the levels below [lvl] of the base choice matter *)
Lemma PZ_c0 : forall lvl cnt c0 c0', lvl + cnt = nlevels s -> (forall l, l < lvl -> c0 l = c0' l) ->
  peq (PZ f lvl cnt c0) (PZ f lvl cnt c0').
Proof.
  intros lvl cnt c0 c0' Hn E S. unfold PZ.
  assert (X : f (cmerge lvl cnt c0 (cs S)) = f (cmerge lvl cnt c0' (cs S))).
  { apply Hf. intros l Hl. rewrite !cmerge_spec.
    destruct (Nat.leb_spec lvl l), (Nat.ltb_spec l (lvl + cnt)); simpl; try reflexivity; try lia.
    apply E. lia. }
  rewrite X. reflexivity.
Qed.

Lemma Q_step : forall L p, L < nlevels s -> peq (node_pred L (Qc L p 0) (Qc L p 1)) (Q L p).
Proof.
  intros L p HL. unfold Q, Qc. replace (nlevels s - L) with (S (nlevels s - S L)) by lia.
  apply PZ_step.
Qed.

Lemma Q_next : forall L p, L < nlevels s -> peq (Q (S L) p) (Qc L p (p L)).
Proof.
  intros L p HL. unfold Q, Qc. apply PZ_c0; [lia|].
  intros l Hl. unfold pre, cset. rewrite !cmerge_spec.
  destruct (Nat.leb_spec 0 l), (Nat.ltb_spec l (0 + S L)), (Nat.ltb_spec l (0 + L)), (Nat.eqb_spec l L);
    simpl; subst; try reflexivity; lia.
Qed.

Lemma Qc_sup : forall L p i T, Qc L p i T -> incr_from (S L) T.
Proof. intros L p i T [Hi _]. exact Hi. Qed.

(** the base choice that is [c0] below [lvl] and "else" from there on *)
Definition low (lvl : nat) (c0 : nat -> nat) : nat -> nat := fun l => if l <? lvl then c0 l else 1.

Lemma bchoice_low : forall lvl c0, bchoice c0 -> bchoice (low lvl c0).
Proof. intros lvl c0 Hc l. unfold low. destruct (l <? lvl); [apply Hc | lia]. Qed.

(** a reference denoting a sub-family at [lvl] denotes the sub-family at its own level *)
Lemma zden_deeper : forall x lvl c0, lvl <= nlevels s ->
  ZDen s x (PZ f lvl (nlevels s - lvl) c0) ->
  lvl <= rlevel s x /\ ZDen s x (Q (rlevel s x) (low lvl c0)).
Proof.
  intros x lvl c0 Hl Dx.
  assert (Lx : lvl <= rlevel s x).
  { apply (zden_level s x _ lvl B Dx Hl). intros S [Hi _]. exact Hi. }
  split; [exact Lx|].
  pose proof (rlevel_le s H x) as Ln.
  set (L' := rlevel s x) in *.
  apply (zden_ext s x _ _ Dx). intros S. unfold Q, PZ.
  assert (X : incr_from L' S -> f (cmerge lvl (nlevels s - lvl) c0 (cs S))
                                = f (cmerge L' (nlevels s - L') (pre L' (low lvl c0)) (cs S))).
  { intros Hi. apply Hf. intros l Hln. rewrite !cmerge_spec. unfold pre, low. rewrite cmerge_spec.
    destruct (Nat.leb_spec lvl l), (Nat.ltb_spec l (lvl + (nlevels s - lvl))),
             (Nat.leb_spec L' l), (Nat.ltb_spec l (L' + (nlevels s - L'))),
             (Nat.leb_spec 0 l), (Nat.ltb_spec l (0 + L')), (Nat.ltb_spec l lvl);
      simpl; try reflexivity; try lia.
    apply cs_notin. apply (incr_from_notin S L' l Hi). lia. }
  split.
  - intros HS. destruct (zden_support s x _ S B Dx HS) as [Hi Hfa]. fold L' in Hi.
    split; [exact Hi|]. split; [apply (forall_lt_weaken S (nlevels s)); [lia | exact Hfa]|].
    rewrite <- (X Hi). apply HS.
  - intros [Hi [Hfa Hv]]. split; [apply (incr_from_weaken S L'); [lia | exact Hi]|].
    split; [apply (forall_lt_weaken S (L' + (nlevels s - L'))); [lia | exact Hfa]|].
    rewrite (X Hi). exact Hv.
Qed.

(** the children of a node denoting [Q L p] denote its then / else parts *)
Lemma znode_children : forall id nd p, find_node s id = Some nd ->
  ZDen s (RN id) (Q (nlevel nd) p) ->
  exists hi lo, nchildren nd = [hi; lo] /\
    ZDen s (eref hi) (Qc (nlevel nd) p 0) /\ ZDen s (eref lo) (Qc (nlevel nd) p 1).
Proof.
  intros id nd p En Dn. pose proof (wf_level s H id nd En) as HL.
  destruct (zden_node_inv s id nd _ B Dn En) as [hi [lo [PA [PB [Ec [DA [DB [LA [LB HP]]]]]]]]].
  exists hi, lo. split; [exact Ec|].
  destruct (node_pred_inj (nlevel nd) PA PB (Qc (nlevel nd) p 0) (Qc (nlevel nd) p 1)) as [HA HB].
  - intros T HT. apply (zden_below s _ PA _ T B DA LA HT).
  - intros T HT. apply (zden_below s _ PB _ T B DB LB HT).
  - apply Qc_sup.
  - apply Qc_sup.
  - intros S. rewrite <- (HP S). symmetry. apply (Q_step (nlevel nd) p HL).
  - split; [apply (zden_ext s _ PA _ DA HA) | apply (zden_ext s _ PB _ DB HB)].
Qed.

Theorem zreachable_is_sub : forall x, reachable s [r] x ->
  exists p, bchoice p /\ ZDen s x (Q (rlevel s x) p).
Proof.
  intros x Hx. induction Hx as [x Hr|id nd e Hp IH En He].
  - destruct Hr as [<-|[]]. exists (low 0 (fun _ => 0)). split; [apply bchoice_low, bchoice_zero|].
    apply (zden_deeper r 0 (fun _ => 0) ltac:(lia)). rewrite Nat.sub_0_r. exact D.
  - destruct IH as [p [Hp0 Dn]]. rewrite (rlevel_node s id nd En) in Dn.
    pose proof (wf_level s H id nd En) as HL.
    destruct (znode_children id nd p En Dn) as [hi [lo [Ec [Dh Dl]]]].
    rewrite Ec in He. destruct He as [<-|[<-|[]]].
    + exists (low (S (nlevel nd)) (cset (pre (nlevel nd) p) (nlevel nd) 0)).
      split; [apply bchoice_low, bchoice_cset; [apply bchoice_pre; exact Hp0 | lia]|].
      apply (zden_deeper (eref hi) (S (nlevel nd)) _ ltac:(lia) Dh).
    + exists (low (S (nlevel nd)) (cset (pre (nlevel nd) p) (nlevel nd) 1)).
      split; [apply bchoice_low, bchoice_cset; [apply bchoice_pre; exact Hp0 | lia]|].
      apply (zden_deeper (eref lo) (S (nlevel nd)) _ ltac:(lia) Dl).
Qed.

(** every non-empty sub-family is denoted by a reachable reference *)
Theorem zsub_is_reachable : forall L p, L <= nlevels s -> bchoice p -> (exists S0, Q L p S0) ->
  exists x, reachable s [r] x /\ ZDen s x (Q L p) /\ L <= rlevel s x.
Proof.
  induction L as [|L IH]; intros p HL Hp [S0 HS0].
  - exists r. split; [apply reach_root; left; reflexivity|]. split; [|lia].
    unfold Q. rewrite Nat.sub_0_r. exact D.
  - assert (HL' : L < nlevels s) by lia.
    pose proof (proj1 (Q_next L p HL' S0) HS0) as HS1.
    (* the sub-family one level up is non-empty too *)
    assert (Hne : exists S1, Q L p S1).
    { pose proof (Hp L) as H2. destruct (p L) as [|[|j]] eqn:Ep; [| |lia].
      - exists (L :: S0). apply (Q_step L p HL'). left. exists S0. auto.
      - exists S0. apply (Q_step L p HL'). right. exact HS1. }
    destruct (IH p ltac:(lia) Hp Hne) as [x [Rx [Dx Lx]]].
    destruct (le_lt_eq_dec _ _ Lx) as [Hlt|Heq].
    + (* [x] lies deeper: no member contains [L], so the then-part is empty and [p] goes "else" *)
      assert (Hno : forall T, ~ Qc L p 0 T).
      { intros T HT. assert (HQ : Q L p (L :: T)) by (apply (Q_step L p HL'); left; exists T; auto).
        destruct (zden_support s x _ _ B Dx HQ) as [Hi _]. simpl in Hi. lia. }
      pose proof (Hp L) as H2. destruct (p L) as [|[|j]] eqn:Ep; [exfalso; apply (Hno S0 HS1) | |lia].
      exists x. split; [exact Rx|]. split; [|lia].
      apply (zden_ext s x _ _ Dx). intros S. rewrite (Q_next L p HL' S), Ep, <- (Q_step L p HL' S).
      unfold node_pred. split; [|auto]. intros [[T [_ HT]]|HS]; [destruct (Hno T HT) | exact HS].
    + destruct x as [t|id]; [simpl in Heq; lia|].
      destruct (zden_ok _ _ _ Dx) as [nd En]. rewrite (rlevel_node s id nd En) in Heq. subst L.
      destruct (znode_children id nd p En Dx) as [hi [lo [Ec [Dh Dl]]]].
      pose proof (Hp (nlevel nd)) as H2. destruct (p (nlevel nd)) as [|[|j]] eqn:Ep; [| |lia].
      * exists (eref hi). split; [apply (reach_child s [r] id nd hi Rx En); rewrite Ec; left; reflexivity|].
        split.
        -- apply (zden_ext s _ _ _ Dh). intros S. rewrite (Q_next (nlevel nd) p HL' S), Ep. reflexivity.
        -- apply (zden_level s _ _ (S (nlevel nd)) B Dh); [lia | apply Qc_sup].
      * exists (eref lo).
        split; [apply (reach_child s [r] id nd lo Rx En); rewrite Ec; right; left; reflexivity|].
        split.
        -- apply (zden_ext s _ _ _ Dl). intros S. rewrite (Q_next (nlevel nd) p HL' S), Ep. reflexivity.
        -- apply (zden_level s _ _ (S (nlevel nd)) B Dl); [lia | apply Qc_sup].
Qed.

(** ... exactly at level [L] iff the then-part is non-empty *)
Theorem zsub_level_iff : forall L p x, L < nlevels s -> ZDen s x (Q L p) ->
  (rlevel s x = L <-> exists T, Qc L p 0 T).
Proof.
  intros L p x HL Dx.
  assert (Lx : L <= rlevel s x).
  { apply (zden_level s x _ L B Dx); [lia|]. intros S [Hi _]. exact Hi. }
  split.
  - intros Heq. destruct x as [t|id]; [simpl in Heq; lia|].
    destruct (zden_ok _ _ _ Dx) as [nd En]. rewrite (rlevel_node s id nd En) in Heq. subst L.
    destruct (znode_children id nd p En Dx) as [hi [lo [Ec [Dh _]]]].
    (* the then-child is not the Empty terminal, so its family has a member *)
    assert (Hnh : forall t, eref hi = RT t -> term_val s t <> Some 0%N).
    { destruct (reduced_zbdd s (zo_kind s B) _ (wf_reduced s H id nd En)) as [h [Hh1 Hh2]].
      rewrite Ec in Hh1. simpl in Hh1. inversion Hh1; subst h. exact Hh2. }
    destruct (fam_nonempty s B _ (eref hi) (zden_ok _ _ _ Dh) (le_n _) Hnh) as [F [T [EF [HT _]]]].
    exists T. destruct Dh as [_ [F' [EF' HF']]]. rewrite EF in EF'. inversion EF'; subst F'.
    apply HF'. exact HT.
  - intros [T HT]. assert (HQ : Q L p (L :: T)) by (apply (Q_step L p HL); left; exists T; auto).
    destruct (zden_support s x _ _ B Dx HQ) as [Hi _]. simpl in Hi. lia.
Qed.

End SubZ.
