(** * The textbook characterisation and count for ZBDDs

    A ZBDD reference denotes a family of sets of levels.  For the root family
    [PZ f 0 n] of a function [f] of the [n] levels, [Q L p] is the sub-family
    with the levels below [L] fixed to the choice [p] (a family of subsets of
    [L, n)).  With the zero-suppression rule

    - [zreachable_is_sub]: every reference reachable from the root denotes a
      sub-family [Q (its level) p];
    - [zsub_is_reachable]: every *non-empty* sub-family [Q L p] is denoted by a
      reachable reference at level [L] or deeper (the empty family is the Empty
      terminal, which need not be reachable);
    - [zsub_level_iff]: exactly at level [L] iff some member contains [L] (the
      "then" part is non-empty);
    - [zbdd_count_is_canon_size]: [count_reach s (E r) = canon_size_zbdd n f]
      ([canon_size_zbdd], DD/BuildCanon.v: per level the distinct cofactor-table
      pairs whose then-table is not all-false; the Base terminal iff the family
      is non-empty; the Empty terminal iff the family is empty or some node has
      an empty else-part). *)

From Coq Require Import List NArith PArith Bool Arith Lia FMapPositive.
From OxiVerif Require Import DD.Table DD.TableExtra DD.TableProofs DD.Canon DD.Sem DD.Build DD.BuildProofs
  DD.Apply DD.ApplyProofs DD.CanonZbdd DD.FamSpec DD.FamSpecProofs DD.ZbddOps DD.ZbddOpsProofs
  DD.ZbddBoolProofs DD.ZbddEvalProofs DD.Iso DD.BuildCanon DD.BuildCanonProofs DD.BuildCanonZbdd
  DD.ReachSpec DD.BuildCanonSub DD.BuildCanonSize.
Import ListNotations.

(** ** Choices and sets *)

Lemma cs_true_levels : forall c cnt from l, bchoice c -> from <= l < from + cnt ->
  cs (true_levels c from cnt) l = c l.
Proof.
  intros c cnt from l Hc Hl. pose proof (Hc l) as H2.
  destruct (c l) as [|[|j]] eqn:E; [| |lia].
  - apply cs_in. apply true_levels_in; assumption.
  - apply cs_notin. intros Hin. apply true_levels_range in Hin. lia.
Qed.

Lemma bchoice_cs : forall S, bchoice (cs S).
Proof. intros S l. apply cs_lt2. Qed.

Lemma forall_lt_weaken : forall (S : lset) a b, a <= b -> Forall (fun x => x < a) S -> Forall (fun x => x < b) S.
Proof. intros S a b Hab Hf. apply Forall_forall. intros x Hx. rewrite Forall_forall in Hf. specialize (Hf x Hx). lia. Qed.

Lemma true_levels_lt : forall c from cnt, Forall (fun x => x < from + cnt) (true_levels c from cnt).
Proof. intros c from cnt. apply Forall_forall. intros x Hx. apply true_levels_range in Hx. lia. Qed.

(** a table has a true entry iff the family is non-empty *)
Lemma any_true_PZ : forall cnt lvl f c0,
  any_true (table lvl cnt f c0) = true <-> exists T, PZ f lvl cnt c0 T.
Proof.
  intros cnt lvl f c0. unfold any_true. rewrite existsb_exists. split.
  - intros [b [Hin Hb]]. subst b. apply table_In in Hin. destruct Hin as [q [Hq Ev]].
    exists (true_levels q lvl cnt). split; [apply true_levels_incr|]. split; [apply true_levels_lt|].
    rewrite (cmerge_ext_range cnt lvl c0 (cs (true_levels q lvl cnt)) q); [symmetry; exact Ev|].
    intros l Hl. apply cs_true_levels; assumption.
  - intros [T [_ [_ Ev]]]. exists true. split; [|reflexivity].
    apply table_In. exists (cs T). split; [apply bchoice_cs | symmetry; exact Ev].
Qed.

Lemma exists_upto_spec : forall n g, exists_upto n g = true <-> exists L, L < n /\ g L = true.
Proof.
  induction n as [|n IH]; intros g; simpl.
  - split; [discriminate | intros [L [HL _]]; lia].
  - rewrite orb_true_iff, IH. split.
    + intros [[L [HL E]]|E]; [exists L; split; [lia | exact E] | exists n; split; [lia | exact E]].
    + intros [L [HL E]]. destruct (Nat.eq_dec L n) as [->|Hne]; [right; exact E | left; exists L; split; [lia | exact E]].
Qed.

(** a duplicate-free list of Booleans *)
Lemma bool_list_count : forall l : list bool, NoDup l ->
  length l = (if existsb (fun b => b) l then 1 else 0) + (if existsb negb l then 1 else 0).
Proof.
  intros l N. destruct l as [|a [|b [|c r]]].
  - reflexivity.
  - destruct a; reflexivity.
  - inversion N as [|? ? Ha _]; subst. destruct a, b; simpl in *; try reflexivity; exfalso; apply Ha; auto.
  - exfalso. inversion N as [|? ? Ha N1]; subst. inversion N1 as [|? ? Hb _]; subst.
    destruct a, b, c; simpl in *; tauto.
Qed.

(** ** The correspondence *)

Section SubZ.
Variable s : snap.
Hypothesis B : ZbddOK s.
Variable r : ref.
Variable f : cfun.
Hypothesis Hf : levels_only (nlevels s) f.
Hypothesis D : ZDen s r (PZ f 0 (nlevels s) (fun _ => 0)).

Let H : WF s := zo_wf s B.

(** the sub-family with the levels below [L] fixed to [p] *)
Definition Q (L : nat) (p : nat -> nat) : fpred := PZ f L (nlevels s - L) (pre L p).

(** its then / else parts w.r.t. level [L] *)
Definition Qc (L : nat) (p : nat -> nat) (i : nat) : fpred :=
  PZ f (S L) (nlevels s - S L) (cset (pre L p) L i).

(** only the levels below [lvl] of the base choice matter *)
Lemma PZ_c0 : forall lvl cnt c0 c0', lvl + cnt = nlevels s -> (forall l, l < lvl -> c0 l = c0' l) ->
  peq (PZ f lvl cnt c0) (PZ f lvl cnt c0').
Proof.
  intros lvl cnt c0 c0' Hn E S. unfold PZ.
  assert (X : f (cmerge lvl cnt c0 (cs S)) = f (cmerge lvl cnt c0' (cs S))).
  { apply Hf. intros l Hl. rewrite !cmerge_spec.
    destruct (Nat.leb_spec lvl l), (Nat.ltb_spec l (lvl + cnt)); simpl; try reflexivity; try lia.
    apply E. lia. }
  rewrite X. reflexivity.
Qed.

Lemma Q_step : forall L p, L < nlevels s -> peq (node_pred L (Qc L p 0) (Qc L p 1)) (Q L p).
Proof.
  intros L p HL. unfold Q, Qc. replace (nlevels s - L) with (S (nlevels s - S L)) by lia.
  apply PZ_step.
Qed.

Lemma Q_next : forall L p, L < nlevels s -> peq (Q (S L) p) (Qc L p (p L)).
Proof.
  intros L p HL. unfold Q, Qc. apply PZ_c0; [lia|].
  intros l Hl. unfold pre, cset. rewrite !cmerge_spec.
  destruct (Nat.leb_spec 0 l), (Nat.ltb_spec l (0 + S L)), (Nat.ltb_spec l (0 + L)), (Nat.eqb_spec l L);
    simpl; subst; try reflexivity; lia.
Qed.

Lemma Qc_sup : forall L p i T, Qc L p i T -> incr_from (S L) T.
Proof. intros L p i T [Hi _]. exact Hi. Qed.

(** the base choice that is [c0] below [lvl] and "else" from there on *)
Definition low (lvl : nat) (c0 : nat -> nat) : nat -> nat := fun l => if l <? lvl then c0 l else 1.

Lemma bchoice_low : forall lvl c0, bchoice c0 -> bchoice (low lvl c0).
Proof. intros lvl c0 Hc l. unfold low. destruct (l <? lvl); [apply Hc | lia]. Qed.

(** a reference denoting a sub-family at [lvl] denotes the sub-family at its own level *)
Lemma zden_deeper : forall x lvl c0, lvl <= nlevels s ->
  ZDen s x (PZ f lvl (nlevels s - lvl) c0) ->
  lvl <= rlevel s x /\ ZDen s x (Q (rlevel s x) (low lvl c0)).
Proof.
  intros x lvl c0 Hl Dx.
  assert (Lx : lvl <= rlevel s x).
  { apply (zden_level s x _ lvl B Dx Hl). intros S [Hi _]. exact Hi. }
  split; [exact Lx|].
  pose proof (rlevel_le s H x) as Ln.
  set (L' := rlevel s x) in *.
  apply (zden_ext s x _ _ Dx). intros S. unfold Q, PZ.
  assert (X : incr_from L' S -> f (cmerge lvl (nlevels s - lvl) c0 (cs S))
                                = f (cmerge L' (nlevels s - L') (pre L' (low lvl c0)) (cs S))).
  { intros Hi. apply Hf. intros l Hln. rewrite !cmerge_spec. unfold pre, low. rewrite cmerge_spec.
    destruct (Nat.leb_spec lvl l), (Nat.ltb_spec l (lvl + (nlevels s - lvl))),
             (Nat.leb_spec L' l), (Nat.ltb_spec l (L' + (nlevels s - L'))),
             (Nat.leb_spec 0 l), (Nat.ltb_spec l (0 + L')), (Nat.ltb_spec l lvl);
      simpl; try reflexivity; try lia.
    apply cs_notin. apply (incr_from_notin S L' l Hi). lia. }
  split.
  - intros HS. destruct (zden_support s x _ S B Dx HS) as [Hi Hfa]. fold L' in Hi.
    split; [exact Hi|]. split; [apply (forall_lt_weaken S (nlevels s)); [lia | exact Hfa]|].
    rewrite <- (X Hi). apply HS.
  - intros [Hi [Hfa Hv]]. split; [apply (incr_from_weaken S L'); [lia | exact Hi]|].
    split; [apply (forall_lt_weaken S (L' + (nlevels s - L'))); [lia | exact Hfa]|].
    rewrite (X Hi). exact Hv.
Qed.

(** the children of a node denoting [Q L p] denote its then / else parts *)
Lemma znode_children : forall id nd p, find_node s id = Some nd ->
  ZDen s (RN id) (Q (nlevel nd) p) ->
  exists hi lo, nchildren nd = [hi; lo] /\
    ZDen s (eref hi) (Qc (nlevel nd) p 0) /\ ZDen s (eref lo) (Qc (nlevel nd) p 1).
Proof.
  intros id nd p En Dn. pose proof (wf_level s H id nd En) as HL.
  destruct (zden_node_inv s id nd _ B Dn En) as [hi [lo [PA [PB [Ec [DA [DB [LA [LB HP]]]]]]]]].
  exists hi, lo. split; [exact Ec|].
  destruct (node_pred_inj (nlevel nd) PA PB (Qc (nlevel nd) p 0) (Qc (nlevel nd) p 1)) as [HA HB].
  - intros T HT. apply (zden_below s _ PA _ T B DA LA HT).
  - intros T HT. apply (zden_below s _ PB _ T B DB LB HT).
  - apply Qc_sup.
  - apply Qc_sup.
  - intros S. rewrite <- (HP S). symmetry. apply (Q_step (nlevel nd) p HL).
  - split; [apply (zden_ext s _ PA _ DA HA) | apply (zden_ext s _ PB _ DB HB)].
Qed.

Theorem zreachable_is_sub : forall x, reachable s [r] x ->
  exists p, bchoice p /\ ZDen s x (Q (rlevel s x) p).
Proof.
  intros x Hx. induction Hx as [x Hr|id nd e Hp IH En He].
  - destruct Hr as [<-|[]]. exists (low 0 (fun _ => 0)). split; [apply bchoice_low, bchoice_zero|].
    apply (zden_deeper r 0 (fun _ => 0) ltac:(lia)). rewrite Nat.sub_0_r. exact D.
  - destruct IH as [p [Hp0 Dn]]. rewrite (rlevel_node s id nd En) in Dn.
    pose proof (wf_level s H id nd En) as HL.
    destruct (znode_children id nd p En Dn) as [hi [lo [Ec [Dh Dl]]]].
    rewrite Ec in He. destruct He as [<-|[<-|[]]].
    + exists (low (S (nlevel nd)) (cset (pre (nlevel nd) p) (nlevel nd) 0)).
      split; [apply bchoice_low, bchoice_cset; [apply bchoice_pre; exact Hp0 | lia]|].
      apply (zden_deeper (eref hi) (S (nlevel nd)) _ ltac:(lia) Dh).
    + exists (low (S (nlevel nd)) (cset (pre (nlevel nd) p) (nlevel nd) 1)).
      split; [apply bchoice_low, bchoice_cset; [apply bchoice_pre; exact Hp0 | lia]|].
      apply (zden_deeper (eref lo) (S (nlevel nd)) _ ltac:(lia) Dl).
Qed.

(** every non-empty sub-family is denoted by a reachable reference *)
Theorem zsub_is_reachable : forall L p, L <= nlevels s -> bchoice p -> (exists S0, Q L p S0) ->
  exists x, reachable s [r] x /\ ZDen s x (Q L p) /\ L <= rlevel s x.
Proof.
  induction L as [|L IH]; intros p HL Hp [S0 HS0].
  - exists r. split; [apply reach_root; left; reflexivity|]. split; [|lia].
    unfold Q. rewrite Nat.sub_0_r. exact D.
  - assert (HL' : L < nlevels s) by lia.
    pose proof (proj1 (Q_next L p HL' S0) HS0) as HS1.
    (* the sub-family one level up is non-empty too *)
    assert (Hne : exists S1, Q L p S1).
    { pose proof (Hp L) as H2. destruct (p L) as [|[|j]] eqn:Ep; [| |lia].
      - exists (L :: S0). apply (Q_step L p HL'). left. exists S0. auto.
      - exists S0. apply (Q_step L p HL'). right. exact HS1. }
    destruct (IH p ltac:(lia) Hp Hne) as [x [Rx [Dx Lx]]].
    destruct (le_lt_eq_dec _ _ Lx) as [Hlt|Heq].
    + (* [x] lies deeper: no member contains [L], so the then-part is empty and [p] goes "else" *)
      assert (Hno : forall T, ~ Qc L p 0 T).
      { intros T HT. assert (HQ : Q L p (L :: T)) by (apply (Q_step L p HL'); left; exists T; auto).
        destruct (zden_support s x _ _ B Dx HQ) as [Hi _]. simpl in Hi. lia. }
      pose proof (Hp L) as H2. destruct (p L) as [|[|j]] eqn:Ep; [exfalso; apply (Hno S0 HS1) | |lia].
      exists x. split; [exact Rx|]. split; [|lia].
      apply (zden_ext s x _ _ Dx). intros S. rewrite (Q_next L p HL' S), Ep, <- (Q_step L p HL' S).
      unfold node_pred. split; [|auto]. intros [[T [_ HT]]|HS]; [destruct (Hno T HT) | exact HS].
    + destruct x as [t|id]; [simpl in Heq; lia|].
      destruct (zden_ok _ _ _ Dx) as [nd En]. rewrite (rlevel_node s id nd En) in Heq. subst L.
      destruct (znode_children id nd p En Dx) as [hi [lo [Ec [Dh Dl]]]].
      pose proof (Hp (nlevel nd)) as H2. destruct (p (nlevel nd)) as [|[|j]] eqn:Ep; [| |lia].
      * exists (eref hi). split; [apply (reach_child s [r] id nd hi Rx En); rewrite Ec; left; reflexivity|].
        split.
        -- apply (zden_ext s _ _ _ Dh). intros S. rewrite (Q_next (nlevel nd) p HL' S), Ep. reflexivity.
        -- apply (zden_level s _ _ (S (nlevel nd)) B Dh); [lia | apply Qc_sup].
      * exists (eref lo).
        split; [apply (reach_child s [r] id nd lo Rx En); rewrite Ec; right; left; reflexivity|].
        split.
        -- apply (zden_ext s _ _ _ Dl). intros S. rewrite (Q_next (nlevel nd) p HL' S), Ep. reflexivity.
        -- apply (zden_level s _ _ (S (nlevel nd)) B Dl); [lia | apply Qc_sup].
Qed.

(** ... exactly at level [L] iff the then-part is non-empty *)
Theorem zsub_level_iff : forall L p x, L < nlevels s -> ZDen s x (Q L p) ->
  (rlevel s x = L <-> exists T, Qc L p 0 T).
Proof.
  intros L p x HL Dx.
  assert (Lx : L <= rlevel s x).
  { apply (zden_level s x _ L B Dx); [lia|]. intros S [Hi _]. exact Hi. }
  split.
  - intros Heq. destruct x as [t|id]; [simpl in Heq; lia|].
    destruct (zden_ok _ _ _ Dx) as [nd En]. rewrite (rlevel_node s id nd En) in Heq. subst L.
    destruct (znode_children id nd p En Dx) as [hi [lo [Ec [Dh _]]]].
    (* the then-child is not the Empty terminal, so its family has a member *)
    assert (Hnh : forall t, eref hi = RT t -> term_val s t <> Some 0%N).
    { destruct (reduced_zbdd s (zo_kind s B) _ (wf_reduced s H id nd En)) as [h [Hh1 Hh2]].
      rewrite Ec in Hh1. simpl in Hh1. inversion Hh1; subst h. exact Hh2. }
    destruct (fam_nonempty s B _ (eref hi) (zden_ok _ _ _ Dh) (le_n _) Hnh) as [F [T [EF [HT _]]]].
    exists T. destruct Dh as [_ [F' [EF' HF']]]. rewrite EF in EF'. inversion EF'; subst F'.
    apply HF'. exact HT.
  - intros [T HT]. assert (HQ : Q L p (L :: T)) by (apply (Q_step L p HL); left; exists T; auto).
    destruct (zden_support s x _ _ B Dx HQ) as [Hi _]. simpl in Hi. lia.
Qed.

End SubZ.

(** ** The count *)

Section CountZ.
Variable s : snap.
Hypothesis B : ZbddOK s.
Variable r : ref.
Variable f : cfun.
Hypothesis Hf : levels_only (nlevels s) f.
Hypothesis D : ZDen s r (PZ f 0 (nlevels s) (fun _ => 0)).

Let H : WF s := zo_wf s B.

(** the characteristic function of the family of [x], seen from level [L] *)
Definition zf (L : nat) (x : ref) : cfun :=
  fun c => match fam_of s x with
           | Some F => fmem (true_levels c L (nlevels s - L)) F
           | None => false
           end.

Lemma zf_den : forall L x (P : fpred) c, ZDen s x P ->
  (zf L x c = true <-> P (true_levels c L (nlevels s - L))).
Proof. intros L x P c [_ [F [EF HF]]]. unfold zf. rewrite EF, fmem_spec. apply HF. Qed.

Definition zkey (L : nat) (x : ref) : list bool * list bool :=
  (table (S L) (nlevels s - S L) (zf L x) (cset (fun _ => 0) L 0),
   table (S L) (nlevels s - S L) (zf L x) (cset (fun _ => 0) L 1)).

(** the family of [x], read at a merged choice, is [f] at the corresponding merged choice *)
Lemma zf_merge : forall L k p x i q, L + S k = nlevels s -> bchoice p -> ZDen s x (Q s f L p) ->
  i < 2 -> bchoice q ->
  zf L x (cmerge (S L) k (cset (fun _ => 0) L i) q) = f (cmerge (S L) k (cset (pre L p) L i) q).
Proof.
  intros L k p x i q Hn Hp Dx Hi Hq.
  set (c1 := cmerge (S L) k (cset (fun _ => 0) L i) q).
  assert (Hc1 : bchoice c1)
    by (apply bchoice_cmerge; [apply bchoice_cset; [apply bchoice_zero | exact Hi] | exact Hq]).
  set (T := true_levels c1 L (nlevels s - L)).
  apply (bool_iff_eq _ _ (Q s f L p T)); [apply (zf_den L x _ c1 Dx)|].
  assert (X : f (cmerge L (nlevels s - L) (pre L p) (cs T)) = f (cmerge (S L) k (cset (pre L p) L i) q)).
  { apply Hf. intros l Hl. rewrite !cmerge_spec. unfold cset.
    destruct (Nat.leb_spec L l), (Nat.ltb_spec l (L + (nlevels s - L))),
             (Nat.leb_spec (S L) l), (Nat.ltb_spec l (S L + k)), (Nat.eqb_spec l L);
      simpl; subst; try reflexivity; try lia.
    - unfold T. rewrite (cs_true_levels c1 _ L l Hc1) by lia. unfold c1. rewrite cmerge_spec.
      destruct (Nat.leb_spec (S L) l), (Nat.ltb_spec l (S L + k)); simpl; [reflexivity | lia | lia | lia].
    - unfold T. rewrite (cs_true_levels c1 _ L L Hc1) by lia. apply merge_at. }
  unfold Q, PZ. rewrite X. split.
  - intros Hv. split; [apply true_levels_incr|]. split; [apply true_levels_lt | exact Hv].
  - intros [_ [_ Hv]]. exact Hv.
Qed.

Lemma zkey_is_pair : forall L p x, L < nlevels s -> bchoice p -> ZDen s x (Q s f L p) ->
  zkey L x = pair_at 0 L (nlevels s - S L) f (fun _ => 0) p.
Proof.
  intros L p x HL Hp Dx. unfold zkey, pair_at. simpl Nat.add. fold (pre L p).
  set (k := nlevels s - S L). assert (Hn : L + S k = nlevels s) by (unfold k; lia).
  f_equal; apply table_ext; intros q Hq; apply (zf_merge L k p x _ q Hn Hp Dx); [lia | exact Hq | lia | exact Hq].
Qed.

Lemma hi_nonempty_iff : forall L p,
  hi_nonempty (pair_at 0 L (nlevels s - S L) f (fun _ => 0) p) = true <-> exists T, Qc s f L p 0 T.
Proof.
  intros L p. unfold hi_nonempty, pair_at. simpl Nat.add. simpl fst. fold (pre L p).
  apply any_true_PZ.
Qed.

Lemma lo_empty_iff : forall L p,
  any_true (snd (pair_at 0 L (nlevels s - S L) f (fun _ => 0) p)) = false <-> forall T, ~ Qc s f L p 1 T.
Proof.
  intros L p. unfold pair_at. simpl Nat.add. simpl snd. fold (pre L p). split.
  - intros E T HT. assert (X : any_true (table (S L) (nlevels s - S L) f (cset (pre L p) L 1)) = true)
      by (apply any_true_PZ; exists T; exact HT). congruence.
  - intros Hno. destruct (any_true _) eqn:E; [|reflexivity]. apply any_true_PZ in E.
    destruct E as [T HT]. destruct (Hno T HT).
Qed.

(** equal keys at one level: the same family *)
Lemma zkey_sub : forall L x y (Px Py : fpred), L < nlevels s -> ZDen s x Px -> ZDen s y Py ->
  rlevel s x = L -> zkey L x = zkey L y -> forall M, Px M -> Py M.
Proof.
  intros L x y Px Py HL Dx Dy Lx E M HS. unfold zkey in E.
  set (k := nlevels s - S L) in *. assert (Hn : L + S k = nlevels s) by (unfold k; lia).
  inversion E as [[E0 E1]].
  destruct (zden_support s x Px M B Dx HS) as [Hi Hfa]. rewrite Lx in Hi.
  assert (Hfa' : Forall (fun z => z < L + (nlevels s - L)) M)
    by (apply (forall_lt_weaken M (nlevels s)); [lia | exact Hfa]).
  assert (Hsel : forall i, cs M L = i -> i < 2 ->
            table (S L) k (zf L x) (cset (fun _ => 0) L i) = table (S L) k (zf L y) (cset (fun _ => 0) L i) ->
            Py M).
  { intros i Ei Hi2 Et.
    set (c1 := cmerge (S L) k (cset (fun _ => 0) L i) (cs M)).
    assert (HT : true_levels c1 L (nlevels s - L) = M).
    { rewrite (true_levels_ext c1 (cs M) (nlevels s - L) L); [apply (true_levels_cs _ L M Hi Hfa')|].
      intros l Hl. unfold c1. rewrite cmerge_spec. unfold cset.
      destruct (Nat.leb_spec (S L) l), (Nat.ltb_spec l (S L + k)), (Nat.eqb_spec l L);
        simpl; subst; try reflexivity; try lia. }
    assert (Zx : zf L x c1 = true) by (apply (zf_den L x Px c1 Dx); rewrite HT; exact HS).
    pose proof (table_inj _ _ _ _ _ _ Et (cs M) (bchoice_cs M)) as Eq. fold c1 in Eq.
    rewrite Eq in Zx. apply (zf_den L y Py c1 Dy) in Zx. rewrite HT in Zx. exact Zx. }
  pose proof (cs_lt2 M L) as H2. destruct (cs M L) as [|[|j]] eqn:Ec; [| |lia].
  - apply (Hsel 0 eq_refl ltac:(lia) E0).
  - apply (Hsel 1 eq_refl ltac:(lia) E1).
Qed.

Section NodesZ.
Variable ns : list positive.
Hypothesis Nns : NoDup ns.
Hypothesis Hns : forall id, In id ns <-> reachable s [r] (RN id) /\ find_node s id <> None.

Definition zat_level (L : nat) : list positive :=
  filter (fun id => Nat.eqb (rlevel s (RN id)) L) ns.

Lemma zat_level_In : forall L id, In id (zat_level L) <->
  reachable s [r] (RN id) /\ find_node s id <> None /\ rlevel s (RN id) = L.
Proof. intros L id. unfold zat_level. rewrite filter_In, Hns, Nat.eqb_eq. tauto. Qed.

Lemma zat_level_sub : forall L id, In id (zat_level L) ->
  exists p, bchoice p /\ ZDen s (RN id) (Q s f L p).
Proof.
  intros L id Hin. apply zat_level_In in Hin. destruct Hin as [Hr [_ Hl]].
  destruct (zreachable_is_sub s B r f Hf D (RN id) Hr) as [p [Hp Dp]]. rewrite Hl in Dp. eauto.
Qed.

Lemma zlevel_count : forall L, L < nlevels s -> length (zat_level L) = level_nodes_z (nlevels s) L f.
Proof.
  intros L HL. unfold level_nodes_z.
  rewrite <- (map_length (fun id => zkey L (RN id)) (zat_level L)).
  apply NoDup_same_length.
  - apply NoDup_map_inj; [apply NoDup_filter; exact Nns|].
    intros a b Ha Hb Ek.
    destruct (zat_level_sub L a Ha) as [p [Hp Da]]. destruct (zat_level_sub L b Hb) as [p' [Hp' Db]].
    apply zat_level_In in Ha. apply zat_level_In in Hb.
    destruct Ha as [_ [_ La]]. destruct Hb as [_ [_ Lb]].
    assert (Hr : RN a = RN b); [|inversion Hr; reflexivity].
    apply (zden_canon s _ _ _ _ B Da Db). intros S. split.
    + apply (zkey_sub L (RN a) (RN b) _ _ HL Da Db La Ek).
    + apply (zkey_sub L (RN b) (RN a) _ _ HL Db Da Lb (eq_sym Ek)).
  - apply dedup_NoDup. exact pair_eqb_eq.
  - intros pr. rewrite (dedup_In _ pair_eqb pair_eqb_eq), filter_In, subpairs_In. split.
    + intros Hin. apply in_map_iff in Hin. destruct Hin as [id [<- Hin]].
      destruct (zat_level_sub L id Hin) as [p [Hp Dp]].
      rewrite (zkey_is_pair L p (RN id) HL Hp Dp). split; [exists p; auto|].
      apply hi_nonempty_iff. apply (zsub_level_iff s B f L p (RN id) HL Dp).
      apply zat_level_In in Hin. apply Hin.
    + intros [[q [Hq ->]] Hhi]. apply hi_nonempty_iff in Hhi.
      assert (Hne : exists S0, Q s f L q S0).
      { destruct Hhi as [T HT]. exists (L :: T). apply (Q_step s f L q HL). left. exists T. auto. }
      destruct (zsub_is_reachable s B r f Hf D L q ltac:(lia) Hq Hne) as [x [Rx [Dx Lx]]].
      apply (zsub_level_iff s B f L q x HL Dx) in Hhi.
      destruct x as [t|id]; [simpl in Hhi; lia|].
      apply in_map_iff. exists id. split; [apply (zkey_is_pair L q (RN id) HL Hq Dx)|].
      apply zat_level_In. split; [exact Rx|]. split; [|exact Hhi].
      destruct (zden_ok _ _ _ Dx) as [nd En]. congruence.
Qed.

Lemma znodes_count : length ns = sum_upto (nlevels s) (fun L => level_nodes_z (nlevels s) L f).
Proof.
  rewrite (length_partition _ (fun id => rlevel s (RN id)) ns (nlevels s)).
  - apply sum_upto_ext. intros L HL. apply (zlevel_count L HL).
  - intros id Hin. apply Hns in Hin. destruct Hin as [_ Hfn].
    destruct (find_node s id) as [nd|] eqn:En; [|congruence].
    rewrite (rlevel_node s id nd En). apply (wf_level s H id nd En).
Qed.

End NodesZ.

(** *** terminals *)

(** a terminal's value: Base iff its family contains the empty set *)
Lemma zterm_valb : forall t (P : fpred), ZDen s (RT t) P -> (valb s t = true <-> P []).
Proof.
  intros t P Dt. unfold valb.
  destruct (zterm_cases s t B (zden_ok _ _ _ Dt)) as [E|E]; rewrite E.
  - pose proof (zden_unique s _ P pempty Dt (zden_empty s t B E)) as Hq.
    split; [discriminate | intros HP; destruct (proj1 (Hq []) HP)].
  - pose proof (zden_unique s _ P pbase Dt (zden_base s t B E)) as Hq.
    split; [intros _; apply (proj2 (Hq [])); reflexivity | reflexivity].
Qed.

Lemma zterm_empty : forall t (P : fpred), ZDen s (RT t) P -> valb s t = false -> forall S, ~ P S.
Proof.
  intros t P Dt Ev S HS. unfold valb in Ev.
  destruct (zterm_cases s t B (zden_ok _ _ _ Dt)) as [E|E]; rewrite E in Ev; [|discriminate].
  apply (proj1 (zden_unique s _ P pempty Dt (zden_empty s t B E) S) HS).
Qed.

(** a reference whose family is empty is the Empty terminal *)
Lemma zempty_ref : forall x (P : fpred), ZDen s x P -> (forall S, ~ P S) ->
  exists t, x = RT t /\ valb s t = false.
Proof.
  intros x P Dx Hno. destruct (zo_empty s B) as [t0 E0].
  exists t0. split.
  - apply (zden_canon s x (RT t0) P pempty B Dx (zden_empty s t0 B E0)).
    intros S. unfold pempty. split; [apply Hno | tauto].
  - unfold valb. rewrite E0. reflexivity.
Qed.

Lemma Q_top : forall p, Q s f (nlevels s) p [] <-> f (pre (nlevels s) p) = true.
Proof.
  intros p. unfold Q. rewrite Nat.sub_diag. rewrite PZ_zero. tauto.
Qed.

Lemma base_iff : (exists t, reachable s [r] (RT t) /\ valb s t = true) <->
  any_true (table 0 (nlevels s) f (fun _ => 0)) = true.
Proof.
  split.
  - intros [t [Rt Ev]].
    destruct (zreachable_is_sub s B r f Hf D _ Rt) as [p [Hp Dp]]. simpl rlevel in Dp.
    apply (zterm_valb t _ Dp) in Ev. apply Q_top in Ev.
    unfold any_true. apply existsb_exists. exists true. split; [|reflexivity].
    apply table_In. exists p. split; [exact Hp | symmetry; exact Ev].
  - intros Hany. apply any_true_PZ in Hany. destruct Hany as [T [_ [_ Ev]]].
    assert (Hne : exists S0, Q s f (nlevels s) (cs T) S0) by (exists []; apply Q_top; exact Ev).
    destruct (zsub_is_reachable s B r f Hf D (nlevels s) (cs T) (le_n _) (bchoice_cs T) Hne) as [x [Rx [Dx Lx]]].
    destruct x as [t|id].
    + exists t. split; [exact Rx|]. apply (zterm_valb t _ Dx). apply Q_top. exact Ev.
    + exfalso. destruct (zden_ok _ _ _ Dx) as [nd En]. rewrite (rlevel_node s id nd En) in Lx.
      pose proof (wf_level s H id nd En). lia.
Qed.

Lemma empty_iff : (exists t, reachable s [r] (RT t) /\ valb s t = false) <->
  negb (any_true (table 0 (nlevels s) f (fun _ => 0)))
  || exists_upto (nlevels s) (fun L => lo_empty_at (nlevels s) L f) = true.
Proof.
  rewrite orb_true_iff, negb_true_iff, exists_upto_spec. split.
  - intros [t [Rt Ev]]. inversion Rt as [x Hr|id nd e Hp En He Ee]; subst.
    + (* the root itself *)
      destruct Hr as [->|[]]. left.
      destruct (any_true _) eqn:E; [|reflexivity]. apply any_true_PZ in E. destruct E as [T HT].
      destruct (zterm_empty t _ D Ev T HT).
    + (* a child of a reachable node: the else-child *)
      right. destruct (zreachable_is_sub s B r f Hf D _ Hp) as [p [Hp0 Dn]].
      rewrite (rlevel_node s id nd En) in Dn. pose proof (wf_level s H id nd En) as HL.
      destruct (znode_children s B f id nd p En Dn) as [hi [lo [Ec [Dh Dl]]]].
      assert (Hhi : exists T, Qc s f (nlevel nd) p 0 T)
        by (apply (zsub_level_iff s B f (nlevel nd) p (RN id) HL Dn); apply (rlevel_node s id nd En)).
      rewrite Ec in He. destruct He as [<-|[<-|[]]].
      * exfalso. destruct Hhi as [T HT]. rewrite Ee in Dh. apply (zterm_empty t _ Dh Ev T HT).
      * exists (nlevel nd). split; [exact HL|]. unfold lo_empty_at. apply existsb_exists.
        exists (pair_at 0 (nlevel nd) (nlevels s - S (nlevel nd)) f (fun _ => 0) p).
        split; [apply subpairs_In; exists p; auto|].
        apply andb_true_iff. split; [apply hi_nonempty_iff; exact Hhi|].
        apply negb_true_iff. apply lo_empty_iff. rewrite Ee in Dl. apply (zterm_empty t _ Dl Ev).
  - intros [Hnone|[L [HL Hlo]]].
    + (* the whole family is empty: the root is the Empty terminal *)
      assert (Hno : forall S, ~ PZ f 0 (nlevels s) (fun _ => 0) S).
      { intros S HS. assert (X : any_true (table 0 (nlevels s) f (fun _ => 0)) = true)
          by (apply any_true_PZ; exists S; exact HS). congruence. }
      destruct (zempty_ref r _ D Hno) as [t [-> Ev]].
      exists t. split; [apply reach_root; left; reflexivity | exact Ev].
    + unfold lo_empty_at in Hlo. apply existsb_exists in Hlo. destruct Hlo as [pr [Hin Hc]].
      apply subpairs_In in Hin. destruct Hin as [q [Hq ->]].
      apply andb_true_iff in Hc. destruct Hc as [Hhi Hlo]. apply negb_true_iff in Hlo.
      apply hi_nonempty_iff in Hhi. pose proof (proj1 (lo_empty_iff L q) Hlo) as Hlo'. clear Hlo.
      assert (Hne : exists S0, Q s f L q S0).
      { destruct Hhi as [T HT]. exists (L :: T). apply (Q_step s f L q HL). left. exists T. auto. }
      destruct (zsub_is_reachable s B r f Hf D L q ltac:(lia) Hq Hne) as [x [Rx [Dx Lx]]].
      apply (zsub_level_iff s B f L q x HL Dx) in Hhi.
      destruct x as [t|id]; [simpl in Hhi; lia|].
      destruct (zden_ok _ _ _ Dx) as [nd En]. rewrite (rlevel_node s id nd En) in Hhi. subst L.
      destruct (znode_children s B f id nd q En Dx) as [hi [lo [Ec [_ Dl]]]].
      destruct (zempty_ref (eref lo) _ Dl Hlo') as [t [Et Ev]].
      exists t. split; [|exact Ev]. rewrite <- Et.
      apply (reach_child s [r] id nd lo Rx En). rewrite Ec. right. left. reflexivity.
Qed.

Lemma zterminals_count : forall ts, NoDup ts -> (forall t, In t ts <-> reachable s [r] (RT t)) ->
  length ts =
  (if any_true (table 0 (nlevels s) f (fun _ => 0)) then 1 else 0)
  + (if negb (any_true (table 0 (nlevels s) f (fun _ => 0)))
        || exists_upto (nlevels s) (fun L => lo_empty_at (nlevels s) L f) then 1 else 0).
Proof.
  intros ts Nts Hts.
  assert (Nv : NoDup (map (valb s) ts)).
  { apply NoDup_map_inj; [exact Nts|]. intros t u Ht Hu Ev.
    apply Hts in Ht. apply Hts in Hu.
    destruct (zreachable_is_sub s B r f Hf D _ Ht) as [p [_ Dt]].
    destruct (zreachable_is_sub s B r f Hf D _ Hu) as [p' [_ Du]].
    destruct (zden_ok _ _ _ Dt) as [v Et]. destruct (zden_ok _ _ _ Du) as [w Eu].
    apply (term_val_inj s t u v H Et). rewrite Eu. f_equal. unfold valb in Ev. rewrite Et, Eu in Ev.
    destruct (zo_codes s B t v Et) as [->| ->], (zo_codes s B u w Eu) as [->| ->];
      try reflexivity; discriminate. }
  rewrite <- (map_length (valb s) ts), (bool_list_count _ Nv).
  assert (E1 : existsb (fun b : bool => b) (map (valb s) ts) = any_true (table 0 (nlevels s) f (fun _ => 0))).
  { apply (bool_iff_eq _ _ (exists t, reachable s [r] (RT t) /\ valb s t = true)); [|symmetry; apply base_iff].
    rewrite existsb_exists. split.
    - intros [b [Hin Hb]]. apply in_map_iff in Hin. destruct Hin as [t [<- Ht]].
      exists t. split; [apply Hts; exact Ht | exact Hb].
    - intros [t [Rt Ev]]. exists true. split; [|reflexivity]. rewrite <- Ev. apply in_map. apply Hts. exact Rt. }
  assert (E2 : existsb negb (map (valb s) ts) =
               negb (any_true (table 0 (nlevels s) f (fun _ => 0)))
               || exists_upto (nlevels s) (fun L => lo_empty_at (nlevels s) L f)).
  { apply (bool_iff_eq _ _ (exists t, reachable s [r] (RT t) /\ valb s t = false)); [|symmetry; apply empty_iff].
    rewrite existsb_exists. split.
    - intros [b [Hin Hb]]. apply in_map_iff in Hin. destruct Hin as [t [<- Ht]].
      exists t. split; [apply Hts; exact Ht | apply negb_true_iff; exact Hb].
    - intros [t [Rt Ev]]. exists false. split; [|reflexivity]. rewrite <- Ev. apply in_map. apply Hts. exact Rt. }
  rewrite E1, E2. reflexivity.
Qed.

Theorem zbdd_count_is_canon_size : count_reach s (E r) = canon_size_zbdd (nlevels s) f.
Proof.
  destruct (count_reach_spec s (wf_arity_ok s H) (E r)) as [ns [ts [Nn [Nt [Hn [Ht Hc]]]]]].
  simpl eref in *. rewrite Hc. unfold canon_size_zbdd. cbv zeta. f_equal.
  rewrite (znodes_count ns Nn Hn), (zterminals_count ts Nt Ht). lia.
Qed.

End CountZ.

(** the Boolean function of a ZBDD handle depends on the levels of the table only *)
Lemma cfun_of_levels_only_zbdd : forall s e, ZbddOK s -> levels_only (nlevels s) (cfun_of s e).
Proof.
  intros s e B c c' E. unfold cfun_of. rewrite !(sem_edge_zbdd_code s e _ (zo_kind s B)).
  rewrite (semz_ext_lt s (zo_wf s B) _ 0 (eref e) c c'); [reflexivity|]. intros l Hl. apply E. lia.
Qed.

(** for every existing edge of a well-formed ZBDD table *)
Theorem zbdd_node_count_canon_size : forall s e, ZbddOK s -> ref_ok s (eref e) ->
  count_reach s e = canon_size_zbdd (nlevels s) (cfun_of s e).
Proof.
  intros s e B O.
  assert (Ec : count_reach s e = count_reach s (E (eref e))) by reflexivity.
  rewrite Ec. apply (zbdd_count_is_canon_size s B (eref e) _ (cfun_of_levels_only_zbdd s e B)
                       (cfun_of_den_zbdd s e B O)).
Qed.

(** and for the diagram [build_zbdd] constructs, for a function of the [n] levels *)
Theorem build_zbdd_canon_size : forall v2l l2v f, order_ok v2l l2v -> levels_only (length l2v) f ->
  exists s e, build_zbdd v2l l2v f = Some (s, e) /\ ZbddOK s /\
    count_reach s e = canon_size_zbdd (length l2v) f.
Proof.
  intros v2l l2v f Ho Lf. destruct (build_zbdd_ok v2l l2v f Ho) as [s [e [E0 [B [_ [El [_ [Et D]]]]]]]].
  exists s, e. split; [exact E0|]. split; [exact B|].
  assert (Hn : nlevels s = length l2v) by (unfold nlevels; rewrite El; reflexivity).
  rewrite <- Hn in *.
  replace e with (E (eref e)) by (destruct e as [x t]; simpl in *; subst; reflexivity).
  apply (zbdd_count_is_canon_size s B (eref e) f Lf D).
Qed.

Example ex_canon_size_zbdd :
  canon_size_zbdd (nlevels ex_zbdd) (cfun_of ex_zbdd (ex_edge (RN 2))) = 4%N /\
  count_reach ex_zbdd (ex_edge (RN 2)) = 4%N /\
  canon_size_zbdd 4 (lvl_fun [0; 1; 2; 3] (fun a => (a 0 && a 1) || (a 2 && a 3))) = 9%N /\
  canon_size_zbdd 4 (lvl_fun [0; 2; 1; 3] (fun a => (a 0 && a 1) || (a 2 && a 3))) = 10%N /\
  canon_size_zbdd 3 (fun _ => false) = 1%N /\
  canon_size_zbdd 3 (fun c => Nat.eqb (c 0) 1 && Nat.eqb (c 1) 1 && Nat.eqb (c 2) 1) = 1%N.
Proof. vm_compute. repeat split; reflexivity. Qed.
