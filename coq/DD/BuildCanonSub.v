(** * The textbook characterisation of the reduced ordered BDD (BDD kind)

    "The nodes of the reduced ordered BDD of [phi] labelled with the variable
    of level [L] correspond one-to-one to the distinct subfunctions of [phi],
    obtained by fixing the levels above [L], that depend on level [L]; the
    terminals to the distinct constant subfunctions."

    For a reference [r] of a well-formed BDD table that denotes [phi]:

    - [sub phi L p]: the subfunction of [phi] with the levels below [L] fixed
      to the choice [p];
    - [reachable_is_sub]: every reference reachable from [r] denotes a
      subfunction, with the levels above its own level fixed;
    - [sub_is_reachable]: every subfunction (any [L <= n], any [p]) is denoted
      by a reference reachable from [r], lying at level [L] or deeper;
    - [sub_level_iff]: that reference lies exactly at level [L] iff the
      subfunction depends on level [L];
    - one reference per function: [den_canon] (DD/ApplyProofs.v).

    Together with [count_reach_spec] (DD/ReachSpec.v: [count_reach] counts the
    reachable references) this says what the node count of a handle counts.
    Through [bdd_count_is_build] it applies to the diagram [build_bdd]
    constructs as well as to every handle of every well-formed table. *)

From Coq Require Import List NArith PArith Bool Arith Lia FMapPositive.
From OxiVerif Require Import DD.Table DD.TableProofs DD.Canon DD.Sem DD.Build DD.BuildProofs
  DD.Apply DD.ApplyProofs DD.Iso DD.BuildCanon DD.BuildCanonProofs.
Import ListNotations.

(** the choice that follows [p] on the levels below [L] and [c] from [L] on *)
Definition glue (L : nat) (p c : nat -> nat) : nat -> nat :=
  fun l => if l <? L then p l else c l.

(** the subfunction of [phi] with the levels below [L] fixed to [p] *)
Definition sub (phi : cfun) (L : nat) (p : nat -> nat) : cfun := fun c => phi (glue L p c).

(** [g] gives the same value whichever child is taken at level [L] *)
Definition ignores (g : cfun) (L : nat) : Prop :=
  forall c, bchoice c -> g (cupd c L 0) = g (cupd c L 1).

(** [g] depends on level [L] (stated negatively: no witness search, no classical axiom) *)
Definition depends_on (g : cfun) (L : nat) : Prop := ~ ignores g L.

Lemma bchoice_glue : forall L p c, bchoice p -> bchoice c -> bchoice (glue L p c).
Proof. intros L p c Hp Hc l. unfold glue. destruct (l <? L); auto. Qed.

Section Sub.
Variable s : snap.
Hypothesis B : BddOK s.
Variable r : ref.
Variable phi : cfun.
Hypothesis D : Den s r phi.

Let H : WF s := bo_wf s B.

(** [phi] respects pointwise equality of Boolean choices (because [semk] does) *)
Lemma phi_pointwise : forall c c', bchoice c -> bchoice c' -> (forall l, c l = c' l) -> phi c = phi c'.
Proof. intros c c' Hc Hc' E. apply (den_ext_lt s r phi H D c c' Hc Hc'). intros l _. apply E. Qed.

Lemma sub_pointwise : forall L p p' c c', bchoice p -> bchoice p' -> bchoice c -> bchoice c' ->
  (forall l, l < L -> p l = p' l) -> (forall l, L <= l -> c l = c' l) ->
  sub phi L p c = sub phi L p' c'.
Proof.
  intros L p p' c c' Hp Hp' Hc Hc' Ep Ec. unfold sub.
  apply phi_pointwise; try (apply bchoice_glue; assumption).
  intros l. unfold glue. destruct (Nat.ltb_spec l L); [apply Ep | apply Ec]; lia.
Qed.

Lemma sub_indep : forall L p, bchoice p -> indep (sub phi L p) L.
Proof. intros L p Hp c c' Hc Hc' E. apply sub_pointwise; auto. Qed.

(** a function that ignores the levels below [L] is its own subfunction *)
Lemma sub_of_indep : forall x psi L p, Den s x psi -> indep psi L -> bchoice p ->
  forall c, bchoice c -> psi c = psi (glue L p c).
Proof.
  intros x psi L p Dx I Hp c Hc. apply I; [exact Hc | apply bchoice_glue; assumption|].
  intros l Hl. unfold glue. destruct (Nat.ltb_spec l L); [lia | reflexivity].
Qed.

(** ** Reachable references denote subfunctions *)

Theorem reachable_is_sub : forall x, reachable s [r] x ->
  exists p, bchoice p /\ Den s x (sub phi (rlevel s x) p).
Proof.
  intros x Hx. induction Hx as [x Hr|id nd e Hp IH En He].
  - destruct Hr as [<-|[]]. exists (fun _ => 0). split; [intros l; lia|].
    apply (den_ext s r phi _ D). intros c Hc.
    apply (sub_of_indep r phi (rlevel s r) (fun _ => 0) D (den_indep s r phi H D) ltac:(intros l; lia) c Hc).
  - destruct IH as [p [Hp0 Dn]]. rewrite (rlevel_node s id nd En) in Dn.
    destruct (In_nth_error _ _ He) as [i Hi].
    pose proof (den_child s id nd i e _ B Dn En Hi) as Dc.
    pose proof (child_index s H id nd i e En Hi) as Hi2. rewrite (bo_kind s B) in Hi2. simpl in Hi2.
    destruct (child_nth s H id nd i e En Hi) as [_ Hlt].
    set (L := nlevel nd) in *. set (L' := rlevel s (eref e)) in *.
    exists (cupd p L i). split; [apply bchoice_upd; assumption|].
    apply (den_ext s (eref e) _ _ Dc). intros c Hc.
    pose proof (den_indep s (eref e) _ H Dc) as Ic. fold L' in Ic.
    (* move to the glued choice, on which the child's function is [phi] directly *)
    set (c' := glue L' (cupd p L i) c).
    assert (Hc' : bchoice c') by (apply bchoice_glue; [apply bchoice_upd; assumption | exact Hc]).
    rewrite (Ic c c' Hc Hc')
      by (intros l Hl; unfold c', glue; destruct (Nat.ltb_spec l L'); [lia | reflexivity]).
    unfold cofn, sub. apply phi_pointwise.
    + apply bchoice_glue; [exact Hp0 | apply bchoice_upd; assumption].
    + exact Hc'.
    + intros l. unfold glue at 1. destruct (Nat.ltb_spec l L) as [Hl|Hl].
      * unfold c', glue, cupd. destruct (Nat.ltb_spec l L'); [|lia].
        destruct (Nat.eqb_spec l L); [lia | reflexivity].
      * unfold cupd at 1. destruct (Nat.eqb_spec l L) as [->|Hne]; [|reflexivity].
        unfold c', glue, cupd. destruct (Nat.ltb_spec L L'); [|lia]. rewrite Nat.eqb_refl. reflexivity.
Qed.

(** ** Every subfunction is denoted by a reachable reference *)

Theorem sub_is_reachable : forall L p, L <= nlevels s -> bchoice p ->
  exists x, reachable s [r] x /\ Den s x (sub phi L p) /\ L <= rlevel s x.
Proof.
  induction L as [|L IH]; intros p HL Hp.
  - exists r. split; [apply reach_root; left; reflexivity|]. split; [|lia].
    apply (den_ext s r phi _ D). intros c Hc. unfold sub.
    apply phi_pointwise; [exact Hc | apply bchoice_glue; assumption | intros l; reflexivity].
  - destruct (IH p ltac:(lia) Hp) as [x [Rx [Dx Lx]]].
    assert (Hstep : forall c, bchoice c -> cofn (sub phi L p) L (p L) c = sub phi (S L) p c).
    { intros c Hc. unfold cofn, sub. apply phi_pointwise.
      - apply bchoice_glue; [exact Hp | apply bchoice_upd; auto].
      - apply bchoice_glue; assumption.
      - intros l. unfold glue, cupd.
        destruct (Nat.ltb_spec l L), (Nat.ltb_spec l (S L)), (Nat.eqb_spec l L); subst; try reflexivity; lia. }
    destruct (le_lt_eq_dec _ _ Lx) as [Hlt|Heq].
    + (* [x] lies deeper: it ignores level [L] *)
      exists x. split; [exact Rx|]. split; [|lia].
      apply (den_ext s x _ _ (den_skip s x _ L (p L) H Dx Hlt (Hp L))). exact Hstep.
    + (* [x] is a node of level [L]: take the child chosen by [p] *)
      destruct x as [t|id]; [simpl in Heq; lia|].
      destruct (proj1 Dx) as [nd En]. rewrite (rlevel_node s id nd En) in Heq.
      assert (Hi : p L < arity (s_kind s)) by (rewrite (bo_kind s B); apply Hp).
      destruct (child_exists s H id nd (p L) En Hi) as [e He].
      destruct (child_nth s H id nd _ e En He) as [_ Hle].
      exists (eref e). split; [apply (reach_child s [r] id nd e Rx En (nth_error_In _ _ He))|].
      split; [|lia].
      pose proof (den_child s id nd (p L) e _ B Dx En He) as Dc. rewrite <- Heq in Dc.
      apply (den_ext s (eref e) _ _ Dc). exact Hstep.
Qed.

(** ** ... at level [L] exactly when the subfunction depends on level [L] *)

Theorem sub_level_iff : forall L p x, L < nlevels s -> bchoice p ->
  Den s x (sub phi L p) ->
  (rlevel s x = L <-> depends_on (sub phi L p) L).
Proof.
  intros L p x HL Hp Dx.
  assert (Lx : L <= rlevel s x) by (apply (den_level s x _ L B Dx); [lia | apply sub_indep; exact Hp]).
  split.
  - (* a node: its two children differ, hence so do their functions *)
    intros Heq. destruct x as [t|id]; [simpl in Heq; lia|].
    destruct (proj1 Dx) as [nd En]. rewrite (rlevel_node s id nd En) in Heq.
    destruct (bdd_children s id nd B En) as [a [b Ech]].
    assert (Ha : nth_error (nchildren nd) 0 = Some a) by (rewrite Ech; reflexivity).
    assert (Hb : nth_error (nchildren nd) 1 = Some b) by (rewrite Ech; reflexivity).
    pose proof (den_child s id nd 0 a _ B Dx En Ha) as Da.
    pose proof (den_child s id nd 1 b _ B Dx En Hb) as Db.
    rewrite Heq in Da, Db.
    (* if the two cofactors agreed everywhere the children would be the same edge *)
    intros Hsame.
    apply (reduced_kary s (bdd_kary s B) _ (wf_reduced s H id nd En)).
    intros u v Hu Hv. rewrite Ech in Hu, Hv.
    assert (Eab : a = b).
    { apply (child_edge_eq s id id nd nd a b H (proj1 (bdd_kary s B)) En En
               (nth_error_In _ _ Ha) (nth_error_In _ _ Hb)).
      apply (den_canon s _ _ _ B Da). apply (den_ext s _ _ _ Db).
      intros c Hc. symmetry. apply Hsame. exact Hc. }
    destruct Hu as [<-|[<-|[]]], Hv as [<-|[<-|[]]]; congruence.
  - intros Hdep. destruct (le_lt_eq_dec _ _ Lx) as [Hlt|Heq]; [|symmetry; exact Heq].
    exfalso. apply Hdep. intros c Hc.
    apply (den_indep s x _ H Dx); try (apply bchoice_upd; auto).
    intros l Hl. unfold cupd. destruct (Nat.eqb_spec l L); [lia | reflexivity].
Qed.

End Sub.
