(** * The canonical diagram of a function (DD/BuildCanon.v): ZBDD kind

    A ZBDD handle denotes a Boolean function over all levels ([semz] from
    level 0), equivalently the family of the sets of "true" levels on which
    the function is true ([famz]; DD/FamSpecProofs.v [bool_view]).  The proofs
    here work with the family reading ([ZDen], DD/ZbddOpsProofs.v) and go back
    to the Boolean reading at the end.

    - [PZ f lvl cnt c0]: the family denoted by what [build_zbdd_from] returns;
    - [build_zbdd_from_ok], [build_zbdd_ok]: the construction succeeds in every
      ZBDD table, extends it, keeps it well-formed; the result denotes [PZ];
    - [same_denz], [zbdd_iso], [zbdd_diagram_unique], [zbdd_count_unique]: two
      references of two ZBDD tables denoting the same family have isomorphic
      sub-diagrams and the same node count;
    - [zbdd_node_count_canonical]: C03's last clause for the ZBDD kind. *)

From Coq Require Import List NArith PArith Bool Arith Lia FMapPositive.
From OxiVerif Require Import DD.Table DD.TableExtra DD.TableProofs DD.Canon DD.Sem DD.Build DD.BuildProofs
  DD.Apply DD.ApplyProofs DD.CanonZbdd DD.FamSpec DD.FamSpecProofs DD.ZbddOps DD.ZbddOpsProofs
  DD.ZbddBoolProofs DD.ZbddEvalProofs DD.Iso DD.BuildCanon DD.BuildCanonProofs.
Import ListNotations.

(** ** Sets of levels as choices *)

(** the choice that takes "then" exactly at the members of [S] *)
Definition cs (S : lset) : nat -> nat := fun l => if smem l S then 0 else 1.

Lemma cs_lt2 : forall S l, cs S l < 2.
Proof. intros S l. unfold cs. destruct (smem l S); lia. Qed.

Lemma cs_in : forall S l, In l S -> cs S l = 0.
Proof. intros S l Hin. unfold cs. rewrite (proj2 (smem_spec l S) Hin). reflexivity. Qed.

Lemma cs_notin : forall S l, ~ In l S -> cs S l = 1.
Proof. intros S l Hn. unfold cs. rewrite (proj2 (smem_false l S) Hn). reflexivity. Qed.

Lemma cs_cons_other : forall x S l, l <> x -> cs (x :: S) l = cs S l.
Proof.
  intros x S l Hne. unfold cs, smem. simpl.
  destruct (Nat.eqb_spec l x); [contradiction | reflexivity].
Qed.

(** the true levels of [cs S] are [S] again *)
Lemma true_levels_cs : forall cnt from S, incr_from from S -> Forall (fun x => x < from + cnt) S ->
  true_levels (cs S) from cnt = S.
Proof.
  induction cnt as [|k IH]; intros from S Hi Hf.
  - destruct S as [|x r]; [reflexivity|]. simpl in Hi. inversion Hf; subst. lia.
  - simpl true_levels. destruct S as [|x r].
    + rewrite (cs_notin [] from) by (intros []). simpl. apply IH; [exact I | constructor].
    + simpl in Hi. destruct Hi as [Hx Hr]. inversion Hf as [|? ? Hxl Hrl]; subst.
      destruct (Nat.eq_dec x from) as [->|Hne].
      * rewrite (cs_in (from :: r) from) by (left; reflexivity). simpl. f_equal.
        rewrite (true_levels_ext (cs (from :: r)) (cs r) k (S from))
          by (intros l Hl; apply cs_cons_other; lia).
        apply IH; [exact Hr|]. apply Forall_forall. intros y Hy.
        rewrite Forall_forall in Hrl. specialize (Hrl y Hy). lia.
      * assert (Hi' : incr_from (S from) (x :: r)) by (simpl; split; [lia | exact Hr]).
        rewrite (cs_notin (x :: r) from) by (apply (incr_from_notin _ (S from) from Hi'); lia).
        simpl. apply IH; [exact Hi'|]. constructor; [lia|].
        apply Forall_forall. intros y Hy. rewrite Forall_forall in Hrl. specialize (Hrl y Hy). lia.
Qed.

(** ** The family the construction denotes *)

Definition PZ (f : cfun) (lvl cnt : nat) (c0 : nat -> nat) : fpred :=
  fun S => incr_from lvl S /\ Forall (fun x => x < lvl + cnt) S /\ f (cmerge lvl cnt c0 (cs S)) = true.

Lemma PZ_zero : forall f lvl c0 S, PZ f lvl 0 c0 S <-> (S = [] /\ f c0 = true).
Proof.
  intros f lvl c0 S. unfold PZ. simpl cmerge. split.
  - intros [Hi [Hf Hv]]. split; [|exact Hv].
    destruct S as [|x r]; [reflexivity|]. simpl in Hi. inversion Hf; subst. lia.
  - intros [-> Hv]. split; [exact I|]. split; [constructor | exact Hv].
Qed.

Lemma PZ_step : forall f lvl k c0,
  peq (node_pred lvl (PZ f (S lvl) k (cset c0 lvl 0)) (PZ f (S lvl) k (cset c0 lvl 1)))
      (PZ f lvl (S k) c0).
Proof.
  intros f lvl k c0 S. unfold node_pred, PZ. simpl cmerge. split.
  - intros [[T [-> [Hi [Hf Hv]]]]|[Hi [Hf Hv]]].
    + split; [simpl; split; [lia | exact Hi]|]. split.
      * constructor; [lia|]. apply Forall_forall. intros y Hy. rewrite Forall_forall in Hf.
        specialize (Hf y Hy). lia.
      * rewrite (cs_in (lvl :: T) lvl) by (left; reflexivity).
        rewrite (cmerge_ext k (S lvl) _ (cs (lvl :: T)) (cs T)); [exact Hv|].
        intros l Hl. apply cs_cons_other. lia.
    + split; [apply (incr_from_weaken S (Datatypes.S lvl)); [lia | exact Hi]|]. split.
      * apply Forall_forall. intros y Hy. rewrite Forall_forall in Hf. specialize (Hf y Hy). lia.
      * rewrite (cs_notin S lvl) by (apply (incr_from_notin S (Datatypes.S lvl) lvl Hi); lia). exact Hv.
  - intros [Hi [Hf Hv]]. destruct S as [|x r].
    + right. split; [exact I|]. split; [constructor|].
      rewrite (cs_notin [] lvl) in Hv by (intros []). exact Hv.
    + simpl in Hi. destruct Hi as [Hx Hr]. inversion Hf as [|? ? Hxl Hrl]; subst.
      destruct (Nat.eq_dec x lvl) as [->|Hne].
      * left. exists r. split; [reflexivity|]. split; [exact Hr|]. split.
        -- apply Forall_forall. intros y Hy. rewrite Forall_forall in Hrl. specialize (Hrl y Hy). lia.
        -- rewrite (cs_in (lvl :: r) lvl) in Hv by (left; reflexivity).
           rewrite (cmerge_ext k (Datatypes.S lvl) _ (cs (lvl :: r)) (cs r)) in Hv; [exact Hv|].
           intros l Hl. apply cs_cons_other. lia.
      * right. assert (Hi' : incr_from (Datatypes.S lvl) (x :: r)) by (simpl; split; [lia | exact Hr]).
        split; [exact Hi'|]. split.
        -- constructor; [lia|]. apply Forall_forall. intros y Hy. rewrite Forall_forall in Hrl.
           specialize (Hrl y Hy). lia.
        -- rewrite (cs_notin (x :: r) lvl) in Hv
             by (apply (incr_from_notin _ (Datatypes.S lvl) lvl Hi'); lia).
           exact Hv.
Qed.

(** ** The construction inside a given ZBDD table *)

Lemma build_zbdd_from_S : forall s lvl k f c0,
  build_zbdd_from s lvl (S k) f c0 =
  match build_zbdd_from s (S lvl) k f (cset c0 lvl 0) with
  | None => None
  | Some (s1, hi) =>
    match build_zbdd_from s1 (S lvl) k f (cset c0 lvl 1) with
    | None => None
    | Some (s2, lo) => Some (zmk_node s2 lvl hi lo)
    end
  end.
Proof. reflexivity. Qed.

Theorem build_zbdd_from_ok : forall cnt s lvl f c0, ZbddOK s -> lvl + cnt = nlevels s ->
  exists s' r, build_zbdd_from s lvl cnt f c0 = Some (s', r) /\ ZbddOK s' /\ extends s s' /\
    ZDen s' r (PZ f lvl cnt c0).
Proof.
  induction cnt as [|k IH]; intros s lvl f c0 B Hn.
  - simpl. destruct (zterm_of_total s (f c0) B) as [t Et]. rewrite Et. exists s, (RT t).
    split; [reflexivity|]. split; [exact B|]. split; [apply extends_refl|].
    pose proof (term_of_spec s (f c0) t (zo_wf s B) Et) as Ev.
    destruct (f c0) eqn:Ef; simpl in Ev.
    + apply (zden_ext s (RT t) pbase); [apply (zden_base s t B Ev)|].
      intros S. rewrite PZ_zero, Ef. unfold pbase. tauto.
    + apply (zden_ext s (RT t) pempty); [apply (zden_empty s t B Ev)|].
      intros S. rewrite PZ_zero, Ef. unfold pempty. split; [tauto | intros [_ X]; discriminate].
  - rewrite build_zbdd_from_S.
    destruct (IH s (S lvl) f (cset c0 lvl 0) B ltac:(lia)) as [s1 [hi [E1 [B1 [X1 D0]]]]].
    rewrite E1.
    assert (Hn1 : S lvl + k = nlevels s1) by (rewrite (ext_nlevels _ _ X1); lia).
    destruct (IH s1 (S lvl) f (cset c0 lvl 1) B1 Hn1) as [s2 [lo [E2 [B2 [X2 D1]]]]].
    rewrite E2.
    destruct (zmk_node s2 lvl hi lo) as [s3 r] eqn:Em.
    pose proof (zden_extends s1 s2 hi _ B1 X2 D0) as D0'.
    assert (Hn2 : nlevels s2 = nlevels s) by (rewrite (ext_nlevels _ _ X2); apply (ext_nlevels _ _ X1)).
    assert (Lh : lvl < rlevel s2 hi).
    { apply (zden_level s2 hi _ (S lvl) B2 D0'); [lia|]. intros S [Hi _]. exact Hi. }
    assert (Ll : lvl < rlevel s2 lo).
    { apply (zden_level s2 lo _ (S lvl) B2 D1); [lia|]. intros S [Hi _]. exact Hi. }
    destruct (zmk_node_ok s2 lvl hi lo _ _ s3 r B2 ltac:(lia) D0' D1 Lh Ll Em) as [B3 [X3 [D3 _]]].
    exists s3, r. split; [reflexivity|]. split; [exact B3|].
    split; [exact (extends_trans _ _ _ X1 (extends_trans _ _ _ X2 X3))|].
    apply (zden_ext s3 r _ _ D3). apply PZ_step.
Qed.

Lemma base_zbdd_ok : forall v2l l2v, order_ok v2l l2v -> ZbddOK (base_snap KZbdd bool_terms v2l l2v).
Proof.
  intros v2l l2v Ho. apply zbdd_ok_b_spec. unfold zbdd_ok_b, wf_b. simpl.
  rewrite (proj2 (perm_inverse_b_spec v2l l2v) Ho). reflexivity.
Qed.

Theorem build_zbdd_ok : forall v2l l2v f, order_ok v2l l2v ->
  exists s e, build_zbdd v2l l2v f = Some (s, e) /\ ZbddOK s /\
    s_v2l s = v2l /\ s_l2v s = l2v /\ s_handles s = [] /\ etag e = false /\
    ZDen s (eref e) (PZ f 0 (length l2v) (fun _ => 0)).
Proof.
  intros v2l l2v f Ho. unfold build_zbdd.
  destruct (build_zbdd_from_ok (length l2v) (base_snap KZbdd bool_terms v2l l2v) 0 f (fun _ => 0)
              (base_zbdd_ok v2l l2v Ho) eq_refl) as [s [r [E0 [B [X D]]]]].
  rewrite E0. exists s, (E r). split; [reflexivity|]. split; [exact B|].
  split; [apply (ext_v2l _ _ X)|]. split; [apply (ext_l2v _ _ X)|].
  split; [apply (ext_handles _ _ X)|]. split; [reflexivity | exact D].
Qed.

(** the Boolean reading of the result: its view ([semz] from level 0, what
    [sem_edge] evaluates) is [f] *)
Theorem build_zbdd_view : forall v2l l2v f, order_ok v2l l2v ->
  exists s e, build_zbdd v2l l2v f = Some (s, e) /\ ZbddOK s /\
    forall c, bchoice c ->
      semz s (S (nlevels s)) 0 (eref e) c = Some (f (ctrunc (length l2v) c)).
Proof.
  intros v2l l2v f Ho.
  destruct (build_zbdd_ok v2l l2v f Ho) as [s [e [E0 [B [_ [El [_ [_ D]]]]]]]].
  exists s, e. split; [exact E0|]. split; [exact B|]. intros c Hc.
  assert (Hn : nlevels s = length l2v) by (unfold nlevels; rewrite El; reflexivity).
  assert (Hco : choice_ok s c) by (intros l; rewrite (zo_kind s B); apply Hc).
  destruct (zden_view s (eref e) _ c B D Hco) as [b [Ev Hb]]. unfold zview_of in Ev. rewrite Ev. f_equal.
  rewrite Hn in Hb. unfold PZ in Hb.
  assert (Hf : f (ctrunc (length l2v) c) = f (cmerge 0 (length l2v) (fun _ => 0) (cs (true_levels c 0 (length l2v))))).
  { unfold ctrunc. f_equal. apply cmerge_ext_range. intros l Hl.
    destruct (c l) as [|[|j]] eqn:Ecl.
    - symmetry. apply cs_in. apply true_levels_in; [lia | exact Ecl].
    - symmetry. apply cs_notin. intros Hin. apply true_levels_range in Hin. lia.
    - pose proof (Hc l). lia. }
  rewrite Hf. destruct (f _) eqn:Efv.
  - apply Hb. split; [apply true_levels_incr|]. split; [|reflexivity].
    apply Forall_forall. intros x Hx. apply true_levels_range in Hx. lia.
  - destruct b; [|reflexivity]. destruct (proj1 Hb eq_refl) as [_ [_ X]]. discriminate.
Qed.

(** ** Two ZBDD tables *)

Lemma node_pred_inj : forall L (PA PB QA QB : fpred),
  (forall T, PA T -> incr_from (S L) T) -> (forall T, PB T -> incr_from (S L) T) ->
  (forall T, QA T -> incr_from (S L) T) -> (forall T, QB T -> incr_from (S L) T) ->
  peq (node_pred L PA PB) (node_pred L QA QB) -> peq PA QA /\ peq PB QB.
Proof.
  intros L PA PB QA QB HA HB HQA HQB Hp.
  assert (Hhd : forall (X : fpred) T, (forall T, X T -> incr_from (S L) T) -> X (L :: T) -> False).
  { intros X T HX Hx. specialize (HX _ Hx). simpl in HX. lia. }
  split; intros T; split; intros HT.
  - destruct (proj1 (Hp (L :: T)) (or_introl (ex_intro _ T (conj eq_refl HT)))) as [[T' [E HT']]|Hb].
    + inversion E; subst. exact HT'.
    + destruct (Hhd QB T HQB Hb).
  - destruct (proj2 (Hp (L :: T)) (or_introl (ex_intro _ T (conj eq_refl HT)))) as [[T' [E HT']]|Hb].
    + inversion E; subst. exact HT'.
    + destruct (Hhd PB T HB Hb).
  - destruct (proj1 (Hp T) (or_intror HT)) as [[T' [E HT']]|Hb]; [|exact Hb].
    subst T. destruct (Hhd PB T' HB HT).
  - destruct (proj2 (Hp T) (or_intror HT)) as [[T' [E HT']]|Hb]; [|exact Hb].
    subst T. destruct (Hhd QB T' HQB HT).
Qed.

Section TwoTablesZ.
Variables s1 s2 : snap.
Hypothesis B1 : ZbddOK s1.
Hypothesis B2 : ZbddOK s2.
Hypothesis Hlev : nlevels s1 = nlevels s2.

(** the two references denote the same family of sets of levels *)
Definition same_denz (r1 r2 : ref) : Prop :=
  exists P, ZDen s1 r1 P /\ ZDen s2 r2 P.

Lemma same_denz_level : forall r1 r2, same_denz r1 r2 -> rlevel s1 r1 = rlevel s2 r2.
Proof.
  intros r1 r2 [P [D1 D2]].
  pose proof (rlevel_le s1 (zo_wf s1 B1) r1) as L1.
  pose proof (rlevel_le s2 (zo_wf s2 B2) r2) as L2.
  assert (A : rlevel s1 r1 <= rlevel s2 r2).
  { apply (zden_level s2 r2 P _ B2 D2); [lia|]. intros S HS. apply (zden_support s1 r1 P S B1 D1 HS). }
  assert (A' : rlevel s2 r2 <= rlevel s1 r1).
  { apply (zden_level s1 r1 P _ B1 D1); [lia|]. intros S HS. apply (zden_support s2 r2 P S B2 D2 HS). }
  lia.
Qed.

Lemma same_denz_children : forall a b n1 n2, same_denz (RN a) (RN b) ->
  find_node s1 a = Some n1 -> find_node s2 b = Some n2 ->
  nlevel n1 = nlevel n2 /\
  exists x0 x1 y0 y1, nchildren n1 = [x0; x1] /\ nchildren n2 = [y0; y1] /\
    same_denz (eref x0) (eref y0) /\ same_denz (eref x1) (eref y1).
Proof.
  intros a b n1 n2 HR E1 E2. pose proof (same_denz_level _ _ HR) as Hl.
  rewrite (rlevel_node s1 a n1 E1), (rlevel_node s2 b n2 E2) in Hl.
  split; [exact Hl|]. destruct HR as [P [D1 D2]].
  destruct (zden_node_inv s1 a n1 P B1 D1 E1) as [x0 [x1 [PA [PB [Ex [DA [DB [LA [LB HP]]]]]]]]].
  destruct (zden_node_inv s2 b n2 P B2 D2 E2) as [y0 [y1 [QA [QB [Ey [DQA [DQB [LQA [LQB HQ]]]]]]]]].
  exists x0, x1, y0, y1. split; [exact Ex|]. split; [exact Ey|].
  rewrite <- Hl in HQ, LQA, LQB.
  destruct (node_pred_inj (nlevel n1) PA PB QA QB) as [HA HB].
  - intros T HT. apply (zden_below s1 _ PA _ T B1 DA LA HT).
  - intros T HT. apply (zden_below s1 _ PB _ T B1 DB LB HT).
  - intros T HT. apply (zden_below s2 _ QA _ T B2 DQA LQA HT).
  - intros T HT. apply (zden_below s2 _ QB _ T B2 DQB LQB HT).
  - intros S. rewrite <- (HP S). apply HQ.
  - split.
    + exists PA. split; [exact DA|]. apply (zden_ext s2 _ QA PA DQA). intros S. symmetry. apply HA.
    + exists PB. split; [exact DB|]. apply (zden_ext s2 _ QB PB DQB). intros S. symmetry. apply HB.
Qed.

Lemma same_denz_bisim : bisim s1 s2 same_denz.
Proof.
  pose proof (zo_wf s1 B1) as H1. pose proof (zo_wf s2 B2) as H2.
  constructor.
  - intros r1 r2 HR. pose proof (same_denz_level r1 r2 HR) as Hl.
    destruct HR as [P [D1 D2]].
    destruct r1 as [t|a], r2 as [u|b]; auto.
    + destruct (zden_ok _ _ _ D2) as [nd E]. rewrite (rlevel_node s2 b nd E) in Hl. simpl in Hl.
      pose proof (wf_level s2 H2 b nd E). lia.
    + destruct (zden_ok _ _ _ D1) as [nd E]. rewrite (rlevel_node s1 a nd E) in Hl. simpl in Hl.
      pose proof (wf_level s1 H1 a nd E). lia.
  - intros a b HR. pose proof HR as [P [D1 D2]].
    destruct (zden_ok _ _ _ D1) as [n1 E1]. destruct (zden_ok _ _ _ D2) as [n2 E2]. rewrite E1, E2.
    destruct (same_denz_children a b n1 n2 HR E1 E2) as [_ [x0 [x1 [y0 [y1 [Ex [Ey [R0 R1]]]]]]]].
    rewrite Ex, Ey. simpl. constructor; [exact R0|]. constructor; [exact R1 | constructor].
  - intros a b a' b' [P [D1 D2]] [Q [D1' D2']]. split; intros ->.
    + assert (Hr : RN b = RN b'); [|inversion Hr; reflexivity].
      apply (zden_canon s2 _ _ P Q B2 D2 D2'). apply (zden_unique s1 (RN a') P Q D1 D1').
    + assert (Hr : RN a = RN a'); [|inversion Hr; reflexivity].
      apply (zden_canon s1 _ _ P Q B1 D1 D1'). apply (zden_unique s2 (RN b') P Q D2 D2').
  - intros t u t' u' [P [D1 D2]] [Q [D1' D2']]. split; intros ->.
    + assert (Hr : RT u = RT u'); [|inversion Hr; reflexivity].
      apply (zden_canon s2 _ _ P Q B2 D2 D2'). apply (zden_unique s1 (RT t') P Q D1 D1').
    + assert (Hr : RT t = RT t'); [|inversion Hr; reflexivity].
      apply (zden_canon s1 _ _ P Q B1 D1 D1'). apply (zden_unique s2 (RT u') P Q D2 D2').
Qed.

Theorem zbdd_iso : iso s1 s2 same_denz.
Proof.
  constructor.
  - exact same_denz_bisim.
  - exact same_denz_level.
  - intros t u [P [D1 D2]] _.
    destruct (zterm_cases s1 t B1 (zden_ok _ _ _ D1)) as [V1|V1];
      destruct (zterm_cases s2 u B2 (zden_ok _ _ _ D2)) as [V2|V2]; try congruence; exfalso.
    + pose proof (zden_unique s1 _ P pempty D1 (zden_empty s1 t B1 V1)) as Q1.
      pose proof (zden_unique s2 _ P pbase D2 (zden_base s2 u B2 V2)) as Q2.
      apply (proj1 (Q1 [])). apply (proj2 (Q2 [])). reflexivity.
    + pose proof (zden_unique s1 _ P pbase D1 (zden_base s1 t B1 V1)) as Q1.
      pose proof (zden_unique s2 _ P pempty D2 (zden_empty s2 u B2 V2)) as Q2.
      apply (proj1 (Q2 [])). apply (proj2 (Q1 [])). reflexivity.
  - intros a b n1 n2 HR E1 E2.
    destruct (same_denz_children a b n1 n2 HR E1 E2) as [_ [x0 [x1 [y0 [y1 [Ex [Ey _]]]]]]].
    assert (K1 : s_kind s1 <> KBcdd) by (rewrite (zo_kind s1 B1); discriminate).
    assert (K2 : s_kind s2 <> KBcdd) by (rewrite (zo_kind s2 B2); discriminate).
    pose proof (wf_tags s1 (zo_wf s1 B1) K1 a n1) as T1.
    pose proof (wf_tags s2 (zo_wf s2 B2) K2 b n2) as T2.
    rewrite Ex in *. rewrite Ey in *. simpl.
    rewrite (T1 x0 E1), (T1 x1 E1), (T2 y0 E2), (T2 y1 E2) by (simpl; auto). reflexivity.
Qed.

(** UNIQUENESS: two references of two ZBDD tables over the same number of
    levels that denote the same family have isomorphic sub-diagrams *)
Theorem zbdd_diagram_unique : forall r1 r2 P, ZDen s1 r1 P -> ZDen s2 r2 P ->
  exists R, iso s1 s2 R /\ R r1 r2.
Proof. intros r1 r2 P D1 D2. exists same_denz. split; [exact zbdd_iso | exists P; auto]. Qed.

Theorem zbdd_count_unique : forall r1 r2 P, ZDen s1 r1 P -> ZDen s2 r2 P ->
  count_reach s1 (E r1) = count_reach s2 (E r2).
Proof.
  intros r1 r2 P D1 D2.
  apply (count_reach_bisim s1 s2 same_denz same_denz_bisim
           (wf_arity_ok s1 (zo_wf s1 B1)) (wf_arity_ok s2 (zo_wf s2 B2)) (E r1) (E r2)).
  exists P. auto.
Qed.

End TwoTablesZ.

(** ** The node count of a reference is the size of the diagram built from its function *)

Theorem zbdd_count_is_build : forall s r f v2l l2v, ZbddOK s -> order_ok v2l l2v ->
  length l2v = nlevels s -> ZDen s r (PZ f 0 (length l2v) (fun _ => 0)) ->
  exists s' e', build_zbdd v2l l2v f = Some (s', e') /\ ZbddOK s' /\
    count_reach s (E r) = count_reach s' e' /\
    exists R, iso s s' R /\ R r (eref e').
Proof.
  intros s r f v2l l2v B Ho Hlen D.
  destruct (build_zbdd_ok v2l l2v f Ho) as [s' [e' [E0 [B' [_ [El [_ [Et D']]]]]]]].
  exists s', e'. split; [exact E0|]. split; [exact B'|].
  assert (Hl : nlevels s = nlevels s') by (unfold nlevels at 2; rewrite El; symmetry; exact Hlen).
  split.
  - replace e' with (E (eref e')) by (destruct e' as [x t]; simpl in *; subst; reflexivity).
    apply (zbdd_count_unique s s' B B' Hl r (eref e') _ D D').
  - apply (zbdd_diagram_unique s s' B B' Hl r (eref e') _ D D').
Qed.

Lemma sem_edge_zbdd_code : forall s e c, s_kind s = KZbdd ->
  sem_edge s e c = option_map (fun b : bool => if b then 1%N else 0%N) (semz s (S (nlevels s)) 0 (eref e) c).
Proof. intros s e c Hk. unfold sem_edge. rewrite Hk. reflexivity. Qed.

(** the family of a handle is the family of its Boolean function [cfun_of] *)
Lemma cfun_of_den_zbdd : forall s e, ZbddOK s -> ref_ok s (eref e) ->
  ZDen s (eref e) (PZ (cfun_of s e) 0 (nlevels s) (fun _ => 0)).
Proof.
  intros s e B O. pose proof (zo_wf s B) as H.
  destruct (zden_exists s (eref e) B O) as [P D].
  apply (zden_ext s (eref e) P _ D). intros S.
  assert (Hco : choice_ok s (cs S)) by (intros l; rewrite (zo_kind s B); apply cs_lt2).
  destruct (zden_view s (eref e) P (cs S) B D Hco) as [b [Ev Hb]]. unfold zview_of in Ev.
  assert (Hval : cfun_of s e (cmerge 0 (nlevels s) (fun _ => 0) (cs S)) = b).
  { unfold cfun_of. rewrite (sem_edge_zbdd_code s e _ (zo_kind s B)).
    fold (ctrunc (nlevels s) (cs S)).
    rewrite (semz_ext_lt s H _ 0 (eref e) (ctrunc (nlevels s) (cs S)) (cs S)).
    - rewrite Ev. destruct b; reflexivity.
    - intros l Hl. rewrite ctrunc_spec. destruct (Nat.ltb_spec l (nlevels s)); [reflexivity | lia]. }
  unfold PZ. rewrite Hval. split.
  - intros HP. destruct (zden_support s (eref e) P S B D HP) as [Hi Hf].
    split; [apply (incr_from_weaken S (rlevel s (eref e))); [lia | exact Hi]|].
    split; [exact Hf|]. apply Hb. rewrite (true_levels_cs (nlevels s) 0 S); [exact HP| |exact Hf].
    apply (incr_from_weaken S (rlevel s (eref e))); [lia | exact Hi].
  - intros [Hi [Hf Hv]]. rewrite <- (true_levels_cs (nlevels s) 0 S Hi Hf). apply Hb. exact Hv.
Qed.

(** C03, last clause, ZBDD kind *)
Theorem zbdd_node_count_canonical : forall s e, ZbddOK s -> ref_ok s (eref e) ->
  canonical_count s e = Some (count_reach s e).
Proof.
  intros s e B O. unfold canonical_count, build_kind. rewrite (zo_kind s B).
  destruct (zbdd_count_is_build s (eref e) (cfun_of s e) (s_v2l s) (s_l2v s) B
              (wf_order_ok s (zo_wf s B)) eq_refl (cfun_of_den_zbdd s e B O))
    as [s' [e' [E0 [_ [Hc _]]]]].
  rewrite E0. f_equal. symmetry. exact Hc.
Qed.
