(** * Proofs about node construction (DD/Build.v)

    - [extends s s']: [s'] has every node of [s] unchanged and the same
      terminals, variable order, kind and handles; the interpretation of every
      reference of [s] is the same in [s'] ([semk_extends]);
    - [get_or_insert_wf], [mk_node_wf]: inserting a node below which everything
      is well-formed keeps the table well-formed, extends it, and the returned
      edge satisfies the Shannon expansion equation. *)

From Coq Require Import List NArith PArith Bool Arith Lia FMapPositive.
From OxiVerif Require Import DD.Table DD.TableProofs DD.Canon DD.Build.
Import ListNotations.

(** ** Table extension *)

Record extends (s s' : snap) : Prop := mkExt {
  ext_kind : s_kind s' = s_kind s;
  ext_terms : s_terms s' = s_terms s;
  ext_v2l : s_v2l s' = s_v2l s;
  ext_l2v : s_l2v s' = s_l2v s;
  ext_handles : s_handles s' = s_handles s;
  ext_nodes : forall id nd, find_node s id = Some nd -> find_node s' id = Some nd
}.

Lemma extends_refl : forall s, extends s s.
Proof. intros s. constructor; auto. Qed.

Lemma extends_trans : forall s1 s2 s3, extends s1 s2 -> extends s2 s3 -> extends s1 s3.
Proof.
  intros s1 s2 s3 A B. constructor.
  - rewrite (ext_kind _ _ B). apply (ext_kind _ _ A).
  - rewrite (ext_terms _ _ B). apply (ext_terms _ _ A).
  - rewrite (ext_v2l _ _ B). apply (ext_v2l _ _ A).
  - rewrite (ext_l2v _ _ B). apply (ext_l2v _ _ A).
  - rewrite (ext_handles _ _ B). apply (ext_handles _ _ A).
  - intros id nd E. apply (ext_nodes _ _ B). apply (ext_nodes _ _ A). exact E.
Qed.

Lemma ext_nlevels : forall s s', extends s s' -> nlevels s' = nlevels s.
Proof. intros s s' X. unfold nlevels. rewrite (ext_l2v _ _ X). reflexivity. Qed.

Lemma ext_term_val : forall s s' t, extends s s' -> term_val s' t = term_val s t.
Proof. intros s s' t X. unfold term_val. rewrite (ext_terms _ _ X). reflexivity. Qed.

Lemma ext_ref_ok : forall s s' r, extends s s' -> ref_ok s r -> ref_ok s' r.
Proof.
  intros s s' [t|id] X; simpl.
  - rewrite (ext_term_val _ _ t X). auto.
  - intros [nd E]. exists nd. apply (ext_nodes _ _ X). exact E.
Qed.

Lemma ext_rlevel : forall s s' r, extends s s' -> ref_ok s r -> rlevel s' r = rlevel s r.
Proof.
  intros s s' [t|id] X; simpl.
  - intros _. apply ext_nlevels. exact X.
  - intros [nd E]. rewrite E, (ext_nodes _ _ X id nd E). reflexivity.
Qed.

Lemma ext_choice_ok : forall s s' c, extends s s' -> (choice_ok s' c <-> choice_ok s c).
Proof. intros s s' c X. unfold choice_ok. rewrite (ext_kind _ _ X). reflexivity. Qed.

(** every reference of [s] means in [s'] what it meant in [s], whatever the fuel *)
Lemma semk_extends : forall s s', WF s -> extends s s' ->
  forall f r c, ref_ok s r -> semk s' f r c = semk s f r c.
Proof.
  intros s s' H X. induction f as [|f IH]; intros r c Hok.
  - destruct r as [t|id]; [rewrite !semk_T; apply ext_term_val; exact X | reflexivity].
  - destruct r as [t|id]; [rewrite !semk_T; apply ext_term_val; exact X|].
    rewrite !semk_S. destruct Hok as [nd E]. rewrite E, (ext_nodes _ _ X id nd E).
    destruct (nth_error (nchildren nd) (c (nlevel nd))) as [e|] eqn:He; [|reflexivity].
    apply IH. apply (child_nth s H id nd _ e E He).
Qed.

(** ** [fresh_id], [find_dup] *)

Lemma fold_max_ge : forall (l : list (positive * node)) m,
  (m <= fold_left (fun m (p : positive * node) => Pos.max m (fst p)) l m)%positive /\
  forall p, In p l ->
    (fst p <= fold_left (fun m (p : positive * node) => Pos.max m (fst p)) l m)%positive.
Proof.
  induction l as [|x l IH]; intros m; simpl.
  - split; [lia | intros p []].
  - destruct (IH (Pos.max m (fst x))) as [A B]. split; [lia|].
    intros p [<-|Hp]; [lia | auto].
Qed.

Lemma fresh_id_free : forall s, find_node s (fresh_id s) = None.
Proof.
  intros s. destruct (find_node s (fresh_id s)) as [nd|] eqn:E; [|reflexivity].
  exfalso. apply find_node_elements in E.
  destruct (fold_max_ge (PositiveMap.elements (s_nodes s)) 1%positive) as [_ B].
  specialize (B _ E). simpl in B. unfold fresh_id, max_id in B. lia.
Qed.

Lemma find_dup_some : forall s lvl ch id, find_dup s lvl ch = Some id ->
  exists nd, find_node s id = Some nd /\ nlevel nd = lvl /\ nchildren nd = ch.
Proof.
  intros s lvl ch id. unfold find_dup.
  destruct (find (node_matches lvl ch) (PositiveMap.elements (s_nodes s))) as [[i nd]|] eqn:E;
    [|discriminate].
  intros Hi. inversion Hi; subst i. apply find_some in E. destruct E as [Hin Hm].
  exists nd. split; [apply find_node_elements; exact Hin|].
  unfold node_matches in Hm. simpl in Hm. apply andb_true_iff in Hm. destruct Hm as [A B].
  apply Nat.eqb_eq in A. apply edges_eqb_eq in B. auto.
Qed.

Lemma find_dup_none : forall s lvl ch, find_dup s lvl ch = None ->
  forall id nd, find_node s id = Some nd -> nlevel nd = lvl -> nchildren nd <> ch.
Proof.
  intros s lvl ch. unfold find_dup.
  destruct (find (node_matches lvl ch) (PositiveMap.elements (s_nodes s))) as [p|] eqn:E;
    [discriminate|].
  intros _ id nd Hf Hl Hc. apply find_node_elements in Hf.
  pose proof (find_none _ _ E (id, nd) Hf) as Hm.
  unfold node_matches in Hm. simpl in Hm.
  assert (Hc' : edges_eqb (nchildren nd) ch = true) by (apply edges_eqb_eq; exact Hc).
  rewrite Hl, Nat.eqb_refl, Hc' in Hm. discriminate.
Qed.

(** ** Inserting a node *)

(** what the callers of [get_or_insert] / [mk_node] guarantee about the children *)
Definition children_ok (s : snap) (lvl : nat) (ch : list edge) : Prop :=
  length ch = arity (s_kind s) /\
  forall e, In e ch -> ref_ok s (eref e) /\ lvl < rlevel s (eref e) /\ etag e = false.

Lemma reduced_kary_iff : forall s ch, kary (s_kind s) -> (reduced s ch <-> ~ all_same ch).
Proof.
  intros s ch [A B]. unfold reduced. destruct (s_kind s); try congruence; reflexivity.
Qed.

Section Insert.
Variable s : snap.
Variable lvl : nat.
Variable ch : list edge.
Hypothesis H : WF s.
Hypothesis Hkind : kary (s_kind s).
Hypothesis Hlvl : lvl < nlevels s.
Hypothesis Hch : children_ok s lvl ch.
Hypothesis Hne : all_equal ch = false.
Hypothesis Hnodup : find_dup s lvl ch = None.

Let id := fresh_id s.
Let nd0 := mkNode lvl ch lvl 0%N.
Let s' := set_nodes s (PositiveMap.add id nd0 (s_nodes s)).

Lemma ins_find : forall i nd, find_node s' i = Some nd ->
  (i = id /\ nd = nd0) \/ (i <> id /\ find_node s i = Some nd).
Proof.
  intros i nd. unfold find_node, s'. simpl.
  destruct (Pos.eq_dec i id) as [->|Hn].
  - rewrite PositiveMap.gss. intros E. inversion E. auto.
  - rewrite PositiveMap.gso by exact Hn. auto.
Qed.

Lemma ins_find_new : find_node s' id = Some nd0.
Proof. unfold find_node, s'. simpl. apply PositiveMap.gss. Qed.

Lemma ins_extends : extends s s'.
Proof.
  constructor; try reflexivity.
  intros i nd E. unfold find_node, s'. simpl.
  rewrite PositiveMap.gso; [exact E|].
  intros ->. fold (find_node s id) in E. unfold id in E. rewrite fresh_id_free in E. discriminate.
Qed.

Lemma ins_not_all_same : ~ all_same ch.
Proof. intros A. apply all_equal_spec in A. congruence. Qed.

Lemma ins_wf : WF s'.
Proof.
  pose proof ins_extends as X.
  destruct Hch as [Hlen Hce].
  assert (Hok : forall i nd, find_node s' i = Some nd -> node_ok s' nd).
  { intros i nd E. destruct (ins_find i nd E) as [[-> ->]|[Hn E']].
    - unfold node_ok, nd0. simpl.
      split; [exact Hlen|]. split; [reflexivity|]. split; [exact Hlvl|].
      split; [|split].
      + intros e He. destruct (Hce e He) as [A [B _]].
        split; [apply (ext_ref_ok _ _ _ X A) | rewrite (ext_rlevel _ _ _ X A); exact B].
      + apply (reduced_kary_iff s' ch Hkind). exact ins_not_all_same.
      + intros _ e He. apply (Hce e He).
    - unfold node_ok.
      split; [apply (wf_arity s H i nd E')|]. split; [apply (wf_stored s H i nd E')|].
      split; [apply (wf_level s H i nd E')|]. split; [|split].
      + intros e He. destruct (wf_child s H i nd e E' He) as [A B].
        split; [apply (ext_ref_ok _ _ _ X A) | rewrite (ext_rlevel _ _ _ X A); exact B].
      + apply (reduced_kary_iff s' _ Hkind). apply (reduced_kary_iff s _ Hkind).
        apply (wf_reduced s H i nd E').
      + intros Hk' e He. apply (wf_tags s H Hk' i nd e E' He). }
  constructor.
  - apply (wf_perm_len s H).
  - apply (wf_perm_v2l s H).
  - apply (wf_perm_l2v s H).
  - intros i nd E. apply (Hok i nd E).
  - intros i nd E. apply (Hok i nd E).
  - intros i nd E. apply (Hok i nd E).
  - intros i nd e E. apply (Hok i nd E).
  - intros i nd E. apply (Hok i nd E).
  - intros Hk i nd e E. apply (Hok i nd E). exact Hk.
  - intros i1 i2 n1 n2 E1 E2 Hl Hc.
    destruct (ins_find i1 n1 E1) as [[-> ->]|[Hn1 E1']];
      destruct (ins_find i2 n2 E2) as [[-> ->]|[Hn2 E2']].
    + reflexivity.
    + exfalso. simpl in Hl, Hc. apply (find_dup_none s lvl ch Hnodup i2 n2 E2'); congruence.
    + exfalso. simpl in Hl, Hc. apply (find_dup_none s lvl ch Hnodup i1 n1 E1'); congruence.
    + apply (wf_unique s H i1 i2 n1 n2 E1' E2' Hl Hc).
  - apply (wf_term_ids s H).
  - apply (wf_term_vals s H).
  - intros h Hh. destruct (wf_handles s H h Hh) as [A B].
    split; [apply (ext_ref_ok _ _ _ X A) | exact B].
Qed.

(** the Shannon expansion equation of the new node *)
Lemma ins_sem : forall c i ci, c lvl = i -> nth_error ch i = Some ci ->
  semk s' (S (nlevels s')) (RN id) c = semk s (S (nlevels s)) (eref ci) c.
Proof.
  intros c i ci Hi Hn. rewrite semk_S, ins_find_new. simpl nchildren. simpl nlevel.
  rewrite Hi, Hn. destruct Hch as [_ Hce].
  destruct (Hce ci (nth_error_In _ _ Hn)) as [A [B _]].
  rewrite (semk_extends s s' H ins_extends _ _ c A).
  change (nlevels s') with (nlevels s).
  pose proof (rlevel_le s H (eref ci)).
  apply semk_fuel; auto; lia.
Qed.

End Insert.

(** the returned edge and what it means *)
Definition shannon (s s' : snap) (lvl : nat) (ch : list edge) (e : edge) : Prop :=
  forall c i ci, c lvl = i -> nth_error ch i = Some ci ->
    semk s' (S (nlevels s')) (eref e) c = semk s (S (nlevels s)) (eref ci) c.

Theorem get_or_insert_wf : forall s lvl ch s' e,
  WF s -> kary (s_kind s) -> lvl < nlevels s -> children_ok s lvl ch ->
  all_equal ch = false ->
  get_or_insert s lvl ch = (s', e) ->
  WF s' /\ extends s s' /\ ref_ok s' (eref e) /\ etag e = false /\
  rlevel s' (eref e) = lvl /\ shannon s s' lvl ch e.
Proof.
  intros s lvl ch s' e H Hk Hl Hch Hne. unfold get_or_insert.
  destruct (find_dup s lvl ch) as [id|] eqn:Ed; intros Heq; inversion Heq; subst s' e; clear Heq.
  - destruct (find_dup_some s lvl ch id Ed) as [nd [E [El Ec]]].
    split; [exact H|]. split; [apply extends_refl|].
    split; [exists nd; exact E|]. split; [reflexivity|].
    split; [simpl; rewrite E; exact El|].
    intros c i ci Hi Hn. simpl eref. rewrite semk_S, E, El, Ec, Hi, Hn.
    destruct Hch as [_ Hce]. destruct (Hce ci (nth_error_In _ _ Hn)) as [A [B _]].
    pose proof (rlevel_le s H (eref ci)).
    apply semk_fuel; auto; lia.
  - split; [apply ins_wf; assumption|].
    split; [apply ins_extends|].
    split; [simpl; eexists; apply ins_find_new|].
    split; [reflexivity|].
    split; [simpl; rewrite ins_find_new; reflexivity|].
    intros c i ci Hi Hn. eapply ins_sem; eassumption.
Qed.

Lemma all_equal_nth : forall ch c0 i ci, all_equal ch = true ->
  hd_error ch = Some c0 -> nth_error ch i = Some ci -> ci = c0.
Proof.
  intros ch c0 i ci A Hh Hn. apply all_equal_spec in A. apply A.
  - eapply nth_error_In; eauto.
  - destruct ch; simpl in Hh; [discriminate|]. inversion Hh. left. reflexivity.
Qed.

(** [mk_node] = the code's [reduce]: well-formedness, extension, meaning of
    old references, Shannon expansion of the result, level of the result *)
Theorem mk_node_wf : forall s lvl ch s' e,
  WF s -> kary (s_kind s) -> lvl < nlevels s -> children_ok s lvl ch ->
  mk_node s lvl ch = (s', e) ->
  WF s' /\ extends s s' /\ ref_ok s' (eref e) /\ etag e = false /\
  (forall f r c, ref_ok s r -> semk s' f r c = semk s f r c) /\
  shannon s s' lvl ch e /\
  lvl <= rlevel s' (eref e).
Proof.
  intros s lvl ch s' e H Hk Hl Hch. unfold mk_node.
  destruct ch as [|c0 rest] eqn:Ech.
  - destruct Hch as [Hlen _]. simpl in Hlen. destruct (s_kind s); discriminate.
  - rewrite <- Ech in *. destruct (all_equal ch) eqn:Ea; intros Heq.
    + inversion Heq; subst s' e; clear Heq.
      assert (Hin : In c0 ch) by (rewrite Ech; left; reflexivity).
      destruct Hch as [_ Hce]. destruct (Hce c0 Hin) as [A [B T]].
      split; [exact H|]. split; [apply extends_refl|]. split; [exact A|]. split; [exact T|].
      split; [reflexivity|]. split; [|lia].
      intros c i ci Hi Hn.
      rewrite (all_equal_nth ch c0 i ci Ea); [reflexivity | rewrite Ech; reflexivity | exact Hn].
    + destruct (get_or_insert_wf s lvl ch s' e H Hk Hl Hch Ea Heq) as [A [B [C [D [F G]]]]].
      split; [exact A|]. split; [exact B|]. split; [exact C|]. split; [exact D|].
      split; [intros f r c Hr; apply (semk_extends s s' H B f r c Hr)|].
      split; [exact G | lia].
Qed.
