(** * The direct-mapped apply cache (oxidd-cache/src/direct.rs)

    Executable definitions only (proofs: DD/CacheProofs.v).

    A fixed number of buckets; a key is (operator, edge operands, numeric
    operands), a value is (edge values, numeric values).  The bucket of a key
    is its hash modulo the bucket count (the code masks with [len - 1], the
    bucket count being a power of two); the hash function is a parameter.
    [dm_add] overwrites whatever the bucket holds ([EntryGuard::set]);
    [dm_get] returns the stored value only if the operand counts, every
    operand, the operator and the value counts agree ([EntryGuard::get]);
    [dm_clear] empties every bucket ([clear], [pre_gc]).

    Keys/values that do not fit an entry ([ENTRY_CAP], more than 16 operands
    of one sort) are neither stored nor found, as in [get_extended] /
    [add_extended].  The code packs the two operand counts into one byte
    ([CountPair]); that packing is injective for counts below 16, which is
    what the comparison of the two counts below models (BDD operators have at
    most 3 operands).  [try_lock] never fails in a sequential run. *)

From Coq Require Import List NArith PArith Bool Arith FMapPositive.
From OxiVerif Require Import DD.Table.
Import ListNotations.

Record dm_key := mkKey { k_op : N; k_eops : list edge; k_nops : list N }.
Record dm_val := mkVal { v_edges : list edge; v_nums : list N }.
Record dm_entry := mkEntry { en_key : dm_key; en_val : dm_val }.

Record dm_cache := mkDm {
  dm_nb : positive;                    (* number of buckets *)
  dm_cap : nat;                        (* ENTRY_CAP *)
  dm_tab : PositiveMap.t dm_entry      (* occupied buckets, index + 1 |-> entry *)
}.

Definition dm_init (nb : positive) (cap : nat) : dm_cache :=
  mkDm nb cap (PositiveMap.empty dm_entry).

Fixpoint N_list_eqb (a b : list N) : bool :=
  match a, b with
  | [], [] => true
  | x :: r, y :: s => N.eqb x y && N_list_eqb r s
  | _, _ => false
  end.

(** the admission test shared by [get_extended] and [add_extended]
    ([KIND_COUNT] = 16) *)
Definition key_fits (cap : nat) (k : dm_key) (ne nn : nat) : bool :=
  let tot := length (k_eops k) + length (k_nops k) in
  negb (Nat.eqb tot 0)
  && Nat.leb (tot + (ne + nn)) cap
  && Nat.leb (length (k_eops k)) 16 && Nat.leb (length (k_nops k)) 16
  && Nat.leb ne 16 && Nat.leb nn 16.

Section Hash.
Variable hash : dm_key -> N.

(** [DMApplyCache::bucket] *)
Definition bucket_ix (nb : positive) (k : dm_key) : positive :=
  N.succ_pos (N.modulo (hash k) (Npos nb)).
Definition bucket (c : dm_cache) (k : dm_key) : positive := bucket_ix (dm_nb c) k.

(** [EntryGuard::get]: operand counts, operands, operator, value counts *)
Definition entry_matches (en : dm_entry) (k : dm_key) (ne nn : nat) : bool :=
  Nat.eqb (length (k_eops (en_key en))) (length (k_eops k))
  && Nat.eqb (length (k_nops (en_key en))) (length (k_nops k))
  && edges_eqb (k_eops k) (k_eops (en_key en))
  && N_list_eqb (k_nops k) (k_nops (en_key en))
  && N.eqb (k_op (en_key en)) (k_op k)
  && Nat.eqb (length (v_edges (en_val en))) ne
  && Nat.eqb (length (v_nums (en_val en))) nn.

(** [get_extended::<E, N>] with [E = ne], [N = nn] *)
Definition dm_get (c : dm_cache) (k : dm_key) (ne nn : nat) : option dm_val :=
  if key_fits (dm_cap c) k ne nn then
    match PositiveMap.find (bucket c k) (dm_tab c) with
    | Some en => if entry_matches en k ne nn then Some (en_val en) else None
    | None => None
    end
  else None.

(** [add_extended] *)
Definition dm_add (c : dm_cache) (k : dm_key) (v : dm_val) : dm_cache :=
  if key_fits (dm_cap c) k (length (v_edges v)) (length (v_nums v)) then
    mkDm (dm_nb c) (dm_cap c) (PositiveMap.add (bucket c k) (mkEntry k v) (dm_tab c))
  else c.

(** [clear] / [pre_gc] *)
Definition dm_clear (c : dm_cache) : dm_cache :=
  mkDm (dm_nb c) (dm_cap c) (PositiveMap.empty dm_entry).

(** a history of cache operations *)
Inductive dm_op := DAdd (k : dm_key) (v : dm_val) | DClear.

Definition dm_step (c : dm_cache) (o : dm_op) : dm_cache :=
  match o with DAdd k v => dm_add c k v | DClear => dm_clear c end.

Definition dm_run (c : dm_cache) (ops : list dm_op) : dm_cache := fold_left dm_step ops c.

(** ** The view the BDD apply algorithms have of it: untagged edge operands,
    no numeric operands, one edge value ([ApplyCache::get] / [add]) *)

Definition ukey (code : N) (args : list ref) : dm_key :=
  mkKey code (map (fun r => mkEdge r false) args) [].

Definition dmr_get (c : dm_cache) (code : N) (args : list ref) : option ref :=
  match dm_get c (ukey code args) 1 0 with
  | Some v => match v_edges v with e :: _ => Some (eref e) | [] => None end
  | None => None
  end.

Definition dmr_add (c : dm_cache) (code : N) (args : list ref) (r : ref) : dm_cache :=
  dm_add c (ukey code args) (mkVal [mkEdge r false] []).

End Hash.
