(** * Proofs about the direct-mapped apply cache (DD/Cache.v)

    - [dm_get_add], [dm_get_clear]: what a lookup can return after one step;
    - [dm_get_sound] (C06): after any history of insertions and clears, a hit
      for key [k] returns a value that was inserted under exactly the key [k]
      (same operator, same operands, same arities) after the last clear and
      whose bucket was not written since - nothing is ever served across
      operators or operand tuples;
    - [dmr_lossy]: the cache as seen by the BDD apply algorithms satisfies the
      only assumption ([lossy]) of the theorems of DD/ApplyProofs.v, for every
      bucket count, entry capacity and hash function; correct caches stay
      correct under insertion of a correct entry and under clearing. *)

From Coq Require Import List NArith PArith Bool Arith Lia FMapPositive.
From OxiVerif Require Import DD.Table DD.TableProofs DD.Sem DD.Build DD.BuildProofs DD.Apply DD.ApplyProofs DD.Cache.
Import ListNotations.

Lemma N_list_eqb_eq : forall a b, N_list_eqb a b = true <-> a = b.
Proof.
  induction a as [|x a IH]; intros [|y b]; simpl; split; intro H;
    try discriminate; try reflexivity.
  - apply andb_true_iff in H. destruct H as [H1 H2].
    apply N.eqb_eq in H1. apply IH in H2. congruence.
  - inversion H; subst. apply andb_true_iff. split; [apply N.eqb_refl | apply IH; reflexivity].
Qed.

Section Hash.
Variable hash : dm_key -> N.

Lemma entry_matches_eq : forall en k ne nn, entry_matches en k ne nn = true ->
  en_key en = k /\ length (v_edges (en_val en)) = ne /\ length (v_nums (en_val en)) = nn.
Proof.
  intros [[o eo no] v] [o' eo' no'] ne nn. unfold entry_matches. simpl.
  rewrite !andb_true_iff, !Nat.eqb_eq, N.eqb_eq, edges_eqb_eq, N_list_eqb_eq.
  intros [[[[[[_ _] A] B] C] D] F]. subst. auto.
Qed.

Lemma entry_matches_refl : forall k v,
  entry_matches (mkEntry k v) k (length (v_edges v)) (length (v_nums v)) = true.
Proof.
  intros [o eo no] v. unfold entry_matches. simpl.
  rewrite !Nat.eqb_refl, N.eqb_refl. simpl.
  assert (A : edges_eqb eo eo = true) by (apply edges_eqb_eq; reflexivity).
  assert (B : N_list_eqb no no = true) by (apply N_list_eqb_eq; reflexivity).
  rewrite A, B. reflexivity.
Qed.

(** one insertion, seen by a later lookup *)
Lemma dm_get_add : forall c k v k' ne nn v',
  dm_get hash (dm_add hash c k v) k' ne nn = Some v' ->
  (* not accepted: nothing changed *)
  (key_fits (dm_cap c) k (length (v_edges v)) (length (v_nums v)) = false /\
   dm_get hash c k' ne nn = Some v') \/
  (* accepted and the same bucket: it is exactly the inserted entry *)
  (key_fits (dm_cap c) k (length (v_edges v)) (length (v_nums v)) = true /\
   k' = k /\ v' = v /\ ne = length (v_edges v) /\ nn = length (v_nums v)) \/
  (* accepted, another bucket: served as before *)
  (key_fits (dm_cap c) k (length (v_edges v)) (length (v_nums v)) = true /\
   bucket_ix hash (dm_nb c) k <> bucket_ix hash (dm_nb c) k' /\
   dm_get hash c k' ne nn = Some v').
Proof.
  intros c k v k' ne nn v'. unfold dm_add.
  destruct (key_fits (dm_cap c) k (length (v_edges v)) (length (v_nums v))) eqn:Ef; [|auto].
  unfold dm_get, bucket. simpl.
  destruct (key_fits (dm_cap c) k' ne nn); [|discriminate].
  destruct (Pos.eq_dec (bucket_ix hash (dm_nb c) k') (bucket_ix hash (dm_nb c) k)) as [Eb|Nb].
  - rewrite Eb, PositiveMap.gss.
    destruct (entry_matches (mkEntry k v) k' ne nn) eqn:Em; [|discriminate].
    intros E. inversion E; subst v'. apply entry_matches_eq in Em. simpl in Em.
    destruct Em as [A [B D]]. right. left. auto.
  - rewrite PositiveMap.gso by exact Nb. intros E. right. right. auto.
Qed.

Lemma dm_get_clear : forall c k ne nn, dm_get hash (dm_clear c) k ne nn = None.
Proof.
  intros c k ne nn. unfold dm_get, dm_clear. simpl.
  rewrite PositiveMap.gempty. destruct (key_fits (dm_cap c) k ne nn); reflexivity.
Qed.

Lemma dm_get_init : forall nb cap k ne nn, dm_get hash (dm_init nb cap) k ne nn = None.
Proof.
  intros nb cap k ne nn. unfold dm_get, dm_init. simpl.
  rewrite PositiveMap.gempty. destruct (key_fits cap k ne nn); reflexivity.
Qed.

(** a fresh insertion is found (unless it does not fit an entry) *)
Lemma dm_get_add_same : forall c k v,
  key_fits (dm_cap c) k (length (v_edges v)) (length (v_nums v)) = true ->
  dm_get hash (dm_add hash c k v) k (length (v_edges v)) (length (v_nums v)) = Some v.
Proof.
  intros c k v Ef. unfold dm_add. rewrite Ef. unfold dm_get, bucket. simpl.
  rewrite Ef, PositiveMap.gss, entry_matches_refl. reflexivity.
Qed.

(** an insertion into the same bucket evicts whatever was there *)
Lemma dm_add_evicts : forall c k v k' ne nn,
  key_fits (dm_cap c) k (length (v_edges v)) (length (v_nums v)) = true ->
  bucket_ix hash (dm_nb c) k' = bucket_ix hash (dm_nb c) k -> k' <> k ->
  dm_get hash (dm_add hash c k v) k' ne nn = None.
Proof.
  intros c k v k' ne nn Ef Eb Hne.
  destruct (dm_get hash (dm_add hash c k v) k' ne nn) as [v'|] eqn:E; [|reflexivity].
  destruct (dm_get_add c k v k' ne nn v' E) as [[A _]|[[_ [A _]]|[_ [A _]]]]; congruence.
Qed.

Lemma step_nb : forall c o, dm_nb (dm_step hash c o) = dm_nb c.
Proof.
  intros c [k v|]; simpl; [|reflexivity]. unfold dm_add.
  destruct (key_fits _ _ _ _); reflexivity.
Qed.

Lemma step_cap : forall c o, dm_cap (dm_step hash c o) = dm_cap c.
Proof.
  intros c [k v|]; simpl; [|reflexivity]. unfold dm_add.
  destruct (key_fits _ _ _ _); reflexivity.
Qed.

Lemma run_nb : forall ops c, dm_nb (dm_run hash c ops) = dm_nb c.
Proof.
  unfold dm_run. induction ops as [|o ops IH]; intros c; simpl; [reflexivity|].
  rewrite IH. apply step_nb.
Qed.

Lemma run_cap : forall ops c, dm_cap (dm_run hash c ops) = dm_cap c.
Proof.
  unfold dm_run. induction ops as [|o ops IH]; intros c; simpl; [reflexivity|].
  rewrite IH. apply step_cap.
Qed.

Lemma run_snoc : forall c ops o, dm_run hash c (ops ++ [o]) = dm_step hash (dm_run hash c ops) o.
Proof. intros c ops o. unfold dm_run. rewrite fold_left_app. reflexivity. Qed.

(** an operation that leaves the bucket of [k] alone: no clear, and no
    accepted insertion into that bucket *)
Definition quiet (nb : positive) (cap : nat) (k : dm_key) (o : dm_op) : Prop :=
  match o with
  | DClear => False
  | DAdd k2 v2 =>
    key_fits cap k2 (length (v_edges v2)) (length (v_nums v2)) = true ->
    bucket_ix hash nb k2 <> bucket_ix hash nb k
  end.

(** C06: a hit is an earlier insertion under exactly this key, not cleared
    and not overwritten since *)
Theorem dm_get_sound : forall nb cap ops k ne nn v,
  dm_get hash (dm_run hash (dm_init nb cap) ops) k ne nn = Some v ->
  exists pre post, ops = pre ++ DAdd k v :: post /\
    length (v_edges v) = ne /\ length (v_nums v) = nn /\
    Forall (quiet nb cap k) post.
Proof.
  intros nb cap ops. induction ops as [|o ops IH] using rev_ind; intros k ne nn v E.
  - simpl in E. rewrite dm_get_init in E. discriminate.
  - rewrite run_snoc in E. destruct o as [k2 v2|]; simpl in E.
    + pose proof (run_nb ops (dm_init nb cap)) as Hnb. pose proof (run_cap ops (dm_init nb cap)) as Hcap.
      simpl in Hnb, Hcap.
      destruct (dm_get_add _ k2 v2 k ne nn v E) as [[A G]|[[A [-> [-> [-> ->]]]]|[A [Nb G]]]].
      * destruct (IH k ne nn v G) as [pre [post [-> [L1 [L2 Q]]]]].
        exists pre, (post ++ [DAdd k2 v2]). rewrite <- app_assoc. split; [reflexivity|].
        split; [exact L1|]. split; [exact L2|]. apply Forall_app. split; [exact Q|].
        constructor; [|constructor]. simpl. rewrite Hcap in A. congruence.
      * exists ops, []. split; [reflexivity|]. split; [reflexivity|]. split; [reflexivity | constructor].
      * destruct (IH k ne nn v G) as [pre [post [-> [L1 [L2 Q]]]]].
        exists pre, (post ++ [DAdd k2 v2]). rewrite <- app_assoc. split; [reflexivity|].
        split; [exact L1|]. split; [exact L2|]. apply Forall_app. split; [exact Q|].
        constructor; [|constructor]. simpl. intros _. rewrite Hnb in Nb. exact Nb.
    + rewrite dm_get_clear in E. discriminate.
Qed.

(** ** As the cache of the BDD apply algorithms *)

Lemma map_E_inj : forall a b : list ref,
  map (fun r => mkEdge r false) a = map (fun r => mkEdge r false) b -> a = b.
Proof.
  induction a as [|x a IH]; intros [|y b] E; simpl in E; try discriminate; [reflexivity|].
  inversion E. f_equal. apply IH. assumption.
Qed.

Theorem dmr_lossy : lossy (dmr_get hash) (dmr_add hash).
Proof.
  intros c k a r k' a' r'. unfold dmr_get, dmr_add.
  destruct (dm_get hash (dm_add hash c (ukey k a) (mkVal [mkEdge r false] [])) (ukey k' a') 1 0)
    as [v|] eqn:E; [|discriminate].
  intros Hv.
  destruct (dm_get_add _ _ _ _ _ _ _ E) as [[_ G]|[[_ [Ek [-> _]]]|[_ [_ G]]]].
  - right. rewrite G. exact Hv.
  - left. simpl in Hv. inversion Hv. unfold ukey in Ek. inversion Ek.
    split; [reflexivity|]. split; [apply map_E_inj; assumption | reflexivity].
  - right. rewrite G. exact Hv.
Qed.

(** clearing (garbage collection, reordering) leaves nothing to serve *)
Lemma dmr_get_clear : forall c k a, dmr_get hash (dm_clear c) k a = None.
Proof. intros c k a. unfold dmr_get. rewrite dm_get_clear. reflexivity. Qed.

Lemma dmr_get_init : forall nb cap k a, dmr_get hash (dm_init nb cap) k a = None.
Proof. intros nb cap k a. unfold dmr_get. rewrite dm_get_init. reflexivity. Qed.

Theorem dm_cacheok_clear : forall s c, CacheOK (dmr_get hash) s (dm_clear c).
Proof. intros s c code args r E. rewrite dmr_get_clear in E. discriminate. Qed.

Theorem dm_cacheok_init : forall s nb cap, CacheOK (dmr_get hash) s (dm_init nb cap).
Proof. intros s nb cap code args r E. rewrite dmr_get_init in E. discriminate. Qed.

Theorem dm_cacheok_add : forall s c code args r,
  CacheOK (dmr_get hash) s c -> entry_ok s code args r ->
  CacheOK (dmr_get hash) s (dmr_add hash c code args r).
Proof. intros s c code args r O En. apply (cacheok_add _ _ _ dmr_lossy); assumption. Qed.

End Hash.
