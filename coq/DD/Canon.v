(** * Canonicity of k-ary reduced ordered diagrams (BDD, MTBDD, TDD)

    On a well-formed snapshot two existing references with the same
    interpretation under every admissible choice function are the same
    reference.  Strong induction on [max (n - rlevel r1) (n - rlevel r2)]
    (DESIGN.md appendix B). *)

From Coq Require Import List NArith PArith Bool Arith Lia FMapPositive.
From OxiVerif Require Import DD.Table DD.TableProofs.
Import ListNotations.

(** the kinds interpreted by [semk] *)
Definition kary (k : kind) : Prop := k <> KBcdd /\ k <> KZbdd.

Lemma kary_cases : forall k, kary k <-> k = KBdd \/ k = KMtbdd \/ k = KTdd.
Proof.
  intros k. unfold kary. destruct k; split; intros Hk;
    try (destruct Hk as [A B]; congruence);
    try (destruct Hk as [A|[A|A]]; discriminate);
    try (split; discriminate); auto.
Qed.

Section Canon.
Variable s : snap.
Hypothesis H : WF s.
Hypothesis Hkind : kary (s_kind s).

Definition semn (r : ref) (c : nat -> nat) : option N := semk s (S (nlevels s)) r c.

Lemma reduced_kary : forall ch, reduced s ch -> ~ all_same ch.
Proof.
  intros ch. unfold reduced. destruct Hkind as [A B].
  destruct (s_kind s); try congruence; auto.
Qed.

Lemma not_bcdd : s_kind s <> KBcdd.
Proof. apply Hkind. Qed.

(** the interpretation looks only at levels from the reference's level on *)
Lemma semk_ext : forall f r c c',
  (forall l, rlevel s r <= l -> c l = c' l) -> semk s f r c = semk s f r c'.
Proof.
  induction f as [|f IH]; intros r c c' Hcc.
  - destruct r as [t|id]; [rewrite !semk_T; reflexivity | reflexivity].
  - destruct r as [t|id]; [rewrite !semk_T; reflexivity|].
    rewrite !semk_S. destruct (find_node s id) as [nd|] eqn:E; [|reflexivity].
    rewrite (rlevel_node s id nd E) in Hcc.
    rewrite <- (Hcc (nlevel nd) (le_n _)).
    destruct (nth_error (nchildren nd) (c (nlevel nd))) as [e|] eqn:He; [|reflexivity].
    destruct (child_nth s H id nd _ e E He) as [_ Hle].
    apply IH. intros l Hl. apply Hcc. lia.
Qed.

Lemma semn_node : forall id nd e c,
  find_node s id = Some nd -> nth_error (nchildren nd) (c (nlevel nd)) = Some e ->
  semn (RN id) c = semn (eref e) c.
Proof.
  intros id nd e c E He. unfold semn. rewrite semk_S, E, He.
  destruct (child_nth s H id nd _ e E He) as [Hoe Hle].
  pose proof (wf_level s H id nd E). pose proof (rlevel_le s H (eref e)).
  apply semk_fuel; auto; lia.
Qed.

(** child [i] of a node is the node's cofactor for "level := i" *)
Lemma child_sem : forall id nd i e c,
  find_node s id = Some nd -> nth_error (nchildren nd) i = Some e ->
  semn (eref e) c = semn (RN id) (upd c (nlevel nd) i).
Proof.
  intros id nd i e c E He.
  rewrite (semn_node id nd e (upd c (nlevel nd) i) E) by (rewrite upd_same; exact He).
  unfold semn. apply semk_ext. intros l Hl.
  destruct (child_nth s H id nd _ e E He) as [_ Hle].
  rewrite upd_other by lia. reflexivity.
Qed.

Lemma child_index : forall id nd i e,
  find_node s id = Some nd -> nth_error (nchildren nd) i = Some e -> i < arity (s_kind s).
Proof.
  intros id nd i e E He. rewrite <- (wf_arity s H id nd E).
  apply nth_error_Some. congruence.
Qed.

Definition canon_upto (k : nat) : Prop :=
  forall r1 r2, ref_ok s r1 -> ref_ok s r2 ->
    Nat.max (nlevels s - rlevel s r1) (nlevels s - rlevel s r2) <= k ->
    (forall c, choice_ok s c -> semn r1 c = semn r2 c) -> r1 = r2.

(** a node lying strictly above a reference with the same meaning would be
    redundant: all its children mean the same as that reference *)
Lemma node_above : forall k, (forall k', k' < k -> canon_upto k') ->
  forall id nd r2, find_node s id = Some nd -> ref_ok s r2 ->
    nlevel nd < rlevel s r2 -> nlevels s - nlevel nd <= k ->
    (forall c, choice_ok s c -> semn (RN id) c = semn r2 c) -> False.
Proof.
  intros k IH id nd r2 E O2 Hlt Hk Heq.
  pose proof (wf_level s H id nd E) as Hlv.
  assert (Hch : forall i e, nth_error (nchildren nd) i = Some e ->
            forall c, choice_ok s c -> semn (eref e) c = semn r2 c).
  { intros i e He c Hc. rewrite (child_sem id nd i e c E He).
    rewrite Heq by (apply choice_ok_upd; [exact Hc | exact (child_index id nd i e E He)]).
    unfold semn. apply semk_ext. intros l Hl. rewrite upd_other by lia. reflexivity. }
  apply (reduced_kary _ (wf_reduced s H id nd E)).
  intros a b Ha Hb.
  destruct (In_nth_error _ _ Ha) as [i Hi]. destruct (In_nth_error _ _ Hb) as [j Hj].
  destruct (child_nth s H id nd i a E Hi) as [Oa La].
  destruct (child_nth s H id nd j b E Hj) as [Ob Lb].
  apply (child_edge_eq s id id nd nd a b H not_bcdd E E Ha Hb).
  apply (IH (Nat.max (nlevels s - rlevel s (eref a)) (nlevels s - rlevel s (eref b)))); auto; [lia|].
  intros c Hc. rewrite (Hch i a Hi c Hc), (Hch j b Hj c Hc). reflexivity.
Qed.

Lemma canon_all : forall k, canon_upto k.
Proof.
  induction k as [k IH] using lt_wf_ind. intros r1 r2 O1 O2 Hk Heq.
  assert (Heq' : forall c, choice_ok s c -> semn r2 c = semn r1 c)
    by (intros c Hc; symmetry; apply Heq; exact Hc).
  destruct r1 as [t1|id1], r2 as [t2|id2].
  - (* two terminals: equal value codes *)
    specialize (Heq (fun _ => 0) (choice_ok_const s 0 ltac:(lia))).
    unfold semn in Heq. rewrite !semk_T in Heq.
    destruct O1 as [v1 E1]. destruct O2 as [v2 E2].
    rewrite E1 in Heq. f_equal. apply (term_val_inj s t1 t2 v1 H E1). congruence.
  - exfalso. destruct O2 as [nd E]. pose proof (wf_level s H id2 nd E) as Hlv.
    rewrite (rlevel_node s id2 nd E) in Hk.
    apply (node_above k IH id2 nd (RT t1) E O1); auto; simpl; lia.
  - exfalso. destruct O1 as [nd E]. pose proof (wf_level s H id1 nd E) as Hlv.
    rewrite (rlevel_node s id1 nd E) in Hk.
    apply (node_above k IH id1 nd (RT t2) E O2); auto; simpl; lia.
  - destruct O1 as [n1 E1]. destruct O2 as [n2 E2].
    pose proof (wf_level s H id1 n1 E1) as Hl1. pose proof (wf_level s H id2 n2 E2) as Hl2.
    rewrite (rlevel_node s id1 n1 E1), (rlevel_node s id2 n2 E2) in Hk.
    destruct (lt_eq_lt_dec (nlevel n1) (nlevel n2)) as [[Hlt|Hlev]|Hgt].
    + exfalso. apply (node_above k IH id1 n1 (RN id2) E1).
      * exists n2. exact E2.
      * rewrite (rlevel_node s id2 n2 E2). exact Hlt.
      * lia.
      * exact Heq.
    + f_equal. apply (wf_unique s H id1 id2 n1 n2 E1 E2 Hlev).
      apply list_eq_nth.
      { rewrite (wf_arity s H id1 n1 E1), (wf_arity s H id2 n2 E2). reflexivity. }
      intros i a b Ha Hb.
      destruct (child_nth s H id1 n1 i a E1 Ha) as [Oa La].
      destruct (child_nth s H id2 n2 i b E2 Hb) as [Ob Lb].
      apply (child_edge_eq s id1 id2 n1 n2 a b H not_bcdd E1 E2
               (nth_error_In _ _ Ha) (nth_error_In _ _ Hb)).
      apply (IH (Nat.max (nlevels s - rlevel s (eref a)) (nlevels s - rlevel s (eref b)))); auto; [lia|].
      intros c Hc.
      rewrite (child_sem id1 n1 i a c E1 Ha), (child_sem id2 n2 i b c E2 Hb), Hlev.
      apply Heq. apply choice_ok_upd; [exact Hc | exact (child_index id1 n1 i a E1 Ha)].
    + exfalso. apply (node_above k IH id2 n2 (RN id1) E2).
      * exists n1. exact E1.
      * rewrite (rlevel_node s id1 n1 E1). exact Hgt.
      * lia.
      * exact Heq'.
Qed.

(** Canonicity, k-ary kinds: equal references iff equal interpretations. *)
Theorem canon_kary : forall r1 r2, ref_ok s r1 -> ref_ok s r2 ->
  (r1 = r2 <->
   forall c, choice_ok s c -> semk s (S (nlevels s)) r1 c = semk s (S (nlevels s)) r2 c).
Proof.
  intros r1 r2 O1 O2. split.
  - intros ->. reflexivity.
  - intros Heq. apply (canon_all _ r1 r2 O1 O2 (le_n _)). exact Heq.
Qed.

End Canon.

(** C01 for the k-ary kinds, in terms of handles and [sem_edge] *)
Theorem canon_kary_handles : forall s, WF s -> kary (s_kind s) ->
  forall h1 h2, In h1 (s_handles s) -> In h2 (s_handles s) ->
  (snd h1 = snd h2 <->
   forall c, choice_ok s c -> sem_edge s (snd h1) c = sem_edge s (snd h2) c).
Proof.
  intros s H Hk h1 h2 H1 H2.
  destruct (wf_handles s H h1 H1) as [O1 T1]. destruct (wf_handles s H h2 H2) as [O2 T2].
  assert (Hse : forall e c, sem_edge s e c = semk s (S (nlevels s)) (eref e) c).
  { intros e c. unfold sem_edge. destruct Hk as [A B]. destruct (s_kind s); congruence. }
  split.
  - intros ->. reflexivity.
  - intros Heq. apply edge_ext.
    + apply (canon_kary s H Hk _ _ O1 O2). intros c Hc. rewrite <- !Hse. apply Heq. exact Hc.
    + rewrite (T1 (proj1 Hk)), (T2 (proj1 Hk)). reflexivity.
Qed.
