(** * C01 in one statement for all five kinds *)

From Coq Require Import List NArith.
From OxiVerif Require Import DD.Table DD.TableExtra DD.TableProofs
  DD.Canon DD.CanonBcdd DD.CanonZbdd.

(** On a well-formed snapshot (of any kind) two handles hold the same edge iff
    they have the same meaning under every admissible choice function
    (binary choices; ternary for TDDs). *)
Theorem canon_handles : forall s, WFfull s ->
  forall h1 h2, In h1 (s_handles s) -> In h2 (s_handles s) ->
  (snd h1 = snd h2 <->
   forall c, choice_ok s c -> sem_edge s (snd h1) c = sem_edge s (snd h2) c).
Proof.
  intros s [H Ht]. destruct (s_kind s) eqn:Hk.
  - apply canon_kary_handles; [exact H | rewrite Hk; split; discriminate].
  - apply canon_bcdd_handles; assumption.
  - apply canon_zbdd_handles; assumption.
  - apply canon_kary_handles; [exact H | rewrite Hk; split; discriminate].
  - apply canon_kary_handles; [exact H | rewrite Hk; split; discriminate].
Qed.

(** the same for arbitrary existing edges (tags allowed only for BCDDs) *)
Theorem canon_edges : forall s, WFfull s ->
  forall e1 e2, ref_ok s (eref e1) -> ref_ok s (eref e2) ->
  (s_kind s <> KBcdd -> etag e1 = false /\ etag e2 = false) ->
  (e1 = e2 <->
   forall c, choice_ok s c -> sem_edge s e1 c = sem_edge s e2 c).
Proof.
  intros s [H Ht] e1 e2 O1 O2 Htag. split; [intros ->; reflexivity|].
  intros Heq. unfold sem_edge in Heq. destruct (s_kind s) eqn:Hk.
  - destruct (Htag ltac:(discriminate)) as [T1 T2].
    apply edge_ext; [|congruence].
    apply (canon_kary s H ltac:(rewrite Hk; split; discriminate) _ _ O1 O2). exact Heq.
  - apply (canon_bcdd s H Hk Ht _ _ O1 O2). intros c Hc. apply omap_code_inj. apply Heq. exact Hc.
  - destruct (Htag ltac:(discriminate)) as [T1 T2].
    apply edge_ext; [|congruence].
    apply (canon_zbdd s H Hk Ht _ _ O1 O2). intros c Hc. apply omap_code_inj. apply Heq. exact Hc.
  - destruct (Htag ltac:(discriminate)) as [T1 T2].
    apply edge_ext; [|congruence].
    apply (canon_kary s H ltac:(rewrite Hk; split; discriminate) _ _ O1 O2). exact Heq.
  - destruct (Htag ltac:(discriminate)) as [T1 T2].
    apply edge_ext; [|congruence].
    apply (canon_kary s H ltac:(rewrite Hk; split; discriminate) _ _ O1 O2). exact Heq.
Qed.
