(** * Canonicity of complement-edge BDDs

    On a well-formed BCDD snapshot with (at most) one terminal, two edges
    (reference + complement tag) with the same [semc] interpretation under every
    binary choice are the same edge.  The tags agree because the all-"then"
    path never crosses a tagged edge (then-edges are untagged); the references
    agree by the same induction as in DD/Canon.v. *)

From Coq Require Import List NArith PArith Bool Arith Lia FMapPositive.
From OxiVerif Require Import DD.Table DD.TableExtra DD.TableProofs.
Import ListNotations.

Lemma omap_xorb_inj : forall t (x y : option bool),
  option_map (xorb t) x = option_map (xorb t) y -> x = y.
Proof.
  intros t [a|] [b|] E; simpl in E; try discriminate; [|reflexivity].
  inversion E as [E']. destruct t, a, b; simpl in E'; congruence.
Qed.

Section CanonBcdd.
Variable s : snap.
Hypothesis H : WF s.
Hypothesis Hkind : s_kind s = KBcdd.
Hypothesis Hterm : terms_kind s.

Definition semcn (e : edge) (c : nat -> nat) : option bool := semc s (S (nlevels s)) e c.

Lemma reduced_bcdd : forall ch, reduced s ch ->
  ~ all_same ch /\ exists t, hd_error ch = Some t /\ etag t = false.
Proof. intros ch. unfold reduced. rewrite Hkind. auto. Qed.

Lemma arity_bcdd : arity (s_kind s) = 2.
Proof. rewrite Hkind. reflexivity. Qed.

Lemma semc_ext : forall f e c c',
  (forall l, rlevel s (eref e) <= l -> c l = c' l) -> semc s f e c = semc s f e c'.
Proof.
  induction f as [|f IH]; intros e c c' Hcc.
  - destruct (eref e) as [t|id] eqn:Er.
    + rewrite !(semc_T _ _ _ _ t Er). reflexivity.
    + rewrite !(semc_O _ _ _ id Er). reflexivity.
  - destruct (eref e) as [t|id] eqn:Er.
    + rewrite !(semc_T _ _ _ _ t Er). reflexivity.
    + rewrite !(semc_S _ _ _ _ id Er).
      destruct (find_node s id) as [nd|] eqn:E; [|reflexivity].
      rewrite (rlevel_node s id nd E) in Hcc.
      rewrite <- (Hcc (nlevel nd) (le_n _)).
      destruct (nth_error (nchildren nd) (c (nlevel nd))) as [e'|] eqn:He; [|reflexivity].
      destruct (child_nth s H id nd _ e' E He) as [_ Hle].
      rewrite (IH e' c c'); [reflexivity|]. intros l Hl. apply Hcc. lia.
Qed.

(** child [i] of the node under edge [e] is the cofactor, up to [e]'s tag *)
Lemma child_semc : forall e id nd i x c,
  eref e = RN id -> find_node s id = Some nd -> nth_error (nchildren nd) i = Some x ->
  semcn e (upd c (nlevel nd) i) = option_map (xorb (etag e)) (semcn x c).
Proof.
  intros e id nd i x c Er E He. unfold semcn.
  rewrite (semc_S _ _ _ _ id Er), E, upd_same, He.
  destruct (child_nth s H id nd i x E He) as [Ox Lx].
  pose proof (wf_level s H id nd E). pose proof (rlevel_le s H (eref x)).
  rewrite (semc_fuel s H (nlevels s) (S (nlevels s)) x) by (auto; lia).
  rewrite (semc_ext (S (nlevels s)) x (upd c (nlevel nd) i) c)
    by (intros l Hl; rewrite upd_other by lia; reflexivity).
  destruct (semc s (S (nlevels s)) x c); reflexivity.
Qed.

Lemma child_index_b : forall id nd i x,
  find_node s id = Some nd -> nth_error (nchildren nd) i = Some x -> i < 2.
Proof.
  intros id nd i x E He. rewrite <- arity_bcdd, <- (wf_arity s H id nd E).
  apply nth_error_Some. congruence.
Qed.

(** following then-edges only, the value is decided by the tag of the root edge *)
Lemma semc_all_then : forall f e, ref_ok s (eref e) ->
  nlevels s - rlevel s (eref e) < f ->
  semc s f e (fun _ => 0) = Some (negb (etag e)).
Proof.
  induction f as [|f IH]; intros e Hok Hf; [lia|].
  destruct (eref e) as [t|id] eqn:Er; [apply (semc_T _ _ _ _ t Er)|].
  destruct Hok as [nd E]. rewrite (semc_S _ _ _ _ id Er), E.
  rewrite (rlevel_node s id nd E) in Hf.
  destruct (child_exists s H id nd 0 E ltac:(rewrite arity_bcdd; lia)) as [x Hx]. rewrite Hx.
  destruct (child_nth s H id nd 0 x E Hx) as [Ox Lx].
  pose proof (rlevel_le s H (eref x)).
  rewrite (IH x Ox ltac:(lia)).
  destruct (reduced_bcdd _ (wf_reduced s H id nd E)) as [_ [t [Ht1 Ht2]]].
  assert (t = x) by (destruct (nchildren nd); simpl in *; congruence). subst t.
  rewrite Ht2. simpl. rewrite xorb_true_r. reflexivity.
Qed.

Lemma choice_ok_b : forall c, choice_ok s c <-> forall l, c l < 2.
Proof. intros c. unfold choice_ok. rewrite arity_bcdd. reflexivity. Qed.

Lemma tags_agree : forall e1 e2, ref_ok s (eref e1) -> ref_ok s (eref e2) ->
  (forall c, choice_ok s c -> semcn e1 c = semcn e2 c) -> etag e1 = etag e2.
Proof.
  intros e1 e2 O1 O2 Heq.
  specialize (Heq (fun _ => 0) (choice_ok_const s 0 ltac:(lia))). unfold semcn in Heq.
  pose proof (rlevel_le s H (eref e1)). pose proof (rlevel_le s H (eref e2)).
  rewrite (semc_all_then _ e1 O1), (semc_all_then _ e2 O2) in Heq by lia.
  inversion Heq as [E]. destruct (etag e1), (etag e2); simpl in E; congruence.
Qed.

Definition canon_upto (k : nat) : Prop :=
  forall e1 e2, ref_ok s (eref e1) -> ref_ok s (eref e2) ->
    Nat.max (nlevels s - rlevel s (eref e1)) (nlevels s - rlevel s (eref e2)) <= k ->
    (forall c, choice_ok s c -> semcn e1 c = semcn e2 c) -> e1 = e2.

Lemma node_above : forall k, (forall k', k' < k -> canon_upto k') ->
  forall e1 id nd e2, eref e1 = RN id -> find_node s id = Some nd -> ref_ok s (eref e2) ->
    nlevel nd < rlevel s (eref e2) -> nlevels s - nlevel nd <= k ->
    (forall c, choice_ok s c -> semcn e1 c = semcn e2 c) -> False.
Proof.
  intros k IH e1 id nd e2 Er E O2 Hlt Hk Heq.
  pose proof (wf_level s H id nd E) as Hlv.
  assert (Hch : forall i x, nth_error (nchildren nd) i = Some x ->
            forall c, choice_ok s c -> option_map (xorb (etag e1)) (semcn x c) = semcn e2 c).
  { intros i x Hx c Hc. rewrite <- (child_semc e1 id nd i x c Er E Hx).
    rewrite Heq by (apply choice_ok_upd; [exact Hc | rewrite arity_bcdd; exact (child_index_b id nd i x E Hx)]).
    unfold semcn. apply semc_ext. intros l Hl. rewrite upd_other by lia. reflexivity. }
  apply (proj1 (reduced_bcdd _ (wf_reduced s H id nd E))).
  intros a b Ha Hb.
  destruct (In_nth_error _ _ Ha) as [i Hi]. destruct (In_nth_error _ _ Hb) as [j Hj].
  destruct (child_nth s H id nd i a E Hi) as [Oa La].
  destruct (child_nth s H id nd j b E Hj) as [Ob Lb].
  apply (IH (Nat.max (nlevels s - rlevel s (eref a)) (nlevels s - rlevel s (eref b)))); auto; [lia|].
  intros c Hc. apply (omap_xorb_inj (etag e1)).
  rewrite (Hch i a Hi c Hc), (Hch j b Hj c Hc). reflexivity.
Qed.

Lemma canon_all : forall k, canon_upto k.
Proof.
  induction k as [k IH] using lt_wf_ind. intros e1 e2 O1 O2 Hk Heq.
  assert (Heq' : forall c, choice_ok s c -> semcn e2 c = semcn e1 c)
    by (intros c Hc; symmetry; apply Heq; exact Hc).
  pose proof (tags_agree e1 e2 O1 O2 Heq) as Htag.
  apply edge_ext; [|exact Htag].
  destruct (eref e1) as [t1|id1] eqn:Er1, (eref e2) as [t2|id2] eqn:Er2.
  - destruct O1 as [v1 E1]. destruct O2 as [v2 E2]. f_equal.
    apply (bcdd_one_term s t1 t2 v1 v2 Hkind Hterm E1 E2).
  - exfalso. destruct O2 as [nd E]. pose proof (wf_level s H id2 nd E) as Hlv.
    rewrite (rlevel_node s id2 nd E) in Hk.
    apply (node_above k IH e2 id2 nd e1 Er2 E); rewrite ?Er1; auto; simpl; lia.
  - exfalso. destruct O1 as [nd E]. pose proof (wf_level s H id1 nd E) as Hlv.
    rewrite (rlevel_node s id1 nd E) in Hk.
    apply (node_above k IH e1 id1 nd e2 Er1 E); rewrite ?Er2; auto; simpl; lia.
  - destruct O1 as [n1 E1]. destruct O2 as [n2 E2].
    pose proof (wf_level s H id1 n1 E1) as Hl1. pose proof (wf_level s H id2 n2 E2) as Hl2.
    rewrite (rlevel_node s id1 n1 E1), (rlevel_node s id2 n2 E2) in Hk.
    destruct (lt_eq_lt_dec (nlevel n1) (nlevel n2)) as [[Hlt|Hlev]|Hgt].
    + exfalso. apply (node_above k IH e1 id1 n1 e2 Er1 E1).
      * rewrite Er2. exists n2. exact E2.
      * rewrite Er2, (rlevel_node s id2 n2 E2). exact Hlt.
      * lia.
      * exact Heq.
    + f_equal. apply (wf_unique s H id1 id2 n1 n2 E1 E2 Hlev).
      apply list_eq_nth.
      { rewrite (wf_arity s H id1 n1 E1), (wf_arity s H id2 n2 E2). reflexivity. }
      intros i a b Ha Hb.
      destruct (child_nth s H id1 n1 i a E1 Ha) as [Oa La].
      destruct (child_nth s H id2 n2 i b E2 Hb) as [Ob Lb].
      apply (IH (Nat.max (nlevels s - rlevel s (eref a)) (nlevels s - rlevel s (eref b)))); auto; [lia|].
      intros c Hc. apply (omap_xorb_inj (etag e1)).
      rewrite <- (child_semc e1 id1 n1 i a c Er1 E1 Ha).
      rewrite Htag, <- (child_semc e2 id2 n2 i b c Er2 E2 Hb), Hlev.
      apply Heq. apply choice_ok_upd; [exact Hc | rewrite arity_bcdd; exact (child_index_b id1 n1 i a E1 Ha)].
    + exfalso. apply (node_above k IH e2 id2 n2 e1 Er2 E2).
      * rewrite Er1. exists n1. exact E1.
      * rewrite Er1, (rlevel_node s id1 n1 E1). exact Hgt.
      * lia.
      * exact Heq'.
Qed.

(** Canonicity, BCDD: equal edges (reference and tag) iff equal interpretations. *)
Theorem canon_bcdd : forall e1 e2, ref_ok s (eref e1) -> ref_ok s (eref e2) ->
  (e1 = e2 <->
   forall c, choice_ok s c -> semc s (S (nlevels s)) e1 c = semc s (S (nlevels s)) e2 c).
Proof.
  intros e1 e2 O1 O2. split.
  - intros ->. reflexivity.
  - intros Heq. apply (canon_all _ e1 e2 O1 O2 (le_n _)). exact Heq.
Qed.

End CanonBcdd.

Lemma omap_code_inj : forall x y : option bool,
  option_map (fun b : bool => if b then 1%N else 0%N) x =
  option_map (fun b : bool => if b then 1%N else 0%N) y -> x = y.
Proof. intros [[|]|] [[|]|] E; simpl in E; congruence. Qed.

(** C01 for BCDDs, in terms of handles and [sem_edge] *)
Theorem canon_bcdd_handles : forall s, WF s -> s_kind s = KBcdd -> terms_kind s ->
  forall h1 h2, In h1 (s_handles s) -> In h2 (s_handles s) ->
  (snd h1 = snd h2 <->
   forall c, choice_ok s c -> sem_edge s (snd h1) c = sem_edge s (snd h2) c).
Proof.
  intros s H Hk Ht h1 h2 H1 H2.
  destruct (wf_handles s H h1 H1) as [O1 _]. destruct (wf_handles s H h2 H2) as [O2 _].
  split.
  - intros ->. reflexivity.
  - intros Heq. apply (canon_bcdd s H Hk Ht _ _ O1 O2). intros c Hc.
    specialize (Heq c Hc). unfold sem_edge in Heq. rewrite Hk in Heq.
    apply omap_code_inj. exact Heq.
Qed.
