(** * Canonicity of zero-suppressed BDDs

    [semz s fuel lvl r c] is the Boolean view over all levels of the set family
    denoted by [r], evaluated from level [lvl] on: levels skipped on the way
    down must be "lo" (child index 1).  On a well-formed ZBDD snapshot whose
    terminal value codes are 0 (Empty) / 1 (Base), two existing references with
    the same view from a common level [lvl] are the same reference.

    Different from the BDD case there is no "redundant node" argument: a node
    never denotes the empty family (its hi child is not Empty), so a node has
    a satisfying choice that takes its hi branch, and any reference lying
    strictly below is false under that choice. *)

From Coq Require Import List NArith PArith Bool Arith Lia FMapPositive.
From OxiVerif Require Import DD.Table DD.TableExtra DD.TableProofs.
Import ListNotations.

(** ** [all_lo] *)

Lemma all_lo_spec : forall c cnt from,
  all_lo c from cnt = true <-> forall l, from <= l < from + cnt -> c l = 1.
Proof.
  induction cnt as [|k IH]; intros from; simpl.
  - split; [intros _ l Hl; lia | reflexivity].
  - rewrite andb_true_iff, Nat.eqb_eq, IH. split.
    + intros [H1 H2] l Hl. destruct (Nat.eq_dec l from) as [->|Hne]; [exact H1 | apply H2; lia].
    + intros Hall. split; [apply Hall; lia | intros l Hl; apply Hall; lia].
Qed.

Lemma all_lo_ext : forall c c' cnt from,
  (forall l, from <= l -> c l = c' l) -> all_lo c from cnt = all_lo c' from cnt.
Proof.
  induction cnt as [|k IH]; intros from Hcc; simpl; [reflexivity|].
  rewrite (Hcc from (le_n _)). f_equal. apply IH. intros l Hl. apply Hcc. lia.
Qed.

Lemma all_lo_false : forall c cnt from l,
  from <= l < from + cnt -> c l <> 1 -> all_lo c from cnt = false.
Proof.
  intros c cnt from l Hl Hc. destruct (all_lo c from cnt) eqn:E; [|reflexivity].
  exfalso. apply Hc. apply (proj1 (all_lo_spec c cnt from) E). exact Hl.
Qed.

(** [lows c L]: the choice [c] with all levels above (numerically below) [L] set to lo *)
Definition lows (c : nat -> nat) (L : nat) : nat -> nat :=
  fun l => if Nat.ltb l L then 1 else c l.

Lemma lows_lt : forall c L l, l < L -> lows c L l = 1.
Proof. intros c L l Hl. unfold lows. destruct (Nat.ltb_spec l L); [reflexivity | lia]. Qed.

Lemma lows_ge : forall c L l, L <= l -> lows c L l = c l.
Proof. intros c L l Hl. unfold lows. destruct (Nat.ltb_spec l L); [lia | reflexivity]. Qed.

Section CanonZbdd.
Variable s : snap.
Hypothesis H : WF s.
Hypothesis Hkind : s_kind s = KZbdd.
Hypothesis Hterm : terms_kind s.

Definition semzn (lvl : nat) (r : ref) (c : nat -> nat) : option bool :=
  semz s (S (nlevels s)) lvl r c.

Lemma arity_zbdd : arity (s_kind s) = 2.
Proof. rewrite Hkind. reflexivity. Qed.

Lemma not_bcdd_z : s_kind s <> KBcdd.
Proof. rewrite Hkind. discriminate. Qed.

Lemma reduced_zbdd : forall ch, reduced s ch ->
  exists hi, hd_error ch = Some hi /\ forall t, eref hi = RT t -> term_val s t <> Some 0%N.
Proof. intros ch. unfold reduced. rewrite Hkind. auto. Qed.

Lemma choice_ok_lows : forall c L, choice_ok s c -> choice_ok s (lows c L).
Proof.
  intros c L Hc l. unfold lows. destruct (Nat.ltb l L); [rewrite arity_zbdd; lia | apply Hc].
Qed.

Lemma child_index_z : forall id nd i x,
  find_node s id = Some nd -> nth_error (nchildren nd) i = Some x -> i < 2.
Proof.
  intros id nd i x E He. rewrite <- arity_zbdd, <- (wf_arity s H id nd E).
  apply nth_error_Some. congruence.
Qed.

(** the view from [lvl] looks only at levels from [lvl] on *)
Lemma semz_ext : forall f lvl r c c',
  (forall l, lvl <= l -> c l = c' l) -> semz s f lvl r c = semz s f lvl r c'.
Proof.
  induction f as [|f IH]; intros lvl r c c' Hcc.
  - destruct r as [t|id]; [|reflexivity].
    rewrite !semz_T. rewrite (all_lo_ext c c' _ lvl Hcc). reflexivity.
  - destruct r as [t|id].
    + rewrite !semz_T. rewrite (all_lo_ext c c' _ lvl Hcc). reflexivity.
    + rewrite !semz_S. destruct (find_node s id) as [nd|] eqn:E; [|reflexivity].
      destruct (Nat.ltb_spec (nlevel nd) lvl) as [Hlt|Hge]; [reflexivity|].
      rewrite (all_lo_ext c c' _ lvl Hcc). rewrite <- (Hcc (nlevel nd) Hge).
      destruct (all_lo c' lvl (nlevel nd - lvl)); [|reflexivity].
      destruct (nth_error (nchildren nd) (c (nlevel nd))) as [e|]; [|reflexivity].
      apply IH. intros l Hl. apply Hcc. lia.
Qed.

(** one step down a node whose skipped levels are all lo *)
Lemma node_semz : forall id nd x lvl c,
  find_node s id = Some nd -> nth_error (nchildren nd) (c (nlevel nd)) = Some x ->
  lvl <= nlevel nd -> all_lo c lvl (nlevel nd - lvl) = true ->
  semzn lvl (RN id) c = semzn (S (nlevel nd)) (eref x) c.
Proof.
  intros id nd x lvl c E Hx Hl Hlo. unfold semzn. rewrite semz_S, E.
  destruct (Nat.ltb_spec (nlevel nd) lvl) as [Hlt|_]; [lia|].
  rewrite Hlo, Hx.
  destruct (child_nth s H id nd _ x E Hx) as [Ox Lx].
  pose proof (wf_level s H id nd E). pose proof (rlevel_le s H (eref x)).
  apply semz_fuel; auto; lia.
Qed.

(** skipped lo levels in front of a reference do not change the view *)
Lemma semz_lower : forall lvl r c, lvl <= rlevel s r ->
  all_lo c lvl (rlevel s r - lvl) = true ->
  semzn lvl r c = semzn (rlevel s r) r c.
Proof.
  intros lvl r c Hl Hlo. unfold semzn. destruct r as [t|id].
  - rewrite !semz_T. simpl in Hlo. rewrite Hlo. simpl rlevel. rewrite Nat.sub_diag. reflexivity.
  - rewrite !semz_S. destruct (find_node s id) as [nd|] eqn:E; [|reflexivity].
    rewrite (rlevel_node s id nd E) in *.
    destruct (Nat.ltb_spec (nlevel nd) lvl) as [Hlt|_]; [lia|].
    rewrite Nat.ltb_irrefl, Hlo, Nat.sub_diag. reflexivity.
Qed.

(** a choice that takes a non-lo branch at a level skipped by [r] makes [r] false *)
Lemma semz_skip_false : forall lvl L r c, ref_ok s r ->
  lvl <= L -> L < rlevel s r -> c L <> 1 -> semzn lvl r c = Some false.
Proof.
  intros lvl L r c Hok Hl HL Hc. unfold semzn. destruct r as [t|id].
  - rewrite semz_T. destruct Hok as [v E]. rewrite E. simpl in HL.
    rewrite (all_lo_false c _ lvl L) by (auto; lia). rewrite andb_false_r. reflexivity.
  - destruct Hok as [nd E]. rewrite semz_S, E. rewrite (rlevel_node s id nd E) in HL.
    destruct (Nat.ltb_spec (nlevel nd) lvl) as [Hlt|_]; [lia|].
    rewrite (all_lo_false c _ lvl L) by (auto; lia). reflexivity.
Qed.

(** ** No node denotes the empty family *)

Definition is_empty (r : ref) : Prop := exists t, r = RT t /\ term_val s t = Some 0%N.

(** from a satisfying choice of the hi child to one of the node that takes the hi branch *)
Lemma witness_step : forall id nd hi ch lvl,
  find_node s id = Some nd -> nth_error (nchildren nd) 0 = Some hi ->
  choice_ok s ch -> semzn (rlevel s (eref hi)) (eref hi) ch = Some true ->
  lvl <= nlevel nd ->
  exists c, choice_ok s c /\ c (nlevel nd) = 0 /\ semzn lvl (RN id) c = Some true.
Proof.
  intros id nd hi ch lvl E Hhi Hch Hsem Hl.
  destruct (child_nth s H id nd 0 hi E Hhi) as [Oh Lh].
  set (c := upd (lows ch (rlevel s (eref hi))) (nlevel nd) 0).
  assert (Hc0 : c (nlevel nd) = 0) by (unfold c; apply upd_same).
  exists c. split; [|split; [exact Hc0|]].
  - unfold c. apply choice_ok_upd; [apply choice_ok_lows; exact Hch | rewrite arity_zbdd; lia].
  - rewrite (node_semz id nd hi lvl c E).
    + rewrite semz_lower by
        (try lia; apply all_lo_spec; intros l Hl'; unfold c; rewrite upd_other by lia; apply lows_lt; lia).
      rewrite <- Hsem. unfold semzn. apply semz_ext. intros l Hl'.
      unfold c. rewrite upd_other by lia. apply lows_ge. exact Hl'.
    + rewrite Hc0. exact Hhi.
    + exact Hl.
    + apply all_lo_spec. intros l Hl'. unfold c. rewrite upd_other by lia. apply lows_lt. lia.
Qed.

Lemma hi_child : forall id nd, find_node s id = Some nd ->
  exists hi, nth_error (nchildren nd) 0 = Some hi /\ ~ is_empty (eref hi).
Proof.
  intros id nd E.
  destruct (reduced_zbdd _ (wf_reduced s H id nd E)) as [hi [Hh1 Hh2]].
  exists hi. split.
  - destruct (nchildren nd); simpl in *; congruence.
  - intros [t [Ht1 Ht2]]. apply (Hh2 t Ht1 Ht2).
Qed.

Lemma witness : forall k r, ref_ok s r -> nlevels s - rlevel s r <= k -> ~ is_empty r ->
  exists c, choice_ok s c /\ semzn (rlevel s r) r c = Some true.
Proof.
  induction k as [|k IH]; intros r Hok Hk Hne.
  - destruct r as [t|id].
    + destruct Hok as [v E]. destruct (zbdd_term_code s t v Hkind Hterm E) as [->| ->].
      * exfalso. apply Hne. exists t. auto.
      * exists (fun _ => 1). split; [apply choice_ok_const; lia|].
        unfold semzn. rewrite semz_T, E. simpl rlevel. rewrite Nat.sub_diag. reflexivity.
    + destruct Hok as [nd E]. rewrite (rlevel_node s id nd E) in Hk.
      pose proof (wf_level s H id nd E). lia.
  - destruct r as [t|id].
    + destruct Hok as [v E]. destruct (zbdd_term_code s t v Hkind Hterm E) as [->| ->].
      * exfalso. apply Hne. exists t. auto.
      * exists (fun _ => 1). split; [apply choice_ok_const; lia|].
        unfold semzn. rewrite semz_T, E. simpl rlevel. rewrite Nat.sub_diag. reflexivity.
    + destruct Hok as [nd E]. rewrite (rlevel_node s id nd E) in *.
      destruct (hi_child id nd E) as [hi [Hhi Hne']].
      destruct (child_nth s H id nd 0 hi E Hhi) as [Oh Lh].
      destruct (IH (eref hi) Oh ltac:(lia) Hne') as [ch [Hch Hsem]].
      destruct (witness_step id nd hi ch (nlevel nd) E Hhi Hch Hsem (le_n _)) as [c [Hc [_ Hs]]].
      exists c. auto.
Qed.

Lemma witness_node : forall id nd lvl, find_node s id = Some nd -> lvl <= nlevel nd ->
  exists c, choice_ok s c /\ c (nlevel nd) = 0 /\ semzn lvl (RN id) c = Some true.
Proof.
  intros id nd lvl E Hl.
  destruct (hi_child id nd E) as [hi [Hhi Hne']].
  destruct (child_nth s H id nd 0 hi E Hhi) as [Oh Lh].
  destruct (witness _ (eref hi) Oh (le_n _) Hne') as [ch [Hch Hsem]].
  apply (witness_step id nd hi ch lvl E Hhi Hch Hsem Hl).
Qed.

(** a node cannot have the same view as a reference strictly below it *)
Lemma node_above : forall id nd r2 lvl, find_node s id = Some nd -> ref_ok s r2 ->
  lvl <= nlevel nd -> nlevel nd < rlevel s r2 ->
  (forall c, choice_ok s c -> semzn lvl (RN id) c = semzn lvl r2 c) -> False.
Proof.
  intros id nd r2 lvl E O2 Hl Hlt Heq.
  destruct (witness_node id nd lvl E Hl) as [c [Hc [Hc0 Hs]]].
  rewrite (Heq c Hc) in Hs.
  rewrite (semz_skip_false lvl (nlevel nd) r2 c O2 Hl Hlt ltac:(lia)) in Hs. discriminate.
Qed.

(** child [i] of a node, seen from just below the node, is the node's view
    under "skipped levels lo, this level := i" *)
Lemma child_semz : forall id nd i x lvl c,
  find_node s id = Some nd -> nth_error (nchildren nd) i = Some x -> lvl <= nlevel nd ->
  semzn lvl (RN id) (upd (lows c (nlevel nd)) (nlevel nd) i) = semzn (S (nlevel nd)) (eref x) c.
Proof.
  intros id nd i x lvl c E Hx Hl.
  rewrite (node_semz id nd x lvl _ E).
  - unfold semzn. apply semz_ext. intros l Hl'. rewrite upd_other by lia. apply lows_ge. lia.
  - rewrite upd_same. exact Hx.
  - exact Hl.
  - apply all_lo_spec. intros l Hl'. rewrite upd_other by lia. apply lows_lt. lia.
Qed.

Definition canon_upto (k : nat) : Prop :=
  forall lvl r1 r2, ref_ok s r1 -> ref_ok s r2 ->
    lvl <= rlevel s r1 -> lvl <= rlevel s r2 ->
    Nat.max (nlevels s - rlevel s r1) (nlevels s - rlevel s r2) <= k ->
    (forall c, choice_ok s c -> semzn lvl r1 c = semzn lvl r2 c) -> r1 = r2.

Lemma canon_all : forall k, canon_upto k.
Proof.
  induction k as [k IH] using lt_wf_ind. intros lvl r1 r2 O1 O2 L1 L2 Hk Heq.
  assert (Heq' : forall c, choice_ok s c -> semzn lvl r2 c = semzn lvl r1 c)
    by (intros c Hc; symmetry; apply Heq; exact Hc).
  destruct r1 as [t1|id1], r2 as [t2|id2].
  - (* two terminals: Base iff Base *)
    destruct O1 as [v1 E1]. destruct O2 as [v2 E2].
    specialize (Heq (fun _ => 1) (choice_ok_const s 1 ltac:(lia))).
    unfold semzn in Heq. rewrite !semz_T, E1, E2 in Heq.
    assert (Hlo : all_lo (fun _ => 1) lvl (nlevels s - lvl) = true)
      by (apply all_lo_spec; reflexivity).
    rewrite Hlo, !andb_true_r in Heq. inversion Heq as [Hv].
    f_equal. apply (term_val_inj s t1 t2 v1 H E1).
    destruct (zbdd_term_code s t1 v1 Hkind Hterm E1) as [->| ->],
             (zbdd_term_code s t2 v2 Hkind Hterm E2) as [->| ->];
      simpl in Hv; try discriminate; exact E2.
  - exfalso. destruct O2 as [nd E]. pose proof (wf_level s H id2 nd E) as Hlv.
    rewrite (rlevel_node s id2 nd E) in L2.
    apply (node_above id2 nd (RT t1) lvl E O1 L2); [simpl; lia | exact Heq'].
  - exfalso. destruct O1 as [nd E]. pose proof (wf_level s H id1 nd E) as Hlv.
    rewrite (rlevel_node s id1 nd E) in L1.
    apply (node_above id1 nd (RT t2) lvl E O2 L1); [simpl; lia | exact Heq].
  - destruct O1 as [n1 E1]. destruct O2 as [n2 E2].
    pose proof (wf_level s H id1 n1 E1) as Hl1. pose proof (wf_level s H id2 n2 E2) as Hl2.
    rewrite (rlevel_node s id1 n1 E1) in L1, Hk. rewrite (rlevel_node s id2 n2 E2) in L2, Hk.
    destruct (lt_eq_lt_dec (nlevel n1) (nlevel n2)) as [[Hlt|Hlev]|Hgt].
    + exfalso. apply (node_above id1 n1 (RN id2) lvl E1); auto.
      * exists n2. exact E2.
      * rewrite (rlevel_node s id2 n2 E2). exact Hlt.
    + f_equal. apply (wf_unique s H id1 id2 n1 n2 E1 E2 Hlev).
      apply list_eq_nth.
      { rewrite (wf_arity s H id1 n1 E1), (wf_arity s H id2 n2 E2). reflexivity. }
      intros i a b Ha Hb.
      destruct (child_nth s H id1 n1 i a E1 Ha) as [Oa La].
      destruct (child_nth s H id2 n2 i b E2 Hb) as [Ob Lb].
      apply (child_edge_eq s id1 id2 n1 n2 a b H not_bcdd_z E1 E2
               (nth_error_In _ _ Ha) (nth_error_In _ _ Hb)).
      apply (IH (Nat.max (nlevels s - rlevel s (eref a)) (nlevels s - rlevel s (eref b))))
        with (lvl := S (nlevel n1)); auto; try lia.
      intros c Hc.
      transitivity (semzn lvl (RN id1) (upd (lows c (nlevel n1)) (nlevel n1) i)).
      { symmetry. apply (child_semz id1 n1 i a lvl c E1 Ha L1). }
      rewrite Hlev. rewrite <- (child_semz id2 n2 i b lvl c E2 Hb L2).
      apply Heq. apply choice_ok_upd; [apply choice_ok_lows; exact Hc |].
      rewrite arity_zbdd. exact (child_index_z id1 n1 i a E1 Ha).
    + exfalso. apply (node_above id2 n2 (RN id1) lvl E2); auto.
      * exists n1. exact E1.
      * rewrite (rlevel_node s id1 n1 E1). exact Hgt.
Qed.

(** Canonicity, ZBDD, seen from any common level [lvl] *)
Theorem canon_zbdd_from : forall lvl r1 r2, ref_ok s r1 -> ref_ok s r2 ->
  lvl <= rlevel s r1 -> lvl <= rlevel s r2 ->
  (r1 = r2 <->
   forall c, choice_ok s c ->
     semz s (S (nlevels s)) lvl r1 c = semz s (S (nlevels s)) lvl r2 c).
Proof.
  intros lvl r1 r2 O1 O2 L1 L2. split.
  - intros ->. reflexivity.
  - intros Heq. apply (canon_all _ lvl r1 r2 O1 O2 L1 L2 (le_n _)). exact Heq.
Qed.

(** Canonicity, ZBDD: equal references iff equal Boolean views over all levels *)
Theorem canon_zbdd : forall r1 r2, ref_ok s r1 -> ref_ok s r2 ->
  (r1 = r2 <->
   forall c, choice_ok s c ->
     semz s (S (nlevels s)) 0 r1 c = semz s (S (nlevels s)) 0 r2 c).
Proof. intros r1 r2 O1 O2. apply canon_zbdd_from; auto; lia. Qed.

End CanonZbdd.

(** C01 for ZBDDs, in terms of handles and [sem_edge] *)
Theorem canon_zbdd_handles : forall s, WF s -> s_kind s = KZbdd -> terms_kind s ->
  forall h1 h2, In h1 (s_handles s) -> In h2 (s_handles s) ->
  (snd h1 = snd h2 <->
   forall c, choice_ok s c -> sem_edge s (snd h1) c = sem_edge s (snd h2) c).
Proof.
  intros s H Hk Ht h1 h2 H1 H2.
  destruct (wf_handles s H h1 H1) as [O1 T1]. destruct (wf_handles s H h2 H2) as [O2 T2].
  assert (Hnb : s_kind s <> KBcdd) by (rewrite Hk; discriminate).
  split.
  - intros ->. reflexivity.
  - intros Heq. apply edge_ext.
    + apply (canon_zbdd s H Hk Ht _ _ O1 O2). intros c Hc.
      specialize (Heq c Hc). unfold sem_edge in Heq. rewrite Hk in Heq.
      destruct (semz s (S (nlevels s)) 0 (eref (snd h1)) c) as [[|]|],
               (semz s (S (nlevels s)) 0 (eref (snd h2)) c) as [[|]|];
        simpl in Heq; congruence.
    + rewrite (T1 Hnb), (T2 Hnb). reflexivity.
Qed.
