(** * The BDD apply algorithms with every build-configuration parameter explicit (C20)

    Executable definitions only (proofs: DD/ConfigProofs.v).  DD/Apply.v is the
    model of one configuration (sequential recursion, ids handed out by
    [fresh_id]); here the same algorithms
    (oxidd-rules-bdd/src/simple/apply_rec.rs: [apply_not], [apply_bin],
    [apply_ite]; simple/mod.rs: [reduce]; [LevelView::get_or_insert]) are
    parameterised by everything the cargo features of the [oxidd] crate and the
    manager's worker pool choose:

    - [alloc] : the node store.  [manager-index] hands out slot indices,
      [manager-pointer] addresses of an [arcslab]; the algorithms only ever
      learn the identity of the slot a new node is put into.  Any function
      returning an unused id is admitted ([alloc_ok] in the proofs).
    - [gt] : the operand order [f > g] of [terminal_bin] (index comparison or
      pointer comparison).
    - [C], [cget], [cadd] : the apply cache ([apply-cache-direct-mapped] =
      [dm_cache] of DD/Cache.v; feature off = [NoApplyCache] = [unit] with
      [nc_get]/[nc_add]).
    - [sched] : the recursor (oxidd-rules-bdd/src/recursor.rs).  [SSeq] is
      [SequentialRecursor] (feature [multi-threading] off, or 1 worker =
      split depth 0, or [remaining_depth] exhausted: the whole sub-recursion is
      sequential).  [SPar swap stale l r] is one [ParallelRecursor::unary/
      binary/ternary] call, i.e. [WorkerPool::join] of the two closures:
      [swap] = the second closure (else branch) ran first; [stale] = the
      closure that ran second worked with the cache view of the fork point
      (it did not see the insertions of the other one); [l], [r] = schedules
      of the two closures.  The shape of the tree is worker count / split
      depth / work stealing; all of it is universally quantified in the
      theorems.

    [apply_*_g fresh_id gt C cget cadd fuel SSeq] is [apply_*] of DD/Apply.v
    ([apply_bin_g_seq] etc. in DD/ConfigProofs.v). *)

From Coq Require Import List NArith PArith Bool Arith FMapPositive.
From OxiVerif Require Import DD.Table DD.Sem DD.Build DD.Apply.
Import ListNotations.

(** ** Schedules of the fork/join recursion *)

Inductive sched :=
| SSeq
| SPar (swap stale : bool) (l r : sched).

Definition sch_swap (x : sched) : bool := match x with SPar b _ _ _ => b | SSeq => false end.
Definition sch_stale (x : sched) : bool := match x with SPar _ b _ _ => b | SSeq => false end.
Definition sch_l (x : sched) : sched := match x with SPar _ _ l _ => l | SSeq => SSeq end.
Definition sch_r (x : sched) : sched := match x with SPar _ _ _ r => r | SSeq => SSeq end.

(** [ParallelRecursor] with [remaining_depth = d]: every join down to depth
    [d] is taken in the order / with the cache view given by [o] (a function
    of the path), below that the recursion is sequential *)
Fixpoint sched_depth (d : nat) (o : list bool -> bool * bool) (path : list bool) : sched :=
  match d with
  | O => SSeq
  | S k => SPar (fst (o path)) (snd (o path))
                (sched_depth k o (true :: path)) (sched_depth k o (false :: path))
  end.

Section Cfg.
(** the node store: where a new node is put *)
Variable alloc : snap -> positive.
(** operand order of commutative operators *)
Variable gt : ref -> ref -> bool.
(** the apply cache *)
Variable C : Type.
Variable cget : C -> N -> list ref -> option ref.
Variable cadd : C -> N -> list ref -> ref -> C.

(** [LevelView::get_or_insert] on a store that places new nodes at [alloc s] *)
Definition get_or_insert_a (s : snap) (lvl : nat) (ch : list edge) : snap * edge :=
  match find_dup s lvl ch with
  | Some id => (s, E (RN id))
  | None =>
    let id := alloc s in
    (set_nodes s (PositiveMap.add id (mkNode lvl ch lvl 0%N) (s_nodes s)), E (RN id))
  end.

(** [reduce] *)
Definition mk_node_a (s : snap) (lvl : nat) (ch : list edge) : snap * edge :=
  match ch with
  | [] => (s, E (RT 0%N))
  | c0 :: _ => if all_equal ch then (s, c0) else get_or_insert_a s lvl ch
  end.

(** [Recursor::unary/binary/ternary]: run the two closures (then-branch
    [runT], else-branch [runE]) as the schedule says; returns the final table
    and cache and the two results *)
Definition fork2 (x : sched) (runT runE : sched -> snap -> C -> option (snap * C * ref))
  (s : snap) (c : C) : option (snap * C * ref * ref) :=
  if sch_swap x then
    match runE (sch_r x) s c with
    | None => None
    | Some (s1, c1, e) =>
      match runT (sch_l x) s1 (if sch_stale x then c else c1) with
      | None => None
      | Some (s2, c2, t) => Some (s2, c2, t, e)
      end
    end
  else
    match runT (sch_l x) s c with
    | None => None
    | Some (s1, c1, t) =>
      match runE (sch_r x) s1 (if sch_stale x then c else c1) with
      | None => None
      | Some (s2, c2, e) => Some (s2, c2, t, e)
      end
    end.

(** the common tail of the three algorithms: fork, [reduce], cache insertion *)
Definition join2 (x : sched) (runT runE : sched -> snap -> C -> option (snap * C * ref))
  (s : snap) (c : C) (lvl : nat) (code : N) (args : list ref) : option (snap * C * ref) :=
  match fork2 x runT runE s c with
  | None => None
  | Some (s2, c2, t, e) =>
    let '(s3, h) := mk_node_a s2 lvl [E t; E e] in
    Some (s3, cadd c2 code args (eref h), eref h)
  end.

(** [apply_not] *)
Fixpoint apply_not_g (fuel : nat) (x : sched) (s : snap) (c : C) (f : ref)
  : option (snap * C * ref) :=
  match fuel with
  | O => None
  | S n =>
    match f with
    | RT _ =>
      match view s f with
      | Some (VT b) =>
        match term_of s (negb b) with Some t => Some (s, c, RT t) | None => None end
      | _ => None
      end
    | RN id =>
      match find_node s id with
      | None => None
      | Some nd =>
        match cget c code_not [f] with
        | Some h => Some (s, c, h)
        | None =>
          match nchildren nd with
          | [ft; fe] =>
            join2 x (fun x' s' c' => apply_not_g n x' s' c' (eref ft))
                    (fun x' s' c' => apply_not_g n x' s' c' (eref fe))
                  s c (nstored nd) code_not [f]
          | _ => None
          end
        end
      end
    end
  end.

(** [apply_bin::<OP>] *)
Fixpoint apply_bin_g (fuel : nat) (x : sched) (s : snap) (c : C) (op : bop) (f g : ref)
  : option (snap * C * ref) :=
  match fuel with
  | O => None
  | S n =>
    match terminal_bin gt s op f g with
    | TFail => None
    | TDone h => Some (s, c, h)
    | TNot r => apply_not_g fuel x s c r
    | TBin o a b =>
      match cget c (op_code o) [a; b] with
      | Some h => Some (s, c, h)
      | None =>
        match inner s f, inner s g with
        | Some fnode, Some gnode =>
          let lvl := Nat.min (nstored fnode) (nstored gnode) in
          match cof2 f fnode lvl, cof2 g gnode lvl with
          | Some (ft, fe), Some (gt', ge) =>
            join2 x (fun x' s' c' => apply_bin_g n x' s' c' op ft gt')
                    (fun x' s' c' => apply_bin_g n x' s' c' op fe ge)
                  s c lvl (op_code o) [a; b]
          | _, _ => None
          end
        | _, _ => None
        end
      end
    end
  end.

(** [apply_ite] *)
Fixpoint apply_ite_g (fuel : nat) (x : sched) (s : snap) (c : C) (f g h : ref)
  : option (snap * C * ref) :=
  match fuel with
  | O => None
  | S n =>
    if ref_eqb g h then Some (s, c, g)
    else if ref_eqb f g then apply_bin_g fuel x s c OOr f h
    else if ref_eqb f h then apply_bin_g fuel x s c OAnd f g
    else
      match view s f with
      | None => None
      | Some (VT b) => Some (s, c, if b then g else h)
      | Some VI =>
        match view s g, view s h with
        | Some (VT true), Some VI => apply_bin_g fuel x s c OOr f h
        | Some (VT false), Some VI => apply_bin_g fuel x s c OImpStrict f h
        | Some VI, Some (VT true) => apply_bin_g fuel x s c OImp f g
        | Some VI, Some (VT false) => apply_bin_g fuel x s c OAnd f g
        | Some (VT false), Some (VT _) => apply_not_g fuel x s c f
        | Some (VT true), Some (VT _) => Some (s, c, f)
        | Some VI, Some VI =>
          match cget c code_ite [f; g; h] with
          | Some r => Some (s, c, r)
          | None =>
            match inner s f, inner s g, inner s h with
            | Some fnode, Some gnode, Some hnode =>
              let lvl := Nat.min (Nat.min (nstored fnode) (nstored gnode)) (nstored hnode) in
              match cof2 f fnode lvl, cof2 g gnode lvl, cof2 h hnode lvl with
              | Some (ft, fe), Some (gt', ge), Some (ht, he) =>
                join2 x (fun x' s' c' => apply_ite_g n x' s' c' ft gt' ht)
                        (fun x' s' c' => apply_ite_g n x' s' c' fe ge he)
                      s c lvl code_ite [f; g; h]
              | _, _, _ => None
              end
            | _, _, _ => None
            end
          end
        | _, _ => None
        end
      end
  end.

(** [var_edge] / [not_var_edge] on a store that allocates with [alloc] *)
Definition mk_var_a (s : snap) (v : nat) (neg : bool) : option (snap * ref) :=
  match nth_error (s_v2l s) v, term_of s true, term_of s false with
  | Some lvl, Some t1, Some t0 =>
    let ch := if neg then [E (RT t0); E (RT t1)] else [E (RT t1); E (RT t0)] in
    let '(s', e) := get_or_insert_a s lvl ch in
    Some (s', eref e)
  | _, _, _ => None
  end.

(** ** Whole API-call histories on one manager

    The manager state of the model: the node table (its [s_handles] are the
    [Function] values the client holds, by slot), the apply cache, and the
    number of calls made so far (it selects the schedule of the next call:
    the order in which a worker pool happens to run the closures differs from
    call to call). *)

Inductive mop :=
| MConst (d : N) (b : bool)                (* f / t *)
| MVar (d : N) (v : nat) (neg : bool)      (* var / not_var *)
| MNot (d a : N)
| MBin (d : N) (o : bop) (a b : N)
| MIte (d a b c : N)
| MClone (d a : N)
| MDrop (d : N).

Record mstate := mkM { m_snap : snap; m_cache : C; m_step : nat }.

Fixpoint hget (hs : list (N * edge)) (k : N) : option edge :=
  match hs with
  | [] => None
  | (a, e) :: r => if N.eqb a k then Some e else hget r k
  end.

Definition hdel (hs : list (N * edge)) (k : N) : list (N * edge) :=
  filter (fun p => negb (N.eqb (fst p) k)) hs.

Definition hset (hs : list (N * edge)) (k : N) (e : edge) : list (N * edge) :=
  (k, e) :: hdel hs k.

Definition set_handles (s : snap) (hs : list (N * edge)) : snap :=
  mkSnap (s_kind s) (s_nodes s) (s_terms s) (s_v2l s) (s_l2v s) hs.

Definition put (s : snap) (d : N) (r : ref) : snap := set_handles s (hset (s_handles s) d (E r)).

(** the schedule of the [k]-th call *)
Variable sch_at : nat -> sched.

(** one API call; [None] = the client used an empty slot / unknown variable
    (the harness never does), or one of the algorithm's [unwrap]s would panic *)
Definition mstep (st : mstate) (o : mop) : option mstate :=
  let s := m_snap st in
  let c := m_cache st in
  let k := m_step st in
  let fuel := S (nlevels s) in
  match o with
  | MConst d b =>
    match mk_const s b with
    | Some r => Some (mkM (put s d r) c (S k))
    | None => None
    end
  | MVar d v neg =>
    match mk_var_a s v neg with
    | Some (s', r) => Some (mkM (put s' d r) c (S k))
    | None => None
    end
  | MNot d a =>
    match hget (s_handles s) a with
    | Some ea =>
      match apply_not_g fuel (sch_at k) s c (eref ea) with
      | Some (s', c', r) => Some (mkM (put s' d r) c' (S k))
      | None => None
      end
    | None => None
    end
  | MBin d o a b =>
    match hget (s_handles s) a, hget (s_handles s) b with
    | Some ea, Some eb =>
      match apply_bin_g fuel (sch_at k) s c o (eref ea) (eref eb) with
      | Some (s', c', r) => Some (mkM (put s' d r) c' (S k))
      | None => None
      end
    | _, _ => None
    end
  | MIte d a b e =>
    match hget (s_handles s) a, hget (s_handles s) b, hget (s_handles s) e with
    | Some ea, Some eb, Some ee =>
      match apply_ite_g fuel (sch_at k) s c (eref ea) (eref eb) (eref ee) with
      | Some (s', c', r) => Some (mkM (put s' d r) c' (S k))
      | None => None
      end
    | _, _, _ => None
    end
  | MClone d a =>
    match hget (s_handles s) a with
    | Some ea => Some (mkM (put s d (eref ea)) c (S k))
    | None => None
    end
  | MDrop d => Some (mkM (set_handles s (hdel (s_handles s) d)) c (S k))
  end.

Definition ostep (st : option mstate) (o : mop) : option mstate :=
  match st with Some x => mstep x o | None => None end.

Definition run_ops (st : mstate) (ops : list mop) : option mstate :=
  fold_left ostep ops (Some st).

End Cfg.

(** ** What a client can observe of a manager state: per handle slot the value
    of the function under every assignment, and its node count; plus the
    variable order *)

Definition obs_handle (s : snap) (h : N * edge) (c : nat -> nat) : N * option N * N :=
  (fst h, sem_edge s (snd h) c, count_reach s (snd h)).

Definition observe (s : snap) (c : nat -> nat) : list (N * option N * N) * list nat :=
  (map (fun h => obs_handle s h c) (s_handles s), s_v2l s).
