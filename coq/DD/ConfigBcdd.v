(** * The BCDD apply algorithms with every build-configuration parameter explicit (C20x)

    Executable definitions only (proofs: DD/ConfigBcddProofs.v, ConfigBcddCache.v,
    ConfigBcddIndep.v).  DD/ApplyBcdd.v is the model of ONE configuration of
    oxidd-rules-bdd/src/complement_edge/apply_rec.rs (sequential recursion,
    node ids handed out by [fresh_id]).  Here the same algorithms are restated
    the way DD/ConfigApply.v restates the plain BDD ones, with everything the
    cargo features of the [oxidd] crate and the worker pool choose as a
    parameter:

    - [alloc] : the node store ([manager-index]: slot index, [manager-pointer]:
      arcslab address); any function returning an unused id ([alloc_ok]);
    - [lt]    : the edge order [f < g] of [apply_bin] (index / address, then tag);
    - [C], [cget], [cadd] : the apply cache (any lossy cache, [lossyC]);
    - [sched] : the recursor (oxidd-rules-bdd/src/recursor.rs); [SSeq] =
      [SequentialRecursor], [SPar swap stale l r] = one [ParallelRecursor::binary]
      / [ternary] = [WorkerPool::join] of the two closures ([swap]: the else
      closure ran first, [stale]: the later closure saw the cache of the fork
      point only, [l]/[r]: schedules of the closures).  The terminal cases of
      [apply_ite] that delegate to [apply_bin] pass [rec] on unchanged, as the
      code does.

    [capply_*_g fresh_id lt C cget cadd fuel SSeq = capply_*] of DD/ApplyBcdd.v
    ([capply_bin_g_seq] etc. in DD/ConfigBcddProofs.v). *)

From Coq Require Import List NArith PArith Bool Arith FMapPositive.
From OxiVerif Require Import DD.Table DD.Sem DD.Build DD.Apply DD.ApplyBcdd DD.ConfigApply.
Import ListNotations.

Section Cfg.
(** the node store: where a new node is put *)
Variable alloc : snap -> positive.
(** operand order of [apply_bin] *)
Variable lt : edge -> edge -> bool.
(** the apply cache *)
Variable C : Type.
Variable cget : C -> N -> list edge -> option edge.
Variable cadd : C -> N -> list edge -> edge -> C.

(** [reduce(manager, level, t, e, op)] of complement_edge/mod.rs on a store
    that places new nodes at [alloc s] (cf. [cmk_node]) *)
Definition cmk_node_a (s : snap) (lvl : nat) (t e : edge) : snap * edge :=
  if edge_eqb t e then (s, t)
  else if etag t then
    let '(s', r) := get_or_insert_a alloc s lvl [untag t; enot e] in (s', mkEdge (eref r) true)
  else
    let '(s', r) := get_or_insert_a alloc s lvl [t; e] in (s', mkEdge (eref r) false).

(** [Recursor::binary/ternary]: run the two closures (then-branch [runT],
    else-branch [runE]) as the schedule says ([fork2] of DD/ConfigApply.v with
    edges as results) *)
Definition cfork2 (x : sched) (runT runE : sched -> snap -> C -> option (snap * C * edge))
  (s : snap) (c : C) : option (snap * C * edge * edge) :=
  if sch_swap x then
    match runE (sch_r x) s c with
    | None => None
    | Some (s1, c1, e) =>
      match runT (sch_l x) s1 (if sch_stale x then c else c1) with
      | None => None
      | Some (s2, c2, t) => Some (s2, c2, t, e)
      end
    end
  else
    match runT (sch_l x) s c with
    | None => None
    | Some (s1, c1, t) =>
      match runE (sch_r x) s1 (if sch_stale x then c else c1) with
      | None => None
      | Some (s2, c2, e) => Some (s2, c2, t, e)
      end
    end.

(** the common tail of [apply_bin] and [apply_ite]: fork, [reduce], cache insertion *)
Definition cjoin2 (x : sched) (runT runE : sched -> snap -> C -> option (snap * C * edge))
  (s : snap) (c : C) (lvl : nat) (code : N) (args : list edge) : option (snap * C * edge) :=
  match cfork2 x runT runE s c with
  | None => None
  | Some (s2, c2, t, e) =>
    let '(s3, h) := cmk_node_a s2 lvl t e in
    Some (s3, cadd c2 code args h, h)
  end.

(** the part of [apply_bin] after the terminal cases and the operand ordering
    (cf. [cbin_step]) *)
Definition cbin_step_g (rec : sched -> snap -> C -> edge -> edge -> option (snap * C * edge))
    (x : sched) (s : snap) (c : C) (op : cop) (f : edge) (fnode : node) (g : edge) (gnode : node)
  : option (snap * C * edge) :=
  match cget c (cop_code op) [f; g] with
  | Some h => Some (s, c, h)
  | None =>
    let lvl := Nat.min (nstored fnode) (nstored gnode) in
    match ccof2 f fnode lvl, ccof2 g gnode lvl with
    | Some (ft, fe), Some (gt, ge) =>
      cjoin2 x (fun x' s' c' => rec x' s' c' ft gt) (fun x' s' c' => rec x' s' c' fe ge)
             s c lvl (cop_code op) [f; g]
    | _, _ => None
    end
  end.

(** [apply_bin::<OP>] *)
Fixpoint capply_bin_g (fuel : nat) (x : sched) (s : snap) (c : C) (op : cop) (f g : edge)
  : option (snap * C * edge) :=
  match fuel with
  | O => None
  | S n =>
    match cterminal s op f g with
    | KFail => None
    | KDone h => Some (s, c, h)
    | KNodes fnode gnode =>
      if lt f g then cbin_step_g (fun x' s' c' f' g' => capply_bin_g n x' s' c' op f' g') x s c op f fnode g gnode
      else cbin_step_g (fun x' s' c' f' g' => capply_bin_g n x' s' c' op f' g') x s c op g gnode f fnode
    end
  end.

(** the eight binary operators of [BooleanFunction for BCDDFunction] (cf. [capply_op]) *)
Definition capply_op_g (fuel : nat) (x : sched) (s : snap) (c : C) (o : bop) (f g : edge)
  : option (snap * C * edge) :=
  match o with
  | OAnd => capply_bin_g fuel x s c CAnd f g
  | OOr => onot C (capply_bin_g fuel x s c CAnd (enot f) (enot g))
  | ONand => onot C (capply_bin_g fuel x s c CAnd f g)
  | ONor => capply_bin_g fuel x s c CAnd (enot f) (enot g)
  | OXor => capply_bin_g fuel x s c CXor f g
  | OEquiv => onot C (capply_bin_g fuel x s c CXor f g)
  | OImp => onot C (capply_bin_g fuel x s c CAnd f (enot g))
  | OImpStrict => capply_bin_g fuel x s c CAnd (enot f) g
  end.

(** the part of [apply_ite] after its terminal cases (cf. [cite_step]) *)
Definition cite_step_g (rec : sched -> snap -> C -> edge -> edge -> edge -> option (snap * C * edge))
    (x : sched) (s : snap) (c : C) (f : edge) (fnode : node) (g : edge) (gnode : node)
    (h : edge) (hnode : node) : option (snap * C * edge) :=
  match cget c ccode_ite [f; g; h] with
  | Some r => Some (s, c, r)
  | None =>
    let lvl := Nat.min (Nat.min (nstored fnode) (nstored gnode)) (nstored hnode) in
    match ccof2 f fnode lvl, ccof2 g gnode lvl, ccof2 h hnode lvl with
    | Some (ft, fe), Some (gt, ge), Some (ht, he) =>
      cjoin2 x (fun x' s' c' => rec x' s' c' ft gt ht) (fun x' s' c' => rec x' s' c' fe ge he)
             s c lvl ccode_ite [f; g; h]
    | _, _, _ => None
    end
  end.

(** [apply_ite] with its terminal cases, in the order of the code (cf. [capply_ite]) *)
Fixpoint capply_ite_g (fuel : nat) (x : sched) (s : snap) (c : C) (f g h : edge)
  : option (snap * C * edge) :=
  match fuel with
  | O => None
  | S n =>
    if ref_eqb (eref g) (eref h) then
      if Bool.eqb (etag g) (etag h) then Some (s, c, g)
      else onot C (capply_bin_g fuel x s c CXor f g)
    else if ref_eqb (eref f) (eref g) then
      if Bool.eqb (etag f) (etag g) then onot C (capply_bin_g fuel x s c CAnd (enot f) (enot h))
      else capply_bin_g fuel x s c CAnd (enot f) h
    else if ref_eqb (eref f) (eref h) then
      if Bool.eqb (etag f) (etag h) then capply_bin_g fuel x s c CAnd f g
      else onot C (capply_bin_g fuel x s c CAnd f (enot g))
    else
      match cnode s f with
      | None => None
      | Some NVT => Some (s, c, if etag f then h else g)
      | Some (NVI fnode) =>
        match cnode s g, cnode s h with
        | Some (NVI gnode), Some (NVI hnode) =>
          cite_step_g (fun x' s' c' f' g' h' => capply_ite_g n x' s' c' f' g' h') x s c f fnode g gnode h hnode
        | Some NVT, Some (NVI _) =>
          if etag g then capply_bin_g fuel x s c CAnd (enot f) h
          else onot C (capply_bin_g fuel x s c CAnd (enot f) (enot h))
        | Some _, Some NVT =>
          if etag h then capply_bin_g fuel x s c CAnd f g
          else onot C (capply_bin_g fuel x s c CAnd f (enot g))
        | _, _ => None
        end
      end
  end.

(** [var_edge] / [not_var_edge] on a store that allocates with [alloc] (cf. [cmk_var]) *)
Definition cmk_var_a (s : snap) (v : nat) (neg : bool) : option (snap * edge) :=
  match nth_error (s_v2l s) v, cget_terminal s true, cget_terminal s false with
  | Some lvl, Some t, Some e =>
    let '(s', r) := get_or_insert_a alloc s lvl [t; e] in
    Some (s', mkEdge (eref r) neg)
  | _, _, _ => None
  end.

(** ** Whole API-call histories on one BCDD manager ([mstep] / [run_ops] of
    DD/ConfigApply.v for the complement-edge kind; handles are full edges) *)

Record cmstate := mkCM { cm_snap : snap; cm_cache : C; cm_step : nat }.

Definition cput (s : snap) (d : N) (e : edge) : snap := set_handles s (hset (s_handles s) d e).

(** the schedule of the [k]-th call *)
Variable sch_at : nat -> sched.

Definition cmstep (st : cmstate) (o : mop) : option cmstate :=
  let s := cm_snap st in
  let c := cm_cache st in
  let k := cm_step st in
  let fuel := S (nlevels s) in
  match o with
  | MConst d b =>
    match cmk_const s b with
    | Some r => Some (mkCM (cput s d r) c (S k))
    | None => None
    end
  | MVar d v neg =>
    match cmk_var_a s v neg with
    | Some (s', r) => Some (mkCM (cput s' d r) c (S k))
    | None => None
    end
  | MNot d a =>
    match hget (s_handles s) a with
    | Some ea => Some (mkCM (cput s d (enot ea)) c (S k))      (* [not_edge]: the tag flip *)
    | None => None
    end
  | MBin d o a b =>
    match hget (s_handles s) a, hget (s_handles s) b with
    | Some ea, Some eb =>
      match capply_op_g fuel (sch_at k) s c o ea eb with
      | Some (s', c', r) => Some (mkCM (cput s' d r) c' (S k))
      | None => None
      end
    | _, _ => None
    end
  | MIte d a b e =>
    match hget (s_handles s) a, hget (s_handles s) b, hget (s_handles s) e with
    | Some ea, Some eb, Some ee =>
      match capply_ite_g fuel (sch_at k) s c ea eb ee with
      | Some (s', c', r) => Some (mkCM (cput s' d r) c' (S k))
      | None => None
      end
    | _, _, _ => None
    end
  | MClone d a =>
    match hget (s_handles s) a with
    | Some ea => Some (mkCM (cput s d ea) c (S k))
    | None => None
    end
  | MDrop d => Some (mkCM (set_handles s (hdel (s_handles s) d)) c (S k))
  end.

Definition costep (st : option cmstate) (o : mop) : option cmstate :=
  match st with Some x => cmstep x o | None => None end.

Definition crun_ops (st : cmstate) (ops : list mop) : option cmstate :=
  fold_left costep ops (Some st).

End Cfg.
