(** * C20x (a): BCDD apply cache enabled / disabled / any other cache - identical results

    Two runs of the same BCDD operation on the same table, with the same node
    store and the same schedule, but with two arbitrary (possibly different)
    lossy cache implementations holding arbitrary correct contents, and two
    arbitrary edge orders [lt1] / [lt2] (so the two runs may even recurse with
    swapped operand pairs): the resulting TABLES are identical and the
    returned EDGES are identical ([capply_*_g_agree]). *)

From Coq Require Import List NArith PArith Bool Arith Lia FMapPositive.
From OxiVerif Require Import DD.Table DD.TableProofs DD.Canon DD.CanonBcdd DD.Sem DD.Build DD.BuildProofs
  DD.PickInsert DD.Apply DD.ApplyProofs DD.ApplyBcdd DD.ApplyBcddProofs DD.ApplyBcddIte
  DD.ConfigApply DD.ConfigProofs DD.ConfigInsert DD.ConfigBcdd DD.ConfigBcddProofs.
Import ListNotations.

Section CacheExact.
Variable alloc : snap -> positive.
Hypothesis Halloc : alloc_ok alloc.
Variables lt1 lt2 : edge -> edge -> bool.
Variables C1 C2 : Type.
Variable cget1 : C1 -> N -> list edge -> option edge.
Variable cadd1 : C1 -> N -> list edge -> edge -> C1.
Variable cget2 : C2 -> N -> list edge -> option edge.
Variable cadd2 : C2 -> N -> list edge -> edge -> C2.
Hypothesis L1 : lossyC cget1 cadd1.
Hypothesis L2 : lossyC cget2 cadd2.

Notation ROK1 := (cresult_ok cget1).
Notation ROK2 := (cresult_ok cget2).
Notation COK1 := (CacheOKC cget1).
Notation COK2 := (CacheOKC cget2).

(** both runs succeed, with the same table and the same edge (the caches may differ) *)
Definition csame_out (r1 : option (snap * C1 * edge)) (r2 : option (snap * C2 * edge)) : Prop :=
  match r1, r2 with
  | Some (s1, _, a), Some (s2, _, b) => s1 = s2 /\ a = b
  | _, _ => False
  end.

Lemma csame_out_not : forall r1 r2, csame_out r1 r2 -> csame_out (onot C1 r1) (onot C2 r2).
Proof.
  intros [[[s1 c1] a]|] [[[s2 c2] b]|]; simpl; try contradiction. intros [-> ->]. auto.
Qed.

Lemma cunchanged_agree_l : forall s c1 c2 res2 Phi c1' r1,
  ROK1 s c1 (Some (s, c1', r1)) Phi -> ROK2 s c2 res2 Phi ->
  csame_out (Some (s, c1', r1)) res2.
Proof.
  intros s c1 c2 res2 Phi c1' r1 [sa [ca [ra [Ea [_ [_ [_ [Da _]]]]]]]]
         [sb [cb [rb [Eb [_ [_ [_ [_ Sb]]]]]]]].
  inversion Ea; subst sa ca ra. rewrite Eb. destruct (Sb r1 Da) as [-> ->]. simpl. auto.
Qed.

Lemma cunchanged_agree_r : forall s c1 c2 res1 Phi c2' r2,
  ROK1 s c1 res1 Phi -> ROK2 s c2 (Some (s, c2', r2)) Phi ->
  csame_out res1 (Some (s, c2', r2)).
Proof.
  intros s c1 c2 res1 Phi c2' r2 [sa [ca [ra [Ea [_ [_ [_ [_ Sa]]]]]]]]
         [sb [cb [rb [Eb [_ [_ [_ [Db _]]]]]]]].
  inversion Eb; subst sb cb rb. rewrite Ea. destruct (Sa r2 Db) as [-> ->]. simpl. auto.
Qed.

(** two closures that agree in every later state *)
Definition cruns_agree (s : snap)
  (run1 : sched -> snap -> C1 -> option (snap * C1 * edge))
  (run2 : sched -> snap -> C2 -> option (snap * C2 * edge)) : Prop :=
  forall x s' a b, BcOK s' -> extends s s' -> COK1 s' a -> COK2 s' b ->
    csame_out (run1 x s' a) (run2 x s' b).

Lemma cfork2_agree : forall x runT1 runE1 runT2 runE2 s c1 c2 P0 P1,
  BcOK s -> COK1 s c1 -> COK2 s c2 ->
  crun_ok C1 cget1 s runT1 P0 -> crun_ok C2 cget2 s runT2 P0 ->
  crun_ok C1 cget1 s runE1 P1 -> crun_ok C2 cget2 s runE2 P1 ->
  cruns_agree s runT1 runT2 -> cruns_agree s runE1 runE2 ->
  match cfork2 C1 x runT1 runE1 s c1, cfork2 C2 x runT2 runE2 s c2 with
  | Some (sa, _, ta, ea), Some (sb, _, tb, eb) => sa = sb /\ ta = tb /\ ea = eb
  | _, _ => False
  end.
Proof.
  intros x runT1 runE1 runT2 runE2 s c1 c2 P0 P1 B O1 O2 HT1 HT2 HE1 HE2 AT AE.
  unfold cfork2. destruct (sch_swap x).
  - destruct (HE1 (sch_r x) s c1 B (extends_refl s) O1) as [sa [ca [ea [Ea [Ba [Xa [Oa _]]]]]]].
    destruct (HE2 (sch_r x) s c2 B (extends_refl s) O2) as [sb [cb [eb [Eb [_ [_ [Ob _]]]]]]].
    pose proof (AE (sch_r x) s c1 c2 B (extends_refl s) O1 O2) as A. rewrite Ea, Eb in A.
    destruct A as [<- <-]. rewrite Ea, Eb.
    assert (Oc1 : COK1 sa (if sch_stale x then c1 else ca))
      by (destruct (sch_stale x); [apply (ccacheok_extends C1 cget1 s sa c1 B Xa O1) | exact Oa]).
    assert (Oc2 : COK2 sa (if sch_stale x then c2 else cb))
      by (destruct (sch_stale x); [apply (ccacheok_extends C2 cget2 s sa c2 B Xa O2) | exact Ob]).
    destruct (HT1 (sch_l x) sa _ Ba Xa Oc1) as [s2 [c2' [t [Et _]]]].
    destruct (HT2 (sch_l x) sa _ Ba Xa Oc2) as [s3 [c3' [t' [Et' _]]]].
    pose proof (AT (sch_l x) sa _ _ Ba Xa Oc1 Oc2) as A. rewrite Et, Et' in A.
    destruct A as [<- <-]. rewrite Et, Et'. auto.
  - destruct (HT1 (sch_l x) s c1 B (extends_refl s) O1) as [sa [ca [ta [Ea [Ba [Xa [Oa _]]]]]]].
    destruct (HT2 (sch_l x) s c2 B (extends_refl s) O2) as [sb [cb [tb [Eb [_ [_ [Ob _]]]]]]].
    pose proof (AT (sch_l x) s c1 c2 B (extends_refl s) O1 O2) as A. rewrite Ea, Eb in A.
    destruct A as [<- <-]. rewrite Ea, Eb.
    assert (Oc1 : COK1 sa (if sch_stale x then c1 else ca))
      by (destruct (sch_stale x); [apply (ccacheok_extends C1 cget1 s sa c1 B Xa O1) | exact Oa]).
    assert (Oc2 : COK2 sa (if sch_stale x then c2 else cb))
      by (destruct (sch_stale x); [apply (ccacheok_extends C2 cget2 s sa c2 B Xa O2) | exact Ob]).
    destruct (HE1 (sch_r x) sa _ Ba Xa Oc1) as [s2 [c2' [e [Ee _]]]].
    destruct (HE2 (sch_r x) sa _ Ba Xa Oc2) as [s3 [c3' [e' [Ee' _]]]].
    pose proof (AE (sch_r x) sa _ _ Ba Xa Oc1 Oc2) as A. rewrite Ee, Ee' in A.
    destruct A as [<- <-]. rewrite Ee, Ee'. auto.
Qed.

Lemma cjoin2_agree : forall x runT1 runE1 runT2 runE2 s c1 c2 P0 P1 lvl code1 args1 code2 args2,
  BcOK s -> COK1 s c1 -> COK2 s c2 ->
  crun_ok C1 cget1 s runT1 P0 -> crun_ok C2 cget2 s runT2 P0 ->
  crun_ok C1 cget1 s runE1 P1 -> crun_ok C2 cget2 s runE2 P1 ->
  cruns_agree s runT1 runT2 -> cruns_agree s runE1 runE2 ->
  csame_out (cjoin2 alloc C1 cadd1 x runT1 runE1 s c1 lvl code1 args1)
            (cjoin2 alloc C2 cadd2 x runT2 runE2 s c2 lvl code2 args2).
Proof.
  intros x runT1 runE1 runT2 runE2 s c1 c2 P0 P1 lvl code1 args1 code2 args2
         B O1 O2 HT1 HT2 HE1 HE2 AT AE.
  pose proof (cfork2_agree x runT1 runE1 runT2 runE2 s c1 c2 P0 P1 B O1 O2 HT1 HT2 HE1 HE2 AT AE) as A.
  unfold cjoin2.
  destruct (cfork2 C1 x runT1 runE1 s c1) as [[[[sa ca] ta] ea]|]; [|contradiction].
  destruct (cfork2 C2 x runT2 runE2 s c2) as [[[[sb cb] tb] eb]|]; [|contradiction].
  destruct A as [<- [<- <-]].
  destruct (cmk_node_a alloc sa lvl ta ea) as [s3 h]. simpl. auto.
Qed.

Local Ltac dead R := let EE := fresh "EE" in destruct R as [? [? [? [EE _]]]]; discriminate EE.

(** the operands of the second run are those of the first, possibly swapped *)
Definition same_or_swapped (f g f' g' : edge) : Prop := (f' = f /\ g' = g) \/ (f' = g /\ g' = f).

(** the step after the terminal cases and the operand ordering *)
Lemma cbin_step_g_agree : forall op n
  (rec1 : sched -> snap -> C1 -> edge -> edge -> option (snap * C1 * edge))
  (rec2 : sched -> snap -> C2 -> edge -> edge -> option (snap * C2 * edge)),
  (forall x s c f g phi psi, BcOK s -> COK1 s c -> DenC s f phi -> DenC s g psi ->
     nlevels s - Nat.min (rlevel s (eref f)) (rlevel s (eref g)) < n ->
     ROK1 s c (rec1 x s c f g) (fun c0 => ceval op (phi c0) (psi c0))) ->
  (forall x s c f g phi psi, BcOK s -> COK2 s c -> DenC s f phi -> DenC s g psi ->
     nlevels s - Nat.min (rlevel s (eref f)) (rlevel s (eref g)) < n ->
     ROK2 s c (rec2 x s c f g) (fun c0 => ceval op (phi c0) (psi c0))) ->
  (forall x s a b f g f' g' phi psi, BcOK s -> COK1 s a -> COK2 s b -> DenC s f phi -> DenC s g psi ->
     same_or_swapped f g f' g' ->
     nlevels s - Nat.min (rlevel s (eref f)) (rlevel s (eref g)) < n ->
     csame_out (rec1 x s a f g) (rec2 x s b f' g')) ->
  forall x s c1 c2 f idf fnd g idg gnd phi psi,
    BcOK s -> COK1 s c1 -> COK2 s c2 -> DenC s f phi -> DenC s g psi ->
    eref f = RN idf -> find_node s idf = Some fnd ->
    eref g = RN idg -> find_node s idg = Some gnd ->
    nlevels s - Nat.min (nlevel fnd) (nlevel gnd) < S n ->
    csame_out (cbin_step_g alloc C1 cget1 cadd1 rec1 x s c1 op f fnd g gnd)
              (cbin_step_g alloc C2 cget2 cadd2 rec2 x s c2 op f fnd g gnd) /\
    csame_out (cbin_step_g alloc C1 cget1 cadd1 rec1 x s c1 op f fnd g gnd)
              (cbin_step_g alloc C2 cget2 cadd2 rec2 x s c2 op g gnd f fnd).
Proof.
  intros op n rec1 rec2 Hok1 Hok2 Hag x s c1 c2 f idf fnd g idg gnd phi psi
         B O1 O2 Df Dg Erf Ef Erg Eg Hfuel.
  pose proof (cbin_step_g_ok alloc Halloc C1 cget1 cadd1 L1 op n rec1 Hok1 x s c1 f idf fnd g idg gnd phi psi
                B O1 Df Dg Erf Ef Erg Eg Hfuel) as R1.
  pose proof (cbin_step_g_ok alloc Halloc C2 cget2 cadd2 L2 op n rec2 Hok2 x s c2 f idf fnd g idg gnd phi psi
                B O2 Df Dg Erf Ef Erg Eg Hfuel) as R2.
  assert (Hfuel' : nlevels s - Nat.min (nlevel gnd) (nlevel fnd) < S n) by lia.
  pose proof (cbin_step_g_ok alloc Halloc C2 cget2 cadd2 L2 op n rec2 Hok2 x s c2 g idg gnd f idf fnd psi phi
                B O2 Dg Df Erg Eg Erf Ef Hfuel') as R2s.
  apply (cresult_ok_ext C2 cget2 s c2 _ _ (fun c0 => ceval op (phi c0) (psi c0))) in R2s;
    [|intros c0 _; apply ceval_comm].
  pose proof (bc_wf s B) as H.
  pose proof (wf_level s H idf fnd Ef) as Hlf. pose proof (wf_level s H idg gnd Eg) as Hlg.
  unfold cbin_step_g in *.
  destruct (cget1 c1 (cop_code op) [f; g]) eqn:G1;
    [split; eapply cunchanged_agree_l; eauto|].
  rewrite (wf_stored s H idf fnd Ef), (wf_stored s H idg gnd Eg) in *.
  rewrite (Nat.min_comm (nlevel gnd) (nlevel fnd)) in *.
  set (lvl := Nat.min (nlevel fnd) (nlevel gnd)) in *. cbv zeta in *.
  destruct (ccof2_ok s f idf fnd phi lvl B Df Erf Ef ltac:(lia)) as [ft [fe [Ecf [Dft [Dfe [Lft Lfe]]]]]].
  destruct (ccof2_ok s g idg gnd psi lvl B Dg Erg Eg ltac:(lia)) as [gt' [ge [Ecg [Dgt [Dge [Lgt Lge]]]]]].
  rewrite Ecf, Ecg in *.
  assert (Ft : forall s', extends s s' -> nlevels s' - Nat.min (rlevel s' (eref ft)) (rlevel s' (eref gt')) < n).
  { intros s' X'. rewrite (ext_nlevels _ _ X'), (ext_rlevel _ _ _ X' (proj1 Dft)),
      (ext_rlevel _ _ _ X' (proj1 Dgt)). lia. }
  assert (Fe : forall s', extends s s' -> nlevels s' - Nat.min (rlevel s' (eref fe)) (rlevel s' (eref ge)) < n).
  { intros s' X'. rewrite (ext_nlevels _ _ X'), (ext_rlevel _ _ _ X' (proj1 Dfe)),
      (ext_rlevel _ _ _ X' (proj1 Dge)). lia. }
  assert (K1T : crun_ok C1 cget1 s (fun x' s' c' => rec1 x' s' c' ft gt')
                  (fun c0 => ceval op (cofn phi lvl 0 c0) (cofn psi lvl 0 c0))).
  { intros x' s' c' B' X' O'. apply Hok1; auto.
    - apply (denc_extends s s' _ _ B X' Dft). - apply (denc_extends s s' _ _ B X' Dgt). }
  assert (K1E : crun_ok C1 cget1 s (fun x' s' c' => rec1 x' s' c' fe ge)
                  (fun c0 => ceval op (cofn phi lvl 1 c0) (cofn psi lvl 1 c0))).
  { intros x' s' c' B' X' O'. apply Hok1; auto.
    - apply (denc_extends s s' _ _ B X' Dfe). - apply (denc_extends s s' _ _ B X' Dge). }
  split.
  - destruct (cget2 c2 (cop_code op) [f; g]) eqn:G2; [eapply cunchanged_agree_r; eauto|].
    clear R1 R2 R2s.
    apply (cjoin2_agree x _ _ _ _ s c1 c2
             (fun c0 => ceval op (cofn phi lvl 0 c0) (cofn psi lvl 0 c0))
             (fun c0 => ceval op (cofn phi lvl 1 c0) (cofn psi lvl 1 c0))); auto.
    + intros x' s' c' B' X' O'. apply Hok2; auto.
      * apply (denc_extends s s' _ _ B X' Dft). * apply (denc_extends s s' _ _ B X' Dgt).
    + intros x' s' c' B' X' O'. apply Hok2; auto.
      * apply (denc_extends s s' _ _ B X' Dfe). * apply (denc_extends s s' _ _ B X' Dge).
    + intros x' s' a0 b0 B' X' Oa' Ob'.
      apply (Hag x' s' a0 b0 ft gt' ft gt' _ _ B' Oa' Ob' (denc_extends s s' _ _ B X' Dft)
                (denc_extends s s' _ _ B X' Dgt)); [left; auto | apply Ft; exact X'].
    + intros x' s' a0 b0 B' X' Oa' Ob'.
      apply (Hag x' s' a0 b0 fe ge fe ge _ _ B' Oa' Ob' (denc_extends s s' _ _ B X' Dfe)
                (denc_extends s s' _ _ B X' Dge)); [left; auto | apply Fe; exact X'].
  - destruct (cget2 c2 (cop_code op) [g; f]) eqn:G2; [eapply cunchanged_agree_r; eauto|].
    clear R1 R2 R2s.
    apply (cjoin2_agree x _ _ _ _ s c1 c2
             (fun c0 => ceval op (cofn phi lvl 0 c0) (cofn psi lvl 0 c0))
             (fun c0 => ceval op (cofn phi lvl 1 c0) (cofn psi lvl 1 c0))); auto.
    + intros x' s' c' B' X' O'.
      apply (cresult_ok_ext C2 cget2 s' c' _ (fun c0 => ceval op (cofn psi lvl 0 c0) (cofn phi lvl 0 c0)));
        [|intros c0 _; apply ceval_comm].
      apply Hok2; auto.
      * apply (denc_extends s s' _ _ B X' Dgt). * apply (denc_extends s s' _ _ B X' Dft).
      * rewrite Nat.min_comm. apply Ft; exact X'.
    + intros x' s' c' B' X' O'.
      apply (cresult_ok_ext C2 cget2 s' c' _ (fun c0 => ceval op (cofn psi lvl 1 c0) (cofn phi lvl 1 c0)));
        [|intros c0 _; apply ceval_comm].
      apply Hok2; auto.
      * apply (denc_extends s s' _ _ B X' Dge). * apply (denc_extends s s' _ _ B X' Dfe).
      * rewrite Nat.min_comm. apply Fe; exact X'.
    + intros x' s' a0 b0 B' X' Oa' Ob'.
      apply (Hag x' s' a0 b0 ft gt' gt' ft _ _ B' Oa' Ob' (denc_extends s s' _ _ B X' Dft)
                (denc_extends s s' _ _ B X' Dgt)); [right; auto | apply Ft; exact X'].
    + intros x' s' a0 b0 B' X' Oa' Ob'.
      apply (Hag x' s' a0 b0 fe ge ge fe _ _ B' Oa' Ob' (denc_extends s s' _ _ B X' Dfe)
                (denc_extends s s' _ _ B X' Dge)); [right; auto | apply Fe; exact X'].
Qed.

Theorem capply_bin_g_agree : forall op fuel x s c1 c2 f g f' g' phi psi,
  BcOK s -> COK1 s c1 -> COK2 s c2 -> DenC s f phi -> DenC s g psi ->
  same_or_swapped f g f' g' ->
  nlevels s - Nat.min (rlevel s (eref f)) (rlevel s (eref g)) < fuel ->
  csame_out (capply_bin_g alloc lt1 C1 cget1 cadd1 fuel x s c1 op f g)
            (capply_bin_g alloc lt2 C2 cget2 cadd2 fuel x s c2 op f' g').
Proof.
  intros op. induction fuel as [|n IH]; intros x s c1 c2 f g f' g' phi psi B O1 O2 Df Dg Hsw Hfuel; [lia|].
  pose proof (capply_bin_g_ok alloc Halloc lt1 C1 cget1 cadd1 L1 op (S n) x s c1 f g phi psi B O1 Df Dg Hfuel) as R1.
  assert (R2 : ROK2 s c2 (capply_bin_g alloc lt2 C2 cget2 cadd2 (S n) x s c2 op f' g')
                    (fun c0 => ceval op (phi c0) (psi c0))).
  { destruct Hsw as [[-> ->]|[-> ->]].
    - apply (capply_bin_g_ok alloc Halloc lt2 C2 cget2 cadd2 L2 op (S n) x s c2 f g phi psi B O2 Df Dg Hfuel).
    - apply (cresult_ok_ext C2 cget2 s c2 _ (fun c0 => ceval op (psi c0) (phi c0))); [|intros c0 _; apply ceval_comm].
      apply (capply_bin_g_ok alloc Halloc lt2 C2 cget2 cadd2 L2 op (S n) x s c2 g f psi phi B O2 Dg Df). lia. }
  rewrite (capply_bin_g_S alloc lt1 C1) in *. rewrite (capply_bin_g_S alloc lt2 C2) in *.
  pose proof (cterminal_sound s op f g phi psi B Df Dg) as T1.
  destruct (cterminal s op f g) as [r|fn gn|] eqn:ET1; [eapply cunchanged_agree_l; eauto | | contradiction].
  destruct T1 as [idf [idg [Erf [Ef [Erg Eg]]]]].
  assert (Hf2 : nlevels s - Nat.min (nlevel fn) (nlevel gn) < S n)
    by (rewrite Erf, Erg, (rlevel_node s idf fn Ef), (rlevel_node s idg gn Eg) in Hfuel; exact Hfuel).
  assert (Hf2' : nlevels s - Nat.min (nlevel gn) (nlevel fn) < S n) by lia.
  pose proof (cbin_step_g_agree op n _ _
                (fun x s c f g phi psi => capply_bin_g_ok alloc Halloc lt1 C1 cget1 cadd1 L1 op n x s c f g phi psi)
                (fun x s c f g phi psi => capply_bin_g_ok alloc Halloc lt2 C2 cget2 cadd2 L2 op n x s c f g phi psi)
                IH) as ST.
  destruct (ST x s c1 c2 f idf fn g idg gn phi psi B O1 O2 Df Dg Erf Ef Erg Eg Hf2) as [Sff Sfg].
  destruct (ST x s c1 c2 g idg gn f idf fn psi phi B O1 O2 Dg Df Erg Eg Erf Ef Hf2') as [Sgg Sgf].
  clear ST.
  destruct Hsw as [[-> ->]|[-> ->]].
  - rewrite ET1. destruct (lt1 f g), (lt2 f g); assumption.
  - pose proof (cterminal_sound s op g f psi phi B Dg Df) as T2.
    destruct (cterminal s op g f) as [r|gn2 fn2|]; [eapply cunchanged_agree_r; eauto | | contradiction].
    destruct T2 as [idg2 [idf2 [Erg2 [Eg2 [Erf2 Ef2]]]]].
    rewrite Erg in Erg2. inversion Erg2; subst idg2. rewrite Erf in Erf2. inversion Erf2; subst idf2.
    rewrite Eg in Eg2. inversion Eg2; subst gn2. rewrite Ef in Ef2. inversion Ef2; subst fn2.
    destruct (lt1 f g), (lt2 g f); assumption.
Qed.

Lemma same_refl : forall a b, same_or_swapped a b a b.
Proof. intros a b. left. auto. Qed.

(** the eight public binary operators *)
Theorem capply_op_g_agree : forall o fuel x s c1 c2 f g phi psi,
  BcOK s -> COK1 s c1 -> COK2 s c2 -> DenC s f phi -> DenC s g psi ->
  nlevels s - Nat.min (rlevel s (eref f)) (rlevel s (eref g)) < fuel ->
  csame_out (capply_op_g alloc lt1 C1 cget1 cadd1 fuel x s c1 o f g)
            (capply_op_g alloc lt2 C2 cget2 cadd2 fuel x s c2 o f g).
Proof.
  intros o fuel x s c1 c2 f g phi psi B O1 O2 Df Dg Hfuel.
  pose proof (denc_not s f phi Df) as Dnf. pose proof (denc_not s g psi Dg) as Dng.
  destruct o; unfold capply_op_g; try apply csame_out_not.
  - apply (capply_bin_g_agree CAnd fuel x s c1 c2 f g f g _ _ B O1 O2 Df Dg (same_refl _ _) Hfuel).
  - apply (capply_bin_g_agree CAnd fuel x s c1 c2 (enot f) (enot g) _ _ _ _ B O1 O2 Dnf Dng (same_refl _ _) Hfuel).
  - apply (capply_bin_g_agree CXor fuel x s c1 c2 f g f g _ _ B O1 O2 Df Dg (same_refl _ _) Hfuel).
  - apply (capply_bin_g_agree CXor fuel x s c1 c2 f g f g _ _ B O1 O2 Df Dg (same_refl _ _) Hfuel).
  - apply (capply_bin_g_agree CAnd fuel x s c1 c2 f g f g _ _ B O1 O2 Df Dg (same_refl _ _) Hfuel).
  - apply (capply_bin_g_agree CAnd fuel x s c1 c2 (enot f) (enot g) _ _ _ _ B O1 O2 Dnf Dng (same_refl _ _) Hfuel).
  - apply (capply_bin_g_agree CAnd fuel x s c1 c2 f (enot g) _ _ _ _ B O1 O2 Df Dng (same_refl _ _) Hfuel).
  - apply (capply_bin_g_agree CAnd fuel x s c1 c2 (enot f) g _ _ _ _ B O1 O2 Dnf Dg (same_refl _ _) Hfuel).
Qed.

(** [apply_ite]: the step after the terminal cases *)
Lemma cite_step_g_agree : forall n
  (rec1 : sched -> snap -> C1 -> edge -> edge -> edge -> option (snap * C1 * edge))
  (rec2 : sched -> snap -> C2 -> edge -> edge -> edge -> option (snap * C2 * edge)),
  (forall x s c f g h phi psi theta, BcOK s -> COK1 s c ->
     DenC s f phi -> DenC s g psi -> DenC s h theta ->
     nlevels s - Nat.min (Nat.min (rlevel s (eref f)) (rlevel s (eref g))) (rlevel s (eref h)) < n ->
     ROK1 s c (rec1 x s c f g h) (fun c0 => if phi c0 then psi c0 else theta c0)) ->
  (forall x s c f g h phi psi theta, BcOK s -> COK2 s c ->
     DenC s f phi -> DenC s g psi -> DenC s h theta ->
     nlevels s - Nat.min (Nat.min (rlevel s (eref f)) (rlevel s (eref g))) (rlevel s (eref h)) < n ->
     ROK2 s c (rec2 x s c f g h) (fun c0 => if phi c0 then psi c0 else theta c0)) ->
  (forall x s a b f g h phi psi theta, BcOK s -> COK1 s a -> COK2 s b ->
     DenC s f phi -> DenC s g psi -> DenC s h theta ->
     nlevels s - Nat.min (Nat.min (rlevel s (eref f)) (rlevel s (eref g))) (rlevel s (eref h)) < n ->
     csame_out (rec1 x s a f g h) (rec2 x s b f g h)) ->
  forall x s c1 c2 f idf fnd g idg gnd h idh hnd phi psi theta,
    BcOK s -> COK1 s c1 -> COK2 s c2 -> DenC s f phi -> DenC s g psi -> DenC s h theta ->
    eref f = RN idf -> find_node s idf = Some fnd ->
    eref g = RN idg -> find_node s idg = Some gnd ->
    eref h = RN idh -> find_node s idh = Some hnd ->
    nlevels s - Nat.min (Nat.min (nlevel fnd) (nlevel gnd)) (nlevel hnd) < S n ->
    csame_out (cite_step_g alloc C1 cget1 cadd1 rec1 x s c1 f fnd g gnd h hnd)
              (cite_step_g alloc C2 cget2 cadd2 rec2 x s c2 f fnd g gnd h hnd).
Proof.
  intros n rec1 rec2 Hok1 Hok2 Hag x s c1 c2 f idf fnd g idg gnd h idh hnd phi psi theta
         B O1 O2 Df Dg Dh Erf Ef Erg Eg Erh Eh Hfuel.
  pose proof (cite_step_g_ok alloc Halloc C1 cget1 cadd1 L1 n rec1 Hok1 x s c1 f idf fnd g idg gnd h idh hnd
                phi psi theta B O1 Df Dg Dh Erf Ef Erg Eg Erh Eh Hfuel) as R1.
  pose proof (cite_step_g_ok alloc Halloc C2 cget2 cadd2 L2 n rec2 Hok2 x s c2 f idf fnd g idg gnd h idh hnd
                phi psi theta B O2 Df Dg Dh Erf Ef Erg Eg Erh Eh Hfuel) as R2.
  pose proof (bc_wf s B) as H.
  pose proof (wf_level s H idf fnd Ef) as Hlf. pose proof (wf_level s H idg gnd Eg) as Hlg.
  pose proof (wf_level s H idh hnd Eh) as Hlh.
  unfold cite_step_g in *.
  destruct (cget1 c1 ccode_ite [f; g; h]) eqn:G1; [eapply cunchanged_agree_l; eauto|].
  destruct (cget2 c2 ccode_ite [f; g; h]) eqn:G2; [eapply cunchanged_agree_r; eauto|].
  clear R1 R2.
  rewrite (wf_stored s H idf fnd Ef), (wf_stored s H idg gnd Eg), (wf_stored s H idh hnd Eh).
  set (lvl := Nat.min (Nat.min (nlevel fnd) (nlevel gnd)) (nlevel hnd)) in *. cbv zeta.
  destruct (ccof2_ok s f idf fnd phi lvl B Df Erf Ef ltac:(lia)) as [ft [fe [Ecf [Dft [Dfe [Lft Lfe]]]]]].
  destruct (ccof2_ok s g idg gnd psi lvl B Dg Erg Eg ltac:(lia)) as [gt' [ge [Ecg [Dgt [Dge [Lgt Lge]]]]]].
  destruct (ccof2_ok s h idh hnd theta lvl B Dh Erh Eh ltac:(lia)) as [ht [he [Ech [Dht [Dhe [Lht Lhe]]]]]].
  rewrite Ecf, Ecg, Ech.
  assert (Ft : forall s', extends s s' ->
            nlevels s' - Nat.min (Nat.min (rlevel s' (eref ft)) (rlevel s' (eref gt'))) (rlevel s' (eref ht)) < n).
  { intros s' X'. rewrite (ext_nlevels _ _ X'), (ext_rlevel _ _ _ X' (proj1 Dft)),
      (ext_rlevel _ _ _ X' (proj1 Dgt)), (ext_rlevel _ _ _ X' (proj1 Dht)). lia. }
  assert (Fe : forall s', extends s s' ->
            nlevels s' - Nat.min (Nat.min (rlevel s' (eref fe)) (rlevel s' (eref ge))) (rlevel s' (eref he)) < n).
  { intros s' X'. rewrite (ext_nlevels _ _ X'), (ext_rlevel _ _ _ X' (proj1 Dfe)),
      (ext_rlevel _ _ _ X' (proj1 Dge)), (ext_rlevel _ _ _ X' (proj1 Dhe)). lia. }
  apply (cjoin2_agree x _ _ _ _ s c1 c2
           (fun c0 => if cofn phi lvl 0 c0 then cofn psi lvl 0 c0 else cofn theta lvl 0 c0)
           (fun c0 => if cofn phi lvl 1 c0 then cofn psi lvl 1 c0 else cofn theta lvl 1 c0)); auto.
  - intros x' s' c' B' X' O'. apply Hok1; auto.
    + apply (denc_extends s s' _ _ B X' Dft). + apply (denc_extends s s' _ _ B X' Dgt).
    + apply (denc_extends s s' _ _ B X' Dht).
  - intros x' s' c' B' X' O'. apply Hok2; auto.
    + apply (denc_extends s s' _ _ B X' Dft). + apply (denc_extends s s' _ _ B X' Dgt).
    + apply (denc_extends s s' _ _ B X' Dht).
  - intros x' s' c' B' X' O'. apply Hok1; auto.
    + apply (denc_extends s s' _ _ B X' Dfe). + apply (denc_extends s s' _ _ B X' Dge).
    + apply (denc_extends s s' _ _ B X' Dhe).
  - intros x' s' c' B' X' O'. apply Hok2; auto.
    + apply (denc_extends s s' _ _ B X' Dfe). + apply (denc_extends s s' _ _ B X' Dge).
    + apply (denc_extends s s' _ _ B X' Dhe).
  - intros x' s' a0 b0 B' X' Oa' Ob'.
    apply (Hag x' s' a0 b0 ft gt' ht _ _ _ B' Oa' Ob' (denc_extends s s' _ _ B X' Dft)
              (denc_extends s s' _ _ B X' Dgt) (denc_extends s s' _ _ B X' Dht) (Ft s' X')).
  - intros x' s' a0 b0 B' X' Oa' Ob'.
    apply (Hag x' s' a0 b0 fe ge he _ _ _ B' Oa' Ob' (denc_extends s s' _ _ B X' Dfe)
              (denc_extends s s' _ _ B X' Dge) (denc_extends s s' _ _ B X' Dhe) (Fe s' X')).
Qed.

Theorem capply_ite_g_agree : forall fuel x s c1 c2 f g h phi psi theta,
  BcOK s -> COK1 s c1 -> COK2 s c2 -> DenC s f phi -> DenC s g psi -> DenC s h theta ->
  nlevels s - Nat.min (Nat.min (rlevel s (eref f)) (rlevel s (eref g))) (rlevel s (eref h)) < fuel ->
  csame_out (capply_ite_g alloc lt1 C1 cget1 cadd1 fuel x s c1 f g h)
            (capply_ite_g alloc lt2 C2 cget2 cadd2 fuel x s c2 f g h).
Proof.
  induction fuel as [|n IH]; intros x s c1 c2 f g h phi psi theta B O1 O2 Df Dg Dh Hfuel; [lia|].
  pose proof (capply_ite_g_ok alloc Halloc lt1 C1 cget1 cadd1 L1 (S n) x s c1 f g h phi psi theta
                B O1 Df Dg Dh Hfuel) as R1.
  pose proof (capply_ite_g_ok alloc Halloc lt2 C2 cget2 cadd2 L2 (S n) x s c2 f g h phi psi theta
                B O2 Df Dg Dh Hfuel) as R2.
  pose proof (denc_not s f phi Df) as Dnf. pose proof (denc_not s g psi Dg) as Dng.
  pose proof (denc_not s h theta Dh) as Dnh.
  assert (Hfg : nlevels s - Nat.min (rlevel s (eref f)) (rlevel s (eref g)) < S n) by lia.
  assert (Hfh : nlevels s - Nat.min (rlevel s (eref f)) (rlevel s (eref h)) < S n) by lia.
  pose proof (capply_bin_g_agree CXor (S n) x s c1 c2 f g f g _ _ B O1 O2 Df Dg (same_refl _ _) Hfg) as Axor.
  pose proof (capply_bin_g_agree CAnd (S n) x s c1 c2 (enot f) (enot h) _ _ _ _ B O1 O2 Dnf Dnh (same_refl _ _) Hfh) as Anfnh.
  pose proof (capply_bin_g_agree CAnd (S n) x s c1 c2 (enot f) h _ _ _ _ B O1 O2 Dnf Dh (same_refl _ _) Hfh) as Anfh.
  pose proof (capply_bin_g_agree CAnd (S n) x s c1 c2 f g _ _ _ _ B O1 O2 Df Dg (same_refl _ _) Hfg) as Afg.
  pose proof (capply_bin_g_agree CAnd (S n) x s c1 c2 f (enot g) _ _ _ _ B O1 O2 Df Dng (same_refl _ _) Hfg) as Afng.
  pose proof (csame_out_not _ _ Axor) as Anxor.
  pose proof (csame_out_not _ _ Anfnh) as Annfnh.
  pose proof (csame_out_not _ _ Afng) as Anfng.
  rewrite (capply_ite_g_S alloc lt1 C1) in *. rewrite (capply_ite_g_S alloc lt2 C2) in *.
  destruct (ref_eqb (eref g) (eref h)).
  { destruct (Bool.eqb (etag g) (etag h)); [eapply cunchanged_agree_l; eauto | exact Anxor]. }
  destruct (ref_eqb (eref f) (eref g)).
  { destruct (Bool.eqb (etag f) (etag g)); [exact Annfnh | exact Anfh]. }
  destruct (ref_eqb (eref f) (eref h)).
  { destruct (Bool.eqb (etag f) (etag h)); [exact Afg | exact Anfng]. }
  destruct (cnode s f) as [[fnd|]|] eqn:Vf; [|eapply cunchanged_agree_l; eauto|dead R1].
  destruct (cnode s g) as [[gnd|]|] eqn:Vg; destruct (cnode s h) as [[hnd|]|] eqn:Vh;
    try (dead R1);
    try (destruct (etag h); [exact Afg | exact Anfng]);
    try (destruct (etag g); [exact Anfh | exact Annfnh]).
  clear R1 R2.
  destruct (cnode_NVI s f fnd Vf) as [idf [Erf Ef]]. destruct (cnode_NVI s g gnd Vg) as [idg [Erg Eg]].
  destruct (cnode_NVI s h hnd Vh) as [idh [Erh Eh]].
  rewrite Erf, Erg, Erh, (rlevel_node s idf fnd Ef), (rlevel_node s idg gnd Eg),
          (rlevel_node s idh hnd Eh) in Hfuel.
  apply (cite_step_g_agree n _ _
           (fun x s c f g h phi psi theta => capply_ite_g_ok alloc Halloc lt1 C1 cget1 cadd1 L1 n x s c f g h phi psi theta)
           (fun x s c f g h phi psi theta => capply_ite_g_ok alloc Halloc lt2 C2 cget2 cadd2 L2 n x s c f g h phi psi theta)
           IH x s c1 c2 f idf fnd g idg gnd h idh hnd phi psi theta); auto.
Qed.

(** the same statements for arbitrary existing operands and the standard fuel *)

Theorem capply_op_g_cache_exact : forall o fuel x s c1 c2 f g,
  BcOK s -> COK1 s c1 -> COK2 s c2 -> ref_ok s (eref f) -> ref_ok s (eref g) -> S (nlevels s) <= fuel ->
  csame_out (capply_op_g alloc lt1 C1 cget1 cadd1 fuel x s c1 o f g)
            (capply_op_g alloc lt2 C2 cget2 cadd2 fuel x s c2 o f g).
Proof.
  intros o fuel x s c1 c2 f g B O1 O2 Hf Hg F.
  destruct (denc_exists s f B Hf) as [phi Df]. destruct (denc_exists s g B Hg) as [psi Dg].
  apply (capply_op_g_agree o fuel x s c1 c2 f g phi psi B O1 O2 Df Dg). lia.
Qed.

Theorem capply_ite_g_cache_exact : forall fuel x s c1 c2 f g h,
  BcOK s -> COK1 s c1 -> COK2 s c2 -> ref_ok s (eref f) -> ref_ok s (eref g) -> ref_ok s (eref h) ->
  S (nlevels s) <= fuel ->
  csame_out (capply_ite_g alloc lt1 C1 cget1 cadd1 fuel x s c1 f g h)
            (capply_ite_g alloc lt2 C2 cget2 cadd2 fuel x s c2 f g h).
Proof.
  intros fuel x s c1 c2 f g h B O1 O2 Hf Hg Hh F.
  destruct (denc_exists s f B Hf) as [phi Df]. destruct (denc_exists s g B Hg) as [psi Dg].
  destruct (denc_exists s h B Hh) as [theta Dh].
  apply (capply_ite_g_agree fuel x s c1 c2 f g h phi psi theta B O1 O2 Df Dg Dh). lia.
Qed.

End CacheExact.
