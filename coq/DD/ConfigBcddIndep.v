(** * C20x: one BCDD operation under two arbitrary configurations

    [count_reach_denc]: two well-formed BCDD tables (not renamings of each
    other): edges with the same denotation have the same node count (the
    relation "same function up to complement" on references is a bisimulation
    by canonicity of complement-edge BDDs; DD/Iso.v [count_reach_bisim]).

    [capply_*_g_config_indep]: the same operation on the same table under two
    arbitrary configurations (node store, edge order, cache implementation and
    content, schedule) succeeds in both, returns edges with the same value
    under every assignment ([semc]) and the same node count in two well-formed
    extensions of the table; and if the result function already has an edge
    in the table, both return exactly that edge and leave the table alone. *)

From Coq Require Import List NArith PArith Bool Arith Lia FMapPositive.
From OxiVerif Require Import DD.Table DD.TableProofs DD.Canon DD.CanonBcdd DD.Sem DD.Build DD.BuildProofs
  DD.PickInsert DD.Apply DD.ApplyProofs DD.ApplyBcdd DD.ApplyBcddProofs DD.ApplyBcddIte DD.Iso
  DD.ConfigApply DD.ConfigProofs DD.ConfigInsert DD.ConfigBcdd DD.ConfigBcddProofs.
Import ListNotations.

(** ** Node count is a function of the denotation *)

(** one reference cannot stand for two unrelated functions: if [r1] (with some
    tags) denotes [phi] and [phi'] in table [s1], the edges of [phi] and
    [phi'] in any other table [s2] point to the same node *)
Lemma bc_rel_fun : forall s1 s2, BcOK s2 -> forall r1 t1 t1' phi phi' e2 e2',
  DenC s1 (mkEdge r1 t1) phi -> DenC s1 (mkEdge r1 t1') phi' ->
  DenC s2 e2 phi -> DenC s2 e2' phi' -> eref e2 = eref e2'.
Proof.
  intros s1 s2 B2 r1 t1 t1' phi phi' e2 e2' D1 D1' D2 D2'.
  destruct (Bool.eqb t1 t1') eqn:Et.
  - apply bool_eqb_true in Et. subst t1'.
    assert (e2 = e2'); [|subst; reflexivity].
    apply (denc_canon s2 e2 e2' phi B2 D2). apply (denc_ext s2 e2' phi' phi D2').
    intros c Hc. apply (denc_unique s1 _ phi' phi D1' D1 c Hc).
  - apply bool_eqb_false in Et.
    assert (Hn : mkEdge r1 t1 = enot (mkEdge r1 t1')).
    { unfold enot. simpl. rewrite Et. reflexivity. }
    rewrite Hn in D1. pose proof (denc_not s1 _ phi' D1') as D1n.
    assert (enot e2' = e2); [|subst; reflexivity].
    apply (denc_canon s2 (enot e2') e2 phi B2); [|exact D2].
    apply (denc_ext s2 _ _ _ (denc_not s2 e2' phi' D2')).
    intros c Hc. symmetry. apply (denc_unique s1 _ phi _ D1 D1n c Hc).
Qed.

Section TwoTables.
Variables s1 s2 : snap.
Hypothesis B1 : BcOK s1.
Hypothesis B2 : BcOK s2.
Hypothesis Hlev : nlevels s1 = nlevels s2.

(** the two references denote the same function, up to the complement tags *)
Definition csame_den (r1 r2 : ref) : Prop :=
  exists t1 t2 phi, DenC s1 (mkEdge r1 t1) phi /\ DenC s2 (mkEdge r2 t2) phi.

Lemma csame_den_level : forall r1 r2, csame_den r1 r2 -> rlevel s1 r1 = rlevel s2 r2.
Proof.
  intros r1 r2 [t1 [t2 [phi [D1 D2]]]].
  pose proof (denc_indep s1 _ phi (bc_wf s1 B1) D1) as I1.
  pose proof (denc_indep s2 _ phi (bc_wf s2 B2) D2) as I2.
  pose proof (rlevel_le s1 (bc_wf s1 B1) r1) as L1.
  pose proof (rlevel_le s2 (bc_wf s2 B2) r2) as L2.
  simpl in I1, I2.
  pose proof (denc_level s2 _ phi (rlevel s1 r1) B2 D2 ltac:(lia) I1).
  pose proof (denc_level s1 _ phi (rlevel s2 r2) B1 D1 ltac:(lia) I2).
  simpl in *. lia.
Qed.

Lemma csame_den_bisim : bisim s1 s2 csame_den.
Proof.
  pose proof (bc_wf s1 B1) as H1. pose proof (bc_wf s2 B2) as H2.
  constructor.
  - intros r1 r2 HR. pose proof (csame_den_level r1 r2 HR) as Hl.
    destruct HR as [t1 [t2 [phi [D1 D2]]]].
    destruct r1 as [t|a], r2 as [u|b]; auto.
    + destruct (proj1 D2) as [nd E]. simpl in E. rewrite (rlevel_node s2 b nd E) in Hl. simpl in Hl.
      pose proof (wf_level s2 H2 b nd E). lia.
    + destruct (proj1 D1) as [nd E]. simpl in E. rewrite (rlevel_node s1 a nd E) in Hl. simpl in Hl.
      pose proof (wf_level s1 H1 a nd E). lia.
  - intros a b HR. pose proof (csame_den_level _ _ HR) as Hl. destruct HR as [t1 [t2 [phi [D1 D2]]]].
    destruct (proj1 D1) as [n1 E1]. destruct (proj1 D2) as [n2 E2]. simpl in E1, E2. rewrite E1, E2.
    rewrite (rlevel_node s1 a n1 E1), (rlevel_node s2 b n2 E2) in Hl.
    destruct (bcdd_children s1 a n1 B1 E1) as [x0 [x1 Ex]].
    destruct (bcdd_children s2 b n2 B2 E2) as [y0 [y1 Ey]].
    rewrite Ex, Ey. simpl.
    assert (Hx0 : nth_error (nchildren n1) 0 = Some x0) by (rewrite Ex; reflexivity).
    assert (Hx1 : nth_error (nchildren n1) 1 = Some x1) by (rewrite Ex; reflexivity).
    assert (Hy0 : nth_error (nchildren n2) 0 = Some y0) by (rewrite Ey; reflexivity).
    assert (Hy1 : nth_error (nchildren n2) 1 = Some y1) by (rewrite Ey; reflexivity).
    pose proof (denc_child s1 _ a n1 0 x0 phi B1 D1 eq_refl E1 Hx0) as Dx0.
    pose proof (denc_child s1 _ a n1 1 x1 phi B1 D1 eq_refl E1 Hx1) as Dx1.
    pose proof (denc_child s2 _ b n2 0 y0 phi B2 D2 eq_refl E2 Hy0) as Dy0.
    pose proof (denc_child s2 _ b n2 1 y1 phi B2 D2 eq_refl E2 Hy1) as Dy1.
    rewrite <- Hl in Dy0, Dy1. unfold retag in *. simpl etag in *.
    constructor; [|constructor; [|constructor]].
    + exists (xorb t1 (etag x0)), (xorb t2 (etag y0)), (cofn phi (nlevel n1) 0). auto.
    + exists (xorb t1 (etag x1)), (xorb t2 (etag y1)), (cofn phi (nlevel n1) 1). auto.
  - intros a b a' b' [t1 [t2 [phi [D1 D2]]]] [t1' [t2' [phi' [D1' D2']]]]. split; intros ->.
    + pose proof (bc_rel_fun s1 s2 B2 (RN a') t1 t1' phi phi' _ _ D1 D1' D2 D2') as Hr.
      simpl in Hr. inversion Hr; reflexivity.
    + pose proof (bc_rel_fun s2 s1 B1 (RN b') t2 t2' phi phi' _ _ D2 D2' D1 D1') as Hr.
      simpl in Hr. inversion Hr; reflexivity.
  - intros t u t' u' [t1 [t2 [phi [D1 D2]]]] [t1' [t2' [phi' [D1' D2']]]]. split; intros ->.
    + pose proof (bc_rel_fun s1 s2 B2 (RT t') t1 t1' phi phi' _ _ D1 D1' D2 D2') as Hr.
      simpl in Hr. inversion Hr; reflexivity.
    + pose proof (bc_rel_fun s2 s1 B1 (RT u') t2 t2' phi phi' _ _ D2 D2' D1 D1') as Hr.
      simpl in Hr. inversion Hr; reflexivity.
Qed.

(** same function => same node count, whatever the two tables otherwise contain *)
Theorem count_reach_denc : forall e1 e2 phi, DenC s1 e1 phi -> DenC s2 e2 phi ->
  count_reach s1 e1 = count_reach s2 e2.
Proof.
  intros e1 e2 phi D1 D2.
  apply (count_reach_bisim s1 s2 csame_den csame_den_bisim
           (wf_arity_ok s1 (bc_wf s1 B1)) (wf_arity_ok s2 (bc_wf s2 B2)) e1 e2).
  exists (etag e1), (etag e2), phi. rewrite !edge_eta. auto.
Qed.

(** the same in terms of [semc] only *)
Theorem count_reach_semc : forall e1 e2, ref_ok s1 (eref e1) -> ref_ok s2 (eref e2) ->
  (forall c0, bchoice c0 -> semc s1 (S (nlevels s1)) e1 c0 = semc s2 (S (nlevels s2)) e2 c0) ->
  count_reach s1 e1 = count_reach s2 e2.
Proof.
  intros e1 e2 O1 O2 Hsem. destruct (denc_exists s1 e1 B1 O1) as [phi D1].
  apply (count_reach_denc e1 e2 phi D1). split; [exact O2|].
  intros c0 Hc. rewrite <- (Hsem c0 Hc). apply (proj2 D1 c0 Hc).
Qed.

End TwoTables.

(** ** Two configurations *)

Section TwoCfg.
Variable alloc1 : snap -> positive.
Hypothesis Halloc1 : alloc_ok alloc1.
Variable lt1 : edge -> edge -> bool.
Variable C1 : Type.
Variable cget1 : C1 -> N -> list edge -> option edge.
Variable cadd1 : C1 -> N -> list edge -> edge -> C1.
Hypothesis L1 : lossyC cget1 cadd1.
Variable alloc2 : snap -> positive.
Hypothesis Halloc2 : alloc_ok alloc2.
Variable lt2 : edge -> edge -> bool.
Variable C2 : Type.
Variable cget2 : C2 -> N -> list edge -> option edge.
Variable cadd2 : C2 -> N -> list edge -> edge -> C2.
Hypothesis L2 : lossyC cget2 cadd2.

(** value of edge [e] under the (level-indexed) choice [c0], standard fuel *)
Definition cvalue (s : snap) (e : edge) (c0 : nat -> nat) (v : bool) : Prop :=
  semc s (S (nlevels s)) e c0 = Some v.

(** what two runs from table [s] have in common; [V c0 v] = "the result must
    have value [v] under [c0]" *)
Definition csame_obs (s : snap) (V : (nat -> nat) -> bool -> Prop)
  (res1 : option (snap * C1 * edge)) (res2 : option (snap * C2 * edge)) : Prop :=
  exists s1 c1' r1 s2 c2' r2,
    res1 = Some (s1, c1', r1) /\ res2 = Some (s2, c2', r2) /\
    BcOK s1 /\ BcOK s2 /\ extends s s1 /\ extends s s2 /\
    CacheOKC cget1 s1 c1' /\ CacheOKC cget2 s2 c2' /\
    ref_ok s1 (eref r1) /\ ref_ok s2 (eref r2) /\
    (forall c0, bchoice c0 -> exists v, V c0 v /\ cvalue s1 r1 c0 v /\ cvalue s2 r2 c0 v) /\
    count_reach s1 r1 = count_reach s2 r2 /\
    (forall r0, ref_ok s (eref r0) ->
       (forall c0, bchoice c0 -> semc s (S (nlevels s)) r0 c0 = semc s1 (S (nlevels s1)) r1 c0) ->
       s1 = s /\ s2 = s /\ r1 = r0 /\ r2 = r0).

Lemma cresults_same_obs : forall s c1 c2 res1 res2 Phi (V : (nat -> nat) -> bool -> Prop),
  cresult_ok cget1 s c1 res1 Phi -> cresult_ok cget2 s c2 res2 Phi ->
  (forall c0, bchoice c0 -> V c0 (Phi c0)) ->
  csame_obs s V res1 res2.
Proof.
  intros s c1 c2 res1 res2 Phi V
         [s1 [c1' [r1 [E1 [B1 [X1 [O1 [D1 S1]]]]]]]] [s2 [c2' [r2 [E2 [B2 [X2 [O2 [D2 S2]]]]]]]] HV.
  exists s1, c1', r1, s2, c2', r2.
  split; [exact E1|]. split; [exact E2|]. split; [exact B1|]. split; [exact B2|].
  split; [exact X1|]. split; [exact X2|]. split; [exact O1|]. split; [exact O2|].
  split; [apply (proj1 D1)|]. split; [apply (proj1 D2)|].
  split; [|split].
  - intros c0 Hc. exists (Phi c0). split; [apply HV; exact Hc|].
    split; [apply (proj2 D1 c0 Hc) | apply (proj2 D2 c0 Hc)].
  - apply (count_reach_denc s1 s2 B1 B2) with (phi := Phi); [|exact D1 | exact D2].
    rewrite (ext_nlevels _ _ X1), (ext_nlevels _ _ X2). reflexivity.
  - intros r0 O0 Hsem.
    assert (D0 : DenC s r0 Phi).
    { split; [exact O0|]. intros c0 Hc. rewrite (Hsem c0 Hc). apply (proj2 D1 c0 Hc). }
    destruct (S1 r0 D0) as [-> ->]. destruct (S2 r0 D0) as [-> ->]. auto.
Qed.

(** [not_edge] is a tag flip in every configuration: no table, no cache involved *)
Theorem capply_not_config_indep : forall s (c1 : C1) (c2 : C2) f,
  BcOK s -> CacheOKC cget1 s c1 -> CacheOKC cget2 s c2 -> ref_ok s (eref f) ->
  csame_obs s (fun c0 v => exists a, cvalue s f c0 a /\ v = negb a)
    (capply_not C1 s c1 f) (capply_not C2 s c2 f).
Proof.
  intros s c1 c2 f B O1 O2 Hf. destruct (denc_exists s f B Hf) as [phi D].
  apply (cresults_same_obs s c1 c2 _ _ (fun c0 => negb (phi c0))).
  - apply capply_not_ok; auto.
  - apply capply_not_ok; auto.
  - intros c0 Hc. exists (phi c0). split; [apply (proj2 D c0 Hc) | reflexivity].
Qed.

Theorem capply_op_g_config_indep : forall o s c1 c2 f g x1 x2 fuel1 fuel2,
  BcOK s -> CacheOKC cget1 s c1 -> CacheOKC cget2 s c2 -> ref_ok s (eref f) -> ref_ok s (eref g) ->
  S (nlevels s) <= fuel1 -> S (nlevels s) <= fuel2 ->
  csame_obs s (fun c0 v => exists a b, cvalue s f c0 a /\ cvalue s g c0 b /\ v = eval_bop o a b)
    (capply_op_g alloc1 lt1 C1 cget1 cadd1 fuel1 x1 s c1 o f g)
    (capply_op_g alloc2 lt2 C2 cget2 cadd2 fuel2 x2 s c2 o f g).
Proof.
  intros o s c1 c2 f g x1 x2 fuel1 fuel2 B O1 O2 Hf Hg F1 F2.
  destruct (denc_exists s f B Hf) as [phi Df]. destruct (denc_exists s g B Hg) as [psi Dg].
  apply (cresults_same_obs s c1 c2 _ _ (fun c0 => eval_bop o (phi c0) (psi c0))).
  - apply (capply_op_g_ok alloc1 Halloc1 lt1 C1 cget1 cadd1 L1); auto. lia.
  - apply (capply_op_g_ok alloc2 Halloc2 lt2 C2 cget2 cadd2 L2); auto. lia.
  - intros c0 Hc. exists (phi c0), (psi c0).
    split; [apply (proj2 Df c0 Hc)|]. split; [apply (proj2 Dg c0 Hc) | reflexivity].
Qed.

Theorem capply_ite_g_config_indep : forall s c1 c2 f g h x1 x2 fuel1 fuel2,
  BcOK s -> CacheOKC cget1 s c1 -> CacheOKC cget2 s c2 ->
  ref_ok s (eref f) -> ref_ok s (eref g) -> ref_ok s (eref h) ->
  S (nlevels s) <= fuel1 -> S (nlevels s) <= fuel2 ->
  csame_obs s (fun c0 v => exists a b d, cvalue s f c0 a /\ cvalue s g c0 b /\ cvalue s h c0 d /\
                                     v = if a then b else d)
    (capply_ite_g alloc1 lt1 C1 cget1 cadd1 fuel1 x1 s c1 f g h)
    (capply_ite_g alloc2 lt2 C2 cget2 cadd2 fuel2 x2 s c2 f g h).
Proof.
  intros s c1 c2 f g h x1 x2 fuel1 fuel2 B O1 O2 Hf Hg Hh F1 F2.
  destruct (denc_exists s f B Hf) as [phi Df]. destruct (denc_exists s g B Hg) as [psi Dg].
  destruct (denc_exists s h B Hh) as [theta Dh].
  apply (cresults_same_obs s c1 c2 _ _ (fun c0 => if phi c0 then psi c0 else theta c0)).
  - apply (capply_ite_g_ok alloc1 Halloc1 lt1 C1 cget1 cadd1 L1); auto. lia.
  - apply (capply_ite_g_ok alloc2 Halloc2 lt2 C2 cget2 cadd2 L2); auto. lia.
  - intros c0 Hc. exists (phi c0), (psi c0), (theta c0).
    split; [apply (proj2 Df c0 Hc)|]. split; [apply (proj2 Dg c0 Hc)|].
    split; [apply (proj2 Dh c0 Hc) | reflexivity].
Qed.

(** history independence across configurations: repeating the operation of one
    configuration in any later table, under any other configuration, returns
    the identical edge and creates nothing *)
Theorem capply_op_g_rerun : forall o s c1 f g x1 fuel1 s1 c1' r1,
  BcOK s -> CacheOKC cget1 s c1 -> ref_ok s (eref f) -> ref_ok s (eref g) -> S (nlevels s) <= fuel1 ->
  capply_op_g alloc1 lt1 C1 cget1 cadd1 fuel1 x1 s c1 o f g = Some (s1, c1', r1) ->
  forall s2 c2 x2 fuel2, BcOK s2 -> extends s1 s2 -> CacheOKC cget2 s2 c2 -> S (nlevels s2) <= fuel2 ->
  exists c2', capply_op_g alloc2 lt2 C2 cget2 cadd2 fuel2 x2 s2 c2 o f g = Some (s2, c2', r1).
Proof.
  intros o s c1 f g x1 fuel1 s1 c1' r1 B O1 Hf Hg F1 E1 s2 c2 x2 fuel2 B2 X O2 F2.
  destruct (denc_exists s f B Hf) as [phi Df]. destruct (denc_exists s g B Hg) as [psi Dg].
  destruct (capply_op_g_ok alloc1 Halloc1 lt1 C1 cget1 cadd1 L1 o fuel1 x1 s c1 f g phi psi B O1 Df Dg ltac:(lia))
    as [sa [ca [ra [Ea [Ba [Xa [_ [Da _]]]]]]]].
  rewrite E1 in Ea. inversion Ea; subst sa ca ra.
  assert (X02 : extends s s2) by (eapply extends_trans; eauto).
  pose proof (denc_extends s s2 _ _ B X02 Df) as Df2. pose proof (denc_extends s s2 _ _ B X02 Dg) as Dg2.
  destruct (capply_op_g_ok alloc2 Halloc2 lt2 C2 cget2 cadd2 L2 o fuel2 x2 s2 c2 f g phi psi B2 O2 Df2 Dg2 ltac:(lia))
    as [sb [cb [rb [Eb [_ [_ [_ [_ Sb]]]]]]]].
  destruct (Sb r1 (denc_extends s1 s2 _ _ Ba X Da)) as [-> ->].
  exists cb. exact Eb.
Qed.

End TwoCfg.

(** (c) the two evaluation orders of one join, same store / cache / edge
    order: the closure of the then-branch first and a shared cache, versus the
    closure of the else-branch first and a stale cache view for the other *)
Theorem capply_op_g_either_order : forall alloc, alloc_ok alloc ->
  forall lt C cget cadd, lossyC cget cadd ->
  forall o s (c : C) f g l r l' r' stale,
  BcOK s -> CacheOKC cget s c -> ref_ok s (eref f) -> ref_ok s (eref g) ->
  csame_obs C cget C cget s
    (fun c0 v => exists a b, cvalue s f c0 a /\ cvalue s g c0 b /\ v = eval_bop o a b)
    (capply_op_g alloc lt C cget cadd (S (nlevels s)) (SPar false false l r) s c o f g)
    (capply_op_g alloc lt C cget cadd (S (nlevels s)) (SPar true stale l' r') s c o f g).
Proof.
  intros alloc Ha lt C cget cadd L o s c f g l r l' r' stale B O Hf Hg.
  apply (capply_op_g_config_indep alloc Ha lt C cget cadd L alloc Ha lt C cget cadd L); auto.
Qed.
