(** * Correctness of the configuration-generic BCDD apply algorithms (DD/ConfigBcdd.v)

    - [cnode_step_a], [cmk_node_stable_a]: [reduce] on an arbitrary node store;
    - [cfork2_ok], [cjoin2_ok]: one fork/join step under an arbitrary schedule;
    - [capply_bin_g_ok], [capply_op_g_ok], [capply_ite_g_ok]: for every
      allocator, operand order, lossy cache and schedule the algorithms return
      a well-formed extension of the table, a correct cache and an edge
      denoting the connective of the operands' functions; if that function
      already has an edge, exactly that edge is returned and the table is
      unchanged ([cresult_ok] of DD/ApplyBcddProofs.v);
    - [capply_*_g_seq]: the instance [fresh_id] / [SSeq] is DD/ApplyBcdd.v. *)

From Coq Require Import List NArith PArith Bool Arith Lia FMapPositive.
From OxiVerif Require Import DD.Table DD.TableProofs DD.Canon DD.CanonBcdd DD.Sem DD.Build DD.BuildProofs
  DD.PickInsert DD.Apply DD.ApplyProofs DD.ApplyBcdd DD.ApplyBcddProofs DD.ApplyBcddIte
  DD.ConfigApply DD.ConfigProofs DD.ConfigInsert DD.ConfigBcdd.
Import ListNotations.

(** ** [reduce] = [cmk_node_a] *)

Section Alloc.
Variable alloc : snap -> positive.
Hypothesis Halloc : alloc_ok alloc.

Lemma cnode_step_a : forall s lvl t e P0 P1 s' h, BcOK s -> lvl < nlevels s ->
  DenC s t P0 -> DenC s e P1 -> indep P0 (S lvl) -> indep P1 (S lvl) ->
  cmk_node_a alloc s lvl t e = (s', h) ->
  BcOK s' /\ extends s s' /\
  DenC s' h (fun c => if Nat.eqb (c lvl) 0 then P0 c else P1 c).
Proof.
  intros s lvl t e P0 P1 s' h B Hl Dt De I0 I1 Hm.
  pose proof (bc_wf s B) as H. pose proof (bc_kind s B) as Hk.
  assert (Lt : S lvl <= rlevel s (eref t)) by (apply (denc_level s t P0); auto).
  assert (Le : S lvl <= rlevel s (eref e)) by (apply (denc_level s e P1); auto).
  unfold cmk_node_a in Hm. destruct (edge_eqb t e) eqn:Ete.
  - apply edge_eqb_true in Ete. subst e. inversion Hm; subst s' h.
    split; [exact B|]. split; [apply extends_refl|].
    apply (denc_ext s t P0); [exact Dt|]. intros c Hc.
    rewrite (denc_unique s t P0 P1 Dt De c Hc). destruct (Nat.eqb (c lvl) 0); reflexivity.
  - apply edge_eqb_false in Ete.
    set (tg := etag t) in *.
    set (ch := if tg then [untag t; enot e] else [t; e]).
    assert (Hm' : (let '(s1, r) := get_or_insert_a alloc s lvl ch in (s1, mkEdge (eref r) tg)) = (s', h))
      by (unfold ch; destruct tg; exact Hm).
    clear Hm.
    assert (Hlen : length ch = arity (s_kind s)) by (rewrite Hk; unfold ch; destruct tg; reflexivity).
    assert (Hce : forall x, In x ch -> ref_ok s (eref x) /\ lvl < rlevel s (eref x)).
    { intros x Hx. unfold ch in Hx. destruct tg; simpl in Hx; destruct Hx as [<-|[<-|[]]]; simpl;
        (split; [first [apply (proj1 Dt) | apply (proj1 De)] | lia]). }
    assert (Hred : reduced s ch).
    { unfold reduced. rewrite Hk. unfold ch. destruct tg eqn:Tg.
      - split; [|eexists; split; reflexivity].
        apply all_same_pair. intros A. apply Ete. inversion A as [[Er Tx]].
        apply edge_ext; [exact Er|]. fold tg. rewrite Tg. destruct (etag e); [reflexivity | discriminate].
      - split; [apply all_same_pair; exact Ete|]. exists t. split; [reflexivity | exact Tg]. }
    assert (Htags : s_kind s <> KBcdd -> forall x, In x ch -> etag x = false) by congruence.
    destruct (get_or_insert_a alloc s lvl ch) as [s1 r] eqn:Eg. inversion Hm'; subst s' h. clear Hm'.
    destruct (goi_any_a alloc Halloc s lvl ch H Hl Hlen Hce Hred Htags s1 r Eg)
      as [W' [X [[id [nd [Er [E' [El Ec]]]]] _]]].
    pose proof (bcok_extends s s1 B X W') as B'.
    split; [exact B'|]. split; [exact X|]. subst r. simpl eref.
    split; [exists nd; exact E'|]. intros c Hc.
    pose proof (Hc lvl) as Hc2.
    pose proof (denc_extends s s1 t P0 B X Dt) as Dt1.
    pose proof (denc_extends s s1 e P1 B X De) as De1.
    assert (Hch : forall i x, nth_error ch i = Some x -> c lvl = i ->
              semc s1 (S (nlevels s1)) (mkEdge (RN id) tg) c
              = option_map (xorb tg) (semc s1 (S (nlevels s1)) x c)).
    { intros i x Hx Hi. apply (semc_node s1 id nd tg c x W' E'). rewrite El, Ec, Hi. exact Hx. }
    destruct (c lvl) as [|[|k]] eqn:Ecl; [| |lia]; simpl Nat.eqb; cbv iota.
    + unfold ch in Hch. destruct tg eqn:Tg.
      * rewrite (Hch 0 (untag t) eq_refl eq_refl).
        replace (untag t) with (retag true t)
          by (unfold retag, untag; fold tg; rewrite Tg; reflexivity).
        rewrite semc_retag, (proj2 Dt1 c Hc). simpl. destruct (P0 c); reflexivity.
      * rewrite (Hch 0 t eq_refl eq_refl), (proj2 Dt1 c Hc). simpl. destruct (P0 c); reflexivity.
    + unfold ch in Hch. destruct tg eqn:Tg.
      * rewrite (Hch 1 (enot e) eq_refl eq_refl).
        rewrite semc_enot, (proj2 De1 c Hc). simpl. destruct (P1 c); reflexivity.
      * rewrite (Hch 1 e eq_refl eq_refl), (proj2 De1 c Hc). simpl. destruct (P1 c); reflexivity.
Qed.

(** if the function to be built already has an edge, [cmk_node_a] returns it
    and leaves the table alone *)
Lemma cmk_node_stable_a : forall s lvl t e P0 P1 s' h r0, BcOK s -> lvl < nlevels s ->
  DenC s t P0 -> DenC s e P1 -> indep P0 (S lvl) -> indep P1 (S lvl) ->
  cmk_node_a alloc s lvl t e = (s', h) ->
  DenC s r0 (fun c => if Nat.eqb (c lvl) 0 then P0 c else P1 c) ->
  s' = s /\ h = r0.
Proof.
  intros s lvl t e P0 P1 s' h r0 B Hl Dt De I0 I1 Hm D0.
  destruct (cnode_step_a s lvl t e P0 P1 s' h B Hl Dt De I0 I1 Hm) as [B' [X Dh]].
  assert (Eh : h = r0) by (apply (denc_canon s' _ _ _ B' Dh (denc_extends s s' _ _ B X D0))).
  split; [|exact Eh].
  unfold cmk_node_a in Hm. destruct (edge_eqb t e); [inversion Hm; reflexivity|].
  assert (Hgoi : forall ch tg, (let '(s1, r) := get_or_insert_a alloc s lvl ch in (s1, mkEdge (eref r) tg)) = (s', h) ->
            s' = s).
  { intros ch tg Hg. unfold get_or_insert_a in Hg.
    destruct (find_dup s lvl ch); inversion Hg as [[Es Ehh]]; [reflexivity|].
    exfalso. rewrite <- Eh, <- Ehh in D0. destruct (proj1 D0) as [nd En]. simpl in En.
    rewrite Halloc in En. discriminate. }
  destruct (etag t); eapply Hgoi; exact Hm.
Qed.

End Alloc.

(** ** One fork/join step under an arbitrary schedule *)

Section Gen.
Variable alloc : snap -> positive.
Hypothesis Halloc : alloc_ok alloc.
Variable lt : edge -> edge -> bool.
Variable C : Type.
Variable cget : C -> N -> list edge -> option edge.
Variable cadd : C -> N -> list edge -> edge -> C.
Hypothesis Hlossy : lossyC cget cadd.

Notation ROK := (cresult_ok cget).
Notation COK := (CacheOKC cget).

(** a closure of the recursion computes [P] in every later state of table [s]
    (whatever other closures added in the meantime, whatever the cache holds),
    under every schedule *)
Definition crun_ok (s : snap) (run : sched -> snap -> C -> option (snap * C * edge))
  (P : (nat -> nat) -> bool) : Prop :=
  forall x s' c', BcOK s' -> extends s s' -> COK s' c' -> ROK s' c' (run x s' c') P.

Lemma cfork2_ok : forall x runT runE s c P0 P1,
  BcOK s -> COK s c -> crun_ok s runT P0 -> crun_ok s runE P1 ->
  exists s2 c2 t e, cfork2 C x runT runE s c = Some (s2, c2, t, e) /\
    BcOK s2 /\ extends s s2 /\ COK s2 c2 /\ DenC s2 t P0 /\ DenC s2 e P1 /\
    (forall q0 q1, DenC s q0 P0 -> DenC s q1 P1 -> s2 = s /\ t = q0 /\ e = q1).
Proof.
  intros x runT runE s c P0 P1 B O HT HE. unfold cfork2. destruct (sch_swap x).
  - destruct (HE (sch_r x) s c B (extends_refl s) O) as [s1 [c1 [e [E1 [B1 [X1 [O1 [D1 S1]]]]]]]].
    rewrite E1.
    assert (Oc : COK s1 (if sch_stale x then c else c1))
      by (destruct (sch_stale x); [apply (ccacheok_extends C cget s s1 c B X1 O) | exact O1]).
    destruct (HT (sch_l x) s1 _ B1 X1 Oc) as [s2 [c2 [t [E2 [B2 [X2 [O2 [D2 S2]]]]]]]].
    rewrite E2. exists s2, c2, t, e.
    split; [reflexivity|]. split; [exact B2|]. split; [eapply extends_trans; eauto|].
    split; [exact O2|]. split; [exact D2|]. split; [apply (denc_extends s1 s2 _ _ B1 X2 D1)|].
    intros q0 q1 Dq0 Dq1. destruct (S1 q1 Dq1) as [-> ->]. destruct (S2 q0 Dq0) as [-> ->]. auto.
  - destruct (HT (sch_l x) s c B (extends_refl s) O) as [s1 [c1 [t [E1 [B1 [X1 [O1 [D1 S1]]]]]]]].
    rewrite E1.
    assert (Oc : COK s1 (if sch_stale x then c else c1))
      by (destruct (sch_stale x); [apply (ccacheok_extends C cget s s1 c B X1 O) | exact O1]).
    destruct (HE (sch_r x) s1 _ B1 X1 Oc) as [s2 [c2 [e [E2 [B2 [X2 [O2 [D2 S2]]]]]]]].
    rewrite E2. exists s2, c2, t, e.
    split; [reflexivity|]. split; [exact B2|]. split; [eapply extends_trans; eauto|].
    split; [exact O2|]. split; [apply (denc_extends s1 s2 _ _ B1 X2 D1)|]. split; [exact D2|].
    intros q0 q1 Dq0 Dq1. destruct (S1 q0 Dq0) as [-> ->]. destruct (S2 q1 Dq1) as [-> ->]. auto.
Qed.

Lemma cjoin2_ok : forall x runT runE s c lvl code args Phi,
  BcOK s -> COK s c -> lvl < nlevels s -> indep Phi lvl ->
  crun_ok s runT (cofn Phi lvl 0) -> crun_ok s runE (cofn Phi lvl 1) ->
  (forall s3 r, BcOK s3 -> extends s s3 -> DenC s3 r Phi -> centry_ok s3 code args r) ->
  ROK s c (cjoin2 alloc C cadd x runT runE s c lvl code args) Phi.
Proof.
  intros x runT runE s c lvl code args Phi B O Hlvl I HT HE Hent. unfold cjoin2.
  destruct (cfork2_ok x runT runE s c _ _ B O HT HE)
    as [s2 [c2 [t [e [Ef [B2 [X2 [O2 [Dt [De Sf]]]]]]]]]].
  rewrite Ef. destruct (cmk_node_a alloc s2 lvl t e) as [s3 h] eqn:Em.
  assert (I0 : indep (cofn Phi lvl 0) (S lvl)) by (apply (indep_cofn Phi lvl lvl 0 I); lia).
  assert (I1 : indep (cofn Phi lvl 1) (S lvl)) by (apply (indep_cofn Phi lvl lvl 1 I); lia).
  assert (Hl2 : lvl < nlevels s2) by (rewrite (ext_nlevels _ _ X2); exact Hlvl).
  destruct (cnode_step_a alloc Halloc s2 lvl t e _ _ s3 h B2 Hl2 Dt De I0 I1 Em) as [B3 [X3 Dh]].
  assert (X03 : extends s s3) by (eapply extends_trans; eauto).
  assert (Heq : forall c0, bchoice c0 ->
            (if Nat.eqb (c0 lvl) 0 then cofn Phi lvl 0 c0 else cofn Phi lvl 1 c0) = Phi c0).
  { intros c0 Hc. rewrite (shannon_pick c0 lvl (fun i => cofn Phi lvl i c0) Hc).
    apply cofn_self; assumption. }
  assert (Dres : DenC s3 h Phi) by (apply (denc_ext _ _ _ _ Dh Heq)).
  exists s3, (cadd c2 code args h), h.
  split; [reflexivity|]. split; [exact B3|]. split; [exact X03|].
  split; [|split; [exact Dres|]].
  { apply (ccacheok_add C cget cadd Hlossy); [apply (ccacheok_extends C cget s2 s3 c2 B2 X3 O2)|].
    apply Hent; assumption. }
  intros r0 D0.
  assert (L0 : lvl <= rlevel s (eref r0)) by (apply (denc_level s r0 Phi lvl B D0 ltac:(lia) I)).
  destruct (denc_cof_exists s r0 _ lvl 0 B D0 L0 Hlvl ltac:(lia)) as [q0 Dq0].
  destruct (denc_cof_exists s r0 _ lvl 1 B D0 L0 Hlvl ltac:(lia)) as [q1 Dq1].
  destruct (Sf q0 q1 Dq0 Dq1) as [-> [-> ->]].
  apply (cmk_node_stable_a alloc Halloc s lvl q0 q1 _ _ s3 h r0 B Hlvl Dt De I0 I1 Em).
  apply (denc_ext s r0 _ _ D0). intros c0 Hc. symmetry. apply Heq. exact Hc.
Qed.

(** ** [apply_bin] *)

Lemma cbin_step_g_ok : forall op n (rec : sched -> snap -> C -> edge -> edge -> option (snap * C * edge)),
  (forall x s c f g phi psi, BcOK s -> COK s c -> DenC s f phi -> DenC s g psi ->
     nlevels s - Nat.min (rlevel s (eref f)) (rlevel s (eref g)) < n ->
     ROK s c (rec x s c f g) (fun c0 => ceval op (phi c0) (psi c0))) ->
  forall x s c f idf fnd g idg gnd phi psi,
    BcOK s -> COK s c -> DenC s f phi -> DenC s g psi ->
    eref f = RN idf -> find_node s idf = Some fnd ->
    eref g = RN idg -> find_node s idg = Some gnd ->
    nlevels s - Nat.min (nlevel fnd) (nlevel gnd) < S n ->
    ROK s c (cbin_step_g alloc C cget cadd rec x s c op f fnd g gnd)
        (fun c0 => ceval op (phi c0) (psi c0)).
Proof.
  intros op n rec IH x s c f idf fnd g idg gnd phi psi B O Df Dg Erf Ef Erg Eg Hfuel.
  pose proof (bc_wf s B) as H.
  pose proof (wf_level s H idf fnd Ef) as Hlf. pose proof (wf_level s H idg gnd Eg) as Hlg.
  unfold cbin_step_g.
  destruct (cget c (cop_code op) [f; g]) as [h|] eqn:Ec.
  - destruct (O _ _ _ Ec op eq_refl) as [pa [pb [Da [Db Dh]]]].
    apply cresult_ok_here; auto. apply (denc_ext s h _ _ Dh). intros c0 Hc.
    rewrite (denc_unique s _ pa phi Da Df c0 Hc), (denc_unique s _ pb psi Db Dg c0 Hc). reflexivity.
  - rewrite (wf_stored s H idf fnd Ef), (wf_stored s H idg gnd Eg).
    set (lvl := Nat.min (nlevel fnd) (nlevel gnd)) in *. cbv zeta.
    destruct (ccof2_ok s f idf fnd phi lvl B Df Erf Ef ltac:(lia)) as [ft [fe [Ecf [Dft [Dfe [Lft Lfe]]]]]].
    destruct (ccof2_ok s g idg gnd psi lvl B Dg Erg Eg ltac:(lia)) as [gt' [ge [Ecg [Dgt [Dge [Lgt Lge]]]]]].
    rewrite Ecf, Ecg.
    assert (Hlvl : lvl < nlevels s) by lia.
    assert (Ip : indep phi (nlevel fnd)).
    { rewrite <- (rlevel_node s idf fnd Ef), <- Erf. apply (denc_indep s _ phi H Df). }
    assert (Iq : indep psi (nlevel gnd)).
    { rewrite <- (rlevel_node s idg gnd Eg), <- Erg. apply (denc_indep s _ psi H Dg). }
    apply cjoin2_ok; auto.
    + intros u v Hu Hv Euv. f_equal.
      * apply (indep_mono phi _ lvl Ip ltac:(lia)); auto.
      * apply (indep_mono psi _ lvl Iq ltac:(lia)); auto.
    + intros x' s' c' B' X' O'.
      apply (IH x' s' c' ft gt' (cofn phi lvl 0) (cofn psi lvl 0) B' O'
                (denc_extends s s' _ _ B X' Dft) (denc_extends s s' _ _ B X' Dgt)).
      rewrite (ext_nlevels _ _ X'), (ext_rlevel _ _ _ X' (proj1 Dft)), (ext_rlevel _ _ _ X' (proj1 Dgt)). lia.
    + intros x' s' c' B' X' O'.
      apply (IH x' s' c' fe ge (cofn phi lvl 1) (cofn psi lvl 1) B' O'
                (denc_extends s s' _ _ B X' Dfe) (denc_extends s s' _ _ B X' Dge)).
      rewrite (ext_nlevels _ _ X'), (ext_rlevel _ _ _ X' (proj1 Dfe)), (ext_rlevel _ _ _ X' (proj1 Dge)). lia.
    + intros s3 r B3 X3 Dr o Ho. apply cop_code_inj in Ho. subst o.
      exists phi, psi. split; [apply (denc_extends s s3 _ _ B X3 Df)|].
      split; [apply (denc_extends s s3 _ _ B X3 Dg) | exact Dr].
Qed.

Lemma capply_bin_g_S : forall n x s c op f g,
  capply_bin_g alloc lt C cget cadd (S n) x s c op f g =
  match cterminal s op f g with
  | KFail => None
  | KDone h => Some (s, c, h)
  | KNodes fnode gnode =>
    if lt f g then cbin_step_g alloc C cget cadd
                     (fun x' s' c' f' g' => capply_bin_g alloc lt C cget cadd n x' s' c' op f' g') x s c op f fnode g gnode
    else cbin_step_g alloc C cget cadd
           (fun x' s' c' f' g' => capply_bin_g alloc lt C cget cadd n x' s' c' op f' g') x s c op g gnode f fnode
  end.
Proof. reflexivity. Qed.

Theorem capply_bin_g_ok : forall op fuel x s c f g phi psi,
  BcOK s -> COK s c -> DenC s f phi -> DenC s g psi ->
  nlevels s - Nat.min (rlevel s (eref f)) (rlevel s (eref g)) < fuel ->
  ROK s c (capply_bin_g alloc lt C cget cadd fuel x s c op f g)
      (fun c0 => ceval op (phi c0) (psi c0)).
Proof.
  intros op. induction fuel as [|n IH]; intros x s c f g phi psi B O Df Dg Hfuel; [lia|].
  rewrite capply_bin_g_S.
  pose proof (cterminal_sound s op f g phi psi B Df Dg) as T.
  destruct (cterminal s op f g) as [r|fn gn|]; [| |contradiction].
  - apply cresult_ok_here; auto.
  - destruct T as [idf [idg [Erf [Ef [Erg Eg]]]]].
    rewrite Erf, Erg, (rlevel_node s idf fn Ef), (rlevel_node s idg gn Eg) in Hfuel.
    destruct (lt f g).
    + apply (cbin_step_g_ok op n _ IH x s c f idf fn g idg gn phi psi); auto.
    + apply (cresult_ok_ext C cget s c _ (fun c0 => ceval op (psi c0) (phi c0))).
      * apply (cbin_step_g_ok op n _ IH x s c g idg gn f idf fn psi phi); auto. lia.
      * intros c0 _. apply ceval_comm.
Qed.

(** ** The eight binary operators *)

Theorem capply_op_g_ok : forall o fuel x s c f g phi psi,
  BcOK s -> COK s c -> DenC s f phi -> DenC s g psi ->
  nlevels s - Nat.min (rlevel s (eref f)) (rlevel s (eref g)) < fuel ->
  ROK s c (capply_op_g alloc lt C cget cadd fuel x s c o f g)
      (fun c0 => eval_bop o (phi c0) (psi c0)).
Proof.
  intros o fuel x s c f g phi psi B O Df Dg Hfuel.
  pose proof (denc_not s f phi Df) as Dnf. pose proof (denc_not s g psi Dg) as Dng.
  Local Ltac ttg phi psi := let c0 := fresh "c0" in intros c0 _; cbv beta; destruct (phi c0); destruct (psi c0); reflexivity.
  destruct o; unfold capply_op_g.
  - apply (cresult_ok_ext C cget s c _ _ _ (capply_bin_g_ok CAnd fuel x s c f g phi psi B O Df Dg Hfuel)). ttg phi psi.
  - apply (cresult_ok_ext C cget s c _ _ _
             (cresult_ok_not C cget s c _ _ (capply_bin_g_ok CAnd fuel x s c (enot f) (enot g) _ _ B O Dnf Dng Hfuel))).
    ttg phi psi.
  - apply (cresult_ok_ext C cget s c _ _ _ (capply_bin_g_ok CXor fuel x s c f g phi psi B O Df Dg Hfuel)). ttg phi psi.
  - apply (cresult_ok_ext C cget s c _ _ _
             (cresult_ok_not C cget s c _ _ (capply_bin_g_ok CXor fuel x s c f g phi psi B O Df Dg Hfuel))).
    ttg phi psi.
  - apply (cresult_ok_ext C cget s c _ _ _
             (cresult_ok_not C cget s c _ _ (capply_bin_g_ok CAnd fuel x s c f g phi psi B O Df Dg Hfuel))).
    ttg phi psi.
  - apply (cresult_ok_ext C cget s c _ _ _ (capply_bin_g_ok CAnd fuel x s c (enot f) (enot g) _ _ B O Dnf Dng Hfuel)).
    ttg phi psi.
  - apply (cresult_ok_ext C cget s c _ _ _
             (cresult_ok_not C cget s c _ _ (capply_bin_g_ok CAnd fuel x s c f (enot g) _ _ B O Df Dng Hfuel))).
    ttg phi psi.
  - apply (cresult_ok_ext C cget s c _ _ _ (capply_bin_g_ok CAnd fuel x s c (enot f) g _ _ B O Dnf Dg Hfuel)).
    ttg phi psi.
Qed.

(** ** [apply_ite] *)

Lemma cite_step_g_ok : forall n (rec : sched -> snap -> C -> edge -> edge -> edge -> option (snap * C * edge)),
  (forall x s c f g h phi psi theta, BcOK s -> COK s c ->
     DenC s f phi -> DenC s g psi -> DenC s h theta ->
     nlevels s - Nat.min (Nat.min (rlevel s (eref f)) (rlevel s (eref g))) (rlevel s (eref h)) < n ->
     ROK s c (rec x s c f g h) (fun c0 => if phi c0 then psi c0 else theta c0)) ->
  forall x s c f idf fnd g idg gnd h idh hnd phi psi theta,
    BcOK s -> COK s c -> DenC s f phi -> DenC s g psi -> DenC s h theta ->
    eref f = RN idf -> find_node s idf = Some fnd ->
    eref g = RN idg -> find_node s idg = Some gnd ->
    eref h = RN idh -> find_node s idh = Some hnd ->
    nlevels s - Nat.min (Nat.min (nlevel fnd) (nlevel gnd)) (nlevel hnd) < S n ->
    ROK s c (cite_step_g alloc C cget cadd rec x s c f fnd g gnd h hnd)
        (fun c0 => if phi c0 then psi c0 else theta c0).
Proof.
  intros n rec IH x s c f idf fnd g idg gnd h idh hnd phi psi theta B O Df Dg Dh
    Erf Ef Erg Eg Erh Eh Hfuel.
  pose proof (bc_wf s B) as H.
  pose proof (wf_level s H idf fnd Ef) as Hlf. pose proof (wf_level s H idg gnd Eg) as Hlg.
  pose proof (wf_level s H idh hnd Eh) as Hlh.
  unfold cite_step_g.
  destruct (cget c ccode_ite [f; g; h]) as [r|] eqn:Ec.
  - destruct (O _ _ _ Ec eq_refl) as [pa [pb [pc [Da [Db [Dc Dr]]]]]].
    apply cresult_ok_here; auto. apply (denc_ext s r _ _ Dr). intros c0 Hc.
    rewrite (denc_unique s _ pa phi Da Df c0 Hc), (denc_unique s _ pb psi Db Dg c0 Hc),
            (denc_unique s _ pc theta Dc Dh c0 Hc). reflexivity.
  - rewrite (wf_stored s H idf fnd Ef), (wf_stored s H idg gnd Eg), (wf_stored s H idh hnd Eh).
    set (lvl := Nat.min (Nat.min (nlevel fnd) (nlevel gnd)) (nlevel hnd)) in *. cbv zeta.
    destruct (ccof2_ok s f idf fnd phi lvl B Df Erf Ef ltac:(lia)) as [ft [fe [Ecf [Dft [Dfe [Lft Lfe]]]]]].
    destruct (ccof2_ok s g idg gnd psi lvl B Dg Erg Eg ltac:(lia)) as [gt' [ge [Ecg [Dgt [Dge [Lgt Lge]]]]]].
    destruct (ccof2_ok s h idh hnd theta lvl B Dh Erh Eh ltac:(lia)) as [ht [he [Ech [Dht [Dhe [Lht Lhe]]]]]].
    rewrite Ecf, Ecg, Ech.
    assert (Hlvl : lvl < nlevels s) by lia.
    assert (Ip : indep phi (nlevel fnd)).
    { rewrite <- (rlevel_node s idf fnd Ef), <- Erf. apply (denc_indep s _ phi H Df). }
    assert (Iq : indep psi (nlevel gnd)).
    { rewrite <- (rlevel_node s idg gnd Eg), <- Erg. apply (denc_indep s _ psi H Dg). }
    assert (Ir : indep theta (nlevel hnd)).
    { rewrite <- (rlevel_node s idh hnd Eh), <- Erh. apply (denc_indep s _ theta H Dh). }
    apply cjoin2_ok; auto.
    + intros u v Hu Hv Euv.
      rewrite (indep_mono phi _ lvl Ip ltac:(lia) u v Hu Hv Euv).
      rewrite (indep_mono psi _ lvl Iq ltac:(lia) u v Hu Hv Euv).
      rewrite (indep_mono theta _ lvl Ir ltac:(lia) u v Hu Hv Euv). reflexivity.
    + intros x' s' c' B' X' O'.
      apply (IH x' s' c' ft gt' ht (cofn phi lvl 0) (cofn psi lvl 0) (cofn theta lvl 0) B' O'
                (denc_extends s s' _ _ B X' Dft) (denc_extends s s' _ _ B X' Dgt)
                (denc_extends s s' _ _ B X' Dht)).
      rewrite (ext_nlevels _ _ X'), (ext_rlevel _ _ _ X' (proj1 Dft)),
              (ext_rlevel _ _ _ X' (proj1 Dgt)), (ext_rlevel _ _ _ X' (proj1 Dht)). lia.
    + intros x' s' c' B' X' O'.
      apply (IH x' s' c' fe ge he (cofn phi lvl 1) (cofn psi lvl 1) (cofn theta lvl 1) B' O'
                (denc_extends s s' _ _ B X' Dfe) (denc_extends s s' _ _ B X' Dge)
                (denc_extends s s' _ _ B X' Dhe)).
      rewrite (ext_nlevels _ _ X'), (ext_rlevel _ _ _ X' (proj1 Dfe)),
              (ext_rlevel _ _ _ X' (proj1 Dge)), (ext_rlevel _ _ _ X' (proj1 Dhe)). lia.
    + intros s3 r B3 X3 Dr _. exists phi, psi, theta.
      split; [apply (denc_extends s s3 _ _ B X3 Df)|].
      split; [apply (denc_extends s s3 _ _ B X3 Dg)|].
      split; [apply (denc_extends s s3 _ _ B X3 Dh) | exact Dr].
Qed.

Lemma capply_ite_g_S : forall n x s c f g h,
  capply_ite_g alloc lt C cget cadd (S n) x s c f g h =
    if ref_eqb (eref g) (eref h) then
      if Bool.eqb (etag g) (etag h) then Some (s, c, g)
      else onot C (capply_bin_g alloc lt C cget cadd (S n) x s c CXor f g)
    else if ref_eqb (eref f) (eref g) then
      if Bool.eqb (etag f) (etag g) then onot C (capply_bin_g alloc lt C cget cadd (S n) x s c CAnd (enot f) (enot h))
      else capply_bin_g alloc lt C cget cadd (S n) x s c CAnd (enot f) h
    else if ref_eqb (eref f) (eref h) then
      if Bool.eqb (etag f) (etag h) then capply_bin_g alloc lt C cget cadd (S n) x s c CAnd f g
      else onot C (capply_bin_g alloc lt C cget cadd (S n) x s c CAnd f (enot g))
    else
      match cnode s f with
      | None => None
      | Some NVT => Some (s, c, if etag f then h else g)
      | Some (NVI fnode) =>
        match cnode s g, cnode s h with
        | Some (NVI gnode), Some (NVI hnode) =>
          cite_step_g alloc C cget cadd
                      (fun x' s' c' f' g' h' => capply_ite_g alloc lt C cget cadd n x' s' c' f' g' h')
                      x s c f fnode g gnode h hnode
        | Some NVT, Some (NVI _) =>
          if etag g then capply_bin_g alloc lt C cget cadd (S n) x s c CAnd (enot f) h
          else onot C (capply_bin_g alloc lt C cget cadd (S n) x s c CAnd (enot f) (enot h))
        | Some _, Some NVT =>
          if etag h then capply_bin_g alloc lt C cget cadd (S n) x s c CAnd f g
          else onot C (capply_bin_g alloc lt C cget cadd (S n) x s c CAnd f (enot g))
        | _, _ => None
        end
      end.
Proof. reflexivity. Qed.

Local Ltac pw3 phi psi theta :=
  let c0 := fresh "c0" in let Hc := fresh "Hc" in
  intros c0 Hc; cbv beta;
  repeat match goal with
         | Hx : forall c, bchoice c -> _ = _ |- _ => pose proof (Hx c0 Hc); clear Hx
         end;
  destruct (phi c0); destruct (psi c0); destruct (theta c0); simpl in *; congruence.

Theorem capply_ite_g_ok : forall fuel x s c f g h phi psi theta,
  BcOK s -> COK s c -> DenC s f phi -> DenC s g psi -> DenC s h theta ->
  nlevels s - Nat.min (Nat.min (rlevel s (eref f)) (rlevel s (eref g))) (rlevel s (eref h)) < fuel ->
  ROK s c (capply_ite_g alloc lt C cget cadd fuel x s c f g h)
      (fun c0 => if phi c0 then psi c0 else theta c0).
Proof.
  induction fuel as [|n IH]; intros x s c f g h phi psi theta B O Df Dg Dh Hfuel; [lia|].
  pose proof (denc_not s f phi Df) as Dnf. pose proof (denc_not s g psi Dg) as Dng.
  pose proof (denc_not s h theta Dh) as Dnh.
  assert (Hfg : nlevels s - Nat.min (rlevel s (eref f)) (rlevel s (eref g)) < S n) by lia.
  assert (Hfh : nlevels s - Nat.min (rlevel s (eref f)) (rlevel s (eref h)) < S n) by lia.
  pose proof (capply_bin_g_ok CXor (S n) x s c f g phi psi B O Df Dg Hfg) as Rxor.
  pose proof (capply_bin_g_ok CAnd (S n) x s c (enot f) (enot h) _ _ B O Dnf Dnh Hfh) as Rnfnh.
  pose proof (capply_bin_g_ok CAnd (S n) x s c (enot f) h _ _ B O Dnf Dh Hfh) as Rnfh.
  pose proof (capply_bin_g_ok CAnd (S n) x s c f g _ _ B O Df Dg Hfg) as Rfg.
  pose proof (capply_bin_g_ok CAnd (S n) x s c f (enot g) _ _ B O Df Dng Hfg) as Rfng.
  pose proof (cresult_ok_not C cget _ _ _ _ Rxor) as Rnxor.
  pose proof (cresult_ok_not C cget _ _ _ _ Rnfnh) as Rnnfnh.
  pose proof (cresult_ok_not C cget _ _ _ _ Rfng) as Rnfng.
  cbv beta in *.
  assert (Fsame : forall a b pa pb, DenC s a pa -> DenC s b pb -> eref a = eref b -> etag a = etag b ->
            forall c0, bchoice c0 -> pa c0 = pb c0).
  { intros a b pa pb Da Db Er Et. assert (a = b) by (apply edge_ext; assumption). subst b.
    apply (denc_unique s a pa pb Da Db). }
  assert (Fopp : forall a b pa pb, DenC s a pa -> DenC s b pb -> eref a = eref b -> etag a = negb (etag b) ->
            forall c0, bchoice c0 -> pa c0 = negb (pb c0)).
  { intros a b pa pb Da Db Er Et. assert (a = enot b) by (apply edge_ext; simpl; assumption). subst a.
    apply (denc_unique s (enot b) pa _ Da (denc_not s b pb Db)). }
  assert (Fterm : forall a pa, DenC s a pa -> cnode s a = Some NVT ->
            forall c0, bchoice c0 -> pa c0 = negb (etag a)).
  { intros a pa Da V. destruct (cnode_NVT s a V) as [t Et]. apply (denc_term s a t pa Da Et). }
  rewrite capply_ite_g_S.
  destruct (ref_eqb (eref g) (eref h)) eqn:Egh.
  { apply ref_eqb_true in Egh. destruct (Bool.eqb (etag g) (etag h)) eqn:Tgh.
    - apply bool_eqb_true in Tgh. pose proof (Fsame g h psi theta Dg Dh Egh Tgh) as U.
      apply cresult_ok_here; auto. apply (denc_ext s g psi); [exact Dg|]. clear Fsame Fopp Fterm. pw3 phi psi theta.
    - apply bool_eqb_false in Tgh. pose proof (Fopp g h psi theta Dg Dh Egh Tgh) as U.
      apply (cresult_ok_ext C cget s c _ _ _ Rnxor). clear Fsame Fopp Fterm. pw3 phi psi theta. }
  destruct (ref_eqb (eref f) (eref g)) eqn:Efg.
  { apply ref_eqb_true in Efg. destruct (Bool.eqb (etag f) (etag g)) eqn:Tfg.
    - apply bool_eqb_true in Tfg. pose proof (Fsame f g phi psi Df Dg Efg Tfg) as U.
      apply (cresult_ok_ext C cget s c _ _ _ Rnnfnh). clear Fsame Fopp Fterm. pw3 phi psi theta.
    - apply bool_eqb_false in Tfg. pose proof (Fopp f g phi psi Df Dg Efg Tfg) as U.
      apply (cresult_ok_ext C cget s c _ _ _ Rnfh). clear Fsame Fopp Fterm. pw3 phi psi theta. }
  destruct (ref_eqb (eref f) (eref h)) eqn:Efh.
  { apply ref_eqb_true in Efh. destruct (Bool.eqb (etag f) (etag h)) eqn:Tfh.
    - apply bool_eqb_true in Tfh. pose proof (Fsame f h phi theta Df Dh Efh Tfh) as U.
      apply (cresult_ok_ext C cget s c _ _ _ Rfg). clear Fsame Fopp Fterm. pw3 phi psi theta.
    - apply bool_eqb_false in Tfh. pose proof (Fopp f h phi theta Df Dh Efh Tfh) as U.
      apply (cresult_ok_ext C cget s c _ _ _ Rnfng). clear Fsame Fopp Fterm. pw3 phi psi theta. }
  clear Fsame Fopp.
  destruct (cnode_total s f (proj1 Df)) as [vf Vf].
  destruct (cnode_total s g (proj1 Dg)) as [vg Vg].
  destruct (cnode_total s h (proj1 Dh)) as [vh Vh].
  rewrite Vf. destruct vf as [fnd|].
  2:{ pose proof (Fterm f phi Df Vf) as U. clear Fterm.
      apply cresult_ok_here; auto. destruct (etag f) eqn:Tf.
      - apply (denc_ext s h theta); [exact Dh|]. pw3 phi psi theta.
      - apply (denc_ext s g psi); [exact Dg|]. pw3 phi psi theta. }
  rewrite Vg, Vh. destruct vg as [gnd|], vh as [hnd|].
  - clear Fterm.
    destruct (cnode_NVI s f fnd Vf) as [idf [Erf Ef]]. destruct (cnode_NVI s g gnd Vg) as [idg [Erg Eg]].
    destruct (cnode_NVI s h hnd Vh) as [idh [Erh Eh]].
    rewrite Erf, Erg, Erh, (rlevel_node s idf fnd Ef), (rlevel_node s idg gnd Eg),
            (rlevel_node s idh hnd Eh) in Hfuel.
    apply (cite_step_g_ok n _ IH x s c f idf fnd g idg gnd h idh hnd phi psi theta); auto.
  - pose proof (Fterm h theta Dh Vh) as U. clear Fterm. destruct (etag h) eqn:Th.
    + apply (cresult_ok_ext C cget s c _ _ _ Rfg). pw3 phi psi theta.
    + apply (cresult_ok_ext C cget s c _ _ _ Rnfng). pw3 phi psi theta.
  - pose proof (Fterm g psi Dg Vg) as U. clear Fterm. destruct (etag g) eqn:Tg.
    + apply (cresult_ok_ext C cget s c _ _ _ Rnfh). pw3 phi psi theta.
    + apply (cresult_ok_ext C cget s c _ _ _ Rnnfnh). pw3 phi psi theta.
  - pose proof (Fterm h theta Dh Vh) as U. pose proof (Fterm g psi Dg Vg) as U'. clear Fterm.
    destruct (etag h) eqn:Th.
    + apply (cresult_ok_ext C cget s c _ _ _ Rfg). pw3 phi psi theta.
    + apply (cresult_ok_ext C cget s c _ _ _ Rnfng). pw3 phi psi theta.
Qed.

End Gen.

(** ** The sequential configuration with [fresh_id] is the model of DD/ApplyBcdd.v *)

Lemma cmk_node_a_fresh : forall s lvl t e, cmk_node_a fresh_id s lvl t e = cmk_node s lvl t e.
Proof. reflexivity. Qed.

Section Seq.
Variable lt : edge -> edge -> bool.
Variable C : Type.
Variable cget : C -> N -> list edge -> option edge.
Variable cadd : C -> N -> list edge -> edge -> C.

Lemma cjoin2_seq : forall runT runE runT' runE' s c lvl code args,
  (forall s' c', runT SSeq s' c' = runT' s' c') -> (forall s' c', runE SSeq s' c' = runE' s' c') ->
  cjoin2 fresh_id C cadd SSeq runT runE s c lvl code args =
  match runT' s c with
  | None => None
  | Some (s1, c1, t) =>
    match runE' s1 c1 with
    | None => None
    | Some (s2, c2, e) =>
      let '(s3, h) := cmk_node s2 lvl t e in
      Some (s3, cadd c2 code args h, h)
    end
  end.
Proof.
  intros runT runE runT' runE' s c lvl code args HT HE. unfold cjoin2, cfork2. simpl.
  rewrite HT. destruct (runT' s c) as [[[s1 c1] t]|]; [|reflexivity].
  rewrite HE. destruct (runE' s1 c1) as [[[s2 c2] e]|]; reflexivity.
Qed.

Lemma cbin_step_g_seq : forall rec rec', (forall s c f g, rec SSeq s c f g = rec' s c f g) ->
  forall s c op f fn g gn,
  cbin_step_g fresh_id C cget cadd rec SSeq s c op f fn g gn = cbin_step C cget cadd rec' s c op f fn g gn.
Proof.
  intros rec rec' Hr s c op f fn g gn. unfold cbin_step_g, cbin_step.
  destruct (cget c (cop_code op) [f; g]); [reflexivity|]. cbv zeta.
  destruct (ccof2 f fn _) as [[ft fe]|]; [|reflexivity].
  destruct (ccof2 g gn _) as [[gt' ge]|]; [|reflexivity].
  apply (cjoin2_seq _ _ (fun s' c' => rec' s' c' ft gt') (fun s' c' => rec' s' c' fe ge)); intros; apply Hr.
Qed.

Theorem capply_bin_g_seq : forall fuel s c op f g,
  capply_bin_g fresh_id lt C cget cadd fuel SSeq s c op f g = capply_bin lt C cget cadd fuel s c op f g.
Proof.
  induction fuel as [|n IH]; intros s c op f g; [reflexivity|].
  rewrite capply_bin_g_S, capply_bin_S. destruct (cterminal s op f g) as [r|fn gn|]; try reflexivity.
  destruct (lt f g); apply cbin_step_g_seq; intros; apply IH.
Qed.

Theorem capply_op_g_seq : forall fuel s c o f g,
  capply_op_g fresh_id lt C cget cadd fuel SSeq s c o f g = capply_op lt C cget cadd fuel s c o f g.
Proof.
  intros fuel s c o f g. destruct o; unfold capply_op_g, capply_op; rewrite capply_bin_g_seq; reflexivity.
Qed.

Lemma cite_step_g_seq : forall rec rec', (forall s c f g h, rec SSeq s c f g h = rec' s c f g h) ->
  forall s c f fn g gn h hn,
  cite_step_g fresh_id C cget cadd rec SSeq s c f fn g gn h hn = cite_step C cget cadd rec' s c f fn g gn h hn.
Proof.
  intros rec rec' Hr s c f fn g gn h hn. unfold cite_step_g, cite_step.
  destruct (cget c ccode_ite [f; g; h]); [reflexivity|]. cbv zeta.
  destruct (ccof2 f fn _) as [[ft fe]|]; [|reflexivity].
  destruct (ccof2 g gn _) as [[gt' ge]|]; [|reflexivity].
  destruct (ccof2 h hn _) as [[ht he]|]; [|reflexivity].
  apply (cjoin2_seq _ _ (fun s' c' => rec' s' c' ft gt' ht) (fun s' c' => rec' s' c' fe ge he)); intros; apply Hr.
Qed.

Theorem capply_ite_g_seq : forall fuel s c f g h,
  capply_ite_g fresh_id lt C cget cadd fuel SSeq s c f g h = capply_ite lt C cget cadd fuel s c f g h.
Proof.
  induction fuel as [|n IH]; intros s c f g h; [reflexivity|].
  rewrite capply_ite_g_S, (capply_ite_S lt C cget cadd). rewrite !capply_bin_g_seq.
  destruct (ref_eqb (eref g) (eref h)); [reflexivity|].
  destruct (ref_eqb (eref f) (eref g)); [reflexivity|].
  destruct (ref_eqb (eref f) (eref h)); [reflexivity|].
  destruct (cnode s f) as [[fn|]|]; try reflexivity.
  destruct (cnode s g) as [[gn|]|], (cnode s h) as [[hn|]|]; try reflexivity.
  apply cite_step_g_seq. intros; apply IH.
Qed.

Lemma cmk_var_a_fresh : forall s v neg, cmk_var_a fresh_id s v neg = cmk_var s v neg.
Proof. reflexivity. Qed.

End Seq.
