(** * C20x: whole API-call histories of a BCDD manager under two arbitrary configurations

    The BCDD counterpart of DD/ConfigRun.v, for [cmstep] / [crun_ops] of
    DD/ConfigBcdd.v (handles are complement-tagged edges):

    - [csim s1 s2]: both tables are well-formed BCDD tables with the same
      variable order, hold the same handle slots, and the two edges of every
      slot denote the same function; no node id of one table is compared with
      a node id of the other;
    - [cmstep_sim] / [crun_ops_sim]: every API call and hence every history
      preserves [csim], whatever the two configurations are; the two runs fail
      together;
    - [csim_observe]: under [csim] the observables agree (slots, value of every
      handle under every choice, node count, variable order), both tables
      satisfy [wf_b];
    - [crun_ops_cache_exact]: configurations that differ in the apply cache and
      the edge order only end with the identical table. *)

From Coq Require Import List NArith PArith Bool Arith Lia FMapPositive.
From OxiVerif Require Import DD.Table DD.TableProofs DD.Canon DD.CanonBcdd DD.Sem DD.Build DD.BuildProofs
  DD.PickInsert DD.Apply DD.ApplyProofs DD.ApplyBcdd DD.ApplyBcddProofs DD.ApplyBcddIte DD.ApplyBcddEval DD.Iso
  DD.ConfigApply DD.ConfigProofs DD.ConfigInsert DD.ConfigBcdd DD.ConfigBcddProofs DD.ConfigBcddCache
  DD.ConfigBcddIndep.
Import ListNotations.

(** ** Changing the handle list *)

Lemma semc_set_handles : forall s hs f e c, semc (set_handles s hs) f e c = semc s f e c.
Proof.
  intros s hs. induction f as [|f IH]; intros e c.
  - destruct (eref e) as [t|id] eqn:Er.
    + rewrite !(semc_T _ _ _ _ t Er). reflexivity.
    + rewrite !(semc_O _ _ _ id Er). reflexivity.
  - destruct (eref e) as [t|id] eqn:Er.
    + rewrite !(semc_T _ _ _ _ t Er). reflexivity.
    + rewrite !(semc_S _ _ _ _ id Er). change (find_node (set_handles s hs) id) with (find_node s id).
      destruct (find_node s id) as [nd|]; [|reflexivity].
      destruct (nth_error (nchildren nd) (c (nlevel nd))) as [x|]; [|reflexivity].
      rewrite IH. reflexivity.
Qed.

Lemma denc_set_handles : forall s hs e phi, DenC s e phi -> DenC (set_handles s hs) e phi.
Proof.
  intros s hs e phi [A D]. split; [exact A|]. intros c Hc. rewrite semc_set_handles. exact (D c Hc).
Qed.

Lemma bcok_set_handles : forall s hs, BcOK s ->
  (forall h, In h hs -> ref_ok s (eref (snd h))) -> BcOK (set_handles s hs).
Proof.
  intros s hs B Hh. constructor.
  - apply wf_set_handles; [apply (bc_wf s B)|]. intros h Hin. split; [apply Hh; exact Hin|].
    intros Hk. exfalso. apply Hk. apply (bc_kind s B).
  - exact (bc_kind s B).
  - exact (bc_term s B).
Qed.

Lemma centry_ok_set_handles : forall s hs code args r,
  centry_ok s code args r -> centry_ok (set_handles s hs) code args r.
Proof.
  intros s hs code args r. unfold centry_ok.
  destruct args as [|f [|g [|h [|x rest]]]]; auto.
  - intros Hx o Hc. destruct (Hx o Hc) as [phi [psi [A [A' D]]]]. exists phi, psi.
    split; [|split]; apply denc_set_handles; assumption.
  - intros Hx Hc. destruct (Hx Hc) as [phi [psi [theta [A [A' [A'' D]]]]]]. exists phi, psi, theta.
    split; [|split; [|split]]; apply denc_set_handles; assumption.
Qed.

Lemma ccacheok_set_handles : forall C (cget : C -> N -> list edge -> option edge) s hs c,
  CacheOKC cget s c -> CacheOKC cget (set_handles s hs) c.
Proof. intros C cget s hs c O code args r E. apply centry_ok_set_handles. apply (O _ _ _ E). Qed.

Lemma bc_handle_ok : forall s h, BcOK s -> In h (s_handles s) -> ref_ok s (eref (snd h)).
Proof. intros s h B Hin. apply (wf_handles s (bc_wf s B) h Hin). Qed.

Lemma bcok_put : forall s d e, BcOK s -> ref_ok s (eref e) -> BcOK (cput s d e).
Proof.
  intros s d e B Hr. apply bcok_set_handles; [exact B|].
  intros h [<-|Hin]; [exact Hr|]. apply (bc_handle_ok s h B). eapply hdel_In_x; eauto.
Qed.

Lemma bcok_drop : forall s d, BcOK s -> BcOK (set_handles s (hdel (s_handles s) d)).
Proof.
  intros s d B. apply bcok_set_handles; [exact B|].
  intros h Hin. apply (bc_handle_ok s h B). eapply hdel_In_x; eauto.
Qed.

(** ** The simulation relation *)

(** same slot, edges denoting the same function *)
Definition chrel (s1 s2 : snap) (h1 h2 : N * edge) : Prop :=
  fst h1 = fst h2 /\ exists phi, DenC s1 (snd h1) phi /\ DenC s2 (snd h2) phi.

Record csim (s1 s2 : snap) : Prop := mkCSim {
  csim_b1 : BcOK s1;
  csim_b2 : BcOK s2;
  csim_v2l : s_v2l s1 = s_v2l s2;
  csim_l2v : s_l2v s1 = s_l2v s2;
  csim_h : Forall2 (chrel s1 s2) (s_handles s1) (s_handles s2)
}.

Lemma csim_nlevels : forall s1 s2, csim s1 s2 -> nlevels s1 = nlevels s2.
Proof. intros s1 s2 S. unfold nlevels. rewrite (csim_l2v _ _ S). reflexivity. Qed.

Definition denc_mono (s s' : snap) : Prop := forall e phi, DenC s e phi -> DenC s' e phi.

Lemma denc_mono_put : forall s s' d r, BcOK s -> extends s s' -> denc_mono s (cput s' d r).
Proof. intros s s' d r B X q phi D. apply denc_set_handles. apply (denc_extends s s' _ _ B X D). Qed.

Lemma chget_rel : forall s1 s2 hs1 hs2 k, Forall2 (chrel s1 s2) hs1 hs2 ->
  match hget hs1 k, hget hs2 k with
  | Some e1, Some e2 => exists phi, DenC s1 e1 phi /\ DenC s2 e2 phi
  | None, None => True
  | _, _ => False
  end.
Proof.
  intros s1 s2 hs1 hs2 k HF. induction HF as [|[a x] [b y] r1 r2 Hh Hr IH]; simpl; [exact I|].
  destruct Hh as [A Hd]. simpl in A. subst b.
  destruct (N.eqb a k); [exact Hd | exact IH].
Qed.

Lemma chdel_rel : forall s1 s2 hs1 hs2 k, Forall2 (chrel s1 s2) hs1 hs2 ->
  Forall2 (chrel s1 s2) (hdel hs1 k) (hdel hs2 k).
Proof.
  intros s1 s2 hs1 hs2 k HF. induction HF as [|x y r1 r2 Hh Hr IH]; simpl; [constructor|].
  pose proof Hh as [A _]. rewrite <- A.
  destruct (negb (N.eqb (fst x) k)); [constructor; assumption | exact IH].
Qed.

Lemma forall2_chrel_mono : forall s1 s2 s1' s2' hs1 hs2, denc_mono s1 s1' -> denc_mono s2 s2' ->
  Forall2 (chrel s1 s2) hs1 hs2 -> Forall2 (chrel s1' s2') hs1 hs2.
Proof.
  intros s1 s2 s1' s2' hs1 hs2 M1 M2 HF.
  induction HF as [|x y r1 r2 [A [phi [D1 D2]]] Hr IH]; constructor; [|exact IH].
  split; [exact A|]. exists phi. auto.
Qed.

Lemma cput_sim : forall s1 s2 s1' s2' d r1 r2 phi,
  csim s1 s2 -> BcOK s1' -> BcOK s2' -> extends s1 s1' -> extends s2 s2' ->
  DenC s1' r1 phi -> DenC s2' r2 phi ->
  csim (cput s1' d r1) (cput s2' d r2).
Proof.
  intros s1 s2 s1' s2' d r1 r2 phi S B1' B2' X1 X2 D1 D2.
  pose proof (denc_mono_put s1 s1' d r1 (csim_b1 _ _ S) X1) as M1.
  pose proof (denc_mono_put s2 s2' d r2 (csim_b2 _ _ S) X2) as M2.
  constructor.
  - apply bcok_put; [exact B1' | apply (proj1 D1)].
  - apply bcok_put; [exact B2' | apply (proj1 D2)].
  - simpl. rewrite (ext_v2l _ _ X1), (ext_v2l _ _ X2). apply (csim_v2l _ _ S).
  - simpl. rewrite (ext_l2v _ _ X1), (ext_l2v _ _ X2). apply (csim_l2v _ _ S).
  - simpl. unfold hset. constructor.
    + split; [reflexivity|]. exists phi. simpl. split; apply denc_set_handles; assumption.
    + rewrite (ext_handles _ _ X1), (ext_handles _ _ X2).
      apply chdel_rel. apply (forall2_chrel_mono s1 s2 _ _ _ _ M1 M2). apply (csim_h _ _ S).
Qed.

Lemma cdrop_sim : forall s1 s2 d, csim s1 s2 ->
  csim (set_handles s1 (hdel (s_handles s1) d)) (set_handles s2 (hdel (s_handles s2) d)).
Proof.
  intros s1 s2 d S. constructor.
  - apply bcok_drop. apply (csim_b1 _ _ S).
  - apply bcok_drop. apply (csim_b2 _ _ S).
  - apply (csim_v2l _ _ S).
  - apply (csim_l2v _ _ S).
  - simpl. apply chdel_rel.
    apply (forall2_chrel_mono s1 s2 _ _ _ _
             (fun r phi D => denc_set_handles s1 _ r phi D) (fun r phi D => denc_set_handles s2 _ r phi D)).
    apply (csim_h _ _ S).
Qed.

(** ** Observables ([observe] of DD/ConfigApply.v: slot, [sem_edge], [count_reach]; variable order) *)

Theorem csim_observe : forall s1 s2, csim s1 s2 ->
  forall c, bchoice c -> observe s1 c = observe s2 c.
Proof.
  intros s1 s2 S c Hc. unfold observe. f_equal; [|apply (csim_v2l _ _ S)].
  pose proof (csim_h _ _ S) as HF.
  induction HF as [|h1 h2 r1 r2 Hh Hr IH]; [reflexivity|]. simpl. f_equal; [|exact IH].
  destruct Hh as [A [phi [D1 D2]]]. unfold obs_handle.
  rewrite A, (sem_edge_bcdd s1 _ c (bc_kind s1 (csim_b1 _ _ S))), (sem_edge_bcdd s2 _ c (bc_kind s2 (csim_b2 _ _ S))).
  unfold CFUEL. rewrite (proj2 D1 c Hc), (proj2 D2 c Hc). f_equal.
  apply (count_reach_denc s1 s2 (csim_b1 _ _ S) (csim_b2 _ _ S) (csim_nlevels _ _ S) _ _ phi D1 D2).
Qed.

Theorem csim_wf_b : forall s1 s2, csim s1 s2 -> wf_b s1 = true /\ wf_b s2 = true.
Proof.
  intros s1 s2 S. split; apply wf_b_spec; [apply (bc_wf _ (csim_b1 _ _ S)) | apply (bc_wf _ (csim_b2 _ _ S))].
Qed.

(** ** Variables on an arbitrary node store (cf. [cmk_var_sem]) *)

Theorem cmk_var_a_sem : forall alloc, alloc_ok alloc ->
  forall s v neg lvl, BcOK s -> nth_error (s_v2l s) v = Some lvl ->
  exists s' r, cmk_var_a alloc s v neg = Some (s', r) /\
    BcOK s' /\ extends s s' /\ DenC s' r (fun c => xorb neg (Nat.eqb (c lvl) 0)).
Proof.
  intros alloc Halloc s v neg lvl B E1. pose proof (bc_wf s B) as H.
  assert (Hv' : v < length (s_v2l s)) by (apply nth_error_Some; congruence).
  destruct (wf_perm_v2l s H v Hv') as [lvl' [E1' E2]]. rewrite E1 in E1'. inversion E1'; subst lvl'.
  assert (Hlvl : lvl < nlevels s) by (unfold nlevels; apply nth_error_Some; congruence).
  destruct (cget_terminal_den s true B) as [t [Et Dt]].
  destruct (cget_terminal_den s false B) as [f [Ef Df]].
  unfold cmk_var_a. rewrite E1, Et, Ef.
  assert (Htf : t <> f).
  { intros ->. pose proof (denc_unique s f _ _ Dt Df (fun _ => 0) ltac:(intros l; simpl; lia)). discriminate. }
  assert (Tt : etag t = false).
  { unfold cget_terminal in Et. destruct (bc_term_id s); inversion Et. reflexivity. }
  assert (Hmk : cmk_node_a alloc s lvl t f =
                (let '(s', r) := get_or_insert_a alloc s lvl [t; f] in (s', mkEdge (eref r) false))).
  { unfold cmk_node_a. destruct (edge_eqb t f) eqn:Eq; [apply edge_eqb_true in Eq; contradiction|].
    rewrite Tt. reflexivity. }
  destruct (get_or_insert_a alloc s lvl [t; f]) as [s' r] eqn:Eg.
  assert (I1 : indep (fun _ : nat -> nat => true) (S lvl)) by (intros x y _ _ _; reflexivity).
  assert (I0 : indep (fun _ : nat -> nat => false) (S lvl)) by (intros x y _ _ _; reflexivity).
  destruct (cnode_step_a alloc Halloc s lvl t f _ _ s' _ B Hlvl Dt Df I1 I0 Hmk) as [B' [X D]].
  exists s', (mkEdge (eref r) neg). split; [reflexivity|].
  split; [exact B'|]. split; [exact X|].
  replace (mkEdge (eref r) neg) with (retag neg (mkEdge (eref r) false))
    by (unfold retag; simpl; destruct neg; reflexivity).
  apply (denc_ext s' _ _ _ (denc_retag s' _ _ neg D)).
  intros c _. cbv beta. destruct (Nat.eqb (c lvl) 0); reflexivity.
Qed.

Lemma cmk_var_a_none : forall alloc s v neg, nth_error (s_v2l s) v = None -> cmk_var_a alloc s v neg = None.
Proof. intros alloc s v neg E. unfold cmk_var_a. rewrite E. reflexivity. Qed.

(** ** Two configurations *)

Section TwoConfigs.
Variable alloc1 : snap -> positive.
Hypothesis Halloc1 : alloc_ok alloc1.
Variable lt1 : edge -> edge -> bool.
Variable C1 : Type.
Variable cget1 : C1 -> N -> list edge -> option edge.
Variable cadd1 : C1 -> N -> list edge -> edge -> C1.
Hypothesis L1 : lossyC cget1 cadd1.
Variable sch1 : nat -> sched.
Variable alloc2 : snap -> positive.
Hypothesis Halloc2 : alloc_ok alloc2.
Variable lt2 : edge -> edge -> bool.
Variable C2 : Type.
Variable cget2 : C2 -> N -> list edge -> option edge.
Variable cadd2 : C2 -> N -> list edge -> edge -> C2.
Hypothesis L2 : lossyC cget2 cadd2.
Variable sch2 : nat -> sched.

Notation step1 := (cmstep alloc1 lt1 C1 cget1 cadd1 sch1).
Notation step2 := (cmstep alloc2 lt2 C2 cget2 cadd2 sch2).

(** the invariant of a pair of runs *)
Definition cmsim (st1 : cmstate C1) (st2 : cmstate C2) : Prop :=
  csim (cm_snap C1 st1) (cm_snap C2 st2) /\
  CacheOKC cget1 (cm_snap C1 st1) (cm_cache C1 st1) /\
  CacheOKC cget2 (cm_snap C2 st2) (cm_cache C2 st2).

Definition ocmsim (o1 : option (cmstate C1)) (o2 : option (cmstate C2)) : Prop :=
  match o1, o2 with
  | Some a, Some b => cmsim a b
  | None, None => True
  | _, _ => False
  end.

Lemma cresult_sim : forall s1 s2 c1 c2 res1 res2 Phi d k1 k2,
  csim s1 s2 ->
  cresult_ok cget1 s1 c1 res1 Phi -> cresult_ok cget2 s2 c2 res2 Phi ->
  ocmsim (match res1 with Some (s', c', r) => Some (mkCM C1 (cput s' d r) c' k1) | None => None end)
         (match res2 with Some (s', c', r) => Some (mkCM C2 (cput s' d r) c' k2) | None => None end).
Proof.
  intros s1 s2 c1 c2 res1 res2 Phi d k1 k2 S
         [sa [ca [ra [Ea [Ba [Xa [Oa [Da _]]]]]]]] [sb [cb [rb [Eb [Bb [Xb [Ob [Db _]]]]]]]].
  subst res1 res2. simpl. split; [|split].
  - apply (cput_sim s1 s2 sa sb d ra rb Phi S Ba Bb Xa Xb Da Db).
  - apply ccacheok_set_handles. exact Oa.
  - apply ccacheok_set_handles. exact Ob.
Qed.

Theorem cmstep_sim : forall st1 st2 o, cmsim st1 st2 -> ocmsim (step1 st1 o) (step2 st2 o).
Proof.
  intros [s1 c1 k1] [s2 c2 k2] o [HS [O1 O2]]. simpl in HS, O1, O2.
  pose proof (csim_b1 _ _ HS) as B1. pose proof (csim_b2 _ _ HS) as B2.
  destruct o as [d b|d v neg|d a|d op a b|d a b e|d a|d]; unfold cmstep; cbn [cm_snap cm_cache cm_step].
  - (* const *)
    destruct (cmk_const_sem s1 b B1) as [t1 [E1 D1]]. destruct (cmk_const_sem s2 b B2) as [t2 [E2 D2]].
    rewrite E1, E2. simpl. split; [|split].
    + apply (cput_sim s1 s2 s1 s2 d _ _ (fun _ => b) HS B1 B2 (extends_refl _) (extends_refl _) D1 D2).
    + apply ccacheok_set_handles. exact O1.
    + apply ccacheok_set_handles. exact O2.
  - (* var *)
    destruct (nth_error (s_v2l s1) v) as [lvl|] eqn:Ev.
    + assert (Ev2 : nth_error (s_v2l s2) v = Some lvl) by (rewrite <- (csim_v2l _ _ HS); exact Ev).
      destruct (cmk_var_a_sem alloc1 Halloc1 s1 v neg lvl B1 Ev) as [sa [ra [Ea [Ba [Xa Da]]]]].
      destruct (cmk_var_a_sem alloc2 Halloc2 s2 v neg lvl B2 Ev2) as [sb [rb [Eb [Bb [Xb Db]]]]].
      rewrite Ea, Eb. simpl. split; [|split].
      * apply (cput_sim s1 s2 sa sb d ra rb _ HS Ba Bb Xa Xb Da Db).
      * apply ccacheok_set_handles. apply (ccacheok_extends C1 cget1 s1 sa c1 B1 Xa O1).
      * apply ccacheok_set_handles. apply (ccacheok_extends C2 cget2 s2 sb c2 B2 Xb O2).
    + assert (Ev2 : nth_error (s_v2l s2) v = None) by (rewrite <- (csim_v2l _ _ HS); exact Ev).
      rewrite (cmk_var_a_none alloc1 s1 v neg Ev), (cmk_var_a_none alloc2 s2 v neg Ev2). exact I.
  - (* not: the tag flip *)
    pose proof (chget_rel s1 s2 _ _ a (csim_h _ _ HS)) as Ha.
    destruct (hget (s_handles s1) a) as [ea1|], (hget (s_handles s2) a) as [ea2|]; try contradiction; [|exact I].
    destruct Ha as [phi [Da1 Da2]]. simpl. split; [|split].
    + apply (cput_sim s1 s2 s1 s2 d _ _ (fun c0 => negb (phi c0)) HS B1 B2 (extends_refl _) (extends_refl _)
               (denc_not s1 _ _ Da1) (denc_not s2 _ _ Da2)).
    + apply ccacheok_set_handles. exact O1.
    + apply ccacheok_set_handles. exact O2.
  - (* bin *)
    pose proof (chget_rel s1 s2 _ _ a (csim_h _ _ HS)) as Ha.
    pose proof (chget_rel s1 s2 _ _ b (csim_h _ _ HS)) as Hb.
    destruct (hget (s_handles s1) a) as [ea1|], (hget (s_handles s2) a) as [ea2|]; try contradiction; [|exact I].
    destruct (hget (s_handles s1) b) as [eb1|], (hget (s_handles s2) b) as [eb2|]; try contradiction; [|exact I].
    destruct Ha as [phi [Da1 Da2]]. destruct Hb as [psi [Db1 Db2]].
    apply (cresult_sim s1 s2 c1 c2 _ _ (fun c0 => eval_bop op (phi c0) (psi c0)) d (Datatypes.S k1) (Datatypes.S k2) HS).
    + apply (capply_op_g_ok alloc1 Halloc1 lt1 C1 cget1 cadd1 L1); auto. lia.
    + apply (capply_op_g_ok alloc2 Halloc2 lt2 C2 cget2 cadd2 L2); auto. lia.
  - (* ite *)
    pose proof (chget_rel s1 s2 _ _ a (csim_h _ _ HS)) as Ha.
    pose proof (chget_rel s1 s2 _ _ b (csim_h _ _ HS)) as Hb.
    pose proof (chget_rel s1 s2 _ _ e (csim_h _ _ HS)) as He.
    destruct (hget (s_handles s1) a) as [ea1|], (hget (s_handles s2) a) as [ea2|]; try contradiction; [|exact I].
    destruct (hget (s_handles s1) b) as [eb1|], (hget (s_handles s2) b) as [eb2|]; try contradiction; [|exact I].
    destruct (hget (s_handles s1) e) as [ee1|], (hget (s_handles s2) e) as [ee2|]; try contradiction; [|exact I].
    destruct Ha as [phi [Da1 Da2]]. destruct Hb as [psi [Db1 Db2]]. destruct He as [theta [De1 De2]].
    apply (cresult_sim s1 s2 c1 c2 _ _ (fun c0 => if phi c0 then psi c0 else theta c0) d (Datatypes.S k1) (Datatypes.S k2) HS).
    + apply (capply_ite_g_ok alloc1 Halloc1 lt1 C1 cget1 cadd1 L1); auto. lia.
    + apply (capply_ite_g_ok alloc2 Halloc2 lt2 C2 cget2 cadd2 L2); auto. lia.
  - (* clone *)
    pose proof (chget_rel s1 s2 _ _ a (csim_h _ _ HS)) as Ha.
    destruct (hget (s_handles s1) a) as [ea1|], (hget (s_handles s2) a) as [ea2|]; try contradiction; [|exact I].
    destruct Ha as [phi [Da1 Da2]]. simpl. split; [|split].
    + apply (cput_sim s1 s2 s1 s2 d _ _ phi HS B1 B2 (extends_refl _) (extends_refl _) Da1 Da2).
    + apply ccacheok_set_handles. exact O1.
    + apply ccacheok_set_handles. exact O2.
  - (* drop *)
    simpl. split; [|split].
    + apply cdrop_sim. exact HS.
    + apply ccacheok_set_handles. exact O1.
    + apply ccacheok_set_handles. exact O2.
Qed.

Theorem crun_ops_sim : forall ops st1 st2, cmsim st1 st2 ->
  ocmsim (crun_ops alloc1 lt1 C1 cget1 cadd1 sch1 st1 ops) (crun_ops alloc2 lt2 C2 cget2 cadd2 sch2 st2 ops).
Proof.
  unfold crun_ops.
  assert (G : forall ops o1 o2, ocmsim o1 o2 ->
            ocmsim (fold_left (costep alloc1 lt1 C1 cget1 cadd1 sch1) ops o1)
                   (fold_left (costep alloc2 lt2 C2 cget2 cadd2 sch2) ops o2)).
  { induction ops as [|o ops IH]; intros o1 o2 Hs; [exact Hs|]. simpl. apply IH.
    destruct o1 as [a|], o2 as [b|]; simpl in *; try contradiction; [apply cmstep_sim; exact Hs | exact I]. }
  intros ops st1 st2 Hs. apply G. exact Hs.
Qed.

(** the client-visible content: the two runs fail together, and if they succeed
    the final tables are well-formed and every observable agrees *)
Theorem crun_ops_observe : forall ops st1 st2, cmsim st1 st2 ->
  match crun_ops alloc1 lt1 C1 cget1 cadd1 sch1 st1 ops, crun_ops alloc2 lt2 C2 cget2 cadd2 sch2 st2 ops with
  | Some a, Some b =>
    wf_b (cm_snap C1 a) = true /\ wf_b (cm_snap C2 b) = true /\
    forall c, bchoice c -> observe (cm_snap C1 a) c = observe (cm_snap C2 b) c
  | None, None => True
  | _, _ => False
  end.
Proof.
  intros ops st1 st2 Hs. pose proof (crun_ops_sim ops st1 st2 Hs) as R.
  destruct (crun_ops alloc1 lt1 C1 cget1 cadd1 sch1 st1 ops) as [a|],
           (crun_ops alloc2 lt2 C2 cget2 cadd2 sch2 st2 ops) as [b|]; simpl in R; try contradiction; [|exact I].
  destruct R as [S _]. destruct (csim_wf_b _ _ S) as [W1 W2].
  split; [exact W1|]. split; [exact W2|]. apply csim_observe. exact S.
Qed.

End TwoConfigs.

(** a table is related to itself *)
Lemma csim_refl : forall s, BcOK s -> csim s s.
Proof.
  intros s B. constructor; auto.
  assert (G : forall hs, (forall h, In h hs -> In h (s_handles s)) -> Forall2 (chrel s s) hs hs).
  { induction hs as [|h r IH]; intros Hin; constructor.
    - pose proof (bc_handle_ok s h B (Hin h (or_introl eq_refl))) as A.
      destruct (denc_exists s _ B A) as [phi D].
      split; [reflexivity|]. exists phi. auto.
    - apply IH. intros x Hx. apply Hin. right. exact Hx. }
  apply G. auto.
Qed.

(** ** Cache enabled / disabled / any other cache: identical tables for whole histories *)

Section CacheRun.
Variable alloc : snap -> positive.
Hypothesis Halloc : alloc_ok alloc.
Variable sch : nat -> sched.
Variables lt1 lt2 : edge -> edge -> bool.
Variables C1 C2 : Type.
Variable cget1 : C1 -> N -> list edge -> option edge.
Variable cadd1 : C1 -> N -> list edge -> edge -> C1.
Variable cget2 : C2 -> N -> list edge -> option edge.
Variable cadd2 : C2 -> N -> list edge -> edge -> C2.
Hypothesis L1 : lossyC cget1 cadd1.
Hypothesis L2 : lossyC cget2 cadd2.

Notation cstep1 := (cmstep alloc lt1 C1 cget1 cadd1 sch).
Notation cstep2 := (cmstep alloc lt2 C2 cget2 cadd2 sch).

Definition cexact (st1 : cmstate C1) (st2 : cmstate C2) : Prop :=
  cm_snap C1 st1 = cm_snap C2 st2 /\ cm_step C1 st1 = cm_step C2 st2 /\
  BcOK (cm_snap C1 st1) /\
  CacheOKC cget1 (cm_snap C1 st1) (cm_cache C1 st1) /\
  CacheOKC cget2 (cm_snap C2 st2) (cm_cache C2 st2).

Definition ocexact (o1 : option (cmstate C1)) (o2 : option (cmstate C2)) : Prop :=
  match o1, o2 with
  | Some a, Some b => cexact a b
  | None, None => True
  | _, _ => False
  end.

Lemma cagree_exact : forall s c1 c2 res1 res2 Phi d k,
  cresult_ok cget1 s c1 res1 Phi -> cresult_ok cget2 s c2 res2 Phi ->
  csame_out C1 C2 res1 res2 ->
  ocexact (match res1 with Some (s', c', r) => Some (mkCM C1 (cput s' d r) c' k) | None => None end)
          (match res2 with Some (s', c', r) => Some (mkCM C2 (cput s' d r) c' k) | None => None end).
Proof.
  intros s c1 c2 res1 res2 Phi d k
         [sa [ca [ra [Ea [Ba [Xa [Oa [Da _]]]]]]]] [sb [cb [rb [Eb [Bb [Xb [Ob [Db _]]]]]]]] A.
  subst res1 res2. simpl in A. destruct A as [<- <-]. simpl.
  split; [reflexivity|]. split; [reflexivity|].
  split; [apply bcok_put; [exact Ba | apply (proj1 Da)]|].
  split; apply ccacheok_set_handles; assumption.
Qed.

Lemma chandle_den : forall s k e, BcOK s -> hget (s_handles s) k = Some e -> exists phi, DenC s e phi.
Proof.
  intros s k e B E. apply hget_In_x in E. pose proof (bc_handle_ok s _ B E) as A. simpl in A.
  apply (denc_exists s _ B A).
Qed.

Theorem cmstep_cache_exact : forall st1 st2 o, cexact st1 st2 -> ocexact (cstep1 st1 o) (cstep2 st2 o).
Proof.
  intros [s c1 k] [s2 c2 k2] o [Es [Ek [B [O1 O2]]]]. simpl in Es, Ek, B, O1, O2. subst s2 k2.
  destruct o as [d b|d v neg|d a|d op a b|d a b e|d a|d]; unfold cmstep; cbn [cm_snap cm_cache cm_step].
  - destruct (cmk_const_sem s b B) as [t [E D]]. rewrite E. simpl.
    split; [reflexivity|]. split; [reflexivity|].
    split; [apply bcok_put; [exact B | apply (proj1 D)]|]. split; apply ccacheok_set_handles; assumption.
  - destruct (nth_error (s_v2l s) v) as [lvl|] eqn:Ev.
    + destruct (cmk_var_a_sem alloc Halloc s v neg lvl B Ev) as [sa [ra [Ea [Ba [Xa Da]]]]].
      rewrite Ea. simpl. split; [reflexivity|]. split; [reflexivity|].
      split; [apply bcok_put; [exact Ba | apply (proj1 Da)]|].
      split; apply ccacheok_set_handles.
      * apply (ccacheok_extends C1 cget1 s sa c1 B Xa O1).
      * apply (ccacheok_extends C2 cget2 s sa c2 B Xa O2).
    + rewrite (cmk_var_a_none alloc s v neg Ev). exact I.
  - destruct (hget (s_handles s) a) as [ea|] eqn:Ha; [|exact I].
    destruct (chandle_den s a ea B Ha) as [phi Da]. simpl.
    split; [reflexivity|]. split; [reflexivity|].
    split; [apply bcok_put; [exact B | apply (proj1 Da)]|]. split; apply ccacheok_set_handles; assumption.
  - destruct (hget (s_handles s) a) as [ea|] eqn:Ha; [|exact I].
    destruct (hget (s_handles s) b) as [eb|] eqn:Hb; [|exact I].
    destruct (chandle_den s a ea B Ha) as [phi Da]. destruct (chandle_den s b eb B Hb) as [psi Db].
    assert (F : nlevels s - Nat.min (rlevel s (eref ea)) (rlevel s (eref eb)) < Datatypes.S (nlevels s)) by lia.
    apply (cagree_exact s c1 c2 _ _ (fun c0 => eval_bop op (phi c0) (psi c0))).
    + apply (capply_op_g_ok alloc Halloc lt1 C1 cget1 cadd1 L1); auto.
    + apply (capply_op_g_ok alloc Halloc lt2 C2 cget2 cadd2 L2); auto.
    + apply (capply_op_g_agree alloc Halloc lt1 lt2 C1 C2 cget1 cadd1 cget2 cadd2 L1 L2 op _ _ s c1 c2 _ _ phi psi); auto.
  - destruct (hget (s_handles s) a) as [ea|] eqn:Ha; [|exact I].
    destruct (hget (s_handles s) b) as [eb|] eqn:Hb; [|exact I].
    destruct (hget (s_handles s) e) as [ee|] eqn:He; [|exact I].
    destruct (chandle_den s a ea B Ha) as [phi Da]. destruct (chandle_den s b eb B Hb) as [psi Db].
    destruct (chandle_den s e ee B He) as [theta De].
    assert (F : nlevels s - Nat.min (Nat.min (rlevel s (eref ea)) (rlevel s (eref eb))) (rlevel s (eref ee))
                < Datatypes.S (nlevels s)) by lia.
    apply (cagree_exact s c1 c2 _ _ (fun c0 => if phi c0 then psi c0 else theta c0)).
    + apply (capply_ite_g_ok alloc Halloc lt1 C1 cget1 cadd1 L1); auto.
    + apply (capply_ite_g_ok alloc Halloc lt2 C2 cget2 cadd2 L2); auto.
    + apply (capply_ite_g_agree alloc Halloc lt1 lt2 C1 C2 cget1 cadd1 cget2 cadd2 L1 L2 _ _ s c1 c2 _ _ _ phi psi theta); auto.
  - destruct (hget (s_handles s) a) as [ea|] eqn:Ha; [|exact I].
    destruct (chandle_den s a ea B Ha) as [phi Da]. simpl.
    split; [reflexivity|]. split; [reflexivity|].
    split; [apply bcok_put; [exact B | apply (proj1 Da)]|]. split; apply ccacheok_set_handles; assumption.
  - simpl. split; [reflexivity|]. split; [reflexivity|].
    split; [apply bcok_drop; exact B|]. split; apply ccacheok_set_handles; assumption.
Qed.

(** for every history the two builds end with the identical table, or fail together *)
Theorem crun_ops_cache_exact : forall ops st1 st2, cexact st1 st2 ->
  ocexact (crun_ops alloc lt1 C1 cget1 cadd1 sch st1 ops) (crun_ops alloc lt2 C2 cget2 cadd2 sch st2 ops).
Proof.
  unfold crun_ops.
  assert (G : forall ops o1 o2, ocexact o1 o2 ->
            ocexact (fold_left (costep alloc lt1 C1 cget1 cadd1 sch) ops o1)
                    (fold_left (costep alloc lt2 C2 cget2 cadd2 sch) ops o2)).
  { induction ops as [|o ops IH]; intros o1 o2 Hs; [exact Hs|]. simpl. apply IH.
    destruct o1 as [a|], o2 as [b|]; simpl in *; try contradiction;
      [apply cmstep_cache_exact; exact Hs | exact I]. }
  intros ops st1 st2 Hs. apply G. exact Hs.
Qed.

End CacheRun.
