(** * C20 (a): apply cache enabled / disabled / any other cache - identical results

    Two runs of the same operation on the same table, with the same node store
    and the same schedule, but with two arbitrary (possibly different) lossy
    cache implementations holding arbitrary correct contents, and two
    arbitrary operand orders: the resulting TABLES are identical and the
    returned EDGES are identical ([apply_*_g_agree]).  Instances: the
    direct-mapped cache of DD/Cache.v (feature [apply-cache-direct-mapped])
    against [NoApplyCache] ([unit], [nc_get], [nc_add]). *)

From Coq Require Import List NArith PArith Bool Arith Lia FMapPositive.
From OxiVerif Require Import DD.Table DD.TableProofs DD.Canon DD.Sem DD.Build DD.BuildProofs
  DD.Apply DD.ApplyProofs DD.ConfigApply DD.ConfigProofs.
Import ListNotations.

(** the operand order only decides the order of the two cache-key operands *)
Lemma terminal_bin_gt : forall gt1 gt2 s op f g,
  match terminal_bin gt1 s op f g, terminal_bin gt2 s op f g with
  | TDone a, TDone b => a = b
  | TNot a, TNot b => a = b
  | TBin o _ _, TBin o' _ _ => o = o'
  | TFail, TFail => True
  | _, _ => False
  end.
Proof.
  intros gt1 gt2 s op f g. unfold terminal_bin.
  destruct (view s f) as [vf|]; [|exact I]. destruct (view s g) as [vg|]; [|exact I].
  unfold tb, get_term.
  destruct (term_of s true), (term_of s false), (ref_eqb f g), (gt1 f g), (gt2 f g);
    destruct op; destruct vf as [|[]]; destruct vg as [|[]]; simpl; auto.
Qed.

Section CacheExact.
Variable alloc : snap -> positive.
Hypothesis Halloc : alloc_ok alloc.
Variables gt1 gt2 : ref -> ref -> bool.
Variables C1 C2 : Type.
Variable cget1 : C1 -> N -> list ref -> option ref.
Variable cadd1 : C1 -> N -> list ref -> ref -> C1.
Variable cget2 : C2 -> N -> list ref -> option ref.
Variable cadd2 : C2 -> N -> list ref -> ref -> C2.
Hypothesis L1 : lossy cget1 cadd1.
Hypothesis L2 : lossy cget2 cadd2.

(** both runs succeed, with the same table and the same reference (the caches
    may differ) *)
Definition same_out (r1 : option (snap * C1 * ref)) (r2 : option (snap * C2 * ref)) : Prop :=
  match r1, r2 with
  | Some (s1, _, a), Some (s2, _, b) => s1 = s2 /\ a = b
  | _, _ => False
  end.

Lemma unchanged_agree_l : forall s c1 c2 res2 Phi c1' r1,
  result_ok C1 cget1 s c1 (Some (s, c1', r1)) Phi -> result_ok C2 cget2 s c2 res2 Phi ->
  same_out (Some (s, c1', r1)) res2.
Proof.
  intros s c1 c2 res2 Phi c1' r1 [sa [ca [ra [Ea [_ [_ [_ [Da _]]]]]]]]
         [sb [cb [rb [Eb [_ [_ [_ [_ Sb]]]]]]]].
  inversion Ea; subst sa ca ra. rewrite Eb. destruct (Sb r1 Da) as [-> ->]. simpl. auto.
Qed.

Lemma unchanged_agree_r : forall s c1 c2 res1 Phi c2' r2,
  result_ok C1 cget1 s c1 res1 Phi -> result_ok C2 cget2 s c2 (Some (s, c2', r2)) Phi ->
  same_out res1 (Some (s, c2', r2)).
Proof.
  intros s c1 c2 res1 Phi c2' r2 [sa [ca [ra [Ea [_ [_ [_ [_ Sa]]]]]]]]
         [sb [cb [rb [Eb [_ [_ [_ [Db _]]]]]]]].
  inversion Eb; subst sb cb rb. rewrite Ea. destruct (Sa r2 Db) as [-> ->]. simpl. auto.
Qed.

(** two closures that agree in every later state *)
Definition runs_agree (s : snap)
  (run1 : sched -> snap -> C1 -> option (snap * C1 * ref))
  (run2 : sched -> snap -> C2 -> option (snap * C2 * ref)) : Prop :=
  forall x s' a b, BddOK s' -> extends s s' -> CacheOK cget1 s' a -> CacheOK cget2 s' b ->
    same_out (run1 x s' a) (run2 x s' b).

Lemma fork2_agree : forall x runT1 runE1 runT2 runE2 s c1 c2 P0 P1,
  BddOK s -> CacheOK cget1 s c1 -> CacheOK cget2 s c2 ->
  run_ok C1 cget1 s runT1 P0 -> run_ok C2 cget2 s runT2 P0 ->
  run_ok C1 cget1 s runE1 P1 -> run_ok C2 cget2 s runE2 P1 ->
  runs_agree s runT1 runT2 -> runs_agree s runE1 runE2 ->
  match fork2 C1 x runT1 runE1 s c1, fork2 C2 x runT2 runE2 s c2 with
  | Some (sa, _, ta, ea), Some (sb, _, tb, eb) => sa = sb /\ ta = tb /\ ea = eb
  | _, _ => False
  end.
Proof.
  intros x runT1 runE1 runT2 runE2 s c1 c2 P0 P1 B O1 O2 HT1 HT2 HE1 HE2 AT AE.
  unfold fork2. destruct (sch_swap x).
  - destruct (HE1 (sch_r x) s c1 B (extends_refl s) O1) as [sa [ca [ea [Ea [Ba [Xa [Oa _]]]]]]].
    destruct (HE2 (sch_r x) s c2 B (extends_refl s) O2) as [sb [cb [eb [Eb [_ [_ [Ob _]]]]]]].
    pose proof (AE (sch_r x) s c1 c2 B (extends_refl s) O1 O2) as A. rewrite Ea, Eb in A.
    destruct A as [<- <-]. rewrite Ea, Eb.
    assert (Oc1 : CacheOK cget1 sa (if sch_stale x then c1 else ca))
      by (destruct (sch_stale x); [apply (cacheok_extends C1 cget1 s sa c1 B Xa O1) | exact Oa]).
    assert (Oc2 : CacheOK cget2 sa (if sch_stale x then c2 else cb))
      by (destruct (sch_stale x); [apply (cacheok_extends C2 cget2 s sa c2 B Xa O2) | exact Ob]).
    destruct (HT1 (sch_l x) sa _ Ba Xa Oc1) as [s2 [c2' [t [Et _]]]].
    destruct (HT2 (sch_l x) sa _ Ba Xa Oc2) as [s3 [c3' [t' [Et' _]]]].
    pose proof (AT (sch_l x) sa _ _ Ba Xa Oc1 Oc2) as A. rewrite Et, Et' in A.
    destruct A as [<- <-]. rewrite Et, Et'. auto.
  - destruct (HT1 (sch_l x) s c1 B (extends_refl s) O1) as [sa [ca [ta [Ea [Ba [Xa [Oa _]]]]]]].
    destruct (HT2 (sch_l x) s c2 B (extends_refl s) O2) as [sb [cb [tb [Eb [_ [_ [Ob _]]]]]]].
    pose proof (AT (sch_l x) s c1 c2 B (extends_refl s) O1 O2) as A. rewrite Ea, Eb in A.
    destruct A as [<- <-]. rewrite Ea, Eb.
    assert (Oc1 : CacheOK cget1 sa (if sch_stale x then c1 else ca))
      by (destruct (sch_stale x); [apply (cacheok_extends C1 cget1 s sa c1 B Xa O1) | exact Oa]).
    assert (Oc2 : CacheOK cget2 sa (if sch_stale x then c2 else cb))
      by (destruct (sch_stale x); [apply (cacheok_extends C2 cget2 s sa c2 B Xa O2) | exact Ob]).
    destruct (HE1 (sch_r x) sa _ Ba Xa Oc1) as [s2 [c2' [e [Ee _]]]].
    destruct (HE2 (sch_r x) sa _ Ba Xa Oc2) as [s3 [c3' [e' [Ee' _]]]].
    pose proof (AE (sch_r x) sa _ _ Ba Xa Oc1 Oc2) as A. rewrite Ee, Ee' in A.
    destruct A as [<- <-]. rewrite Ee, Ee'. auto.
Qed.

Lemma join2_agree : forall x runT1 runE1 runT2 runE2 s c1 c2 P0 P1 lvl code1 args1 code2 args2,
  BddOK s -> CacheOK cget1 s c1 -> CacheOK cget2 s c2 ->
  run_ok C1 cget1 s runT1 P0 -> run_ok C2 cget2 s runT2 P0 ->
  run_ok C1 cget1 s runE1 P1 -> run_ok C2 cget2 s runE2 P1 ->
  runs_agree s runT1 runT2 -> runs_agree s runE1 runE2 ->
  same_out (join2 alloc C1 cadd1 x runT1 runE1 s c1 lvl code1 args1)
           (join2 alloc C2 cadd2 x runT2 runE2 s c2 lvl code2 args2).
Proof.
  intros x runT1 runE1 runT2 runE2 s c1 c2 P0 P1 lvl code1 args1 code2 args2
         B O1 O2 HT1 HT2 HE1 HE2 AT AE.
  pose proof (fork2_agree x runT1 runE1 runT2 runE2 s c1 c2 P0 P1 B O1 O2 HT1 HT2 HE1 HE2 AT AE) as A.
  unfold join2.
  destruct (fork2 C1 x runT1 runE1 s c1) as [[[[sa ca] ta] ea]|]; [|contradiction].
  destruct (fork2 C2 x runT2 runE2 s c2) as [[[[sb cb] tb] eb]|]; [|contradiction].
  destruct A as [<- [<- <-]].
  destruct (mk_node_a alloc sa lvl [E ta; E ea]) as [s3 h]. simpl. auto.
Qed.

Local Ltac dead R := let EE := fresh "EE" in destruct R as [? [? [? [EE _]]]]; discriminate EE.

Theorem apply_not_g_agree : forall fuel x s c1 c2 f phi,
  BddOK s -> CacheOK cget1 s c1 -> CacheOK cget2 s c2 -> Den s f phi ->
  nlevels s - rlevel s f < fuel ->
  same_out (apply_not_g alloc C1 cget1 cadd1 fuel x s c1 f)
           (apply_not_g alloc C2 cget2 cadd2 fuel x s c2 f).
Proof.
  induction fuel as [|n IH]; intros x s c1 c2 f phi B O1 O2 D Hf; [lia|].
  pose proof (apply_not_g_ok alloc Halloc C1 cget1 cadd1 L1 (S n) x s c1 f phi B O1 D Hf) as R1.
  pose proof (apply_not_g_ok alloc Halloc C2 cget2 cadd2 L2 (S n) x s c2 f phi B O2 D Hf) as R2.
  pose proof (bo_wf s B) as H.
  rewrite (apply_not_g_S alloc C1) in *. rewrite (apply_not_g_S alloc C2) in *. destruct f as [t|id].
  - destruct (view s (RT t)) as [[|b]|]; try (dead R1).
    destruct (term_of s (negb b)) as [t'|]; try (dead R1).
    eapply unchanged_agree_l; eauto.
  - destruct (find_node s id) as [nd|] eqn:E; [|dead R1].
    rewrite (rlevel_node s id nd E) in Hf. pose proof (wf_level s H id nd E) as Hlv.
    destruct (cget1 c1 code_not [RN id]) eqn:G1; [eapply unchanged_agree_l; eauto|].
    destruct (cget2 c2 code_not [RN id]) eqn:G2; [eapply unchanged_agree_r; eauto|].
    destruct (bdd_children s id nd B E) as [a [b Ech]]. rewrite Ech in *.
    assert (Ha : nth_error (nchildren nd) 0 = Some a) by (rewrite Ech; reflexivity).
    assert (Hb : nth_error (nchildren nd) 1 = Some b) by (rewrite Ech; reflexivity).
    pose proof (den_child s id nd 0 a phi B D E Ha) as Da.
    pose proof (den_child s id nd 1 b phi B D E Hb) as Db.
    destruct (child_nth s H id nd 0 a E Ha) as [Oa La].
    destruct (child_nth s H id nd 1 b E Hb) as [Ob Lb].
    assert (Fa : forall s', extends s s' -> nlevels s' - rlevel s' (eref a) < n)
      by (intros s' X'; rewrite (ext_nlevels _ _ X'), (ext_rlevel _ _ _ X' Oa); lia).
    assert (Fb : forall s', extends s s' -> nlevels s' - rlevel s' (eref b) < n)
      by (intros s' X'; rewrite (ext_nlevels _ _ X'), (ext_rlevel _ _ _ X' Ob); lia).
    apply (join2_agree x _ _ _ _ s c1 c2
             (fun c0 => negb (cofn phi (nlevel nd) 0 c0)) (fun c0 => negb (cofn phi (nlevel nd) 1 c0))); auto.
    + intros x' s' c' B' X' O'. apply (apply_not_g_ok alloc Halloc C1 cget1 cadd1 L1); auto.
      apply (den_extends s s' _ _ B X' Da).
    + intros x' s' c' B' X' O'. apply (apply_not_g_ok alloc Halloc C2 cget2 cadd2 L2); auto.
      apply (den_extends s s' _ _ B X' Da).
    + intros x' s' c' B' X' O'. apply (apply_not_g_ok alloc Halloc C1 cget1 cadd1 L1); auto.
      apply (den_extends s s' _ _ B X' Db).
    + intros x' s' c' B' X' O'. apply (apply_not_g_ok alloc Halloc C2 cget2 cadd2 L2); auto.
      apply (den_extends s s' _ _ B X' Db).
    + intros x' s' a' b' B' X' Oa' Ob'.
      apply (IH x' s' a' b' (eref a) _ B' Oa' Ob' (den_extends s s' _ _ B X' Da) (Fa s' X')).
    + intros x' s' a' b' B' X' Oa' Ob'.
      apply (IH x' s' a' b' (eref b) _ B' Oa' Ob' (den_extends s s' _ _ B X' Db) (Fb s' X')).
Qed.

Theorem apply_bin_g_agree : forall op fuel x s c1 c2 f g phi psi,
  BddOK s -> CacheOK cget1 s c1 -> CacheOK cget2 s c2 -> Den s f phi -> Den s g psi ->
  nlevels s - Nat.min (rlevel s f) (rlevel s g) < fuel ->
  same_out (apply_bin_g alloc gt1 C1 cget1 cadd1 fuel x s c1 op f g)
           (apply_bin_g alloc gt2 C2 cget2 cadd2 fuel x s c2 op f g).
Proof.
  intros op. induction fuel as [|n IH]; intros x s c1 c2 f g phi psi B O1 O2 Df Dg Hfuel; [lia|].
  pose proof (apply_bin_g_ok alloc Halloc gt1 C1 cget1 cadd1 L1 op (S n) x s c1 f g phi psi B O1 Df Dg Hfuel) as R1.
  pose proof (apply_bin_g_ok alloc Halloc gt2 C2 cget2 cadd2 L2 op (S n) x s c2 f g phi psi B O2 Df Dg Hfuel) as R2.
  pose proof (bo_wf s B) as H.
  rewrite (apply_bin_g_S alloc gt1 C1) in *. rewrite (apply_bin_g_S alloc gt2 C2) in *.
  pose proof (terminal_bin_gt gt1 gt2 s op f g) as TG.
  pose proof (terminal_bin_sound gt1 s op f g phi psi B Df Dg) as T.
  destruct (terminal_bin gt1 s op f g) as [r|r|o a b|] eqn:E1;
    destruct (terminal_bin gt2 s op f g) as [r'|r'|o' a' b'|] eqn:E2; try contradiction.
  - eapply unchanged_agree_l; eauto.
  - subst r'. destruct T as [Hr [rho [Dr Hrho]]].
    assert (Hfr : nlevels s - rlevel s r < S n) by (destruct Hr as [->| ->]; lia).
    apply (apply_not_g_agree (S n) x s c1 c2 r rho B O1 O2 Dr Hfr).
  - subst o'. destruct T as [-> [[idf ->] [[idg ->] _]]].
    destruct (proj1 Df) as [fnd Ef]. destruct (proj1 Dg) as [gnd Eg].
    rewrite (rlevel_node s idf fnd Ef), (rlevel_node s idg gnd Eg) in Hfuel.
    pose proof (wf_level s H idf fnd Ef) as Hlf. pose proof (wf_level s H idg gnd Eg) as Hlg.
    destruct (cget1 c1 (op_code op) [a; b]) eqn:G1; [eapply unchanged_agree_l; eauto|].
    destruct (cget2 c2 (op_code op) [a'; b']) eqn:G2; [eapply unchanged_agree_r; eauto|].
    clear R1 R2. simpl inner. rewrite Ef, Eg.
    rewrite (wf_stored s H idf fnd Ef), (wf_stored s H idg gnd Eg).
    set (lvl := Nat.min (nlevel fnd) (nlevel gnd)) in *. cbv zeta.
    destruct (cof2_ok s idf fnd phi lvl B Df Ef ltac:(lia)) as [ft [fe [Ecf [Dft [Dfe [Lft Lfe]]]]]].
    destruct (cof2_ok s idg gnd psi lvl B Dg Eg ltac:(lia)) as [gt' [ge [Ecg [Dgt [Dge [Lgt Lge]]]]]].
    rewrite Ecf, Ecg.
    assert (Ft : forall s', extends s s' -> nlevels s' - Nat.min (rlevel s' ft) (rlevel s' gt') < n).
    { intros s' X'. rewrite (ext_nlevels _ _ X'), (ext_rlevel _ _ _ X' (proj1 Dft)),
        (ext_rlevel _ _ _ X' (proj1 Dgt)). lia. }
    assert (Fe : forall s', extends s s' -> nlevels s' - Nat.min (rlevel s' fe) (rlevel s' ge) < n).
    { intros s' X'. rewrite (ext_nlevels _ _ X'), (ext_rlevel _ _ _ X' (proj1 Dfe)),
        (ext_rlevel _ _ _ X' (proj1 Dge)). lia. }
    apply (join2_agree x _ _ _ _ s c1 c2
             (fun c0 => eval_bop op (cofn phi lvl 0 c0) (cofn psi lvl 0 c0))
             (fun c0 => eval_bop op (cofn phi lvl 1 c0) (cofn psi lvl 1 c0))); auto.
    + intros x' s' c' B' X' O'. apply (apply_bin_g_ok alloc Halloc gt1 C1 cget1 cadd1 L1); auto.
      * apply (den_extends s s' _ _ B X' Dft). * apply (den_extends s s' _ _ B X' Dgt).
    + intros x' s' c' B' X' O'. apply (apply_bin_g_ok alloc Halloc gt2 C2 cget2 cadd2 L2); auto.
      * apply (den_extends s s' _ _ B X' Dft). * apply (den_extends s s' _ _ B X' Dgt).
    + intros x' s' c' B' X' O'. apply (apply_bin_g_ok alloc Halloc gt1 C1 cget1 cadd1 L1); auto.
      * apply (den_extends s s' _ _ B X' Dfe). * apply (den_extends s s' _ _ B X' Dge).
    + intros x' s' c' B' X' O'. apply (apply_bin_g_ok alloc Halloc gt2 C2 cget2 cadd2 L2); auto.
      * apply (den_extends s s' _ _ B X' Dfe). * apply (den_extends s s' _ _ B X' Dge).
    + intros x' s' a0 b0 B' X' Oa' Ob'.
      apply (IH x' s' a0 b0 ft gt' _ _ B' Oa' Ob' (den_extends s s' _ _ B X' Dft)
                (den_extends s s' _ _ B X' Dgt) (Ft s' X')).
    + intros x' s' a0 b0 B' X' Oa' Ob'.
      apply (IH x' s' a0 b0 fe ge _ _ B' Oa' Ob' (den_extends s s' _ _ B X' Dfe)
                (den_extends s s' _ _ B X' Dge) (Fe s' X')).
Qed.

Theorem apply_ite_g_agree : forall fuel x s c1 c2 f g h phi psi theta,
  BddOK s -> CacheOK cget1 s c1 -> CacheOK cget2 s c2 ->
  Den s f phi -> Den s g psi -> Den s h theta ->
  nlevels s - Nat.min (Nat.min (rlevel s f) (rlevel s g)) (rlevel s h) < fuel ->
  same_out (apply_ite_g alloc gt1 C1 cget1 cadd1 fuel x s c1 f g h)
           (apply_ite_g alloc gt2 C2 cget2 cadd2 fuel x s c2 f g h).
Proof.
  induction fuel as [|n IH]; intros x s c1 c2 f g h phi psi theta B O1 O2 Df Dg Dh Hfuel; [lia|].
  pose proof (apply_ite_g_ok alloc Halloc gt1 C1 cget1 cadd1 L1 (S n) x s c1 f g h phi psi theta
                B O1 Df Dg Dh Hfuel) as R1.
  pose proof (apply_ite_g_ok alloc Halloc gt2 C2 cget2 cadd2 L2 (S n) x s c2 f g h phi psi theta
                B O2 Df Dg Dh Hfuel) as R2.
  pose proof (bo_wf s B) as H.
  rewrite (apply_ite_g_S alloc gt1 C1) in *. rewrite (apply_ite_g_S alloc gt2 C2) in *.
  destruct (ref_eqb g h); [eapply unchanged_agree_l; eauto|].
  destruct (ref_eqb f g); [apply (apply_bin_g_agree OOr (S n) x s c1 c2 f h phi theta); auto; lia|].
  destruct (ref_eqb f h); [apply (apply_bin_g_agree OAnd (S n) x s c1 c2 f g phi psi); auto; lia|].
  destruct (view s f) as [[|bf]|] eqn:Vf; [|eapply unchanged_agree_l; eauto|dead R1].
  destruct (view s g) as [[|[]]|] eqn:Vg; destruct (view s h) as [[|[]]|] eqn:Vh;
    try (dead R1);
    try (eapply unchanged_agree_l; eauto; fail);
    try (apply (apply_bin_g_agree OOr (S n) x s c1 c2 f h phi theta); auto; lia);
    try (apply (apply_bin_g_agree OImpStrict (S n) x s c1 c2 f h phi theta); auto; lia);
    try (apply (apply_bin_g_agree OImp (S n) x s c1 c2 f g phi psi); auto; lia);
    try (apply (apply_bin_g_agree OAnd (S n) x s c1 c2 f g phi psi); auto; lia);
    try (apply (apply_not_g_agree (S n) x s c1 c2 f phi); auto; lia).
  destruct (view_VI s f Vf) as [idf ->]. destruct (view_VI s g Vg) as [idg ->].
  destruct (view_VI s h Vh) as [idh ->].
  destruct (proj1 Df) as [fnd Ef]. destruct (proj1 Dg) as [gnd Eg]. destruct (proj1 Dh) as [hnd Eh].
  rewrite (rlevel_node s idf fnd Ef), (rlevel_node s idg gnd Eg), (rlevel_node s idh hnd Eh) in Hfuel.
  pose proof (wf_level s H idf fnd Ef) as Hlf. pose proof (wf_level s H idg gnd Eg) as Hlg.
  pose proof (wf_level s H idh hnd Eh) as Hlh.
  destruct (cget1 c1 code_ite [RN idf; RN idg; RN idh]) eqn:G1; [eapply unchanged_agree_l; eauto|].
  destruct (cget2 c2 code_ite [RN idf; RN idg; RN idh]) eqn:G2; [eapply unchanged_agree_r; eauto|].
  clear R1 R2. simpl inner. rewrite Ef, Eg, Eh.
  rewrite (wf_stored s H idf fnd Ef), (wf_stored s H idg gnd Eg), (wf_stored s H idh hnd Eh).
  set (lvl := Nat.min (Nat.min (nlevel fnd) (nlevel gnd)) (nlevel hnd)) in *. cbv zeta.
  destruct (cof2_ok s idf fnd phi lvl B Df Ef ltac:(lia)) as [ft [fe [Ecf [Dft [Dfe [Lft Lfe]]]]]].
  destruct (cof2_ok s idg gnd psi lvl B Dg Eg ltac:(lia)) as [gt' [ge [Ecg [Dgt [Dge [Lgt Lge]]]]]].
  destruct (cof2_ok s idh hnd theta lvl B Dh Eh ltac:(lia)) as [ht [he [Ech [Dht [Dhe [Lht Lhe]]]]]].
  rewrite Ecf, Ecg, Ech.
  assert (Ft : forall s', extends s s' ->
            nlevels s' - Nat.min (Nat.min (rlevel s' ft) (rlevel s' gt')) (rlevel s' ht) < n).
  { intros s' X'. rewrite (ext_nlevels _ _ X'), (ext_rlevel _ _ _ X' (proj1 Dft)),
      (ext_rlevel _ _ _ X' (proj1 Dgt)), (ext_rlevel _ _ _ X' (proj1 Dht)). lia. }
  assert (Fe : forall s', extends s s' ->
            nlevels s' - Nat.min (Nat.min (rlevel s' fe) (rlevel s' ge)) (rlevel s' he) < n).
  { intros s' X'. rewrite (ext_nlevels _ _ X'), (ext_rlevel _ _ _ X' (proj1 Dfe)),
      (ext_rlevel _ _ _ X' (proj1 Dge)), (ext_rlevel _ _ _ X' (proj1 Dhe)). lia. }
  apply (join2_agree x _ _ _ _ s c1 c2
           (fun c0 => if cofn phi lvl 0 c0 then cofn psi lvl 0 c0 else cofn theta lvl 0 c0)
           (fun c0 => if cofn phi lvl 1 c0 then cofn psi lvl 1 c0 else cofn theta lvl 1 c0)); auto.
  - intros x' s' c' B' X' O'. apply (apply_ite_g_ok alloc Halloc gt1 C1 cget1 cadd1 L1); auto.
    + apply (den_extends s s' _ _ B X' Dft). + apply (den_extends s s' _ _ B X' Dgt).
    + apply (den_extends s s' _ _ B X' Dht).
  - intros x' s' c' B' X' O'. apply (apply_ite_g_ok alloc Halloc gt2 C2 cget2 cadd2 L2); auto.
    + apply (den_extends s s' _ _ B X' Dft). + apply (den_extends s s' _ _ B X' Dgt).
    + apply (den_extends s s' _ _ B X' Dht).
  - intros x' s' c' B' X' O'. apply (apply_ite_g_ok alloc Halloc gt1 C1 cget1 cadd1 L1); auto.
    + apply (den_extends s s' _ _ B X' Dfe). + apply (den_extends s s' _ _ B X' Dge).
    + apply (den_extends s s' _ _ B X' Dhe).
  - intros x' s' c' B' X' O'. apply (apply_ite_g_ok alloc Halloc gt2 C2 cget2 cadd2 L2); auto.
    + apply (den_extends s s' _ _ B X' Dfe). + apply (den_extends s s' _ _ B X' Dge).
    + apply (den_extends s s' _ _ B X' Dhe).
  - intros x' s' a0 b0 B' X' Oa' Ob'.
    apply (IH x' s' a0 b0 ft gt' ht _ _ _ B' Oa' Ob' (den_extends s s' _ _ B X' Dft)
              (den_extends s s' _ _ B X' Dgt) (den_extends s s' _ _ B X' Dht) (Ft s' X')).
  - intros x' s' a0 b0 B' X' Oa' Ob'.
    apply (IH x' s' a0 b0 fe ge he _ _ _ B' Oa' Ob' (den_extends s s' _ _ B X' Dfe)
              (den_extends s s' _ _ B X' Dge) (den_extends s s' _ _ B X' Dhe) (Fe s' X')).
Qed.

(** the same statements for arbitrary existing operands and the standard fuel *)

Theorem apply_not_g_cache_exact : forall fuel x s c1 c2 f,
  BddOK s -> CacheOK cget1 s c1 -> CacheOK cget2 s c2 -> ref_ok s f -> FUEL s <= fuel ->
  same_out (apply_not_g alloc C1 cget1 cadd1 fuel x s c1 f)
           (apply_not_g alloc C2 cget2 cadd2 fuel x s c2 f).
Proof.
  intros fuel x s c1 c2 f B O1 O2 Hf F. destruct (den_exists s f B Hf) as [phi D].
  unfold FUEL in F. pose proof (rlevel_le s (bo_wf s B) f).
  apply (apply_not_g_agree fuel x s c1 c2 f phi B O1 O2 D). lia.
Qed.

Theorem apply_bin_g_cache_exact : forall op fuel x s c1 c2 f g,
  BddOK s -> CacheOK cget1 s c1 -> CacheOK cget2 s c2 -> ref_ok s f -> ref_ok s g -> FUEL s <= fuel ->
  same_out (apply_bin_g alloc gt1 C1 cget1 cadd1 fuel x s c1 op f g)
           (apply_bin_g alloc gt2 C2 cget2 cadd2 fuel x s c2 op f g).
Proof.
  intros op fuel x s c1 c2 f g B O1 O2 Hf Hg F.
  destruct (den_exists s f B Hf) as [phi Df]. destruct (den_exists s g B Hg) as [psi Dg].
  unfold FUEL in F. apply (apply_bin_g_agree op fuel x s c1 c2 f g phi psi B O1 O2 Df Dg). lia.
Qed.

Theorem apply_ite_g_cache_exact : forall fuel x s c1 c2 f g h,
  BddOK s -> CacheOK cget1 s c1 -> CacheOK cget2 s c2 -> ref_ok s f -> ref_ok s g -> ref_ok s h ->
  FUEL s <= fuel ->
  same_out (apply_ite_g alloc gt1 C1 cget1 cadd1 fuel x s c1 f g h)
           (apply_ite_g alloc gt2 C2 cget2 cadd2 fuel x s c2 f g h).
Proof.
  intros fuel x s c1 c2 f g h B O1 O2 Hf Hg Hh F.
  destruct (den_exists s f B Hf) as [phi Df]. destruct (den_exists s g B Hg) as [psi Dg].
  destruct (den_exists s h B Hh) as [theta Dh]. unfold FUEL in F.
  apply (apply_ite_g_agree fuel x s c1 c2 f g h phi psi theta B O1 O2 Df Dg Dh). lia.
Qed.

End CacheExact.
