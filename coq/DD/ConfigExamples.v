(** * C20: the hypotheses are satisfiable and the configurations really differ

    A history of 14 API calls on an empty 3-variable manager is run under
    three model configurations (index-like store / no cache / sequential;
    store skipping ids / direct-mapped cache with 4 buckets / every join down
    to depth 3 in swapped order with stale cache views; address-like store /
    unbounded cache / alternating orders).  The three final tables differ (the
    same function sits under different node ids), all observations agree. *)

From Coq Require Import List NArith PArith Bool Arith Lia FMapPositive.
From OxiVerif Require Import DD.Table DD.TableProofs DD.Sem DD.Build DD.BuildProofs
  DD.Apply DD.ApplyProofs DD.Cache DD.CacheProofs DD.ApplyExamples
  DD.ConfigApply DD.ConfigProofs DD.ConfigCache DD.ConfigRun DD.Rename DD.RenameProofs.
Import ListNotations.

(** ** Node stores *)

(** any store that places new nodes above all used ids is admissible *)
Lemma alloc_above_ok : forall alloc, (forall s, (max_id s < alloc s)%positive) -> alloc_ok alloc.
Proof.
  intros alloc Hab s. destruct (find_node s (alloc s)) as [nd|] eqn:E; [|reflexivity].
  exfalso. apply find_node_elements in E.
  destruct (fold_max_ge (PositiveMap.elements (s_nodes s)) 1%positive) as [_ B].
  specialize (B _ E). simpl in B. specialize (Hab s). unfold max_id in Hab. lia.
Qed.

(** leaves [k] ids unused before every new node *)
Definition alloc_skip (k : positive) (s : snap) : positive := (fresh_id s + k)%positive.

(** addresses of 16-byte cells in a slab at 4096 *)
Definition alloc_addr (s : snap) : positive := addr_of 4096 4 (fresh_id s).

Lemma alloc_skip_ok : forall k, alloc_ok (alloc_skip k).
Proof. intros k. apply alloc_above_ok. intros s. unfold alloc_skip, fresh_id. lia. Qed.

Lemma shiftl_nat_ge : forall k p, (p <= Pos.shiftl_nat p k)%positive.
Proof.
  intros k p. induction k as [|k IH]; [simpl; lia|].
  change (Pos.shiftl_nat p (S k)) with (xO (Pos.shiftl_nat p k)). lia.
Qed.

Lemma alloc_addr_ok : alloc_ok alloc_addr.
Proof.
  apply alloc_above_ok. intros s. unfold alloc_addr, addr_of, fresh_id.
  pose proof (shiftl_nat_ge 4 (Pos.succ (max_id s))). lia.
Qed.

(** ** Three configurations *)

Definition gt_rev (a b : ref) : bool := gt_id b a.

Definition sch_seq (k : nat) : sched := SSeq.
Definition sch_swapped (k : nat) : sched := sched_depth 3 (fun _ => (true, true)) [].
Definition sch_mixed (k : nat) : sched :=
  sched_depth 2 (fun path => (Nat.even (length path + k), Nat.odd k)) [].

Definition ex_empty : snap :=
  mkSnap KBdd (PositiveMap.empty node) [(0%N, 0%N); (1%N, 1%N)] [0; 1; 2] [0; 1; 2] [].

Definition ex_ops : list mop :=
  [MVar 0 0 false; MVar 1 1 false; MVar 2 2 true; MBin 3 OXor 0 1; MBin 4 OXor 3 2; MNot 5 4;
   MIte 6 0 4 5; MConst 7 true; MBin 8 OImp 6 7; MClone 9 4; MDrop 3; MBin 10 OOr 9 2;
   MBin 11 OEquiv 10 1; MIte 12 11 2 5].

Definition runA := run_ops fresh_id gt_id unit nc_get nc_add sch_seq (mkM unit ex_empty tt 0) ex_ops.
Definition runB := run_ops (alloc_skip 5) gt_rev dm_cache (dmr_get hash_op) (dmr_add hash_op) sch_swapped
                           (mkM dm_cache ex_empty (dm_init 4 8) 0) ex_ops.
Definition runC := run_ops alloc_addr gt_id acache ac_get ac_add sch_mixed (mkM acache ex_empty [] 0) ex_ops.

(** the 8 choice functions of a 3-level table *)
Definition choice_of_nat (a : nat) : nat -> nat := fun l => Nat.modulo (Nat.div a (Nat.pow 2 l)) 2.
Definition all_choices : list (nat -> nat) := map choice_of_nat (seq 0 8).

Definition observe_all {C} (r : option (mstate C)) :=
  match r with
  | Some st => Some (map (observe (m_snap C st)) all_choices)
  | None => None
  end.

Definition ids_of {C} (r : option (mstate C)) : list positive :=
  match r with
  | Some st => map fst (PositiveMap.elements (s_nodes (m_snap C st)))
  | None => []
  end.

Example ex_empty_ok : BddOK ex_empty.
Proof. apply bdd_ok_b_spec. vm_compute. reflexivity. Qed.

(** the initial states satisfy the hypothesis of [run_ops_sim] *)
Example ex_msim_AB :
  msim unit nc_get dm_cache (dmr_get hash_op) (mkM unit ex_empty tt 0) (mkM dm_cache ex_empty (dm_init 4 8) 0).
Proof.
  split; [apply sim_refl; exact ex_empty_ok|]. split; [apply nc_ok | apply dm_cacheok_init].
Qed.

(** the three runs succeed, the node ids differ, the observations agree *)
Example ex_runs :
  observe_all runA <> None /\
  observe_all runA = observe_all runB /\ observe_all runA = observe_all runC /\
  ids_of runA <> ids_of runB /\ ids_of runA <> ids_of runC /\
  length (ids_of runA) = length (ids_of runB) /\
  (match runA, runB with Some a, Some b => m_snap unit a <> m_snap dm_cache b | _, _ => False end).
Proof. vm_compute. repeat split; try discriminate; try reflexivity. Qed.

(** the swapped order creates the two cofactor results in the other order:
    with the same store the same nodes end up under exchanged ids *)
Example ex_swap_ids :
  let x := run_ops fresh_id gt_id unit nc_get nc_add sch_seq (mkM unit ex_empty tt 0) ex_ops in
  let y := run_ops fresh_id gt_id unit nc_get nc_add sch_swapped (mkM unit ex_empty tt 0) ex_ops in
  observe_all x = observe_all y /\
  (match x, y with Some a, Some b => m_snap unit a <> m_snap unit b | _, _ => False end).
Proof. vm_compute. split; [reflexivity | discriminate]. Qed.

(** cache on / off with the same store and schedule: identical tables *)
Example ex_cache_exact :
  let x := run_ops fresh_id gt_id unit nc_get nc_add sch_swapped (mkM unit ex_empty tt 0) ex_ops in
  let y := run_ops fresh_id gt_rev dm_cache (dmr_get hash_op) (dmr_add hash_op) sch_swapped
                   (mkM dm_cache ex_empty (dm_init 2 8) 0) ex_ops in
  match x, y with Some a, Some b => m_snap unit a = m_snap dm_cache b | _, _ => False end.
Proof. vm_compute. reflexivity. Qed.

(** renaming the final table of run A to slab addresses: other ids, same observation *)
Example ex_rename :
  match runA with
  | Some a =>
    let s := m_snap unit a in
    let s' := rename_snap (addr_of 4096 4) s in
    map fst (PositiveMap.elements (s_nodes s')) <> map fst (PositiveMap.elements (s_nodes s)) /\
    map (observe s') all_choices = map (observe s) all_choices /\
    wf_b s' = true /\ rc_exact_b s' [] = rc_exact_b s []
  | None => False
  end.
Proof. vm_compute. repeat split; try discriminate; reflexivity. Qed.
