(** * C20: one operation under two arbitrary configurations

    [apply_*_g_config_indep]: the same operation on the same table under two
    arbitrary configurations (node store, operand order, cache implementation
    and content, schedule = worker count / split depth / order of the two
    closures of every join / stale cache views) succeeds in both, returns
    edges with the same value under every assignment and the same node count
    in two well-formed extensions of the table; and if the result function
    already has an edge in the table, both return exactly that edge and leave
    the table alone.  Statements in terms of [semk] / [count_reach] only.

    [apply_bin_g_either_order]: the instance "first closure first" versus
    "second closure first (with a stale cache view)" of one join.

    [apply_bin_g_rerun]: history independence across configurations: repeating
    the operation of one configuration in any later table, under any other
    configuration, returns the identical edge and creates nothing. *)

From Coq Require Import List NArith PArith Bool Arith Lia FMapPositive.
From OxiVerif Require Import DD.Table DD.TableProofs DD.Canon DD.Sem DD.Build DD.BuildProofs
  DD.Apply DD.ApplyProofs DD.ConfigApply DD.ConfigProofs DD.Iso.
Import ListNotations.

Section TwoCfg.
Variable alloc1 : snap -> positive.
Hypothesis Halloc1 : alloc_ok alloc1.
Variable gt1 : ref -> ref -> bool.
Variable C1 : Type.
Variable cget1 : C1 -> N -> list ref -> option ref.
Variable cadd1 : C1 -> N -> list ref -> ref -> C1.
Hypothesis L1 : lossy cget1 cadd1.
Variable alloc2 : snap -> positive.
Hypothesis Halloc2 : alloc_ok alloc2.
Variable gt2 : ref -> ref -> bool.
Variable C2 : Type.
Variable cget2 : C2 -> N -> list ref -> option ref.
Variable cadd2 : C2 -> N -> list ref -> ref -> C2.
Hypothesis L2 : lossy cget2 cadd2.

(** what two runs from table [s] have in common; [V c0 v] = "the result must
    have value [v] under [c0]" *)
Definition same_obs (s : snap) (V : (nat -> nat) -> bool -> Prop)
  (res1 : option (snap * C1 * ref)) (res2 : option (snap * C2 * ref)) : Prop :=
  exists s1 c1' r1 s2 c2' r2,
    res1 = Some (s1, c1', r1) /\ res2 = Some (s2, c2', r2) /\
    BddOK s1 /\ BddOK s2 /\ extends s s1 /\ extends s s2 /\
    CacheOK cget1 s1 c1' /\ CacheOK cget2 s2 c2' /\
    ref_ok s1 r1 /\ ref_ok s2 r2 /\
    (forall c0, bchoice c0 -> exists v, V c0 v /\ bvalue s1 r1 c0 v /\ bvalue s2 r2 c0 v) /\
    count_reach s1 (E r1) = count_reach s2 (E r2) /\
    (forall r0, ref_ok s r0 ->
       (forall c0, bchoice c0 -> semk s (FUEL s) r0 c0 = semk s1 (FUEL s1) r1 c0) ->
       s1 = s /\ s2 = s /\ r1 = r0 /\ r2 = r0).

Lemma results_same_obs : forall s c1 c2 res1 res2 Phi (V : (nat -> nat) -> bool -> Prop),
  result_ok C1 cget1 s c1 res1 Phi -> result_ok C2 cget2 s c2 res2 Phi ->
  (forall c0, bchoice c0 -> V c0 (Phi c0)) ->
  same_obs s V res1 res2.
Proof.
  intros s c1 c2 res1 res2 Phi V
         [s1 [c1' [r1 [E1 [B1 [X1 [O1 [D1 S1]]]]]]]] [s2 [c2' [r2 [E2 [B2 [X2 [O2 [D2 S2]]]]]]]] HV.
  exists s1, c1', r1, s2, c2', r2.
  split; [exact E1|]. split; [exact E2|]. split; [exact B1|]. split; [exact B2|].
  split; [exact X1|]. split; [exact X2|]. split; [exact O1|]. split; [exact O2|].
  split; [apply (proj1 D1)|]. split; [apply (proj1 D2)|].
  split; [|split].
  - intros c0 Hc. exists (Phi c0). split; [apply HV; exact Hc|].
    split; [apply (proj2 D1 c0 Hc) | apply (proj2 D2 c0 Hc)].
  - apply (count_reach_den s1 s2 B1 B2) with (phi := Phi); [|exact D1 | exact D2].
    rewrite (ext_nlevels _ _ X1), (ext_nlevels _ _ X2). reflexivity.
  - intros r0 O0 Hsem.
    assert (D0 : Den s r0 Phi).
    { split; [exact O0|]. intros c0 Hc. unfold FUEL in Hsem. rewrite (Hsem c0 Hc). apply (proj2 D1 c0 Hc). }
    destruct (S1 r0 D0) as [-> ->]. destruct (S2 r0 D0) as [-> ->]. auto.
Qed.

Theorem apply_not_g_config_indep : forall s c1 c2 f x1 x2 fuel1 fuel2,
  BddOK s -> CacheOK cget1 s c1 -> CacheOK cget2 s c2 -> ref_ok s f ->
  FUEL s <= fuel1 -> FUEL s <= fuel2 ->
  same_obs s (fun c0 v => exists x, bvalue s f c0 x /\ v = negb x)
    (apply_not_g alloc1 C1 cget1 cadd1 fuel1 x1 s c1 f)
    (apply_not_g alloc2 C2 cget2 cadd2 fuel2 x2 s c2 f).
Proof.
  intros s c1 c2 f x1 x2 fuel1 fuel2 B O1 O2 Hf F1 F2.
  destruct (den_exists s f B Hf) as [phi D]. unfold FUEL in F1, F2.
  pose proof (rlevel_le s (bo_wf s B) f).
  apply (results_same_obs s c1 c2 _ _ (fun c0 => negb (phi c0))).
  - apply (apply_not_g_ok alloc1 Halloc1 C1 cget1 cadd1 L1); auto. lia.
  - apply (apply_not_g_ok alloc2 Halloc2 C2 cget2 cadd2 L2); auto. lia.
  - intros c0 Hc. exists (phi c0). split; [apply (proj2 D c0 Hc) | reflexivity].
Qed.

Theorem apply_bin_g_config_indep : forall op s c1 c2 f g x1 x2 fuel1 fuel2,
  BddOK s -> CacheOK cget1 s c1 -> CacheOK cget2 s c2 -> ref_ok s f -> ref_ok s g ->
  FUEL s <= fuel1 -> FUEL s <= fuel2 ->
  same_obs s (fun c0 v => exists x y, bvalue s f c0 x /\ bvalue s g c0 y /\ v = eval_bop op x y)
    (apply_bin_g alloc1 gt1 C1 cget1 cadd1 fuel1 x1 s c1 op f g)
    (apply_bin_g alloc2 gt2 C2 cget2 cadd2 fuel2 x2 s c2 op f g).
Proof.
  intros op s c1 c2 f g x1 x2 fuel1 fuel2 B O1 O2 Hf Hg F1 F2.
  destruct (den_exists s f B Hf) as [phi Df]. destruct (den_exists s g B Hg) as [psi Dg].
  unfold FUEL in F1, F2.
  apply (results_same_obs s c1 c2 _ _ (fun c0 => eval_bop op (phi c0) (psi c0))).
  - apply (apply_bin_g_ok alloc1 Halloc1 gt1 C1 cget1 cadd1 L1); auto. lia.
  - apply (apply_bin_g_ok alloc2 Halloc2 gt2 C2 cget2 cadd2 L2); auto. lia.
  - intros c0 Hc. exists (phi c0), (psi c0).
    split; [apply (proj2 Df c0 Hc)|]. split; [apply (proj2 Dg c0 Hc) | reflexivity].
Qed.

Theorem apply_ite_g_config_indep : forall s c1 c2 f g h x1 x2 fuel1 fuel2,
  BddOK s -> CacheOK cget1 s c1 -> CacheOK cget2 s c2 -> ref_ok s f -> ref_ok s g -> ref_ok s h ->
  FUEL s <= fuel1 -> FUEL s <= fuel2 ->
  same_obs s (fun c0 v => exists x y z, bvalue s f c0 x /\ bvalue s g c0 y /\ bvalue s h c0 z /\
                                     v = if x then y else z)
    (apply_ite_g alloc1 gt1 C1 cget1 cadd1 fuel1 x1 s c1 f g h)
    (apply_ite_g alloc2 gt2 C2 cget2 cadd2 fuel2 x2 s c2 f g h).
Proof.
  intros s c1 c2 f g h x1 x2 fuel1 fuel2 B O1 O2 Hf Hg Hh F1 F2.
  destruct (den_exists s f B Hf) as [phi Df]. destruct (den_exists s g B Hg) as [psi Dg].
  destruct (den_exists s h B Hh) as [theta Dh]. unfold FUEL in F1, F2.
  apply (results_same_obs s c1 c2 _ _ (fun c0 => if phi c0 then psi c0 else theta c0)).
  - apply (apply_ite_g_ok alloc1 Halloc1 gt1 C1 cget1 cadd1 L1); auto. lia.
  - apply (apply_ite_g_ok alloc2 Halloc2 gt2 C2 cget2 cadd2 L2); auto. lia.
  - intros c0 Hc. exists (phi c0), (psi c0), (theta c0).
    split; [apply (proj2 Df c0 Hc)|]. split; [apply (proj2 Dg c0 Hc)|].
    split; [apply (proj2 Dh c0 Hc) | reflexivity].
Qed.

(** history independence across configurations *)
Theorem apply_bin_g_rerun : forall op s c1 f g x1 fuel1 s1 c1' r1,
  BddOK s -> CacheOK cget1 s c1 -> ref_ok s f -> ref_ok s g -> FUEL s <= fuel1 ->
  apply_bin_g alloc1 gt1 C1 cget1 cadd1 fuel1 x1 s c1 op f g = Some (s1, c1', r1) ->
  forall s2 c2 x2 fuel2, BddOK s2 -> extends s1 s2 -> CacheOK cget2 s2 c2 -> FUEL s2 <= fuel2 ->
  exists c2', apply_bin_g alloc2 gt2 C2 cget2 cadd2 fuel2 x2 s2 c2 op f g = Some (s2, c2', r1).
Proof.
  intros op s c1 f g x1 fuel1 s1 c1' r1 B O1 Hf Hg F1 E1 s2 c2 x2 fuel2 B2 X O2 F2.
  destruct (den_exists s f B Hf) as [phi Df]. destruct (den_exists s g B Hg) as [psi Dg].
  unfold FUEL in F1, F2.
  destruct (apply_bin_g_ok alloc1 Halloc1 gt1 C1 cget1 cadd1 L1 op fuel1 x1 s c1 f g phi psi B O1 Df Dg ltac:(lia))
    as [sa [ca [ra [Ea [Ba [Xa [_ [Da _]]]]]]]].
  rewrite E1 in Ea. inversion Ea; subst sa ca ra.
  assert (X02 : extends s s2) by (eapply extends_trans; eauto).
  pose proof (den_extends s s2 _ _ B X02 Df) as Df2. pose proof (den_extends s s2 _ _ B X02 Dg) as Dg2.
  destruct (apply_bin_g_ok alloc2 Halloc2 gt2 C2 cget2 cadd2 L2 op fuel2 x2 s2 c2 f g phi psi B2 O2 Df2 Dg2 ltac:(lia))
    as [sb [cb [rb [Eb [_ [_ [_ [_ Sb]]]]]]]].
  destruct (Sb r1 (den_extends s1 s2 _ _ Ba X Da)) as [-> ->].
  exists cb. exact Eb.
Qed.

End TwoCfg.

(** (c) the two evaluation orders of one join, same store / cache / operand
    order: the closure of the then-branch first and a shared cache, versus the
    closure of the else-branch first and a stale cache view for the other *)
Theorem apply_bin_g_either_order : forall alloc, alloc_ok alloc ->
  forall gt C cget cadd, lossy cget cadd ->
  forall op s (c : C) f g l r l' r' stale,
  BddOK s -> CacheOK cget s c -> ref_ok s f -> ref_ok s g ->
  same_obs C cget C cget s
    (fun c0 v => exists x y, bvalue s f c0 x /\ bvalue s g c0 y /\ v = eval_bop op x y)
    (apply_bin_g alloc gt C cget cadd (FUEL s) (SPar false false l r) s c op f g)
    (apply_bin_g alloc gt C cget cadd (FUEL s) (SPar true stale l' r') s c op f g).
Proof.
  intros alloc Ha gt C cget cadd L op s c f g l r l' r' stale B O Hf Hg.
  apply (apply_bin_g_config_indep alloc Ha gt C cget cadd L alloc Ha gt C cget cadd L); auto.
Qed.
