(** * [LevelView::get_or_insert] on an arbitrary node store, for every kind (C20x)

    DD/ConfigProofs.v proves that [get_or_insert_a alloc] (DD/ConfigApply.v:
    the unique-table lookup followed by an insertion at the slot the node
    store [alloc] hands out) keeps a table well-formed for the kinds with the
    plain reduction rule.  The complement-edge kind stores tagged else-edges
    and the zero-suppressed kind has its own reduction rule, so the same is
    proved here for ANY kind with the kind's own rule [reduced] as hypothesis
    (cf. DD/PickInsert.v [goi_any], which is the instance [alloc = fresh_id]).
    The only assumption on the store is [alloc_ok]: the slot is unused. *)

From Coq Require Import List NArith PArith Bool Arith Lia FMapPositive.
From OxiVerif Require Import DD.Table DD.TableProofs DD.Build DD.BuildProofs DD.PickInsert
  DD.Apply DD.ConfigApply DD.ConfigProofs.
Import ListNotations.

Section InsAnyAt.
Variable s : snap.
Variable lvl : nat.
Variable ch : list edge.
Variable id : positive.
Hypothesis H : WF s.
Hypothesis Hlvl : lvl < nlevels s.
Hypothesis Hlen : length ch = arity (s_kind s).
Hypothesis Hce : forall e, In e ch -> ref_ok s (eref e) /\ lvl < rlevel s (eref e).
Hypothesis Hred : reduced s ch.
Hypothesis Htags : s_kind s <> KBcdd -> forall e, In e ch -> etag e = false.
Hypothesis Hnodup : find_dup s lvl ch = None.
Hypothesis Hfree : find_node s id = None.

Let nd0 := mkNode lvl ch lvl 0%N.
Let s' := set_nodes s (PositiveMap.add id nd0 (s_nodes s)).

Lemma insx_find : forall i nd, find_node s' i = Some nd ->
  (i = id /\ nd = nd0) \/ (i <> id /\ find_node s i = Some nd).
Proof.
  intros i nd. unfold find_node, s'. simpl.
  destruct (Pos.eq_dec i id) as [->|Hn].
  - rewrite PositiveMap.gss. intros E. inversion E. auto.
  - rewrite PositiveMap.gso by exact Hn. auto.
Qed.

Lemma insx_find_new : find_node s' id = Some nd0.
Proof. unfold find_node, s'. simpl. apply PositiveMap.gss. Qed.

Lemma insx_extends : extends s s'.
Proof.
  constructor; try reflexivity.
  intros i nd E. unfold find_node, s'. simpl.
  rewrite PositiveMap.gso; [exact E|].
  intros ->. fold (find_node s id) in E. rewrite Hfree in E. discriminate.
Qed.

Lemma insx_wf : WF s'.
Proof.
  pose proof insx_extends as X.
  assert (Hok : forall i nd, find_node s' i = Some nd -> node_ok s' nd).
  { intros i nd E. destruct (insx_find i nd E) as [[-> ->]|[Hn E']].
    - unfold node_ok, nd0. simpl.
      split; [exact Hlen|]. split; [reflexivity|]. split; [exact Hlvl|].
      split; [|split].
      + intros e He. destruct (Hce e He) as [A B].
        split; [apply (ext_ref_ok _ _ _ X A) | rewrite (ext_rlevel _ _ _ X A); exact B].
      + apply (reduced_ext s s' ch X Hred).
      + exact Htags.
    - unfold node_ok.
      split; [apply (wf_arity s H i nd E')|]. split; [apply (wf_stored s H i nd E')|].
      split; [apply (wf_level s H i nd E')|]. split; [|split].
      + intros e He. destruct (wf_child s H i nd e E' He) as [A B].
        split; [apply (ext_ref_ok _ _ _ X A) | rewrite (ext_rlevel _ _ _ X A); exact B].
      + apply (reduced_ext s s' _ X). apply (wf_reduced s H i nd E').
      + intros Hk' e He. apply (wf_tags s H Hk' i nd e E' He). }
  constructor.
  - apply (wf_perm_len s H).
  - apply (wf_perm_v2l s H).
  - apply (wf_perm_l2v s H).
  - intros i nd E. apply (Hok i nd E).
  - intros i nd E. apply (Hok i nd E).
  - intros i nd E. apply (Hok i nd E).
  - intros i nd e E. apply (Hok i nd E).
  - intros i nd E. apply (Hok i nd E).
  - intros Hk i nd e E. apply (Hok i nd E). exact Hk.
  - intros i1 i2 n1 n2 E1 E2 Hl Hc.
    destruct (insx_find i1 n1 E1) as [[-> ->]|[Hn1 E1']];
      destruct (insx_find i2 n2 E2) as [[-> ->]|[Hn2 E2']].
    + reflexivity.
    + exfalso. simpl in Hl, Hc. apply (find_dup_none s lvl ch Hnodup i2 n2 E2'); congruence.
    + exfalso. simpl in Hl, Hc. apply (find_dup_none s lvl ch Hnodup i1 n1 E1'); congruence.
    + apply (wf_unique s H i1 i2 n1 n2 E1' E2' Hl Hc).
  - apply (wf_term_ids s H).
  - apply (wf_term_vals s H).
  - intros h Hh. destruct (wf_handles s H h Hh) as [A B].
    split; [apply (ext_ref_ok _ _ _ X A) | exact B].
Qed.

End InsAnyAt.

(** [get_or_insert_a alloc]: the table stays well-formed and is extended, the
    result is an untagged edge to a node of level [lvl] with children [ch];
    the table is unchanged iff such a node was stored already, otherwise the
    node sits in the slot [alloc s] that was empty before *)
Theorem goi_any_a : forall alloc, alloc_ok alloc ->
  forall s lvl ch, WF s -> lvl < nlevels s -> length ch = arity (s_kind s) ->
  (forall e, In e ch -> ref_ok s (eref e) /\ lvl < rlevel s (eref e)) ->
  reduced s ch -> (s_kind s <> KBcdd -> forall e, In e ch -> etag e = false) ->
  forall s' e, get_or_insert_a alloc s lvl ch = (s', e) ->
  WF s' /\ extends s s' /\
  (exists id nd, e = E (RN id) /\ find_node s' id = Some nd /\ nlevel nd = lvl /\ nchildren nd = ch) /\
  (s' = s \/ find_node s (match eref e with RN id => id | RT _ => 1%positive end) = None).
Proof.
  intros alloc Ha s lvl ch H Hl Hlen Hce Hred Htags s' e. unfold get_or_insert_a.
  destruct (find_dup s lvl ch) as [id|] eqn:Ed; intros Heq; inversion Heq; subst s' e; clear Heq.
  - destruct (find_dup_some s lvl ch id Ed) as [nd [E [El Ec]]].
    split; [exact H|]. split; [apply extends_refl|]. split; [exists id, nd; auto | left; reflexivity].
  - pose proof (Ha s) as Hfree.
    split; [apply insx_wf; assumption|]. split; [apply insx_extends; assumption|].
    split; [|right; simpl; exact Hfree].
    exists (alloc s), (mkNode lvl ch lvl 0%N).
    split; [reflexivity|]. split; [apply insx_find_new|]. split; reflexivity.
Qed.

Lemma get_or_insert_a_fresh : forall s lvl ch, get_or_insert_a fresh_id s lvl ch = get_or_insert s lvl ch.
Proof. reflexivity. Qed.

(** ** Changing the handle list (histories of API calls): every kind *)

Lemma wf_set_handles : forall s hs, WF s ->
  (forall h, In h hs -> ref_ok s (eref (snd h)) /\ (s_kind s <> KBcdd -> etag (snd h) = false)) ->
  WF (set_handles s hs).
Proof.
  intros s hs H Hh. constructor.
  - exact (wf_perm_len s H).
  - exact (wf_perm_v2l s H).
  - exact (wf_perm_l2v s H).
  - exact (wf_arity s H).
  - exact (wf_stored s H).
  - exact (wf_level s H).
  - exact (wf_child s H).
  - exact (wf_reduced s H).
  - exact (wf_tags s H).
  - exact (wf_unique s H).
  - exact (wf_term_ids s H).
  - exact (wf_term_vals s H).
  - exact Hh.
Qed.

Lemma hdel_In_x : forall hs k h, In h (hdel hs k) -> In h hs.
Proof. intros hs k h Hin. unfold hdel in Hin. apply filter_In in Hin. tauto. Qed.

Lemma hget_In_x : forall hs k e, hget hs k = Some e -> In (k, e) hs.
Proof.
  induction hs as [|[a x] r IH]; intros k e E; simpl in E; [discriminate|].
  destruct (N.eqb_spec a k) as [->|Hn]; [inversion E; subst; left; reflexivity | right; auto].
Qed.

Lemma extends_set_handles_l : forall s s' hs, extends s s' -> s_handles s = hs -> extends (set_handles s hs) s'.
Proof.
  intros s s' hs X Eh. constructor; try apply X.
  - simpl. rewrite <- Eh. apply (ext_handles _ _ X).
Qed.
