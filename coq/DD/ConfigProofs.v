(** * Correctness of the configuration-generic apply algorithms (DD/ConfigApply.v)

    - [alloc_ok]: the only thing assumed about a node store;
    - [get_or_insert_a_wf], [mk_node_a_wf], [node_step_a], [mk_node_stable_a]:
      node construction at an arbitrary free id;
    - [fork2_ok], [join2_ok]: one fork/join step under an arbitrary schedule;
    - [apply_not_g_ok], [apply_bin_g_ok], [apply_ite_g_ok]: for every
      allocator, operand order, lossy cache and schedule the algorithms return
      a well-formed extension of the table, a correct cache and a reference
      denoting the connective of the operands' functions; if that function
      already has a reference, exactly that reference is returned and the table
      is unchanged ([result_ok] of DD/ApplyProofs.v);
    - [apply_*_g_seq]: the instance [fresh_id] / [SSeq] is DD/Apply.v. *)

From Coq Require Import List NArith PArith Bool Arith Lia FMapPositive.
From OxiVerif Require Import DD.Table DD.TableProofs DD.Canon DD.Sem DD.Build DD.BuildProofs
  DD.Apply DD.ApplyProofs DD.ConfigApply.
Import ListNotations.

(** ** Node stores *)

(** a node store never hands out the id of a stored node *)
Definition alloc_ok (alloc : snap -> positive) : Prop :=
  forall s, find_node s (alloc s) = None.

Lemma fresh_id_alloc_ok : alloc_ok fresh_id.
Proof. exact fresh_id_free. Qed.

(** ** Inserting a node under an arbitrary free id (cf. Section Insert of DD/BuildProofs.v) *)

Section InsertAt.
Variable s : snap.
Variable lvl : nat.
Variable ch : list edge.
Variable id : positive.
Hypothesis H : WF s.
Hypothesis Hkind : kary (s_kind s).
Hypothesis Hlvl : lvl < nlevels s.
Hypothesis Hch : children_ok s lvl ch.
Hypothesis Hne : all_equal ch = false.
Hypothesis Hnodup : find_dup s lvl ch = None.
Hypothesis Hfree : find_node s id = None.

Let nd0 := mkNode lvl ch lvl 0%N.
Let s' := set_nodes s (PositiveMap.add id nd0 (s_nodes s)).

Lemma insa_find : forall i nd, find_node s' i = Some nd ->
  (i = id /\ nd = nd0) \/ (i <> id /\ find_node s i = Some nd).
Proof.
  intros i nd. unfold find_node, s'. simpl.
  destruct (Pos.eq_dec i id) as [->|Hn].
  - rewrite PositiveMap.gss. intros E. inversion E. auto.
  - rewrite PositiveMap.gso by exact Hn. auto.
Qed.

Lemma insa_find_new : find_node s' id = Some nd0.
Proof. unfold find_node, s'. simpl. apply PositiveMap.gss. Qed.

Lemma insa_extends : extends s s'.
Proof.
  constructor; try reflexivity.
  intros i nd E. unfold find_node, s'. simpl.
  rewrite PositiveMap.gso; [exact E|].
  intros ->. fold (find_node s id) in E. rewrite Hfree in E. discriminate.
Qed.

Lemma insa_not_all_same : ~ all_same ch.
Proof. intros A. apply all_equal_spec in A. congruence. Qed.

Lemma insa_wf : WF s'.
Proof.
  pose proof insa_extends as X.
  destruct Hch as [Hlen Hce].
  assert (Hok : forall i nd, find_node s' i = Some nd -> node_ok s' nd).
  { intros i nd E. destruct (insa_find i nd E) as [[-> ->]|[Hn E']].
    - unfold node_ok, nd0. simpl.
      split; [exact Hlen|]. split; [reflexivity|]. split; [exact Hlvl|].
      split; [|split].
      + intros e He. destruct (Hce e He) as [A [B _]].
        split; [apply (ext_ref_ok _ _ _ X A) | rewrite (ext_rlevel _ _ _ X A); exact B].
      + apply (reduced_kary_iff s' ch Hkind). exact insa_not_all_same.
      + intros _ e He. apply (Hce e He).
    - unfold node_ok.
      split; [apply (wf_arity s H i nd E')|]. split; [apply (wf_stored s H i nd E')|].
      split; [apply (wf_level s H i nd E')|]. split; [|split].
      + intros e He. destruct (wf_child s H i nd e E' He) as [A B].
        split; [apply (ext_ref_ok _ _ _ X A) | rewrite (ext_rlevel _ _ _ X A); exact B].
      + apply (reduced_kary_iff s' _ Hkind). apply (reduced_kary_iff s _ Hkind).
        apply (wf_reduced s H i nd E').
      + intros Hk' e He. apply (wf_tags s H Hk' i nd e E' He). }
  constructor.
  - apply (wf_perm_len s H).
  - apply (wf_perm_v2l s H).
  - apply (wf_perm_l2v s H).
  - intros i nd E. apply (Hok i nd E).
  - intros i nd E. apply (Hok i nd E).
  - intros i nd E. apply (Hok i nd E).
  - intros i nd e E. apply (Hok i nd E).
  - intros i nd E. apply (Hok i nd E).
  - intros Hk i nd e E. apply (Hok i nd E). exact Hk.
  - intros i1 i2 n1 n2 E1 E2 Hl Hc.
    destruct (insa_find i1 n1 E1) as [[-> ->]|[Hn1 E1']];
      destruct (insa_find i2 n2 E2) as [[-> ->]|[Hn2 E2']].
    + reflexivity.
    + exfalso. simpl in Hl, Hc. apply (find_dup_none s lvl ch Hnodup i2 n2 E2'); congruence.
    + exfalso. simpl in Hl, Hc. apply (find_dup_none s lvl ch Hnodup i1 n1 E1'); congruence.
    + apply (wf_unique s H i1 i2 n1 n2 E1' E2' Hl Hc).
  - apply (wf_term_ids s H).
  - apply (wf_term_vals s H).
  - intros h Hh. destruct (wf_handles s H h Hh) as [A B].
    split; [apply (ext_ref_ok _ _ _ X A) | exact B].
Qed.

Lemma insa_sem : forall c i ci, c lvl = i -> nth_error ch i = Some ci ->
  semk s' (S (nlevels s')) (RN id) c = semk s (S (nlevels s)) (eref ci) c.
Proof.
  intros c i ci Hi Hn. rewrite semk_S, insa_find_new. simpl nchildren. simpl nlevel.
  rewrite Hi, Hn. destruct Hch as [_ Hce].
  destruct (Hce ci (nth_error_In _ _ Hn)) as [A [B _]].
  rewrite (semk_extends s s' H insa_extends _ _ c A).
  change (nlevels s') with (nlevels s).
  pose proof (rlevel_le s H (eref ci)).
  apply semk_fuel; auto; lia.
Qed.

End InsertAt.

Section Alloc.
Variable alloc : snap -> positive.
Hypothesis Halloc : alloc_ok alloc.

Theorem get_or_insert_a_wf : forall s lvl ch s' e,
  WF s -> kary (s_kind s) -> lvl < nlevels s -> children_ok s lvl ch ->
  all_equal ch = false ->
  get_or_insert_a alloc s lvl ch = (s', e) ->
  WF s' /\ extends s s' /\ ref_ok s' (eref e) /\ etag e = false /\
  rlevel s' (eref e) = lvl /\ shannon s s' lvl ch e.
Proof.
  intros s lvl ch s' e H Hk Hl Hch Hne. unfold get_or_insert_a.
  destruct (find_dup s lvl ch) as [id|] eqn:Ed; intros Heq; inversion Heq; subst s' e; clear Heq.
  - destruct (find_dup_some s lvl ch id Ed) as [nd [E [El Ec]]].
    split; [exact H|]. split; [apply extends_refl|].
    split; [exists nd; exact E|]. split; [reflexivity|].
    split; [simpl; rewrite E; exact El|].
    intros c i ci Hi Hn. simpl eref. rewrite semk_S, E, El, Ec, Hi, Hn.
    destruct Hch as [_ Hce]. destruct (Hce ci (nth_error_In _ _ Hn)) as [A [B _]].
    pose proof (rlevel_le s H (eref ci)).
    apply semk_fuel; auto; lia.
  - pose proof (Halloc s) as Hfree.
    split; [apply insa_wf; assumption|].
    split; [apply insa_extends; assumption|].
    split; [simpl; eexists; apply insa_find_new|].
    split; [reflexivity|].
    split; [simpl; rewrite insa_find_new; reflexivity|].
    intros c i ci Hi Hn. eapply insa_sem; eassumption.
Qed.

Theorem mk_node_a_wf : forall s lvl ch s' e,
  WF s -> kary (s_kind s) -> lvl < nlevels s -> children_ok s lvl ch ->
  mk_node_a alloc s lvl ch = (s', e) ->
  WF s' /\ extends s s' /\ ref_ok s' (eref e) /\ etag e = false /\
  (forall f r c, ref_ok s r -> semk s' f r c = semk s f r c) /\
  shannon s s' lvl ch e /\
  lvl <= rlevel s' (eref e).
Proof.
  intros s lvl ch s' e H Hk Hl Hch. unfold mk_node_a.
  destruct ch as [|c0 rest] eqn:Ech.
  - destruct Hch as [Hlen _]. simpl in Hlen. destruct (s_kind s); discriminate.
  - rewrite <- Ech in *. destruct (all_equal ch) eqn:Ea; intros Heq.
    + inversion Heq; subst s' e; clear Heq.
      assert (Hin : In c0 ch) by (rewrite Ech; left; reflexivity).
      destruct Hch as [_ Hce]. destruct (Hce c0 Hin) as [A [B T]].
      split; [exact H|]. split; [apply extends_refl|]. split; [exact A|]. split; [exact T|].
      split; [reflexivity|]. split; [|lia].
      intros c i ci Hi Hn.
      rewrite (all_equal_nth ch c0 i ci Ea); [reflexivity | rewrite Ech; reflexivity | exact Hn].
    + destruct (get_or_insert_a_wf s lvl ch s' e H Hk Hl Hch Ea Heq) as [A [B [C [D [F G]]]]].
      split; [exact A|]. split; [exact B|]. split; [exact C|]. split; [exact D|].
      split; [intros f r c Hr; apply (semk_extends s s' H B f r c Hr)|].
      split; [exact G | lia].
Qed.

(** the node step shared by the three algorithms (cf. [node_step]) *)
Lemma node_step_a : forall s lvl t e P0 P1 s' h, BddOK s -> lvl < nlevels s ->
  Den s t P0 -> Den s e P1 -> indep P0 (S lvl) -> indep P1 (S lvl) ->
  mk_node_a alloc s lvl [E t; E e] = (s', h) ->
  BddOK s' /\ extends s s' /\
  Den s' (eref h) (fun c => if Nat.eqb (c lvl) 0 then P0 c else P1 c).
Proof.
  intros s lvl t e P0 P1 s' h B Hl Dt De I0 I1 Hm.
  pose proof (bo_wf s B) as H. pose proof (bdd_kary s B) as Hk.
  assert (Lt : S lvl <= rlevel s t) by (apply (den_level s t P0); auto).
  assert (Le : S lvl <= rlevel s e) by (apply (den_level s e P1); auto).
  assert (Hch : children_ok s lvl [E t; E e]).
  { split; [rewrite (bo_kind s B); reflexivity|].
    intros x [<-|[<-|[]]]; simpl; (split; [|split; [lia | reflexivity]]);
      [apply (proj1 Dt) | apply (proj1 De)]. }
  destruct (mk_node_a_wf s lvl _ s' h H Hk Hl Hch Hm) as [W [X [O [T [Sold [Sh _]]]]]].
  split; [apply (bddok_extends s s' B X W)|]. split; [exact X|].
  split; [exact O|]. intros c Hc.
  pose proof (Hc lvl) as Hc2.
  destruct (c lvl) as [|[|k]] eqn:Ec; [| |lia].
  - rewrite (Sh c 0 (E t) Ec eq_refl). simpl. apply (proj2 Dt c Hc).
  - rewrite (Sh c 1 (E e) Ec eq_refl). simpl. apply (proj2 De c Hc).
Qed.

(** if the function to be built already has a reference, [mk_node_a] returns
    it and leaves the table alone (cf. [mk_node_stable]) *)
Lemma mk_node_stable_a : forall s lvl t e P0 P1 s' h r0, BddOK s -> lvl < nlevels s ->
  Den s t P0 -> Den s e P1 -> indep P0 (S lvl) -> indep P1 (S lvl) ->
  mk_node_a alloc s lvl [E t; E e] = (s', h) ->
  Den s r0 (fun c => if Nat.eqb (c lvl) 0 then P0 c else P1 c) ->
  s' = s /\ eref h = r0.
Proof.
  intros s lvl t e P0 P1 s' h r0 B Hl Dt De I0 I1 Hm D0.
  destruct (node_step_a s lvl t e P0 P1 s' h B Hl Dt De I0 I1 Hm) as [B' [X Dh]].
  assert (Eh : eref h = r0) by (apply (den_canon s' _ _ _ B' Dh (den_extends s s' _ _ B X D0))).
  split; [|exact Eh].
  unfold mk_node_a in Hm. destruct (all_equal [E t; E e]); [inversion Hm; reflexivity|].
  unfold get_or_insert_a in Hm. destruct (find_dup s lvl [E t; E e]); inversion Hm; [reflexivity|].
  exfalso. subst h. simpl in Eh. subst r0. destruct (proj1 D0) as [nd En].
  rewrite Halloc in En. discriminate.
Qed.

End Alloc.

(** ** One fork/join step under an arbitrary schedule *)

Section Gen.
Variable alloc : snap -> positive.
Hypothesis Halloc : alloc_ok alloc.
Variable gt : ref -> ref -> bool.
Variable C : Type.
Variable cget : C -> N -> list ref -> option ref.
Variable cadd : C -> N -> list ref -> ref -> C.
Hypothesis Hlossy : lossy cget cadd.

(** a closure of the recursion computes [P] in every later state of table [s]
    (whatever other closures added in the meantime, whatever the cache holds),
    under every schedule *)
Definition run_ok (s : snap) (run : sched -> snap -> C -> option (snap * C * ref))
  (P : (nat -> nat) -> bool) : Prop :=
  forall x s' c', BddOK s' -> extends s s' -> CacheOK cget s' c' ->
    result_ok C cget s' c' (run x s' c') P.

Lemma fork2_ok : forall x runT runE s c P0 P1,
  BddOK s -> CacheOK cget s c -> run_ok s runT P0 -> run_ok s runE P1 ->
  exists s2 c2 t e, fork2 C x runT runE s c = Some (s2, c2, t, e) /\
    BddOK s2 /\ extends s s2 /\ CacheOK cget s2 c2 /\ Den s2 t P0 /\ Den s2 e P1 /\
    (forall q0 q1, Den s q0 P0 -> Den s q1 P1 -> s2 = s /\ t = q0 /\ e = q1).
Proof.
  intros x runT runE s c P0 P1 B O HT HE. unfold fork2. destruct (sch_swap x).
  - destruct (HE (sch_r x) s c B (extends_refl s) O) as [s1 [c1 [e [E1 [B1 [X1 [O1 [D1 S1]]]]]]]].
    rewrite E1.
    assert (Oc : CacheOK cget s1 (if sch_stale x then c else c1))
      by (destruct (sch_stale x); [apply (cacheok_extends C cget s s1 c B X1 O) | exact O1]).
    destruct (HT (sch_l x) s1 _ B1 X1 Oc) as [s2 [c2 [t [E2 [B2 [X2 [O2 [D2 S2]]]]]]]].
    rewrite E2. exists s2, c2, t, e.
    split; [reflexivity|]. split; [exact B2|]. split; [eapply extends_trans; eauto|].
    split; [exact O2|]. split; [exact D2|]. split; [apply (den_extends s1 s2 _ _ B1 X2 D1)|].
    intros q0 q1 Dq0 Dq1. destruct (S1 q1 Dq1) as [-> ->]. destruct (S2 q0 Dq0) as [-> ->]. auto.
  - destruct (HT (sch_l x) s c B (extends_refl s) O) as [s1 [c1 [t [E1 [B1 [X1 [O1 [D1 S1]]]]]]]].
    rewrite E1.
    assert (Oc : CacheOK cget s1 (if sch_stale x then c else c1))
      by (destruct (sch_stale x); [apply (cacheok_extends C cget s s1 c B X1 O) | exact O1]).
    destruct (HE (sch_r x) s1 _ B1 X1 Oc) as [s2 [c2 [e [E2 [B2 [X2 [O2 [D2 S2]]]]]]]].
    rewrite E2. exists s2, c2, t, e.
    split; [reflexivity|]. split; [exact B2|]. split; [eapply extends_trans; eauto|].
    split; [exact O2|]. split; [apply (den_extends s1 s2 _ _ B1 X2 D1)|]. split; [exact D2|].
    intros q0 q1 Dq0 Dq1. destruct (S1 q0 Dq0) as [-> ->]. destruct (S2 q1 Dq1) as [-> ->]. auto.
Qed.

Lemma cofn_self : forall Phi lvl c0, indep Phi lvl -> bchoice c0 ->
  cofn Phi lvl (c0 lvl) c0 = Phi c0.
Proof.
  intros Phi lvl c0 I Hc. unfold cofn. apply I; [apply bchoice_upd; auto | exact Hc|].
  intros l _. unfold cupd. destruct (Nat.eqb_spec l lvl); [subst; reflexivity | reflexivity].
Qed.

Lemma join2_ok : forall x runT runE s c lvl code args Phi,
  BddOK s -> CacheOK cget s c -> lvl < nlevels s -> indep Phi lvl ->
  run_ok s runT (cofn Phi lvl 0) -> run_ok s runE (cofn Phi lvl 1) ->
  (forall s3 r, BddOK s3 -> extends s s3 -> Den s3 r Phi -> entry_ok s3 code args r) ->
  result_ok C cget s c (join2 alloc C cadd x runT runE s c lvl code args) Phi.
Proof.
  intros x runT runE s c lvl code args Phi B O Hlvl I HT HE Hent. unfold join2.
  destruct (fork2_ok x runT runE s c _ _ B O HT HE)
    as [s2 [c2 [t [e [Ef [B2 [X2 [O2 [Dt [De Sf]]]]]]]]]].
  rewrite Ef. destruct (mk_node_a alloc s2 lvl [E t; E e]) as [s3 h] eqn:Em.
  assert (I0 : indep (cofn Phi lvl 0) (S lvl)) by (apply (indep_cofn Phi lvl lvl 0 I); lia).
  assert (I1 : indep (cofn Phi lvl 1) (S lvl)) by (apply (indep_cofn Phi lvl lvl 1 I); lia).
  assert (Hl2 : lvl < nlevels s2) by (rewrite (ext_nlevels _ _ X2); exact Hlvl).
  destruct (node_step_a alloc Halloc s2 lvl t e _ _ s3 h B2 Hl2 Dt De I0 I1 Em) as [B3 [X3 Dh]].
  assert (X03 : extends s s3) by (eapply extends_trans; eauto).
  assert (Heq : forall c0, bchoice c0 ->
            (if Nat.eqb (c0 lvl) 0 then cofn Phi lvl 0 c0 else cofn Phi lvl 1 c0) = Phi c0).
  { intros c0 Hc. rewrite (shannon_pick c0 lvl (fun i => cofn Phi lvl i c0) Hc).
    apply cofn_self; assumption. }
  assert (Dres : Den s3 (eref h) Phi) by (apply (den_ext _ _ _ _ Dh Heq)).
  exists s3, (cadd c2 code args (eref h)), (eref h).
  split; [reflexivity|]. split; [exact B3|]. split; [exact X03|].
  split; [|split; [exact Dres|]].
  { apply (cacheok_add C cget cadd Hlossy); [apply (cacheok_extends C cget s2 s3 c2 B2 X3 O2)|].
    apply Hent; assumption. }
  intros r0 D0.
  assert (L0 : lvl <= rlevel s r0) by (apply (den_level s r0 Phi lvl B D0 ltac:(lia) I)).
  destruct (den_cof_exists s r0 _ lvl 0 B D0 L0 Hlvl ltac:(lia)) as [q0 Dq0].
  destruct (den_cof_exists s r0 _ lvl 1 B D0 L0 Hlvl ltac:(lia)) as [q1 Dq1].
  destruct (Sf q0 q1 Dq0 Dq1) as [-> [-> ->]].
  apply (mk_node_stable_a alloc Halloc s lvl q0 q1 _ _ s3 h r0 B Hlvl Dt De I0 I1 Em).
  apply (den_ext s r0 _ _ D0). intros c0 Hc. symmetry. apply Heq. exact Hc.
Qed.

(** ** [apply_not_g] *)

Lemma apply_not_g_S : forall n x s c f,
  apply_not_g alloc C cget cadd (S n) x s c f =
  match f with
  | RT _ =>
    match view s f with
    | Some (VT b) =>
      match term_of s (negb b) with Some t => Some (s, c, RT t) | None => None end
    | _ => None
    end
  | RN id =>
    match find_node s id with
    | None => None
    | Some nd =>
      match cget c code_not [f] with
      | Some h => Some (s, c, h)
      | None =>
        match nchildren nd with
        | [ft; fe] =>
          join2 alloc C cadd x
                (fun x' s' c' => apply_not_g alloc C cget cadd n x' s' c' (eref ft))
                (fun x' s' c' => apply_not_g alloc C cget cadd n x' s' c' (eref fe))
                s c (nstored nd) code_not [f]
        | _ => None
        end
      end
    end
  end.
Proof. reflexivity. Qed.

Theorem apply_not_g_ok : forall fuel x s c f phi,
  BddOK s -> CacheOK cget s c -> Den s f phi -> nlevels s - rlevel s f < fuel ->
  result_ok C cget s c (apply_not_g alloc C cget cadd fuel x s c f) (fun c0 => negb (phi c0)).
Proof.
  induction fuel as [|n IH]; intros x s c f phi B O D Hf; [lia|].
  pose proof (bo_wf s B) as H.
  rewrite apply_not_g_S. destruct f as [t|id].
  - destruct (view_total s (RT t) B (proj1 D)) as [v V]. rewrite V.
    destruct v as [|b]; [destruct (view_VI s _ V) as [i Hi]; discriminate|].
    destruct (term_of_total s (negb b) B) as [t' Et]. rewrite Et.
    apply result_ok_here; auto.
    apply (den_ext s (RT t') (fun _ => negb b)); [apply den_const; auto|].
    intros c0 Hc. rewrite (view_den_T s (RT t) b phi D V c0 Hc). reflexivity.
  - destruct (proj1 D) as [nd E]. rewrite E.
    rewrite (rlevel_node s id nd E) in Hf. pose proof (wf_level s H id nd E) as Hlv.
    destruct (cget c code_not [RN id]) as [h|] eqn:Eg.
    + destruct (O _ _ _ Eg eq_refl) as [phi' [D' Dh]].
      apply result_ok_here; auto.
      apply (den_ext s h _ _ Dh). intros c0 Hc.
      rewrite (den_unique s (RN id) phi' phi D' D c0 Hc). reflexivity.
    + destruct (bdd_children s id nd B E) as [a [b Ech]]. rewrite Ech.
      assert (Ha : nth_error (nchildren nd) 0 = Some a) by (rewrite Ech; reflexivity).
      assert (Hb : nth_error (nchildren nd) 1 = Some b) by (rewrite Ech; reflexivity).
      pose proof (den_child s id nd 0 a phi B D E Ha) as Da.
      pose proof (den_child s id nd 1 b phi B D E Hb) as Db.
      destruct (child_nth s H id nd 0 a E Ha) as [Oa La].
      destruct (child_nth s H id nd 1 b E Hb) as [Ob Lb].
      rewrite (wf_stored s H id nd E).
      assert (Ip : indep phi (nlevel nd))
        by (rewrite <- (rlevel_node s id nd E); apply (den_indep s _ phi H D)).
      apply join2_ok; auto.
      * intros u v Hu Hv Euv. f_equal. apply Ip; auto.
      * intros x' s' c' B' X' O'.
        apply (IH x' s' c' (eref a) (cofn phi (nlevel nd) 0) B' O' (den_extends s s' _ _ B X' Da)).
        rewrite (ext_nlevels _ _ X'), (ext_rlevel _ _ _ X' Oa). lia.
      * intros x' s' c' B' X' O'.
        apply (IH x' s' c' (eref b) (cofn phi (nlevel nd) 1) B' O' (den_extends s s' _ _ B X' Db)).
        rewrite (ext_nlevels _ _ X'), (ext_rlevel _ _ _ X' Ob). lia.
      * intros s3 r B3 X3 Dr _. exists phi. split; [apply (den_extends s s3 _ _ B X3 D) | exact Dr].
Qed.

(** ** [apply_bin_g] *)

Lemma apply_bin_g_S : forall n x s c op f g,
  apply_bin_g alloc gt C cget cadd (S n) x s c op f g =
  match terminal_bin gt s op f g with
  | TFail => None
  | TDone h => Some (s, c, h)
  | TNot r => apply_not_g alloc C cget cadd (S n) x s c r
  | TBin o a b =>
    match cget c (op_code o) [a; b] with
    | Some h => Some (s, c, h)
    | None =>
      match inner s f, inner s g with
      | Some fnode, Some gnode =>
        let lvl := Nat.min (nstored fnode) (nstored gnode) in
        match cof2 f fnode lvl, cof2 g gnode lvl with
        | Some (ft, fe), Some (gt', ge) =>
          join2 alloc C cadd x
                (fun x' s' c' => apply_bin_g alloc gt C cget cadd n x' s' c' op ft gt')
                (fun x' s' c' => apply_bin_g alloc gt C cget cadd n x' s' c' op fe ge)
                s c lvl (op_code o) [a; b]
        | _, _ => None
        end
      | _, _ => None
      end
    end
  end.
Proof. reflexivity. Qed.

Theorem apply_bin_g_ok : forall op fuel x s c f g phi psi,
  BddOK s -> CacheOK cget s c -> Den s f phi -> Den s g psi ->
  nlevels s - Nat.min (rlevel s f) (rlevel s g) < fuel ->
  result_ok C cget s c (apply_bin_g alloc gt C cget cadd fuel x s c op f g)
            (fun c0 => eval_bop op (phi c0) (psi c0)).
Proof.
  intros op. induction fuel as [|n IH]; intros x s c f g phi psi B O Df Dg Hfuel; [lia|].
  pose proof (bo_wf s B) as H.
  rewrite apply_bin_g_S.
  pose proof (terminal_bin_sound gt s op f g phi psi B Df Dg) as T.
  destruct (terminal_bin gt s op f g) as [r|r|o a b|] eqn:Etb; [| | |contradiction].
  - apply result_ok_here; auto.
  - destruct T as [Hr [rho [Dr Hrho]]].
    assert (Hfr : nlevels s - rlevel s r < S n) by (destruct Hr as [->| ->]; lia).
    apply (result_ok_ext C cget s c _ (fun c0 => negb (rho c0))).
    + apply (apply_not_g_ok (S n) x s c r rho B O Dr Hfr).
    + intros c0 Hc. symmetry. apply Hrho. exact Hc.
  - destruct T as [-> [[idf ->] [[idg ->] Hab]]].
    destruct (proj1 Df) as [fnd Ef]. destruct (proj1 Dg) as [gnd Eg].
    rewrite (rlevel_node s idf fnd Ef), (rlevel_node s idg gnd Eg) in Hfuel.
    pose proof (wf_level s H idf fnd Ef) as Hlf. pose proof (wf_level s H idg gnd Eg) as Hlg.
    destruct (cget c (op_code op) [a; b]) as [h|] eqn:Ec.
    + destruct (O _ _ _ Ec op eq_refl) as [pa [pb [Da [Db Dh]]]].
      apply result_ok_here; auto. apply (den_ext s h _ _ Dh). intros c0 Hc.
      destruct Hab as [[-> ->]|[-> [-> Hcomm]]].
      * rewrite (den_unique s _ pa phi Da Df c0 Hc), (den_unique s _ pb psi Db Dg c0 Hc). reflexivity.
      * rewrite (den_unique s _ pa psi Da Dg c0 Hc), (den_unique s _ pb phi Db Df c0 Hc). apply Hcomm.
    + simpl inner. rewrite Ef, Eg.
      rewrite (wf_stored s H idf fnd Ef), (wf_stored s H idg gnd Eg).
      set (lvl := Nat.min (nlevel fnd) (nlevel gnd)) in *. cbv zeta.
      destruct (cof2_ok s idf fnd phi lvl B Df Ef ltac:(lia)) as [ft [fe [Ecf [Dft [Dfe [Lft Lfe]]]]]].
      destruct (cof2_ok s idg gnd psi lvl B Dg Eg ltac:(lia)) as [gt' [ge [Ecg [Dgt [Dge [Lgt Lge]]]]]].
      rewrite Ecf, Ecg.
      assert (Hlvl : lvl < nlevels s) by lia.
      assert (Ip : indep phi (nlevel fnd))
        by (rewrite <- (rlevel_node s idf fnd Ef); apply (den_indep s _ phi H Df)).
      assert (Iq : indep psi (nlevel gnd))
        by (rewrite <- (rlevel_node s idg gnd Eg); apply (den_indep s _ psi H Dg)).
      apply join2_ok; auto.
      * intros u v Hu Hv Euv. f_equal.
        -- apply (indep_mono phi _ lvl Ip ltac:(lia)); auto.
        -- apply (indep_mono psi _ lvl Iq ltac:(lia)); auto.
      * intros x' s' c' B' X' O'.
        apply (IH x' s' c' ft gt' (cofn phi lvl 0) (cofn psi lvl 0) B' O'
                  (den_extends s s' _ _ B X' Dft) (den_extends s s' _ _ B X' Dgt)).
        rewrite (ext_nlevels _ _ X'), (ext_rlevel _ _ _ X' (proj1 Dft)), (ext_rlevel _ _ _ X' (proj1 Dgt)). lia.
      * intros x' s' c' B' X' O'.
        apply (IH x' s' c' fe ge (cofn phi lvl 1) (cofn psi lvl 1) B' O'
                  (den_extends s s' _ _ B X' Dfe) (den_extends s s' _ _ B X' Dge)).
        rewrite (ext_nlevels _ _ X'), (ext_rlevel _ _ _ X' (proj1 Dfe)), (ext_rlevel _ _ _ X' (proj1 Dge)). lia.
      * intros s3 r B3 X3 Dr o Ho. apply op_code_inj in Ho. subst o.
        pose proof (den_extends s s3 _ _ B X3 Df) as Df3.
        pose proof (den_extends s s3 _ _ B X3 Dg) as Dg3.
        destruct Hab as [[-> ->]|[-> [-> Hcomm]]].
        -- exists phi, psi. auto.
        -- exists psi, phi. split; [exact Dg3|]. split; [exact Df3|].
           apply (den_ext _ _ _ _ Dr). intros c0 _. apply Hcomm.
Qed.

(** ** [apply_ite_g] *)

Lemma apply_ite_g_S : forall n x s c f g h,
  apply_ite_g alloc gt C cget cadd (S n) x s c f g h =
    if ref_eqb g h then Some (s, c, g)
    else if ref_eqb f g then apply_bin_g alloc gt C cget cadd (S n) x s c OOr f h
    else if ref_eqb f h then apply_bin_g alloc gt C cget cadd (S n) x s c OAnd f g
    else
      match view s f with
      | None => None
      | Some (VT b) => Some (s, c, if b then g else h)
      | Some VI =>
        match view s g, view s h with
        | Some (VT true), Some VI => apply_bin_g alloc gt C cget cadd (S n) x s c OOr f h
        | Some (VT false), Some VI => apply_bin_g alloc gt C cget cadd (S n) x s c OImpStrict f h
        | Some VI, Some (VT true) => apply_bin_g alloc gt C cget cadd (S n) x s c OImp f g
        | Some VI, Some (VT false) => apply_bin_g alloc gt C cget cadd (S n) x s c OAnd f g
        | Some (VT false), Some (VT _) => apply_not_g alloc C cget cadd (S n) x s c f
        | Some (VT true), Some (VT _) => Some (s, c, f)
        | Some VI, Some VI =>
          match cget c code_ite [f; g; h] with
          | Some r => Some (s, c, r)
          | None =>
            match inner s f, inner s g, inner s h with
            | Some fnode, Some gnode, Some hnode =>
              let lvl := Nat.min (Nat.min (nstored fnode) (nstored gnode)) (nstored hnode) in
              match cof2 f fnode lvl, cof2 g gnode lvl, cof2 h hnode lvl with
              | Some (ft, fe), Some (gt', ge), Some (ht, he) =>
                join2 alloc C cadd x
                      (fun x' s' c' => apply_ite_g alloc gt C cget cadd n x' s' c' ft gt' ht)
                      (fun x' s' c' => apply_ite_g alloc gt C cget cadd n x' s' c' fe ge he)
                      s c lvl code_ite [f; g; h]
              | _, _, _ => None
              end
            | _, _, _ => None
            end
          end
        | _, _ => None
        end
      end.
Proof. reflexivity. Qed.

Local Ltac pw3 phi psi theta :=
  let c0 := fresh "c0" in let Hc := fresh "Hc" in
  intros c0 Hc; cbv beta;
  repeat match goal with
         | Hx : forall c, bchoice c -> _ = _ |- _ => pose proof (Hx c0 Hc); clear Hx
         end;
  destruct (phi c0); destruct (psi c0); destruct (theta c0); simpl in *; congruence.

Theorem apply_ite_g_ok : forall fuel x s c f g h phi psi theta,
  BddOK s -> CacheOK cget s c -> Den s f phi -> Den s g psi -> Den s h theta ->
  nlevels s - Nat.min (Nat.min (rlevel s f) (rlevel s g)) (rlevel s h) < fuel ->
  result_ok C cget s c (apply_ite_g alloc gt C cget cadd fuel x s c f g h)
            (fun c0 => if phi c0 then psi c0 else theta c0).
Proof.
  induction fuel as [|n IH]; intros x s c f g h phi psi theta B O Df Dg Dh Hfuel; [lia|].
  pose proof (bo_wf s B) as H.
  rewrite apply_ite_g_S.
  destruct (ref_eqb g h) eqn:Egh.
  { apply ref_eqb_true in Egh. subst h.
    pose proof (den_unique s g psi theta Dg Dh) as U.
    apply result_ok_here; auto. apply (den_ext s g psi); [exact Dg|]. pw3 phi psi theta. }
  destruct (ref_eqb f g) eqn:Efg.
  { apply ref_eqb_true in Efg. subst g.
    pose proof (den_unique s f phi psi Df Dg) as U.
    apply (result_ok_ext C cget s c _ (fun c0 => eval_bop OOr (phi c0) (theta c0))).
    - apply (apply_bin_g_ok OOr (S n) x s c f h phi theta B O Df Dh). lia.
    - pw3 phi psi theta. }
  destruct (ref_eqb f h) eqn:Efh.
  { apply ref_eqb_true in Efh. subst h.
    pose proof (den_unique s f phi theta Df Dh) as U.
    apply (result_ok_ext C cget s c _ (fun c0 => eval_bop OAnd (phi c0) (psi c0))).
    - apply (apply_bin_g_ok OAnd (S n) x s c f g phi psi B O Df Dg). lia.
    - pw3 phi psi theta. }
  destruct (view_total s f B (proj1 Df)) as [vf Vf].
  destruct (view_total s g B (proj1 Dg)) as [vg Vg].
  destruct (view_total s h B (proj1 Dh)) as [vh Vh].
  rewrite Vf. destruct vf as [|bf].
  2:{ pose proof (view_den_T s f bf phi Df Vf) as U.
      apply result_ok_here; auto. destruct bf.
      - apply (den_ext s g psi); [exact Dg|]. pw3 phi psi theta.
      - apply (den_ext s h theta); [exact Dh|]. pw3 phi psi theta. }
  rewrite Vg, Vh. destruct vg as [|[]], vh as [|[]].
  - (* all three inner *)
    destruct (view_VI s f Vf) as [idf ->]. destruct (view_VI s g Vg) as [idg ->].
    destruct (view_VI s h Vh) as [idh ->].
    destruct (proj1 Df) as [fnd Ef]. destruct (proj1 Dg) as [gnd Eg]. destruct (proj1 Dh) as [hnd Eh].
    rewrite (rlevel_node s idf fnd Ef), (rlevel_node s idg gnd Eg), (rlevel_node s idh hnd Eh) in Hfuel.
    pose proof (wf_level s H idf fnd Ef) as Hlf. pose proof (wf_level s H idg gnd Eg) as Hlg.
    pose proof (wf_level s H idh hnd Eh) as Hlh.
    destruct (cget c code_ite [RN idf; RN idg; RN idh]) as [r|] eqn:Ec.
    + destruct (O _ _ _ Ec eq_refl) as [pa [pb [pc [Da [Db [Dc Dr]]]]]].
      apply result_ok_here; auto. apply (den_ext s r _ _ Dr). intros c0 Hc.
      rewrite (den_unique s _ pa phi Da Df c0 Hc), (den_unique s _ pb psi Db Dg c0 Hc),
              (den_unique s _ pc theta Dc Dh c0 Hc). reflexivity.
    + simpl inner. rewrite Ef, Eg, Eh.
      rewrite (wf_stored s H idf fnd Ef), (wf_stored s H idg gnd Eg), (wf_stored s H idh hnd Eh).
      set (lvl := Nat.min (Nat.min (nlevel fnd) (nlevel gnd)) (nlevel hnd)) in *. cbv zeta.
      destruct (cof2_ok s idf fnd phi lvl B Df Ef ltac:(lia)) as [ft [fe [Ecf [Dft [Dfe [Lft Lfe]]]]]].
      destruct (cof2_ok s idg gnd psi lvl B Dg Eg ltac:(lia)) as [gt' [ge [Ecg [Dgt [Dge [Lgt Lge]]]]]].
      destruct (cof2_ok s idh hnd theta lvl B Dh Eh ltac:(lia)) as [ht [he [Ech [Dht [Dhe [Lht Lhe]]]]]].
      rewrite Ecf, Ecg, Ech.
      assert (Hlvl : lvl < nlevels s) by lia.
      assert (Ip : indep phi (nlevel fnd))
        by (rewrite <- (rlevel_node s idf fnd Ef); apply (den_indep s _ phi H Df)).
      assert (Iq : indep psi (nlevel gnd))
        by (rewrite <- (rlevel_node s idg gnd Eg); apply (den_indep s _ psi H Dg)).
      assert (Ir : indep theta (nlevel hnd))
        by (rewrite <- (rlevel_node s idh hnd Eh); apply (den_indep s _ theta H Dh)).
      apply join2_ok; auto.
      * intros u v Hu Hv Euv.
        rewrite (indep_mono phi _ lvl Ip ltac:(lia) u v Hu Hv Euv).
        rewrite (indep_mono psi _ lvl Iq ltac:(lia) u v Hu Hv Euv).
        rewrite (indep_mono theta _ lvl Ir ltac:(lia) u v Hu Hv Euv). reflexivity.
      * intros x' s' c' B' X' O'.
        apply (IH x' s' c' ft gt' ht (cofn phi lvl 0) (cofn psi lvl 0) (cofn theta lvl 0) B' O'
                  (den_extends s s' _ _ B X' Dft) (den_extends s s' _ _ B X' Dgt)
                  (den_extends s s' _ _ B X' Dht)).
        rewrite (ext_nlevels _ _ X'), (ext_rlevel _ _ _ X' (proj1 Dft)),
                (ext_rlevel _ _ _ X' (proj1 Dgt)), (ext_rlevel _ _ _ X' (proj1 Dht)). lia.
      * intros x' s' c' B' X' O'.
        apply (IH x' s' c' fe ge he (cofn phi lvl 1) (cofn psi lvl 1) (cofn theta lvl 1) B' O'
                  (den_extends s s' _ _ B X' Dfe) (den_extends s s' _ _ B X' Dge)
                  (den_extends s s' _ _ B X' Dhe)).
        rewrite (ext_nlevels _ _ X'), (ext_rlevel _ _ _ X' (proj1 Dfe)),
                (ext_rlevel _ _ _ X' (proj1 Dge)), (ext_rlevel _ _ _ X' (proj1 Dhe)). lia.
      * intros s3 r B3 X3 Dr _. exists phi, psi, theta.
        split; [apply (den_extends s s3 _ _ B X3 Df)|].
        split; [apply (den_extends s s3 _ _ B X3 Dg)|].
        split; [apply (den_extends s s3 _ _ B X3 Dh) | exact Dr].
  - pose proof (view_den_T s h true theta Dh Vh) as U.
    apply (result_ok_ext C cget s c _ (fun c0 => eval_bop OImp (phi c0) (psi c0))).
    + apply (apply_bin_g_ok OImp (S n) x s c f g phi psi B O Df Dg). lia.
    + pw3 phi psi theta.
  - pose proof (view_den_T s h false theta Dh Vh) as U.
    apply (result_ok_ext C cget s c _ (fun c0 => eval_bop OAnd (phi c0) (psi c0))).
    + apply (apply_bin_g_ok OAnd (S n) x s c f g phi psi B O Df Dg). lia.
    + pw3 phi psi theta.
  - pose proof (view_den_T s g true psi Dg Vg) as U.
    apply (result_ok_ext C cget s c _ (fun c0 => eval_bop OOr (phi c0) (theta c0))).
    + apply (apply_bin_g_ok OOr (S n) x s c f h phi theta B O Df Dh). lia.
    + pw3 phi psi theta.
  - pose proof (view_den_T s g true psi Dg Vg) as U. pose proof (view_den_T s h true theta Dh Vh) as U'.
    exfalso. destruct (view_VT s g true Vg) as [tg [-> Tg]]. destruct (view_VT s h true Vh) as [th [-> Th]].
    rewrite (term_val_inj s tg th _ H Tg Th) in Egh.
    assert (Xe : ref_eqb (RT th) (RT th) = true) by (apply ref_eqb_eq; reflexivity). congruence.
  - pose proof (view_den_T s g true psi Dg Vg) as U. pose proof (view_den_T s h false theta Dh Vh) as U'.
    apply result_ok_here; auto. apply (den_ext s f phi); [exact Df|]. pw3 phi psi theta.
  - pose proof (view_den_T s g false psi Dg Vg) as U.
    apply (result_ok_ext C cget s c _ (fun c0 => eval_bop OImpStrict (phi c0) (theta c0))).
    + apply (apply_bin_g_ok OImpStrict (S n) x s c f h phi theta B O Df Dh). lia.
    + pw3 phi psi theta.
  - pose proof (view_den_T s g false psi Dg Vg) as U. pose proof (view_den_T s h true theta Dh Vh) as U'.
    apply (result_ok_ext C cget s c _ (fun c0 => negb (phi c0))).
    + apply (apply_not_g_ok (S n) x s c f phi B O Df). lia.
    + pw3 phi psi theta.
  - exfalso. destruct (view_VT s g false Vg) as [tg [-> Tg]]. destruct (view_VT s h false Vh) as [th [-> Th]].
    rewrite (term_val_inj s tg th _ H Tg Th) in Egh.
    assert (Xe : ref_eqb (RT th) (RT th) = true) by (apply ref_eqb_eq; reflexivity). congruence.
Qed.

End Gen.

(** ** The sequential configuration with [fresh_id] is the model of DD/Apply.v *)

Lemma mk_node_a_fresh : forall s lvl ch, mk_node_a fresh_id s lvl ch = mk_node s lvl ch.
Proof. reflexivity. Qed.

Section Seq.
Variable gt : ref -> ref -> bool.
Variable C : Type.
Variable cget : C -> N -> list ref -> option ref.
Variable cadd : C -> N -> list ref -> ref -> C.

Lemma join2_seq : forall runT runE runT' runE' s c lvl code args,
  (forall s' c', runT SSeq s' c' = runT' s' c') -> (forall s' c', runE SSeq s' c' = runE' s' c') ->
  join2 fresh_id C cadd SSeq runT runE s c lvl code args =
  match runT' s c with
  | None => None
  | Some (s1, c1, t) =>
    match runE' s1 c1 with
    | None => None
    | Some (s2, c2, e) =>
      let '(s3, h) := mk_node s2 lvl [E t; E e] in
      Some (s3, cadd c2 code args (eref h), eref h)
    end
  end.
Proof.
  intros runT runE runT' runE' s c lvl code args HT HE. unfold join2, fork2. simpl.
  rewrite HT. destruct (runT' s c) as [[[s1 c1] t]|]; [|reflexivity].
  rewrite HE. destruct (runE' s1 c1) as [[[s2 c2] e]|]; reflexivity.
Qed.

Theorem apply_not_g_seq : forall fuel s c f,
  apply_not_g fresh_id C cget cadd fuel SSeq s c f = apply_not C cget cadd fuel s c f.
Proof.
  induction fuel as [|n IH]; intros s c f; [reflexivity|].
  rewrite apply_not_g_S, apply_not_S. destruct f as [t|id]; [reflexivity|].
  destruct (find_node s id) as [nd|]; [|reflexivity].
  destruct (cget c code_not [RN id]); [reflexivity|].
  destruct (nchildren nd) as [|ft [|fe [|z r]]]; try reflexivity.
  apply (join2_seq _ _ (fun s' c' => apply_not C cget cadd n s' c' (eref ft))
                       (fun s' c' => apply_not C cget cadd n s' c' (eref fe))); intros; apply IH.
Qed.

Theorem apply_bin_g_seq : forall fuel s c op f g,
  apply_bin_g fresh_id gt C cget cadd fuel SSeq s c op f g = apply_bin gt C cget cadd fuel s c op f g.
Proof.
  induction fuel as [|n IH]; intros s c op f g; [reflexivity|].
  rewrite apply_bin_g_S, apply_bin_S. destruct (terminal_bin gt s op f g) as [r|r|o a b|]; try reflexivity.
  - apply apply_not_g_seq.
  - destruct (cget c (op_code o) [a; b]); [reflexivity|].
    destruct (inner s f) as [fn|]; [|reflexivity]. destruct (inner s g) as [gn|]; [|reflexivity].
    cbv zeta. destruct (cof2 f fn _) as [[ft fe]|]; [|reflexivity].
    destruct (cof2 g gn _) as [[gt' ge]|]; [|reflexivity].
    apply (join2_seq _ _ (fun s' c' => apply_bin gt C cget cadd n s' c' op ft gt')
                         (fun s' c' => apply_bin gt C cget cadd n s' c' op fe ge)); intros; apply IH.
Qed.

Theorem apply_ite_g_seq : forall fuel s c f g h,
  apply_ite_g fresh_id gt C cget cadd fuel SSeq s c f g h = apply_ite gt C cget cadd fuel s c f g h.
Proof.
  induction fuel as [|n IH]; intros s c f g h; [reflexivity|].
  rewrite apply_ite_g_S, apply_ite_S.
  destruct (ref_eqb g h); [reflexivity|].
  destruct (ref_eqb f g); [apply apply_bin_g_seq|].
  destruct (ref_eqb f h); [apply apply_bin_g_seq|].
  destruct (view s f) as [[|bf]|]; try reflexivity.
  destruct (view s g) as [[|[]]|], (view s h) as [[|[]]|]; try reflexivity;
    try apply apply_bin_g_seq; try apply apply_not_g_seq.
  destruct (cget c code_ite [f; g; h]); [reflexivity|].
  destruct (inner s f) as [fn|]; [|reflexivity]. destruct (inner s g) as [gn|]; [|reflexivity].
  destruct (inner s h) as [hn|]; [|reflexivity].
  cbv zeta. destruct (cof2 f fn _) as [[ft fe]|]; [|reflexivity].
  destruct (cof2 g gn _) as [[gt' ge]|]; [|reflexivity].
  destruct (cof2 h hn _) as [[ht he]|]; [|reflexivity].
  apply (join2_seq _ _ (fun s' c' => apply_ite gt C cget cadd n s' c' ft gt' ht)
                       (fun s' c' => apply_ite gt C cget cadd n s' c' fe ge he)); intros; apply IH.
Qed.

End Seq.
