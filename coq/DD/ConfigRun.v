(** * C20: whole API-call histories under two arbitrary configurations

    [sim s1 s2]: two manager tables (two builds of the library: different node
    store, cache, operand order, threading, worker count) are both well-formed
    BDD tables with the same variable order, hold the same handle slots, and
    the two edges of every slot denote the same function.  No node id of one
    table is compared with a node id of the other.

    - [mstep_sim] / [run_ops_sim]: every API call ([mop]) and hence every
      history preserves [sim], whatever the two configurations are; the two
      runs fail ([None]) together;
    - [sim_observe]: under [sim] the observables agree: same slots, same value
      of every handle under every assignment, same node count of every
      handle, same variable order; both tables satisfy [wf_b];
    - [run_ops_cache_exact]: if the two configurations differ in the apply
      cache and the operand order only, the two final tables are identical. *)

From Coq Require Import List NArith PArith Bool Arith Lia FMapPositive.
From OxiVerif Require Import DD.Table DD.TableProofs DD.Canon DD.Sem DD.Build DD.BuildProofs
  DD.Apply DD.ApplyProofs DD.ConfigApply DD.ConfigProofs DD.ConfigCache DD.Iso.
Import ListNotations.

(** ** Changing the handle list *)

Lemma semk_set_handles : forall s hs f r c, semk (set_handles s hs) f r c = semk s f r c.
Proof.
  intros s hs. induction f as [|f IH]; intros r c; destruct r as [t|id]; try reflexivity.
  rewrite !semk_S. change (find_node (set_handles s hs) id) with (find_node s id).
  destruct (find_node s id) as [nd|]; [|reflexivity].
  destruct (nth_error (nchildren nd) (c (nlevel nd))); [apply IH | reflexivity].
Qed.

Lemma den_set_handles : forall s hs r phi, Den s r phi -> Den (set_handles s hs) r phi.
Proof.
  intros s hs r phi [A D]. split; [exact A|]. intros c Hc. rewrite semk_set_handles. exact (D c Hc).
Qed.

Lemma bddok_set_handles : forall s hs, BddOK s ->
  (forall h, In h hs -> ref_ok s (eref (snd h)) /\ etag (snd h) = false) ->
  BddOK (set_handles s hs).
Proof.
  intros s hs B Hh. pose proof (bo_wf s B) as H. constructor.
  - constructor.
    + exact (wf_perm_len s H).
    + exact (wf_perm_v2l s H).
    + exact (wf_perm_l2v s H).
    + exact (wf_arity s H).
    + exact (wf_stored s H).
    + exact (wf_level s H).
    + exact (wf_child s H).
    + exact (wf_reduced s H).
    + exact (wf_tags s H).
    + exact (wf_unique s H).
    + exact (wf_term_ids s H).
    + exact (wf_term_vals s H).
    + intros h Hin. destruct (Hh h Hin) as [A T]. split; [exact A | intros _; exact T].
  - exact (bo_kind s B).
  - exact (bo_codes s B).
  - exact (bo_false s B).
  - exact (bo_true s B).
Qed.

Lemma entry_ok_set_handles : forall s hs code args r,
  entry_ok s code args r -> entry_ok (set_handles s hs) code args r.
Proof.
  intros s hs code args r. unfold entry_ok.
  destruct args as [|f [|g [|h [|x rest]]]]; auto.
  - intros Hx Hc. destruct (Hx Hc) as [phi [A D]]. exists phi. split; apply den_set_handles; assumption.
  - intros Hx o Hc. destruct (Hx o Hc) as [phi [psi [A [A' D]]]]. exists phi, psi.
    split; [|split]; apply den_set_handles; assumption.
  - intros Hx Hc. destruct (Hx Hc) as [phi [psi [theta [A [A' [A'' D]]]]]]. exists phi, psi, theta.
    split; [|split; [|split]]; apply den_set_handles; assumption.
Qed.

Lemma cacheok_set_handles : forall C (cget : C -> N -> list ref -> option ref) s hs c,
  CacheOK cget s c -> CacheOK cget (set_handles s hs) c.
Proof. intros C cget s hs c O code args r E. apply entry_ok_set_handles. apply (O _ _ _ E). Qed.

Lemma hdel_In : forall hs k h, In h (hdel hs k) -> In h hs.
Proof. intros hs k h Hin. unfold hdel in Hin. apply filter_In in Hin. tauto. Qed.

Lemma bdd_handle_ok : forall s h, BddOK s -> In h (s_handles s) ->
  ref_ok s (eref (snd h)) /\ etag (snd h) = false.
Proof.
  intros s h B Hin. destruct (wf_handles s (bo_wf s B) h Hin) as [A T].
  split; [exact A|]. apply T. rewrite (bo_kind s B). discriminate.
Qed.

Lemma bddok_put : forall s d r, BddOK s -> ref_ok s r -> BddOK (put s d r).
Proof.
  intros s d r B Hr. apply bddok_set_handles; [exact B|].
  intros h [<-|Hin]; [simpl; auto|]. apply (bdd_handle_ok s h B). eapply hdel_In; eauto.
Qed.

Lemma bddok_drop : forall s d, BddOK s -> BddOK (set_handles s (hdel (s_handles s) d)).
Proof.
  intros s d B. apply bddok_set_handles; [exact B|].
  intros h Hin. apply (bdd_handle_ok s h B). eapply hdel_In; eauto.
Qed.

Lemma hget_In : forall hs k e, hget hs k = Some e -> In (k, e) hs.
Proof.
  induction hs as [|[a x] r IH]; intros k e E; simpl in E; [discriminate|].
  destruct (N.eqb_spec a k) as [->|Hn]; [inversion E; subst; left; reflexivity | right; auto].
Qed.

(** ** The simulation relation *)

(** same slot, untagged edges denoting the same function *)
Definition hrel (s1 s2 : snap) (h1 h2 : N * edge) : Prop :=
  fst h1 = fst h2 /\ etag (snd h1) = false /\ etag (snd h2) = false /\
  exists phi, Den s1 (eref (snd h1)) phi /\ Den s2 (eref (snd h2)) phi.

Record sim (s1 s2 : snap) : Prop := mkSim {
  sim_b1 : BddOK s1;
  sim_b2 : BddOK s2;
  sim_v2l : s_v2l s1 = s_v2l s2;
  sim_l2v : s_l2v s1 = s_l2v s2;
  sim_h : Forall2 (hrel s1 s2) (s_handles s1) (s_handles s2)
}.

Lemma sim_nlevels : forall s1 s2, sim s1 s2 -> nlevels s1 = nlevels s2.
Proof. intros s1 s2 S. unfold nlevels. rewrite (sim_l2v _ _ S). reflexivity. Qed.

(** every denotation of [s] is a denotation of [s'] *)
Definition den_mono (s s' : snap) : Prop := forall r phi, Den s r phi -> Den s' r phi.

Lemma den_mono_put : forall s s' d r, BddOK s -> extends s s' -> den_mono s (put s' d r).
Proof. intros s s' d r B X q phi D. apply den_set_handles. apply (den_extends s s' _ _ B X D). Qed.

Lemma hrel_mono : forall s1 s2 s1' s2' h1 h2, den_mono s1 s1' -> den_mono s2 s2' ->
  hrel s1 s2 h1 h2 -> hrel s1' s2' h1 h2.
Proof.
  intros s1 s2 s1' s2' h1 h2 M1 M2 [A [T1 [T2 [phi [D1 D2]]]]].
  split; [exact A|]. split; [exact T1|]. split; [exact T2|]. exists phi. auto.
Qed.

Lemma hget_rel : forall s1 s2 hs1 hs2 k, Forall2 (hrel s1 s2) hs1 hs2 ->
  match hget hs1 k, hget hs2 k with
  | Some e1, Some e2 => exists phi, Den s1 (eref e1) phi /\ Den s2 (eref e2) phi
  | None, None => True
  | _, _ => False
  end.
Proof.
  intros s1 s2 hs1 hs2 k HF. induction HF as [|[a x] [b y] r1 r2 Hh Hr IH]; simpl; [exact I|].
  destruct Hh as [A [_ [_ Hd]]]. simpl in A. subst b.
  destruct (N.eqb a k); [exact Hd | exact IH].
Qed.

Lemma hdel_rel : forall s1 s2 hs1 hs2 k, Forall2 (hrel s1 s2) hs1 hs2 ->
  Forall2 (hrel s1 s2) (hdel hs1 k) (hdel hs2 k).
Proof.
  intros s1 s2 hs1 hs2 k HF. induction HF as [|x y r1 r2 Hh Hr IH]; simpl; [constructor|].
  pose proof Hh as [A _]. rewrite <- A.
  destruct (negb (N.eqb (fst x) k)); [constructor; assumption | exact IH].
Qed.

Lemma forall2_hrel_mono : forall s1 s2 s1' s2' hs1 hs2, den_mono s1 s1' -> den_mono s2 s2' ->
  Forall2 (hrel s1 s2) hs1 hs2 -> Forall2 (hrel s1' s2') hs1 hs2.
Proof.
  intros s1 s2 s1' s2' hs1 hs2 M1 M2 HF.
  induction HF; constructor; [eapply hrel_mono; eauto | assumption].
Qed.

(** storing two results that denote the same function keeps the relation *)
Lemma put_sim : forall s1 s2 s1' s2' d r1 r2 phi,
  sim s1 s2 -> BddOK s1' -> BddOK s2' -> extends s1 s1' -> extends s2 s2' ->
  Den s1' r1 phi -> Den s2' r2 phi ->
  sim (put s1' d r1) (put s2' d r2).
Proof.
  intros s1 s2 s1' s2' d r1 r2 phi S B1' B2' X1 X2 D1 D2.
  pose proof (den_mono_put s1 s1' d r1 (sim_b1 _ _ S) X1) as M1.
  pose proof (den_mono_put s2 s2' d r2 (sim_b2 _ _ S) X2) as M2.
  constructor.
  - apply bddok_put; [exact B1' | apply (proj1 D1)].
  - apply bddok_put; [exact B2' | apply (proj1 D2)].
  - simpl. rewrite (ext_v2l _ _ X1), (ext_v2l _ _ X2). apply (sim_v2l _ _ S).
  - simpl. rewrite (ext_l2v _ _ X1), (ext_l2v _ _ X2). apply (sim_l2v _ _ S).
  - simpl. unfold hset. constructor.
    + split; [reflexivity|]. split; [reflexivity|]. split; [reflexivity|]. exists phi. simpl.
      split; apply den_set_handles; assumption.
    + rewrite (ext_handles _ _ X1), (ext_handles _ _ X2).
      apply hdel_rel. apply (forall2_hrel_mono s1 s2 _ _ _ _ M1 M2). apply (sim_h _ _ S).
Qed.

Lemma drop_sim : forall s1 s2 d, sim s1 s2 ->
  sim (set_handles s1 (hdel (s_handles s1) d)) (set_handles s2 (hdel (s_handles s2) d)).
Proof.
  intros s1 s2 d S. constructor.
  - apply bddok_drop. apply (sim_b1 _ _ S).
  - apply bddok_drop. apply (sim_b2 _ _ S).
  - apply (sim_v2l _ _ S).
  - apply (sim_l2v _ _ S).
  - simpl. apply hdel_rel.
    apply (forall2_hrel_mono s1 s2 _ _ _ _
             (fun r phi D => den_set_handles s1 _ r phi D) (fun r phi D => den_set_handles s2 _ r phi D)).
    apply (sim_h _ _ S).
Qed.

(** ** Observables *)

Lemma bdd_sem_edge : forall s e c phi, BddOK s -> Den s (eref e) phi -> bchoice c ->
  sem_edge s e c = Some (b2c (phi c)).
Proof.
  intros s e c phi B D Hc. unfold sem_edge. rewrite (bo_kind s B). apply (proj2 D c Hc).
Qed.

Theorem sim_observe : forall s1 s2, sim s1 s2 ->
  forall c, bchoice c -> observe s1 c = observe s2 c.
Proof.
  intros s1 s2 S c Hc. unfold observe. f_equal; [|apply (sim_v2l _ _ S)].
  pose proof (sim_h _ _ S) as HF.
  induction HF as [|h1 h2 r1 r2 Hh Hr IH]; [reflexivity|]. simpl. f_equal; [|exact IH].
  destruct Hh as [A [T1 [T2 [phi [D1 D2]]]]]. unfold obs_handle.
  rewrite A, (bdd_sem_edge s1 _ c phi (sim_b1 _ _ S) D1 Hc), (bdd_sem_edge s2 _ c phi (sim_b2 _ _ S) D2 Hc).
  f_equal.
  assert (E1 : snd h1 = E (eref (snd h1))) by (apply edge_ext; [reflexivity | exact T1]).
  assert (E2 : snd h2 = E (eref (snd h2))) by (apply edge_ext; [reflexivity | exact T2]).
  rewrite E1, E2.
  apply (count_reach_den s1 s2 (sim_b1 _ _ S) (sim_b2 _ _ S) (sim_nlevels _ _ S) _ _ phi D1 D2).
Qed.

Theorem sim_wf_b : forall s1 s2, sim s1 s2 -> wf_b s1 = true /\ wf_b s2 = true.
Proof.
  intros s1 s2 S. split; apply wf_b_spec; [apply (bo_wf _ (sim_b1 _ _ S)) | apply (bo_wf _ (sim_b2 _ _ S))].
Qed.

(** ** Variables on an arbitrary node store (cf. [mk_var_sem] of DD/ApplyEvalProofs.v) *)

Lemma mk_const_den : forall s b, BddOK s -> exists t, mk_const s b = Some (RT t) /\ Den s (RT t) (fun _ => b).
Proof.
  intros s b B. unfold mk_const. destruct (term_of_total s b B) as [t E]. rewrite E.
  exists t. split; [reflexivity | apply den_const; assumption].
Qed.

Theorem mk_var_a_sem : forall alloc, alloc_ok alloc ->
  forall s v neg lvl, BddOK s -> nth_error (s_v2l s) v = Some lvl ->
  exists s' r, mk_var_a alloc s v neg = Some (s', r) /\
    BddOK s' /\ extends s s' /\
    Den s' r (fun c => xorb neg (Nat.eqb (c lvl) 0)).
Proof.
  intros alloc Halloc s v neg lvl B E1. pose proof (bo_wf s B) as H.
  assert (Hv' : v < length (s_v2l s)) by (apply nth_error_Some; congruence).
  destruct (wf_perm_v2l s H v Hv') as [lvl' [E1' E2]]. rewrite E1 in E1'. inversion E1'; subst lvl'.
  assert (Hlvl : lvl < nlevels s) by (unfold nlevels; apply nth_error_Some; congruence).
  destruct (term_of_total s true B) as [t1 T1]. destruct (term_of_total s false B) as [t0 T0].
  pose proof (term_of_spec s true t1 H T1) as V1. pose proof (term_of_spec s false t0 H T0) as V0.
  simpl in V1, V0.
  assert (Hne : t1 <> t0) by (intros ->; rewrite V1 in V0; discriminate).
  unfold mk_var_a. rewrite E1, T1, T0.
  set (ch := if neg then [E (RT t0); E (RT t1)] else [E (RT t1); E (RT t0)]).
  assert (Hae : all_equal ch = false).
  { unfold ch. destruct neg; simpl; unfold edge_eqb; simpl; rewrite andb_true_r, andb_false_iff; left;
      apply N.eqb_neq; congruence. }
  assert (Hch : children_ok s lvl ch).
  { split; [rewrite (bo_kind s B); unfold ch; destruct neg; reflexivity|].
    intros e He.
    assert (Hx : e = E (RT t1) \/ e = E (RT t0))
      by (unfold ch in He; destruct neg; simpl in He; intuition).
    destruct Hx as [->| ->]; simpl; (split; [eexists; eassumption | split; [exact Hlvl | reflexivity]]). }
  destruct (get_or_insert_a alloc s lvl ch) as [s' e] eqn:Eg.
  destruct (get_or_insert_a_wf alloc Halloc s lvl ch s' e H (bdd_kary s B) Hlvl Hch Hae Eg)
    as [W [X [O [_ [_ Sh]]]]].
  exists s', (eref e). split; [reflexivity|].
  split; [apply (bddok_extends s s' B X W)|]. split; [exact X|].
  split; [exact O|]. intros c Hc. pose proof (Hc lvl) as Hc2.
  destruct (c lvl) as [|[|k]] eqn:Ec; [| |lia].
  - destruct neg; unfold ch in Sh.
    + rewrite (Sh c 0 (E (RT t0)) Ec eq_refl). simpl. rewrite semk_T. exact V0.
    + rewrite (Sh c 0 (E (RT t1)) Ec eq_refl). simpl. rewrite semk_T. exact V1.
  - destruct neg; unfold ch in Sh.
    + rewrite (Sh c 1 (E (RT t1)) Ec eq_refl). simpl. rewrite semk_T. exact V1.
    + rewrite (Sh c 1 (E (RT t0)) Ec eq_refl). simpl. rewrite semk_T. exact V0.
Qed.

Lemma mk_var_a_none : forall alloc s v neg, nth_error (s_v2l s) v = None -> mk_var_a alloc s v neg = None.
Proof. intros alloc s v neg E. unfold mk_var_a. rewrite E. reflexivity. Qed.

(** ** Two configurations *)

Section TwoConfigs.
(** configuration 1 *)
Variable alloc1 : snap -> positive.
Hypothesis Halloc1 : alloc_ok alloc1.
Variable gt1 : ref -> ref -> bool.
Variable C1 : Type.
Variable cget1 : C1 -> N -> list ref -> option ref.
Variable cadd1 : C1 -> N -> list ref -> ref -> C1.
Hypothesis L1 : lossy cget1 cadd1.
Variable sch1 : nat -> sched.
(** configuration 2 *)
Variable alloc2 : snap -> positive.
Hypothesis Halloc2 : alloc_ok alloc2.
Variable gt2 : ref -> ref -> bool.
Variable C2 : Type.
Variable cget2 : C2 -> N -> list ref -> option ref.
Variable cadd2 : C2 -> N -> list ref -> ref -> C2.
Hypothesis L2 : lossy cget2 cadd2.
Variable sch2 : nat -> sched.

Notation step1 := (mstep alloc1 gt1 C1 cget1 cadd1 sch1).
Notation step2 := (mstep alloc2 gt2 C2 cget2 cadd2 sch2).

(** the invariant of a pair of runs *)
Definition msim (st1 : mstate C1) (st2 : mstate C2) : Prop :=
  sim (m_snap C1 st1) (m_snap C2 st2) /\
  CacheOK cget1 (m_snap C1 st1) (m_cache C1 st1) /\
  CacheOK cget2 (m_snap C2 st2) (m_cache C2 st2).

Definition omsim (o1 : option (mstate C1)) (o2 : option (mstate C2)) : Prop :=
  match o1, o2 with
  | Some a, Some b => msim a b
  | None, None => True
  | _, _ => False
  end.

Lemma result_sim : forall s1 s2 c1 c2 res1 res2 Phi d k1 k2,
  sim s1 s2 ->
  result_ok C1 cget1 s1 c1 res1 Phi -> result_ok C2 cget2 s2 c2 res2 Phi ->
  omsim (match res1 with Some (s', c', r) => Some (mkM C1 (put s' d r) c' k1) | None => None end)
        (match res2 with Some (s', c', r) => Some (mkM C2 (put s' d r) c' k2) | None => None end).
Proof.
  intros s1 s2 c1 c2 res1 res2 Phi d k1 k2 S
         [sa [ca [ra [Ea [Ba [Xa [Oa [Da _]]]]]]]] [sb [cb [rb [Eb [Bb [Xb [Ob [Db _]]]]]]]].
  subst res1 res2. simpl. split; [|split].
  - apply (put_sim s1 s2 sa sb d ra rb Phi S Ba Bb Xa Xb Da Db).
  - apply cacheok_set_handles. exact Oa.
  - apply cacheok_set_handles. exact Ob.
Qed.

Theorem mstep_sim : forall st1 st2 o, msim st1 st2 -> omsim (step1 st1 o) (step2 st2 o).
Proof.
  intros [s1 c1 k1] [s2 c2 k2] o [HS [O1 O2]]. simpl in HS, O1, O2.
  pose proof (sim_b1 _ _ HS) as B1. pose proof (sim_b2 _ _ HS) as B2.
  pose proof (rlevel_le s1 (bo_wf s1 B1)) as RL1. pose proof (rlevel_le s2 (bo_wf s2 B2)) as RL2.
  destruct o as [d b|d v neg|d a|d op a b|d a b e|d a|d]; unfold mstep; cbn [m_snap m_cache m_step].
  - (* const *)
    destruct (mk_const_den s1 b B1) as [t1 [E1 D1]]. destruct (mk_const_den s2 b B2) as [t2 [E2 D2]].
    rewrite E1, E2. simpl. split; [|split].
    + apply (put_sim s1 s2 s1 s2 d _ _ (fun _ => b) HS B1 B2 (extends_refl _) (extends_refl _) D1 D2).
    + apply cacheok_set_handles. exact O1.
    + apply cacheok_set_handles. exact O2.
  - (* var *)
    destruct (nth_error (s_v2l s1) v) as [lvl|] eqn:Ev.
    + assert (Ev2 : nth_error (s_v2l s2) v = Some lvl) by (rewrite <- (sim_v2l _ _ HS); exact Ev).
      destruct (mk_var_a_sem alloc1 Halloc1 s1 v neg lvl B1 Ev) as [sa [ra [Ea [Ba [Xa Da]]]]].
      destruct (mk_var_a_sem alloc2 Halloc2 s2 v neg lvl B2 Ev2) as [sb [rb [Eb [Bb [Xb Db]]]]].
      rewrite Ea, Eb. simpl. split; [|split].
      * apply (put_sim s1 s2 sa sb d ra rb _ HS Ba Bb Xa Xb Da Db).
      * apply cacheok_set_handles. apply (cacheok_extends C1 cget1 s1 sa c1 B1 Xa O1).
      * apply cacheok_set_handles. apply (cacheok_extends C2 cget2 s2 sb c2 B2 Xb O2).
    + assert (Ev2 : nth_error (s_v2l s2) v = None) by (rewrite <- (sim_v2l _ _ HS); exact Ev).
      rewrite (mk_var_a_none alloc1 s1 v neg Ev), (mk_var_a_none alloc2 s2 v neg Ev2). exact I.
  - (* not *)
    pose proof (hget_rel s1 s2 _ _ a (sim_h _ _ HS)) as Ha.
    destruct (hget (s_handles s1) a) as [ea1|], (hget (s_handles s2) a) as [ea2|]; try contradiction; [|exact I].
    destruct Ha as [phi [Da1 Da2]].
    apply (result_sim s1 s2 c1 c2 _ _ (fun c0 => negb (phi c0)) d (Datatypes.S k1) (Datatypes.S k2) HS).
    + apply (apply_not_g_ok alloc1 Halloc1 C1 cget1 cadd1 L1); auto. specialize (RL1 (eref ea1)). lia.
    + apply (apply_not_g_ok alloc2 Halloc2 C2 cget2 cadd2 L2); auto. specialize (RL2 (eref ea2)). lia.
  - (* bin *)
    pose proof (hget_rel s1 s2 _ _ a (sim_h _ _ HS)) as Ha.
    pose proof (hget_rel s1 s2 _ _ b (sim_h _ _ HS)) as Hb.
    destruct (hget (s_handles s1) a) as [ea1|], (hget (s_handles s2) a) as [ea2|]; try contradiction; [|exact I].
    destruct (hget (s_handles s1) b) as [eb1|], (hget (s_handles s2) b) as [eb2|]; try contradiction; [|exact I].
    destruct Ha as [phi [Da1 Da2]]. destruct Hb as [psi [Db1 Db2]].
    apply (result_sim s1 s2 c1 c2 _ _ (fun c0 => eval_bop op (phi c0) (psi c0)) d (Datatypes.S k1) (Datatypes.S k2) HS).
    + apply (apply_bin_g_ok alloc1 Halloc1 gt1 C1 cget1 cadd1 L1); auto. lia.
    + apply (apply_bin_g_ok alloc2 Halloc2 gt2 C2 cget2 cadd2 L2); auto. lia.
  - (* ite *)
    pose proof (hget_rel s1 s2 _ _ a (sim_h _ _ HS)) as Ha.
    pose proof (hget_rel s1 s2 _ _ b (sim_h _ _ HS)) as Hb.
    pose proof (hget_rel s1 s2 _ _ e (sim_h _ _ HS)) as He.
    destruct (hget (s_handles s1) a) as [ea1|], (hget (s_handles s2) a) as [ea2|]; try contradiction; [|exact I].
    destruct (hget (s_handles s1) b) as [eb1|], (hget (s_handles s2) b) as [eb2|]; try contradiction; [|exact I].
    destruct (hget (s_handles s1) e) as [ee1|], (hget (s_handles s2) e) as [ee2|]; try contradiction; [|exact I].
    destruct Ha as [phi [Da1 Da2]]. destruct Hb as [psi [Db1 Db2]]. destruct He as [theta [De1 De2]].
    apply (result_sim s1 s2 c1 c2 _ _ (fun c0 => if phi c0 then psi c0 else theta c0) d (Datatypes.S k1) (Datatypes.S k2) HS).
    + apply (apply_ite_g_ok alloc1 Halloc1 gt1 C1 cget1 cadd1 L1); auto. lia.
    + apply (apply_ite_g_ok alloc2 Halloc2 gt2 C2 cget2 cadd2 L2); auto. lia.
  - (* clone *)
    pose proof (hget_rel s1 s2 _ _ a (sim_h _ _ HS)) as Ha.
    destruct (hget (s_handles s1) a) as [ea1|], (hget (s_handles s2) a) as [ea2|]; try contradiction; [|exact I].
    destruct Ha as [phi [Da1 Da2]]. simpl. split; [|split].
    + apply (put_sim s1 s2 s1 s2 d _ _ phi HS B1 B2 (extends_refl _) (extends_refl _) Da1 Da2).
    + apply cacheok_set_handles. exact O1.
    + apply cacheok_set_handles. exact O2.
  - (* drop *)
    simpl. split; [|split].
    + apply drop_sim. exact HS.
    + apply cacheok_set_handles. exact O1.
    + apply cacheok_set_handles. exact O2.
Qed.

Theorem run_ops_sim : forall ops st1 st2, msim st1 st2 ->
  omsim (run_ops alloc1 gt1 C1 cget1 cadd1 sch1 st1 ops) (run_ops alloc2 gt2 C2 cget2 cadd2 sch2 st2 ops).
Proof.
  unfold run_ops.
  assert (G : forall ops o1 o2, omsim o1 o2 ->
            omsim (fold_left (ostep alloc1 gt1 C1 cget1 cadd1 sch1) ops o1)
                  (fold_left (ostep alloc2 gt2 C2 cget2 cadd2 sch2) ops o2)).
  { induction ops as [|o ops IH]; intros o1 o2 Hs; [exact Hs|]. simpl. apply IH.
    destruct o1 as [a|], o2 as [b|]; simpl in *; try contradiction; [apply mstep_sim; exact Hs | exact I]. }
  intros ops st1 st2 Hs. apply G. exact Hs.
Qed.

(** the client-visible content of the theorem: the two runs fail together,
    and if they succeed the final tables are well-formed and every observable
    agrees *)
Theorem run_ops_observe : forall ops st1 st2, msim st1 st2 ->
  match run_ops alloc1 gt1 C1 cget1 cadd1 sch1 st1 ops, run_ops alloc2 gt2 C2 cget2 cadd2 sch2 st2 ops with
  | Some a, Some b =>
    wf_b (m_snap C1 a) = true /\ wf_b (m_snap C2 b) = true /\
    forall c, bchoice c -> observe (m_snap C1 a) c = observe (m_snap C2 b) c
  | None, None => True
  | _, _ => False
  end.
Proof.
  intros ops st1 st2 Hs. pose proof (run_ops_sim ops st1 st2 Hs) as R.
  destruct (run_ops alloc1 gt1 C1 cget1 cadd1 sch1 st1 ops) as [a|],
           (run_ops alloc2 gt2 C2 cget2 cadd2 sch2 st2 ops) as [b|]; simpl in R; try contradiction; [|exact I].
  destruct R as [S _]. destruct (sim_wf_b _ _ S) as [W1 W2].
  split; [exact W1|]. split; [exact W2|]. apply sim_observe. exact S.
Qed.

End TwoConfigs.

(** a table is related to itself: two builds started on the same (e.g. empty)
    manager state *)
Lemma sim_refl : forall s, BddOK s -> sim s s.
Proof.
  intros s B. constructor; auto.
  assert (G : forall hs, (forall h, In h hs -> In h (s_handles s)) -> Forall2 (hrel s s) hs hs).
  { induction hs as [|h r IH]; intros Hin; constructor.
    - destruct (bdd_handle_ok s h B (Hin h (or_introl eq_refl))) as [A T].
      destruct (den_exists s _ B A) as [phi D].
      split; [reflexivity|]. split; [exact T|]. split; [exact T|]. exists phi. auto.
    - apply IH. intros x Hx. apply Hin. right. exact Hx. }
  apply G. auto.
Qed.

(** ** Cache enabled / disabled / any other cache: identical tables for whole histories *)

Section CacheRun.
(** shared: node store and schedule *)
Variable alloc : snap -> positive.
Hypothesis Halloc : alloc_ok alloc.
Variable sch : nat -> sched.
(** different: operand order and apply cache *)
Variables gt1 gt2 : ref -> ref -> bool.
Variables C1 C2 : Type.
Variable cget1 : C1 -> N -> list ref -> option ref.
Variable cadd1 : C1 -> N -> list ref -> ref -> C1.
Variable cget2 : C2 -> N -> list ref -> option ref.
Variable cadd2 : C2 -> N -> list ref -> ref -> C2.
Hypothesis L1 : lossy cget1 cadd1.
Hypothesis L2 : lossy cget2 cadd2.

Notation cstep1 := (mstep alloc gt1 C1 cget1 cadd1 sch).
Notation cstep2 := (mstep alloc gt2 C2 cget2 cadd2 sch).

(** same table (including the handles), same call counter; correct caches *)
Definition exact (st1 : mstate C1) (st2 : mstate C2) : Prop :=
  m_snap C1 st1 = m_snap C2 st2 /\ m_step C1 st1 = m_step C2 st2 /\
  BddOK (m_snap C1 st1) /\
  CacheOK cget1 (m_snap C1 st1) (m_cache C1 st1) /\
  CacheOK cget2 (m_snap C2 st2) (m_cache C2 st2).

Definition oexact (o1 : option (mstate C1)) (o2 : option (mstate C2)) : Prop :=
  match o1, o2 with
  | Some a, Some b => exact a b
  | None, None => True
  | _, _ => False
  end.

Lemma agree_exact : forall s c1 c2 res1 res2 Phi d k,
  result_ok C1 cget1 s c1 res1 Phi -> result_ok C2 cget2 s c2 res2 Phi ->
  same_out C1 C2 res1 res2 ->
  oexact (match res1 with Some (s', c', r) => Some (mkM C1 (put s' d r) c' k) | None => None end)
         (match res2 with Some (s', c', r) => Some (mkM C2 (put s' d r) c' k) | None => None end).
Proof.
  intros s c1 c2 res1 res2 Phi d k
         [sa [ca [ra [Ea [Ba [Xa [Oa [Da _]]]]]]]] [sb [cb [rb [Eb [Bb [Xb [Ob [Db _]]]]]]]] A.
  subst res1 res2. simpl in A. destruct A as [<- <-]. simpl.
  split; [reflexivity|]. split; [reflexivity|].
  split; [apply bddok_put; [exact Ba | apply (proj1 Da)]|].
  split; apply cacheok_set_handles; assumption.
Qed.

Lemma handle_den : forall s k e, BddOK s -> hget (s_handles s) k = Some e -> exists phi, Den s (eref e) phi.
Proof.
  intros s k e B E. apply hget_In in E. destruct (bdd_handle_ok s _ B E) as [A _]. simpl in A.
  apply (den_exists s _ B A).
Qed.

Theorem mstep_cache_exact : forall st1 st2 o, exact st1 st2 -> oexact (cstep1 st1 o) (cstep2 st2 o).
Proof.
  intros [s c1 k] [s2 c2 k2] o [Es [Ek [B [O1 O2]]]]. simpl in Es, Ek, B, O1, O2. subst s2 k2.
  pose proof (rlevel_le s (bo_wf s B)) as RL.
  destruct o as [d b|d v neg|d a|d op a b|d a b e|d a|d]; unfold mstep; cbn [m_snap m_cache m_step].
  - destruct (mk_const_den s b B) as [t [E D]]. rewrite E. simpl.
    split; [reflexivity|]. split; [reflexivity|].
    split; [apply bddok_put; [exact B | apply (proj1 D)]|]. split; apply cacheok_set_handles; assumption.
  - destruct (nth_error (s_v2l s) v) as [lvl|] eqn:Ev.
    + destruct (mk_var_a_sem alloc Halloc s v neg lvl B Ev) as [sa [ra [Ea [Ba [Xa Da]]]]].
      rewrite Ea. simpl. split; [reflexivity|]. split; [reflexivity|].
      split; [apply bddok_put; [exact Ba | apply (proj1 Da)]|].
      split; apply cacheok_set_handles.
      * apply (cacheok_extends C1 cget1 s sa c1 B Xa O1).
      * apply (cacheok_extends C2 cget2 s sa c2 B Xa O2).
    + rewrite (mk_var_a_none alloc s v neg Ev). exact I.
  - destruct (hget (s_handles s) a) as [ea|] eqn:Ha; [|exact I].
    destruct (handle_den s a ea B Ha) as [phi Da].
    assert (F : nlevels s - rlevel s (eref ea) < Datatypes.S (nlevels s)) by (specialize (RL (eref ea)); lia).
    apply (agree_exact s c1 c2 _ _ (fun c0 => negb (phi c0))).
    + apply (apply_not_g_ok alloc Halloc C1 cget1 cadd1 L1); auto.
    + apply (apply_not_g_ok alloc Halloc C2 cget2 cadd2 L2); auto.
    + apply (apply_not_g_agree alloc Halloc C1 C2 cget1 cadd1 cget2 cadd2 L1 L2 _ _ s c1 c2 _ phi); auto.
  - destruct (hget (s_handles s) a) as [ea|] eqn:Ha; [|exact I].
    destruct (hget (s_handles s) b) as [eb|] eqn:Hb; [|exact I].
    destruct (handle_den s a ea B Ha) as [phi Da]. destruct (handle_den s b eb B Hb) as [psi Db].
    assert (F : nlevels s - Nat.min (rlevel s (eref ea)) (rlevel s (eref eb)) < Datatypes.S (nlevels s)) by lia.
    apply (agree_exact s c1 c2 _ _ (fun c0 => eval_bop op (phi c0) (psi c0))).
    + apply (apply_bin_g_ok alloc Halloc gt1 C1 cget1 cadd1 L1); auto.
    + apply (apply_bin_g_ok alloc Halloc gt2 C2 cget2 cadd2 L2); auto.
    + apply (apply_bin_g_agree alloc Halloc gt1 gt2 C1 C2 cget1 cadd1 cget2 cadd2 L1 L2 op _ _ s c1 c2 _ _ phi psi); auto.
  - destruct (hget (s_handles s) a) as [ea|] eqn:Ha; [|exact I].
    destruct (hget (s_handles s) b) as [eb|] eqn:Hb; [|exact I].
    destruct (hget (s_handles s) e) as [ee|] eqn:He; [|exact I].
    destruct (handle_den s a ea B Ha) as [phi Da]. destruct (handle_den s b eb B Hb) as [psi Db].
    destruct (handle_den s e ee B He) as [theta De].
    assert (F : nlevels s - Nat.min (Nat.min (rlevel s (eref ea)) (rlevel s (eref eb))) (rlevel s (eref ee))
                < Datatypes.S (nlevels s)) by lia.
    apply (agree_exact s c1 c2 _ _ (fun c0 => if phi c0 then psi c0 else theta c0)).
    + apply (apply_ite_g_ok alloc Halloc gt1 C1 cget1 cadd1 L1); auto.
    + apply (apply_ite_g_ok alloc Halloc gt2 C2 cget2 cadd2 L2); auto.
    + apply (apply_ite_g_agree alloc Halloc gt1 gt2 C1 C2 cget1 cadd1 cget2 cadd2 L1 L2 _ _ s c1 c2 _ _ _ phi psi theta); auto.
  - destruct (hget (s_handles s) a) as [ea|] eqn:Ha; [|exact I].
    destruct (handle_den s a ea B Ha) as [phi Da]. simpl.
    split; [reflexivity|]. split; [reflexivity|].
    split; [apply bddok_put; [exact B | apply (proj1 Da)]|]. split; apply cacheok_set_handles; assumption.
  - simpl. split; [reflexivity|]. split; [reflexivity|].
    split; [apply bddok_drop; exact B|]. split; apply cacheok_set_handles; assumption.
Qed.

(** for every history the two builds end with the identical table (same nodes
    under the same ids, same handles), or fail together *)
Theorem run_ops_cache_exact : forall ops st1 st2, exact st1 st2 ->
  oexact (run_ops alloc gt1 C1 cget1 cadd1 sch st1 ops) (run_ops alloc gt2 C2 cget2 cadd2 sch st2 ops).
Proof.
  unfold run_ops.
  assert (G : forall ops o1 o2, oexact o1 o2 ->
            oexact (fold_left (ostep alloc gt1 C1 cget1 cadd1 sch) ops o1)
                   (fold_left (ostep alloc gt2 C2 cget2 cadd2 sch) ops o2)).
  { induction ops as [|o ops IH]; intros o1 o2 Hs; [exact Hs|]. simpl. apply IH.
    destruct o1 as [a|], o2 as [b|]; simpl in *; try contradiction;
      [apply mstep_cache_exact; exact Hs | exact I]. }
  intros ops st1 st2 Hs. apply G. exact Hs.
Qed.

End CacheRun.
