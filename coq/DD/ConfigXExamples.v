(** * C20x: the hypotheses are satisfiable and the configurations really differ (BCDD, ZBDD)

    On the complement-edge table [ex_bcdd] (DD/TableProofs.v) and the ZBDD table
    [ex_z4] (DD/ZbddExamples.v, with its tautology chain) every operator is run
    under two model configurations - index-like store / association-list cache
    / sequential versus a store that skips ids / no cache / reverse operand
    order / every join taken in swapped order with a stale cache view.  The
    result tables differ (the same function under other node ids), the value
    tables and node counts agree; with the same store and schedule the tables
    are identical whatever the cache and the operand order. *)

From Coq Require Import List NArith PArith Bool Arith Lia FMapPositive.
From OxiVerif Require Import DD.Table DD.TableExtra DD.TableProofs DD.Sem DD.Build DD.BuildProofs
  DD.Apply DD.ApplyProofs DD.ApplyBcdd DD.ApplyBcddProofs DD.ApplyBcddEval DD.ApplyBcddExamples
  DD.FamSpec DD.ZbddOps DD.ZbddOpsProofs DD.ZbddExamples DD.ZbddBool DD.ZbddBoolProofs DD.ZbddEvalProofs
  DD.ZbddBoolExamples
  DD.ConfigApply DD.ConfigProofs DD.ConfigExamples DD.ConfigBcdd DD.ConfigBcddProofs DD.ConfigZbdd
  DD.ConfigZbddProofs DD.ConfigZbddIte DD.ConfigBcddRun DD.ConfigZbddRun.
Import ListNotations.

Definition sch_sw : sched := sched_depth 4 (fun _ => (true, true)) [].
Definition sch_mx : sched := sched_depth 3 (fun path => (Nat.even (length path), Nat.odd (length path))) [].

Definition all_bops : list bop := [OAnd; OOr; OXor; OEquiv; ONand; ONor; OImp; OImpStrict].

(** ** BCDD *)

Definition n1 := ApplyBcddExamples.n1.
Definition n2 := ApplyBcddExamples.n2.

(** value table (all 4 choices of the 2-level table) and node count of a result; ids of the table *)
Definition c_choices : list (nat -> nat) := map (fun k l => if Nat.testbit k l then 0 else 1) (seq 0 4).
Definition c_obs {C} (r : option (snap * C * edge)) :=
  match r with
  | Some (s, _, e) => Some (map (fun c => semc s (S (nlevels s)) e c) c_choices, count_reach s e)
  | None => None
  end.
Definition c_tab {C} (r : option (snap * C * edge)) :=
  match r with Some (s, _, e) => Some (PositiveMap.elements (s_nodes s), e) | None => None end.

(** configuration A = the model of DD/ApplyBcdd.v; configuration B differs in everything *)
Definition cA (o : bop) := capply_op_g fresh_id lt_id eacache eac_get eac_add 3 SSeq ex_bcdd [] o n2 n1.
Definition cB (o : bop) := capply_op_g (alloc_skip 5) ApplyBcddExamples.gt_id unit enc_get enc_add 3 sch_sw ex_bcdd tt o n2 n1.
(** same store and schedule as A, other cache and operand order *)
Definition cA' (o : bop) := capply_op_g fresh_id ApplyBcddExamples.gt_id unit enc_get enc_add 3 SSeq ex_bcdd tt o n2 n1.

Example ex_c_nocache_ok : CacheOKC enc_get ex_bcdd tt.
Proof. intros code args r Hx. discriminate. Qed.

Example ex_c_configs :
  forall o, In o all_bops ->
  c_obs (cA o) <> None /\ c_obs (cA o) = c_obs (cB o) /\ c_tab (cA o) = c_tab (cA' o).
Proof.
  intros o Ho. simpl in Ho.
  repeat (destruct Ho as [<-|Ho]; [vm_compute; split; [discriminate | split; reflexivity]|]). destruct Ho.
Qed.

(** the tables of A and B differ wherever a node is created *)
Example ex_c_tables_differ : c_tab (cA OAnd) <> c_tab (cB OAnd) /\ c_tab (cA OXor) <> c_tab (cB OXor).
Proof. vm_compute. split; discriminate. Qed.

Example ex_c_ite_configs :
  let a := capply_ite_g fresh_id lt_id eacache eac_get eac_add 3 SSeq ex_bcdd [] n1 n2 (enot n2) in
  let b := capply_ite_g (alloc_skip 9) ApplyBcddExamples.gt_id unit enc_get enc_add 3 sch_mx ex_bcdd tt n1 n2 (enot n2) in
  c_obs a <> None /\ c_obs a = c_obs b.
Proof. vm_compute. split; [discriminate | reflexivity]. Qed.

(** a history of API calls on an empty 3-variable complement-edge manager *)
Definition ex_cempty : snap :=
  mkSnap KBcdd (PositiveMap.empty node) [(0%N, 1%N)] [0; 1; 2] [0; 1; 2] [].

Example ex_cempty_ok : BcOK ex_cempty.
Proof. apply bcok_b_spec. vm_compute. reflexivity. Qed.

Definition ex_cops : list mop :=
  [MVar 0 0 false; MVar 1 1 false; MVar 2 2 true; MBin 3 OXor 0 1; MBin 4 OXor 3 2; MNot 5 4;
   MIte 6 0 4 5; MConst 7 true; MBin 8 OImp 6 7; MClone 9 4; MDrop 3; MBin 10 OOr 9 2;
   MBin 11 OEquiv 10 1; MIte 12 11 2 5; MBin 13 ONand 12 0].

Definition crunA := crun_ops fresh_id lt_id eacache eac_get eac_add (fun _ => SSeq) (mkCM eacache ex_cempty [] 0) ex_cops.
Definition crunB := crun_ops (alloc_skip 5) ApplyBcddExamples.gt_id unit enc_get enc_add (fun _ => sch_sw)
                             (mkCM unit ex_cempty tt 0) ex_cops.
Definition crunC := crun_ops alloc_addr lt_id eacache eac_get eac_add (fun k => if Nat.even k then sch_mx else SSeq)
                             (mkCM eacache ex_cempty [] 0) ex_cops.

Definition cobserve_all {C} (r : option (cmstate C)) :=
  match r with
  | Some st => Some (map (observe (cm_snap C st)) ConfigExamples.all_choices)
  | None => None
  end.
Definition cids_of {C} (r : option (cmstate C)) : list positive :=
  match r with Some st => map fst (PositiveMap.elements (s_nodes (cm_snap C st))) | None => [] end.

Example ex_cruns :
  cobserve_all crunA <> None /\ cobserve_all crunA = cobserve_all crunB /\ cobserve_all crunA = cobserve_all crunC /\
  cids_of crunA <> cids_of crunB /\ cids_of crunA <> cids_of crunC /\
  length (cids_of crunA) = length (cids_of crunB).
Proof. vm_compute. repeat split; try discriminate; reflexivity. Qed.

(** ** ZBDD *)

(** Boolean view over all 16 choices and node count of a result *)
Definition z_obs {C} (r : option (snap * C * ref)) :=
  match r with Some (s, _, r) => Some (ex_tt s r, count_reach s (E r)) | None => None end.
Definition z_tab {C} (r : option (snap * C * ref)) :=
  match r with Some (s, _, r) => Some (PositiveMap.elements (s_nodes s), r) | None => None end.

Definition zA (o : bop) := zapply_op_g fresh_id zgt_id zacache zac_get zac_add 5 SSeq ex_z4 [] o (RN 3) (RN 6).
Definition zB (o : bop) := zapply_op_g (alloc_skip 5) (fun _ _ => false) unit znc_get znc_add 5 sch_sw ex_z4 tt o (RN 3) (RN 6).
Definition zA' (o : bop) := zapply_op_g fresh_id (fun _ _ => false) unit znc_get znc_add 5 SSeq ex_z4 tt o (RN 3) (RN 6).

Example ex_z_configs :
  forall o, In o all_bops ->
  z_obs (zA o) <> None /\ z_obs (zA o) = z_obs (zB o) /\ z_tab (zA o) = z_tab (zA' o).
Proof.
  intros o Ho. simpl in Ho.
  repeat (destruct Ho as [<-|Ho]; [vm_compute; split; [discriminate | split; reflexivity]|]). destruct Ho.
Qed.

Example ex_z_tables_differ : z_tab (zA OXor) <> z_tab (zB OXor) /\ z_tab (zA ONand) <> z_tab (zB ONand).
Proof. vm_compute. split; discriminate. Qed.

Example ex_z_ite_configs :
  let a := zapply_ite_g fresh_id zgt_id zacache zac_get zac_add 5 SSeq ex_z4 [] (RN 3) (RN 2) (RN 6) in
  let b := zapply_ite_g (alloc_skip 3) (fun _ _ => false) unit znc_get znc_add 5 sch_mx ex_z4 tt (RN 3) (RN 2) (RN 6) in
  z_obs a <> None /\ z_obs a = z_obs b.
Proof. vm_compute. split; [discriminate | reflexivity]. Qed.

(** nand leaves the nodes of the intermediate [and] behind even when the result
    already has an edge: re-running nand on its own result table, with another
    store, returns the same edge (the table of the second run has grown only
    if the intermediate result was not there before) *)
Example ex_z_nand_rerun :
  match zA ONand with
  | Some (s1, _, r1) =>
    match zapply_op_g (alloc_skip 2) (fun _ _ => false) unit znc_get znc_add 5 sch_sw s1 tt ONand (RN 3) (RN 6) with
    | Some (s2, _, r2) => r2 = r1
    | None => False
    end
  | None => False
  end.
Proof. vm_compute. reflexivity. Qed.

(** a history of API calls on a 3-variable ZBDD manager that holds its tautology chain *)
Definition ex_zempty : snap :=
  mkSnap KZbdd
    (PositiveMap.add 3%positive (mkNode 0 [E (RN 2); E (RN 2)] 0 1)
    (PositiveMap.add 2%positive (mkNode 1 [E (RN 1); E (RN 1)] 1 2)
    (PositiveMap.add 1%positive (mkNode 2 [E (RT 1); E (RT 1)] 2 2)
       (PositiveMap.empty node))))
    [(0%N, 0%N); (1%N, 1%N)] [0; 1; 2] [0; 1; 2] [].

Example ex_zempty_ok : ZbddOK ex_zempty /\ ZChainOK ex_zempty.
Proof. split; [apply zbdd_ok_b_spec; vm_compute; reflexivity | vm_compute; reflexivity]. Qed.

Definition zrunA := zrun_ops fresh_id zgt_id zacache zac_get zac_add (fun _ => SSeq) (mkZM zacache ex_zempty [] 0) ex_cops.
Definition zrunB := zrun_ops (alloc_skip 5) (fun _ _ => false) unit znc_get znc_add (fun _ => sch_sw)
                             (mkZM unit ex_zempty tt 0) ex_cops.
Definition zrunC := zrun_ops alloc_addr zgt_id zacache zac_get zac_add (fun k => if Nat.even k then sch_mx else SSeq)
                             (mkZM zacache ex_zempty [] 0) ex_cops.

Definition zobserve_all {C} (r : option (zmstate C)) :=
  match r with
  | Some st => Some (map (observe (zm_snap C st)) ConfigExamples.all_choices)
  | None => None
  end.
Definition zids_of {C} (r : option (zmstate C)) : list positive :=
  match r with Some st => map fst (PositiveMap.elements (s_nodes (zm_snap C st))) | None => [] end.

Example ex_zruns :
  zobserve_all zrunA <> None /\ zobserve_all zrunA = zobserve_all zrunB /\ zobserve_all zrunA = zobserve_all zrunC /\
  zids_of zrunA <> zids_of zrunB /\ zids_of zrunA <> zids_of zrunC.
Proof. vm_compute. repeat split; try discriminate; reflexivity. Qed.

(** the start states satisfy the hypotheses of the history theorems *)
Example ex_cmsim_AB :
  cmsim eacache eac_get unit enc_get (mkCM eacache ex_cempty [] 0) (mkCM unit ex_cempty tt 0).
Proof.
  split; [apply csim_refl; exact ex_cempty_ok|]. split; [apply eac_empty_ok | apply enc_ok].
Qed.

Example ex_zmsim_AB :
  zmsim zacache zac_get unit znc_get (mkZM zacache ex_zempty [] 0) (mkZM unit ex_zempty tt 0).
Proof.
  split; [apply zsim_refl; apply ex_zempty_ok|]. split; [apply zac_empty_okB | apply znc_okB].
Qed.

(** same store and schedule, other cache and operand order: identical final tables *)
Example ex_hist_cache_exact :
  (match crun_ops fresh_id lt_id eacache eac_get eac_add (fun _ => sch_sw) (mkCM eacache ex_cempty [] 0) ex_cops,
         crun_ops fresh_id ApplyBcddExamples.gt_id unit enc_get enc_add (fun _ => sch_sw) (mkCM unit ex_cempty tt 0) ex_cops with
   | Some a, Some b => cm_snap eacache a = cm_snap unit b
   | _, _ => False
   end) /\
  (match zrun_ops fresh_id zgt_id zacache zac_get zac_add (fun _ => sch_sw) (mkZM zacache ex_zempty [] 0) ex_cops,
         zrun_ops fresh_id (fun _ _ => false) unit znc_get znc_add (fun _ => sch_sw) (mkZM unit ex_zempty tt 0) ex_cops with
   | Some a, Some b => zm_snap zacache a = zm_snap unit b
   | _, _ => False
   end).
Proof. vm_compute. split; reflexivity. Qed.
