(** * The ZBDD set / Boolean operations with every build-configuration parameter explicit (C20x)

    Executable definitions only (proofs: DD/ConfigZbddProofs.v, ConfigZbddIte.v,
    ConfigZbddCache.v, ConfigZbddIndep.v).  DD/ZbddOps.v ([zapply]) and
    DD/ZbddBool.v ([zsymm], [zapply_ite], [zapply_not], [zapply_op]) are the model
    of ONE configuration of oxidd-rules-zbdd/src/apply_rec.rs (sequential
    recursion, node ids handed out by [fresh_id]).  Here the same algorithms
    ([apply_union], [apply_intsec], [apply_diff], [apply_symm_diff], [apply_not],
    [apply_ite], the [BooleanFunction] entry points; lib.rs [reduce] /
    [reduce_borrowed]) are restated with everything the cargo features of the
    [oxidd] crate and the worker pool choose as a parameter:

    - [alloc] : the node store; any function returning an unused id ([alloc_ok]);
    - [gt]    : the edge order [f > g] that normalises the operands of the
      commutative operators;
    - [C], [cget], [cadd] : the apply cache (any lossy cache, [zlossy]);
    - [sched] : the recursor (oxidd-rules-zbdd/src/recursor.rs).  [SSeq] =
      [SequentialRecursor] (or [should_switch_to_sequential]); [SPar swap stale l r]
      = one [ParallelRecursor::binary] / [ternary] / [binary_ternary] call =
      [WorkerPool::join] of the hi-closure (schedule [l]) and the lo-closure
      (schedule [r]); [swap]: the lo-closure ran first; [stale]: the later
      closure saw the cache of the fork point only.  The recursive calls that
      the code makes directly (one operand above the other: [apply_union(manager,
      rec, flo, g)], the terminal cases of [apply_ite], [apply_not] after
      [and]/[or]/[xor]) pass [rec] on unchanged.

    [z*_g fresh_id gt C cget cadd fuel SSeq = z*] of DD/ZbddOps.v / DD/ZbddBool.v
    ([zapply_g_seq] etc. in the proof files). *)

From Coq Require Import List NArith PArith Bool Arith FMapPositive.
From OxiVerif Require Import DD.Table DD.Sem DD.Build DD.Apply DD.FamSpec DD.ZbddOps DD.ZbddBool
  DD.ConfigApply.
Import ListNotations.

Section Cfg.
Variable alloc : snap -> positive.
Variable gt : ref -> ref -> bool.
Variable C : Type.
Variable cget : C -> N -> list ref -> list nat -> option ref.
Variable cadd : C -> N -> list ref -> list nat -> ref -> C.

Definition zres : Type := option (snap * C * ref).

(** [reduce] / [reduce_borrowed] of lib.rs on a store that places new nodes at
    [alloc s] (cf. [zmk_node]) *)
Definition zmk_node_a (s : snap) (lvl : nat) (hi lo : ref) : snap * ref :=
  if is_empty_b s hi then (s, lo)
  else let '(s', e) := get_or_insert_a alloc s lvl [E hi; E lo] in (s', eref e).

(** [reduce_borrowed(manager, level, hi, lo?, op)]: the result of a direct
    recursive call becomes the lo child under an old hi edge *)
Definition zlo_mk (res : zres) (lvl : nat) (hi : ref) : zres :=
  match res with
  | None => None
  | Some (s1, c1, lo) => let '(s2, h) := zmk_node_a s1 lvl hi lo in Some (s2, c1, h)
  end.

(** [rec.binary / ternary / binary_ternary(...)?] followed by [reduce]: the
    hi-closure and the lo-closure run as the schedule says ([fork2] of
    DD/ConfigApply.v), then the node is built *)
Definition zjoin (x : sched) (runH runL : sched -> snap -> C -> zres)
  (s : snap) (c : C) (lvl : nat) : zres :=
  match fork2 C x runH runL s c with
  | None => None
  | Some (s2, c2, hi, lo) => let '(s3, h) := zmk_node_a s2 lvl hi lo in Some (s3, c2, h)
  end.

(** [apply_cache().add(manager, op, &[..], h.borrowed())] *)
Definition zfin (res : zres) (code : N) (args : list ref) : zres :=
  match res with
  | None => None
  | Some (s', c', h) => Some (s', cadd c' code args [] h, h)
  end.

(** [apply_union], [apply_intsec], [apply_diff] (cf. [zapply]) *)
Fixpoint zapply_g (fuel : nat) (x : sched) (s : snap) (c : C) (op : zop) (f g : ref) : zres :=
  match fuel with
  | O => None
  | S n =>
    match zterminal s op f g with
    | ZTFail => None
    | ZTDone r => Some (s, c, r)
    | ZTGo =>
      let '(f, g) := if zcommutes op && gt f g then (g, f) else (f, g) in
      match cget c (zop_code op) [f; g] [] with
      | Some h => Some (s, c, h)
      | None =>
        match zget s f, zget s g with
        | Some fnode, Some gnode =>
          zfin
            (match lcmp (vlevel fnode) (vlevel gnode) with
             | Lt =>
               match zkids fnode, vlevel fnode with
               | Some (fhi, flo), Some flevel =>
                 match op with
                 | ZUnion | ZDiff => zlo_mk (zapply_g n x s c op flo g) flevel fhi
                 | ZIntsec => zapply_g n x s c op flo g
                 end
               | _, _ => None
               end
             | Eq =>
               match zkids fnode, zkids gnode, vlevel fnode with
               | Some (fhi, flo), Some (ghi, glo), Some flevel =>
                 zjoin x (fun x' s' c' => zapply_g n x' s' c' op fhi ghi)
                         (fun x' s' c' => zapply_g n x' s' c' op flo glo) s c flevel
               | _, _, _ => None
               end
             | Gt =>
               match zkids gnode, vlevel gnode with
               | Some (ghi, glo), Some glevel =>
                 match op with
                 | ZUnion => zlo_mk (zapply_g n x s c op f glo) glevel ghi
                 | ZIntsec | ZDiff => zapply_g n x s c op f glo
                 end
               | _, _ => None
               end
             end) (zop_code op) [f; g]
        | _, _ => None
        end
      end
    end
  end.

(** [apply_not] = [apply_diff(tautology(0), f)] (cf. [zapply_not]) *)
Definition zapply_not_g (fuel : nat) (x : sched) (s : snap) (c : C) (f : ref) : zres :=
  match ztaut s 0 with
  | Some t => zapply_g fuel x s c ZDiff t f
  | None => None
  end.

(** [apply_symm_diff] (cf. [zsymm]) *)
Fixpoint zsymm_g (fuel : nat) (x : sched) (s : snap) (c : C) (f g : ref) : zres :=
  match fuel with
  | O => None
  | S n =>
    match zempty s with
    | None => None
    | Some empty =>
      if ref_eqb f g then Some (s, c, empty)
      else if ref_eqb f empty then Some (s, c, g)
      else if ref_eqb g empty then Some (s, c, f)
      else
        let '(f, g) := if gt f g then (g, f) else (f, g) in
        match cget c zcode_symm [f; g] [] with
        | Some h => Some (s, c, h)
        | None =>
          match zget s f, zget s g with
          | Some fnode, Some gnode =>
            zfin
              (match lcmp (vlevel fnode) (vlevel gnode) with
               | Lt =>
                 match zkids fnode, vlevel fnode with
                 | Some (fhi, flo), Some flevel => zlo_mk (zsymm_g n x s c flo g) flevel fhi
                 | _, _ => None
                 end
               | Eq =>
                 match zkids fnode, zkids gnode, vlevel fnode with
                 | Some (fhi, flo), Some (ghi, glo), Some flevel =>
                   zjoin x (fun x' s' c' => zsymm_g n x' s' c' fhi ghi)
                           (fun x' s' c' => zsymm_g n x' s' c' flo glo) s c flevel
                 | _, _, _ => None
                 end
               | Gt =>
                 match zkids gnode, vlevel gnode with
                 | Some (ghi, glo), Some glevel => zlo_mk (zsymm_g n x s c f glo) glevel ghi
                 | _, _ => None
                 end
               end) zcode_symm [f; g]
          | _, _ => None
          end
        end
    end
  end.

(** [apply_ite] (cf. [zapply_ite]; the nested [apply_union] / [apply_intsec] /
    [apply_diff] calls get the fuel of the enclosing call, as there) *)
Fixpoint zapply_ite_g (fuel : nat) (x : sched) (s : snap) (c : C) (f g h : ref) : zres :=
  match fuel with
  | O => None
  | S n =>
    if ref_eqb g h then Some (s, c, g)
    else if ref_eqb f g then zapply_g fuel x s c ZUnion f h
    else if ref_eqb f h then zapply_g fuel x s c ZIntsec f g
    else
      match zget s f with
      | None => None
      | Some fnode =>
        if is_empty_b s f then Some (s, c, h)
        else
          match zget s g with
          | None => None
          | Some gnode =>
            if is_empty_b s g then zapply_g fuel x s c ZDiff h f
            else
              match zget s h with
              | None => None
              | Some hnode =>
                if is_empty_b s h then zapply_g fuel x s c ZIntsec f g
                else
                  let flevel := vlevel fnode in
                  let glevel := vlevel gnode in
                  let hlevel := vlevel hnode in
                  let ghlevel := lmin glevel hlevel in
                  let level := lmin flevel ghlevel in
                  match ztaut_opt s level with
                  | None => None
                  | Some taut =>
                    if ref_eqb f taut then Some (s, c, g)
                    else if ref_eqb g taut then zapply_g fuel x s c ZUnion f h
                    else
                      match cget c zcode_ite [f; g; h] [] with
                      | Some r => Some (s, c, r)
                      | None =>
                        zfin
                          (match lcmp flevel ghlevel with
                           | Gt =>
                             match lcmp glevel hlevel with
                             | Lt =>
                               match zkids gnode with
                               | Some (_, glo) => zapply_ite_g n x s c f glo h
                               | None => None
                               end
                             | cmp =>
                               match zkids hnode, level with
                               | Some (hhi, hlo), Some lv =>
                                 let g' :=
                                   match cmp with
                                   | Eq => match zkids gnode with Some (_, glo) => Some glo | None => None end
                                   | _ => Some g
                                   end in
                                 match g' with
                                 | None => None
                                 | Some g' => zlo_mk (zapply_ite_g n x s c f g' hlo) lv hhi
                                 end
                               | _, _ => None
                               end
                             end
                           | Lt =>
                             match zkids fnode with
                             | Some (_, flo) => zapply_ite_g n x s c flo g h
                             | None => None
                             end
                           | Eq =>
                             match zkids fnode, level with
                             | Some (fhi, flo), Some lv =>
                               match lcmp hlevel flevel with
                               | Gt =>
                                 match zkids gnode with
                                 | Some (ghi, glo) =>
                                   (* binary_ternary(apply_intsec, (fhi, ghi), apply_ite, (flo, glo, h)) *)
                                   zjoin x (fun x' s' c' => zapply_g fuel x' s' c' ZIntsec fhi ghi)
                                           (fun x' s' c' => zapply_ite_g n x' s' c' flo glo h) s c lv
                                 | None => None
                                 end
                               | _ =>
                                 match lcmp glevel flevel with
                                 | Gt =>
                                   match zkids hnode with
                                   | Some (hhi, hlo) =>
                                     (* binary_ternary(apply_diff, (hhi, fhi), apply_ite, (flo, g, hlo)) *)
                                     zjoin x (fun x' s' c' => zapply_g fuel x' s' c' ZDiff hhi fhi)
                                             (fun x' s' c' => zapply_ite_g n x' s' c' flo g hlo) s c lv
                                   | None => None
                                   end
                                 | _ =>
                                   match zkids gnode, zkids hnode with
                                   | Some (ghi, glo), Some (hhi, hlo) =>
                                     (* ternary(apply_ite, (fhi, ghi, hhi), (flo, glo, hlo)) *)
                                     zjoin x (fun x' s' c' => zapply_ite_g n x' s' c' fhi ghi hhi)
                                             (fun x' s' c' => zapply_ite_g n x' s' c' flo glo hlo) s c lv
                                   | _, _ => None
                                   end
                                 end
                               end
                             | _, _ => None
                             end
                           end) zcode_ite [f; g; h]
                      end
                  end
              end
          end
      end
  end.

(** the entry points of [BooleanFunction for ZBDDFunction] (cf. [zapply_op]) *)
Definition zapply_op_g (fuel : nat) (x : sched) (s : snap) (c : C) (op : bop) (f g : ref) : zres :=
  match op with
  | OAnd => zapply_g fuel x s c ZIntsec f g
  | OOr => zapply_g fuel x s c ZUnion f g
  | ONand =>
    match zapply_g fuel x s c ZIntsec f g with
    | Some (s1, c1, r) => zapply_not_g fuel x s1 c1 r
    | None => None
    end
  | ONor =>
    match zapply_g fuel x s c ZUnion f g with
    | Some (s1, c1, r) => zapply_not_g fuel x s1 c1 r
    | None => None
    end
  | OXor => zsymm_g fuel x s c f g
  | OEquiv =>
    match zsymm_g fuel x s c f g with
    | Some (s1, c1, r) => zapply_not_g fuel x s1 c1 r
    | None => None
    end
  | OImp =>
    match ztaut s 0 with
    | Some t => zapply_ite_g fuel x s c f g t
    | None => None
    end
  | OImpStrict => zapply_g fuel x s c ZDiff g f
  end.

(** ** Variables, and whole API-call histories on one ZBDD manager *)

(** the loop of [var_edge] / [restrict_base]: don't-care nodes on top of [e] (cf. [zdc_wrap]) *)
Fixpoint zdc_wrap_a (level cnt : nat) (s : snap) (e : ref) : snap * ref :=
  match cnt with
  | O => (s, e)
  | S k =>
    let '(s', e') := get_or_insert_a alloc s (level + k) [E e; E e] in
    zdc_wrap_a level k s' (eref e')
  end.

(** [var_edge] on a store that allocates with [alloc] (cf. [zvar]) *)
Definition zvar_a (s : snap) (var : nat) : option (snap * ref) :=
  match nth_error (s_v2l s) var, zempty s with
  | Some level, Some lo =>
    match ztaut s (S level) with
    | Some hi =>
      let '(s1, e) := get_or_insert_a alloc s level [E hi; E lo] in
      Some (zdc_wrap_a 0 level s1 (eref e))
    | None => None
    end
  | _, _ => None
  end.

(** [not_var_edge] (default of oxidd-core): [not_edge_owned(var_edge(var))] (cf. [znot_var]) *)
Definition znot_var_g (fuel : nat) (x : sched) (s : snap) (c : C) (var : nat) : zres :=
  match zvar_a s var with
  | Some (s1, e) => zapply_not_g fuel x s1 c e
  | None => None
  end.

(** [mstep] / [run_ops] of DD/ConfigApply.v for the ZBDD kind (Boolean-function interface) *)
Record zmstate := mkZM { zm_snap : snap; zm_cache : C; zm_step : nat }.

(** the schedule of the [k]-th call *)
Variable sch_at : nat -> sched.

Definition zmstep (st : zmstate) (o : mop) : option zmstate :=
  let s := zm_snap st in
  let c := zm_cache st in
  let k := zm_step st in
  let fuel := S (nlevels s) in
  let fin (res : zres) (d : N) :=
    match res with
    | Some (s', c', r) => Some (mkZM (put s' d r) c' (S k))
    | None => None
    end in
  match o with
  | MConst d b =>
    match zconst s b with
    | Some r => Some (mkZM (put s d r) c (S k))
    | None => None
    end
  | MVar d v neg =>
    if neg then fin (znot_var_g fuel (sch_at k) s c v) d
    else
      match zvar_a s v with
      | Some (s', r) => Some (mkZM (put s' d r) c (S k))
      | None => None
      end
  | MNot d a =>
    match hget (s_handles s) a with
    | Some ea => fin (zapply_not_g fuel (sch_at k) s c (eref ea)) d
    | None => None
    end
  | MBin d o a b =>
    match hget (s_handles s) a, hget (s_handles s) b with
    | Some ea, Some eb => fin (zapply_op_g fuel (sch_at k) s c o (eref ea) (eref eb)) d
    | _, _ => None
    end
  | MIte d a b e =>
    match hget (s_handles s) a, hget (s_handles s) b, hget (s_handles s) e with
    | Some ea, Some eb, Some ee => fin (zapply_ite_g fuel (sch_at k) s c (eref ea) (eref eb) (eref ee)) d
    | _, _, _ => None
    end
  | MClone d a =>
    match hget (s_handles s) a with
    | Some ea => Some (mkZM (put s d (eref ea)) c (S k))
    | None => None
    end
  | MDrop d => Some (mkZM (set_handles s (hdel (s_handles s) d)) c (S k))
  end.

Definition zostep (st : option zmstate) (o : mop) : option zmstate :=
  match st with Some x => zmstep x o | None => None end.

Definition zrun_ops (st : zmstate) (ops : list mop) : option zmstate :=
  fold_left zostep ops (Some st).

End Cfg.
