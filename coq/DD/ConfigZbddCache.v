(** * C20x (a): ZBDD apply cache enabled / disabled / any other cache - identical results

    Two runs of the same ZBDD operation on the same table, with the same node
    store and the same schedule, but with two arbitrary (possibly different)
    lossy cache implementations holding arbitrary correct contents, and two
    arbitrary edge orders [gt1] / [gt2] (so the two runs of a commutative
    operator may recurse with swapped operand pairs): the resulting TABLES are
    identical and the returned EDGES are identical ([z*_g_agree]).  This part:
    union / intersection / difference, negation, symmetric difference; the
    building blocks [zjoin_agree], [zlo_mk_agree], [zfin_agree].
    if-then-else and the eight operators: DD/ConfigZbddCacheIte.v. *)

From Coq Require Import List NArith PArith Bool Arith Lia FMapPositive.
From OxiVerif Require Import DD.Table DD.TableExtra DD.TableProofs DD.Sem DD.Build DD.BuildProofs DD.PickInsert
  DD.Apply DD.ApplyProofs DD.CanonZbdd DD.FamSpec DD.FamSpecProofs DD.ZbddOps DD.ZbddOpsProofs
  DD.ZbddSubsetProofs DD.ZbddSoundProofs DD.ZbddVars DD.ZbddVarsProofs DD.ZbddBool DD.ZbddBoolProofs
  DD.ZbddXorProofs DD.ZbddIteProofs
  DD.ConfigApply DD.ConfigProofs DD.ConfigInsert DD.ConfigZbdd DD.ConfigZbddProofs.
Import ListNotations.

Lemma lcmp_swap : forall a b, lcmp b a = CompOpp (lcmp a b).
Proof.
  intros [x|] [y|]; simpl; try reflexivity. apply Nat.compare_antisym.
Qed.

Section CacheExact.
Variable alloc : snap -> positive.
Hypothesis Halloc : alloc_ok alloc.
Variables gt1 gt2 : ref -> ref -> bool.
Variables C1 C2 : Type.
Variable cget1 : C1 -> N -> list ref -> list nat -> option ref.
Variable cadd1 : C1 -> N -> list ref -> list nat -> ref -> C1.
Variable cget2 : C2 -> N -> list ref -> list nat -> option ref.
Variable cadd2 : C2 -> N -> list ref -> list nat -> ref -> C2.
Hypothesis L1 : zlossy C1 cget1 cadd1.
Hypothesis L2 : zlossy C2 cget2 cadd2.

Notation COKB1 := (ZCacheOKB C1 cget1).
Notation COKB2 := (ZCacheOKB C2 cget2).
Notation RST1 := (zres_st cget1).
Notation RST2 := (zres_st cget2).

(** both runs succeed, with the same table and the same edge (the caches may differ) *)
Definition zsame_out (r1 : option (snap * C1 * ref)) (r2 : option (snap * C2 * ref)) : Prop :=
  match r1, r2 with
  | Some (s1, _, a), Some (s2, _, b) => s1 = s2 /\ a = b
  | _, _ => False
  end.

Lemma zunchanged_agree_l : forall s res2 R c1' r1,
  RST1 s (Some (s, c1', r1)) R -> RST2 s res2 R -> zsame_out (Some (s, c1', r1)) res2.
Proof.
  intros s res2 R c1' r1 (sa & ca & ra & Ea & _ & _ & _ & Da & _) (sb & cb & rb & Eb & _ & _ & _ & _ & Sb).
  inversion Ea; subst sa ca ra. rewrite Eb. destruct (Sb r1 Da) as [-> ->]. simpl. auto.
Qed.

Lemma zunchanged_agree_r : forall s res1 R c2' r2,
  RST1 s res1 R -> RST2 s (Some (s, c2', r2)) R -> zsame_out res1 (Some (s, c2', r2)).
Proof.
  intros s res1 R c2' r2 (sa & ca & ra & Ea & _ & _ & _ & _ & Sa) (sb & cb & rb & Eb & _ & _ & _ & Db & _).
  inversion Eb; subst sb cb rb. rewrite Ea. destruct (Sa r2 Db) as [-> ->]. simpl. auto.
Qed.

(** two closures that agree in every later state *)
Definition zruns_agree (s : snap)
  (run1 : sched -> snap -> C1 -> option (snap * C1 * ref))
  (run2 : sched -> snap -> C2 -> option (snap * C2 * ref)) : Prop :=
  forall x s' a b, ZbddOK s' -> extends s s' -> COKB1 s' a -> COKB2 s' b ->
    zsame_out (run1 x s' a) (run2 x s' b).

Lemma zfork2_agree : forall x runT1 runE1 runT2 runE2 s c1 c2 P0 P1,
  ZbddOK s -> COKB1 s c1 -> COKB2 s c2 ->
  zrun_ok cget1 s runT1 P0 -> zrun_ok cget2 s runT2 P0 ->
  zrun_ok cget1 s runE1 P1 -> zrun_ok cget2 s runE2 P1 ->
  zruns_agree s runT1 runT2 -> zruns_agree s runE1 runE2 ->
  match fork2 C1 x runT1 runE1 s c1, fork2 C2 x runT2 runE2 s c2 with
  | Some (sa, _, ta, ea), Some (sb, _, tb, eb) => sa = sb /\ ta = tb /\ ea = eb
  | _, _ => False
  end.
Proof.
  intros x runT1 runE1 runT2 runE2 s c1 c2 P0 P1 B O1 O2 HT1 HT2 HE1 HE2 AT AE.
  unfold fork2. destruct (sch_swap x).
  - destruct (HE1 (sch_r x) s c1 B (extends_refl s) O1) as (sa & ca & ea & Ea & Ba & Xa & Oa & _).
    destruct (HE2 (sch_r x) s c2 B (extends_refl s) O2) as (sb & cb & eb & Eb & _ & _ & Ob & _).
    pose proof (AE (sch_r x) s c1 c2 B (extends_refl s) O1 O2) as A. rewrite Ea, Eb in A.
    destruct A as [<- <-]. rewrite Ea, Eb.
    assert (Oc1 : COKB1 sa (if sch_stale x then c1 else ca))
      by (destruct (sch_stale x); [apply (zcacheokb_extends C1 cget1 s sa c1 B Xa O1) | exact Oa]).
    assert (Oc2 : COKB2 sa (if sch_stale x then c2 else cb))
      by (destruct (sch_stale x); [apply (zcacheokb_extends C2 cget2 s sa c2 B Xa O2) | exact Ob]).
    destruct (HT1 (sch_l x) sa _ Ba Xa Oc1) as (s2 & c2' & t & Et & _).
    destruct (HT2 (sch_l x) sa _ Ba Xa Oc2) as (s3 & c3' & t' & Et' & _).
    pose proof (AT (sch_l x) sa _ _ Ba Xa Oc1 Oc2) as A. rewrite Et, Et' in A.
    destruct A as [<- <-]. rewrite Et, Et'. auto.
  - destruct (HT1 (sch_l x) s c1 B (extends_refl s) O1) as (sa & ca & ta & Ea & Ba & Xa & Oa & _).
    destruct (HT2 (sch_l x) s c2 B (extends_refl s) O2) as (sb & cb & tb & Eb & _ & _ & Ob & _).
    pose proof (AT (sch_l x) s c1 c2 B (extends_refl s) O1 O2) as A. rewrite Ea, Eb in A.
    destruct A as [<- <-]. rewrite Ea, Eb.
    assert (Oc1 : COKB1 sa (if sch_stale x then c1 else ca))
      by (destruct (sch_stale x); [apply (zcacheokb_extends C1 cget1 s sa c1 B Xa O1) | exact Oa]).
    assert (Oc2 : COKB2 sa (if sch_stale x then c2 else cb))
      by (destruct (sch_stale x); [apply (zcacheokb_extends C2 cget2 s sa c2 B Xa O2) | exact Ob]).
    destruct (HE1 (sch_r x) sa _ Ba Xa Oc1) as (s2 & c2' & e & Ee & _).
    destruct (HE2 (sch_r x) sa _ Ba Xa Oc2) as (s3 & c3' & e' & Ee' & _).
    pose proof (AE (sch_r x) sa _ _ Ba Xa Oc1 Oc2) as A. rewrite Ee, Ee' in A.
    destruct A as [<- <-]. rewrite Ee, Ee'. auto.
Qed.

Lemma zjoin_agree : forall x runT1 runE1 runT2 runE2 s c1 c2 P0 P1 lvl,
  ZbddOK s -> COKB1 s c1 -> COKB2 s c2 ->
  zrun_ok cget1 s runT1 P0 -> zrun_ok cget2 s runT2 P0 ->
  zrun_ok cget1 s runE1 P1 -> zrun_ok cget2 s runE2 P1 ->
  zruns_agree s runT1 runT2 -> zruns_agree s runE1 runE2 ->
  zsame_out (zjoin alloc C1 x runT1 runE1 s c1 lvl) (zjoin alloc C2 x runT2 runE2 s c2 lvl).
Proof.
  intros x runT1 runE1 runT2 runE2 s c1 c2 P0 P1 lvl B O1 O2 HT1 HT2 HE1 HE2 AT AE.
  pose proof (zfork2_agree x runT1 runE1 runT2 runE2 s c1 c2 P0 P1 B O1 O2 HT1 HT2 HE1 HE2 AT AE) as A.
  unfold zjoin.
  destruct (fork2 C1 x runT1 runE1 s c1) as [[[[sa ca] ta] ea]|]; [|contradiction].
  destruct (fork2 C2 x runT2 runE2 s c2) as [[[[sb cb] tb] eb]|]; [|contradiction].
  destruct A as [<- [<- <-]].
  destruct (zmk_node_a alloc sa lvl ta ea) as [s3 h]. simpl. auto.
Qed.

Lemma zlo_mk_agree : forall res1 res2 lvl hi, zsame_out res1 res2 ->
  zsame_out (zlo_mk alloc C1 res1 lvl hi) (zlo_mk alloc C2 res2 lvl hi).
Proof.
  intros [[[s1 c1] a]|] [[[s2 c2] b]|] lvl hi; simpl; try contradiction. intros [-> ->].
  destruct (zmk_node_a alloc s2 lvl hi b) as [s3 h]. simpl. auto.
Qed.

Lemma zfin_agree : forall res1 res2 code1 args1 code2 args2, zsame_out res1 res2 ->
  zsame_out (zfin C1 cadd1 res1 code1 args1) (zfin C2 cadd2 res2 code2 args2).
Proof.
  intros [[[s1 c1] a]|] [[[s2 c2] b]|] code1 args1 code2 args2; simpl; try contradiction. auto.
Qed.

Local Ltac dead R := let EE := fresh "EE" in destruct R as (? & ? & ? & EE & _); discriminate EE.

(** ** union, intersection, difference *)

(** the operands of the second run are those of the first, possibly swapped
    (commutative operators only) *)
Definition zsw (op : zop) (f g f' g' : ref) : Prop :=
  (f' = f /\ g' = g) \/ (zcommutes op = true /\ f' = g /\ g' = f).

(** the part of [apply_union/intsec/diff] after the terminal cases and the
    operand normalisation, with the recursive calls abstracted *)
Definition zcore (C : Type) (cget : C -> N -> list ref -> list nat -> option ref)
    (cadd : C -> N -> list ref -> list nat -> ref -> C)
    (rec : sched -> snap -> C -> ref -> ref -> option (snap * C * ref))
    (x : sched) (s : snap) (c : C) (op : zop) (f g : ref) : option (snap * C * ref) :=
  match cget c (zop_code op) [f; g] [] with
  | Some h => Some (s, c, h)
  | None =>
    match zget s f, zget s g with
    | Some fnode, Some gnode =>
      zfin C cadd
        (match lcmp (vlevel fnode) (vlevel gnode) with
         | Lt =>
           match zkids fnode, vlevel fnode with
           | Some (fhi, flo), Some flevel =>
             match op with
             | ZUnion | ZDiff => zlo_mk alloc C (rec x s c flo g) flevel fhi
             | ZIntsec => rec x s c flo g
             end
           | _, _ => None
           end
         | Eq =>
           match zkids fnode, zkids gnode, vlevel fnode with
           | Some (fhi, flo), Some (ghi, glo), Some flevel =>
             zjoin alloc C x (fun x' s' c' => rec x' s' c' fhi ghi)
                   (fun x' s' c' => rec x' s' c' flo glo) s c flevel
           | _, _, _ => None
           end
         | Gt =>
           match zkids gnode, vlevel gnode with
           | Some (ghi, glo), Some glevel =>
             match op with
             | ZUnion => zlo_mk alloc C (rec x s c f glo) glevel ghi
             | ZIntsec | ZDiff => rec x s c f glo
             end
           | _, _ => None
           end
         end) (zop_code op) [f; g]
    | _, _ => None
    end
  end.

Lemma zapply_g_core : forall gt C cget cadd n x s c op f g,
  zapply_g alloc gt C cget cadd (S n) x s c op f g =
    match zterminal s op f g with
    | ZTFail => None
    | ZTDone r => Some (s, c, r)
    | ZTGo =>
      let '(f, g) := if zcommutes op && gt f g then (g, f) else (f, g) in
      zcore C cget cadd (fun x' s' c' a b => zapply_g alloc gt C cget cadd n x' s' c' op a b) x s c op f g
    end.
Proof. reflexivity. Qed.

Lemma zcore_agree : forall op n
  (rec1 : sched -> snap -> C1 -> ref -> ref -> option (snap * C1 * ref))
  (rec2 : sched -> snap -> C2 -> ref -> ref -> option (snap * C2 * ref)),
  (forall x s c f g P Q, ZbddOK s -> COKB1 s c -> ZDen s f P -> ZDen s g Q ->
     nlevels s - Nat.min (rlevel s f) (rlevel s g) < n -> RST1 s (rec1 x s c f g) (pbin op P Q)) ->
  (forall x s c f g P Q, ZbddOK s -> COKB2 s c -> ZDen s f P -> ZDen s g Q ->
     nlevels s - Nat.min (rlevel s f) (rlevel s g) < n -> RST2 s (rec2 x s c f g) (pbin op P Q)) ->
  (forall x s a b f g f' g' P Q, ZbddOK s -> COKB1 s a -> COKB2 s b -> ZDen s f P -> ZDen s g Q ->
     zsw op f g f' g' -> nlevels s - Nat.min (rlevel s f) (rlevel s g) < n ->
     zsame_out (rec1 x s a f g) (rec2 x s b f' g')) ->
  forall x s c1 c2 f g f' g' P Q,
    ZbddOK s -> COKB1 s c1 -> COKB2 s c2 -> ZDen s f P -> ZDen s g Q -> zsw op f g f' g' ->
    f <> g -> (forall t, f = RT t -> term_val s t = Some 1%N) -> (forall t, g = RT t -> term_val s t = Some 1%N) ->
    nlevels s - Nat.min (rlevel s f) (rlevel s g) < S n ->
    RST1 s (zcore C1 cget1 cadd1 rec1 x s c1 op f g) (pbin op P Q) ->
    RST2 s (zcore C2 cget2 cadd2 rec2 x s c2 op f' g') (pbin op P Q) ->
    zsame_out (zcore C1 cget1 cadd1 rec1 x s c1 op f g) (zcore C2 cget2 cadd2 rec2 x s c2 op f' g').
Proof.
  intros op n rec1 rec2 Hok1 Hok2 Hag x s c1 c2 f g f' g' P Q B O1 O2 DF DG Hsw Hne Hf1 Hg1 Hfuel R1 R2.
  pose proof (zo_wf s B) as H.
  unfold zcore in *.
  destruct (cget1 c1 (zop_code op) [f; g] []) eqn:G1; [eapply zunchanged_agree_l; eauto|].
  destruct (cget2 c2 (zop_code op) [f'; g'] []) eqn:G2; [eapply zunchanged_agree_r; eauto|].
  clear R1 R2.
  destruct (zget_total s f (zden_ok _ _ _ DF)) as [vf Evf].
  destruct (zget_total s g (zden_ok _ _ _ DG)) as [vg Evg].
  (* closures of the sub-calls *)
  assert (K1 : forall a b PA PB, ZDen s a PA -> ZDen s b PB ->
            nlevels s - Nat.min (rlevel s a) (rlevel s b) < n ->
            zrun_ok cget1 s (fun x' s' c' => rec1 x' s' c' a b) (pbin op PA PB)).
  { intros a b PA PB Da Db Hn x' s' c' B' X' O'. apply Hok1; auto; try (apply (zden_extends s s' _ _ B X'); assumption).
    rewrite (ext_nlevels _ _ X'), (ext_rlevel _ _ _ X' (zden_ok _ _ _ Da)), (ext_rlevel _ _ _ X' (zden_ok _ _ _ Db)). exact Hn. }
  assert (K2 : forall a b PA PB, ZDen s a PA -> ZDen s b PB ->
            nlevels s - Nat.min (rlevel s a) (rlevel s b) < n ->
            zrun_ok cget2 s (fun x' s' c' => rec2 x' s' c' a b) (pbin op PA PB)).
  { intros a b PA PB Da Db Hn x' s' c' B' X' O'. apply Hok2; auto; try (apply (zden_extends s s' _ _ B X'); assumption).
    rewrite (ext_nlevels _ _ X'), (ext_rlevel _ _ _ X' (zden_ok _ _ _ Da)), (ext_rlevel _ _ _ X' (zden_ok _ _ _ Db)). exact Hn. }
  assert (K2s : zcommutes op = true -> forall a b PA PB, ZDen s a PA -> ZDen s b PB ->
            nlevels s - Nat.min (rlevel s a) (rlevel s b) < n ->
            zrun_ok cget2 s (fun x' s' c' => rec2 x' s' c' b a) (pbin op PA PB)).
  { intros Hcm a b PA PB Da Db Hn x' s' c' B' X' O'.
    apply (zres_st_ext C2 cget2 s' _ (pbin op PB PA)); [apply pbin_comm; exact Hcm|].
    apply Hok2; auto; try (apply (zden_extends s s' _ _ B X'); assumption).
    rewrite (ext_nlevels _ _ X'), (ext_rlevel _ _ _ X' (zden_ok _ _ _ Da)), (ext_rlevel _ _ _ X' (zden_ok _ _ _ Db)).
    rewrite Nat.min_comm. exact Hn. }
  assert (KA : forall a b a' b' PA PB, ZDen s a PA -> ZDen s b PB -> zsw op a b a' b' ->
            nlevels s - Nat.min (rlevel s a) (rlevel s b) < n ->
            zruns_agree s (fun x' s' c' => rec1 x' s' c' a b) (fun x' s' c' => rec2 x' s' c' a' b')).
  { intros a b a' b' PA PB Da Db Hs Hn x' s' ca cb B' X' Oa Ob.
    apply (Hag x' s' ca cb a b a' b' PA PB B' Oa Ob (zden_extends s s' _ _ B X' Da) (zden_extends s s' _ _ B X' Db) Hs).
    rewrite (ext_nlevels _ _ X'), (ext_rlevel _ _ _ X' (zden_ok _ _ _ Da)), (ext_rlevel _ _ _ X' (zden_ok _ _ _ Db)). exact Hn. }
  pose proof (lcmp_cases s f g vf vg B Evf Evg) as Hl.
  destruct Hsw as [[-> ->]|[Hcm [-> ->]]].
  - (* same operand order *)
    rewrite Evf, Evg. apply zfin_agree.
    destruct (lcmp (vlevel vf) (vlevel vg)).
    + destruct Hl as [(idf & ndf & idg & ndg & -> & -> & Enf & Eng & -> & -> & Hlev)|(tf & tg & -> & ->)].
      2:{ exfalso. apply Hne. f_equal.
          apply (term_val_inj s tf tg 1%N H (Hf1 tf eq_refl) (Hg1 tg eq_refl)). }
      destruct (znode_facts s idf ndf P B DF Enf)
        as (Sf & Lf & Rf & fhi & flo & PA & PB & Ecf & DA & DB & LA & LB & HP & SA & SB).
      destruct (znode_facts s idg ndg Q B DG Eng)
        as (Sg & Lg & Rg & ghi & glo & QA & QB & Ecg & DA' & DB' & LA' & LB' & HQ & SA' & SB').
      simpl zkids. simpl vlevel. rewrite Ecf, Ecg, Sf. rewrite Rf, Rg in Hfuel.
      rewrite <- Hlev in *.
      pose proof (rlevel_le s H (eref fhi)). pose proof (rlevel_le s H (eref ghi)).
      pose proof (rlevel_le s H (eref flo)). pose proof (rlevel_le s H (eref glo)).
      apply (zjoin_agree x _ _ _ _ s c1 c2 (pbin op PA QA) (pbin op PB QB)); auto;
        try (apply K1; auto; lia); try (apply K2; auto; lia);
        try (apply (KA _ _ _ _ PA QA); auto; [left; auto | lia]);
        try (apply (KA _ _ _ _ PB QB); auto; [left; auto | lia]).
    + destruct Hl as (idf & ndf & -> & Enf & -> & Hlt).
      destruct (znode_facts s idf ndf P B DF Enf)
        as (Sf & Lf & Rf & fhi & flo & PA & PB & Ecf & DA & DB & LA & LB & HP & SA & SB).
      simpl zkids. simpl vlevel. rewrite Ecf, Sf. rewrite Rf in Hfuel.
      pose proof (rlevel_le s H (eref flo)). pose proof (rlevel_le s H g).
      assert (A : zsame_out (rec1 x s c1 (eref flo) g) (rec2 x s c2 (eref flo) g))
        by (apply (Hag x s c1 c2 _ _ _ _ PB Q B O1 O2 DB DG); [left; auto | lia]).
      destruct op; [apply zlo_mk_agree; exact A | exact A | apply zlo_mk_agree; exact A].
    + destruct Hl as (idg & ndg & -> & Eng & -> & Hlt).
      destruct (znode_facts s idg ndg Q B DG Eng)
        as (Sg & Lg & Rg & ghi & glo & QA & QB & Ecg & DA' & DB' & LA' & LB' & HQ & SA' & SB').
      simpl zkids. simpl vlevel. rewrite Ecg, Sg. rewrite Rg in Hfuel.
      pose proof (rlevel_le s H (eref glo)). pose proof (rlevel_le s H f).
      assert (A : zsame_out (rec1 x s c1 f (eref glo)) (rec2 x s c2 f (eref glo)))
        by (apply (Hag x s c1 c2 _ _ _ _ P QB B O1 O2 DF DB'); [left; auto | lia]).
      destruct op; [apply zlo_mk_agree; exact A | exact A | exact A].
  - (* the second run has the operands swapped (union, intersection) *)
    rewrite Evf, Evg. apply zfin_agree.
    rewrite (lcmp_swap (vlevel vf) (vlevel vg)).
    destruct (lcmp (vlevel vf) (vlevel vg)); simpl CompOpp.
    + destruct Hl as [(idf & ndf & idg & ndg & -> & -> & Enf & Eng & -> & -> & Hlev)|(tf & tg & -> & ->)].
      2:{ exfalso. apply Hne. f_equal.
          apply (term_val_inj s tf tg 1%N H (Hf1 tf eq_refl) (Hg1 tg eq_refl)). }
      destruct (znode_facts s idf ndf P B DF Enf)
        as (Sf & Lf & Rf & fhi & flo & PA & PB & Ecf & DA & DB & LA & LB & HP & SA & SB).
      destruct (znode_facts s idg ndg Q B DG Eng)
        as (Sg & Lg & Rg & ghi & glo & QA & QB & Ecg & DA' & DB' & LA' & LB' & HQ & SA' & SB').
      simpl zkids. simpl vlevel. rewrite Ecf, Ecg, Sf, Sg. rewrite Rf, Rg in Hfuel.
      rewrite <- Hlev in *.
      pose proof (rlevel_le s H (eref fhi)). pose proof (rlevel_le s H (eref ghi)).
      pose proof (rlevel_le s H (eref flo)). pose proof (rlevel_le s H (eref glo)).
      apply (zjoin_agree x _ _ _ _ s c1 c2 (pbin op PA QA) (pbin op PB QB)); auto;
        try (apply K1; auto; lia); try (apply (K2s Hcm); auto; lia);
        try (apply (KA _ _ _ _ PA QA); auto; [right; auto | lia]);
        try (apply (KA _ _ _ _ PB QB); auto; [right; auto | lia]).
    + destruct Hl as (idf & ndf & -> & Enf & -> & Hlt).
      destruct (znode_facts s idf ndf P B DF Enf)
        as (Sf & Lf & Rf & fhi & flo & PA & PB & Ecf & DA & DB & LA & LB & HP & SA & SB).
      simpl zkids. simpl vlevel. rewrite Ecf, Sf. rewrite Rf in Hfuel.
      pose proof (rlevel_le s H (eref flo)). pose proof (rlevel_le s H g).
      assert (A : zsame_out (rec1 x s c1 (eref flo) g) (rec2 x s c2 g (eref flo)))
        by (apply (Hag x s c1 c2 _ _ _ _ PB Q B O1 O2 DB DG); [right; auto | lia]).
      destruct op; [apply zlo_mk_agree; exact A | exact A | discriminate Hcm].
    + destruct Hl as (idg & ndg & -> & Eng & -> & Hlt).
      destruct (znode_facts s idg ndg Q B DG Eng)
        as (Sg & Lg & Rg & ghi & glo & QA & QB & Ecg & DA' & DB' & LA' & LB' & HQ & SA' & SB').
      simpl zkids. simpl vlevel. rewrite Ecg, Sg. rewrite Rg in Hfuel.
      pose proof (rlevel_le s H (eref glo)). pose proof (rlevel_le s H f).
      assert (A : zsame_out (rec1 x s c1 f (eref glo)) (rec2 x s c2 (eref glo) f))
        by (apply (Hag x s c1 c2 _ _ _ _ P QB B O1 O2 DF DB'); [right; auto | lia]).
      destruct op; [apply zlo_mk_agree; exact A | exact A | discriminate Hcm].
Qed.

Theorem zapply_g_agree : forall op fuel x s c1 c2 f g f' g' P Q,
  ZbddOK s -> COKB1 s c1 -> COKB2 s c2 -> ZDen s f P -> ZDen s g Q -> zsw op f g f' g' ->
  nlevels s - Nat.min (rlevel s f) (rlevel s g) < fuel ->
  zsame_out (zapply_g alloc gt1 C1 cget1 cadd1 fuel x s c1 op f g)
            (zapply_g alloc gt2 C2 cget2 cadd2 fuel x s c2 op f' g').
Proof.
  intros op. induction fuel as [|n IH]; intros x s c1 c2 f g f' g' P Q B O1 O2 DF DG Hsw Hfuel; [lia|].
  pose proof (zapply_g_ok alloc Halloc gt1 C1 cget1 cadd1 L1 op (S n) x s c1 f g P Q B O1 DF DG Hfuel) as R1.
  assert (R2 : RST2 s (zapply_g alloc gt2 C2 cget2 cadd2 (S n) x s c2 op f' g') (pbin op P Q)).
  { destruct Hsw as [[-> ->]|[Hcm [-> ->]]].
    - apply (zapply_g_ok alloc Halloc gt2 C2 cget2 cadd2 L2 op (S n) x s c2 f g P Q B O2 DF DG Hfuel).
    - apply (zres_st_ext C2 cget2 s _ (pbin op Q P)); [apply pbin_comm; exact Hcm|].
      apply (zapply_g_ok alloc Halloc gt2 C2 cget2 cadd2 L2 op (S n) x s c2 g f Q P B O2 DG DF). lia. }
  rewrite (zapply_g_core gt1 C1) in *. rewrite (zapply_g_core gt2 C2) in *.
  pose proof (zterminal_ok s op f g P Q B DF DG) as T1.
  destruct (zterminal s op f g) as [|r|] eqn:ET1; [destruct T1 | eapply zunchanged_agree_l; eauto |].
  destruct T1 as [Hne [Hf1 Hg1]].
  assert (T2 : match zterminal s op f' g' with
               | ZTFail => False
               | ZTDone r => True
               | ZTGo => True
               end).
  { destruct (zterminal s op f' g'); auto. dead R2. }
  destruct (zterminal s op f' g') as [|r|] eqn:ET2; [destruct T2 | eapply zunchanged_agree_r; eauto |].
  clear T2.
  (* the normalised operand pairs of the two runs *)
  assert (Hn : exists a b a' b' PA PB,
            (if zcommutes op && gt1 f g then (g, f) else (f, g)) = (a, b) /\
            (if zcommutes op && gt2 f' g' then (g', f') else (f', g')) = (a', b') /\
            ZDen s a PA /\ ZDen s b PB /\ zsw op a b a' b' /\ peq (pbin op PA PB) (pbin op P Q) /\
            a <> b /\ (forall t, a = RT t -> term_val s t = Some 1%N) /\
            (forall t, b = RT t -> term_val s t = Some 1%N) /\
            Nat.min (rlevel s a) (rlevel s b) = Nat.min (rlevel s f) (rlevel s g)).
  { destruct (zcommutes op && gt1 f g) eqn:S1; destruct (zcommutes op && gt2 f' g') eqn:S2;
      try (apply andb_true_iff in S1; destruct S1 as [Hc1 _]);
      try (apply andb_true_iff in S2; destruct S2 as [Hc2 _]);
      destruct Hsw as [[-> ->]|[Hcm [-> ->]]].
    - exists g, f, g, f, Q, P. repeat (split; [first [reflexivity | assumption | left; auto | apply pbin_comm; assumption | congruence | apply Nat.min_comm]|]). apply Nat.min_comm.
    - exists g, f, f, g, Q, P. repeat (split; [first [reflexivity | assumption | right; auto | apply pbin_comm; assumption | congruence | apply Nat.min_comm]|]). apply Nat.min_comm.
    - exists g, f, f, g, Q, P. repeat (split; [first [reflexivity | assumption | right; auto | apply pbin_comm; assumption | congruence | apply Nat.min_comm]|]). apply Nat.min_comm.
    - exists g, f, g, f, Q, P. repeat (split; [first [reflexivity | assumption | left; auto | apply pbin_comm; assumption | congruence | apply Nat.min_comm]|]). apply Nat.min_comm.
    - exists f, g, g, f, P, Q. repeat (split; [first [reflexivity | assumption | right; auto | apply peq_refl | congruence]|]). reflexivity.
    - exists f, g, f, g, P, Q. repeat (split; [first [reflexivity | assumption | left; auto | apply peq_refl | congruence]|]). reflexivity.
    - exists f, g, f, g, P, Q. repeat (split; [first [reflexivity | assumption | left; auto | apply peq_refl | congruence]|]). reflexivity.
    - exists f, g, g, f, P, Q. repeat (split; [first [reflexivity | assumption | right; auto | apply peq_refl | congruence]|]). reflexivity. }
  destruct Hn as (a & b & a' & b' & PA & PB & En1 & En2 & DA & DB & Hsw' & Hpq & Hne' & Ha1 & Hb1 & Hmin).
  rewrite En1 in *. rewrite En2 in *. rewrite <- Hmin in Hfuel.
  apply (zcore_agree op n _ _
           (fun x s c f g P Q => zapply_g_ok alloc Halloc gt1 C1 cget1 cadd1 L1 op n x s c f g P Q)
           (fun x s c f g P Q => zapply_g_ok alloc Halloc gt2 C2 cget2 cadd2 L2 op n x s c f g P Q)
           IH x s c1 c2 a b a' b' PA PB); auto.
  - apply (zres_st_ext C1 cget1 s _ (pbin op P Q)); [apply peq_sym; exact Hpq | exact R1].
  - apply (zres_st_ext C2 cget2 s _ (pbin op P Q)); [apply peq_sym; exact Hpq | exact R2].
Qed.

Lemma zsw_refl : forall op f g, zsw op f g f g.
Proof. intros op f g. left. auto. Qed.

(** ** Negation *)

Theorem zapply_not_g_agree : forall fuel x s c1 c2 f P,
  ZbddOK s -> ZChainOK s -> COKB1 s c1 -> COKB2 s c2 -> ZDen s f P -> nlevels s < fuel ->
  zsame_out (zapply_not_g alloc gt1 C1 cget1 cadd1 fuel x s c1 f)
            (zapply_not_g alloc gt2 C2 cget2 cadd2 fuel x s c2 f).
Proof.
  intros fuel x s c1 c2 f P B Hc O1 O2 D Hf. unfold zapply_not_g.
  destruct (ztaut_total s 0 Hc) as [t Et]. rewrite Et.
  pose proof (ztaut_den s 0 t B Et) as Dt.
  apply (zapply_g_agree ZDiff fuel x s c1 c2 t f t f _ P B O1 O2 Dt D (zsw_refl _ _ _)). lia.
Qed.

(** ** Symmetric difference *)

Definition xsw (f g f' g' : ref) : Prop := (f' = f /\ g' = g) \/ (f' = g /\ g' = f).

(** the part of [apply_symm_diff] after the terminal cases and the operand
    normalisation, with the recursive calls abstracted *)
Definition zxcore (C : Type) (cget : C -> N -> list ref -> list nat -> option ref)
    (cadd : C -> N -> list ref -> list nat -> ref -> C)
    (rec : sched -> snap -> C -> ref -> ref -> option (snap * C * ref))
    (x : sched) (s : snap) (c : C) (f g : ref) : option (snap * C * ref) :=
  match cget c zcode_symm [f; g] [] with
  | Some h => Some (s, c, h)
  | None =>
    match zget s f, zget s g with
    | Some fnode, Some gnode =>
      zfin C cadd
        (match lcmp (vlevel fnode) (vlevel gnode) with
         | Lt =>
           match zkids fnode, vlevel fnode with
           | Some (fhi, flo), Some flevel => zlo_mk alloc C (rec x s c flo g) flevel fhi
           | _, _ => None
           end
         | Eq =>
           match zkids fnode, zkids gnode, vlevel fnode with
           | Some (fhi, flo), Some (ghi, glo), Some flevel =>
             zjoin alloc C x (fun x' s' c' => rec x' s' c' fhi ghi)
                   (fun x' s' c' => rec x' s' c' flo glo) s c flevel
           | _, _, _ => None
           end
         | Gt =>
           match zkids gnode, vlevel gnode with
           | Some (ghi, glo), Some glevel => zlo_mk alloc C (rec x s c f glo) glevel ghi
           | _, _ => None
           end
         end) zcode_symm [f; g]
    | _, _ => None
    end
  end.

Lemma zsymm_g_core : forall gt C cget cadd n x s c f g,
  zsymm_g alloc gt C cget cadd (S n) x s c f g =
    match zempty s with
    | None => None
    | Some empty =>
      if ref_eqb f g then Some (s, c, empty)
      else if ref_eqb f empty then Some (s, c, g)
      else if ref_eqb g empty then Some (s, c, f)
      else
        let '(f, g) := if gt f g then (g, f) else (f, g) in
        zxcore C cget cadd (fun x' s' c' a b => zsymm_g alloc gt C cget cadd n x' s' c' a b) x s c f g
    end.
Proof. reflexivity. Qed.

Lemma zxcore_agree : forall n
  (rec1 : sched -> snap -> C1 -> ref -> ref -> option (snap * C1 * ref))
  (rec2 : sched -> snap -> C2 -> ref -> ref -> option (snap * C2 * ref)),
  (forall x s c f g P Q, ZbddOK s -> COKB1 s c -> ZDen s f P -> ZDen s g Q ->
     nlevels s - Nat.min (rlevel s f) (rlevel s g) < n -> RST1 s (rec1 x s c f g) (pxor P Q)) ->
  (forall x s c f g P Q, ZbddOK s -> COKB2 s c -> ZDen s f P -> ZDen s g Q ->
     nlevels s - Nat.min (rlevel s f) (rlevel s g) < n -> RST2 s (rec2 x s c f g) (pxor P Q)) ->
  (forall x s a b f g f' g' P Q, ZbddOK s -> COKB1 s a -> COKB2 s b -> ZDen s f P -> ZDen s g Q ->
     xsw f g f' g' -> nlevels s - Nat.min (rlevel s f) (rlevel s g) < n ->
     zsame_out (rec1 x s a f g) (rec2 x s b f' g')) ->
  forall x s c1 c2 f g f' g' P Q,
    ZbddOK s -> COKB1 s c1 -> COKB2 s c2 -> ZDen s f P -> ZDen s g Q -> xsw f g f' g' ->
    f <> g -> (forall t, f = RT t -> term_val s t = Some 1%N) -> (forall t, g = RT t -> term_val s t = Some 1%N) ->
    nlevels s - Nat.min (rlevel s f) (rlevel s g) < S n ->
    RST1 s (zxcore C1 cget1 cadd1 rec1 x s c1 f g) (pxor P Q) ->
    RST2 s (zxcore C2 cget2 cadd2 rec2 x s c2 f' g') (pxor P Q) ->
    zsame_out (zxcore C1 cget1 cadd1 rec1 x s c1 f g) (zxcore C2 cget2 cadd2 rec2 x s c2 f' g').
Proof.
  intros n rec1 rec2 Hok1 Hok2 Hag x s c1 c2 f g f' g' P Q B O1 O2 DF DG Hsw Hne Hf1 Hg1 Hfuel R1 R2.
  pose proof (zo_wf s B) as H.
  unfold zxcore in *.
  destruct (cget1 c1 zcode_symm [f; g] []) eqn:G1; [eapply zunchanged_agree_l; eauto|].
  destruct (cget2 c2 zcode_symm [f'; g'] []) eqn:G2; [eapply zunchanged_agree_r; eauto|].
  clear R1 R2.
  destruct (zget_total s f (zden_ok _ _ _ DF)) as [vf Evf].
  destruct (zget_total s g (zden_ok _ _ _ DG)) as [vg Evg].
  assert (K1 : forall a b PA PB, ZDen s a PA -> ZDen s b PB ->
            nlevels s - Nat.min (rlevel s a) (rlevel s b) < n ->
            zrun_ok cget1 s (fun x' s' c' => rec1 x' s' c' a b) (pxor PA PB)).
  { intros a b PA PB Da Db Hn x' s' c' B' X' O'. apply Hok1; auto; try (apply (zden_extends s s' _ _ B X'); assumption).
    rewrite (ext_nlevels _ _ X'), (ext_rlevel _ _ _ X' (zden_ok _ _ _ Da)), (ext_rlevel _ _ _ X' (zden_ok _ _ _ Db)). exact Hn. }
  assert (K2 : forall a b PA PB, ZDen s a PA -> ZDen s b PB ->
            nlevels s - Nat.min (rlevel s a) (rlevel s b) < n ->
            zrun_ok cget2 s (fun x' s' c' => rec2 x' s' c' a b) (pxor PA PB)).
  { intros a b PA PB Da Db Hn x' s' c' B' X' O'. apply Hok2; auto; try (apply (zden_extends s s' _ _ B X'); assumption).
    rewrite (ext_nlevels _ _ X'), (ext_rlevel _ _ _ X' (zden_ok _ _ _ Da)), (ext_rlevel _ _ _ X' (zden_ok _ _ _ Db)). exact Hn. }
  assert (K2s : forall a b PA PB, ZDen s a PA -> ZDen s b PB ->
            nlevels s - Nat.min (rlevel s a) (rlevel s b) < n ->
            zrun_ok cget2 s (fun x' s' c' => rec2 x' s' c' b a) (pxor PA PB)).
  { intros a b PA PB Da Db Hn x' s' c' B' X' O'.
    apply (zres_st_ext C2 cget2 s' _ (pxor PB PA)); [apply pxor_comm|].
    apply Hok2; auto; try (apply (zden_extends s s' _ _ B X'); assumption).
    rewrite (ext_nlevels _ _ X'), (ext_rlevel _ _ _ X' (zden_ok _ _ _ Da)), (ext_rlevel _ _ _ X' (zden_ok _ _ _ Db)).
    rewrite Nat.min_comm. exact Hn. }
  assert (KA : forall a b a' b' PA PB, ZDen s a PA -> ZDen s b PB -> xsw a b a' b' ->
            nlevels s - Nat.min (rlevel s a) (rlevel s b) < n ->
            zruns_agree s (fun x' s' c' => rec1 x' s' c' a b) (fun x' s' c' => rec2 x' s' c' a' b')).
  { intros a b a' b' PA PB Da Db Hs Hn x' s' ca cb B' X' Oa Ob.
    apply (Hag x' s' ca cb a b a' b' PA PB B' Oa Ob (zden_extends s s' _ _ B X' Da) (zden_extends s s' _ _ B X' Db) Hs).
    rewrite (ext_nlevels _ _ X'), (ext_rlevel _ _ _ X' (zden_ok _ _ _ Da)), (ext_rlevel _ _ _ X' (zden_ok _ _ _ Db)). exact Hn. }
  pose proof (lcmp_cases s f g vf vg B Evf Evg) as Hl.
  destruct Hsw as [[-> ->]|[-> ->]].
  - rewrite Evf, Evg. apply zfin_agree.
    destruct (lcmp (vlevel vf) (vlevel vg)).
    + destruct Hl as [(idf & ndf & idg & ndg & -> & -> & Enf & Eng & -> & -> & Hlev)|(tf & tg & -> & ->)].
      2:{ exfalso. apply Hne. f_equal.
          apply (term_val_inj s tf tg 1%N H (Hf1 tf eq_refl) (Hg1 tg eq_refl)). }
      destruct (znode_facts s idf ndf P B DF Enf)
        as (Sf & Lf & Rf & fhi & flo & PA & PB & Ecf & DA & DB & LA & LB & HP & SA & SB).
      destruct (znode_facts s idg ndg Q B DG Eng)
        as (Sg & Lg & Rg & ghi & glo & QA & QB & Ecg & DA' & DB' & LA' & LB' & HQ & SA' & SB').
      simpl zkids. simpl vlevel. rewrite Ecf, Ecg, Sf. rewrite Rf, Rg in Hfuel.
      rewrite <- Hlev in *.
      pose proof (rlevel_le s H (eref fhi)). pose proof (rlevel_le s H (eref ghi)).
      pose proof (rlevel_le s H (eref flo)). pose proof (rlevel_le s H (eref glo)).
      apply (zjoin_agree x _ _ _ _ s c1 c2 (pxor PA QA) (pxor PB QB)); auto;
        try (apply K1; auto; lia); try (apply K2; auto; lia);
        try (apply (KA _ _ _ _ PA QA); auto; [left; auto | lia]);
        try (apply (KA _ _ _ _ PB QB); auto; [left; auto | lia]).
    + destruct Hl as (idf & ndf & -> & Enf & -> & Hlt).
      destruct (znode_facts s idf ndf P B DF Enf)
        as (Sf & Lf & Rf & fhi & flo & PA & PB & Ecf & DA & DB & LA & LB & HP & SA & SB).
      simpl zkids. simpl vlevel. rewrite Ecf, Sf. rewrite Rf in Hfuel.
      pose proof (rlevel_le s H (eref flo)). pose proof (rlevel_le s H g).
      apply zlo_mk_agree.
      apply (Hag x s c1 c2 _ _ _ _ PB Q B O1 O2 DB DG); [left; auto | lia].
    + destruct Hl as (idg & ndg & -> & Eng & -> & Hlt).
      destruct (znode_facts s idg ndg Q B DG Eng)
        as (Sg & Lg & Rg & ghi & glo & QA & QB & Ecg & DA' & DB' & LA' & LB' & HQ & SA' & SB').
      simpl zkids. simpl vlevel. rewrite Ecg, Sg. rewrite Rg in Hfuel.
      pose proof (rlevel_le s H (eref glo)). pose proof (rlevel_le s H f).
      apply zlo_mk_agree.
      apply (Hag x s c1 c2 _ _ _ _ P QB B O1 O2 DF DB'); [left; auto | lia].
  - rewrite Evf, Evg. apply zfin_agree.
    rewrite (lcmp_swap (vlevel vf) (vlevel vg)).
    destruct (lcmp (vlevel vf) (vlevel vg)); simpl CompOpp.
    + destruct Hl as [(idf & ndf & idg & ndg & -> & -> & Enf & Eng & -> & -> & Hlev)|(tf & tg & -> & ->)].
      2:{ exfalso. apply Hne. f_equal.
          apply (term_val_inj s tf tg 1%N H (Hf1 tf eq_refl) (Hg1 tg eq_refl)). }
      destruct (znode_facts s idf ndf P B DF Enf)
        as (Sf & Lf & Rf & fhi & flo & PA & PB & Ecf & DA & DB & LA & LB & HP & SA & SB).
      destruct (znode_facts s idg ndg Q B DG Eng)
        as (Sg & Lg & Rg & ghi & glo & QA & QB & Ecg & DA' & DB' & LA' & LB' & HQ & SA' & SB').
      simpl zkids. simpl vlevel. rewrite Ecf, Ecg, Sf, Sg. rewrite Rf, Rg in Hfuel.
      rewrite <- Hlev in *.
      pose proof (rlevel_le s H (eref fhi)). pose proof (rlevel_le s H (eref ghi)).
      pose proof (rlevel_le s H (eref flo)). pose proof (rlevel_le s H (eref glo)).
      apply (zjoin_agree x _ _ _ _ s c1 c2 (pxor PA QA) (pxor PB QB)); auto;
        try (apply K1; auto; lia); try (apply K2s; auto; lia);
        try (apply (KA _ _ _ _ PA QA); auto; [right; auto | lia]);
        try (apply (KA _ _ _ _ PB QB); auto; [right; auto | lia]).
    + destruct Hl as (idf & ndf & -> & Enf & -> & Hlt).
      destruct (znode_facts s idf ndf P B DF Enf)
        as (Sf & Lf & Rf & fhi & flo & PA & PB & Ecf & DA & DB & LA & LB & HP & SA & SB).
      simpl zkids. simpl vlevel. rewrite Ecf, Sf. rewrite Rf in Hfuel.
      pose proof (rlevel_le s H (eref flo)). pose proof (rlevel_le s H g).
      apply zlo_mk_agree.
      apply (Hag x s c1 c2 _ _ _ _ PB Q B O1 O2 DB DG); [right; auto | lia].
    + destruct Hl as (idg & ndg & -> & Eng & -> & Hlt).
      destruct (znode_facts s idg ndg Q B DG Eng)
        as (Sg & Lg & Rg & ghi & glo & QA & QB & Ecg & DA' & DB' & LA' & LB' & HQ & SA' & SB').
      simpl zkids. simpl vlevel. rewrite Ecg, Sg. rewrite Rg in Hfuel.
      pose proof (rlevel_le s H (eref glo)). pose proof (rlevel_le s H f).
      apply zlo_mk_agree.
      apply (Hag x s c1 c2 _ _ _ _ P QB B O1 O2 DF DB'); [right; auto | lia].
Qed.

Theorem zsymm_g_agree : forall fuel x s c1 c2 f g f' g' P Q,
  ZbddOK s -> COKB1 s c1 -> COKB2 s c2 -> ZDen s f P -> ZDen s g Q -> xsw f g f' g' ->
  nlevels s - Nat.min (rlevel s f) (rlevel s g) < fuel ->
  zsame_out (zsymm_g alloc gt1 C1 cget1 cadd1 fuel x s c1 f g)
            (zsymm_g alloc gt2 C2 cget2 cadd2 fuel x s c2 f' g').
Proof.
  induction fuel as [|n IH]; intros x s c1 c2 f g f' g' P Q B O1 O2 DF DG Hsw Hfuel; [lia|].
  pose proof (zsymm_g_ok alloc Halloc gt1 C1 cget1 cadd1 L1 (S n) x s c1 f g P Q B O1 DF DG Hfuel) as R1.
  assert (R2 : RST2 s (zsymm_g alloc gt2 C2 cget2 cadd2 (S n) x s c2 f' g') (pxor P Q)).
  { destruct Hsw as [[-> ->]|[-> ->]].
    - apply (zsymm_g_ok alloc Halloc gt2 C2 cget2 cadd2 L2 (S n) x s c2 f g P Q B O2 DF DG Hfuel).
    - apply (zres_st_ext C2 cget2 s _ (pxor Q P)); [apply pxor_comm|].
      apply (zsymm_g_ok alloc Halloc gt2 C2 cget2 cadd2 L2 (S n) x s c2 g f Q P B O2 DG DF). lia. }
  rewrite (zsymm_g_core gt1 C1) in *. rewrite (zsymm_g_core gt2 C2) in *.
  destruct (zempty_spec s B) as [te [Ee Et]]. rewrite Ee in *.
  (* the terminal cases: whichever run takes one returns an unchanged table *)
  destruct (ref_eqb f g) eqn:E1; [eapply zunchanged_agree_l; eauto|].
  destruct (ref_eqb f (RT te)) eqn:E2; [eapply zunchanged_agree_l; eauto|].
  destruct (ref_eqb g (RT te)) eqn:E3; [eapply zunchanged_agree_l; eauto|].
  destruct (ref_eqb f' g') eqn:E1'; [eapply zunchanged_agree_r; eauto|].
  destruct (ref_eqb f' (RT te)) eqn:E2'; [eapply zunchanged_agree_r; eauto|].
  destruct (ref_eqb g' (RT te)) eqn:E3'; [eapply zunchanged_agree_r; eauto|].
  apply ref_eqb_false in E1. apply ref_eqb_false in E2. apply ref_eqb_false in E3.
  assert (Hf1 : forall t, f = RT t -> term_val s t = Some 1%N)
    by (intros t ->; apply (not_empty_base s te t B Et (zden_ok _ _ _ DF) E2)).
  assert (Hg1 : forall t, g = RT t -> term_val s t = Some 1%N)
    by (intros t ->; apply (not_empty_base s te t B Et (zden_ok _ _ _ DG) E3)).
  assert (Hn : exists a b a' b' PA PB,
            (if gt1 f g then (g, f) else (f, g)) = (a, b) /\
            (if gt2 f' g' then (g', f') else (f', g')) = (a', b') /\
            ZDen s a PA /\ ZDen s b PB /\ xsw a b a' b' /\ peq (pxor PA PB) (pxor P Q) /\
            a <> b /\ (forall t, a = RT t -> term_val s t = Some 1%N) /\
            (forall t, b = RT t -> term_val s t = Some 1%N) /\
            Nat.min (rlevel s a) (rlevel s b) = Nat.min (rlevel s f) (rlevel s g)).
  { destruct (gt1 f g); destruct (gt2 f' g'); destruct Hsw as [[-> ->]|[-> ->]].
    - exists g, f, g, f, Q, P. repeat (split; [first [reflexivity | assumption | left; auto | apply pxor_comm | congruence | apply Nat.min_comm]|]). apply Nat.min_comm.
    - exists g, f, f, g, Q, P. repeat (split; [first [reflexivity | assumption | right; auto | apply pxor_comm | congruence | apply Nat.min_comm]|]). apply Nat.min_comm.
    - exists g, f, f, g, Q, P. repeat (split; [first [reflexivity | assumption | right; auto | apply pxor_comm | congruence | apply Nat.min_comm]|]). apply Nat.min_comm.
    - exists g, f, g, f, Q, P. repeat (split; [first [reflexivity | assumption | left; auto | apply pxor_comm | congruence | apply Nat.min_comm]|]). apply Nat.min_comm.
    - exists f, g, g, f, P, Q. repeat (split; [first [reflexivity | assumption | right; auto | apply peq_refl | congruence]|]). reflexivity.
    - exists f, g, f, g, P, Q. repeat (split; [first [reflexivity | assumption | left; auto | apply peq_refl | congruence]|]). reflexivity.
    - exists f, g, f, g, P, Q. repeat (split; [first [reflexivity | assumption | left; auto | apply peq_refl | congruence]|]). reflexivity.
    - exists f, g, g, f, P, Q. repeat (split; [first [reflexivity | assumption | right; auto | apply peq_refl | congruence]|]). reflexivity. }
  destruct Hn as (a & b & a' & b' & PA & PB & En1 & En2 & DA & DB & Hsw' & Hpq & Hne' & Ha1 & Hb1 & Hmin).
  rewrite En1 in *. rewrite En2 in *. rewrite <- Hmin in Hfuel.
  apply (zxcore_agree n _ _
           (fun x s c f g P Q => zsymm_g_ok alloc Halloc gt1 C1 cget1 cadd1 L1 n x s c f g P Q)
           (fun x s c f g P Q => zsymm_g_ok alloc Halloc gt2 C2 cget2 cadd2 L2 n x s c f g P Q)
           IH x s c1 c2 a b a' b' PA PB); auto.
  - apply (zres_st_ext C1 cget1 s _ (pxor P Q)); [apply peq_sym; exact Hpq | exact R1].
  - apply (zres_st_ext C2 cget2 s _ (pxor P Q)); [apply peq_sym; exact Hpq | exact R2].
Qed.

Lemma xsw_refl : forall f g, xsw f g f g.
Proof. intros f g. left. auto. Qed.

End CacheExact.
