(** * C20x (a): ZBDD apply cache / operand order exactness, part 2: if-then-else and the eight operators

    [zapply_ite_g_agree], [zapply_op_g_agree]: same table, node store and
    schedule, ANY two lossy caches with correct contents and ANY two operand
    orders: identical result table and identical edge.  [nand] / [nor] /
    [equiv] are two recursions; the statement holds for them by composition
    (the second recursion of both runs starts in the same table).
    [z*_g_cache_exact]: the same for arbitrary existing operands and the
    standard fuel. *)

From Coq Require Import List NArith PArith Bool Arith Lia FMapPositive.
From OxiVerif Require Import DD.Table DD.TableExtra DD.TableProofs DD.Sem DD.Build DD.BuildProofs DD.PickInsert
  DD.Apply DD.ApplyProofs DD.CanonZbdd DD.FamSpec DD.FamSpecProofs DD.ZbddOps DD.ZbddOpsProofs
  DD.ZbddSubsetProofs DD.ZbddSoundProofs DD.ZbddVars DD.ZbddVarsProofs DD.ZbddBool DD.ZbddBoolProofs
  DD.ZbddXorProofs DD.ZbddIteProofs
  DD.ConfigApply DD.ConfigProofs DD.ConfigInsert DD.ConfigZbdd DD.ConfigZbddProofs DD.ConfigZbddIte
  DD.ConfigZbddCache.
Import ListNotations.

Section CacheExactIte.
Variable alloc : snap -> positive.
Hypothesis Halloc : alloc_ok alloc.
Variables gt1 gt2 : ref -> ref -> bool.
Variables C1 C2 : Type.
Variable cget1 : C1 -> N -> list ref -> list nat -> option ref.
Variable cadd1 : C1 -> N -> list ref -> list nat -> ref -> C1.
Variable cget2 : C2 -> N -> list ref -> list nat -> option ref.
Variable cadd2 : C2 -> N -> list ref -> list nat -> ref -> C2.
Hypothesis L1 : zlossy C1 cget1 cadd1.
Hypothesis L2 : zlossy C2 cget2 cadd2.

Notation COKB1 := (ZCacheOKB C1 cget1).
Notation COKB2 := (ZCacheOKB C2 cget2).
Notation RST1 := (zres_st cget1).
Notation RST2 := (zres_st cget2).
Notation SAME := (zsame_out C1 C2).

(** if the result family already has an edge, both runs return it and change nothing *)
Lemma zsame_of_existing : forall s res1 res2 R r0,
  RST1 s res1 R -> RST2 s res2 R -> ZDen s r0 R -> SAME res1 res2.
Proof.
  intros s res1 res2 R r0 (s1 & c1' & r1 & E1 & _ & _ & _ & _ & S1) (s2 & c2' & r2 & E2 & _ & _ & _ & _ & S2) D0.
  destruct (S1 r0 D0) as [-> ->]. destruct (S2 r0 D0) as [-> ->]. rewrite E1, E2. simpl. auto.
Qed.

Theorem zapply_ite_g_agree : forall fuel x s c1 c2 f g h P Q R,
  ZbddOK s -> ZChainOK s -> COKB1 s c1 -> COKB2 s c2 -> ZDen s f P -> ZDen s g Q -> ZDen s h R ->
  nlevels s - Nat.min (rlevel s f) (Nat.min (rlevel s g) (rlevel s h)) < fuel ->
  SAME (zapply_ite_g alloc gt1 C1 cget1 cadd1 fuel x s c1 f g h)
       (zapply_ite_g alloc gt2 C2 cget2 cadd2 fuel x s c2 f g h).
Proof.
  induction fuel as [|n IH]; intros x s c1 c2 f g h P Q R B Hch O1 O2 DF DG DH Hfuel; [lia|].
  pose proof (zapply_ite_g_ok alloc Halloc gt1 C1 cget1 cadd1 L1 (S n) x s c1 f g h P Q R B Hch O1 DF DG DH Hfuel) as R1.
  pose proof (zapply_ite_g_ok alloc Halloc gt2 C2 cget2 cadd2 L2 (S n) x s c2 f g h P Q R B Hch O2 DF DG DH Hfuel) as R2.
  (* a cached result is an existing edge of the result family *)
  destruct (cget1 c1 zcode_ite [f; g; h] []) as [r0|] eqn:G1.
  { destruct (O1 _ _ _ _ G1) as [_ Ox]. simpl in Ox.
    destruct (Ox eq_refl) as (P0 & Q0 & R0 & D0 & D0' & D0'' & Dr).
    apply (zsame_of_existing s _ _ (pite P Q R) r0 R1 R2). apply (zden_ext s r0 _ _ Dr).
    apply pite_ext; [apply (zden_unique s f P0 P D0 DF) | apply (zden_unique s g Q0 Q D0' DG) | apply (zden_unique s h R0 R D0'' DH)]. }
  destruct (cget2 c2 zcode_ite [f; g; h] []) as [r0|] eqn:G2.
  { destruct (O2 _ _ _ _ G2) as [_ Ox]. simpl in Ox.
    destruct (Ox eq_refl) as (P0 & Q0 & R0 & D0 & D0' & D0'' & Dr).
    apply (zsame_of_existing s _ _ (pite P Q R) r0 R1 R2). apply (zden_ext s r0 _ _ Dr).
    apply pite_ext; [apply (zden_unique s f P0 P D0 DF) | apply (zden_unique s g Q0 Q D0' DG) | apply (zden_unique s h R0 R D0'' DH)]. }
  clear R1 R2.
  rewrite (zapply_ite_g_S alloc gt1 C1), (zapply_ite_g_S alloc gt2 C2).
  pose proof (zo_wf s B) as H.
  pose proof (rlevel_le s H f) as LeF. pose proof (rlevel_le s H g) as LeG. pose proof (rlevel_le s H h) as LeH.
  (* the nested union / intersection / difference calls *)
  assert (AB : forall op a b PA PB, ZDen s a PA -> ZDen s b PB ->
            nlevels s - Nat.min (rlevel s a) (rlevel s b) < S n ->
            SAME (zapply_g alloc gt1 C1 cget1 cadd1 (S n) x s c1 op a b)
                 (zapply_g alloc gt2 C2 cget2 cadd2 (S n) x s c2 op a b)).
  { intros op a b PA PB Da Db Hn.
    apply (zapply_g_agree alloc Halloc gt1 gt2 C1 C2 cget1 cadd1 cget2 cadd2 L1 L2 op (S n) x s c1 c2 a b a b PA PB
             B O1 O2 Da Db (zsw_refl _ _ _) Hn). }
  destruct (ref_eqb g h) eqn:E1; [split; reflexivity|].
  destruct (ref_eqb f g) eqn:E2; [apply (AB ZUnion f h P R); auto; lia|].
  destruct (ref_eqb f h) eqn:E3; [apply (AB ZIntsec f g P Q); auto; lia|].
  apply ref_eqb_false in E1. apply ref_eqb_false in E2. apply ref_eqb_false in E3.
  destruct (zget_total s f (zden_ok _ _ _ DF)) as [vf Evf]. rewrite Evf.
  destruct (is_empty_b s f) eqn:Ef; [split; reflexivity|].
  destruct (zget_total s g (zden_ok _ _ _ DG)) as [vg Evg]. rewrite Evg.
  destruct (is_empty_b s g) eqn:Eg; [apply (AB ZDiff h f R P); auto; lia|].
  destruct (zget_total s h (zden_ok _ _ _ DH)) as [vh Evh]. rewrite Evh.
  destruct (is_empty_b s h) eqn:Eh; [apply (AB ZIntsec f g P Q); auto; lia|].
  cbv zeta.
  set (N := nlevels s) in *.
  destruct (vlevel_rlevel s f vf H Evf) as [VF OF]. destruct (vlevel_rlevel s g vg H Evg) as [VG OG].
  destruct (vlevel_rlevel s h vh H Evh) as [VH OH]. fold N in VF, VG, VH, OF, OG, OH.
  destruct (lmin_olev N (vlevel vg) (vlevel vh) OG OH) as [VGH OGH].
  destruct (lmin_olev N (vlevel vf) _ OF OGH) as [VL OL].
  rewrite VGH in VL. rewrite VF, VG, VH in *.
  set (F := rlevel s f) in *. set (G := rlevel s g) in *. set (Hh := rlevel s h) in *.
  set (GH := lmin (vlevel vg) (vlevel vh)) in *.
  set (LV := lmin (vlevel vf) GH) in *.
  set (Lv := Nat.min F (Nat.min G Hh)) in *.
  rewrite ztaut_opt_olev. fold N. rewrite VL.
  rewrite (lcmp_olev N (vlevel vf) GH OF OGH), VF, VGH.
  rewrite (lcmp_olev N (vlevel vg) (vlevel vh) OG OH), VG, VH.
  rewrite (lcmp_olev N (vlevel vh) (vlevel vf) OH OF), VH, VF.
  rewrite (lcmp_olev N (vlevel vg) (vlevel vf) OG OF), VG, VF.
  destruct (ztaut_total s Lv Hch) as [ta Eta]. rewrite Eta.
  destruct (ref_eqb f ta) eqn:E4; [split; reflexivity|].
  destruct (ref_eqb g ta) eqn:E5; [apply (AB ZUnion f h P R); auto; unfold N, F, G, Hh in *; lia|].
  clear E4 E5 Eta ta.
  rewrite G1, G2.
  apply zfin_agree.
  assert (HfuelN : N - Lv < S n) by exact Hfuel.
  assert (Node : forall r X, ZDen s r X -> rlevel s r < N ->
            exists id nd hi lo XA XB, r = RN id /\ find_node s id = Some nd /\
              nlevel nd = rlevel s r /\ zget s r = Some (ZI nd) /\ nchildren nd = [hi; lo] /\
              ZDen s (eref hi) XA /\ ZDen s (eref lo) XB /\
              rlevel s r < rlevel s (eref hi) /\ rlevel s r < rlevel s (eref lo) /\
              peq X (node_pred (rlevel s r) XA XB) /\ sup (rlevel s r) XA /\ sup (rlevel s r) XB).
  { intros r X D Hl. destruct (rlevel_lt_node s r (zden_ok _ _ _ D) Hl) as (id & nd & -> & En).
    destruct (znode_facts s id nd X B D En)
      as (_ & _ & Rr & hi & lo & XA & XB & Ec' & DA & DB & LA & LB & HX & SA & SB).
    rewrite Rr. exists id, nd, hi, lo, XA, XB. simpl zget. rewrite En. repeat (split; [auto; fail|]). auto. }
  (* the closures of the joins *)
  assert (RunIte1 : forall a b d PA' PB' PD',
            ZDen s a PA' -> ZDen s b PB' -> ZDen s d PD' ->
            N - Nat.min (rlevel s a) (Nat.min (rlevel s b) (rlevel s d)) < n ->
            zrun_ok cget1 s (fun x' s' c' => zapply_ite_g alloc gt1 C1 cget1 cadd1 n x' s' c' a b d) (pite PA' PB' PD')).
  { intros a b d PA' PB' PD' Da Db Dd Hn x' s' c' B' X' O'.
    apply (zapply_ite_g_ok alloc Halloc gt1 C1 cget1 cadd1 L1); auto; try (apply (zden_extends s s' _ _ B X'); assumption).
    - apply (zchain_extends s s' B B' X' Hch).
    - rewrite (ext_nlevels _ _ X'), (ext_rlevel _ _ _ X' (zden_ok _ _ _ Da)),
        (ext_rlevel _ _ _ X' (zden_ok _ _ _ Db)), (ext_rlevel _ _ _ X' (zden_ok _ _ _ Dd)). exact Hn. }
  assert (RunIte2 : forall a b d PA' PB' PD',
            ZDen s a PA' -> ZDen s b PB' -> ZDen s d PD' ->
            N - Nat.min (rlevel s a) (Nat.min (rlevel s b) (rlevel s d)) < n ->
            zrun_ok cget2 s (fun x' s' c' => zapply_ite_g alloc gt2 C2 cget2 cadd2 n x' s' c' a b d) (pite PA' PB' PD')).
  { intros a b d PA' PB' PD' Da Db Dd Hn x' s' c' B' X' O'.
    apply (zapply_ite_g_ok alloc Halloc gt2 C2 cget2 cadd2 L2); auto; try (apply (zden_extends s s' _ _ B X'); assumption).
    - apply (zchain_extends s s' B B' X' Hch).
    - rewrite (ext_nlevels _ _ X'), (ext_rlevel _ _ _ X' (zden_ok _ _ _ Da)),
        (ext_rlevel _ _ _ X' (zden_ok _ _ _ Db)), (ext_rlevel _ _ _ X' (zden_ok _ _ _ Dd)). exact Hn. }
  assert (AgIte : forall a b d PA' PB' PD',
            ZDen s a PA' -> ZDen s b PB' -> ZDen s d PD' ->
            N - Nat.min (rlevel s a) (Nat.min (rlevel s b) (rlevel s d)) < n ->
            zruns_agree C1 C2 cget1 cget2 s
              (fun x' s' c' => zapply_ite_g alloc gt1 C1 cget1 cadd1 n x' s' c' a b d)
              (fun x' s' c' => zapply_ite_g alloc gt2 C2 cget2 cadd2 n x' s' c' a b d)).
  { intros a b d PA' PB' PD' Da Db Dd Hn x' s' ca cb B' X' Oa Ob.
    apply (IH x' s' ca cb a b d PA' PB' PD' B' (zchain_extends s s' B B' X' Hch) Oa Ob
             (zden_extends s s' _ _ B X' Da) (zden_extends s s' _ _ B X' Db) (zden_extends s s' _ _ B X' Dd)).
    rewrite (ext_nlevels _ _ X'), (ext_rlevel _ _ _ X' (zden_ok _ _ _ Da)),
      (ext_rlevel _ _ _ X' (zden_ok _ _ _ Db)), (ext_rlevel _ _ _ X' (zden_ok _ _ _ Dd)). exact Hn. }
  assert (RunBin1 : forall op a b PA' PB', ZDen s a PA' -> ZDen s b PB' ->
            N - Nat.min (rlevel s a) (rlevel s b) < S n ->
            zrun_ok cget1 s (fun x' s' c' => zapply_g alloc gt1 C1 cget1 cadd1 (S n) x' s' c' op a b) (pbin op PA' PB')).
  { intros op a b PA' PB' Da Db Hn x' s' c' B' X' O'.
    apply (zapply_g_ok alloc Halloc gt1 C1 cget1 cadd1 L1); auto; try (apply (zden_extends s s' _ _ B X'); assumption).
    rewrite (ext_nlevels _ _ X'), (ext_rlevel _ _ _ X' (zden_ok _ _ _ Da)), (ext_rlevel _ _ _ X' (zden_ok _ _ _ Db)). exact Hn. }
  assert (RunBin2 : forall op a b PA' PB', ZDen s a PA' -> ZDen s b PB' ->
            N - Nat.min (rlevel s a) (rlevel s b) < S n ->
            zrun_ok cget2 s (fun x' s' c' => zapply_g alloc gt2 C2 cget2 cadd2 (S n) x' s' c' op a b) (pbin op PA' PB')).
  { intros op a b PA' PB' Da Db Hn x' s' c' B' X' O'.
    apply (zapply_g_ok alloc Halloc gt2 C2 cget2 cadd2 L2); auto; try (apply (zden_extends s s' _ _ B X'); assumption).
    rewrite (ext_nlevels _ _ X'), (ext_rlevel _ _ _ X' (zden_ok _ _ _ Da)), (ext_rlevel _ _ _ X' (zden_ok _ _ _ Db)). exact Hn. }
  assert (AgBin : forall op a b PA' PB', ZDen s a PA' -> ZDen s b PB' ->
            N - Nat.min (rlevel s a) (rlevel s b) < S n ->
            zruns_agree C1 C2 cget1 cget2 s
              (fun x' s' c' => zapply_g alloc gt1 C1 cget1 cadd1 (S n) x' s' c' op a b)
              (fun x' s' c' => zapply_g alloc gt2 C2 cget2 cadd2 (S n) x' s' c' op a b)).
  { intros op a b PA' PB' Da Db Hn x' s' ca cb B' X' Oa Ob.
    apply (zapply_g_agree alloc Halloc gt1 gt2 C1 C2 cget1 cadd1 cget2 cadd2 L1 L2 op (S n) x' s' ca cb a b a b PA' PB'
             B' Oa Ob (zden_extends s s' _ _ B X' Da) (zden_extends s s' _ _ B X' Db) (zsw_refl _ _ _)).
    rewrite (ext_nlevels _ _ X'), (ext_rlevel _ _ _ X' (zden_ok _ _ _ Da)), (ext_rlevel _ _ _ X' (zden_ok _ _ _ Db)). exact Hn. }
  destruct (Nat.compare_spec F (Nat.min G Hh)) as [HFc|HFc|HFc].
  - (* Equal: f at the top level, together with g or h or both *)
    assert (HFN : F < N) by (destruct (Nat.eq_dec F N) as [HN|HN]; [|lia];
      exfalso;
      assert (G = N) by lia; assert (Hh = N) by lia;
      destruct g as [tg|idg]; [|destruct (zden_ok _ _ _ DG) as [nd En]; unfold G in *; rewrite (rlevel_node s idg nd En) in *; pose proof (wf_level s H idg nd En); lia];
      destruct h as [th|idh]; [|destruct (zden_ok _ _ _ DH) as [nd En]; unfold Hh in *; rewrite (rlevel_node s idh nd En) in *; pose proof (wf_level s H idh nd En); lia];
      apply E1; f_equal;
      destruct (zterm_cases s tg B (zden_ok _ _ _ DG)) as [Etg|Etg];
        [unfold is_empty_b, is_term_with in Eg; rewrite Etg in Eg; discriminate|];
      destruct (zterm_cases s th B (zden_ok _ _ _ DH)) as [Eth|Eth];
        [unfold is_empty_b, is_term_with in Eh; rewrite Eth in Eh; discriminate|];
      apply (term_val_inj s tg th 1%N H Etg Eth)).
    assert (ELv : Lv = F) by (unfold Lv; lia).
    rewrite (olev_some N LV) by (rewrite VL; lia). rewrite VL, ELv.
    destruct (Node f P DF HFN) as (idf & ndf & fhi & flo & PA & PB & -> & Enf & Elf & Zf & Ecf & DA & DB & LA & LB & HP & SA & SB).
    fold F in Elf, LA, LB, HP, SA, SB.
    assert (Evf' : vf = ZI ndf) by congruence. subst vf. simpl zkids. rewrite Ecf.
    destruct (Nat.compare_spec Hh F) as [HHc|HHc|HHc].
    + destruct (Node h R DH ltac:(unfold Hh in *; lia)) as (idh & ndh & hhi & hlo & RA & RB & -> & Enh & Elh & Zh & Ech & DA'' & DB'' & LA'' & LB'' & HR & SA'' & SB'').
      fold Hh in Elh, LA'', LB'', HR, SA'', SB''. rewrite HHc in *.
      assert (Evh' : vh = ZI ndh) by congruence. subst vh. simpl zkids. rewrite Ech.
      destruct (Nat.compare_spec G F) as [HGc|HGc|HGc]; [| lia |].
      * destruct (Node g Q DG ltac:(unfold G in *; lia)) as (idg & ndg & ghi & glo & QA & QB & -> & Eng & Elg & Zg & Ecg & DA' & DB' & LA' & LB' & HQ & SA' & SB').
        fold G in Elg, LA', LB', HQ, SA', SB'. rewrite HGc in *.
        assert (Evg' : vg = ZI ndg) by congruence. subst vg. simpl zkids. rewrite Ecg.
        pose proof (rlevel_le s H (eref fhi)). pose proof (rlevel_le s H (eref ghi)). pose proof (rlevel_le s H (eref hhi)).
        pose proof (rlevel_le s H (eref flo)). pose proof (rlevel_le s H (eref glo)). pose proof (rlevel_le s H (eref hlo)).
        apply (zjoin_agree alloc C1 C2 cget1 cget2 x _ _ _ _ s c1 c2 (pite PA QA RA) (pite PB QB RB)); auto;
          first [apply RunIte1 | apply RunIte2 | eapply AgIte];
          eauto; unfold N, F, G, Hh in *; lia.
      * pose proof (rlevel_le s H (eref fhi)). pose proof (rlevel_le s H (eref hhi)).
        pose proof (rlevel_le s H (eref flo)). pose proof (rlevel_le s H (eref hlo)).
        apply (zjoin_agree alloc C1 C2 cget1 cget2 x _ _ _ _ s c1 c2 (pbin ZDiff RA PA) (pite PB Q RB)); auto;
          first [apply RunBin1 | apply RunBin2 | apply RunIte1 | apply RunIte2 | eapply AgBin | eapply AgIte];
          eauto; unfold N, F, G, Hh in *; lia.
    + lia.
    + assert (HGF : G = F) by lia.
      destruct (Node g Q DG ltac:(unfold G in *; lia)) as (idg & ndg & ghi & glo & QA & QB & -> & Eng & Elg & Zg & Ecg & DA' & DB' & LA' & LB' & HQ & SA' & SB').
      fold G in Elg, LA', LB', HQ, SA', SB'. rewrite HGF in *.
      assert (Evg' : vg = ZI ndg) by congruence. subst vg. simpl zkids. rewrite Ecg.
      pose proof (rlevel_le s H (eref fhi)). pose proof (rlevel_le s H (eref ghi)).
      pose proof (rlevel_le s H (eref flo)). pose proof (rlevel_le s H (eref glo)).
      apply (zjoin_agree alloc C1 C2 cget1 cget2 x _ _ _ _ s c1 c2 (pbin ZIntsec PA QA) (pite PB QB R)); auto;
        first [apply RunBin1 | apply RunBin2 | apply RunIte1 | apply RunIte2 | eapply AgBin | eapply AgIte];
        eauto; unfold N, F, G, Hh in *; lia.
  - (* Less: f alone on top *)
    assert (HFN : F < N) by lia.
    destruct (Node f P DF HFN) as (idf & ndf & fhi & flo & PA & PB & -> & Enf & Elf & Zf & Ecf & DA & DB & LA & LB & HP & SA & SB).
    fold F in Elf, LA, LB, HP, SA, SB.
    assert (Evf' : vf = ZI ndf) by congruence. subst vf. simpl zkids. rewrite Ecf.
    apply (IH x s c1 c2 _ _ _ PB Q R); auto. pose proof (rlevel_le s H (eref flo)). unfold N, F, G, Hh in *; lia.
  - (* Greater: g or h (or both) above f *)
    destruct (Nat.compare_spec G Hh) as [HGc|HGc|HGc].
    + assert (HN : Hh < N) by lia.
      assert (ELv : Lv = Hh) by (unfold Lv; lia).
      rewrite (olev_some N LV) by (rewrite VL; lia). rewrite VL, ELv.
      destruct (Node h R DH HN) as (idh & ndh & hhi & hlo & RA & RB & -> & Enh & Elh & Zh & Ech & DA'' & DB'' & LA'' & LB'' & HR & SA'' & SB'').
      fold Hh in Elh, LA'', LB'', HR, SA'', SB''.
      assert (Evh' : vh = ZI ndh) by congruence. subst vh. simpl zkids. rewrite Ech.
      destruct (Node g Q DG ltac:(fold G; lia)) as (idg & ndg & ghi & glo & QA & QB & -> & Eng & Elg & Zg & Ecg & DA' & DB' & LA' & LB' & HQ & SA' & SB').
      fold G in Elg, LA', LB', HQ, SA', SB'. rewrite HGc in *.
      assert (Evg' : vg = ZI ndg) by congruence. subst vg. simpl zkids. rewrite Ecg.
      apply zlo_mk_agree.
      apply (IH x s c1 c2 _ _ _ P QB RB); auto.
      pose proof (rlevel_le s H (eref glo)). pose proof (rlevel_le s H (eref hlo)). unfold N, F, G, Hh in *; lia.
    + destruct (Node g Q DG ltac:(fold G; lia)) as (idg & ndg & ghi & glo & QA & QB & -> & Eng & Elg & Zg & Ecg & DA' & DB' & LA' & LB' & HQ & SA' & SB').
      fold G in Elg, LA', LB', HQ, SA', SB'.
      assert (Evg' : vg = ZI ndg) by congruence. subst vg. simpl zkids. rewrite Ecg.
      apply (IH x s c1 c2 _ _ _ P QB R); auto. pose proof (rlevel_le s H (eref glo)). unfold N, F, G, Hh in *; lia.
    + assert (HN : Hh < N) by lia.
      assert (ELv : Lv = Hh) by (unfold Lv; lia).
      rewrite (olev_some N LV) by (rewrite VL; lia). rewrite VL, ELv.
      destruct (Node h R DH HN) as (idh & ndh & hhi & hlo & RA & RB & -> & Enh & Elh & Zh & Ech & DA'' & DB'' & LA'' & LB'' & HR & SA'' & SB'').
      fold Hh in Elh, LA'', LB'', HR, SA'', SB''.
      assert (Evh' : vh = ZI ndh) by congruence. subst vh. simpl zkids. rewrite Ech.
      apply zlo_mk_agree.
      apply (IH x s c1 c2 _ _ _ P Q RB); auto. pose proof (rlevel_le s H (eref hlo)). unfold N, F, G, Hh in *; lia.
Qed.

(** ** The eight operators *)

Lemma zsame_then_not : forall fuel x s res1 res2 R,
  ZbddOK s -> ZChainOK s -> RST1 s res1 R -> RST2 s res2 R -> SAME res1 res2 -> nlevels s < fuel ->
  SAME (match res1 with
        | Some (s1, c1', r) => zapply_not_g alloc gt1 C1 cget1 cadd1 fuel x s1 c1' r
        | None => None
        end)
       (match res2 with
        | Some (s1, c2', r) => zapply_not_g alloc gt2 C2 cget2 cadd2 fuel x s1 c2' r
        | None => None
        end).
Proof.
  intros fuel x s res1 res2 R B Hc (s1 & c1' & r1 & E1 & B1 & X1 & O1 & D1 & _)
         (s2 & c2' & r2 & E2 & _ & _ & O2 & _ & _) A Hf.
  subst res1 res2. simpl in A. destruct A as [<- <-].
  apply (zapply_not_g_agree alloc Halloc gt1 gt2 C1 C2 cget1 cadd1 cget2 cadd2 L1 L2 fuel x s1 c1' c2' r1 R); auto.
  - apply (zchain_extends s s1 B B1 X1 Hc).
  - rewrite (ext_nlevels _ _ X1). exact Hf.
Qed.

Theorem zapply_op_g_agree : forall op fuel x s c1 c2 f g P Q,
  ZbddOK s -> ZChainOK s -> COKB1 s c1 -> COKB2 s c2 -> ZDen s f P -> ZDen s g Q -> nlevels s < fuel ->
  SAME (zapply_op_g alloc gt1 C1 cget1 cadd1 fuel x s c1 op f g)
       (zapply_op_g alloc gt2 C2 cget2 cadd2 fuel x s c2 op f g).
Proof.
  intros op fuel x s c1 c2 f g P Q B Hc O1 O2 DF DG Hf.
  assert (AB : forall o a b PA PB, ZDen s a PA -> ZDen s b PB ->
            SAME (zapply_g alloc gt1 C1 cget1 cadd1 fuel x s c1 o a b)
                 (zapply_g alloc gt2 C2 cget2 cadd2 fuel x s c2 o a b)).
  { intros o a b PA PB Da Db.
    apply (zapply_g_agree alloc Halloc gt1 gt2 C1 C2 cget1 cadd1 cget2 cadd2 L1 L2 o fuel x s c1 c2 a b a b PA PB
             B O1 O2 Da Db (zsw_refl _ _ _)). lia. }
  assert (AX : SAME (zsymm_g alloc gt1 C1 cget1 cadd1 fuel x s c1 f g)
                    (zsymm_g alloc gt2 C2 cget2 cadd2 fuel x s c2 f g)).
  { apply (zsymm_g_agree alloc Halloc gt1 gt2 C1 C2 cget1 cadd1 cget2 cadd2 L1 L2 fuel x s c1 c2 f g f g P Q
             B O1 O2 DF DG (xsw_refl _ _)). lia. }
  destruct op; unfold zapply_op_g.
  - apply (AB ZIntsec f g P Q); auto.
  - apply (AB ZUnion f g P Q); auto.
  - exact AX.
  - apply (zsame_then_not fuel x s _ _ (pxor P Q)); auto.
    + apply (zsymm_g_ok alloc Halloc gt1 C1 cget1 cadd1 L1); auto; lia.
    + apply (zsymm_g_ok alloc Halloc gt2 C2 cget2 cadd2 L2); auto; lia.
  - apply (zsame_then_not fuel x s _ _ (pbin ZIntsec P Q)); auto.
    + apply (zapply_g_ok alloc Halloc gt1 C1 cget1 cadd1 L1); auto; lia.
    + apply (zapply_g_ok alloc Halloc gt2 C2 cget2 cadd2 L2); auto; lia.
    + apply (AB ZIntsec f g P Q); auto.
  - apply (zsame_then_not fuel x s _ _ (pbin ZUnion P Q)); auto.
    + apply (zapply_g_ok alloc Halloc gt1 C1 cget1 cadd1 L1); auto; lia.
    + apply (zapply_g_ok alloc Halloc gt2 C2 cget2 cadd2 L2); auto; lia.
    + apply (AB ZUnion f g P Q); auto.
  - destruct (ztaut_total s 0 Hc) as [t Et]. rewrite Et.
    pose proof (ztaut_den s 0 t B Et) as Dt.
    apply (zapply_ite_g_agree fuel x s c1 c2 f g t P Q _ B Hc O1 O2 DF DG Dt). lia.
  - apply (AB ZDiff g f Q P); auto.
Qed.

(** ** The same statements for arbitrary existing operands and the standard fuel *)

Theorem zapply_g_cache_exact : forall op fuel x s c1 c2 f g,
  ZbddOK s -> COKB1 s c1 -> COKB2 s c2 -> ref_ok s f -> ref_ok s g -> S (nlevels s) <= fuel ->
  SAME (zapply_g alloc gt1 C1 cget1 cadd1 fuel x s c1 op f g)
       (zapply_g alloc gt2 C2 cget2 cadd2 fuel x s c2 op f g).
Proof.
  intros op fuel x s c1 c2 f g B O1 O2 Of Og Hf.
  destruct (zden_exists s f B Of) as [P DF]. destruct (zden_exists s g B Og) as [Q DG].
  apply (zapply_g_agree alloc Halloc gt1 gt2 C1 C2 cget1 cadd1 cget2 cadd2 L1 L2 op fuel x s c1 c2 f g f g P Q
           B O1 O2 DF DG (zsw_refl _ _ _)). lia.
Qed.

Theorem zapply_not_g_cache_exact : forall fuel x s c1 c2 f,
  ZbddOK s -> ZChainOK s -> COKB1 s c1 -> COKB2 s c2 -> ref_ok s f -> S (nlevels s) <= fuel ->
  SAME (zapply_not_g alloc gt1 C1 cget1 cadd1 fuel x s c1 f)
       (zapply_not_g alloc gt2 C2 cget2 cadd2 fuel x s c2 f).
Proof.
  intros fuel x s c1 c2 f B Hc O1 O2 Of Hf. destruct (zden_exists s f B Of) as [P DF].
  apply (zapply_not_g_agree alloc Halloc gt1 gt2 C1 C2 cget1 cadd1 cget2 cadd2 L1 L2 fuel x s c1 c2 f P); auto.
Qed.

Theorem zapply_op_g_cache_exact : forall op fuel x s c1 c2 f g,
  ZbddOK s -> ZChainOK s -> COKB1 s c1 -> COKB2 s c2 -> ref_ok s f -> ref_ok s g -> S (nlevels s) <= fuel ->
  SAME (zapply_op_g alloc gt1 C1 cget1 cadd1 fuel x s c1 op f g)
       (zapply_op_g alloc gt2 C2 cget2 cadd2 fuel x s c2 op f g).
Proof.
  intros op fuel x s c1 c2 f g B Hc O1 O2 Of Og Hf.
  destruct (zden_exists s f B Of) as [P DF]. destruct (zden_exists s g B Og) as [Q DG].
  apply (zapply_op_g_agree op fuel x s c1 c2 f g P Q); auto.
Qed.

Theorem zapply_ite_g_cache_exact : forall fuel x s c1 c2 f g h,
  ZbddOK s -> ZChainOK s -> COKB1 s c1 -> COKB2 s c2 -> ref_ok s f -> ref_ok s g -> ref_ok s h ->
  S (nlevels s) <= fuel ->
  SAME (zapply_ite_g alloc gt1 C1 cget1 cadd1 fuel x s c1 f g h)
       (zapply_ite_g alloc gt2 C2 cget2 cadd2 fuel x s c2 f g h).
Proof.
  intros fuel x s c1 c2 f g h B Hc O1 O2 Of Og Oh Hf.
  destruct (zden_exists s f B Of) as [P DF]. destruct (zden_exists s g B Og) as [Q DG].
  destruct (zden_exists s h B Oh) as [R DH].
  apply (zapply_ite_g_agree fuel x s c1 c2 f g h P Q R); auto. lia.
Qed.

End CacheExactIte.
