(** * C20x: one ZBDD operation under two arbitrary configurations

    [count_reach_zden]: two well-formed ZBDD tables (not renamings of each
    other): references denoting the same family have the same node count
    ("same family" is a bisimulation by canonicity; DD/Iso.v [count_reach_bisim]).

    [z*_g_config_indep]: the same operation on the same table under two
    arbitrary configurations (node store, operand order, cache implementation
    and content, schedule) succeeds in both, returns references denoting the
    same (the specified) family ([famz]) with the same Boolean view ([semz])
    under every choice and the same node count, in two well-formed extensions
    of the table; and if the result already has an edge in the table, both
    return exactly that edge - and, for the operators that are one recursion
    (all but nand / nor / equiv), leave the table alone. *)

From Coq Require Import List NArith PArith Bool Arith Lia FMapPositive.
From OxiVerif Require Import DD.Table DD.TableExtra DD.TableProofs DD.Sem DD.Build DD.BuildProofs DD.PickInsert
  DD.Apply DD.ApplyProofs DD.CanonZbdd DD.FamSpec DD.FamSpecProofs DD.ZbddOps DD.ZbddOpsProofs
  DD.ZbddSubsetProofs DD.ZbddSoundProofs DD.ZbddVars DD.ZbddVarsProofs DD.ZbddBool DD.ZbddBoolProofs
  DD.ZbddXorProofs DD.ZbddIteProofs DD.ZbddEvalProofs DD.Iso
  DD.ConfigApply DD.ConfigProofs DD.ConfigInsert DD.ConfigZbdd DD.ConfigZbddProofs DD.ConfigZbddIte.
Import ListNotations.

(** ** Node count is a function of the family *)

Section TwoTables.
Variables s1 s2 : snap.
Hypothesis B1 : ZbddOK s1.
Hypothesis B2 : ZbddOK s2.
Hypothesis Hlev : nlevels s1 = nlevels s2.

Definition zsame_den (r1 r2 : ref) : Prop := exists P, ZDen s1 r1 P /\ ZDen s2 r2 P.

(** the root level of an inner node is the smallest first element of a member *)
Lemma zden_root_level : forall s r P, ZbddOK s -> ZDen s r P ->
  (forall S, P S -> incr_from (rlevel s r) S) /\
  (rlevel s r < nlevels s -> exists T, P (rlevel s r :: T)).
Proof.
  intros s r P B D. split.
  - intros S HS. apply (proj1 (zden_support s r P S B D HS)).
  - intros Hl. destruct (rlevel_lt_node s r (zden_ok _ _ _ D) Hl) as (id & nd & -> & En).
    destruct D as [O [F [EF HF]]].
    destruct (fam_nonempty s B _ (RN id) O (le_n _)) as [F' [S [E' [HS Hh]]]]; [intros t Hx; discriminate|].
    rewrite EF in E'. inversion E'; subst F'.
    destruct (Hh id nd eq_refl En) as [T ->]. exists T. rewrite (rlevel_node s id nd En). apply HF. exact HS.
Qed.

Lemma zsame_den_level : forall r1 r2, zsame_den r1 r2 -> rlevel s1 r1 = rlevel s2 r2.
Proof.
  intros r1 r2 [P [D1 D2]].
  destruct (zden_root_level s1 r1 P B1 D1) as [I1 W1]. destruct (zden_root_level s2 r2 P B2 D2) as [I2 W2].
  pose proof (rlevel_le s1 (zo_wf s1 B1) r1) as L1. pose proof (rlevel_le s2 (zo_wf s2 B2) r2) as L2.
  pose proof (zden_level s2 r2 P (rlevel s1 r1) B2 D2 ltac:(lia) I1).
  pose proof (zden_level s1 r1 P (rlevel s2 r2) B1 D1 ltac:(lia) I2).
  lia.
Qed.

Lemma zsame_den_bisim : bisim s1 s2 zsame_den.
Proof.
  pose proof (zo_wf s1 B1) as H1. pose proof (zo_wf s2 B2) as H2.
  constructor.
  - intros r1 r2 HR. pose proof (zsame_den_level r1 r2 HR) as Hl.
    destruct HR as [P [D1 D2]].
    destruct r1 as [t|a], r2 as [u|b]; auto.
    + destruct (zden_ok _ _ _ D2) as [nd E]. rewrite (rlevel_node s2 b nd E) in Hl. simpl in Hl.
      pose proof (wf_level s2 H2 b nd E). lia.
    + destruct (zden_ok _ _ _ D1) as [nd E]. rewrite (rlevel_node s1 a nd E) in Hl. simpl in Hl.
      pose proof (wf_level s1 H1 a nd E). lia.
  - intros a b HR. pose proof (zsame_den_level _ _ HR) as Hl. destruct HR as [P [D1 D2]].
    destruct (zden_ok _ _ _ D1) as [n1 E1]. destruct (zden_ok _ _ _ D2) as [n2 E2]. rewrite E1, E2.
    rewrite (rlevel_node s1 a n1 E1), (rlevel_node s2 b n2 E2) in Hl.
    destruct (znode_facts s1 a n1 P B1 D1 E1)
      as (_ & _ & _ & x0 & x1 & PA & PB & Ex & DA & DB & _ & _ & HP & SA & SB).
    destruct (znode_facts s2 b n2 P B2 D2 E2)
      as (_ & _ & _ & y0 & y1 & QA & QB & Ey & DA' & DB' & _ & _ & HQ & SA' & SB').
    rewrite <- Hl in *.
    assert (Hpq : peq (node_pred (nlevel n1) PA PB) (node_pred (nlevel n1) QA QB))
      by (intros S; rewrite <- (HP S); apply HQ).
    destruct (node_pred_inj (nlevel n1) PA PB QA QB SB SB' Hpq) as [HA HB].
    rewrite Ex, Ey. simpl.
    constructor; [|constructor; [|constructor]].
    + exists PA. split; [exact DA | apply (zden_ext s2 _ QA PA DA' (peq_sym _ _ HA))].
    + exists PB. split; [exact DB | apply (zden_ext s2 _ QB PB DB' (peq_sym _ _ HB))].
  - intros a b a' b' [P [D1 D2]] [P' [D1' D2']]. split; intros ->.
    + assert (Hr : RN b = RN b'); [|inversion Hr; reflexivity].
      apply (zden_canon s2 _ _ P P' B2 D2 D2'). apply (zden_unique s1 (RN a') P P' D1 D1').
    + assert (Hr : RN a = RN a'); [|inversion Hr; reflexivity].
      apply (zden_canon s1 _ _ P P' B1 D1 D1'). apply (zden_unique s2 (RN b') P P' D2 D2').
  - intros t u t' u' [P [D1 D2]] [P' [D1' D2']]. split; intros ->.
    + assert (Hr : RT u = RT u'); [|inversion Hr; reflexivity].
      apply (zden_canon s2 _ _ P P' B2 D2 D2'). apply (zden_unique s1 (RT t') P P' D1 D1').
    + assert (Hr : RT t = RT t'); [|inversion Hr; reflexivity].
      apply (zden_canon s1 _ _ P P' B1 D1 D1'). apply (zden_unique s2 (RT u') P P' D2 D2').
Qed.

(** same family => same node count, whatever the two tables otherwise contain *)
Theorem count_reach_zden : forall r1 r2 P, ZDen s1 r1 P -> ZDen s2 r2 P ->
  count_reach s1 (E r1) = count_reach s2 (E r2).
Proof.
  intros r1 r2 P D1 D2.
  apply (count_reach_bisim s1 s2 zsame_den zsame_den_bisim
           (wf_arity_ok s1 (zo_wf s1 B1)) (wf_arity_ok s2 (zo_wf s2 B2)) (E r1) (E r2)).
  exists P. auto.
Qed.

(** the same in terms of the family lists [fam_of] (= [famz] with the standard fuel) only *)
Theorem count_reach_fam : forall r1 r2 F1 F2, ref_ok s1 r1 -> ref_ok s2 r2 ->
  fam_of s1 r1 = Some F1 -> fam_of s2 r2 = Some F2 -> (forall S, In S F1 <-> In S F2) ->
  count_reach s1 (E r1) = count_reach s2 (E r2).
Proof.
  intros r1 r2 F1 F2 O1 O2 E1 E2 Hm.
  apply (count_reach_zden r1 r2 (fun S => In S F1)).
  - split; [exact O1|]. exists F1. split; [exact E1 | reflexivity].
  - split; [exact O2|]. exists F2. split; [exact E2|]. intros S. symmetry. apply Hm.
Qed.

End TwoTables.

(** an edge of the old table that denotes [P] in an extension denotes [P] in the old table *)
Lemma zden_restrict : forall s s' r P, ZbddOK s -> extends s s' -> ref_ok s r -> ZDen s' r P -> ZDen s r P.
Proof.
  intros s s' r P B X O [_ [F [E Hm]]]. split; [exact O|]. exists F. split; [|exact Hm].
  rewrite <- (fam_of_extends s s' r B X O). exact E.
Qed.

(** the family of an existing reference, as a predicate *)
Definition zfam (s : snap) (r : ref) : fpred := fun S => exists F, fam_of s r = Some F /\ In S F.

Lemma zfam_den : forall s r, ZbddOK s -> ref_ok s r -> ZDen s r (zfam s r).
Proof.
  intros s r B O. destruct (fam_of_total s (zo_wf s B) (zo_kind s B) r O) as [F E].
  split; [exact O|]. exists F. split; [exact E|]. intros S. unfold zfam. split.
  - intros HS. exists F. auto.
  - intros [F' [E' HS]]. rewrite E in E'. inversion E'; subst. exact HS.
Qed.

(** ** Two configurations *)

Section TwoCfg.
Variable alloc1 : snap -> positive.
Hypothesis Halloc1 : alloc_ok alloc1.
Variable gt1 : ref -> ref -> bool.
Variable C1 : Type.
Variable cget1 : C1 -> N -> list ref -> list nat -> option ref.
Variable cadd1 : C1 -> N -> list ref -> list nat -> ref -> C1.
Hypothesis L1 : zlossy C1 cget1 cadd1.
Variable alloc2 : snap -> positive.
Hypothesis Halloc2 : alloc_ok alloc2.
Variable gt2 : ref -> ref -> bool.
Variable C2 : Type.
Variable cget2 : C2 -> N -> list ref -> list nat -> option ref.
Variable cadd2 : C2 -> N -> list ref -> list nat -> ref -> C2.
Hypothesis L2 : zlossy C2 cget2 cadd2.

(** what two runs from table [s] have in common.  [Vf] = the family the result
    must denote; [Vb c0 v] = "the Boolean view of the result under [c0] must be [v]";
    [strong] = the operation is a single recursion (an existing result edge
    means: nothing is created) *)
Definition zsame_obs (strong : bool) (s : snap) (Vf : fpred) (Vb : (nat -> nat) -> bool -> Prop)
  (res1 : option (snap * C1 * ref)) (res2 : option (snap * C2 * ref)) : Prop :=
  exists s1 c1' r1 s2 c2' r2,
    res1 = Some (s1, c1', r1) /\ res2 = Some (s2, c2', r2) /\
    ZbddOK s1 /\ ZbddOK s2 /\ extends s s1 /\ extends s s2 /\
    ZCacheOKB C1 cget1 s1 c1' /\ ZCacheOKB C2 cget2 s2 c2' /\
    ref_ok s1 r1 /\ ref_ok s2 r2 /\
    ZDen s1 r1 Vf /\ ZDen s2 r2 Vf /\
    (forall c0, choice_ok s c0 -> exists v, Vb c0 v /\ zview_of s1 r1 c0 = Some v /\ zview_of s2 r2 c0 = Some v) /\
    count_reach s1 (E r1) = count_reach s2 (E r2) /\
    (forall r0, ref_ok s r0 ->
       (forall c0, choice_ok s c0 -> zview_of s r0 c0 = zview_of s1 r1 c0) ->
       r1 = r0 /\ r2 = r0 /\ (strong = true -> s1 = s /\ s2 = s)).

Lemma zres_same_obs : forall strong s res1 res2 R (Vb : (nat -> nat) -> bool -> Prop),
  ZbddOK s ->
  zres_wk cget1 s res1 R -> zres_wk cget2 s res2 R ->
  (strong = true -> zres_st cget1 s res1 R /\ zres_st cget2 s res2 R) ->
  (forall c0 v, choice_ok s c0 -> (v = true <-> R (true_levels c0 0 (nlevels s))) -> Vb c0 v) ->
  zsame_obs strong s R Vb res1 res2.
Proof.
  intros strong s res1 res2 R Vb B
         (s1 & c1' & r1 & E1 & B1 & X1 & O1 & D1 & W1) (s2 & c2' & r2 & E2 & B2 & X2 & O2 & D2 & W2) Hst HV.
  exists s1, c1', r1, s2, c2', r2.
  split; [exact E1|]. split; [exact E2|]. split; [exact B1|]. split; [exact B2|].
  split; [exact X1|]. split; [exact X2|]. split; [exact O1|]. split; [exact O2|].
  split; [apply (zden_ok _ _ _ D1)|]. split; [apply (zden_ok _ _ _ D2)|].
  split; [exact D1|]. split; [exact D2|]. split; [|split].
  - intros c0 Hc0.
    destruct (zden_view s1 r1 R c0 B1 D1 (proj2 (ext_choice_ok _ _ c0 X1) Hc0)) as [b1 [V1 H1]].
    destruct (zden_view s2 r2 R c0 B2 D2 (proj2 (ext_choice_ok _ _ c0 X2) Hc0)) as [b2 [V2 H2]].
    rewrite (ext_nlevels _ _ X1) in H1. rewrite (ext_nlevels _ _ X2) in H2.
    exists b1. split; [apply HV; assumption|]. split; [exact V1|].
    rewrite V2. f_equal. apply (bool_iff_eq b2 b1 _ H2 H1).
  - apply (count_reach_zden s1 s2 B1 B2) with (P := R); [|exact D1 | exact D2].
    rewrite (ext_nlevels _ _ X1), (ext_nlevels _ _ X2). reflexivity.
  - intros r0 O0 Hv.
    assert (Er : r1 = r0).
    { apply (zresult_unique s s1 r1 r0 B B1 X1 (zden_ok _ _ _ D1) O0). intros c0 Hc0. symmetry. apply Hv. exact Hc0. }
    subst r0.
    assert (D0 : ZDen s r1 R) by (apply (zden_restrict s s1 r1 R B X1 O0 D1)).
    split; [reflexivity|]. split; [apply (W2 r1 D0)|].
    intros Hs. destruct (Hst Hs) as [(sa & ca & ra & Ea & _ & _ & _ & _ & Sa) (sb & cb & rb & Eb & _ & _ & _ & _ & Sb)].
    rewrite E1 in Ea. inversion Ea; subst sa ca ra. rewrite E2 in Eb. inversion Eb; subst sb cb rb.
    split; [apply (Sa r1 D0) | apply (Sb r1 D0)].
Qed.

(** union, intersection, difference (the set interface; single recursion) *)
Theorem zapply_g_config_indep : forall op s c1 c2 f g x1 x2 fuel1 fuel2,
  ZbddOK s -> ZCacheOKB C1 cget1 s c1 -> ZCacheOKB C2 cget2 s c2 -> ref_ok s f -> ref_ok s g ->
  S (nlevels s) <= fuel1 -> S (nlevels s) <= fuel2 ->
  zsame_obs true s (pbin op (zfam s f) (zfam s g)) (fun _ _ => True)
    (zapply_g alloc1 gt1 C1 cget1 cadd1 fuel1 x1 s c1 op f g)
    (zapply_g alloc2 gt2 C2 cget2 cadd2 fuel2 x2 s c2 op f g).
Proof.
  intros op s c1 c2 f g x1 x2 fuel1 fuel2 B O1 O2 Of Og F1 F2.
  pose proof (zfam_den s f B Of) as DF. pose proof (zfam_den s g B Og) as DG.
  assert (R1 : zres_st cget1 s (zapply_g alloc1 gt1 C1 cget1 cadd1 fuel1 x1 s c1 op f g) (pbin op (zfam s f) (zfam s g)))
    by (apply (zapply_g_ok alloc1 Halloc1 gt1 C1 cget1 cadd1 L1); auto; lia).
  assert (R2 : zres_st cget2 s (zapply_g alloc2 gt2 C2 cget2 cadd2 fuel2 x2 s c2 op f g) (pbin op (zfam s f) (zfam s g)))
    by (apply (zapply_g_ok alloc2 Halloc2 gt2 C2 cget2 cadd2 L2); auto; lia).
  apply zres_same_obs; auto; apply zres_st_wk; assumption.
Qed.

(** not *)
Theorem zapply_not_g_config_indep : forall s c1 c2 f x1 x2 fuel1 fuel2,
  ZbddOK s -> ZChainOK s -> ZCacheOKB C1 cget1 s c1 -> ZCacheOKB C2 cget2 s c2 -> ref_ok s f ->
  S (nlevels s) <= fuel1 -> S (nlevels s) <= fuel2 ->
  zsame_obs true s (pbin ZDiff (pall (nlevels s) 0) (zfam s f))
    (fun c0 v => exists a, zview_of s f c0 = Some a /\ v = negb a)
    (zapply_not_g alloc1 gt1 C1 cget1 cadd1 fuel1 x1 s c1 f)
    (zapply_not_g alloc2 gt2 C2 cget2 cadd2 fuel2 x2 s c2 f).
Proof.
  intros s c1 c2 f x1 x2 fuel1 fuel2 B Hc O1 O2 Of F1 F2.
  pose proof (zfam_den s f B Of) as DF.
  assert (R1 : zres_st cget1 s (zapply_not_g alloc1 gt1 C1 cget1 cadd1 fuel1 x1 s c1 f) (pbin ZDiff (pall (nlevels s) 0) (zfam s f)))
    by (apply (zapply_not_g_ok alloc1 Halloc1 gt1 C1 cget1 cadd1 L1); auto; lia).
  assert (R2 : zres_st cget2 s (zapply_not_g alloc2 gt2 C2 cget2 cadd2 fuel2 x2 s c2 f) (pbin ZDiff (pall (nlevels s) 0) (zfam s f)))
    by (apply (zapply_not_g_ok alloc2 Halloc2 gt2 C2 cget2 cadd2 L2); auto; lia).
  apply zres_same_obs; auto; try (apply zres_st_wk; assumption).
  intros c0 v Hc0 Hv. destruct (zden_view s f _ c0 B DF Hc0) as [bf [Ef Hbf]].
  exists bf. split; [exact Ef|].
  apply (pnot_view (nlevels s) (zfam s f) _ bf v (true_levels_pall _ c0) Hbf Hv).
Qed.

(** the eight Boolean operators *)
Definition bop_single (op : bop) : bool :=
  match op with ONand | ONor | OEquiv => false | _ => true end.

Theorem zapply_op_g_config_indep : forall op s c1 c2 f g x1 x2 fuel1 fuel2,
  ZbddOK s -> ZChainOK s -> ZCacheOKB C1 cget1 s c1 -> ZCacheOKB C2 cget2 s c2 -> ref_ok s f -> ref_ok s g ->
  S (nlevels s) <= fuel1 -> S (nlevels s) <= fuel2 ->
  zsame_obs (bop_single op) s (pop (nlevels s) op (zfam s f) (zfam s g))
    (fun c0 v => exists a b, zview_of s f c0 = Some a /\ zview_of s g c0 = Some b /\ v = eval_bop op a b)
    (zapply_op_g alloc1 gt1 C1 cget1 cadd1 fuel1 x1 s c1 op f g)
    (zapply_op_g alloc2 gt2 C2 cget2 cadd2 fuel2 x2 s c2 op f g).
Proof.
  intros op s c1 c2 f g x1 x2 fuel1 fuel2 B Hc O1 O2 Of Og F1 F2.
  pose proof (zfam_den s f B Of) as DF. pose proof (zfam_den s g B Og) as DG.
  apply zres_same_obs; auto.
  - apply (zapply_op_g_ok alloc1 Halloc1 gt1 C1 cget1 cadd1 L1); auto; lia.
  - apply (zapply_op_g_ok alloc2 Halloc2 gt2 C2 cget2 cadd2 L2); auto; lia.
  - intros Hs. split.
    + apply (zapply_op_g_st alloc1 Halloc1 gt1 C1 cget1 cadd1 L1); auto; try lia; intros ->; discriminate Hs.
    + apply (zapply_op_g_st alloc2 Halloc2 gt2 C2 cget2 cadd2 L2); auto; try lia; intros ->; discriminate Hs.
  - intros c0 v Hc0 Hv.
    destruct (zden_view s f _ c0 B DF Hc0) as [bf [Ef Hbf]].
    destruct (zden_view s g _ c0 B DG Hc0) as [bg [Eg Hbg]].
    exists bf, bg. split; [exact Ef|]. split; [exact Eg|].
    apply (pop_view (nlevels s) op (zfam s f) (zfam s g) _ bf bg v (true_levels_pall _ c0) Hbf Hbg Hv).
Qed.

(** if-then-else *)
Theorem zapply_ite_g_config_indep : forall s c1 c2 f g h x1 x2 fuel1 fuel2,
  ZbddOK s -> ZChainOK s -> ZCacheOKB C1 cget1 s c1 -> ZCacheOKB C2 cget2 s c2 ->
  ref_ok s f -> ref_ok s g -> ref_ok s h ->
  S (nlevels s) <= fuel1 -> S (nlevels s) <= fuel2 ->
  zsame_obs true s (pite (zfam s f) (zfam s g) (zfam s h))
    (fun c0 v => exists a b d, zview_of s f c0 = Some a /\ zview_of s g c0 = Some b /\ zview_of s h c0 = Some d /\
                               v = if a then b else d)
    (zapply_ite_g alloc1 gt1 C1 cget1 cadd1 fuel1 x1 s c1 f g h)
    (zapply_ite_g alloc2 gt2 C2 cget2 cadd2 fuel2 x2 s c2 f g h).
Proof.
  intros s c1 c2 f g h x1 x2 fuel1 fuel2 B Hc O1 O2 Of Og Oh F1 F2.
  pose proof (zfam_den s f B Of) as DF. pose proof (zfam_den s g B Og) as DG. pose proof (zfam_den s h B Oh) as DH.
  assert (R1 : zres_st cget1 s (zapply_ite_g alloc1 gt1 C1 cget1 cadd1 fuel1 x1 s c1 f g h) (pite (zfam s f) (zfam s g) (zfam s h)))
    by (apply (zapply_ite_g_ok alloc1 Halloc1 gt1 C1 cget1 cadd1 L1); auto; lia).
  assert (R2 : zres_st cget2 s (zapply_ite_g alloc2 gt2 C2 cget2 cadd2 fuel2 x2 s c2 f g h) (pite (zfam s f) (zfam s g) (zfam s h)))
    by (apply (zapply_ite_g_ok alloc2 Halloc2 gt2 C2 cget2 cadd2 L2); auto; lia).
  apply zres_same_obs; auto; try (apply zres_st_wk; assumption).
  intros c0 v Hc0 Hv.
  destruct (zden_view s f _ c0 B DF Hc0) as [bf [Ef Hbf]].
  destruct (zden_view s g _ c0 B DG Hc0) as [bg [Eg Hbg]].
  destruct (zden_view s h _ c0 B DH Hc0) as [bh [Eh Hbh]].
  exists bf, bg, bh. split; [exact Ef|]. split; [exact Eg|]. split; [exact Eh|].
  apply (pite_view (zfam s f) (zfam s g) (zfam s h) _ bf bg bh v Hbf Hbg Hbh Hv).
Qed.

(** history independence across configurations: repeating the operation of one
    configuration in any later table, under any other configuration, returns
    the identical edge (and, for the single-recursion operators, creates nothing) *)
Theorem zapply_op_g_rerun : forall op s c1 f g x1 fuel1 s1 c1' r1,
  ZbddOK s -> ZChainOK s -> ZCacheOKB C1 cget1 s c1 -> ref_ok s f -> ref_ok s g -> S (nlevels s) <= fuel1 ->
  zapply_op_g alloc1 gt1 C1 cget1 cadd1 fuel1 x1 s c1 op f g = Some (s1, c1', r1) ->
  forall s2 c2 x2 fuel2, ZbddOK s2 -> extends s1 s2 -> ZCacheOKB C2 cget2 s2 c2 -> S (nlevels s2) <= fuel2 ->
  exists s3 c2', zapply_op_g alloc2 gt2 C2 cget2 cadd2 fuel2 x2 s2 c2 op f g = Some (s3, c2', r1) /\
    (bop_single op = true -> s3 = s2).
Proof.
  intros op s c1 f g x1 fuel1 s1 c1' r1 B Hc O1 Of Og F1 E1 s2 c2 x2 fuel2 B2 X O2 F2.
  pose proof (zfam_den s f B Of) as DF. pose proof (zfam_den s g B Og) as DG.
  destruct (zapply_op_g_ok alloc1 Halloc1 gt1 C1 cget1 cadd1 L1 op fuel1 x1 s c1 f g _ _ B Hc O1 DF DG ltac:(lia))
    as (sa & ca & ra & Ea & Ba & Xa & _ & Da & _).
  rewrite E1 in Ea. inversion Ea; subst sa ca ra.
  assert (X02 : extends s s2) by (eapply extends_trans; eauto).
  pose proof (zden_extends s s2 _ _ B X02 DF) as DF2. pose proof (zden_extends s s2 _ _ B X02 DG) as DG2.
  pose proof (zchain_extends s s2 B B2 X02 Hc) as Hc2.
  pose proof (ext_nlevels _ _ X02) as Hn.
  pose proof (zden_extends s1 s2 _ _ Ba X Da) as D12. rewrite <- Hn in D12.
  destruct (zapply_op_g_ok alloc2 Halloc2 gt2 C2 cget2 cadd2 L2 op fuel2 x2 s2 c2 f g _ _ B2 Hc2 O2 DF2 DG2 ltac:(lia))
    as (sb & cb & rb & Eb & _ & _ & _ & _ & Wb).
  rewrite (Wb r1 D12) in Eb. exists sb, cb. split; [exact Eb|].
  intros Hs.
  destruct (zapply_op_g_st alloc2 Halloc2 gt2 C2 cget2 cadd2 L2 op fuel2 x2 s2 c2 f g _ _
              ltac:(intros ->; discriminate Hs) ltac:(intros ->; discriminate Hs) ltac:(intros ->; discriminate Hs)
              B2 Hc2 O2 DF2 DG2 ltac:(lia))
    as (sc & cc & rc & Ec & _ & _ & _ & _ & Sc).
  rewrite Eb in Ec. inversion Ec; subst sc cc rc. apply (Sc r1 D12).
Qed.

End TwoCfg.

(** (c) the two evaluation orders of one join, same store / cache / operand
    order: the hi-closure first and a shared cache, versus the lo-closure
    first and a stale cache view for the other *)
Theorem zapply_op_g_either_order : forall alloc, alloc_ok alloc ->
  forall gt C cget cadd, zlossy C cget cadd ->
  forall op s (c : C) f g l r l' r' stale,
  ZbddOK s -> ZChainOK s -> ZCacheOKB C cget s c -> ref_ok s f -> ref_ok s g ->
  zsame_obs C cget C cget (bop_single op) s (pop (nlevels s) op (zfam s f) (zfam s g))
    (fun c0 v => exists a b, zview_of s f c0 = Some a /\ zview_of s g c0 = Some b /\ v = eval_bop op a b)
    (zapply_op_g alloc gt C cget cadd (S (nlevels s)) (SPar false false l r) s c op f g)
    (zapply_op_g alloc gt C cget cadd (S (nlevels s)) (SPar true stale l' r') s c op f g).
Proof.
  intros alloc Ha gt C cget cadd L op s c f g l r l' r' stale B Hc O Of Og.
  apply (zapply_op_g_config_indep alloc Ha gt C cget cadd L alloc Ha gt C cget cadd L); auto.
Qed.
