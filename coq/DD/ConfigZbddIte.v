(** * Correctness of the configuration-generic ZBDD operations (DD/ConfigZbdd.v), part 2

    - [zapply_ite_g_ok]: [apply_ite] (all terminal short-cuts incl. the two
      tautology short-cuts, cache, the six recursion patterns with
      [binary_ternary] / [ternary] joins) for every allocator, operand order,
      lossy cache and schedule, with the strong result predicate [zres_st]
      (an existing edge of the result family is returned, table unchanged);
    - [zapply_op_g_ok]: the eight [BooleanFunction] operators.  [nand], [nor] and
      [equiv] are TWO recursions ([not] after [and] / [or] / [xor]): the first
      one may leave nodes of the intermediate result in the table even when
      the final family already has an edge, so for these three the table is
      not unchanged in general - the returned edge still is the existing one
      ([zres_wk]); for the other five [zres_st] holds;
    - [zapply_ite_g_seq], [zapply_op_g_seq]: the instance [fresh_id] / [SSeq] is
      DD/ZbddBool.v. *)

From Coq Require Import List NArith PArith Bool Arith Lia FMapPositive.
From OxiVerif Require Import DD.Table DD.TableExtra DD.TableProofs DD.Sem DD.Build DD.BuildProofs DD.PickInsert
  DD.Apply DD.ApplyProofs DD.CanonZbdd DD.FamSpec DD.FamSpecProofs DD.ZbddOps DD.ZbddOpsProofs
  DD.ZbddSubsetProofs DD.ZbddSoundProofs DD.ZbddVars DD.ZbddVarsProofs DD.ZbddBool DD.ZbddBoolProofs
  DD.ZbddXorProofs DD.ZbddIteProofs
  DD.ConfigApply DD.ConfigProofs DD.ConfigInsert DD.ConfigZbdd DD.ConfigZbddProofs.
Import ListNotations.

Section GenIte.
Variable alloc : snap -> positive.
Hypothesis Halloc : alloc_ok alloc.
Variable gt : ref -> ref -> bool.
Variable C : Type.
Variable cget : C -> N -> list ref -> list nat -> option ref.
Variable cadd : C -> N -> list ref -> list nat -> ref -> C.
Hypothesis Hlossy : zlossy C cget cadd.

Notation COKB := (ZCacheOKB C cget).
Notation RST := (zres_st cget).

Lemma zapply_ite_g_S : forall n x s c f g h,
  zapply_ite_g alloc gt C cget cadd (S n) x s c f g h =
    if ref_eqb g h then Some (s, c, g)
    else if ref_eqb f g then zapply_g alloc gt C cget cadd (S n) x s c ZUnion f h
    else if ref_eqb f h then zapply_g alloc gt C cget cadd (S n) x s c ZIntsec f g
    else
      match zget s f with
      | None => None
      | Some fnode =>
        if is_empty_b s f then Some (s, c, h)
        else
          match zget s g with
          | None => None
          | Some gnode =>
            if is_empty_b s g then zapply_g alloc gt C cget cadd (S n) x s c ZDiff h f
            else
              match zget s h with
              | None => None
              | Some hnode =>
                if is_empty_b s h then zapply_g alloc gt C cget cadd (S n) x s c ZIntsec f g
                else
                  let flevel := vlevel fnode in
                  let glevel := vlevel gnode in
                  let hlevel := vlevel hnode in
                  let ghlevel := lmin glevel hlevel in
                  let level := lmin flevel ghlevel in
                  match ztaut_opt s level with
                  | None => None
                  | Some taut =>
                    if ref_eqb f taut then Some (s, c, g)
                    else if ref_eqb g taut then zapply_g alloc gt C cget cadd (S n) x s c ZUnion f h
                    else
                      match cget c zcode_ite [f; g; h] [] with
                      | Some r => Some (s, c, r)
                      | None =>
                        zfin C cadd
                          (match lcmp flevel ghlevel with
                           | Gt =>
                             match lcmp glevel hlevel with
                             | Lt =>
                               match zkids gnode with
                               | Some (_, glo) => zapply_ite_g alloc gt C cget cadd n x s c f glo h
                               | None => None
                               end
                             | cmp =>
                               match zkids hnode, level with
                               | Some (hhi, hlo), Some lv =>
                                 let g' :=
                                   match cmp with
                                   | Eq => match zkids gnode with Some (_, glo) => Some glo | None => None end
                                   | _ => Some g
                                   end in
                                 match g' with
                                 | None => None
                                 | Some g' => zlo_mk alloc C (zapply_ite_g alloc gt C cget cadd n x s c f g' hlo) lv hhi
                                 end
                               | _, _ => None
                               end
                             end
                           | Lt =>
                             match zkids fnode with
                             | Some (_, flo) => zapply_ite_g alloc gt C cget cadd n x s c flo g h
                             | None => None
                             end
                           | Eq =>
                             match zkids fnode, level with
                             | Some (fhi, flo), Some lv =>
                               match lcmp hlevel flevel with
                               | Gt =>
                                 match zkids gnode with
                                 | Some (ghi, glo) =>
                                   zjoin alloc C x (fun x' s' c' => zapply_g alloc gt C cget cadd (S n) x' s' c' ZIntsec fhi ghi)
                                           (fun x' s' c' => zapply_ite_g alloc gt C cget cadd n x' s' c' flo glo h) s c lv
                                 | None => None
                                 end
                               | _ =>
                                 match lcmp glevel flevel with
                                 | Gt =>
                                   match zkids hnode with
                                   | Some (hhi, hlo) =>
                                     zjoin alloc C x (fun x' s' c' => zapply_g alloc gt C cget cadd (S n) x' s' c' ZDiff hhi fhi)
                                             (fun x' s' c' => zapply_ite_g alloc gt C cget cadd n x' s' c' flo g hlo) s c lv
                                   | None => None
                                   end
                                 | _ =>
                                   match zkids gnode, zkids hnode with
                                   | Some (ghi, glo), Some (hhi, hlo) =>
                                     zjoin alloc C x (fun x' s' c' => zapply_ite_g alloc gt C cget cadd n x' s' c' fhi ghi hhi)
                                             (fun x' s' c' => zapply_ite_g alloc gt C cget cadd n x' s' c' flo glo hlo) s c lv
                                   | _, _ => None
                                   end
                                 end
                               end
                             | _, _ => None
                             end
                           end) zcode_ite [f; g; h]
                      end
                  end
              end
          end
      end.
Proof. reflexivity. Qed.

Theorem zapply_ite_g_ok : forall fuel x s c f g h P Q R,
  ZbddOK s -> ZChainOK s -> COKB s c -> ZDen s f P -> ZDen s g Q -> ZDen s h R ->
  nlevels s - Nat.min (rlevel s f) (Nat.min (rlevel s g) (rlevel s h)) < fuel ->
  RST s (zapply_ite_g alloc gt C cget cadd fuel x s c f g h) (pite P Q R).
Proof.
  induction fuel as [|n IH]; intros x s c f g h P Q R B Hch O DF DG DH Hfuel; [lia|].
  rewrite zapply_ite_g_S.
  pose proof (zo_wf s B) as H.
  pose proof (zden_dec s f P) as HdP. assert (Hd : pdec P) by (intros S; apply HdP; exact DF). clear HdP.
  pose proof (rlevel_le s H f) as LeF. pose proof (rlevel_le s H g) as LeG. pose proof (rlevel_le s H h) as LeH.
  destruct (ref_eqb g h) eqn:E1.
  { apply ref_eqb_eq in E1. subst h. apply (zres_st_here C cget); auto.
    apply (zden_ext s g Q); [exact DG|]. intros S.
    rewrite (pite_ext P P Q Q R Q (peq_refl P) (peq_refl Q) (zden_unique s g R Q DH DG) S).
    symmetry. apply pite_same. exact Hd. }
  destruct (ref_eqb f g) eqn:E2.
  { apply ref_eqb_eq in E2. subst g.
    apply (zres_st_ext C cget s _ (pbin ZUnion P R)).
    - intros S. rewrite (pite_ext P P Q P R R (peq_refl P) (zden_unique s f Q P DG DF) (peq_refl R) S).
      symmetry. apply pite_f_eq_g. exact Hd.
    - apply (zapply_g_ok alloc Halloc gt C cget cadd Hlossy); auto. lia. }
  destruct (ref_eqb f h) eqn:E3.
  { apply ref_eqb_eq in E3. subst h.
    apply (zres_st_ext C cget s _ (pbin ZIntsec P Q)).
    - intros S. rewrite (pite_ext P P Q Q R P (peq_refl P) (peq_refl Q) (zden_unique s f R P DH DF) S).
      symmetry. apply pite_f_eq_h.
    - apply (zapply_g_ok alloc Halloc gt C cget cadd Hlossy); auto. lia. }
  apply ref_eqb_false in E1. apply ref_eqb_false in E2. apply ref_eqb_false in E3.
  destruct (zget_total s f (zden_ok _ _ _ DF)) as [vf Evf]. rewrite Evf.
  destruct (is_empty_b s f) eqn:Ef.
  { destruct (is_empty_b_true s f Ef) as [t [-> Et]]. apply (zres_st_here C cget); auto.
    apply (zden_ext s h R); [exact DH|]. intros S.
    rewrite (pite_ext P pempty Q Q R R (zden_unique s _ P pempty DF (zden_empty s t B Et)) (peq_refl Q) (peq_refl R) S).
    symmetry. apply pite_f_empty. }
  destruct (zget_total s g (zden_ok _ _ _ DG)) as [vg Evg]. rewrite Evg.
  destruct (is_empty_b s g) eqn:Eg.
  { destruct (is_empty_b_true s g Eg) as [t [-> Et]].
    apply (zres_st_ext C cget s _ (pbin ZDiff R P)).
    - intros S.
      rewrite (pite_ext P P Q pempty R R (peq_refl P) (zden_unique s _ Q pempty DG (zden_empty s t B Et)) (peq_refl R) S).
      symmetry. apply pite_g_empty.
    - apply (zapply_g_ok alloc Halloc gt C cget cadd Hlossy); auto. lia. }
  destruct (zget_total s h (zden_ok _ _ _ DH)) as [vh Evh]. rewrite Evh.
  destruct (is_empty_b s h) eqn:Eh.
  { destruct (is_empty_b_true s h Eh) as [t [-> Et]].
    apply (zres_st_ext C cget s _ (pbin ZIntsec P Q)).
    - intros S.
      rewrite (pite_ext P P Q Q R pempty (peq_refl P) (peq_refl Q) (zden_unique s _ R pempty DH (zden_empty s t B Et)) S).
      symmetry. apply pite_h_empty.
    - apply (zapply_g_ok alloc Halloc gt C cget cadd Hlossy); auto. lia. }
  cbv zeta.
  set (N := nlevels s) in *.
  destruct (vlevel_rlevel s f vf H Evf) as [VF OF]. destruct (vlevel_rlevel s g vg H Evg) as [VG OG].
  destruct (vlevel_rlevel s h vh H Evh) as [VH OH]. fold N in VF, VG, VH, OF, OG, OH.
  destruct (lmin_olev N (vlevel vg) (vlevel vh) OG OH) as [VGH OGH].
  destruct (lmin_olev N (vlevel vf) _ OF OGH) as [VL OL].
  rewrite VGH in VL. rewrite VF, VG, VH in *.
  set (F := rlevel s f) in *. set (G := rlevel s g) in *. set (Hh := rlevel s h) in *.
  set (GH := lmin (vlevel vg) (vlevel vh)) in *.
  set (LV := lmin (vlevel vf) GH) in *.
  set (Lv := Nat.min F (Nat.min G Hh)) in *.
  rewrite ztaut_opt_olev. fold N. rewrite VL.
  rewrite (lcmp_olev N (vlevel vf) GH OF OGH), VF, VGH.
  rewrite (lcmp_olev N (vlevel vg) (vlevel vh) OG OH), VG, VH.
  rewrite (lcmp_olev N (vlevel vh) (vlevel vf) OH OF), VH, VF.
  rewrite (lcmp_olev N (vlevel vg) (vlevel vf) OG OF), VG, VF.
  assert (InAll : forall r X S, ZDen s r X -> Lv <= rlevel s r -> X S -> pall N Lv S).
  { intros r X S D Hl HX. destruct (zden_support s r X S B D HX) as [I1 I2].
    split; [apply (incr_from_weaken S (rlevel s r)); [exact Hl | exact I1] | exact I2]. }
  destruct (ztaut_total s Lv Hch) as [ta Eta]. rewrite Eta.
  pose proof (ztaut_den s Lv ta B Eta) as Dta. fold N in Dta. rewrite Nat.min_l in Dta by (unfold Lv; lia).
  destruct (ref_eqb f ta) eqn:E4.
  { apply ref_eqb_eq in E4. subst ta. apply (zres_st_here C cget); auto.
    apply (zden_ext s g Q); [exact DG|]. apply peq_sym.
    apply (peq_trans _ (pite (pall N Lv) Q R)).
    - apply pite_ext; [apply (zden_unique s f P _ DF Dta) | apply peq_refl | apply peq_refl].
    - apply pite_f_taut; intros S HS; [apply (InAll g Q S DG) | apply (InAll h R S DH)]; auto; unfold Lv, G, Hh; lia. }
  destruct (ref_eqb g ta) eqn:E5.
  { apply ref_eqb_eq in E5. subst ta.
    apply (zres_st_ext C cget s _ (pbin ZUnion P R)).
    - apply peq_sym. apply (peq_trans _ (pite P (pall N Lv) R)).
      + apply pite_ext; [apply peq_refl | apply (zden_unique s g Q _ DG Dta) | apply peq_refl].
      + apply pite_g_taut; [exact Hd|]. intros S HS. apply (InAll f P S DF); auto. unfold Lv, F. lia.
    - apply (zapply_g_ok alloc Halloc gt C cget cadd Hlossy); auto. fold N. fold F. fold Hh. lia. }
  clear E4 E5 Eta Dta ta.
  destruct (cget c zcode_ite [f; g; h] []) as [r0|] eqn:Ec.
  { destruct (O _ _ _ _ Ec) as [_ Ox]. simpl in Ox.
    destruct (Ox eq_refl) as (P0 & Q0 & R0 & D0 & D0' & D0'' & Dr).
    apply (zres_st_here C cget); auto. apply (zden_ext s r0 _ _ Dr).
    apply pite_ext; [apply (zden_unique s f P0 P D0 DF) | apply (zden_unique s g Q0 Q D0' DG) | apply (zden_unique s h R0 R D0'' DH)]. }
  apply (zfin_ok C cget cadd Hlossy); [exact B| |].
  2:{ intros s' r B' X DR. apply (zite_entry s' f g h P Q R r); auto; apply (zden_extends s s' _ _ B X); assumption. }
  assert (HfuelN : N - Lv < S n) by exact Hfuel.
  assert (Node : forall r X, ZDen s r X -> rlevel s r < N ->
            exists id nd hi lo XA XB, r = RN id /\ find_node s id = Some nd /\
              nlevel nd = rlevel s r /\ zget s r = Some (ZI nd) /\ nchildren nd = [hi; lo] /\
              ZDen s (eref hi) XA /\ ZDen s (eref lo) XB /\
              rlevel s r < rlevel s (eref hi) /\ rlevel s r < rlevel s (eref lo) /\
              peq X (node_pred (rlevel s r) XA XB) /\ sup (rlevel s r) XA /\ sup (rlevel s r) XB).
  { intros r X D Hl. destruct (rlevel_lt_node s r (zden_ok _ _ _ D) Hl) as (id & nd & -> & En).
    destruct (znode_facts s id nd X B D En)
      as (_ & _ & Rr & hi & lo & XA & XB & Ec' & DA & DB & LA & LB & HX & SA & SB).
    rewrite Rr. exists id, nd, hi, lo, XA, XB. simpl zget. rewrite En. repeat (split; [auto; fail|]). auto. }
  assert (Below : forall r X L, ZDen s r X -> L < rlevel s r -> sup L X).
  { intros r X L D Hl S HS. apply (zden_below s r X L S B D Hl HS). }
  (* what a closure of a join has to establish *)
  assert (RunIte : forall n' a b d PA' PB' PD', n' = n ->
            ZDen s a PA' -> ZDen s b PB' -> ZDen s d PD' ->
            N - Nat.min (rlevel s a) (Nat.min (rlevel s b) (rlevel s d)) < n ->
            zrun_ok cget s (fun x' s' c' => zapply_ite_g alloc gt C cget cadd n' x' s' c' a b d) (pite PA' PB' PD')).
  { intros n' a b d PA' PB' PD' -> Da Db Dd Hn x' s' c' B' X' O'.
    apply IH; auto; try (apply (zden_extends s s' _ _ B X'); assumption).
    - apply (zchain_extends s s' B B' X' Hch).
    - rewrite (ext_nlevels _ _ X'), (ext_rlevel _ _ _ X' (zden_ok _ _ _ Da)),
        (ext_rlevel _ _ _ X' (zden_ok _ _ _ Db)), (ext_rlevel _ _ _ X' (zden_ok _ _ _ Dd)). exact Hn. }
  assert (RunBin : forall op a b PA' PB',
            ZDen s a PA' -> ZDen s b PB' ->
            N - Nat.min (rlevel s a) (rlevel s b) < S n ->
            zrun_ok cget s (fun x' s' c' => zapply_g alloc gt C cget cadd (S n) x' s' c' op a b) (pbin op PA' PB')).
  { intros op a b PA' PB' Da Db Hn x' s' c' B' X' O'.
    apply (zapply_g_ok alloc Halloc gt C cget cadd Hlossy); auto; try (apply (zden_extends s s' _ _ B X'); assumption).
    rewrite (ext_nlevels _ _ X'), (ext_rlevel _ _ _ X' (zden_ok _ _ _ Da)),
      (ext_rlevel _ _ _ X' (zden_ok _ _ _ Db)). exact Hn. }
  destruct (Nat.compare_spec F (Nat.min G Hh)) as [HFc|HFc|HFc].
  - (* Equal: f at the top level, together with g or h or both *)
    assert (HFN : F < N) by (destruct (Nat.eq_dec F N) as [HN|HN]; [|lia];
      exfalso;
      assert (G = N) by lia; assert (Hh = N) by lia;
      destruct g as [tg|idg]; [|destruct (zden_ok _ _ _ DG) as [nd En]; unfold G in *; rewrite (rlevel_node s idg nd En) in *; pose proof (wf_level s H idg nd En); lia];
      destruct h as [th|idh]; [|destruct (zden_ok _ _ _ DH) as [nd En]; unfold Hh in *; rewrite (rlevel_node s idh nd En) in *; pose proof (wf_level s H idh nd En); lia];
      apply E1; f_equal;
      destruct (zterm_cases s tg B (zden_ok _ _ _ DG)) as [Etg|Etg];
        [unfold is_empty_b, is_term_with in Eg; rewrite Etg in Eg; discriminate|];
      destruct (zterm_cases s th B (zden_ok _ _ _ DH)) as [Eth|Eth];
        [unfold is_empty_b, is_term_with in Eh; rewrite Eth in Eh; discriminate|];
      apply (term_val_inj s tg th 1%N H Etg Eth)).
    assert (ELv : Lv = F) by (unfold Lv; lia).
    rewrite (olev_some N LV) by (rewrite VL; lia). rewrite VL, ELv.
    destruct (Node f P DF HFN) as (idf & ndf & fhi & flo & PA & PB & -> & Enf & Elf & Zf & Ecf & DA & DB & LA & LB & HP & SA & SB).
    fold F in Elf, LA, LB, HP, SA, SB.
    assert (Evf' : vf = ZI ndf) by congruence. subst vf. simpl zkids. rewrite Ecf.
    destruct (Nat.compare_spec Hh F) as [HHc|HHc|HHc].
    + (* hlevel = flevel *)
      destruct (Node h R DH ltac:(unfold Hh in *; lia)) as (idh & ndh & hhi & hlo & RA & RB & -> & Enh & Elh & Zh & Ech & DA'' & DB'' & LA'' & LB'' & HR & SA'' & SB'').
      fold Hh in Elh, LA'', LB'', HR, SA'', SB''. rewrite HHc in *.
      assert (Evh' : vh = ZI ndh) by congruence. subst vh. simpl zkids. rewrite Ech.
      destruct (Nat.compare_spec G F) as [HGc|HGc|HGc]; [| lia |].
      * (* all three *)
        destruct (Node g Q DG ltac:(unfold G in *; lia)) as (idg & ndg & ghi & glo & QA & QB & -> & Eng & Elg & Zg & Ecg & DA' & DB' & LA' & LB' & HQ & SA' & SB').
        fold G in Elg, LA', LB', HQ, SA', SB'. rewrite HGc in *.
        assert (Evg' : vg = ZI ndg) by congruence. subst vg. simpl zkids. rewrite Ecg.
        pose proof (rlevel_le s H (eref fhi)). pose proof (rlevel_le s H (eref ghi)). pose proof (rlevel_le s H (eref hhi)).
        pose proof (rlevel_le s H (eref flo)). pose proof (rlevel_le s H (eref glo)). pose proof (rlevel_le s H (eref hlo)).
        apply (zres_st_ext C cget s _ (node_pred F (pite PA QA RA) (pite PB QB RB))).
        { apply peq_sym. apply (peq_trans _ _ _ (pite_ext _ _ _ _ _ _ HP HQ HR)).
          apply pite_all_top; assumption. }
        apply (zjoin_ok alloc Halloc C cget); auto.
        -- apply pite_sup; assumption.
        -- apply pite_sup; assumption.
        -- apply RunIte; auto. unfold N, F, G, Hh in *; lia.
        -- apply RunIte; auto. unfold N, F, G, Hh in *; lia.
      * (* glevel > flevel: f and h on top *)
        pose proof (Below g Q F DG HGc) as SQ.
        pose proof (rlevel_le s H (eref fhi)). pose proof (rlevel_le s H (eref hhi)).
        pose proof (rlevel_le s H (eref flo)). pose proof (rlevel_le s H (eref hlo)).
        apply (zres_st_ext C cget s _ (node_pred F (pbin ZDiff RA PA) (pite PB Q RB))).
        { apply peq_sym. apply (peq_trans _ _ _ (pite_ext _ _ _ _ _ _ HP (peq_refl Q) HR)).
          apply pite_fh_top; assumption. }
        apply (zjoin_ok alloc Halloc C cget); auto.
        -- apply (pbin_sup ZDiff); assumption.
        -- apply pite_sup; assumption.
        -- apply RunBin; auto. unfold N, F, G, Hh in *; lia.
        -- apply RunIte; auto. unfold N, F, G, Hh in *; lia.
    + lia.
    + (* hlevel > flevel: f and g on top *)
      assert (HGF : G = F) by lia.
      destruct (Node g Q DG ltac:(unfold G in *; lia)) as (idg & ndg & ghi & glo & QA & QB & -> & Eng & Elg & Zg & Ecg & DA' & DB' & LA' & LB' & HQ & SA' & SB').
      fold G in Elg, LA', LB', HQ, SA', SB'. rewrite HGF in *.
      assert (Evg' : vg = ZI ndg) by congruence. subst vg. simpl zkids. rewrite Ecg.
      pose proof (Below h R F DH HHc) as SR.
      pose proof (rlevel_le s H (eref fhi)). pose proof (rlevel_le s H (eref ghi)).
      pose proof (rlevel_le s H (eref flo)). pose proof (rlevel_le s H (eref glo)).
      apply (zres_st_ext C cget s _ (node_pred F (pbin ZIntsec PA QA) (pite PB QB R))).
      { apply peq_sym. apply (peq_trans _ _ _ (pite_ext _ _ _ _ _ _ HP HQ (peq_refl R))).
        apply pite_fg_top; assumption. }
      apply (zjoin_ok alloc Halloc C cget); auto.
      * apply (pbin_sup ZIntsec); assumption.
      * apply pite_sup; assumption.
      * apply RunBin; auto. unfold N, F, G, Hh in *; lia.
      * apply RunIte; auto. unfold N, F, G, Hh in *; lia.
  - (* Less: f alone on top *)
    assert (HFN : F < N) by lia.
    destruct (Node f P DF HFN) as (idf & ndf & fhi & flo & PA & PB & -> & Enf & Elf & Zf & Ecf & DA & DB & LA & LB & HP & SA & SB).
    fold F in Elf, LA, LB, HP, SA, SB.
    assert (Evf' : vf = ZI ndf) by congruence. subst vf. simpl zkids. rewrite Ecf.
    pose proof (Below g Q F DG ltac:(fold G; lia)) as SQ.
    pose proof (Below h R F DH ltac:(fold Hh; lia)) as SR.
    apply (zres_st_ext C cget s _ (pite PB Q R)).
    { apply peq_sym. apply (peq_trans _ _ _ (pite_ext _ _ _ _ _ _ HP (peq_refl Q) (peq_refl R))).
      apply pite_f_top; assumption. }
    apply IH; auto. pose proof (rlevel_le s H (eref flo)). fold N. fold G. fold Hh. lia.
  - (* Greater: g or h (or both) above f *)
    destruct (Nat.compare_spec G Hh) as [HGc|HGc|HGc].
    + (* glevel = hlevel *)
      assert (HN : Hh < N) by lia.
      assert (ELv : Lv = Hh) by (unfold Lv; lia).
      rewrite (olev_some N LV) by (rewrite VL; lia). rewrite VL, ELv.
      destruct (Node h R DH HN) as (idh & ndh & hhi & hlo & RA & RB & -> & Enh & Elh & Zh & Ech & DA'' & DB'' & LA'' & LB'' & HR & SA'' & SB'').
      fold Hh in Elh, LA'', LB'', HR, SA'', SB''.
      assert (Evh' : vh = ZI ndh) by congruence. subst vh. simpl zkids. rewrite Ech.
      destruct (Node g Q DG ltac:(fold G; lia)) as (idg & ndg & ghi & glo & QA & QB & -> & Eng & Elg & Zg & Ecg & DA' & DB' & LA' & LB' & HQ & SA' & SB').
      fold G in Elg, LA', LB', HQ, SA', SB'. rewrite HGc in *.
      assert (Evg' : vg = ZI ndg) by congruence. subst vg. simpl zkids. rewrite Ecg.
      pose proof (Below f P Hh DF ltac:(fold F; lia)) as SP.
      apply (zres_st_ext C cget s _ (node_pred Hh RA (pite P QB RB))).
      { apply peq_sym. apply (peq_trans _ _ _ (pite_ext _ _ _ _ _ _ (peq_refl P) (peq_refl Q) HR)).
        apply pite_h_top; auto.
        intros S HS. rewrite (HQ S). unfold node_pred. split; [|auto].
        intros [[T [-> _]]|HB]; [simpl in HS; lia | exact HB]. }
      apply (zlo_mk_ok alloc Halloc C cget); auto.
      * apply IH; auto. pose proof (rlevel_le s H (eref glo)). pose proof (rlevel_le s H (eref hlo)).
        fold N. fold F. lia.
      * apply pite_sup; assumption.
    + (* glevel < hlevel: g alone on top *)
      destruct (Node g Q DG ltac:(fold G; lia)) as (idg & ndg & ghi & glo & QA & QB & -> & Eng & Elg & Zg & Ecg & DA' & DB' & LA' & LB' & HQ & SA' & SB').
      fold G in Elg, LA', LB', HQ, SA', SB'.
      assert (Evg' : vg = ZI ndg) by congruence. subst vg. simpl zkids. rewrite Ecg.
      pose proof (Below f P G DF ltac:(fold F; lia)) as SP.
      pose proof (Below h R G DH ltac:(fold Hh; lia)) as SR.
      apply (zres_st_ext C cget s _ (pite P QB R)).
      { apply peq_sym. apply (peq_trans _ _ _ (pite_ext _ _ _ _ _ _ (peq_refl P) HQ (peq_refl R))).
        apply pite_g_top; assumption. }
      apply IH; auto. pose proof (rlevel_le s H (eref glo)). fold N. fold F. fold Hh. lia.
    + (* hlevel < glevel: h alone on top *)
      assert (HN : Hh < N) by lia.
      assert (ELv : Lv = Hh) by (unfold Lv; lia).
      rewrite (olev_some N LV) by (rewrite VL; lia). rewrite VL, ELv.
      destruct (Node h R DH HN) as (idh & ndh & hhi & hlo & RA & RB & -> & Enh & Elh & Zh & Ech & DA'' & DB'' & LA'' & LB'' & HR & SA'' & SB'').
      fold Hh in Elh, LA'', LB'', HR, SA'', SB''.
      assert (Evh' : vh = ZI ndh) by congruence. subst vh. simpl zkids. rewrite Ech.
      pose proof (Below f P Hh DF ltac:(fold F; lia)) as SP.
      pose proof (Below g Q Hh DG ltac:(fold G; lia)) as SQ.
      apply (zres_st_ext C cget s _ (node_pred Hh RA (pite P Q RB))).
      { apply peq_sym. apply (peq_trans _ _ _ (pite_ext _ _ _ _ _ _ (peq_refl P) (peq_refl Q) HR)).
        apply pite_h_top; auto. intros S _. reflexivity. }
      apply (zlo_mk_ok alloc Halloc C cget); auto.
      * apply IH; auto. pose proof (rlevel_le s H (eref hlo)). fold N. fold F. fold G. lia.
      * apply pite_sup; assumption.
Qed.

(** ** All eight operators *)

(** the weaker result predicate of the two-stage operators: the edge is the
    existing one, the table may have grown by nodes of the intermediate result *)
Definition zres_wk (s : snap) (res : option (snap * C * ref)) (R : fpred) : Prop :=
  exists s' c' r, res = Some (s', c', r) /\
    ZbddOK s' /\ extends s s' /\ COKB s' c' /\ ZDen s' r R /\
    (forall r0, ZDen s r0 R -> r = r0).

Lemma zres_st_wk : forall s res R, RST s res R -> zres_wk s res R.
Proof.
  intros s res R (s' & c' & r & E & B & X & O & D & St). exists s', c', r.
  repeat (split; [assumption|]). intros r0 D0. apply (St r0 D0).
Qed.

Lemma zres_wk_weak : forall s res R, zres_wk s res R -> zresult_okB C cget s res R.
Proof.
  intros s res R (s' & c' & r & E & B & X & O & D & _). exists s', c', r. auto.
Qed.

Lemma zres_then_not_g : forall fuel x s res R,
  ZbddOK s -> ZChainOK s -> RST s res R -> nlevels s < fuel ->
  zres_wk s
    (match res with
     | Some (s1, c1, r) => zapply_not_g alloc gt C cget cadd fuel x s1 c1 r
     | None => None
     end) (pbin ZDiff (pall (nlevels s) 0) R).
Proof.
  intros fuel x s res R B Hc (s1 & c1 & r & E & B1 & X1 & O1 & D1 & _) Hf. subst res.
  pose proof (ext_nlevels _ _ X1) as Hn.
  destruct (zapply_not_g_ok alloc Halloc gt C cget cadd Hlossy fuel x s1 c1 r R B1
              (zchain_extends s s1 B B1 X1 Hc) O1 D1 ltac:(lia))
    as (s2 & c2 & r2 & E2 & B2 & X2 & O2 & D2 & S2).
  exists s2, c2, r2. split; [exact E2|]. split; [exact B2|].
  split; [apply (extends_trans _ _ _ X1 X2)|]. split; [exact O2|]. rewrite <- Hn.
  split; [exact D2|]. intros r0 D0. apply (S2 r0). apply (zden_extends s s1 r0 _ B X1 D0).
Qed.

(** and, or, xor, imp, imp_strict: one recursion - the strong predicate *)
Theorem zapply_op_g_st : forall op fuel x s c f g P Q,
  op <> ONand -> op <> ONor -> op <> OEquiv ->
  ZbddOK s -> ZChainOK s -> COKB s c -> ZDen s f P -> ZDen s g Q -> nlevels s < fuel ->
  RST s (zapply_op_g alloc gt C cget cadd fuel x s c op f g) (pop (nlevels s) op P Q).
Proof.
  intros op fuel x s c f g P Q N1 N2 N3 B Hc O DF DG Hf.
  destruct op; try congruence; unfold zapply_op_g, pop.
  - apply (zapply_g_ok alloc Halloc gt C cget cadd Hlossy); auto; lia.
  - apply (zapply_g_ok alloc Halloc gt C cget cadd Hlossy); auto; lia.
  - apply (zsymm_g_ok alloc Halloc gt C cget cadd Hlossy); auto; lia.
  - destruct (ztaut_total s 0 Hc) as [t Et]. rewrite Et.
    pose proof (ztaut_den s 0 t B Et) as Dt. rewrite Nat.min_0_l in Dt.
    apply zapply_ite_g_ok; auto. lia.
  - apply (zapply_g_ok alloc Halloc gt C cget cadd Hlossy); auto; lia.
Qed.

(** all eight *)
Theorem zapply_op_g_ok : forall op fuel x s c f g P Q,
  ZbddOK s -> ZChainOK s -> COKB s c -> ZDen s f P -> ZDen s g Q -> nlevels s < fuel ->
  zres_wk s (zapply_op_g alloc gt C cget cadd fuel x s c op f g) (pop (nlevels s) op P Q).
Proof.
  intros op fuel x s c f g P Q B Hc O DF DG Hf.
  destruct op; try (apply zres_st_wk; apply zapply_op_g_st; auto; discriminate);
    unfold zapply_op_g, pop; apply zres_then_not_g; auto.
  - apply (zsymm_g_ok alloc Halloc gt C cget cadd Hlossy); auto; lia.
  - apply (zapply_g_ok alloc Halloc gt C cget cadd Hlossy); auto; lia.
  - apply (zapply_g_ok alloc Halloc gt C cget cadd Hlossy); auto; lia.
Qed.

End GenIte.

Arguments zres_wk {C}.

(** ** The sequential configuration with [fresh_id] is the model of DD/ZbddBool.v *)

Section SeqIte.
Variable gt : ref -> ref -> bool.
Variable C : Type.
Variable cget : C -> N -> list ref -> list nat -> option ref.
Variable cadd : C -> N -> list ref -> list nat -> ref -> C.

Local Ltac strip_fin :=
  unfold zfin;
  match goal with
  | |- match ?a with _ => _ end = match ?b with _ => _ end =>
    let Hx := fresh "Hx" in assert (Hx : a = b); [|rewrite Hx; reflexivity]
  end.

Local Ltac seq_join IH :=
  unfold zjoin, fork2; cbn [sch_swap sch_stale sch_l sch_r];
  rewrite ?zapply_g_seq, ?IH;
  match goal with
  | |- match match ?a with _ => _ end with _ => _ end = _ => destruct a as [[[? ?] ?]|]; [|reflexivity]
  end;
  rewrite ?IH;
  match goal with
  | |- match match ?a with _ => _ end with _ => _ end = _ => destruct a as [[[? ?] ?]|]; reflexivity
  end.

Theorem zapply_ite_g_seq : forall fuel s c f g h,
  zapply_ite_g fresh_id gt C cget cadd fuel SSeq s c f g h = zapply_ite gt C cget cadd fuel s c f g h.
Proof.
  induction fuel as [|n IH]; intros s c f g h; [reflexivity|].
  rewrite zapply_ite_g_S, (zapply_ite_S gt C cget cadd).
  destruct (ref_eqb g h); [reflexivity|].
  destruct (ref_eqb f g); [apply zapply_g_seq|].
  destruct (ref_eqb f h); [apply zapply_g_seq|].
  destruct (zget s f) as [fnode|]; [|reflexivity].
  destruct (is_empty_b s f); [reflexivity|].
  destruct (zget s g) as [gnode|]; [|reflexivity].
  destruct (is_empty_b s g); [apply zapply_g_seq|].
  destruct (zget s h) as [hnode|]; [|reflexivity].
  destruct (is_empty_b s h); [apply zapply_g_seq|].
  cbv zeta.
  destruct (ztaut_opt s (lmin (vlevel fnode) (lmin (vlevel gnode) (vlevel hnode)))) as [taut|]; [|reflexivity].
  destruct (ref_eqb f taut); [reflexivity|].
  destruct (ref_eqb g taut); [apply zapply_g_seq|].
  destruct (cget c zcode_ite [f; g; h] []); [reflexivity|].
  strip_fin.
  repeat match goal with
  | |- match ?a with _ => _ end = match ?a with _ => _ end => destruct a
  | |- match ?a with _ => _ end = match match ?a with _ => _ end with _ => _ end => destruct a
  end;
  try reflexivity; try apply IH;
  try (unfold zlo_mk; rewrite IH; reflexivity);
  try (seq_join IH).
Qed.

Theorem zapply_op_g_seq : forall fuel s c op f g,
  zapply_op_g fresh_id gt C cget cadd fuel SSeq s c op f g = zapply_op gt C cget cadd fuel s c op f g.
Proof.
  intros fuel s c op f g. destruct op; unfold zapply_op_g, zapply_op;
    rewrite ?zapply_g_seq, ?zsymm_g_seq; try reflexivity.
  - destruct (zsymm gt C cget cadd fuel s c f g) as [[[s1 c1] r]|]; [apply zapply_not_g_seq | reflexivity].
  - destruct (zapply gt C cget cadd fuel s c ZIntsec f g) as [[[s1 c1] r]|]; [apply zapply_not_g_seq | reflexivity].
  - destruct (zapply gt C cget cadd fuel s c ZUnion f g) as [[[s1 c1] r]|]; [apply zapply_not_g_seq | reflexivity].
  - destruct (ztaut s 0); [apply zapply_ite_g_seq | reflexivity].
Qed.

End SeqIte.
