(** * Correctness of the configuration-generic ZBDD operations (DD/ConfigZbdd.v), part 1

    - [zmk_node_a_ok], [zmk_node_a_stable]: [reduce] on an arbitrary node store;
      [zden_node_pred_inv]: if a family [lo u { L :: T | T in hi }] has an edge,
      so have [hi] and [lo];
    - [zres_st]: the result predicate - well-formed extension, correct cache
      (all nine operator codes, [ZCacheOKB]), the edge denotes the family, AND
      if that family already has an edge then exactly that edge is returned and
      the table is unchanged (the existing [zresult_okB] of DD/ZbddBoolProofs.v
      has no such clause; it is what makes runs with different caches agree);
    - [zfork2_ok], [zjoin_ok], [zlo_mk_ok], [zfin_ok]: the building blocks of
      the recursions under an arbitrary schedule;
    - [zapply_g_ok] (union, intersection, difference), [zapply_not_g_ok],
      [zsymm_g_ok] for every allocator, operand order, lossy cache, schedule;
    - [zapply_g_seq], [zsymm_g_seq], [zapply_not_g_seq]: the instance [fresh_id] /
      [SSeq] is DD/ZbddOps.v / DD/ZbddBool.v.

    Part 2 (ite, the eight operators): DD/ConfigZbddIte.v. *)

From Coq Require Import List NArith PArith Bool Arith Lia FMapPositive.
From OxiVerif Require Import DD.Table DD.TableExtra DD.TableProofs DD.Sem DD.Build DD.BuildProofs DD.PickInsert
  DD.Apply DD.ApplyProofs DD.CanonZbdd DD.FamSpec DD.FamSpecProofs DD.ZbddOps DD.ZbddOpsProofs
  DD.ZbddSubsetProofs DD.ZbddSoundProofs DD.ZbddVars DD.ZbddVarsProofs DD.ZbddBool DD.ZbddBoolProofs
  DD.ZbddXorProofs DD.ZbddIteProofs
  DD.ConfigApply DD.ConfigProofs DD.ConfigInsert DD.ConfigZbdd.
Import ListNotations.

(** ** Families of the shape [node_pred L A B] *)

Lemma node_pred_inj : forall L A B A' B', sup L B -> sup L B' ->
  peq (node_pred L A B) (node_pred L A' B') -> peq A A' /\ peq B B'.
Proof.
  intros L A B A' B' SB SB' Hp. split.
  - intros T. split; intros HT.
    + destruct (proj1 (Hp (L :: T)) (or_introl (ex_intro _ T (conj eq_refl HT)))) as [[T' [E HT']]|HB].
      * inversion E; subst T'. exact HT'.
      * destruct (sup_nohead L B' T SB' HB).
    + destruct (proj2 (Hp (L :: T)) (or_introl (ex_intro _ T (conj eq_refl HT)))) as [[T' [E HT']]|HB].
      * inversion E; subst T'. exact HT'.
      * destruct (sup_nohead L B T SB HB).
  - intros S. split; intros HS.
    + destruct (proj1 (Hp S) (or_intror HS)) as [[T [-> _]]|HB]; [destruct (sup_nohead L B T SB HS) | exact HB].
    + destruct (proj2 (Hp S) (or_intror HS)) as [[T [-> _]]|HB]; [destruct (sup_nohead L B' T SB' HS) | exact HB].
Qed.

(** if the family [node_pred L A B] has an edge in the table, so have [A] and [B] *)
Lemma zden_node_pred_inv : forall s r0 L A B, ZbddOK s -> L < nlevels s ->
  sup L A -> sup L B -> ZDen s r0 (node_pred L A B) ->
  exists qa qb, ZDen s qa A /\ ZDen s qb B.
Proof.
  intros s r0 L A B Bok HL SA SB D0. pose proof (zo_wf s Bok) as H.
  assert (L0 : L <= rlevel s r0).
  { apply (zden_level s r0 _ L Bok D0); [lia|].
    intros S [[T [-> HT]]|HB].
    - simpl. split; [lia | apply SA; exact HT].
    - apply (incr_from_weaken S (Datatypes.S L)); [lia | apply SB; exact HB]. }
  destruct (Nat.eq_dec (rlevel s r0) L) as [Heq|Hne].
  - destruct (rlevel_lt_node s r0 (zden_ok _ _ _ D0) ltac:(lia)) as (id & nd & -> & En).
    destruct (znode_facts s id nd _ Bok D0 En)
      as (_ & _ & Rr & hi & lo & PA & PB & Ec & DA & DB & _ & _ & HP & SPA & SPB).
    rewrite Rr in Heq. rewrite Heq in *.
    destruct (node_pred_inj L A B PA PB SB SPB HP) as [HA HB].
    exists (eref hi), (eref lo). split.
    + apply (zden_ext s _ PA A DA). apply peq_sym. exact HA.
    + apply (zden_ext s _ PB B DB). apply peq_sym. exact HB.
  - assert (Hlt : L < rlevel s r0) by lia.
    assert (SR : sup L (node_pred L A B))
      by (intros S HS; apply (zden_below s r0 _ L S Bok D0 Hlt HS)).
    destruct (zempty_spec s Bok) as [te [_ Et]].
    exists (RT te), r0. split.
    + apply (zden_ext s _ pempty A (zden_empty s te Bok Et)). intros T. unfold pempty. split; [tauto|].
      intros HT. apply (sup_nohead L _ T SR). left. exists T. auto.
    + apply (zden_ext s r0 _ B D0). intros S. split.
      * intros [[T [-> HT]]|HB]; [|exact HB]. exfalso. apply (sup_nohead L _ T SR). left. exists T. auto.
      * intros HB. right. exact HB.
Qed.

(** ** [reduce] = [zmk_node_a] *)

Section Alloc.
Variable alloc : snap -> positive.
Hypothesis Halloc : alloc_ok alloc.

Theorem zmk_node_a_ok : forall s lvl hi lo PA PB s' r,
  ZbddOK s -> lvl < nlevels s -> ZDen s hi PA -> ZDen s lo PB ->
  lvl < rlevel s hi -> lvl < rlevel s lo ->
  zmk_node_a alloc s lvl hi lo = (s', r) ->
  ZbddOK s' /\ extends s s' /\ ZDen s' r (node_pred lvl PA PB) /\ lvl <= rlevel s' r /\
  (s' = s \/ exists id, r = RN id /\ find_node s id = None).
Proof.
  intros s lvl hi lo PA PB s' r B Hl DA DB Lh Ll. unfold zmk_node_a.
  pose proof (zo_wf s B) as H. pose proof (zo_kind s B) as Hk.
  destruct (is_empty_b s hi) eqn:Ee.
  - intros Heq. inversion Heq; subst s' r; clear Heq.
    destruct (is_empty_b_true s hi Ee) as [t [-> Et]].
    split; [exact B|]. split; [apply extends_refl|]. split; [|split; [lia | left; reflexivity]].
    apply (zden_ext s lo PB); [exact DB|].
    pose proof (zden_unique s (RT t) PA pempty DA (zden_empty s t B Et)) as Hpe.
    intros S. unfold node_pred. split; [auto|].
    intros [[T [_ HT]]|Hb]; [destruct (proj1 (Hpe T) HT) | exact Hb].
  - destruct (get_or_insert_a alloc s lvl [E hi; E lo]) as [s1 e] eqn:Eg.
    intros Heq. inversion Heq; subst s' r; clear Heq.
    pose proof (zden_ok _ _ _ DA) as Oh. pose proof (zden_ok _ _ _ DB) as Ol.
    assert (Hlen : length [E hi; E lo] = arity (s_kind s)) by (rewrite Hk; reflexivity).
    assert (Hce : forall x, In x [E hi; E lo] -> ref_ok s (eref x) /\ lvl < rlevel s (eref x)).
    { intros x [<-|[<-|[]]]; simpl; auto. }
    assert (Hred : reduced s [E hi; E lo]).
    { unfold reduced. rewrite Hk. exists (E hi). split; [reflexivity|]. simpl. intros t Et. subst hi.
      apply is_empty_b_false. exact Ee. }
    assert (Htags : s_kind s <> KBcdd -> forall x, In x [E hi; E lo] -> etag x = false).
    { intros _ x [<-|[<-|[]]]; reflexivity. }
    destruct (goi_any_a alloc Halloc s lvl _ H Hl Hlen Hce Hred Htags s1 e Eg)
      as [W' [X [[id [nd [Er [E' [El Ec]]]]] Hnew]]].
    assert (B' : ZbddOK s1) by (apply (zbddok_extends s s1 B X W')).
    subst e. simpl eref.
    split; [exact B'|]. split; [exact X|]. split; [|split].
    + rewrite <- El. apply (zden_node s1 id nd (E hi) (E lo) PA PB B' E' Ec);
        simpl eref; apply (zden_extends s s1 _ _ B X); assumption.
    + simpl. rewrite E'. lia.
    + destruct Hnew as [->|Hn]; [left; reflexivity | right; exists id; simpl in Hn; auto].
Qed.

(** if the family to be built already has an edge, [zmk_node_a] returns it and
    leaves the table alone *)
Lemma zmk_node_a_stable : forall s lvl hi lo PA PB s' r r0,
  ZbddOK s -> lvl < nlevels s -> ZDen s hi PA -> ZDen s lo PB ->
  lvl < rlevel s hi -> lvl < rlevel s lo ->
  zmk_node_a alloc s lvl hi lo = (s', r) ->
  ZDen s r0 (node_pred lvl PA PB) -> s' = s /\ r = r0.
Proof.
  intros s lvl hi lo PA PB s' r r0 B Hl DA DB Lh Ll Em D0.
  destruct (zmk_node_a_ok s lvl hi lo PA PB s' r B Hl DA DB Lh Ll Em) as (B' & X & D & _ & Hnew).
  assert (Er : r = r0)
    by (apply (zden_canon s' r r0 _ _ B' D (zden_extends s s' r0 _ B X D0)); apply peq_refl).
  split; [|exact Er].
  destruct Hnew as [Hs|[id [Ei Hn]]]; [exact Hs|].
  exfalso. subst r r0. destruct (zden_ok _ _ _ D0) as [nd En]. congruence.
Qed.

End Alloc.

(** ** The result predicate and the building blocks of the recursions *)

Section Gen.
Variable alloc : snap -> positive.
Hypothesis Halloc : alloc_ok alloc.
Variable gt : ref -> ref -> bool.
Variable C : Type.
Variable cget : C -> N -> list ref -> list nat -> option ref.
Variable cadd : C -> N -> list ref -> list nat -> ref -> C.
Hypothesis Hlossy : zlossy C cget cadd.

Notation COKB := (ZCacheOKB C cget).

Definition zres_st (s : snap) (res : option (snap * C * ref)) (R : fpred) : Prop :=
  exists s' c' r, res = Some (s', c', r) /\
    ZbddOK s' /\ extends s s' /\ COKB s' c' /\ ZDen s' r R /\
    (* if the result family already has an edge, that edge is returned and the
       table is unchanged *)
    (forall r0, ZDen s r0 R -> s' = s /\ r = r0).

Lemma zres_st_ext : forall s res R R', peq R R' -> zres_st s res R -> zres_st s res R'.
Proof.
  intros s res R R' Hp (s' & c' & r & E & B & X & O & D & St).
  exists s', c', r. repeat (split; [assumption|]). split; [apply (zden_ext s' r R R' D Hp)|].
  intros r0 D0. apply St. apply (zden_ext s r0 R' R D0). apply peq_sym. exact Hp.
Qed.

Lemma zres_st_here : forall s c r R, ZbddOK s -> COKB s c -> ZDen s r R ->
  zres_st s (Some (s, c, r)) R.
Proof.
  intros s c r R B O D. exists s, c, r. split; [reflexivity|]. split; [exact B|].
  split; [apply extends_refl|]. split; [exact O|]. split; [exact D|].
  intros r0 D0. split; [reflexivity|]. apply (zden_canon s r r0 R R B D D0). apply peq_refl.
Qed.

Lemma zres_st_weak : forall s res R, zres_st s res R -> zresult_okB C cget s res R.
Proof.
  intros s res R (s' & c' & r & E & B & X & O & D & _). exists s', c', r. auto.
Qed.

(** a closure of the recursion computes [P] in every later state of table [s]
    (whatever other closures added in the meantime, whatever the cache holds),
    under every schedule *)
Definition zrun_ok (s : snap) (run : sched -> snap -> C -> option (snap * C * ref)) (P : fpred) : Prop :=
  forall x s' c', ZbddOK s' -> extends s s' -> COKB s' c' -> zres_st s' (run x s' c') P.

Lemma zfork2_ok : forall x runH runL s c PA PB,
  ZbddOK s -> COKB s c -> zrun_ok s runH PA -> zrun_ok s runL PB ->
  exists s2 c2 hi lo, fork2 C x runH runL s c = Some (s2, c2, hi, lo) /\
    ZbddOK s2 /\ extends s s2 /\ COKB s2 c2 /\ ZDen s2 hi PA /\ ZDen s2 lo PB /\
    (forall q0 q1, ZDen s q0 PA -> ZDen s q1 PB -> s2 = s /\ hi = q0 /\ lo = q1).
Proof.
  intros x runT runE s c P0 P1 B O HT HE. unfold fork2. destruct (sch_swap x).
  - destruct (HE (sch_r x) s c B (extends_refl s) O) as (s1 & c1 & e & E1 & B1 & X1 & O1 & D1 & S1).
    rewrite E1.
    assert (Oc : COKB s1 (if sch_stale x then c else c1))
      by (destruct (sch_stale x); [apply (zcacheokb_extends C cget s s1 c B X1 O) | exact O1]).
    destruct (HT (sch_l x) s1 _ B1 X1 Oc) as (s2 & c2 & t & E2 & B2 & X2 & O2 & D2 & S2).
    rewrite E2. exists s2, c2, t, e.
    split; [reflexivity|]. split; [exact B2|]. split; [eapply extends_trans; eauto|].
    split; [exact O2|]. split; [exact D2|]. split; [apply (zden_extends s1 s2 _ _ B1 X2 D1)|].
    intros q0 q1 Dq0 Dq1. destruct (S1 q1 Dq1) as [-> ->]. destruct (S2 q0 Dq0) as [-> ->]. auto.
  - destruct (HT (sch_l x) s c B (extends_refl s) O) as (s1 & c1 & t & E1 & B1 & X1 & O1 & D1 & S1).
    rewrite E1.
    assert (Oc : COKB s1 (if sch_stale x then c else c1))
      by (destruct (sch_stale x); [apply (zcacheokb_extends C cget s s1 c B X1 O) | exact O1]).
    destruct (HE (sch_r x) s1 _ B1 X1 Oc) as (s2 & c2 & e & E2 & B2 & X2 & O2 & D2 & S2).
    rewrite E2. exists s2, c2, t, e.
    split; [reflexivity|]. split; [exact B2|]. split; [eapply extends_trans; eauto|].
    split; [exact O2|]. split; [apply (zden_extends s1 s2 _ _ B1 X2 D1)|]. split; [exact D2|].
    intros q0 q1 Dq0 Dq1. destruct (S1 q0 Dq0) as [-> ->]. destruct (S2 q1 Dq1) as [-> ->]. auto.
Qed.

(** [rec.binary(..)] + [reduce] *)
Lemma zjoin_ok : forall x runH runL s c L RA RB,
  ZbddOK s -> COKB s c -> L < nlevels s -> sup L RA -> sup L RB ->
  zrun_ok s runH RA -> zrun_ok s runL RB ->
  zres_st s (zjoin alloc C x runH runL s c L) (node_pred L RA RB).
Proof.
  intros x runH runL s c L RA RB B O HL SA SB HH HLo. unfold zjoin.
  destruct (zfork2_ok x runH runL s c RA RB B O HH HLo)
    as (s2 & c2 & hi & lo & Ef & B2 & X2 & O2 & Dh & Dl & Sf).
  rewrite Ef. destruct (zmk_node_a alloc s2 L hi lo) as [s3 h] eqn:Em.
  assert (HL2 : L < nlevels s2) by (rewrite (ext_nlevels _ _ X2); exact HL).
  assert (Lh2 : L < rlevel s2 hi) by (apply (zden_level s2 hi _ (S L) B2 Dh); [lia | exact SA]).
  assert (Ll2 : L < rlevel s2 lo) by (apply (zden_level s2 lo _ (S L) B2 Dl); [lia | exact SB]).
  destruct (zmk_node_a_ok alloc Halloc s2 L hi lo _ _ s3 h B2 HL2 Dh Dl Lh2 Ll2 Em) as (B3 & X3 & D3 & _ & _).
  exists s3, c2, h. split; [reflexivity|]. split; [exact B3|].
  split; [apply (extends_trans _ _ _ X2 X3)|].
  split; [apply (zcacheokb_extends C cget s2 s3 c2 B2 X3 O2)|]. split; [exact D3|].
  intros r0 D0.
  destruct (zden_node_pred_inv s r0 L RA RB B HL SA SB D0) as (qa & qb & Dqa & Dqb).
  destruct (Sf qa qb Dqa Dqb) as [-> [-> ->]].
  apply (zmk_node_a_stable alloc Halloc s L qa qb RA RB s3 h r0 B HL Dqa Dqb Lh2 Ll2 Em D0).
Qed.

(** a direct recursive call + [reduce_borrowed] under an old hi edge *)
Lemma zlo_mk_ok : forall s res R L hi PA,
  ZbddOK s -> zres_st s res R -> L < nlevels s -> ZDen s hi PA -> L < rlevel s hi ->
  sup L PA -> sup L R ->
  zres_st s (zlo_mk alloc C res L hi) (node_pred L PA R).
Proof.
  intros s res R L hi PA B (s1 & c1 & lo & E & B1 & X1 & O1 & D1 & S1) HL DA Lh SA SR. subst res.
  unfold zlo_mk. destruct (zmk_node_a alloc s1 L hi lo) as [s2 h] eqn:Em.
  pose proof (zden_extends s s1 hi PA B X1 DA) as DA1.
  assert (HL1 : L < nlevels s1) by (rewrite (ext_nlevels _ _ X1); exact HL).
  assert (Lh1 : L < rlevel s1 hi) by (rewrite (ext_rlevel _ _ _ X1 (zden_ok _ _ _ DA)); exact Lh).
  assert (Ll1 : L < rlevel s1 lo) by (apply (zden_level s1 lo R (S L) B1 D1); [lia | exact SR]).
  destruct (zmk_node_a_ok alloc Halloc s1 L hi lo PA R s2 h B1 HL1 DA1 D1 Lh1 Ll1 Em) as (B2 & X2 & D2 & _ & _).
  exists s2, c1, h. split; [reflexivity|]. split; [exact B2|].
  split; [apply (extends_trans _ _ _ X1 X2)|].
  split; [apply (zcacheokb_extends C cget s1 s2 c1 B1 X2 O1)|]. split; [exact D2|].
  intros r0 D0.
  destruct (zden_node_pred_inv s r0 L PA R B HL SA SR D0) as (qa & qb & _ & Dqb).
  destruct (S1 qb Dqb) as [-> ->].
  apply (zmk_node_a_stable alloc Halloc s L hi qb PA R s2 h r0 B HL DA Dqb Lh Ll1 Em D0).
Qed.

(** storing a result in the cache *)
Lemma zfin_ok : forall s res R code args,
  ZbddOK s -> zres_st s res R ->
  (forall s' r, ZbddOK s' -> extends s s' -> ZDen s' r R ->
     zentry_ok s' code args [] r /\ zentry_x s' code args [] r) ->
  zres_st s (zfin C cadd res code args) R.
Proof.
  intros s res R code args B (s' & c' & h & E & B' & X & O & D & St) He. subst res.
  exists s', (cadd c' code args [] h), h.
  split; [reflexivity|]. split; [exact B'|]. split; [exact X|]. split; [|split; [exact D | exact St]].
  destruct (He s' h B' X D) as [A A']. apply (zcacheokb_add C cget cadd Hlossy); assumption.
Qed.

Lemma zop_entry : forall s op f g P Q R r,
  ZDen s f P -> ZDen s g Q -> ZDen s r R -> peq R (pbin op P Q) ->
  zentry_ok s (zop_code op) [f; g] [] r /\ zentry_x s (zop_code op) [f; g] [] r.
Proof.
  intros s op f g P Q R r DF DG DR Hp. split.
  - simpl. intros o Ho. apply zop_code_inj in Ho. subst o. exists P, Q.
    split; [exact DF|]. split; [exact DG|]. apply (zden_ext s r R _ DR Hp).
  - apply zentry_x_other; destruct op; discriminate.
Qed.

(** ** union, intersection, difference *)

Lemma zapply_g_S : forall n x s c op f g,
  zapply_g alloc gt C cget cadd (S n) x s c op f g =
    match zterminal s op f g with
    | ZTFail => None
    | ZTDone r => Some (s, c, r)
    | ZTGo =>
      let '(f, g) := if zcommutes op && gt f g then (g, f) else (f, g) in
      match cget c (zop_code op) [f; g] [] with
      | Some h => Some (s, c, h)
      | None =>
        match zget s f, zget s g with
        | Some fnode, Some gnode =>
          zfin C cadd
            (match lcmp (vlevel fnode) (vlevel gnode) with
             | Lt =>
               match zkids fnode, vlevel fnode with
               | Some (fhi, flo), Some flevel =>
                 match op with
                 | ZUnion | ZDiff => zlo_mk alloc C (zapply_g alloc gt C cget cadd n x s c op flo g) flevel fhi
                 | ZIntsec => zapply_g alloc gt C cget cadd n x s c op flo g
                 end
               | _, _ => None
               end
             | Eq =>
               match zkids fnode, zkids gnode, vlevel fnode with
               | Some (fhi, flo), Some (ghi, glo), Some flevel =>
                 zjoin alloc C x (fun x' s' c' => zapply_g alloc gt C cget cadd n x' s' c' op fhi ghi)
                       (fun x' s' c' => zapply_g alloc gt C cget cadd n x' s' c' op flo glo) s c flevel
               | _, _, _ => None
               end
             | Gt =>
               match zkids gnode, vlevel gnode with
               | Some (ghi, glo), Some glevel =>
                 match op with
                 | ZUnion => zlo_mk alloc C (zapply_g alloc gt C cget cadd n x s c op f glo) glevel ghi
                 | ZIntsec | ZDiff => zapply_g alloc gt C cget cadd n x s c op f glo
                 end
               | _, _ => None
               end
             end) (zop_code op) [f; g]
        | _, _ => None
        end
      end
    end.
Proof. reflexivity. Qed.

Theorem zapply_g_ok : forall op fuel x s c f g P Q,
  ZbddOK s -> COKB s c -> ZDen s f P -> ZDen s g Q ->
  nlevels s - Nat.min (rlevel s f) (rlevel s g) < fuel ->
  zres_st s (zapply_g alloc gt C cget cadd fuel x s c op f g) (pbin op P Q).
Proof.
  intros op. induction fuel as [|n IH]; intros x s c f g P Q B O DF DG Hfuel; [lia|].
  rewrite zapply_g_S.
  pose proof (zterminal_ok s op f g P Q B DF DG) as Ht.
  destruct (zterminal s op f g) as [|r|]; [destruct Ht | apply zres_st_here; assumption |].
  destruct Ht as [Hne [Hf1 Hg1]].
  assert (Hsw : exists f' g' P' Q',
            (if zcommutes op && gt f g then (g, f) else (f, g)) = (f', g') /\
            ZDen s f' P' /\ ZDen s g' Q' /\ peq (pbin op P' Q') (pbin op P Q) /\ f' <> g' /\
            (forall t, f' = RT t -> term_val s t = Some 1%N) /\
            (forall t, g' = RT t -> term_val s t = Some 1%N) /\
            Nat.min (rlevel s f') (rlevel s g') = Nat.min (rlevel s f) (rlevel s g)).
  { destruct (zcommutes op && gt f g) eqn:Esw.
    - apply andb_true_iff in Esw. destruct Esw as [Ecm _].
      exists g, f, Q, P. split; [reflexivity|]. split; [exact DG|]. split; [exact DF|].
      split; [apply pbin_comm; exact Ecm|]. split; [congruence|].
      split; [exact Hg1|]. split; [exact Hf1 | apply Nat.min_comm].
    - exists f, g, P, Q. split; [reflexivity|]. split; [exact DF|]. split; [exact DG|].
      split; [intros S; reflexivity|]. auto. }
  destruct Hsw as (f' & g' & P' & Q' & Esw & DF' & DG' & Hpq & Hne' & Hf1' & Hg1' & Hmin).
  rewrite Esw. rewrite <- Hmin in Hfuel.
  clear Esw Hmin Hne Hf1 Hg1 DF DG.
  apply (zres_st_ext s _ (pbin op P' Q') _ Hpq). clear Hpq P Q f g.
  pose proof (zo_wf s B) as H.
  destruct (cget c (zop_code op) [f'; g'] []) as [h|] eqn:Ec.
  - destruct (O _ _ _ _ Ec) as [Oe _]. simpl in Oe.
    destruct (Oe op eq_refl) as [P0 [Q0 [D0 [D0' Dh]]]].
    apply zres_st_here; auto.
    apply (zden_ext s h _ _ Dh). apply pbin_ext.
    + apply (zden_unique s f' P0 P' D0 DF').
    + apply (zden_unique s g' Q0 Q' D0' DG').
  - destruct (zget_total s f' (zden_ok _ _ _ DF')) as [vf Evf].
    destruct (zget_total s g' (zden_ok _ _ _ DG')) as [vg Evg].
    rewrite Evf, Evg.
    apply zfin_ok; [exact B| |].
    2:{ intros s' r B' X DR. apply (zop_entry s' op f' g' P' Q' (pbin op P' Q') r); auto.
        - apply (zden_extends s s' f' P' B X DF').
        - apply (zden_extends s s' g' Q' B X DG').
        - apply peq_refl. }
    pose proof (lcmp_cases s f' g' vf vg B Evf Evg) as Hl.
    destruct (lcmp (vlevel vf) (vlevel vg)).
    + destruct Hl as [(idf & ndf & idg & ndg & -> & -> & Enf & Eng & -> & -> & Hlev)|(tf & tg & -> & ->)].
      2:{ exfalso. apply Hne'. f_equal.
          apply (term_val_inj s tf tg 1%N H (Hf1' tf eq_refl) (Hg1' tg eq_refl)). }
      destruct (znode_facts s idf ndf P' B DF' Enf)
        as (Sf & Lf & Rf & fhi & flo & PA & PB & Ecf & DA & DB & LA & LB & HP & SA & SB).
      destruct (znode_facts s idg ndg Q' B DG' Eng)
        as (Sg & Lg & Rg & ghi & glo & QA & QB & Ecg & DA' & DB' & LA' & LB' & HQ & SA' & SB').
      simpl zkids. simpl vlevel. rewrite Ecf, Ecg, Sf. rewrite Rf, Rg in Hfuel.
      rewrite <- Hlev in *.
      pose proof (rlevel_le s H (eref fhi)). pose proof (rlevel_le s H (eref ghi)).
      pose proof (rlevel_le s H (eref flo)). pose proof (rlevel_le s H (eref glo)).
      apply (zres_st_ext s _ (node_pred (nlevel ndf) (pbin op PA QA) (pbin op PB QB))).
      { intros S. rewrite (pbin_node_node op (nlevel ndf) PA PB QA QB SB SB' S).
        symmetry. apply pbin_ext; assumption. }
      apply zjoin_ok; auto.
      * apply (pbin_sup op _ PA QA SA SA').
      * apply (pbin_sup op _ PB QB SB SB').
      * intros x' s' c' B' X' O'.
        apply IH; auto; try (apply (zden_extends s s' _ _ B X'); assumption).
        rewrite (ext_nlevels _ _ X'), (ext_rlevel _ _ _ X' (zden_ok _ _ _ DA)),
          (ext_rlevel _ _ _ X' (zden_ok _ _ _ DA')). lia.
      * intros x' s' c' B' X' O'.
        apply IH; auto; try (apply (zden_extends s s' _ _ B X'); assumption).
        rewrite (ext_nlevels _ _ X'), (ext_rlevel _ _ _ X' (zden_ok _ _ _ DB)),
          (ext_rlevel _ _ _ X' (zden_ok _ _ _ DB')). lia.
    + destruct Hl as (idf & ndf & -> & Enf & -> & Hlt).
      destruct (znode_facts s idf ndf P' B DF' Enf)
        as (Sf & Lf & Rf & fhi & flo & PA & PB & Ecf & DA & DB & LA & LB & HP & SA & SB).
      simpl zkids. simpl vlevel. rewrite Ecf, Sf. rewrite Rf in Hfuel.
      pose proof (rlevel_le s H (eref flo)). pose proof (rlevel_le s H g').
      assert (SQ : sup (nlevel ndf) Q')
        by (intros S HS; apply (zden_below s g' Q' _ S B DG' Hlt HS)).
      pose proof (IH x s c (eref flo) g' PB Q' B O DB DG' ltac:(lia)) as IH1.
      assert (Hp : peq (pbin op P' Q')
                 (match op with
                  | ZUnion | ZDiff => node_pred (nlevel ndf) PA (pbin op PB Q')
                  | ZIntsec => pbin op PB Q'
                  end)).
      { intros S. rewrite <- (pbin_node_below op (nlevel ndf) PA PB Q' SB SQ S).
        apply pbin_ext; [exact HP | intros S'; reflexivity]. }
      apply (zres_st_ext s _ _ _ (fun S => iff_sym (Hp S))).
      destruct op.
      * apply zlo_mk_ok; auto. apply pbin_sup; assumption.
      * exact IH1.
      * apply zlo_mk_ok; auto. apply pbin_sup; assumption.
    + destruct Hl as (idg & ndg & -> & Eng & -> & Hlt).
      destruct (znode_facts s idg ndg Q' B DG' Eng)
        as (Sg & Lg & Rg & ghi & glo & QA & QB & Ecg & DA' & DB' & LA' & LB' & HQ & SA' & SB').
      simpl zkids. simpl vlevel. rewrite Ecg, Sg. rewrite Rg in Hfuel.
      pose proof (rlevel_le s H (eref glo)). pose proof (rlevel_le s H f').
      assert (SP : sup (nlevel ndg) P')
        by (intros S HS; apply (zden_below s f' P' _ S B DF' Hlt HS)).
      pose proof (IH x s c f' (eref glo) P' QB B O DF' DB' ltac:(lia)) as IH1.
      assert (Hp : peq (pbin op P' Q')
                 (match op with
                  | ZUnion => node_pred (nlevel ndg) QA (pbin op P' QB)
                  | ZIntsec | ZDiff => pbin op P' QB
                  end)).
      { intros S. rewrite <- (pbin_below_node op (nlevel ndg) P' QA QB SP SB' S).
        apply pbin_ext; [intros S'; reflexivity | exact HQ]. }
      apply (zres_st_ext s _ _ _ (fun S => iff_sym (Hp S))).
      destruct op.
      * apply zlo_mk_ok; auto. apply pbin_sup; assumption.
      * exact IH1.
      * exact IH1.
Qed.

(** ** Negation *)

Theorem zapply_not_g_ok : forall fuel x s c f P,
  ZbddOK s -> ZChainOK s -> COKB s c -> ZDen s f P -> nlevels s < fuel ->
  zres_st s (zapply_not_g alloc gt C cget cadd fuel x s c f) (pbin ZDiff (pall (nlevels s) 0) P).
Proof.
  intros fuel x s c f P B Hc O D Hf. unfold zapply_not_g.
  destruct (ztaut_total s 0 Hc) as [t Et]. rewrite Et.
  pose proof (ztaut_den s 0 t B Et) as Dt. rewrite Nat.min_0_l in Dt.
  apply zapply_g_ok; auto. lia.
Qed.

(** ** [apply_symm_diff] *)

Lemma zsymm_g_S : forall n x s c f g,
  zsymm_g alloc gt C cget cadd (S n) x s c f g =
    match zempty s with
    | None => None
    | Some empty =>
      if ref_eqb f g then Some (s, c, empty)
      else if ref_eqb f empty then Some (s, c, g)
      else if ref_eqb g empty then Some (s, c, f)
      else
        let '(f, g) := if gt f g then (g, f) else (f, g) in
        match cget c zcode_symm [f; g] [] with
        | Some h => Some (s, c, h)
        | None =>
          match zget s f, zget s g with
          | Some fnode, Some gnode =>
            zfin C cadd
              (match lcmp (vlevel fnode) (vlevel gnode) with
               | Lt =>
                 match zkids fnode, vlevel fnode with
                 | Some (fhi, flo), Some flevel =>
                   zlo_mk alloc C (zsymm_g alloc gt C cget cadd n x s c flo g) flevel fhi
                 | _, _ => None
                 end
               | Eq =>
                 match zkids fnode, zkids gnode, vlevel fnode with
                 | Some (fhi, flo), Some (ghi, glo), Some flevel =>
                   zjoin alloc C x (fun x' s' c' => zsymm_g alloc gt C cget cadd n x' s' c' fhi ghi)
                         (fun x' s' c' => zsymm_g alloc gt C cget cadd n x' s' c' flo glo) s c flevel
                 | _, _, _ => None
                 end
               | Gt =>
                 match zkids gnode, vlevel gnode with
                 | Some (ghi, glo), Some glevel =>
                   zlo_mk alloc C (zsymm_g alloc gt C cget cadd n x s c f glo) glevel ghi
                 | _, _ => None
                 end
               end) zcode_symm [f; g]
          | _, _ => None
          end
        end
    end.
Proof. reflexivity. Qed.

Theorem zsymm_g_ok : forall fuel x s c f g P Q,
  ZbddOK s -> COKB s c -> ZDen s f P -> ZDen s g Q ->
  nlevels s - Nat.min (rlevel s f) (rlevel s g) < fuel ->
  zres_st s (zsymm_g alloc gt C cget cadd fuel x s c f g) (pxor P Q).
Proof.
  induction fuel as [|n IH]; intros x s c f g P Q B O DF DG Hfuel; [lia|].
  rewrite zsymm_g_S.
  destruct (zempty_spec s B) as [te [Ee Et]]. rewrite Ee.
  pose proof (zden_empty s te B Et) as DE.
  pose proof (zo_wf s B) as H.
  destruct (ref_eqb f g) eqn:E1.
  { apply ref_eqb_eq in E1. subst g. apply zres_st_here; auto.
    apply (zden_ext s _ pempty); [exact DE|]. intros S.
    rewrite (pxor_ext P P Q P (peq_refl P) (zden_unique s f Q P DG DF) S). symmetry. apply pxor_same. }
  destruct (ref_eqb f (RT te)) eqn:E2.
  { apply ref_eqb_eq in E2. subst f. apply zres_st_here; auto.
    apply (zden_ext s g Q); [exact DG|]. intros S.
    rewrite (pxor_ext P pempty Q Q (zden_unique s _ P pempty DF DE) (peq_refl Q) S). symmetry. apply pxor_empty_l. }
  destruct (ref_eqb g (RT te)) eqn:E3.
  { apply ref_eqb_eq in E3. subst g. apply zres_st_here; auto.
    apply (zden_ext s f P); [exact DF|]. intros S.
    rewrite (pxor_ext P P Q pempty (peq_refl P) (zden_unique s _ Q pempty DG DE) S). symmetry. apply pxor_empty_r. }
  apply ref_eqb_false in E1. apply ref_eqb_false in E2. apply ref_eqb_false in E3.
  assert (Hf1 : forall t, f = RT t -> term_val s t = Some 1%N)
    by (intros t ->; apply (not_empty_base s te t B Et (zden_ok _ _ _ DF) E2)).
  assert (Hg1 : forall t, g = RT t -> term_val s t = Some 1%N)
    by (intros t ->; apply (not_empty_base s te t B Et (zden_ok _ _ _ DG) E3)).
  assert (Hsw : exists f' g' P' Q',
            (if gt f g then (g, f) else (f, g)) = (f', g') /\
            ZDen s f' P' /\ ZDen s g' Q' /\ peq (pxor P' Q') (pxor P Q) /\ f' <> g' /\
            (forall t, f' = RT t -> term_val s t = Some 1%N) /\
            (forall t, g' = RT t -> term_val s t = Some 1%N) /\
            Nat.min (rlevel s f') (rlevel s g') = Nat.min (rlevel s f) (rlevel s g)).
  { destruct (gt f g).
    - exists g, f, Q, P. split; [reflexivity|]. split; [exact DG|]. split; [exact DF|].
      split; [apply pxor_comm|]. split; [congruence|].
      split; [exact Hg1|]. split; [exact Hf1 | apply Nat.min_comm].
    - exists f, g, P, Q. split; [reflexivity|]. split; [exact DF|]. split; [exact DG|].
      split; [apply peq_refl|]. auto. }
  destruct Hsw as (f' & g' & P' & Q' & Esw & DF' & DG' & Hpq & Hne' & Hf1' & Hg1' & Hmin).
  rewrite Esw. rewrite <- Hmin in Hfuel.
  clear Esw Hmin E1 E2 E3 Hf1 Hg1 DF DG.
  apply (zres_st_ext s _ (pxor P' Q') _ Hpq). clear Hpq P Q f g.
  destruct (cget c zcode_symm [f'; g'] []) as [h|] eqn:Ec.
  - destruct (O _ _ _ _ Ec) as [_ Ox]. simpl in Ox.
    destruct (Ox eq_refl) as (P0 & Q0 & D0 & D0' & Dh).
    apply zres_st_here; auto.
    apply (zden_ext s h _ _ Dh). apply pxor_ext.
    + apply (zden_unique s f' P0 P' D0 DF').
    + apply (zden_unique s g' Q0 Q' D0' DG').
  - destruct (zget_total s f' (zden_ok _ _ _ DF')) as [vf Evf].
    destruct (zget_total s g' (zden_ok _ _ _ DG')) as [vg Evg].
    rewrite Evf, Evg.
    apply zfin_ok; [exact B| |].
    2:{ intros s' r B' X DR. apply (zsymm_entry s' f' g' P' Q' (pxor P' Q') r); auto.
        - apply (zden_extends s s' f' P' B X DF').
        - apply (zden_extends s s' g' Q' B X DG').
        - apply peq_refl. }
    pose proof (lcmp_cases s f' g' vf vg B Evf Evg) as Hl.
    destruct (lcmp (vlevel vf) (vlevel vg)).
    + destruct Hl as [(idf & ndf & idg & ndg & -> & -> & Enf & Eng & -> & -> & Hlev)|(tf & tg & -> & ->)].
      2:{ exfalso. apply Hne'. f_equal.
          apply (term_val_inj s tf tg 1%N H (Hf1' tf eq_refl) (Hg1' tg eq_refl)). }
      destruct (znode_facts s idf ndf P' B DF' Enf)
        as (Sf & Lf & Rf & fhi & flo & PA & PB & Ecf & DA & DB & LA & LB & HP & SA & SB).
      destruct (znode_facts s idg ndg Q' B DG' Eng)
        as (Sg & Lg & Rg & ghi & glo & QA & QB & Ecg & DA' & DB' & LA' & LB' & HQ & SA' & SB').
      simpl zkids. simpl vlevel. rewrite Ecf, Ecg, Sf. rewrite Rf, Rg in Hfuel.
      rewrite <- Hlev in *.
      pose proof (rlevel_le s H (eref fhi)). pose proof (rlevel_le s H (eref ghi)).
      pose proof (rlevel_le s H (eref flo)). pose proof (rlevel_le s H (eref glo)).
      apply (zres_st_ext s _ (node_pred (nlevel ndf) (pxor PA QA) (pxor PB QB))).
      { intros S. rewrite (pxor_node_node (nlevel ndf) PA PB QA QB SB SB' S).
        symmetry. apply pxor_ext; assumption. }
      apply zjoin_ok; auto.
      * apply (pxor_sup _ PA QA SA SA').
      * apply (pxor_sup _ PB QB SB SB').
      * intros x' s' c' B' X' O'.
        apply IH; auto; try (apply (zden_extends s s' _ _ B X'); assumption).
        rewrite (ext_nlevels _ _ X'), (ext_rlevel _ _ _ X' (zden_ok _ _ _ DA)),
          (ext_rlevel _ _ _ X' (zden_ok _ _ _ DA')). lia.
      * intros x' s' c' B' X' O'.
        apply IH; auto; try (apply (zden_extends s s' _ _ B X'); assumption).
        rewrite (ext_nlevels _ _ X'), (ext_rlevel _ _ _ X' (zden_ok _ _ _ DB)),
          (ext_rlevel _ _ _ X' (zden_ok _ _ _ DB')). lia.
    + destruct Hl as (idf & ndf & -> & Enf & -> & Hlt).
      destruct (znode_facts s idf ndf P' B DF' Enf)
        as (Sf & Lf & Rf & fhi & flo & PA & PB & Ecf & DA & DB & LA & LB & HP & SA & SB).
      simpl zkids. simpl vlevel. rewrite Ecf, Sf. rewrite Rf in Hfuel.
      pose proof (rlevel_le s H (eref flo)). pose proof (rlevel_le s H g').
      assert (SQ : sup (nlevel ndf) Q')
        by (intros S HS; apply (zden_below s g' Q' _ S B DG' Hlt HS)).
      pose proof (IH x s c (eref flo) g' PB Q' B O DB DG' ltac:(lia)) as IH1.
      apply (zres_st_ext s _ (node_pred (nlevel ndf) PA (pxor PB Q'))).
      { intros S. rewrite <- (pxor_node_below (nlevel ndf) PA PB Q' SB SQ S).
        apply pxor_ext; [apply peq_sym; exact HP | apply peq_refl]. }
      apply zlo_mk_ok; auto. apply pxor_sup; assumption.
    + destruct Hl as (idg & ndg & -> & Eng & -> & Hlt).
      destruct (znode_facts s idg ndg Q' B DG' Eng)
        as (Sg & Lg & Rg & ghi & glo & QA & QB & Ecg & DA' & DB' & LA' & LB' & HQ & SA' & SB').
      simpl zkids. simpl vlevel. rewrite Ecg, Sg. rewrite Rg in Hfuel.
      pose proof (rlevel_le s H (eref glo)). pose proof (rlevel_le s H f').
      assert (SP : sup (nlevel ndg) P')
        by (intros S HS; apply (zden_below s f' P' _ S B DF' Hlt HS)).
      pose proof (IH x s c f' (eref glo) P' QB B O DF' DB' ltac:(lia)) as IH1.
      apply (zres_st_ext s _ (node_pred (nlevel ndg) QA (pxor P' QB))).
      { intros S. rewrite <- (pxor_below_node (nlevel ndg) P' QA QB SP SB' S).
        apply pxor_ext; [apply peq_refl | apply peq_sym; exact HQ]. }
      apply zlo_mk_ok; auto. apply pxor_sup; assumption.
Qed.

End Gen.

Arguments zres_st {C}.
Arguments zrun_ok {C}.

(** ** The sequential configuration with [fresh_id] is the model of DD/ZbddOps.v / DD/ZbddBool.v *)

Lemma zmk_node_a_fresh : forall s lvl hi lo, zmk_node_a fresh_id s lvl hi lo = zmk_node s lvl hi lo.
Proof. reflexivity. Qed.

Section Seq.
Variable gt : ref -> ref -> bool.
Variable C : Type.
Variable cget : C -> N -> list ref -> list nat -> option ref.
Variable cadd : C -> N -> list ref -> list nat -> ref -> C.

Local Ltac strip_fin :=
  unfold zfin;
  match goal with
  | |- match ?a with _ => _ end = match ?b with _ => _ end =>
    let Hx := fresh "Hx" in assert (Hx : a = b); [|rewrite Hx; reflexivity]
  end.

Lemma zjoin_seq : forall runH runL runH' runL' s c lvl,
  (forall s' c', runH SSeq s' c' = runH' s' c') -> (forall s' c', runL SSeq s' c' = runL' s' c') ->
  zjoin fresh_id C SSeq runH runL s c lvl =
  match runH' s c with
  | None => None
  | Some (s1, c1, hi) =>
    match runL' s1 c1 with
    | None => None
    | Some (s2, c2, lo) => let '(s3, h) := zmk_node s2 lvl hi lo in Some (s3, c2, h)
    end
  end.
Proof.
  intros runH runL runH' runL' s c lvl HH HL. unfold zjoin, fork2. simpl.
  rewrite HH. destruct (runH' s c) as [[[s1 c1] t]|]; [|reflexivity].
  rewrite HL. destruct (runL' s1 c1) as [[[s2 c2] e]|]; reflexivity.
Qed.

Theorem zapply_g_seq : forall fuel s c op f g,
  zapply_g fresh_id gt C cget cadd fuel SSeq s c op f g = zapply gt C cget cadd fuel s c op f g.
Proof.
  induction fuel as [|n IH]; intros s c op f g; [reflexivity|].
  rewrite zapply_g_S, zapply_S.
  destruct (zterminal s op f g); try reflexivity.
  destruct (if zcommutes op && gt f g then (g, f) else (f, g)) as [f' g'].
  destruct (cget c (zop_code op) [f'; g'] []); [reflexivity|].
  destruct (zget s f') as [vf|]; [|reflexivity]. destruct (zget s g') as [vg|]; [|reflexivity].
  cbv zeta. strip_fin.
  destruct (lcmp (vlevel vf) (vlevel vg)).
  - destruct (zkids vf) as [[fhi flo]|]; [|reflexivity].
    destruct (zkids vg) as [[ghi glo]|]; [|reflexivity].
    destruct (vlevel vf) as [fl|]; [|reflexivity].
    apply (zjoin_seq _ _ (fun s' c' => zapply gt C cget cadd n s' c' op fhi ghi)
                         (fun s' c' => zapply gt C cget cadd n s' c' op flo glo)); intros; apply IH.
  - destruct (zkids vf) as [[fhi flo]|]; [|reflexivity].
    destruct (vlevel vf) as [fl|]; [|reflexivity].
    unfold zlo_mk. rewrite IH. destruct op; reflexivity.
  - destruct (zkids vg) as [[ghi glo]|]; [|reflexivity].
    destruct (vlevel vg) as [gl|]; [|reflexivity].
    unfold zlo_mk. rewrite IH. destruct op; reflexivity.
Qed.

Theorem zapply_not_g_seq : forall fuel s c f,
  zapply_not_g fresh_id gt C cget cadd fuel SSeq s c f = zapply_not gt C cget cadd fuel s c f.
Proof.
  intros fuel s c f. unfold zapply_not_g, zapply_not. destruct (ztaut s 0); [apply zapply_g_seq | reflexivity].
Qed.

Theorem zsymm_g_seq : forall fuel s c f g,
  zsymm_g fresh_id gt C cget cadd fuel SSeq s c f g = zsymm gt C cget cadd fuel s c f g.
Proof.
  induction fuel as [|n IH]; intros s c f g; [reflexivity|].
  rewrite zsymm_g_S, zsymm_S.
  destruct (zempty s) as [empty|]; [|reflexivity].
  destruct (ref_eqb f g); [reflexivity|]. destruct (ref_eqb f empty); [reflexivity|].
  destruct (ref_eqb g empty); [reflexivity|].
  destruct (if gt f g then (g, f) else (f, g)) as [f' g'].
  destruct (cget c zcode_symm [f'; g'] []); [reflexivity|].
  destruct (zget s f') as [vf|]; [|reflexivity]. destruct (zget s g') as [vg|]; [|reflexivity].
  cbv zeta. strip_fin.
  destruct (lcmp (vlevel vf) (vlevel vg)).
  - destruct (zkids vf) as [[fhi flo]|]; [|reflexivity].
    destruct (zkids vg) as [[ghi glo]|]; [|reflexivity].
    destruct (vlevel vf) as [fl|]; [|reflexivity].
    apply (zjoin_seq _ _ (fun s' c' => zsymm gt C cget cadd n s' c' fhi ghi)
                         (fun s' c' => zsymm gt C cget cadd n s' c' flo glo)); intros; apply IH.
  - destruct (zkids vf) as [[fhi flo]|]; [|reflexivity].
    destruct (vlevel vf) as [fl|]; [|reflexivity].
    unfold zlo_mk. rewrite IH. reflexivity.
  - destruct (zkids vg) as [[ghi glo]|]; [|reflexivity].
    destruct (vlevel vg) as [gl|]; [|reflexivity].
    unfold zlo_mk. rewrite IH. reflexivity.
Qed.

End Seq.
