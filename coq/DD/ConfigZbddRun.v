(** * C20x: whole API-call histories of a ZBDD manager (Boolean interface) under two arbitrary configurations

    The ZBDD counterpart of DD/ConfigRun.v, for [zmstep] / [zrun_ops] of
    DD/ConfigZbdd.v:

    - [zdc_wrap_a_ok], [zvar_a_ok], [znot_var_g_ok]: [var_edge] / [not_var_edge]
      on an arbitrary node store;
    - [zsim s1 s2]: both tables are well-formed ZBDD tables with their tautology
      chain, the same variable order, the same handle slots, and the two
      references of every slot denote the same family;
    - [zmstep_sim] / [zrun_ops_sim]: every API call and every history preserves
      [zsim], whatever the two configurations are; the two runs fail together;
    - [zsim_observe]: under [zsim] the observables agree (slots, Boolean view
      of every handle under every choice, node count, variable order), both
      tables satisfy [wf_b];
    - [zrun_ops_cache_exact]: configurations that differ in the apply cache and
      the operand order only end with the identical table. *)

From Coq Require Import List NArith PArith Bool Arith Lia FMapPositive.
From OxiVerif Require Import DD.Table DD.TableExtra DD.TableProofs DD.Sem DD.Build DD.BuildProofs DD.PickInsert
  DD.Apply DD.ApplyProofs DD.CanonZbdd DD.FamSpec DD.FamSpecProofs DD.ZbddOps DD.ZbddOpsProofs
  DD.ZbddSubsetProofs DD.ZbddSoundProofs DD.ZbddVars DD.ZbddVarsProofs DD.ZbddBool DD.ZbddBoolProofs
  DD.ZbddXorProofs DD.ZbddIteProofs DD.ZbddEvalProofs DD.Iso
  DD.ConfigApply DD.ConfigProofs DD.ConfigInsert DD.ConfigZbdd DD.ConfigZbddProofs DD.ConfigZbddIte
  DD.ConfigZbddCache DD.ConfigZbddCacheIte DD.ConfigZbddIndep.
Import ListNotations.

(** ** Variables on an arbitrary node store *)

Section Alloc.
Variable alloc : snap -> positive.
Hypothesis Halloc : alloc_ok alloc.

Lemma zdc_wrap_a_ok : forall cnt lvl s e (R : fpred) s' r,
  ZbddOK s -> lvl + cnt <= nlevels s ->
  ZDen s e (fun S => R S /\ incr_from (lvl + cnt) S) ->
  (exists S, R S /\ incr_from (lvl + cnt) S) ->
  (forall S, R S -> incr_from lvl S) ->
  (forall l T, lvl <= l < lvl + cnt -> incr_from (Datatypes.S l) T -> (R (l :: T) <-> R T)) ->
  zdc_wrap_a alloc lvl cnt s e = (s', r) ->
  ZbddOK s' /\ extends s s' /\ ZDen s' r R.
Proof.
  induction cnt as [|k IH]; intros lvl s e R s' r B Hn De Hex Hi Hopt Ew.
  - simpl in Ew. inversion Ew; subst s' r. split; [exact B|]. split; [apply extends_refl|].
    apply (zden_ext s e _ _ De). intros S. rewrite Nat.add_0_r. split; [intros [A _]; exact A|].
    intros A. split; [exact A | apply Hi; exact A].
  - simpl in Ew. set (L := lvl + k) in *.
    replace (lvl + S k) with (S L) in * by (unfold L; lia).
    destruct Hex as [S0 [HS0 HI0]].
    assert (Hne : is_empty_b s e = false) by (apply (nonempty_not_empty s e _ S0 B De); auto).
    assert (Hlev : L < rlevel s e).
    { apply (zden_level s e _ (S L) B De); [lia|]. intros S [_ HS]. exact HS. }
    destruct (get_or_insert_a alloc s L [E e; E e]) as [s1 e1] eqn:Eg.
    assert (Em : zmk_node_a alloc s L e e = (s1, eref e1)) by (unfold zmk_node_a; rewrite Hne, Eg; reflexivity).
    destruct (zmk_node_a_ok alloc Halloc s L e e _ _ s1 (eref e1) B ltac:(lia) De De Hlev Hlev Em) as (B1 & X1 & D1 & _).
    assert (Hq : peq (node_pred L (fun Z => R Z /\ incr_from (S L) Z) (fun Z => R Z /\ incr_from (S L) Z))
                     (fun S => R S /\ incr_from L S)).
    { intros S. unfold node_pred. split.
      - intros [[T [-> [HT HI]]]|[HS HI]].
        + split; [apply (Hopt L T); [unfold L; lia | exact HI | exact HT] | simpl; split; [lia | exact HI]].
        + split; [exact HS | apply (incr_from_weaken S (Datatypes.S L)); [lia | exact HI]].
      - intros [HS HI]. destruct S as [|x T]; [right; split; [exact HS | exact I]|].
        simpl in HI. destruct HI as [Hx HT]. destruct (Nat.eq_dec x L) as [->|Hne'].
        + left. exists T. split; [reflexivity|]. split; [|exact HT].
          apply (Hopt L T); [unfold L; lia | exact HT | exact HS].
        + right. split; [exact HS|]. simpl. split; [lia | exact HT]. }
    pose proof (zden_ext s1 _ _ _ D1 Hq) as D1'.
    destruct (IH lvl s1 (eref e1) R s' r B1) as (B' & X' & D'); auto.
    + rewrite (ext_nlevels _ _ X1). unfold L in *. lia.
    + exists S0. split; [exact HS0|]. apply (incr_from_weaken S0 (Datatypes.S L)); [unfold L; lia | exact HI0].
    + intros l T Hl HT. apply Hopt; [lia | exact HT].
    + split; [exact B'|]. split; [apply (extends_trans _ _ _ X1 X')|exact D'].
Qed.

Theorem zvar_a_ok : forall s var L, ZbddOK s -> ZChainOK s -> nth_error (s_v2l s) var = Some L ->
  exists s' r, zvar_a alloc s var = Some (s', r) /\
    ZbddOK s' /\ extends s s' /\ ZDen s' r (pvar (nlevels s) L).
Proof.
  intros s var L B Hc Ev. pose proof (zo_wf s B) as H.
  pose proof (v2l_range s var L H Ev) as HL. set (n := nlevels s) in *.
  destruct (zempty_spec s B) as [te [Ee Ete]].
  destruct (ztaut_total s (S L) Hc) as [hi Ehi].
  pose proof (ztaut_den s (S L) hi B Ehi) as Dhi. fold n in Dhi. rewrite Nat.min_l in Dhi by lia.
  pose proof (zden_empty s te B Ete) as Dlo.
  unfold zvar_a. rewrite Ev, Ee, Ehi.
  assert (Hne : is_empty_b s hi = false).
  { apply (nonempty_not_empty s hi _ [] B Dhi). split; [exact I | constructor]. }
  destruct (get_or_insert_a alloc s L [E hi; E (RT te)]) as [s1 e1] eqn:Eg.
  assert (Em : zmk_node_a alloc s L hi (RT te) = (s1, eref e1)) by (unfold zmk_node_a; rewrite Hne, Eg; reflexivity).
  assert (Lh : L < rlevel s hi).
  { apply (zden_level s hi _ (S L) B Dhi); [fold n; lia|]. intros S [Hi _]. exact Hi. }
  destruct (zmk_node_a_ok alloc Halloc s L hi (RT te) _ _ s1 (eref e1) B HL Dhi Dlo Lh ltac:(simpl; exact HL) Em)
    as (B1 & X1 & D1 & _).
  destruct (zdc_wrap_a alloc 0 L s1 (eref e1)) as [s' r] eqn:Ew.
  assert (Hq : peq (node_pred L (pall n (S L)) pempty) (fun S => pvar n L S /\ incr_from (0 + L) S)).
  { intros S. unfold node_pred, pempty, pvar. simpl plus. split.
    - intros [[T [-> HT]]|[]]. split; [split|].
      + apply (pall_weaken n L 0); [lia|]. apply (pall_cons n L T HL). exact HT.
      + left. reflexivity.
      + simpl. split; [lia | apply HT].
    - intros [[Hp Hin] Hi]. left. destruct S as [|x T]; [destruct Hin|].
      simpl in Hi. destruct Hi as [Hx HT].
      assert (x = L).
      { destruct Hin as [->|Hin]; [reflexivity|]. pose proof (incr_from_ge T (Datatypes.S x) L HT Hin). lia. }
      subst x. exists T. split; [reflexivity|]. split; [exact HT|].
      destruct Hp as [_ Hb]. inversion Hb; assumption. }
  destruct (zdc_wrap_a_ok L 0 s1 (eref e1) (pvar n L) s' r B1) as (B' & X' & D'); auto.
  - rewrite (ext_nlevels _ _ X1). fold n. simpl. lia.
  - apply (zden_ext s1 _ _ _ D1 Hq).
  - exists [L]. split; [split|].
    + split; [simpl; split; [lia | exact I] | constructor; [exact HL | constructor]].
    + left. reflexivity.
    + simpl. split; [lia | exact I].
  - intros S [[Hi _] _]. exact Hi.
  - intros l T Hl HT. unfold pvar, pall. simpl. split.
    + intros [[[_ Hi] Hb] Hin]. inversion Hb; subst. split; [split; [|assumption]|].
      * apply (incr_from_weaken T (Datatypes.S l)); [lia | exact Hi].
      * destruct Hin as [->|Hin]; [lia | exact Hin].
    + intros [[Hi Hb] Hin]. split; [split|].
      * split; [lia | exact HT].
      * constructor; [fold n; lia | exact Hb].
      * right. exact Hin.
  - exists s', r. split; [reflexivity|]. split; [exact B'|].
    split; [apply (extends_trans _ _ _ X1 X') | exact D'].
Qed.

Lemma zvar_a_none : forall s var, nth_error (s_v2l s) var = None -> zvar_a alloc s var = None.
Proof. intros s var E. unfold zvar_a. rewrite E. reflexivity. Qed.

Section NotVar.
Variable gt : ref -> ref -> bool.
Variable C : Type.
Variable cget : C -> N -> list ref -> list nat -> option ref.
Variable cadd : C -> N -> list ref -> list nat -> ref -> C.
Hypothesis Hlossy : zlossy C cget cadd.

Theorem znot_var_g_ok : forall fuel x s c var L, ZbddOK s -> ZChainOK s -> ZCacheOKB C cget s c ->
  nth_error (s_v2l s) var = Some L -> nlevels s < fuel ->
  zresult_okB C cget s (znot_var_g alloc gt C cget cadd fuel x s c var)
    (pbin ZDiff (pall (nlevels s) 0) (pvar (nlevels s) L)).
Proof.
  intros fuel x s c var L B Hc O Ev Hf.
  destruct (zvar_a_ok s var L B Hc Ev) as (s1 & e & Ez & B1 & X1 & D1).
  unfold znot_var_g. rewrite Ez.
  pose proof (ext_nlevels _ _ X1) as Hn.
  destruct (zapply_not_g_ok alloc Halloc gt C cget cadd Hlossy fuel x s1 c e _ B1 (zchain_extends s s1 B B1 X1 Hc)
              (zcacheokb_extends C cget s s1 c B X1 O) D1 ltac:(lia))
    as (s2 & c2 & r2 & E2 & B2 & X2 & O2 & D2 & _).
  exists s2, c2, r2. split; [exact E2|]. split; [exact B2|].
  split; [apply (extends_trans _ _ _ X1 X2)|]. split; [exact O2|]. rewrite Hn in D2. exact D2.
Qed.

Lemma znot_var_g_none : forall fuel x s c var, nth_error (s_v2l s) var = None ->
  znot_var_g alloc gt C cget cadd fuel x s c var = None.
Proof. intros fuel x s c var E. unfold znot_var_g. rewrite (zvar_a_none s var E). reflexivity. Qed.

End NotVar.
End Alloc.

(** the instance [fresh_id] is the model of DD/ZbddBool.v *)
Lemma zdc_wrap_a_fresh : forall cnt lvl s e, zdc_wrap_a fresh_id lvl cnt s e = zdc_wrap lvl cnt s e.
Proof.
  induction cnt as [|k IH]; intros lvl s e; [reflexivity|]. simpl.
  change (get_or_insert_a fresh_id s (lvl + k) [E e; E e]) with (get_or_insert s (lvl + k) [E e; E e]).
  destruct (get_or_insert s (lvl + k) [E e; E e]) as [s1 e1]. apply IH.
Qed.

Lemma zvar_a_fresh : forall s var, zvar_a fresh_id s var = zvar s var.
Proof.
  intros s var. unfold zvar_a, zvar.
  destruct (nth_error (s_v2l s) var) as [level|]; [|reflexivity].
  destruct (zempty s) as [lo|]; [|reflexivity]. destruct (ztaut s (S level)) as [hi|]; [|reflexivity].
  change (get_or_insert_a fresh_id s level [E hi; E lo]) with (get_or_insert s level [E hi; E lo]).
  destruct (get_or_insert s level [E hi; E lo]) as [s1 e]. rewrite zdc_wrap_a_fresh. reflexivity.
Qed.

Lemma znot_var_g_seq : forall gt C cget cadd fuel s (c : C) var,
  znot_var_g fresh_id gt C cget cadd fuel SSeq s c var = znot_var gt C cget cadd fuel s c var.
Proof.
  intros gt C cget cadd fuel s c var. unfold znot_var_g, znot_var. rewrite zvar_a_fresh.
  destruct (zvar s var) as [[s1 e]|]; [apply zapply_not_g_seq | reflexivity].
Qed.


(** ** Changing the handle list *)

Lemma famz_set_handles : forall s hs f r, famz (set_handles s hs) f r = famz s f r.
Proof.
  intros s hs. induction f as [|f IH]; intros r.
  - destruct r as [t|id]; [rewrite !famz_T; reflexivity | reflexivity].
  - destruct r as [t|id]; [rewrite !famz_T; reflexivity|].
    rewrite !famz_S. change (find_node (set_handles s hs) id) with (find_node s id).
    destruct (find_node s id) as [nd|]; [|reflexivity].
    destruct (nchildren nd) as [|hi [|lo [|x rest]]]; try reflexivity.
    rewrite !IH. reflexivity.
Qed.

Lemma zden_set_handles : forall s hs r P, ZDen s r P <-> ZDen (set_handles s hs) r P.
Proof.
  intros s hs r P. unfold ZDen, fam_of. change (nlevels (set_handles s hs)) with (nlevels s).
  rewrite famz_set_handles. reflexivity.
Qed.

Lemma zbddok_set_handles : forall s hs, ZbddOK s ->
  (forall h, In h hs -> ref_ok s (eref (snd h)) /\ etag (snd h) = false) -> ZbddOK (set_handles s hs).
Proof.
  intros s hs B Hh. constructor.
  - apply wf_set_handles; [apply (zo_wf s B)|]. intros h Hin. destruct (Hh h Hin) as [A T]. auto.
  - exact (zo_kind s B).
  - exact (zo_codes s B).
  - exact (zo_empty s B).
  - exact (zo_base s B).
Qed.

Lemma ztaut_up_set_handles : forall s hs k, ztaut_up (set_handles s hs) k = ztaut_up s k.
Proof.
  intros s hs. induction k as [|k IH]; [reflexivity|]. simpl. rewrite IH. reflexivity.
Qed.

Lemma zchain_set_handles : forall s hs, ZChainOK s -> ZChainOK (set_handles s hs).
Proof.
  intros s hs Hc. unfold ZChainOK, zchain_ok_b, ztaut in *.
  change (nlevels (set_handles s hs)) with (nlevels s). rewrite ztaut_up_set_handles. exact Hc.
Qed.

Lemma zcube_set_handles : forall s hs M lvl vars, ZCube s M lvl vars -> ZCube (set_handles s hs) M lvl vars.
Proof.
  intros s hs M lvl vars Hc. induction Hc.
  - apply ZC_term; assumption.
  - eapply ZC_dc; eauto.
  - eapply ZC_pos; eauto.
Qed.

Lemma zcacheokb_set_handles : forall C (cget : C -> N -> list ref -> list nat -> option ref) s hs c,
  ZCacheOKB C cget s c -> ZCacheOKB C cget (set_handles s hs) c.
Proof.
  intros C cget s hs c O code args nums r E. destruct (O _ _ _ _ E) as [A A']. split.
  - unfold zentry_ok in *. destruct args as [|f [|g [|x rest]]]; auto.
    + destruct nums as [|var [|y rest]]; auto.
      intros o Hc. destruct (A o Hc) as [P [vl [Ev [D1 D2]]]]. exists P, vl.
      split; [exact Ev|]. split; apply zden_set_handles; assumption.
    + destruct nums as [|var rest]; auto.
      intros o Hc. destruct (A o Hc) as [P [Q [D1 [D2 D3]]]]. exists P, Q.
      split; [|split]; apply zden_set_handles; assumption.
  - unfold zentry_x in *. destruct args as [|f [|g [|h [|x rest]]]]; auto; destruct nums as [|v [|w rest']]; auto.
    + intros Hc. destruct (A' Hc) as (P & Q & DF & DG & DR). exists P, Q.
      split; [|split]; apply zden_set_handles; assumption.
    + intros Hc Hv. destruct (A' Hc Hv) as (P & id & nd & M & DF & -> & En & Hcu & DR).
      exists P, id, nd, M. split; [apply zden_set_handles; exact DF|]. split; [reflexivity|].
      split; [exact En|]. split; [apply zcube_set_handles; exact Hcu|].
      apply zden_set_handles. exact DR.
    + intros Hc. destruct (A' Hc) as (P & Q & R & DF & DG & DH & DR). exists P, Q, R.
      split; [|split; [|split]]; apply zden_set_handles; assumption.
Qed.

Lemma z_handle_ok : forall s h, ZbddOK s -> In h (s_handles s) ->
  ref_ok s (eref (snd h)) /\ etag (snd h) = false.
Proof.
  intros s h B Hin. destruct (wf_handles s (zo_wf s B) h Hin) as [A T].
  split; [exact A|]. apply T. rewrite (zo_kind s B). discriminate.
Qed.

Lemma zbddok_put : forall s d r, ZbddOK s -> ref_ok s r -> ZbddOK (put s d r).
Proof.
  intros s d r B Hr. apply zbddok_set_handles; [exact B|].
  intros h [<-|Hin]; [simpl; auto|]. apply (z_handle_ok s h B). eapply hdel_In_x; eauto.
Qed.

Lemma zbddok_drop : forall s d, ZbddOK s -> ZbddOK (set_handles s (hdel (s_handles s) d)).
Proof.
  intros s d B. apply zbddok_set_handles; [exact B|].
  intros h Hin. apply (z_handle_ok s h B). eapply hdel_In_x; eauto.
Qed.

(** ** The simulation relation *)

Definition zhrel (s1 s2 : snap) (h1 h2 : N * edge) : Prop :=
  fst h1 = fst h2 /\ etag (snd h1) = false /\ etag (snd h2) = false /\
  exists P, ZDen s1 (eref (snd h1)) P /\ ZDen s2 (eref (snd h2)) P.

Record zsim (s1 s2 : snap) : Prop := mkZSim {
  zsim_b1 : ZbddOK s1;
  zsim_b2 : ZbddOK s2;
  zsim_c1 : ZChainOK s1;
  zsim_c2 : ZChainOK s2;
  zsim_v2l : s_v2l s1 = s_v2l s2;
  zsim_l2v : s_l2v s1 = s_l2v s2;
  zsim_h : Forall2 (zhrel s1 s2) (s_handles s1) (s_handles s2)
}.

Lemma zsim_nlevels : forall s1 s2, zsim s1 s2 -> nlevels s1 = nlevels s2.
Proof. intros s1 s2 S. unfold nlevels. rewrite (zsim_l2v _ _ S). reflexivity. Qed.

Definition zden_mono (s s' : snap) : Prop := forall r P, ZDen s r P -> ZDen s' r P.

Lemma zden_mono_put : forall s s' d r, ZbddOK s -> extends s s' -> zden_mono s (put s' d r).
Proof. intros s s' d r B X q P D. apply zden_set_handles. apply (zden_extends s s' _ _ B X D). Qed.

Lemma zhget_rel : forall s1 s2 hs1 hs2 k, Forall2 (zhrel s1 s2) hs1 hs2 ->
  match hget hs1 k, hget hs2 k with
  | Some e1, Some e2 => exists P, ZDen s1 (eref e1) P /\ ZDen s2 (eref e2) P
  | None, None => True
  | _, _ => False
  end.
Proof.
  intros s1 s2 hs1 hs2 k HF. induction HF as [|[a x] [b y] r1 r2 Hh Hr IH]; simpl; [exact I|].
  destruct Hh as [A [_ [_ Hd]]]. simpl in A. subst b.
  destruct (N.eqb a k); [exact Hd | exact IH].
Qed.

Lemma zhdel_rel : forall s1 s2 hs1 hs2 k, Forall2 (zhrel s1 s2) hs1 hs2 ->
  Forall2 (zhrel s1 s2) (hdel hs1 k) (hdel hs2 k).
Proof.
  intros s1 s2 hs1 hs2 k HF. induction HF as [|x y r1 r2 Hh Hr IH]; simpl; [constructor|].
  pose proof Hh as [A _]. rewrite <- A.
  destruct (negb (N.eqb (fst x) k)); [constructor; assumption | exact IH].
Qed.

Lemma forall2_zhrel_mono : forall s1 s2 s1' s2' hs1 hs2, zden_mono s1 s1' -> zden_mono s2 s2' ->
  Forall2 (zhrel s1 s2) hs1 hs2 -> Forall2 (zhrel s1' s2') hs1 hs2.
Proof.
  intros s1 s2 s1' s2' hs1 hs2 M1 M2 HF.
  induction HF as [|x y r1 r2 [A [T1 [T2 [P [D1 D2]]]]] Hr IH]; constructor; [|exact IH].
  split; [exact A|]. split; [exact T1|]. split; [exact T2|]. exists P. auto.
Qed.

Lemma zput_sim : forall s1 s2 s1' s2' d r1 r2 P,
  zsim s1 s2 -> ZbddOK s1' -> ZbddOK s2' -> extends s1 s1' -> extends s2 s2' ->
  ZDen s1' r1 P -> ZDen s2' r2 P ->
  zsim (put s1' d r1) (put s2' d r2).
Proof.
  intros s1 s2 s1' s2' d r1 r2 P S B1' B2' X1 X2 D1 D2.
  pose proof (zden_mono_put s1 s1' d r1 (zsim_b1 _ _ S) X1) as M1.
  pose proof (zden_mono_put s2 s2' d r2 (zsim_b2 _ _ S) X2) as M2.
  constructor.
  - apply zbddok_put; [exact B1' | apply (zden_ok _ _ _ D1)].
  - apply zbddok_put; [exact B2' | apply (zden_ok _ _ _ D2)].
  - apply zchain_set_handles. apply (zchain_extends s1 s1' (zsim_b1 _ _ S) B1' X1 (zsim_c1 _ _ S)).
  - apply zchain_set_handles. apply (zchain_extends s2 s2' (zsim_b2 _ _ S) B2' X2 (zsim_c2 _ _ S)).
  - simpl. rewrite (ext_v2l _ _ X1), (ext_v2l _ _ X2). apply (zsim_v2l _ _ S).
  - simpl. rewrite (ext_l2v _ _ X1), (ext_l2v _ _ X2). apply (zsim_l2v _ _ S).
  - simpl. unfold hset. constructor.
    + split; [reflexivity|]. split; [reflexivity|]. split; [reflexivity|]. exists P. simpl.
      split; apply zden_set_handles; assumption.
    + rewrite (ext_handles _ _ X1), (ext_handles _ _ X2).
      apply zhdel_rel. apply (forall2_zhrel_mono s1 s2 _ _ _ _ M1 M2). apply (zsim_h _ _ S).
Qed.

Lemma zdrop_sim : forall s1 s2 d, zsim s1 s2 ->
  zsim (set_handles s1 (hdel (s_handles s1) d)) (set_handles s2 (hdel (s_handles s2) d)).
Proof.
  intros s1 s2 d S. constructor.
  - apply zbddok_drop. apply (zsim_b1 _ _ S).
  - apply zbddok_drop. apply (zsim_b2 _ _ S).
  - apply zchain_set_handles. apply (zsim_c1 _ _ S).
  - apply zchain_set_handles. apply (zsim_c2 _ _ S).
  - apply (zsim_v2l _ _ S).
  - apply (zsim_l2v _ _ S).
  - simpl. apply zhdel_rel.
    apply (forall2_zhrel_mono s1 s2 _ _ _ _
             (fun r P D => proj1 (zden_set_handles s1 _ r P) D) (fun r P D => proj1 (zden_set_handles s2 _ r P) D)).
    apply (zsim_h _ _ S).
Qed.

(** ** Observables *)

Theorem zsim_observe : forall s1 s2, zsim s1 s2 ->
  forall c, choice_ok s1 c -> observe s1 c = observe s2 c.
Proof.
  intros s1 s2 S c Hc. unfold observe. f_equal; [|apply (zsim_v2l _ _ S)].
  pose proof (zsim_b1 _ _ S) as B1. pose proof (zsim_b2 _ _ S) as B2.
  assert (Hc2 : choice_ok s2 c) by (unfold choice_ok in *; rewrite (zo_kind s2 B2); rewrite (zo_kind s1 B1) in Hc; exact Hc).
  pose proof (zsim_h _ _ S) as HF.
  induction HF as [|h1 h2 r1 r2 Hh Hr IH]; [reflexivity|]. simpl. f_equal; [|exact IH].
  destruct Hh as [A [T1 [T2 [P [D1 D2]]]]]. unfold obs_handle.
  rewrite A. f_equal; [f_equal|].
  - unfold sem_edge. rewrite (zo_kind s1 B1), (zo_kind s2 B2).
    destruct (zden_view s1 _ P c B1 D1 Hc) as [b1 [V1 H1]]. destruct (zden_view s2 _ P c B2 D2 Hc2) as [b2 [V2 H2]].
    unfold zview_of in V1, V2. rewrite V1, V2. simpl. rewrite (zsim_nlevels _ _ S) in H1.
    rewrite (bool_iff_eq b1 b2 _ H1 H2). reflexivity.
  - assert (E1 : snd h1 = E (eref (snd h1))) by (apply edge_ext; [reflexivity | exact T1]).
    assert (E2 : snd h2 = E (eref (snd h2))) by (apply edge_ext; [reflexivity | exact T2]).
    rewrite E1, E2.
    apply (count_reach_zden s1 s2 B1 B2 (zsim_nlevels _ _ S) _ _ P D1 D2).
Qed.

Theorem zsim_wf_b : forall s1 s2, zsim s1 s2 -> wf_b s1 = true /\ wf_b s2 = true.
Proof.
  intros s1 s2 S. split; apply wf_b_spec; [apply (zo_wf _ (zsim_b1 _ _ S)) | apply (zo_wf _ (zsim_b2 _ _ S))].
Qed.

(** ** Two configurations *)

Section TwoConfigs.
Variable alloc1 : snap -> positive.
Hypothesis Halloc1 : alloc_ok alloc1.
Variable gt1 : ref -> ref -> bool.
Variable C1 : Type.
Variable cget1 : C1 -> N -> list ref -> list nat -> option ref.
Variable cadd1 : C1 -> N -> list ref -> list nat -> ref -> C1.
Hypothesis L1 : zlossy C1 cget1 cadd1.
Variable sch1 : nat -> sched.
Variable alloc2 : snap -> positive.
Hypothesis Halloc2 : alloc_ok alloc2.
Variable gt2 : ref -> ref -> bool.
Variable C2 : Type.
Variable cget2 : C2 -> N -> list ref -> list nat -> option ref.
Variable cadd2 : C2 -> N -> list ref -> list nat -> ref -> C2.
Hypothesis L2 : zlossy C2 cget2 cadd2.
Variable sch2 : nat -> sched.

Notation step1 := (zmstep alloc1 gt1 C1 cget1 cadd1 sch1).
Notation step2 := (zmstep alloc2 gt2 C2 cget2 cadd2 sch2).

Definition zmsim (st1 : zmstate C1) (st2 : zmstate C2) : Prop :=
  zsim (zm_snap C1 st1) (zm_snap C2 st2) /\
  ZCacheOKB C1 cget1 (zm_snap C1 st1) (zm_cache C1 st1) /\
  ZCacheOKB C2 cget2 (zm_snap C2 st2) (zm_cache C2 st2).

Definition ozmsim (o1 : option (zmstate C1)) (o2 : option (zmstate C2)) : Prop :=
  match o1, o2 with
  | Some a, Some b => zmsim a b
  | None, None => True
  | _, _ => False
  end.

Lemma zresult_sim : forall s1 s2 res1 res2 R d k1 k2,
  zsim s1 s2 ->
  zresult_okB C1 cget1 s1 res1 R -> zresult_okB C2 cget2 s2 res2 R ->
  ozmsim (match res1 with Some (s', c', r) => Some (mkZM C1 (put s' d r) c' k1) | None => None end)
         (match res2 with Some (s', c', r) => Some (mkZM C2 (put s' d r) c' k2) | None => None end).
Proof.
  intros s1 s2 res1 res2 R d k1 k2 S
         (sa & ca & ra & Ea & Ba & Xa & Oa & Da) (sb & cb & rb & Eb & Bb & Xb & Ob & Db).
  subst res1 res2. simpl. split; [|split].
  - apply (zput_sim s1 s2 sa sb d ra rb R S Ba Bb Xa Xb Da Db).
  - apply zcacheokb_set_handles. exact Oa.
  - apply zcacheokb_set_handles. exact Ob.
Qed.

Theorem zmstep_sim : forall st1 st2 o, zmsim st1 st2 -> ozmsim (step1 st1 o) (step2 st2 o).
Proof.
  intros [s1 c1 k1] [s2 c2 k2] o [HS [O1 O2]]. simpl in HS, O1, O2.
  pose proof (zsim_b1 _ _ HS) as B1. pose proof (zsim_b2 _ _ HS) as B2.
  pose proof (zsim_c1 _ _ HS) as Hc1. pose proof (zsim_c2 _ _ HS) as Hc2.
  pose proof (zsim_nlevels _ _ HS) as Hn.
  destruct o as [d b|d v neg|d a|d op a b|d a b e|d a|d]; unfold zmstep; cbn [zm_snap zm_cache zm_step].
  - (* const *)
    destruct (zconst_ok s1 b B1 Hc1) as [r1 [E1 D1]]. destruct (zconst_ok s2 b B2 Hc2) as [r2 [E2 D2]].
    rewrite E1, E2. simpl. rewrite <- Hn in D2. split; [|split].
    + apply (zput_sim s1 s2 s1 s2 d _ _ _ HS B1 B2 (extends_refl _) (extends_refl _) D1 D2).
    + apply zcacheokb_set_handles. exact O1.
    + apply zcacheokb_set_handles. exact O2.
  - (* var / not_var *)
    destruct (nth_error (s_v2l s1) v) as [L|] eqn:Ev.
    + assert (Ev2 : nth_error (s_v2l s2) v = Some L) by (rewrite <- (zsim_v2l _ _ HS); exact Ev).
      destruct neg.
      * apply (zresult_sim s1 s2 _ _ (pbin ZDiff (pall (nlevels s1) 0) (pvar (nlevels s1) L)) d
                 (Datatypes.S k1) (Datatypes.S k2) HS).
        -- apply (znot_var_g_ok alloc1 Halloc1 gt1 C1 cget1 cadd1 L1); auto.
        -- rewrite Hn. apply (znot_var_g_ok alloc2 Halloc2 gt2 C2 cget2 cadd2 L2); auto.
      * destruct (zvar_a_ok alloc1 Halloc1 s1 v L B1 Hc1 Ev) as (sa & ra & Ea & Ba & Xa & Da).
        destruct (zvar_a_ok alloc2 Halloc2 s2 v L B2 Hc2 Ev2) as (sb & rb & Eb & Bb & Xb & Db).
        rewrite Ea, Eb. simpl. rewrite <- Hn in Db. split; [|split].
        -- apply (zput_sim s1 s2 sa sb d ra rb _ HS Ba Bb Xa Xb Da Db).
        -- apply zcacheokb_set_handles. apply (zcacheokb_extends C1 cget1 s1 sa c1 B1 Xa O1).
        -- apply zcacheokb_set_handles. apply (zcacheokb_extends C2 cget2 s2 sb c2 B2 Xb O2).
    + assert (Ev2 : nth_error (s_v2l s2) v = None) by (rewrite <- (zsim_v2l _ _ HS); exact Ev).
      destruct neg.
      * rewrite (znot_var_g_none alloc1 gt1 C1 cget1 cadd1 _ _ s1 c1 v Ev),
                (znot_var_g_none alloc2 gt2 C2 cget2 cadd2 _ _ s2 c2 v Ev2). exact I.
      * rewrite (zvar_a_none alloc1 s1 v Ev), (zvar_a_none alloc2 s2 v Ev2). exact I.
  - (* not *)
    pose proof (zhget_rel s1 s2 _ _ a (zsim_h _ _ HS)) as Ha.
    destruct (hget (s_handles s1) a) as [ea1|], (hget (s_handles s2) a) as [ea2|]; try contradiction; [|exact I].
    destruct Ha as [P [Da1 Da2]].
    apply (zresult_sim s1 s2 _ _ (pbin ZDiff (pall (nlevels s1) 0) P) d (Datatypes.S k1) (Datatypes.S k2) HS).
    + apply zres_st_weak. apply (zapply_not_g_ok alloc1 Halloc1 gt1 C1 cget1 cadd1 L1); auto.
    + rewrite Hn. apply zres_st_weak. apply (zapply_not_g_ok alloc2 Halloc2 gt2 C2 cget2 cadd2 L2); auto.
  - (* bin *)
    pose proof (zhget_rel s1 s2 _ _ a (zsim_h _ _ HS)) as Ha.
    pose proof (zhget_rel s1 s2 _ _ b (zsim_h _ _ HS)) as Hb.
    destruct (hget (s_handles s1) a) as [ea1|], (hget (s_handles s2) a) as [ea2|]; try contradiction; [|exact I].
    destruct (hget (s_handles s1) b) as [eb1|], (hget (s_handles s2) b) as [eb2|]; try contradiction; [|exact I].
    destruct Ha as [P [Da1 Da2]]. destruct Hb as [Q [Db1 Db2]].
    apply (zresult_sim s1 s2 _ _ (pop (nlevels s1) op P Q) d (Datatypes.S k1) (Datatypes.S k2) HS).
    + apply (zres_wk_weak C1 cget1). apply (zapply_op_g_ok alloc1 Halloc1 gt1 C1 cget1 cadd1 L1); auto.
    + rewrite Hn. apply (zres_wk_weak C2 cget2). apply (zapply_op_g_ok alloc2 Halloc2 gt2 C2 cget2 cadd2 L2); auto.
  - (* ite *)
    pose proof (zhget_rel s1 s2 _ _ a (zsim_h _ _ HS)) as Ha.
    pose proof (zhget_rel s1 s2 _ _ b (zsim_h _ _ HS)) as Hb.
    pose proof (zhget_rel s1 s2 _ _ e (zsim_h _ _ HS)) as He.
    destruct (hget (s_handles s1) a) as [ea1|], (hget (s_handles s2) a) as [ea2|]; try contradiction; [|exact I].
    destruct (hget (s_handles s1) b) as [eb1|], (hget (s_handles s2) b) as [eb2|]; try contradiction; [|exact I].
    destruct (hget (s_handles s1) e) as [ee1|], (hget (s_handles s2) e) as [ee2|]; try contradiction; [|exact I].
    destruct Ha as [P [Da1 Da2]]. destruct Hb as [Q [Db1 Db2]]. destruct He as [R [De1 De2]].
    apply (zresult_sim s1 s2 _ _ (pite P Q R) d (Datatypes.S k1) (Datatypes.S k2) HS).
    + apply zres_st_weak. apply (zapply_ite_g_ok alloc1 Halloc1 gt1 C1 cget1 cadd1 L1); auto. lia.
    + apply zres_st_weak. apply (zapply_ite_g_ok alloc2 Halloc2 gt2 C2 cget2 cadd2 L2); auto. lia.
  - (* clone *)
    pose proof (zhget_rel s1 s2 _ _ a (zsim_h _ _ HS)) as Ha.
    destruct (hget (s_handles s1) a) as [ea1|], (hget (s_handles s2) a) as [ea2|]; try contradiction; [|exact I].
    destruct Ha as [P [Da1 Da2]]. simpl. split; [|split].
    + apply (zput_sim s1 s2 s1 s2 d _ _ P HS B1 B2 (extends_refl _) (extends_refl _) Da1 Da2).
    + apply zcacheokb_set_handles. exact O1.
    + apply zcacheokb_set_handles. exact O2.
  - (* drop *)
    simpl. split; [|split].
    + apply zdrop_sim. exact HS.
    + apply zcacheokb_set_handles. exact O1.
    + apply zcacheokb_set_handles. exact O2.
Qed.

Theorem zrun_ops_sim : forall ops st1 st2, zmsim st1 st2 ->
  ozmsim (zrun_ops alloc1 gt1 C1 cget1 cadd1 sch1 st1 ops) (zrun_ops alloc2 gt2 C2 cget2 cadd2 sch2 st2 ops).
Proof.
  unfold zrun_ops.
  assert (G : forall ops o1 o2, ozmsim o1 o2 ->
            ozmsim (fold_left (zostep alloc1 gt1 C1 cget1 cadd1 sch1) ops o1)
                   (fold_left (zostep alloc2 gt2 C2 cget2 cadd2 sch2) ops o2)).
  { induction ops as [|o ops IH]; intros o1 o2 Hs; [exact Hs|]. simpl. apply IH.
    destruct o1 as [a|], o2 as [b|]; simpl in *; try contradiction; [apply zmstep_sim; exact Hs | exact I]. }
  intros ops st1 st2 Hs. apply G. exact Hs.
Qed.

(** the client-visible content: the two runs fail together, and if they succeed
    the final tables are well-formed and every observable agrees *)
Theorem zrun_ops_observe : forall ops st1 st2, zmsim st1 st2 ->
  match zrun_ops alloc1 gt1 C1 cget1 cadd1 sch1 st1 ops, zrun_ops alloc2 gt2 C2 cget2 cadd2 sch2 st2 ops with
  | Some a, Some b =>
    wf_b (zm_snap C1 a) = true /\ wf_b (zm_snap C2 b) = true /\
    forall c, bchoice c -> observe (zm_snap C1 a) c = observe (zm_snap C2 b) c
  | None, None => True
  | _, _ => False
  end.
Proof.
  intros ops st1 st2 Hs. pose proof (zrun_ops_sim ops st1 st2 Hs) as R.
  destruct (zrun_ops alloc1 gt1 C1 cget1 cadd1 sch1 st1 ops) as [a|],
           (zrun_ops alloc2 gt2 C2 cget2 cadd2 sch2 st2 ops) as [b|]; simpl in R; try contradiction; [|exact I].
  destruct R as [S _]. destruct (zsim_wf_b _ _ S) as [W1 W2].
  split; [exact W1|]. split; [exact W2|]. intros c Hc. apply zsim_observe; [exact S|].
  intros l. rewrite (zo_kind _ (zsim_b1 _ _ S)). apply Hc.
Qed.

End TwoConfigs.

Lemma zsim_refl : forall s, ZbddOK s -> ZChainOK s -> zsim s s.
Proof.
  intros s B Hc. constructor; auto.
  assert (G : forall hs, (forall h, In h hs -> In h (s_handles s)) -> Forall2 (zhrel s s) hs hs).
  { induction hs as [|h r IH]; intros Hin; constructor.
    - destruct (z_handle_ok s h B (Hin h (or_introl eq_refl))) as [A T].
      destruct (zden_exists s _ B A) as [P D].
      split; [reflexivity|]. split; [exact T|]. split; [exact T|]. exists P. auto.
    - apply IH. intros x Hx. apply Hin. right. exact Hx. }
  apply G. auto.
Qed.

(** ** Cache enabled / disabled / any other cache: identical tables for whole histories *)

Section CacheRun.
Variable alloc : snap -> positive.
Hypothesis Halloc : alloc_ok alloc.
Variable sch : nat -> sched.
Variables gt1 gt2 : ref -> ref -> bool.
Variables C1 C2 : Type.
Variable cget1 : C1 -> N -> list ref -> list nat -> option ref.
Variable cadd1 : C1 -> N -> list ref -> list nat -> ref -> C1.
Variable cget2 : C2 -> N -> list ref -> list nat -> option ref.
Variable cadd2 : C2 -> N -> list ref -> list nat -> ref -> C2.
Hypothesis L1 : zlossy C1 cget1 cadd1.
Hypothesis L2 : zlossy C2 cget2 cadd2.

Notation cstep1 := (zmstep alloc gt1 C1 cget1 cadd1 sch).
Notation cstep2 := (zmstep alloc gt2 C2 cget2 cadd2 sch).

Definition zexact (st1 : zmstate C1) (st2 : zmstate C2) : Prop :=
  zm_snap C1 st1 = zm_snap C2 st2 /\ zm_step C1 st1 = zm_step C2 st2 /\
  ZbddOK (zm_snap C1 st1) /\ ZChainOK (zm_snap C1 st1) /\
  ZCacheOKB C1 cget1 (zm_snap C1 st1) (zm_cache C1 st1) /\
  ZCacheOKB C2 cget2 (zm_snap C2 st2) (zm_cache C2 st2).

Definition ozexact (o1 : option (zmstate C1)) (o2 : option (zmstate C2)) : Prop :=
  match o1, o2 with
  | Some a, Some b => zexact a b
  | None, None => True
  | _, _ => False
  end.

Lemma zagree_exact : forall s res1 res2 R d k, ZbddOK s -> ZChainOK s ->
  zresult_okB C1 cget1 s res1 R -> zresult_okB C2 cget2 s res2 R ->
  zsame_out C1 C2 res1 res2 ->
  ozexact (match res1 with Some (s', c', r) => Some (mkZM C1 (put s' d r) c' k) | None => None end)
          (match res2 with Some (s', c', r) => Some (mkZM C2 (put s' d r) c' k) | None => None end).
Proof.
  intros s res1 res2 R d k B Hc
         (sa & ca & ra & Ea & Ba & Xa & Oa & Da) (sb & cb & rb & Eb & Bb & Xb & Ob & Db) A.
  subst res1 res2. simpl in A. destruct A as [<- <-]. simpl.
  split; [reflexivity|]. split; [reflexivity|].
  split; [apply zbddok_put; [exact Ba | apply (zden_ok _ _ _ Da)]|].
  split; [apply zchain_set_handles; apply (zchain_extends s sa B Ba Xa Hc)|].
  split; apply zcacheokb_set_handles; assumption.
Qed.

Lemma zhandle_den : forall s k e, ZbddOK s -> hget (s_handles s) k = Some e -> exists P, ZDen s (eref e) P.
Proof.
  intros s k e B E. apply hget_In_x in E. destruct (z_handle_ok s _ B E) as [A _]. simpl in A.
  apply (zden_exists s _ B A).
Qed.

Theorem zmstep_cache_exact : forall st1 st2 o, zexact st1 st2 -> ozexact (cstep1 st1 o) (cstep2 st2 o).
Proof.
  intros [s c1 k] [s2 c2 k2] o [Es [Ek [B [Hc [O1 O2]]]]]. simpl in Es, Ek, B, Hc, O1, O2. subst s2 k2.
  destruct o as [d b|d v neg|d a|d op a b|d a b e|d a|d]; unfold zmstep; cbn [zm_snap zm_cache zm_step].
  - destruct (zconst_ok s b B Hc) as [r [E D]]. rewrite E. simpl.
    split; [reflexivity|]. split; [reflexivity|].
    split; [apply zbddok_put; [exact B | apply (zden_ok _ _ _ D)]|].
    split; [apply zchain_set_handles; exact Hc|]. split; apply zcacheokb_set_handles; assumption.
  - destruct (nth_error (s_v2l s) v) as [L|] eqn:Ev.
    + destruct neg.
      * (* var, then not: the two runs build the variable identically, then agree on [not] *)
        destruct (zvar_a_ok alloc Halloc s v L B Hc Ev) as (sa & ra & Ea & Ba & Xa & Da).
        pose proof (zchain_extends s sa B Ba Xa Hc) as Hca.
        pose proof (zcacheokb_extends C1 cget1 s sa c1 B Xa O1) as Oa1.
        pose proof (zcacheokb_extends C2 cget2 s sa c2 B Xa O2) as Oa2.
        assert (Hf : nlevels sa < Datatypes.S (nlevels s)) by (rewrite (ext_nlevels _ _ Xa); lia).
        pose proof (zapply_not_g_ok alloc Halloc gt1 C1 cget1 cadd1 L1 _ (sch k) sa c1 ra _ Ba Hca Oa1 Da Hf) as R1.
        pose proof (zapply_not_g_ok alloc Halloc gt2 C2 cget2 cadd2 L2 _ (sch k) sa c2 ra _ Ba Hca Oa2 Da Hf) as R2.
        pose proof (zapply_not_g_agree alloc Halloc gt1 gt2 C1 C2 cget1 cadd1 cget2 cadd2 L1 L2 _ (sch k) sa c1 c2 ra _
                      Ba Hca Oa1 Oa2 Da Hf) as A.
        unfold znot_var_g. rewrite Ea.
        destruct R1 as (s1' & c1' & r1 & E1 & B1' & X1' & O1' & D1' & _).
        destruct R2 as (s2' & c2' & r2 & E2 & B2' & X2' & O2' & D2' & _).
        rewrite E1, E2 in *. simpl in A. destruct A as [<- <-]. simpl.
        split; [reflexivity|]. split; [reflexivity|].
        split; [apply zbddok_put; [exact B1' | apply (zden_ok _ _ _ D1')]|].
        split; [apply zchain_set_handles; apply (zchain_extends sa s1' Ba B1' X1' Hca)|].
        split; apply zcacheokb_set_handles; assumption.
      * destruct (zvar_a_ok alloc Halloc s v L B Hc Ev) as (sa & ra & Ea & Ba & Xa & Da).
        rewrite Ea. simpl. split; [reflexivity|]. split; [reflexivity|].
        split; [apply zbddok_put; [exact Ba | apply (zden_ok _ _ _ Da)]|].
        split; [apply zchain_set_handles; apply (zchain_extends s sa B Ba Xa Hc)|].
        split; apply zcacheokb_set_handles.
        -- apply (zcacheokb_extends C1 cget1 s sa c1 B Xa O1).
        -- apply (zcacheokb_extends C2 cget2 s sa c2 B Xa O2).
    + destruct neg.
      * rewrite (znot_var_g_none alloc gt1 C1 cget1 cadd1 _ _ s c1 v Ev),
                (znot_var_g_none alloc gt2 C2 cget2 cadd2 _ _ s c2 v Ev). exact I.
      * rewrite (zvar_a_none alloc s v Ev). exact I.
  - destruct (hget (s_handles s) a) as [ea|] eqn:Ha; [|exact I].
    destruct (zhandle_den s a ea B Ha) as [P Da].
    apply (zagree_exact s _ _ (pbin ZDiff (pall (nlevels s) 0) P) d _ B Hc).
    + apply zres_st_weak. apply (zapply_not_g_ok alloc Halloc gt1 C1 cget1 cadd1 L1); auto.
    + apply zres_st_weak. apply (zapply_not_g_ok alloc Halloc gt2 C2 cget2 cadd2 L2); auto.
    + apply (zapply_not_g_agree alloc Halloc gt1 gt2 C1 C2 cget1 cadd1 cget2 cadd2 L1 L2 _ _ s c1 c2 _ P); auto.
  - destruct (hget (s_handles s) a) as [ea|] eqn:Ha; [|exact I].
    destruct (hget (s_handles s) b) as [eb|] eqn:Hb; [|exact I].
    destruct (zhandle_den s a ea B Ha) as [P Da]. destruct (zhandle_den s b eb B Hb) as [Q Db].
    apply (zagree_exact s _ _ (pop (nlevels s) op P Q) d _ B Hc).
    + apply (zres_wk_weak C1 cget1). apply (zapply_op_g_ok alloc Halloc gt1 C1 cget1 cadd1 L1); auto.
    + apply (zres_wk_weak C2 cget2). apply (zapply_op_g_ok alloc Halloc gt2 C2 cget2 cadd2 L2); auto.
    + apply (zapply_op_g_agree alloc Halloc gt1 gt2 C1 C2 cget1 cadd1 cget2 cadd2 L1 L2 op _ _ s c1 c2 _ _ P Q); auto.
  - destruct (hget (s_handles s) a) as [ea|] eqn:Ha; [|exact I].
    destruct (hget (s_handles s) b) as [eb|] eqn:Hb; [|exact I].
    destruct (hget (s_handles s) e) as [ee|] eqn:He; [|exact I].
    destruct (zhandle_den s a ea B Ha) as [P Da]. destruct (zhandle_den s b eb B Hb) as [Q Db].
    destruct (zhandle_den s e ee B He) as [R De].
    apply (zagree_exact s _ _ (pite P Q R) d _ B Hc).
    + apply zres_st_weak. apply (zapply_ite_g_ok alloc Halloc gt1 C1 cget1 cadd1 L1); auto. lia.
    + apply zres_st_weak. apply (zapply_ite_g_ok alloc Halloc gt2 C2 cget2 cadd2 L2); auto. lia.
    + apply (zapply_ite_g_agree alloc Halloc gt1 gt2 C1 C2 cget1 cadd1 cget2 cadd2 L1 L2 _ _ s c1 c2 _ _ _ P Q R); auto. lia.
  - destruct (hget (s_handles s) a) as [ea|] eqn:Ha; [|exact I].
    destruct (zhandle_den s a ea B Ha) as [P Da]. simpl.
    split; [reflexivity|]. split; [reflexivity|].
    split; [apply zbddok_put; [exact B | apply (zden_ok _ _ _ Da)]|].
    split; [apply zchain_set_handles; exact Hc|]. split; apply zcacheokb_set_handles; assumption.
  - simpl. split; [reflexivity|]. split; [reflexivity|].
    split; [apply zbddok_drop; exact B|].
    split; [apply zchain_set_handles; exact Hc|]. split; apply zcacheokb_set_handles; assumption.
Qed.

Theorem zrun_ops_cache_exact : forall ops st1 st2, zexact st1 st2 ->
  ozexact (zrun_ops alloc gt1 C1 cget1 cadd1 sch st1 ops) (zrun_ops alloc gt2 C2 cget2 cadd2 sch st2 ops).
Proof.
  unfold zrun_ops.
  assert (G : forall ops o1 o2, ozexact o1 o2 ->
            ozexact (fold_left (zostep alloc gt1 C1 cget1 cadd1 sch) ops o1)
                    (fold_left (zostep alloc gt2 C2 cget2 cadd2 sch) ops o2)).
  { induction ops as [|o ops IH]; intros o1 o2 Hs; [exact Hs|]. simpl. apply IH.
    destruct o1 as [a|], o2 as [b|]; simpl in *; try contradiction;
      [apply zmstep_cache_exact; exact Hs | exact I]. }
  intros ops st1 st2 Hs. apply G. exact Hs.
Qed.

End CacheRun.
