(** * Set-family specification layer for ZBDDs (C09)

    Executable definitions only (their specifications: DD/FamSpecProofs.v).

    A ZBDD edge denotes a family of sets ([famz], DD/Table.v).  A set is a
    strictly increasing list of naturals ([lset]); a family is a list of sets
    ([fam]).  The operations below are the set expressions written in the
    documentation of [oxidd_core::function::BooleanVecSet] and of
    [oxidd_rules_zbdd::make_node], transcribed literally:

      empty      = {}                       base = { {} }      singleton v = { {v} }
      union F G  = F u G      intsec F G = F n G      diff F G = F \ G
      subset0 v F = { S in F | v notin S }
      subset1 v F = { S \ {v} | S in F, v in S }
      change v F  = { S u {v} | S in F, v notin S } u { S \ {v} | S in F, v in S }
      make_node v hi lo = lo u { S u {v} | S in hi }

    The members of the lists may be levels (the reading used by the theorems:
    [famz] lists levels) or variable numbers (the reading of the API; the two
    are related by the bijection var_to_level).  Families are compared as sets
    ([feq_b]). *)

From Coq Require Import List NArith PArith Bool Arith.
From OxiVerif Require Import DD.Table.
Import ListNotations.

Definition lset := list nat.
Definition fam := list lset.

(** ** Sets *)

(** [v in S] *)
Definition smem (v : nat) (S : lset) : bool := existsb (Nat.eqb v) S.

(** [S \ {v}] *)
Definition sremove (v : nat) (S : lset) : lset := filter (fun x => negb (Nat.eqb x v)) S.

(** [S u {v}] on increasing lists *)
Fixpoint sinsert (v : nat) (S : lset) : lset :=
  match S with
  | [] => [v]
  | x :: r => if Nat.ltb v x then v :: S else if Nat.eqb v x then S else x :: sinsert v r
  end.

(** ** Families *)

(** [S in F] *)
Definition fmem (S : lset) (F : fam) : bool := existsb (nat_list_eqb S) F.

Definition f_empty : fam := [].
Definition f_base : fam := [[]].
Definition f_singleton (v : nat) : fam := [[v]].

Definition f_union (F G : fam) : fam := F ++ G.
Definition f_intsec (F G : fam) : fam := filter (fun S => fmem S G) F.
Definition f_diff (F G : fam) : fam := filter (fun S => negb (fmem S G)) F.

Definition f_subset0 (v : nat) (F : fam) : fam := filter (fun S => negb (smem v S)) F.
Definition f_subset1 (v : nat) (F : fam) : fam := map (sremove v) (filter (smem v) F).
Definition f_change (v : nat) (F : fam) : fam :=
  map (sinsert v) (filter (fun S => negb (smem v S)) F) ++ map (sremove v) (filter (smem v) F).
Definition f_make_node (v : nat) (hi lo : fam) : fam := lo ++ map (sinsert v) hi.

(** the binary operators as one function (the code of [zop]: DD/ZbddOps.v) *)
Inductive zop := ZUnion | ZIntsec | ZDiff.

Definition f_bin (o : zop) (F G : fam) : fam :=
  match o with
  | ZUnion => f_union F G
  | ZIntsec => f_intsec F G
  | ZDiff => f_diff F G
  end.

Inductive zsub := ZSubset0 | ZSubset1 | ZChange.

Definition f_sub (o : zsub) (v : nat) (F : fam) : fam :=
  match o with
  | ZSubset0 => f_subset0 v F
  | ZSubset1 => f_subset1 v F
  | ZChange => f_change v F
  end.

(** [F] and [G] have the same members *)
Definition fsub_b (F G : fam) : bool := forallb (fun S => fmem S G) F.
Definition feq_b (F G : fam) : bool := fsub_b F G && fsub_b G F.

(** ** The Boolean view of a family *)

(** the set of "true" levels of a choice function among [from, from + cnt)
    (child index 0 = the level's variable is true) *)
Fixpoint true_levels (c : nat -> nat) (from cnt : nat) : lset :=
  match cnt with
  | O => []
  | S k => if Nat.eqb (c from) 0 then from :: true_levels c (S from) k
           else true_levels c (S from) k
  end.

(** the characteristic function of a family over [n] levels *)
Definition fam_bool (n : nat) (F : fam) (c : nat -> nat) : bool := fmem (true_levels c 0 n) F.

(** the family of an edge with the fuel that always suffices *)
Definition fam_of (s : snap) (r : ref) : option fam := famz s (S (nlevels s)) r.
