(** * Specification of the family layer (DD/FamSpec.v) and the two views of a ZBDD edge

    - membership characterisations of the set expressions of DD/FamSpec.v;
    - [famz] on well-formed ZBDD snapshots: fuel adequacy, totality, the shape
      of the members (strictly increasing lists of levels, at or below the
      root's level, below [nlevels]), no duplicates;
    - [bool_view]: the Boolean view [semz] is the characteristic function of
      the family view [famz]. *)

From Coq Require Import List NArith PArith Bool Arith Lia FMapPositive FinFun.
From OxiVerif Require Import DD.Table DD.TableExtra DD.TableProofs DD.CanonZbdd DD.FamSpec.
Import ListNotations.

(** ** Sets and families *)

Lemma nat_list_eqb_eq : forall a b, nat_list_eqb a b = true <-> a = b.
Proof.
  induction a as [|x a IH]; intros [|y b]; simpl; split; try congruence; auto.
  - rewrite andb_true_iff, Nat.eqb_eq, IH. intros [-> ->]. reflexivity.
  - intros E. inversion E; subst. rewrite Nat.eqb_refl. apply IH. reflexivity.
Qed.

Lemma smem_spec : forall v S, smem v S = true <-> In v S.
Proof.
  intros v S. unfold smem. rewrite existsb_exists. split.
  - intros [x [Hx E]]. apply Nat.eqb_eq in E. subst. exact Hx.
  - intros Hx. exists v. split; [exact Hx | apply Nat.eqb_refl].
Qed.

Lemma smem_false : forall v S, smem v S = false <-> ~ In v S.
Proof. intros v S. rewrite <- smem_spec. destruct (smem v S); split; congruence. Qed.

Lemma fmem_spec : forall S F, fmem S F = true <-> In S F.
Proof.
  intros S F. unfold fmem. rewrite existsb_exists. split.
  - intros [x [Hx E]]. apply nat_list_eqb_eq in E. subst. exact Hx.
  - intros Hx. exists S. split; [exact Hx | apply nat_list_eqb_eq; reflexivity].
Qed.

Lemma fmem_false : forall S F, fmem S F = false <-> ~ In S F.
Proof. intros S F. rewrite <- fmem_spec. destruct (fmem S F); split; congruence. Qed.

Lemma fmem_iff : forall S F S' F', (In S F <-> In S' F') -> fmem S F = fmem S' F'.
Proof.
  intros S F S' F' Hi. apply eq_true_iff_eq. rewrite !fmem_spec. exact Hi.
Qed.

(** [feq]: the two lists have the same members *)
Definition feq (F G : fam) : Prop := forall S, In S F <-> In S G.

Lemma feq_refl : forall F, feq F F.
Proof. intros F S. reflexivity. Qed.

Lemma feq_sym : forall F G, feq F G -> feq G F.
Proof. intros F G Hf S. symmetry. apply Hf. Qed.

Lemma feq_trans : forall F G K, feq F G -> feq G K -> feq F K.
Proof. intros F G K A B S. rewrite (A S). apply B. Qed.

Lemma fsub_b_spec : forall F G, fsub_b F G = true <-> (forall S, In S F -> In S G).
Proof.
  intros F G. unfold fsub_b. rewrite forallb_forall. split; intros Hx S Hs.
  - apply fmem_spec. apply Hx. exact Hs.
  - apply fmem_spec. apply Hx. exact Hs.
Qed.

Theorem feq_b_spec : forall F G, feq_b F G = true <-> feq F G.
Proof.
  intros F G. unfold feq_b. rewrite andb_true_iff, !fsub_b_spec. unfold feq. split.
  - intros [A B] S. split; auto.
  - intros Hx. split; intros S; apply Hx.
Qed.

(** membership in the set expressions *)
Lemma in_f_empty : forall S, In S f_empty <-> False.
Proof. intros S. simpl. reflexivity. Qed.

Lemma in_f_base : forall S, In S f_base <-> S = [].
Proof. intros S. simpl. split; [intros [E|[]]; auto | intros ->; auto]. Qed.

Lemma in_f_singleton : forall v S, In S (f_singleton v) <-> S = [v].
Proof. intros v S. simpl. split; [intros [E|[]]; auto | intros ->; auto]. Qed.

Lemma in_f_union : forall F G S, In S (f_union F G) <-> In S F \/ In S G.
Proof. intros F G S. unfold f_union. apply in_app_iff. Qed.

Lemma in_f_intsec : forall F G S, In S (f_intsec F G) <-> In S F /\ In S G.
Proof. intros F G S. unfold f_intsec. rewrite filter_In, fmem_spec. reflexivity. Qed.

Lemma in_f_diff : forall F G S, In S (f_diff F G) <-> In S F /\ ~ In S G.
Proof.
  intros F G S. unfold f_diff. rewrite filter_In, negb_true_iff, fmem_false. reflexivity.
Qed.

Lemma in_f_subset0 : forall v F S, In S (f_subset0 v F) <-> In S F /\ ~ In v S.
Proof.
  intros v F S. unfold f_subset0. rewrite filter_In, negb_true_iff, smem_false. reflexivity.
Qed.

Lemma in_f_subset1 : forall v F S,
  In S (f_subset1 v F) <-> exists S0, In S0 F /\ In v S0 /\ S = sremove v S0.
Proof.
  intros v F S. unfold f_subset1. rewrite in_map_iff. split.
  - intros [S0 [E Hs]]. apply filter_In in Hs. destruct Hs as [A B]. apply smem_spec in B.
    exists S0. auto.
  - intros [S0 [A [B E]]]. exists S0. split; [auto|]. apply filter_In. split; [exact A|].
    apply smem_spec. exact B.
Qed.

Lemma in_f_change : forall v F S,
  In S (f_change v F) <->
  (exists S0, In S0 F /\ ~ In v S0 /\ S = sinsert v S0) \/
  (exists S0, In S0 F /\ In v S0 /\ S = sremove v S0).
Proof.
  intros v F S. unfold f_change. rewrite in_app_iff, !in_map_iff. split.
  - intros [[S0 [E Hs]]|[S0 [E Hs]]]; apply filter_In in Hs; destruct Hs as [A B].
    + left. exists S0. apply negb_true_iff, smem_false in B. auto.
    + right. exists S0. apply smem_spec in B. auto.
  - intros [[S0 [A [B E]]]|[S0 [A [B E]]]].
    + left. exists S0. split; [auto|]. apply filter_In. split; [exact A|].
      apply negb_true_iff, smem_false. exact B.
    + right. exists S0. split; [auto|]. apply filter_In. split; [exact A|].
      apply smem_spec. exact B.
Qed.

Lemma in_f_make_node : forall v hi lo S,
  In S (f_make_node v hi lo) <-> In S lo \/ exists S0, In S0 hi /\ S = sinsert v S0.
Proof.
  intros v hi lo S. unfold f_make_node. rewrite in_app_iff, in_map_iff. split.
  - intros [A|[S0 [E A]]]; [left; exact A | right; exists S0; auto].
  - intros [A|[S0 [A E]]]; [left; exact A | right; exists S0; auto].
Qed.

(** ** Increasing lists *)

(** [S] is strictly increasing and all its members are at least [lo] *)
Fixpoint incr_from (lo : nat) (S : lset) : Prop :=
  match S with
  | [] => True
  | x :: r => lo <= x /\ incr_from (Datatypes.S x) r
  end.

Lemma incr_from_weaken : forall S lo lo', lo' <= lo -> incr_from lo S -> incr_from lo' S.
Proof. destruct S as [|x r]; simpl; intros lo lo' Hl; [auto | intros [A B]; split; [lia | exact B]]. Qed.

Lemma incr_from_ge : forall S lo x, incr_from lo S -> In x S -> lo <= x.
Proof.
  induction S as [|y r IH]; simpl; intros lo x Hi Hx; [destruct Hx|].
  destruct Hi as [A B]. destruct Hx as [->|Hx]; [exact A|].
  specialize (IH _ _ B Hx). lia.
Qed.

Lemma incr_from_notin : forall S lo v, incr_from lo S -> v < lo -> ~ In v S.
Proof. intros S lo v Hi Hv Hx. pose proof (incr_from_ge S lo v Hi Hx). lia. Qed.

Lemma incr_from_nodup : forall S lo, incr_from lo S -> NoDup S.
Proof.
  induction S as [|x r IH]; simpl; intros lo Hi; constructor.
  - destruct Hi as [_ B]. apply (incr_from_notin r (S x) x B). lia.
  - destruct Hi as [_ B]. apply (IH _ B).
Qed.

Lemma sremove_notin : forall v S, ~ In v S -> sremove v S = S.
Proof.
  induction S as [|x r IH]; simpl; intros Hn; [reflexivity|].
  destruct (Nat.eqb_spec x v) as [->|Hne]; simpl.
  - exfalso. apply Hn. left. reflexivity.
  - f_equal. apply IH. intros Hx. apply Hn. right. exact Hx.
Qed.

Lemma sremove_cons_eq : forall v S, sremove v (v :: S) = sremove v S.
Proof. intros v S. unfold sremove. simpl. rewrite Nat.eqb_refl. reflexivity. Qed.

Lemma sremove_cons_ne : forall v x S, x <> v -> sremove v (x :: S) = x :: sremove v S.
Proof.
  intros v x S Hne. unfold sremove. simpl.
  destruct (Nat.eqb_spec x v); [contradiction | reflexivity].
Qed.

Lemma in_sremove : forall v S x, In x (sremove v S) <-> In x S /\ x <> v.
Proof.
  intros v S x. unfold sremove. rewrite filter_In, negb_true_iff, Nat.eqb_neq. reflexivity.
Qed.

Lemma sinsert_head : forall v S, incr_from (Datatypes.S v) S -> sinsert v S = v :: S.
Proof.
  intros v [|x r]; simpl; [reflexivity|]. intros [A _].
  destruct (Nat.ltb_spec v x); [reflexivity | lia].
Qed.

Lemma sinsert_cons_lt : forall v x S, x < v -> sinsert v (x :: S) = x :: sinsert v S.
Proof.
  intros v x S Hl. simpl. destruct (Nat.ltb_spec v x); [lia|].
  destruct (Nat.eqb_spec v x); [lia | reflexivity].
Qed.

Lemma in_sinsert : forall v S x, In x (sinsert v S) <-> x = v \/ In x S.
Proof.
  induction S as [|y r IH]; intros x; simpl.
  - split; [intros [E|[]]; auto | intros [E|[]]; auto].
  - destruct (Nat.ltb_spec v y).
    + simpl. split; [intros [E|E]; auto | intros [E|E]; auto].
    + destruct (Nat.eqb_spec v y) as [->|Hne]; simpl.
      * split; [auto | intros [->|E]; auto].
      * rewrite IH. split; [intros [E|[E|E]]; auto | intros [E|[E|E]]; auto].
Qed.

Lemma incr_from_sinsert : forall S lo v, incr_from lo S -> lo <= v -> incr_from lo (sinsert v S).
Proof.
  induction S as [|y r IH]; simpl; intros lo v Hi Hv.
  - split; [exact Hv | exact I].
  - destruct Hi as [A B]. destruct (Nat.ltb_spec v y).
    + simpl. split; [exact Hv|]. split; [lia | exact B].
    + destruct (Nat.eqb_spec v y) as [->|Hne]; simpl; [auto|].
      split; [exact A|]. apply IH; [exact B | lia].
Qed.

Lemma incr_from_sremove : forall S lo v, incr_from lo S -> incr_from lo (sremove v S).
Proof.
  induction S as [|y r IH]; simpl; intros lo v Hi; [exact I|].
  destruct Hi as [A B]. destruct (Nat.eqb_spec y v); simpl.
  - apply (incr_from_weaken _ (S y)); [lia | apply IH; exact B].
  - split; [exact A | apply IH; exact B].
Qed.

(** ** [true_levels] *)

Lemma true_levels_range : forall c cnt from x,
  In x (true_levels c from cnt) -> from <= x < from + cnt /\ c x = 0.
Proof.
  induction cnt as [|k IH]; simpl; intros from x Hx; [destruct Hx|].
  destruct (Nat.eqb_spec (c from) 0) as [E|E].
  - destruct Hx as [<-|Hx]; [split; [lia | exact E]|].
    destruct (IH _ _ Hx). split; [lia | auto].
  - destruct (IH _ _ Hx). split; [lia | auto].
Qed.

Lemma true_levels_in : forall c cnt from x,
  from <= x < from + cnt -> c x = 0 -> In x (true_levels c from cnt).
Proof.
  induction cnt as [|k IH]; simpl; intros from x Hx Hc; [lia|].
  destruct (Nat.eq_dec x from) as [->|Hne].
  - rewrite Hc. simpl. left. reflexivity.
  - destruct (Nat.eqb (c from) 0); [right|]; apply IH; auto; lia.
Qed.

Lemma true_levels_incr : forall c cnt from, incr_from from (true_levels c from cnt).
Proof.
  induction cnt as [|k IH]; simpl; intros from; [exact I|].
  destruct (Nat.eqb (c from) 0).
  - simpl. split; [lia | apply IH].
  - apply (incr_from_weaken _ (S from)); [lia | apply IH].
Qed.

Lemma true_levels_app : forall c a b from,
  true_levels c from (a + b) = true_levels c from a ++ true_levels c (from + a) b.
Proof.
  induction a as [|a IH]; intros b from; simpl.
  - rewrite Nat.add_0_r. reflexivity.
  - rewrite IH. replace (S from + a) with (from + S a) by lia.
    destruct (Nat.eqb (c from) 0); reflexivity.
Qed.

Lemma true_levels_ext : forall c c' cnt from,
  (forall l, from <= l < from + cnt -> c l = c' l) ->
  true_levels c from cnt = true_levels c' from cnt.
Proof.
  induction cnt as [|k IH]; simpl; intros from Hc; [reflexivity|].
  rewrite (Hc from) by lia. rewrite (IH (S from)) by (intros l Hl; apply Hc; lia). reflexivity.
Qed.

(** all skipped levels lo = no true level among them (for Boolean choices) *)
Lemma all_lo_true_levels : forall c cnt from, (forall l, c l < 2) ->
  all_lo c from cnt = nat_list_eqb (true_levels c from cnt) [].
Proof.
  induction cnt as [|k IH]; simpl; intros from Hc; [reflexivity|].
  specialize (Hc from) as Hf.
  destruct (c from) as [|[|x]] eqn:E; simpl; [reflexivity | apply IH; exact Hc | lia].
Qed.

(** ** [famz] on well-formed ZBDD snapshots *)

Lemma famz_T : forall s f t,
  famz s f (RT t) =
  match term_val s t with
  | Some v => Some (if N.eqb v 1 then [[]] else [])
  | None => None
  end.
Proof. destruct f; reflexivity. Qed.

Lemma famz_S : forall s f id,
  famz s (S f) (RN id) =
  match find_node s id with
  | None => None
  | Some nd =>
    match nchildren nd with
    | hi :: lo :: nil =>
      match famz s f (eref hi), famz s f (eref lo) with
      | Some a, Some b => Some (map (cons (nlevel nd)) a ++ b)
      | _, _ => None
      end
    | _ => None
    end
  end.
Proof. reflexivity. Qed.

Arguments famz : simpl never.

(** [node_fam L A B] = the family of a node at level [L] with hi family [A], lo family [B] *)
Definition node_fam (L : nat) (A B : fam) : fam := map (cons L) A ++ B.

Lemma in_node_fam : forall L A B S,
  In S (node_fam L A B) <-> (exists T, S = L :: T /\ In T A) \/ In S B.
Proof.
  intros L A B S. unfold node_fam. rewrite in_app_iff, in_map_iff. split.
  - intros [[T [E HT]]|Hb]; [left; exists T; auto | right; exact Hb].
  - intros [[T [E HT]]|Hb]; [left; exists T; auto | right; exact Hb].
Qed.

Lemma nodup_app_disjoint : forall (A : Type) (l1 l2 : list A),
  NoDup l1 -> NoDup l2 -> (forall x, In x l1 -> ~ In x l2) -> NoDup (l1 ++ l2).
Proof.
  induction l1 as [|a l1 IH]; simpl; intros l2 N1 N2 Hd; [exact N2|].
  inversion N1; subst. constructor.
  - rewrite in_app_iff. intros [Hx|Hx]; [contradiction | apply (Hd a); auto].
  - apply IH; auto.
Qed.

Section Fam.
Variable s : snap.
Hypothesis H : WF s.
Hypothesis Hkind : s_kind s = KZbdd.

Lemma zchildren : forall id nd, find_node s id = Some nd ->
  exists hi lo, nchildren nd = [hi; lo].
Proof.
  intros id nd E. pose proof (wf_arity s H id nd E) as Ha. rewrite Hkind in Ha. simpl in Ha.
  destruct (nchildren nd) as [|hi [|lo [|x r]]]; simpl in Ha; try discriminate.
  exists hi, lo. reflexivity.
Qed.

Lemma zchild_ok : forall id nd hi lo, find_node s id = Some nd -> nchildren nd = [hi; lo] ->
  ref_ok s (eref hi) /\ nlevel nd < rlevel s (eref hi) /\
  ref_ok s (eref lo) /\ nlevel nd < rlevel s (eref lo).
Proof.
  intros id nd hi lo E Ec.
  destruct (wf_child s H id nd hi E) as [A B]; [rewrite Ec; left; reflexivity|].
  destruct (wf_child s H id nd lo E) as [A' B']; [rewrite Ec; right; left; reflexivity|].
  auto.
Qed.

Lemma famz_fuel : forall f1 f2 r, ref_ok s r ->
  nlevels s - rlevel s r < f1 -> nlevels s - rlevel s r < f2 ->
  famz s f1 r = famz s f2 r.
Proof.
  induction f1 as [|f1 IH]; intros f2 r Hok H1 H2; [lia|].
  destruct r as [t|id]; [rewrite !famz_T; reflexivity|].
  destruct f2 as [|f2]; [lia|]. rewrite !famz_S.
  destruct (find_node s id) as [nd|] eqn:E; [|reflexivity].
  rewrite (rlevel_node s id nd E) in H1, H2.
  destruct (zchildren id nd E) as [hi [lo Ec]]. rewrite Ec.
  destruct (zchild_ok id nd hi lo E Ec) as [Oh [Lh [Ol Ll]]].
  pose proof (rlevel_le s H (eref hi)). pose proof (rlevel_le s H (eref lo)).
  rewrite (IH f2 (eref hi)) by (auto; lia). rewrite (IH f2 (eref lo)) by (auto; lia).
  reflexivity.
Qed.

Lemma famz_total : forall f r, ref_ok s r -> nlevels s - rlevel s r < f ->
  exists F, famz s f r = Some F.
Proof.
  induction f as [|f IH]; intros r Hok Hf; [lia|].
  destruct r as [t|id].
  - rewrite famz_T. destruct Hok as [v E]. rewrite E. eauto.
  - destruct Hok as [nd E]. rewrite famz_S, E.
    rewrite (rlevel_node s id nd E) in Hf.
    destruct (zchildren id nd E) as [hi [lo Ec]]. rewrite Ec.
    destruct (zchild_ok id nd hi lo E Ec) as [Oh [Lh [Ol Ll]]].
    pose proof (rlevel_le s H (eref hi)). pose proof (rlevel_le s H (eref lo)).
    destruct (IH (eref hi) Oh ltac:(lia)) as [A EA]. destruct (IH (eref lo) Ol ltac:(lia)) as [B EB].
    rewrite EA, EB. eauto.
Qed.

Lemma fam_of_total : forall r, ref_ok s r -> exists F, fam_of s r = Some F.
Proof.
  intros r Hok. apply famz_total; [exact Hok|]. pose proof (rlevel_le s H r). lia.
Qed.

Lemma fam_of_term : forall t v, term_val s t = Some v ->
  fam_of s (RT t) = Some (if N.eqb v 1 then f_base else f_empty).
Proof. intros t v E. unfold fam_of. rewrite famz_T, E. reflexivity. Qed.

(** the family of a node in terms of the families of its children *)
Lemma fam_of_node : forall id nd hi lo, find_node s id = Some nd -> nchildren nd = [hi; lo] ->
  fam_of s (RN id) =
  match fam_of s (eref hi), fam_of s (eref lo) with
  | Some a, Some b => Some (node_fam (nlevel nd) a b)
  | _, _ => None
  end.
Proof.
  intros id nd hi lo E Ec. unfold fam_of. rewrite famz_S, E, Ec.
  destruct (zchild_ok id nd hi lo E Ec) as [Oh [Lh [Ol Ll]]].
  pose proof (rlevel_le s H (eref hi)). pose proof (rlevel_le s H (eref lo)).
  pose proof (wf_level s H id nd E).
  rewrite (famz_fuel (nlevels s) (S (nlevels s)) (eref hi)) by (auto; lia).
  rewrite (famz_fuel (nlevels s) (S (nlevels s)) (eref lo)) by (auto; lia).
  reflexivity.
Qed.

(** every member is a strictly increasing list of levels between the root's
    level and [nlevels] *)
Lemma famz_members : forall f r F S, famz s f r = Some F -> In S F ->
  incr_from (rlevel s r) S /\ Forall (fun x => x < nlevels s) S.
Proof.
  induction f as [|f IH]; intros r F S Ef Hs.
  - destruct r as [t|id]; [|discriminate]. rewrite famz_T in Ef.
    destruct (term_val s t) as [v|]; [|discriminate]. inversion Ef; subst F.
    destruct (N.eqb v 1); simpl in Hs; [|destruct Hs].
    destruct Hs as [<-|[]]. split; [exact I | constructor].
  - destruct r as [t|id].
    + rewrite famz_T in Ef.
      destruct (term_val s t) as [v|]; [|discriminate]. inversion Ef; subst F.
      destruct (N.eqb v 1); simpl in Hs; [|destruct Hs].
      destruct Hs as [<-|[]]. split; [exact I | constructor].
    + rewrite famz_S in Ef. destruct (find_node s id) as [nd|] eqn:E; [|discriminate].
      destruct (zchildren id nd E) as [hi [lo Ec]]. rewrite Ec in Ef.
      destruct (zchild_ok id nd hi lo E Ec) as [Oh [Lh [Ol Ll]]].
      destruct (famz s f (eref hi)) as [A|] eqn:EA; [|discriminate].
      destruct (famz s f (eref lo)) as [B|] eqn:EB; [|discriminate].
      inversion Ef; subst F. rewrite (rlevel_node s id nd E).
      apply (in_node_fam (nlevel nd) A B S) in Hs. destruct Hs as [[T [-> HT]]|Hb].
      * destruct (IH _ _ _ EA HT) as [I1 I2]. split.
        -- simpl. split; [lia|]. apply (incr_from_weaken _ (rlevel s (eref hi))); [lia | exact I1].
        -- constructor; [apply (wf_level s H id nd E) | exact I2].
      * destruct (IH _ _ _ EB Hb) as [I1 I2]. split; [|exact I2].
        apply (incr_from_weaken _ (rlevel s (eref lo))); [lia | exact I1].
Qed.

Lemma fam_of_members : forall r F S, fam_of s r = Some F -> In S F ->
  incr_from (rlevel s r) S /\ Forall (fun x => x < nlevels s) S.
Proof. intros r F S. apply famz_members. Qed.

(** no set is listed twice *)
Lemma famz_nodup : forall f r F, famz s f r = Some F -> NoDup F.
Proof.
  induction f as [|f IH]; intros r F Ef.
  - destruct r as [t|id]; [|discriminate]. rewrite famz_T in Ef.
    destruct (term_val s t) as [v|]; [|discriminate]. inversion Ef; subst F.
    destruct (N.eqb v 1); repeat constructor. intros [].
  - destruct r as [t|id].
    + rewrite famz_T in Ef.
      destruct (term_val s t) as [v|]; [|discriminate]. inversion Ef; subst F.
      destruct (N.eqb v 1); repeat constructor. intros [].
    + rewrite famz_S in Ef. destruct (find_node s id) as [nd|] eqn:E; [|discriminate].
      destruct (zchildren id nd E) as [hi [lo Ec]]. rewrite Ec in Ef.
      destruct (zchild_ok id nd hi lo E Ec) as [Oh [Lh [Ol Ll]]].
      destruct (famz s f (eref hi)) as [A|] eqn:EA; [|discriminate].
      destruct (famz s f (eref lo)) as [B|] eqn:EB; [|discriminate].
      inversion Ef; subst F. apply nodup_app_disjoint.
      * apply FinFun.Injective_map_NoDup; [|apply (IH _ _ EA)].
        intros x y Exy. inversion Exy. reflexivity.
      * apply (IH _ _ EB).
      * intros S Hs Hb. apply in_map_iff in Hs. destruct Hs as [T [<- _]].
        destruct (famz_members _ _ _ _ EB Hb) as [I1 _]. simpl in I1. lia.
Qed.

(** ** The Boolean view is the characteristic function of the family view *)

Lemma choice_lt2 : forall c, choice_ok s c -> forall l, c l < 2.
Proof. intros c Hc l. specialize (Hc l). rewrite Hkind in Hc. exact Hc. Qed.

(** seen from level [lvl] (at or above the root): [semz] answers whether the
    set of true levels among [lvl, nlevels) is a member of the family *)
Theorem bool_view_from : forall f lvl r c F, ref_ok s r -> choice_ok s c -> lvl <= rlevel s r ->
  nlevels s - rlevel s r < f -> famz s f r = Some F ->
  semz s f lvl r c = Some (fmem (true_levels c lvl (nlevels s - lvl)) F).
Proof.
  induction f as [|f IH]; intros lvl r c F Hok Hc Hl Hf Ef; [lia|].
  pose proof (choice_lt2 c Hc) as Hc2.
  destruct r as [t|id].
  - rewrite semz_T. rewrite famz_T in Ef. destruct (term_val s t) as [v|]; [|discriminate].
    inversion Ef; subst F. f_equal.
    destruct (N.eqb v 1); simpl.
    + rewrite orb_false_r. apply all_lo_true_levels. exact Hc2.
    + reflexivity.
  - destruct Hok as [nd E]. pose proof Ef as Ef0. rewrite semz_S, E. rewrite famz_S, E in Ef.
    rewrite (rlevel_node s id nd E) in Hl, Hf.
    destruct (zchildren id nd E) as [hi [lo Ec]]. rewrite Ec in *.
    destruct (zchild_ok id nd hi lo E Ec) as [Oh [Lh [Ol Ll]]].
    destruct (famz s f (eref hi)) as [A|] eqn:EA; [|discriminate].
    destruct (famz s f (eref lo)) as [B|] eqn:EB; [|discriminate].
    inversion Ef; subst F. clear Ef.
    destruct (Nat.ltb_spec (nlevel nd) lvl) as [Hlt|_]; [lia|].
    pose proof (wf_level s H id nd E) as HL.
    pose proof (rlevel_le s H (eref hi)). pose proof (rlevel_le s H (eref lo)).
    remember (nlevel nd) as L eqn:EL.
    replace (nlevels s - lvl) with ((L - lvl) + S (nlevels s - S L)) by lia.
    rewrite true_levels_app. replace (lvl + (L - lvl)) with L by lia.
    rewrite (all_lo_true_levels c (L - lvl) lvl Hc2).
    destruct (true_levels c lvl (L - lvl)) as [|x T1] eqn:ET1.
    + simpl nat_list_eqb. cbv iota. simpl app. simpl true_levels.
      specialize (Hc2 L). destruct (c L) as [|[|k]] eqn:EcL; [| |lia].
      * simpl Nat.eqb. cbv iota. simpl nth_error. cbv beta iota.
        rewrite (IH (S L) (eref hi) c A) by (auto; lia). f_equal.
        apply fmem_iff. fold (node_fam L A B). rewrite in_node_fam. split.
        -- intros HA. left. eexists. split; [reflexivity | exact HA].
        -- intros [[T [ET HT]]|HB]; [inversion ET; subst; exact HT|].
           destruct (famz_members _ _ _ _ EB HB) as [I1 _]. simpl in I1. lia.
      * simpl Nat.eqb. cbv iota. simpl nth_error. cbv beta iota.
        rewrite (IH (S L) (eref lo) c B) by (auto; lia). f_equal.
        apply fmem_iff. fold (node_fam L A B). rewrite in_node_fam. split.
        -- intros HB. right. exact HB.
        -- intros [[T [ET HT]]|HB]; [|exact HB].
           pose proof (true_levels_incr c (nlevels s - S L) (S L)) as Hi.
           rewrite ET in Hi. simpl in Hi. lia.
    + simpl nat_list_eqb. cbv iota. f_equal. symmetry. apply fmem_false. intros Hin.
      assert (Hx : In x (true_levels c lvl (L - lvl))) by (rewrite ET1; left; reflexivity).
      apply true_levels_range in Hx.
      destruct (famz_members _ _ _ _ Ef0 Hin) as [I1 _].
      rewrite (rlevel_node s id nd E), <- EL in I1. simpl in I1. lia.
Qed.

(** C09 "bool_view": over all levels of the manager *)
Theorem bool_view : forall r c F, ref_ok s r -> choice_ok s c -> fam_of s r = Some F ->
  semz s (S (nlevels s)) 0 r c = Some (fam_bool (nlevels s) F c).
Proof.
  intros r c F Hok Hc Ef. unfold fam_bool.
  pose proof (rlevel_le s H r).
  rewrite (bool_view_from (S (nlevels s)) 0 r c F Hok Hc) by (auto; lia).
  rewrite Nat.sub_0_r. reflexivity.
Qed.

(** the same through [sem_edge] (the interpretation used by C01/C02): value code 1 iff member *)
Corollary bool_view_sem_edge : forall e c F, ref_ok s (eref e) -> choice_ok s c ->
  fam_of s (eref e) = Some F ->
  sem_edge s e c = Some (if fam_bool (nlevels s) F c then 1%N else 0%N).
Proof.
  intros e c F Hok Hc Ef. unfold sem_edge. rewrite Hkind.
  rewrite (bool_view (eref e) c F Hok Hc Ef). reflexivity.
Qed.

End Fam.

(** ** The variable reading of a set of levels

    The API speaks about variable numbers, [famz] lists levels; the two are
    related by the bijection level_to_var / var_to_level of the snapshot. *)

Definition vars_of (s : snap) (S : lset) : list nat := map (fun l => nth l (s_l2v s) 0) S.

Theorem var_view_mem : forall s v vl S, WF s ->
  nth_error (s_v2l s) v = Some vl -> Forall (fun x => x < nlevels s) S ->
  (In v (vars_of s S) <-> In vl S).
Proof.
  intros s v vl S H Ev Hb. unfold vars_of. rewrite in_map_iff. split.
  - intros [l [El Hl]]. rewrite Forall_forall in Hb. specialize (Hb l Hl).
    destruct (wf_perm_l2v s H l Hb) as [j [E1 E2]].
    rewrite (nth_error_nth _ _ 0 E1) in El. subst j. rewrite Ev in E2. inversion E2; subst. exact Hl.
  - intros Hl. exists vl. split; [|exact Hl].
    assert (Hv : v < length (s_v2l s)) by (apply nth_error_Some; congruence).
    destruct (wf_perm_v2l s H v Hv) as [j [E1 E2]]. rewrite Ev in E1. inversion E1; subst j.
    apply (nth_error_nth _ _ 0 E2).
Qed.
