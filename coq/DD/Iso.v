(** * Node counts of isomorphic diagrams (C20)

    [count_reach] (DD/Table.v; what [Function::node_count] reports) walks the
    diagram of an edge with a work list and two "seen" sets.  Here:

    - [reach_enough]: the fuel [count_reach] uses is sufficient, and with
      sufficient fuel the result does not depend on the fuel (the fuel is
      computed from the size of the whole table, which differs between two
      managers);
    - [bisim]: a relation between the references of two tables that relates
      terminals with terminals, nodes with nodes whose children are related
      again, and is one-to-one;
    - [count_reach_bisim]: related edges have the same node count.  No node id
      is compared between the two tables.
    - [count_reach_den]: in two well-formed BDD tables (any two managers: other
      node store, other cache, other schedule, other history) two edges that
      denote the same Boolean function have the same node count - the node
      count is a function of the denotation. *)

From Coq Require Import List NArith PArith Bool Arith Lia FMapPositive FMapFacts.
From OxiVerif Require Import DD.Table DD.TableProofs DD.Canon DD.Sem DD.Build DD.BuildProofs
  DD.Apply DD.ApplyProofs.
Import ListNotations.

Module PMF := FMapFacts.WProperties_fun PositiveMap.E PositiveMap.

(** ** Cardinalities of positive maps *)

Lemma card_add_new : forall (A : Type) (m : PositiveMap.t A) k v,
  PositiveMap.find k m = None ->
  PositiveMap.cardinal (PositiveMap.add k v m) = S (PositiveMap.cardinal m).
Proof.
  intros A m k v E. apply (PMF.cardinal_2 (x := k) (e := v)).
  - apply PMF.F.not_find_in_iff. exact E.
  - intros y. reflexivity.
Qed.

Lemma card_le : forall (A B : Type) (a : PositiveMap.t A) (b : PositiveMap.t B),
  (forall k, PositiveMap.find k a <> None -> PositiveMap.find k b <> None) ->
  PositiveMap.cardinal a <= PositiveMap.cardinal b.
Proof.
  intros A B a b Hsub. rewrite !PositiveMap.cardinal_1.
  rewrite <- (map_length fst (PositiveMap.elements a)), <- (map_length fst (PositiveMap.elements b)).
  apply NoDup_incl_length; [apply elements_keys_nodup|].
  intros k Hk. apply in_map_iff in Hk. destruct Hk as [[k' v] [<- Hin]]. simpl.
  apply PositiveMap.elements_complete in Hin.
  assert (Hb : PositiveMap.find k' b <> None) by (apply Hsub; congruence).
  destruct (PositiveMap.find k' b) as [w|] eqn:Eb; [|congruence].
  apply PositiveMap.elements_correct in Eb.
  apply in_map_iff. exists (k', w). auto.
Qed.

Lemma card_lt : forall (A B : Type) (a : PositiveMap.t A) (b : PositiveMap.t B) k (v : A),
  (forall k, PositiveMap.find k a <> None -> PositiveMap.find k b <> None) ->
  PositiveMap.find k b <> None -> PositiveMap.find k a = None ->
  PositiveMap.cardinal a < PositiveMap.cardinal b.
Proof.
  intros A B a b k v Hsub Hb Ha.
  assert (Hle : PositiveMap.cardinal (PositiveMap.add k v a) <= PositiveMap.cardinal b).
  { apply card_le. intros k' Hk'. destruct (Pos.eq_dec k' k) as [->|Hn]; [exact Hb|].
    rewrite PositiveMap.gso in Hk' by exact Hn. apply Hsub. exact Hk'. }
  rewrite (card_add_new A a k v Ha) in Hle. lia.
Qed.

Lemma reach_S : forall s f todo sn st,
  reach s (S f) todo sn st =
  match todo with
  | [] => (sn, st)
  | RT t :: r =>
    if existsb (N.eqb t) st then reach s f r sn st else reach s f r sn (t :: st)
  | RN id :: r =>
    match PositiveMap.find id sn with
    | Some _ => reach s f r sn st
    | None =>
      match find_node s id with
      | None => reach s f r sn st
      | Some nd => reach s f (map eref (nchildren nd) ++ r) (PositiveMap.add id tt sn) st
      end
    end
  end.
Proof. reflexivity. Qed.

Lemma reach_nil : forall s f sn st, reach s f [] sn st = (sn, st).
Proof. intros s [|f] sn st; reflexivity. Qed.

(** ** Sufficient fuel *)

(** every stored node has at most [arity] children (part of [WF]) *)
Definition arity_ok (s : snap) : Prop :=
  forall id nd, find_node s id = Some nd -> length (nchildren nd) <= arity (s_kind s).

Lemma wf_arity_ok : forall s, WF s -> arity_ok s.
Proof. intros s H id nd E. rewrite (wf_arity s H id nd E). lia. Qed.

Section Fuel.
Variable s : snap.
Hypothesis Har : arity_ok s.

Definition seen_sub (sn : PositiveMap.t unit) : Prop :=
  forall k, PositiveMap.find k sn <> None -> find_node s k <> None.

(** the potential: every step removes a work item; a step that expands a
    node adds at most [arity] items and marks a node *)
Definition mu (todo : list ref) (sn : PositiveMap.t unit) : nat :=
  length todo + S (arity (s_kind s)) * (PositiveMap.cardinal (s_nodes s) - PositiveMap.cardinal sn).

Lemma reach_enough : forall f1 f2 todo sn st, seen_sub sn ->
  mu todo sn <= f1 -> mu todo sn <= f2 ->
  reach s f1 todo sn st = reach s f2 todo sn st.
Proof.
  induction f1 as [|f1 IH]; intros f2 todo sn st Hsub H1 H2.
  - unfold mu in H1. destruct todo; [|cbn [length] in H1; nia]. rewrite !reach_nil. reflexivity.
  - destruct f2 as [|f2].
    + unfold mu in H2. destruct todo; [|cbn [length] in H2; nia]. rewrite !reach_nil. reflexivity.
    + rewrite !reach_S. destruct todo as [|[t|id] r]; [reflexivity| |].
      * assert (Hm : mu r sn <= f1 /\ mu r sn <= f2) by (unfold mu in *; cbn [length] in *; nia).
        destruct (existsb (N.eqb t) st); apply IH; tauto.
      * assert (Hm : mu r sn <= f1 /\ mu r sn <= f2) by (unfold mu in *; cbn [length] in *; nia).
        destruct (PositiveMap.find id sn) eqn:Es; [apply IH; tauto|].
        destruct (find_node s id) as [nd|] eqn:En; [|apply IH; tauto].
        assert (Hlt : PositiveMap.cardinal sn < PositiveMap.cardinal (s_nodes s)).
        { apply (card_lt unit node sn (s_nodes s) id tt); [exact Hsub | | exact Es].
          unfold find_node in En. congruence. }
        assert (Hm' : mu (map eref (nchildren nd) ++ r) (PositiveMap.add id tt sn) <= mu r sn).
        { unfold mu. rewrite app_length, map_length, (card_add_new unit sn id tt Es).
          pose proof (Har id nd En) as Hl.
          set (c := PositiveMap.cardinal sn) in *. set (n := PositiveMap.cardinal (s_nodes s)) in *.
          replace (n - c) with (S (n - S c)) by lia. rewrite Nat.mul_succ_r. lia. }
        apply IH.
        -- intros k Hk. destruct (Pos.eq_dec k id) as [->|Hn]; [congruence|].
           rewrite PositiveMap.gso in Hk by exact Hn. apply Hsub. exact Hk.
        -- unfold mu in *. cbn [length] in *. nia.
        -- unfold mu in *. cbn [length] in *. nia.
Qed.

(** the fuel of [count_reach] is sufficient: any larger fuel gives the same sets *)
Lemma count_reach_fuel : forall e F,
  (let n := PositiveMap.cardinal (s_nodes s) in
   let fuel := S (n * S (arity (s_kind s)) + length (s_terms s) + 1) in fuel + fuel) <= F ->
  count_reach s e =
  N.of_nat (PositiveMap.cardinal (fst (reach s F [eref e] (PositiveMap.empty unit) []))
            + length (snd (reach s F [eref e] (PositiveMap.empty unit) []))).
Proof.
  intros e F HF. unfold count_reach. cbv zeta in *.
  set (F0 := _ + _) in *.
  assert (Hmu : mu [eref e] (PositiveMap.empty unit) <= F0).
  { unfold mu, F0. simpl length. change (PositiveMap.cardinal (PositiveMap.empty unit)) with 0.
    rewrite Nat.sub_0_r, (Nat.mul_comm (S (arity (s_kind s)))). lia. }
  rewrite (reach_enough F0 F [eref e] (PositiveMap.empty unit) []); [| |exact Hmu|lia].
  - destruct (reach s F [eref e] (PositiveMap.empty unit) []) as [sn st]. reflexivity.
  - intros k Hk. rewrite PositiveMap.gempty in Hk. congruence.
Qed.

End Fuel.

(** ** Bisimulations between two tables *)

Lemma existsb_N_In : forall t l, existsb (N.eqb t) l = true <-> In t l.
Proof.
  intros t l. rewrite existsb_exists. split.
  - intros [x [Hin E]]. apply N.eqb_eq in E. subst. exact Hin.
  - intros Hin. exists t. split; [exact Hin | apply N.eqb_refl].
Qed.

Section Bisim.
Variables s1 s2 : snap.
Variable R : ref -> ref -> Prop.

Record bisim : Prop := mkBisim {
  bs_shape : forall r1 r2, R r1 r2 ->
    match r1, r2 with RT _, RT _ | RN _, RN _ => True | _, _ => False end;
  bs_node : forall a b, R (RN a) (RN b) ->
    match find_node s1 a, find_node s2 b with
    | Some n1, Some n2 => Forall2 R (map eref (nchildren n1)) (map eref (nchildren n2))
    | None, None => True
    | _, _ => False
    end;
  bs_inj_n : forall a b a' b', R (RN a) (RN b) -> R (RN a') (RN b') -> (a = a' <-> b = b');
  bs_inj_t : forall t u t' u', R (RT t) (RT u) -> R (RT t') (RT u') -> (t = t' <-> u = u')
}.

Hypothesis HB : bisim.

Definition seen_rel (m1 m2 : PositiveMap.t unit) : Prop :=
  PositiveMap.cardinal m1 = PositiveMap.cardinal m2 /\
  forall a b, R (RN a) (RN b) -> (PositiveMap.find a m1 = None <-> PositiveMap.find b m2 = None).

Definition seent_rel (l1 l2 : list N) : Prop :=
  length l1 = length l2 /\ forall t u, R (RT t) (RT u) -> (In t l1 <-> In u l2).

Lemma reach_lockstep : forall fuel todo1 todo2 m1 m2 l1 l2,
  Forall2 R todo1 todo2 -> seen_rel m1 m2 -> seent_rel l1 l2 ->
  seen_rel (fst (reach s1 fuel todo1 m1 l1)) (fst (reach s2 fuel todo2 m2 l2)) /\
  seent_rel (snd (reach s1 fuel todo1 m1 l1)) (snd (reach s2 fuel todo2 m2 l2)).
Proof.
  induction fuel as [|f IH]; intros todo1 todo2 m1 m2 l1 l2 HT HM HL; [simpl; auto|].
  rewrite !reach_S. destruct HT as [|x y r1 r2 Hxy Hr]; [simpl; auto|].
  pose proof (bs_shape HB x y Hxy) as Hs.
  destruct x as [t|a], y as [u|b]; try contradiction.
  - destruct HL as [Hlen Hin].
    destruct (existsb (N.eqb t) l1) eqn:E1, (existsb (N.eqb u) l2) eqn:E2.
    + apply IH; [exact Hr | exact HM | split; assumption].
    + exfalso. apply existsb_N_In in E1. apply (Hin t u Hxy) in E1. apply existsb_N_In in E1. congruence.
    + exfalso. apply existsb_N_In in E2. apply (Hin t u Hxy) in E2. apply existsb_N_In in E2. congruence.
    + apply IH; [exact Hr | exact HM|]. split; [simpl; lia|].
      intros t' u' Htu. simpl. pose proof (bs_inj_t HB t u t' u' Hxy Htu) as Hi.
      pose proof (Hin t' u' Htu). tauto.
  - destruct HM as [Hc Hf].
    destruct (PositiveMap.find a m1) eqn:E1, (PositiveMap.find b m2) eqn:E2.
    + apply IH; [exact Hr | split; assumption | exact HL].
    + exfalso. apply (Hf a b Hxy) in E2. congruence.
    + exfalso. apply (Hf a b Hxy) in E1. congruence.
    + pose proof (bs_node HB a b Hxy) as Hn.
      destruct (find_node s1 a) as [n1|], (find_node s2 b) as [n2|]; try contradiction.
      * apply IH; [apply Forall2_app; assumption | | exact HL]. split.
        -- rewrite !card_add_new by assumption. lia.
        -- intros a' b' Hab. pose proof (bs_inj_n HB a b a' b' Hxy Hab) as Hi.
           destruct (Pos.eq_dec a' a) as [->|Hna].
           ++ assert (b' = b) by (symmetry; apply Hi; reflexivity). subst b'.
              rewrite !PositiveMap.gss. split; discriminate.
           ++ assert (b' <> b) by (intros ->; apply Hna; symmetry; apply Hi; reflexivity).
              rewrite !PositiveMap.gso by assumption. apply Hf. exact Hab.
      * apply IH; [exact Hr | split; assumption | exact HL].
Qed.

(** related edges have the same node count *)
Theorem count_reach_bisim : arity_ok s1 -> arity_ok s2 ->
  forall e1 e2, R (eref e1) (eref e2) -> count_reach s1 e1 = count_reach s2 e2.
Proof.
  intros A1 A2 e1 e2 HR.
  set (F1 := let n := PositiveMap.cardinal (s_nodes s1) in
             let fuel := S (n * S (arity (s_kind s1)) + length (s_terms s1) + 1) in fuel + fuel).
  set (F2 := let n := PositiveMap.cardinal (s_nodes s2) in
             let fuel := S (n * S (arity (s_kind s2)) + length (s_terms s2) + 1) in fuel + fuel).
  rewrite (count_reach_fuel s1 A1 e1 (Nat.max F1 F2)) by (fold F1; lia).
  rewrite (count_reach_fuel s2 A2 e2 (Nat.max F1 F2)) by (fold F2; lia).
  destruct (reach_lockstep (Nat.max F1 F2) [eref e1] [eref e2]
              (PositiveMap.empty unit) (PositiveMap.empty unit) [] [])
    as [[Hc _] [Hl _]].
  - constructor; [exact HR | constructor].
  - split; [reflexivity|]. intros a b _. rewrite !PositiveMap.gempty. tauto.
  - split; [reflexivity|]. intros t u _. simpl. tauto.
  - rewrite Hc, Hl. reflexivity.
Qed.

End Bisim.

(** ** Two BDD tables: the node count is a function of the denotation *)

Section TwoTables.
Variables s1 s2 : snap.
Hypothesis B1 : BddOK s1.
Hypothesis B2 : BddOK s2.
Hypothesis Hlev : nlevels s1 = nlevels s2.

(** the two references denote the same function (of the level-indexed choice) *)
Definition same_den (r1 r2 : ref) : Prop :=
  exists phi, Den s1 r1 phi /\ Den s2 r2 phi.

Lemma same_den_level : forall r1 r2, same_den r1 r2 -> rlevel s1 r1 = rlevel s2 r2.
Proof.
  intros r1 r2 [phi [D1 D2]].
  pose proof (den_indep s1 r1 phi (bo_wf s1 B1) D1) as I1.
  pose proof (den_indep s2 r2 phi (bo_wf s2 B2) D2) as I2.
  pose proof (rlevel_le s1 (bo_wf s1 B1) r1) as L1.
  pose proof (rlevel_le s2 (bo_wf s2 B2) r2) as L2.
  pose proof (den_level s2 r2 phi (rlevel s1 r1) B2 D2 ltac:(lia) I1).
  pose proof (den_level s1 r1 phi (rlevel s2 r2) B1 D1 ltac:(lia) I2).
  lia.
Qed.

Lemma same_den_bisim : bisim s1 s2 same_den.
Proof.
  pose proof (bo_wf s1 B1) as H1. pose proof (bo_wf s2 B2) as H2.
  constructor.
  - intros r1 r2 HR. pose proof (same_den_level r1 r2 HR) as Hl.
    destruct HR as [phi [D1 D2]].
    destruct r1 as [t|a], r2 as [u|b]; auto.
    + destruct (proj1 D2) as [nd E]. rewrite (rlevel_node s2 b nd E) in Hl. simpl in Hl.
      pose proof (wf_level s2 H2 b nd E). lia.
    + destruct (proj1 D1) as [nd E]. rewrite (rlevel_node s1 a nd E) in Hl. simpl in Hl.
      pose proof (wf_level s1 H1 a nd E). lia.
  - intros a b HR. pose proof (same_den_level _ _ HR) as Hl. destruct HR as [phi [D1 D2]].
    destruct (proj1 D1) as [n1 E1]. destruct (proj1 D2) as [n2 E2]. rewrite E1, E2.
    rewrite (rlevel_node s1 a n1 E1), (rlevel_node s2 b n2 E2) in Hl.
    destruct (bdd_children s1 a n1 B1 E1) as [x0 [x1 Ex]].
    destruct (bdd_children s2 b n2 B2 E2) as [y0 [y1 Ey]].
    rewrite Ex, Ey. simpl.
    assert (Hx0 : nth_error (nchildren n1) 0 = Some x0) by (rewrite Ex; reflexivity).
    assert (Hx1 : nth_error (nchildren n1) 1 = Some x1) by (rewrite Ex; reflexivity).
    assert (Hy0 : nth_error (nchildren n2) 0 = Some y0) by (rewrite Ey; reflexivity).
    assert (Hy1 : nth_error (nchildren n2) 1 = Some y1) by (rewrite Ey; reflexivity).
    constructor; [|constructor; [|constructor]].
    + exists (cofn phi (nlevel n1) 0). split; [apply (den_child s1 a n1 0 x0 phi B1 D1 E1 Hx0)|].
      rewrite Hl. apply (den_child s2 b n2 0 y0 phi B2 D2 E2 Hy0).
    + exists (cofn phi (nlevel n1) 1). split; [apply (den_child s1 a n1 1 x1 phi B1 D1 E1 Hx1)|].
      rewrite Hl. apply (den_child s2 b n2 1 y1 phi B2 D2 E2 Hy1).
  - intros a b a' b' [phi [D1 D2]] [phi' [D1' D2']]. split; intros ->.
    + assert (Hr : RN b = RN b'); [|inversion Hr; reflexivity].
      apply (den_canon s2 _ _ phi B2 D2). apply (den_ext s2 _ phi' phi D2').
      intros c Hc. apply (den_unique s1 (RN a') phi' phi D1' D1 c Hc).
    + assert (Hr : RN a = RN a'); [|inversion Hr; reflexivity].
      apply (den_canon s1 _ _ phi B1 D1). apply (den_ext s1 _ phi' phi D1').
      intros c Hc. apply (den_unique s2 (RN b') phi' phi D2' D2 c Hc).
  - intros t u t' u' [phi [D1 D2]] [phi' [D1' D2']]. split; intros ->.
    + assert (Hr : RT u = RT u'); [|inversion Hr; reflexivity].
      apply (den_canon s2 _ _ phi B2 D2). apply (den_ext s2 _ phi' phi D2').
      intros c Hc. apply (den_unique s1 (RT t') phi' phi D1' D1 c Hc).
    + assert (Hr : RT t = RT t'); [|inversion Hr; reflexivity].
      apply (den_canon s1 _ _ phi B1 D1). apply (den_ext s1 _ phi' phi D1').
      intros c Hc. apply (den_unique s2 (RT u') phi' phi D2' D2 c Hc).
Qed.

(** same function => same node count, whatever the two tables otherwise contain *)
Theorem count_reach_den : forall r1 r2 phi, Den s1 r1 phi -> Den s2 r2 phi ->
  count_reach s1 (E r1) = count_reach s2 (E r2).
Proof.
  intros r1 r2 phi D1 D2.
  apply (count_reach_bisim s1 s2 same_den same_den_bisim
           (wf_arity_ok s1 (bo_wf s1 B1)) (wf_arity_ok s2 (bo_wf s2 B2)) (E r1) (E r2)).
  exists phi. auto.
Qed.


(** the same in terms of [semk] only *)
Theorem count_reach_sem : forall r1 r2, ref_ok s1 r1 -> ref_ok s2 r2 ->
  (forall c0, bchoice c0 -> semk s1 (FUEL s1) r1 c0 = semk s2 (FUEL s2) r2 c0) ->
  count_reach s1 (E r1) = count_reach s2 (E r2).
Proof.
  intros r1 r2 O1 O2 Hsem. destruct (den_exists s1 r1 B1 O1) as [phi D1].
  apply (count_reach_den r1 r2 phi D1). split; [exact O2|].
  intros c0 Hc. unfold FUEL in Hsem. rewrite <- (Hsem c0 Hc). apply (proj2 D1 c0 Hc).
Qed.

End TwoTables.
