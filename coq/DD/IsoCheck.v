(** * Executable check "two node tables are the same up to the naming of nodes" (GLUE)

    The correspondence drivers compare the table a model predicts ([s_m]) with
    the table the real manager shows ([s_r]).  The two agree only up to the ids
    of the nodes the operation creates: the model takes fresh ids, the manager
    re-uses slots.  This file holds the executable checker the drivers call
    (extracted); DD/IsoCheckProofs.v proves it sound and complete against the
    relational notion (an injective renaming [rho] in the sense of DD/Rename.v).

    Parameters of the core checker [iso_with]:
    - [rc]     compare reference counts as well;
    - [onto]   the renaming must hit every node of [s_r] (table isomorphism);
               [false] = embedding (every node of [s_m] has its image in [s_r],
               [s_r] may hold more: several operations between two snapshots);
    - [fixed]  ids that must keep their identity (the nodes that existed before
               the operation);
    - [roots]  pairs of edges (model, real) that must be mapped onto each other.

    Algorithm: (1) bind every fixed id of [s_m] to itself; (2) bottom-up, level
    by level from the deepest one, bind every other node of [s_m] to the node of
    [s_r] with the same level and the same renamed children (tags included),
    found through an index of [s_r]; (3) verify the finished renaming: every node
    of [s_m] is bound, its image carries the renamed node, fixed ids are bound to
    themselves, no two nodes share an image, (onto) every node of [s_r] is an
    image, every root pair matches.  Soundness rests on (3) alone; (2) matters
    for completeness.  Linear in the two tables (positive-keyed maps).

    Executable definitions only. *)

From Coq Require Import List NArith PArith Bool Arith FMapPositive.
From OxiVerif Require Import DD.Table.
Import ListNotations.

(** finite renaming: model id |-> real id *)
Definition rmap := PositiveMap.t positive.

Definition ren_ref (r : rmap) (x : ref) : option ref :=
  match x with
  | RT t => Some (RT t)
  | RN id => match PositiveMap.find id r with Some b => Some (RN b) | None => None end
  end.

Definition ren_edge (r : rmap) (e : edge) : option edge :=
  match ren_ref r (eref e) with Some x => Some (mkEdge x (etag e)) | None => None end.

Fixpoint ren_edges (r : rmap) (l : list edge) : option (list edge) :=
  match l with
  | [] => Some []
  | e :: t =>
    match ren_edge r e, ren_edges r t with
    | Some a, Some b => Some (a :: b)
    | _, _ => None
    end
  end.

(** ** Index of the real table: (level, children) |-> id

    Two-level positive map keyed by the first two children; the (short) bucket
    is searched with the full comparison, so the key need not be injective. *)

Definition edge_key (e : edge) : positive :=
  match eref e, etag e with
  | RT t, false => xO (xO (N.succ_pos t))
  | RT t, true => xI (xO (N.succ_pos t))
  | RN id, false => xO (xI id)
  | RN id, true => xI (xI id)
  end.

Definition key2 (ch : list edge) : positive * positive :=
  match ch with
  | [] => (xH, xH)
  | a :: [] => (edge_key a, xH)
  | a :: b :: _ => (edge_key a, edge_key b)
  end.

Definition idx_t := PositiveMap.t (PositiveMap.t (list (positive * node))).

Definition idx_bucket (ix : idx_t) (ch : list edge) : list (positive * node) :=
  match PositiveMap.find (fst (key2 ch)) ix with
  | None => []
  | Some m => match PositiveMap.find (snd (key2 ch)) m with None => [] | Some l => l end
  end.

Definition idx_add (ix : idx_t) (p : positive * node) : idx_t :=
  let k := key2 (nchildren (snd p)) in
  let m := match PositiveMap.find (fst k) ix with Some m => m | None => PositiveMap.empty _ end in
  let l := match PositiveMap.find (snd k) m with Some l => l | None => [] end in
  PositiveMap.add (fst k) (PositiveMap.add (snd k) (p :: l) m) ix.

Definition build_idx (s : snap) : idx_t :=
  fold_left idx_add (PositiveMap.elements (s_nodes s)) (PositiveMap.empty _).

Fixpoint bucket_find (l : nat) (ch : list edge) (b : list (positive * node)) : option positive :=
  match b with
  | [] => None
  | p :: t =>
    if Nat.eqb (nlevel (snd p)) l && edges_eqb (nchildren (snd p)) ch then Some (fst p)
    else bucket_find l ch t
  end.

Definition idx_lookup (ix : idx_t) (l : nat) (ch : list edge) : option positive :=
  bucket_find l ch (idx_bucket ix ch).

(** ** The nodes of the model's table by level *)

Definition lvl_t := PositiveMap.t (list (positive * node)).

Definition lvl_get (lb : lvl_t) (l : nat) : list (positive * node) :=
  match PositiveMap.find (Pos.of_succ_nat l) lb with Some x => x | None => [] end.

Definition lvl_add (lb : lvl_t) (p : positive * node) : lvl_t :=
  PositiveMap.add (Pos.of_succ_nat (nlevel (snd p))) (p :: lvl_get lb (nlevel (snd p))) lb.

Definition build_lvl (els : list (positive * node)) : lvl_t :=
  fold_left lvl_add els (PositiveMap.empty _).

(** ** (1), (2): construction of the renaming *)

Definition bind_fixed (fixed : positive -> bool) (els : list (positive * node)) : rmap :=
  fold_left (fun r (p : positive * node) => if fixed (fst p) then PositiveMap.add (fst p) (fst p) r else r)
            els (PositiveMap.empty _).

Definition bind_node (ix : idx_t) (fixed : positive -> bool) (r : rmap) (p : positive * node) : option rmap :=
  if fixed (fst p) then Some r
  else
    match ren_edges r (nchildren (snd p)) with
    | None => None
    | Some ch =>
      match idx_lookup ix (nlevel (snd p)) ch with
      | None => None
      | Some b => Some (PositiveMap.add (fst p) b r)
      end
    end.

Fixpoint bind_list (ix : idx_t) (fixed : positive -> bool) (r : rmap) (l : list (positive * node)) : option rmap :=
  match l with
  | [] => Some r
  | p :: t =>
    match bind_node ix fixed r p with
    | Some r' => bind_list ix fixed r' t
    | None => None
    end
  end.

(** levels [n-1], [n-2], ..., [0] *)
Fixpoint bind_levels (ix : idx_t) (fixed : positive -> bool) (lb : lvl_t) (n : nat) (r : rmap) : option rmap :=
  match n with
  | O => Some r
  | S k =>
    match bind_list ix fixed r (lvl_get lb k) with
    | Some r' => bind_levels ix fixed lb k r'
    | None => None
    end
  end.

(** ** (3): verification of the renaming *)

Definition node_match_b (rc : bool) (r : rmap) (nd nd' : node) : bool :=
  Nat.eqb (nlevel nd) (nlevel nd') && Nat.eqb (nstored nd) (nstored nd')
  && (if rc then N.eqb (nrc nd) (nrc nd') else true)
  && match ren_edges r (nchildren nd) with
     | Some ch => edges_eqb ch (nchildren nd')
     | None => false
     end.

(** [inv]: real id |-> model id, the images seen so far *)
Definition check_node (rc : bool) (fixed : positive -> bool) (r : rmap) (s_r : snap)
    (inv : rmap) (p : positive * node) : option rmap :=
  match PositiveMap.find (fst p) r with
  | None => None
  | Some b =>
    match find_node s_r b with
    | None => None
    | Some nd' =>
      if node_match_b rc r (snd p) nd' && (if fixed (fst p) then Pos.eqb b (fst p) else true) then
        match PositiveMap.find b inv with
        | Some _ => None
        | None => Some (PositiveMap.add b (fst p) inv)
        end
      else None
    end
  end.

Fixpoint check_all (rc : bool) (fixed : positive -> bool) (r : rmap) (s_r : snap)
    (l : list (positive * node)) (inv : rmap) : option rmap :=
  match l with
  | [] => Some inv
  | p :: t =>
    match check_node rc fixed r s_r inv p with
    | Some inv' => check_all rc fixed r s_r t inv'
    | None => None
    end
  end.

Definition onto_b (s_r : snap) (inv : rmap) : bool :=
  forallb (fun p : positive * node => match PositiveMap.find (fst p) inv with Some _ => true | None => false end)
          (PositiveMap.elements (s_nodes s_r)).

Definition roots_b (r : rmap) (roots : list (edge * edge)) : bool :=
  forallb (fun p : edge * edge =>
             match ren_edge r (fst p) with Some e => edge_eqb e (snd p) | None => false end) roots.

(** ** The checker.  [ix] must be [build_idx s_r] (computed once per real
    snapshot by the caller when several model tables are compared with it). *)
Definition iso_with (ix : idx_t) (rc onto : bool) (fixed : positive -> bool)
    (s_m s_r : snap) (roots : list (edge * edge)) : option rmap :=
  let els := PositiveMap.elements (s_nodes s_m) in
  match bind_levels ix fixed (build_lvl els) (nlevels s_m) (bind_fixed fixed els) with
  | None => None
  | Some r =>
    match check_all rc fixed r s_r els (PositiveMap.empty _) with
    | None => None
    | Some inv =>
      if (if onto then onto_b s_r inv else true) && roots_b r roots then Some r else None
    end
  end.

Definition iso_core (rc onto : bool) (fixed : positive -> bool)
    (s_m s_r : snap) (roots : list (edge * edge)) : option rmap :=
  iso_with (build_idx s_r) rc onto fixed s_m s_r roots.

(** ** What is compared literally: kind, variable order, terminals *)

Fixpoint terms_eqb (a b : list (N * N)) : bool :=
  match a, b with
  | [], [] => true
  | x :: r, y :: s => N.eqb (fst x) (fst y) && N.eqb (snd x) (snd y) && terms_eqb r s
  | _, _ => false
  end.

Definition hdr_eqb (s_m s_r : snap) : bool :=
  kind_eqb (s_kind s_m) (s_kind s_r) && nat_list_eqb (s_v2l s_m) (s_v2l s_r)
  && nat_list_eqb (s_l2v s_m) (s_l2v s_r) && terms_eqb (s_terms s_m) (s_terms s_r).

(** the handle lists as root pairs: same slots in the same order *)
Fixpoint handle_pairs (a b : list (N * edge)) : option (list (edge * edge)) :=
  match a, b with
  | [], [] => Some []
  | x :: r, y :: s =>
    if N.eqb (fst x) (fst y) then
      match handle_pairs r s with Some l => Some ((snd x, snd y) :: l) | None => None end
    else None
  | _, _ => None
  end.

(** whole snapshots: header, handles and nodes; [fixed] ids keep their identity *)
Definition iso_snap_b (fixed : positive -> bool) (s_m s_r : snap) (roots : list (edge * edge)) : option rmap :=
  if hdr_eqb s_m s_r then
    match handle_pairs (s_handles s_m) (s_handles s_r) with
    | Some hp => iso_core false true fixed s_m s_r (hp ++ roots)
    | None => None
    end
  else None.

(** ** The form of the brief: [old] = the table before the operation; every
    node of it must be stored unchanged in both tables and keeps its id *)

Definition same_shape_b (a b : node) : bool :=
  Nat.eqb (nlevel a) (nlevel b) && Nat.eqb (nstored a) (nstored b) && edges_eqb (nchildren a) (nchildren b).

Definition old_in_b (old s : snap) : bool :=
  forallb (fun p : positive * node =>
             match find_node s (fst p) with Some nd => same_shape_b (snd p) nd | None => false end)
          (PositiveMap.elements (s_nodes old)).

Definition in_snap_b (s : snap) (id : positive) : bool :=
  match find_node s id with Some _ => true | None => false end.

Definition iso_ext_b (old s_m s_r : snap) (roots : list (edge * edge)) : option rmap :=
  if old_in_b old s_m && old_in_b old s_r then iso_core false true (in_snap_b old) s_m s_r roots else None.

(** embedding variant (the real table may hold more nodes than the model's) *)
Definition iso_emb_b (old s_m s_r : snap) (roots : list (edge * edge)) : option rmap :=
  if old_in_b old s_m && old_in_b old s_r then iso_core false false (in_snap_b old) s_m s_r roots else None.

(** image of a model id under a computed renaming (for the drivers' statistics) *)
Definition rmap_find (r : rmap) (id : positive) : option positive := PositiveMap.find id r.
