(** * The table-isomorphism checker of DD/IsoCheck.v is sound and complete (GLUE)

    Relational notion ([iso_rel]): a renaming [rho] of node ids, injective on
    the ids of the model's table [s_m], that fixes the [fixed] ids, under which
    every node of [s_m] is stored in [s_r] as its renamed copy
    ([rename_edge rho] on the children, DD/Rename.v; levels, stored levels, tags
    and - optionally - reference counts equal), that (onto) reaches every node
    of [s_r], and maps every root pair onto each other.

    - [iso_with_sound]: whatever index the caller passes, a result [Some r]
      yields a GLOBALLY injective [rho] (in the sense of DD/RenameProofs.v)
      that extends [r] and satisfies [iso_rel];
    - [iso_core_complete]: if any [rho] satisfies [iso_rel], the model's table
      is closed with children on deeper levels below [nlevels] (part of [WF])
      and the real table has no duplicate nodes (part of [WF]), the checker
      answers [Some r] and [r] is [rho] on the model's ids;
    - [iso_rel_rename]: with [onto], [iso_rel] says that [rename_snap rho s_m]
      and [s_r] store the same nodes ([find_node] agrees at every id, reference
      counts set aside unless [rc]);
    - [iso_sem_edge]: equal headers + [iso_rel] (embedding suffices) => mapped
      edges have the same value under every choice, for all five kinds;
      [iso_famz]: ... and denote the same ZBDD family. *)

From Coq Require Import List NArith PArith Bool Arith Lia FMapPositive.
From OxiVerif Require Import DD.Table DD.TableExtra DD.TableProofs DD.Rename DD.RenameProofs DD.FamSpecProofs DD.IsoCheck.
Import ListNotations.

(** ** The relation *)

Definition in_m (s : snap) (id : positive) : Prop := exists nd, find_node s id = Some nd.

Definition node_match (rc : bool) (rho : positive -> positive) (nd nd' : node) : Prop :=
  nlevel nd = nlevel nd' /\ nstored nd = nstored nd' /\ (rc = true -> nrc nd = nrc nd') /\
  map (rename_edge rho) (nchildren nd) = nchildren nd'.

Definition root_in (s : snap) (e : edge) : Prop :=
  match eref e with RN id => in_m s id | RT _ => True end.

Record iso_rel (rc onto : bool) (fixed : positive -> bool) (s_m s_r : snap)
    (roots : list (edge * edge)) (rho : positive -> positive) : Prop := mkIsoRel {
  ir_inj : forall a b, in_m s_m a -> in_m s_m b -> rho a = rho b -> a = b;
  ir_fixed : forall a, in_m s_m a -> fixed a = true -> rho a = a;
  ir_node : forall a nd, find_node s_m a = Some nd ->
    exists nd', find_node s_r (rho a) = Some nd' /\ node_match rc rho nd nd';
  ir_onto : onto = true -> forall j nd', find_node s_r j = Some nd' -> exists a, in_m s_m a /\ rho a = j;
  ir_roots : forall p, In p roots -> root_in s_m (fst p) /\ rename_edge rho (fst p) = snd p
}.

(** ** Renaming edges through a finite map *)

Definition agrees (r : rmap) (rho : positive -> positive) : Prop :=
  forall id b, PositiveMap.find id r = Some b -> rho id = b.

Definition bound_to (r : rmap) (rho : positive -> positive) (e : edge) : Prop :=
  forall id, eref e = RN id -> PositiveMap.find id r = Some (rho id).

Lemma ren_edge_sound : forall r rho e e', agrees r rho -> ren_edge r e = Some e' -> e' = rename_edge rho e.
Proof.
  intros r rho [x t] e' A. unfold ren_edge, rename_edge. simpl.
  destruct x as [n|id]; simpl.
  - intros E; inversion E; reflexivity.
  - destruct (PositiveMap.find id r) as [b|] eqn:F; [|discriminate].
    intros E; inversion E. rewrite (A _ _ F). reflexivity.
Qed.

Lemma ren_edges_sound : forall r rho l l', agrees r rho ->
  ren_edges r l = Some l' -> l' = map (rename_edge rho) l.
Proof.
  intros r rho. induction l as [|a l IH]; simpl; intros l' A E; [inversion E; reflexivity|].
  destruct (ren_edge r a) as [a'|] eqn:Ea; [|discriminate].
  destruct (ren_edges r l) as [t|] eqn:El; [|discriminate].
  inversion E. f_equal; [eapply ren_edge_sound; eauto | apply IH; auto].
Qed.

Lemma ren_edge_bound : forall r e e', ren_edge r e = Some e' ->
  forall id, eref e = RN id -> PositiveMap.find id r <> None.
Proof.
  intros r [x t] e' E id Hx. simpl in Hx. subst x. unfold ren_edge in E. simpl in E.
  destruct (PositiveMap.find id r); [discriminate | discriminate].
Qed.

Lemma ren_edge_complete : forall r rho e, bound_to r rho e -> ren_edge r e = Some (rename_edge rho e).
Proof.
  intros r rho [x t] B. unfold ren_edge, rename_edge. simpl.
  destruct x as [n|id]; simpl; [reflexivity|].
  rewrite (B id eq_refl). reflexivity.
Qed.

Lemma ren_edges_complete : forall r rho l, (forall e, In e l -> bound_to r rho e) ->
  ren_edges r l = Some (map (rename_edge rho) l).
Proof.
  intros r rho. induction l as [|a l IH]; simpl; intros B; [reflexivity|].
  rewrite (ren_edge_complete r rho a) by (apply B; left; reflexivity).
  rewrite IH by (intros e He; apply B; right; exact He). reflexivity.
Qed.

(** ** The index of the real table *)

Lemma idx_bucket_add : forall ix q ch p,
  In p (idx_bucket (idx_add ix q) ch) <->
  (p = q /\ key2 (nchildren (snd q)) = key2 ch) \/ In p (idx_bucket ix ch).
Proof.
  intros ix q ch p. unfold idx_bucket, idx_add. cbv zeta.
  set (kq := key2 (nchildren (snd q))). set (k := key2 ch).
  assert (Hk : kq = k <-> fst kq = fst k /\ snd kq = snd k).
  { destruct kq, k; simpl; split; [intros E; inversion E; auto | intros [-> ->]; reflexivity]. }
  destruct (Pos.eq_dec (fst kq) (fst k)) as [E1|N1].
  - rewrite E1, PositiveMap.gss.
    destruct (Pos.eq_dec (snd kq) (snd k)) as [E2|N2].
    + rewrite E2, PositiveMap.gss. simpl.
      destruct (PositiveMap.find (fst k) ix) as [m|].
      * destruct (PositiveMap.find (snd k) m); simpl; intuition (subst; auto).
      * rewrite PositiveMap.gempty. simpl. intuition (subst; auto).
    + rewrite PositiveMap.gso by (intros E; apply N2; symmetry; exact E).
      destruct (PositiveMap.find (fst k) ix) as [m|].
      * split; [auto|]. intros [[_ E]|H]; [|exact H]. apply Hk in E. destruct E. contradiction.
      * rewrite PositiveMap.gempty. split; [auto|]. intros [[_ E]|H]; [|exact H].
        apply Hk in E. destruct E. contradiction.
  - rewrite PositiveMap.gso by (intros E; apply N1; symmetry; exact E).
    split; [auto|]. intros [[_ E]|H]; [|exact H]. apply Hk in E. destruct E. contradiction.
Qed.

Lemma idx_fold_sound : forall l ix ch p,
  In p (idx_bucket (fold_left idx_add l ix) ch) -> In p l \/ In p (idx_bucket ix ch).
Proof.
  induction l as [|q l IH]; simpl; intros ix ch p H; [auto|].
  destruct (IH _ _ _ H) as [H1|H1]; [auto|].
  apply idx_bucket_add in H1. destruct H1 as [[-> _]|H1]; auto.
Qed.

Lemma idx_fold_mono : forall l ix ch p,
  In p (idx_bucket ix ch) -> In p (idx_bucket (fold_left idx_add l ix) ch).
Proof.
  induction l as [|q l IH]; simpl; intros ix ch p H; [exact H|].
  apply IH. apply idx_bucket_add. right. exact H.
Qed.

Lemma idx_fold_complete : forall l ix p,
  In p l -> In p (idx_bucket (fold_left idx_add l ix) (nchildren (snd p))).
Proof.
  induction l as [|q l IH]; simpl; intros ix p H; [destruct H|].
  destruct H as [->|H]; [|apply IH; exact H].
  apply idx_fold_mono. apply idx_bucket_add. left. auto.
Qed.

Lemma bucket_find_sound : forall l ch b id, bucket_find l ch b = Some id ->
  exists nd, In (id, nd) b /\ nlevel nd = l /\ nchildren nd = ch.
Proof.
  intros l ch. induction b as [|[i nd] b IH]; simpl; intros id E; [discriminate|].
  destruct (Nat.eqb (nlevel nd) l && edges_eqb (nchildren nd) ch) eqn:T.
  - inversion E; subst. apply andb_true_iff in T. destruct T as [T1 T2].
    apply Nat.eqb_eq in T1. apply edges_eqb_eq in T2. exists nd. auto.
  - destruct (IH _ E) as [nd' [H1 H2]]. exists nd'. auto.
Qed.

Lemma bucket_find_complete : forall l ch b id nd, In (id, nd) b -> nlevel nd = l -> nchildren nd = ch ->
  exists id', bucket_find l ch b = Some id'.
Proof.
  intros l ch. induction b as [|[i n] b IH]; simpl; intros id nd H Hl Hc; [destruct H|].
  destruct (Nat.eqb (nlevel n) l && edges_eqb (nchildren n) ch) eqn:T; [eauto|].
  destruct H as [E|H]; [|eapply IH; eauto].
  inversion E; subst. rewrite Nat.eqb_refl in T. simpl in T.
  assert (edges_eqb (nchildren nd) (nchildren nd) = true) by (apply edges_eqb_eq; reflexivity). congruence.
Qed.

Lemma idx_lookup_sound : forall s l ch b, idx_lookup (build_idx s) l ch = Some b ->
  exists nd, find_node s b = Some nd /\ nlevel nd = l /\ nchildren nd = ch.
Proof.
  intros s l ch b E. unfold idx_lookup in E. apply bucket_find_sound in E.
  destruct E as [nd [H [Hl Hc]]]. exists nd. split; [|auto].
  unfold build_idx in H. apply idx_fold_sound in H. destruct H as [H|H].
  - apply find_node_elements. exact H.
  - unfold idx_bucket in H. rewrite PositiveMap.gempty in H. destruct H.
Qed.

Lemma idx_lookup_complete : forall s b nd, find_node s b = Some nd ->
  exists b', idx_lookup (build_idx s) (nlevel nd) (nchildren nd) = Some b'.
Proof.
  intros s b nd E. unfold idx_lookup. apply find_node_elements in E.
  apply (bucket_find_complete _ _ _ b nd); [|reflexivity|reflexivity].
  unfold build_idx. apply (idx_fold_complete _ _ (b, nd)). exact E.
Qed.

(** ** The level buckets of the model's table *)

Lemma lvl_get_add : forall lb q l p,
  In p (lvl_get (lvl_add lb q) l) <-> (p = q /\ nlevel (snd q) = l) \/ In p (lvl_get lb l).
Proof.
  intros lb q l p. unfold lvl_add. unfold lvl_get at 1.
  destruct (Nat.eq_dec (nlevel (snd q)) l) as [E|N].
  - rewrite E, PositiveMap.gss. simpl. intuition (subst; auto).
  - rewrite PositiveMap.gso by (intros E; apply N; apply SuccNat2Pos.inj; symmetry; exact E).
    fold (lvl_get lb l). intuition.
Qed.

Lemma lvl_fold : forall els lb l p,
  In p (lvl_get (fold_left lvl_add els lb) l) <-> (In p els /\ nlevel (snd p) = l) \/ In p (lvl_get lb l).
Proof.
  induction els as [|q els IH]; simpl; intros lb l p; [tauto|].
  rewrite IH, lvl_get_add. split.
  - intros [[H1 H2]|[[-> H2]|H]]; auto.
  - intros [[[<-|H1] H2]|H]; auto.
Qed.

Lemma build_lvl_spec : forall els l p,
  In p (lvl_get (build_lvl els) l) <-> In p els /\ nlevel (snd p) = l.
Proof.
  intros els l p. unfold build_lvl. rewrite lvl_fold. unfold lvl_get.
  rewrite PositiveMap.gempty. simpl. tauto.
Qed.

(** ** Soundness *)

(** what the construction (1), (2) guarantees by itself: only ids of the model's table are bound *)
Definition dom_sub (r : rmap) (P : positive -> Prop) : Prop :=
  forall a b, PositiveMap.find a r = Some b -> P a.

Lemma bind_fixed_dom : forall (fixed : positive -> bool) (P : positive -> Prop) l r0, dom_sub r0 P -> (forall p, In p l -> P (fst p)) ->
  dom_sub (fold_left (fun (r : rmap) (p : positive * node) => if fixed (fst p) then PositiveMap.add (fst p) (fst p) r else r) l r0) P.
Proof.
  intros fixed P. induction l as [|p l IH]; simpl; intros r0 D HP; [exact D|].
  apply IH; [|intros q Hq; apply HP; right; exact Hq].
  destruct (fixed (fst p)); [|exact D].
  intros a b E. destruct (Pos.eq_dec a (fst p)) as [->|N]; [apply HP; left; reflexivity|].
  rewrite PositiveMap.gso in E by exact N. exact (D _ _ E).
Qed.

Lemma bind_node_dom : forall ix fixed (P : positive -> Prop) r p r', dom_sub r P -> P (fst p) ->
  bind_node ix fixed r p = Some r' -> dom_sub r' P.
Proof.
  intros ix fixed P r p r' D HP E. unfold bind_node in E.
  destruct (fixed (fst p)); [inversion E; subst; exact D|].
  destruct (ren_edges r (nchildren (snd p))) as [ch|]; [|discriminate].
  destruct (idx_lookup ix (nlevel (snd p)) ch) as [b|]; [|discriminate].
  inversion E; subst. intros a b' F. destruct (Pos.eq_dec a (fst p)) as [->|N]; [exact HP|].
  rewrite PositiveMap.gso in F by exact N. exact (D _ _ F).
Qed.

Lemma bind_list_dom : forall ix fixed (P : positive -> Prop) l r r', dom_sub r P -> (forall p, In p l -> P (fst p)) ->
  bind_list ix fixed r l = Some r' -> dom_sub r' P.
Proof.
  intros ix fixed P. induction l as [|p l IH]; simpl; intros r r' D HP E; [inversion E; subst; exact D|].
  destruct (bind_node ix fixed r p) as [r1|] eqn:E1; [|discriminate].
  apply (IH r1 r'); [|intros q Hq; apply HP; right; exact Hq|exact E].
  apply (bind_node_dom ix fixed P r p r1 D); [apply HP; left; reflexivity|exact E1].
Qed.

Lemma bind_levels_dom : forall ix fixed (P : positive -> Prop) lb n r r', dom_sub r P ->
  (forall k p, In p (lvl_get lb k) -> P (fst p)) ->
  bind_levels ix fixed lb n r = Some r' -> dom_sub r' P.
Proof.
  intros ix fixed P lb. induction n as [|k IH]; simpl; intros r r' D HP E; [inversion E; subst; exact D|].
  destruct (bind_list ix fixed r (lvl_get lb k)) as [r1|] eqn:E1; [|discriminate].
  apply (IH r1 r'); [|exact HP|exact E].
  apply (bind_list_dom ix fixed P (lvl_get lb k) r r1 D); [apply HP|exact E1].
Qed.

(** what the verification (3) establishes *)
Lemma check_all_spec : forall rc fixed r s_r l inv0 inv,
  check_all rc fixed r s_r l inv0 = Some inv ->
  (forall p, In p l -> exists b nd',
      PositiveMap.find (fst p) r = Some b /\ find_node s_r b = Some nd' /\
      node_match_b rc r (snd p) nd' = true /\ (fixed (fst p) = true -> b = fst p) /\
      PositiveMap.find b inv = Some (fst p)) /\
  (forall b a, PositiveMap.find b inv0 = Some a -> PositiveMap.find b inv = Some a) /\
  (forall b a, PositiveMap.find b inv = Some a ->
      PositiveMap.find b inv0 = Some a \/ exists nd, In (a, nd) l /\ PositiveMap.find a r = Some b).
Proof.
  intros rc fixed r s_r. induction l as [|p l IH]; simpl; intros inv0 inv E.
  - inversion E; subst. split; [intros p []|]. split; auto.
  - destruct (check_node rc fixed r s_r inv0 p) as [inv1|] eqn:E1; [|discriminate].
    destruct (IH _ _ E) as [H1 [H2 H3]].
    unfold check_node in E1.
    destruct (PositiveMap.find (fst p) r) as [b|] eqn:Fr; [|discriminate].
    destruct (find_node s_r b) as [nd'|] eqn:Fn; [|discriminate].
    destruct (node_match_b rc r (snd p) nd' && (if fixed (fst p) then Pos.eqb b (fst p) else true)) eqn:T; [|discriminate].
    destruct (PositiveMap.find b inv0) eqn:Fi; [discriminate|]. inversion E1; subst inv1. clear E1.
    apply andb_true_iff in T. destruct T as [T1 T2].
    split; [|split].
    + intros q [<-|Hq]; [|apply H1; exact Hq].
      exists b, nd'. repeat split; auto.
      * intros Hf. rewrite Hf in T2. apply Pos.eqb_eq in T2. exact T2.
      * apply H2. apply PositiveMap.gss.
    + intros b' a F. apply H2. destruct (Pos.eq_dec b' b) as [->|N]; [congruence|].
      rewrite PositiveMap.gso by exact N. exact F.
    + intros b' a F. destruct (H3 _ _ F) as [F'|[nd [Hin Hr]]].
      * destruct (Pos.eq_dec b' b) as [->|N].
        -- rewrite PositiveMap.gss in F'. inversion F'; subst a. right. exists (snd p). split; [left; destruct p; reflexivity|exact Fr].
        -- rewrite PositiveMap.gso in F' by exact N. left. exact F'.
      * right. exists nd. split; [right; exact Hin|exact Hr].
Qed.

Lemma node_match_b_sound : forall rc r rho nd nd', agrees r rho ->
  node_match_b rc r nd nd' = true -> node_match rc rho nd nd'.
Proof.
  intros rc r rho nd nd' A T. unfold node_match_b in T.
  apply andb_true_iff in T. destruct T as [T T4]. apply andb_true_iff in T. destruct T as [T T3].
  apply andb_true_iff in T. destruct T as [T1 T2].
  apply Nat.eqb_eq in T1. apply Nat.eqb_eq in T2.
  destruct (ren_edges r (nchildren nd)) as [ch|] eqn:Ec; [|discriminate].
  apply edges_eqb_eq in T4. apply (ren_edges_sound r rho) in Ec; [|exact A].
  repeat split; auto.
  - intros ->. apply N.eqb_eq in T3. exact T3.
  - congruence.
Qed.

(** the global renaming: the finite map, and a shift beyond every id of the real table elsewhere *)
Definition maxkey (m : PositiveMap.t node) : positive :=
  fold_left (fun acc (p : positive * node) => Pos.max acc (fst p)) (PositiveMap.elements m) 1%positive.

Lemma maxkey_fold : forall (l : list (positive * node)) acc,
  (acc <= fold_left (fun acc (p : positive * node) => Pos.max acc (fst p)) l acc)%positive /\
  forall p, In p l -> (fst p <= fold_left (fun acc (p : positive * node) => Pos.max acc (fst p)) l acc)%positive.
Proof.
  induction l as [|q l IH]; simpl; intros acc; [split; [lia|intros p []]|].
  destruct (IH (Pos.max acc (fst q))) as [H1 H2]. split; [lia|].
  intros p [<-|Hp]; [lia|apply H2; exact Hp].
Qed.

Lemma maxkey_le : forall s j nd, find_node s j = Some nd -> (j <= maxkey (s_nodes s))%positive.
Proof.
  intros s j nd E. apply find_node_elements in E. unfold maxkey.
  apply (proj2 (maxkey_fold _ 1%positive) (j, nd) E).
Qed.

Definition rho_of (r : rmap) (M : positive) : positive -> positive :=
  fun id => match PositiveMap.find id r with Some b => b | None => (id + M)%positive end.

Theorem iso_with_sound : forall ix rc onto fixed s_m s_r roots r,
  iso_with ix rc onto fixed s_m s_r roots = Some r ->
  exists rho, injective rho /\ agrees r rho /\
    (forall a, in_m s_m a -> PositiveMap.find a r = Some (rho a)) /\
    iso_rel rc onto fixed s_m s_r roots rho.
Proof.
  intros ix rc onto fixed s_m s_r roots r E. unfold iso_with in E.
  set (els := PositiveMap.elements (s_nodes s_m)) in *.
  destruct (bind_levels ix fixed (build_lvl els) (nlevels s_m) (bind_fixed fixed els)) as [r1|] eqn:EB; [|discriminate].
  destruct (check_all rc fixed r1 s_r els (PositiveMap.empty positive)) as [inv|] eqn:EC; [|discriminate].
  destruct ((if onto then onto_b s_r inv else true) && roots_b r1 roots) eqn:ET; [|discriminate].
  inversion E; subst r1. clear E. apply andb_true_iff in ET. destruct ET as [EO ER].
  set (P := fun a : positive => In a (map fst els)).
  assert (D : dom_sub r P).
  { apply (bind_levels_dom ix fixed P (build_lvl els) (nlevels s_m) (bind_fixed fixed els) r); [| |exact EB].
    - unfold bind_fixed. apply bind_fixed_dom.
      + intros a b F. rewrite PositiveMap.gempty in F. discriminate.
      + intros p Hp. apply in_map. exact Hp.
    - intros k p Hp. apply build_lvl_spec in Hp. apply in_map. apply Hp. }
  destruct (check_all_spec _ _ _ _ _ _ _ EC) as [C1 [_ C3]].
  assert (Pin : forall a, P a -> exists nd, In (a, nd) els).
  { intros a Ha. apply in_map_iff in Ha. destruct Ha as [[a' nd] [<- Hin]]. exists nd. exact Hin. }
  set (M := maxkey (s_nodes s_r)). set (rho := rho_of r M).
  assert (A : agrees r rho) by (intros id b F; unfold rho, rho_of; rewrite F; reflexivity).
  assert (B : forall a, in_m s_m a -> PositiveMap.find a r = Some (rho a)).
  { intros a [nd Ea]. apply find_node_elements in Ea. destruct (C1 _ Ea) as [b [nd' [F _]]]. simpl in F.
    rewrite F. f_equal. symmetry. apply A. exact F. }
  assert (Hinj : injective rho).
  { intros a b Eab. unfold rho, rho_of in Eab.
    destruct (PositiveMap.find a r) as [x|] eqn:Fa, (PositiveMap.find b r) as [y|] eqn:Fb.
    - subst y. destruct (Pin a (D _ _ Fa)) as [na Ha]. destruct (Pin b (D _ _ Fb)) as [nb Hb].
      destruct (C1 _ Ha) as [x1 [n1 [F1 [_ [_ [_ I1]]]]]]. destruct (C1 _ Hb) as [x2 [n2 [F2 [_ [_ [_ I2]]]]]].
      simpl in *. congruence.
    - exfalso. destruct (Pin a (D _ _ Fa)) as [na Ha]. destruct (C1 _ Ha) as [x1 [n1 [F1 [N1 _]]]]. simpl in F1.
      assert (x1 = x) by congruence. subst x1. pose proof (maxkey_le _ _ _ N1). fold M in H. lia.
    - exfalso. destruct (Pin b (D _ _ Fb)) as [nb Hb]. destruct (C1 _ Hb) as [x1 [n1 [F1 [N1 _]]]]. simpl in F1.
      assert (x1 = y) by congruence. subst x1. pose proof (maxkey_le _ _ _ N1). fold M in H. lia.
    - apply Pos.add_reg_r in Eab. exact Eab. }
  exists rho. split; [exact Hinj|]. split; [exact A|]. split; [exact B|]. constructor.
  - intros a b _ _. apply Hinj.
  - intros a [nd Ea] Hf. apply find_node_elements in Ea. destruct (C1 _ Ea) as [b [nd' [F [_ [_ [Hfx _]]]]]]. simpl in *.
    rewrite (A _ _ F). apply Hfx. exact Hf.
  - intros a nd Ea. apply find_node_elements in Ea. destruct (C1 _ Ea) as [b [nd' [F [Fn [Tm _]]]]]. simpl in *.
    exists nd'. rewrite (A _ _ F). split; [exact Fn|]. apply (node_match_b_sound rc r rho _ _ A Tm).
  - intros -> j nd' Ej. unfold onto_b in EO. rewrite forallb_forall in EO.
    apply find_node_elements in Ej. specialize (EO _ Ej). simpl in EO.
    destruct (PositiveMap.find j inv) as [a|] eqn:Fi; [|discriminate].
    destruct (C3 _ _ Fi) as [F0|[nd [Hin Hr]]]; [rewrite PositiveMap.gempty in F0; discriminate|].
    exists a. split; [exists nd; apply find_node_elements; exact Hin|]. apply A. exact Hr.
  - intros p Hp. unfold roots_b in ER. rewrite forallb_forall in ER. specialize (ER _ Hp).
    destruct (ren_edge r (fst p)) as [e'|] eqn:Ee; [|discriminate]. apply edge_eqb_eq in ER. subst e'.
    split.
    + unfold root_in. destruct (eref (fst p)) as [t|id] eqn:Er; [exact I|].
      pose proof (ren_edge_bound _ _ _ Ee id Er) as Hb.
      destruct (PositiveMap.find id r) as [b|] eqn:F; [|congruence].
      destruct (Pin id (D _ _ F)) as [nd Hin]. exists nd. apply find_node_elements. exact Hin.
    + symmetry. apply (ren_edge_sound r rho _ _ A Ee).
Qed.

(** ** Completeness *)

Lemma node_match_b_complete : forall rc r rho nd nd', node_match rc rho nd nd' ->
  (forall e, In e (nchildren nd) -> bound_to r rho e) -> node_match_b rc r nd nd' = true.
Proof.
  intros rc r rho nd nd' [M1 [M2 [M3 M4]]] B. unfold node_match_b.
  rewrite (ren_edges_complete r rho _ B), M4.
  rewrite (proj2 (Nat.eqb_eq _ _) M1), (proj2 (Nat.eqb_eq _ _) M2), (proj2 (edges_eqb_eq _ _) eq_refl).
  destruct rc; [rewrite (proj2 (N.eqb_eq _ _) (M3 eq_refl))|]; reflexivity.
Qed.

Section Complete.
Variables (rc onto : bool) (fixed : positive -> bool) (s_m s_r : snap).
Variable roots : list (edge * edge).
Variable rho : positive -> positive.
Hypothesis R : iso_rel rc onto fixed s_m s_r roots rho.
(** the model's table is closed, children sit on deeper levels, levels are below [nlevels] (all part of [WF s_m]) *)
Hypothesis Hlev : forall a nd, find_node s_m a = Some nd -> nlevel nd < nlevels s_m.
Hypothesis Hchild : forall a nd e c, find_node s_m a = Some nd -> In e (nchildren nd) -> eref e = RN c ->
  exists ndc, find_node s_m c = Some ndc /\ nlevel nd < nlevel ndc.
(** the real table has no duplicate nodes (part of [WF s_r]) *)
Hypothesis Huniq : forall j1 j2 n1 n2, find_node s_r j1 = Some n1 -> find_node s_r j2 = Some n2 ->
  nlevel n1 = nlevel n2 -> nchildren n1 = nchildren n2 -> j1 = j2.

Let els := PositiveMap.elements (s_nodes s_m).
Let ix := build_idx s_r.

Definition good (r : rmap) : Prop :=
  forall a b, PositiveMap.find a r = Some b -> in_m s_m a /\ b = rho a.
Definition covers (r : rmap) (L : nat) : Prop :=
  forall a nd, find_node s_m a = Some nd -> (fixed a = true \/ L <= nlevel nd) ->
    PositiveMap.find a r = Some (rho a).
Definition mono (r r' : rmap) : Prop :=
  forall x y, PositiveMap.find x r = Some y -> PositiveMap.find x r' = Some y.

Lemma covers_mono : forall r r' L, mono r r' -> covers r L -> covers r' L.
Proof. intros r r' L Hm Hc a nd E H. apply Hm. apply (Hc a nd E H). Qed.

Lemma in_els : forall p, In p els -> find_node s_m (fst p) = Some (snd p).
Proof. intros [a nd] H. apply find_node_elements. exact H. Qed.

Lemma bind_fixed_good : forall l r0, good r0 -> (forall p, In p l -> In p els) ->
  good (fold_left (fun (r : rmap) (p : positive * node) => if fixed (fst p) then PositiveMap.add (fst p) (fst p) r else r) l r0).
Proof.
  induction l as [|p l IH]; simpl; intros r0 G HP; [exact G|].
  apply IH; [|intros q Hq; apply HP; right; exact Hq].
  cbv beta. match goal with |- context [if ?c then _ else _] => destruct c eqn:Hf end; [|exact G].
  intros a b E. destruct (Pos.eq_dec a (fst p)) as [->|N].
  - rewrite PositiveMap.gss in E. inversion E; subst b.
    assert (I : in_m s_m (fst p)) by (exists (snd p); apply in_els; apply HP; left; reflexivity).
    split; [exact I|]. symmetry. apply (ir_fixed _ _ _ _ _ _ _ R _ I Hf).
  - rewrite PositiveMap.gso in E by exact N. exact (G _ _ E).
Qed.

Lemma bind_fixed_keep : forall l r0 a, PositiveMap.find a r0 = Some a ->
  PositiveMap.find a (fold_left (fun (r : rmap) (p : positive * node) => if fixed (fst p) then PositiveMap.add (fst p) (fst p) r else r) l r0) = Some a.
Proof.
  induction l as [|p l IH]; simpl; intros r0 a E; [exact E|].
  apply IH. cbv beta. match goal with |- context [if ?c then _ else _] => destruct c end; [|exact E].
  destruct (Pos.eq_dec a (fst p)) as [->|N]; [apply PositiveMap.gss|].
  rewrite PositiveMap.gso by exact N. exact E.
Qed.

Lemma bind_fixed_all : forall l r0 p, In p l -> fixed (fst p) = true ->
  PositiveMap.find (fst p) (fold_left (fun (r : rmap) (p : positive * node) => if fixed (fst p) then PositiveMap.add (fst p) (fst p) r else r) l r0) = Some (fst p).
Proof.
  induction l as [|q l IH]; simpl; intros r0 p H Hf; [destruct H|].
  destruct H as [->|H]; [|apply IH; assumption].
  apply bind_fixed_keep. cbv beta. rewrite Hf. apply PositiveMap.gss.
Qed.

Lemma children_bound : forall r a nd, covers r (S (nlevel nd)) -> find_node s_m a = Some nd ->
  forall e, In e (nchildren nd) -> bound_to r rho e.
Proof.
  intros r a nd C E e He c Hc. destruct (Hchild a nd e c E He Hc) as [ndc [Ec Hl]].
  apply (C c ndc Ec). right. lia.
Qed.

Lemma bind_node_complete : forall r p, good r -> covers r (S (nlevel (snd p))) -> In p els ->
  exists r', bind_node ix fixed r p = Some r' /\ good r' /\ mono r r' /\
             PositiveMap.find (fst p) r' = Some (rho (fst p)).
Proof.
  intros r [a nd] G C Hin. simpl in *. pose proof (in_els _ Hin) as Ea. simpl in Ea.
  unfold bind_node. simpl. destruct (fixed a) eqn:Hf.
  - exists r. split; [reflexivity|]. split; [exact G|]. split; [intros x y F; exact F|].
    apply (C a nd Ea). left. exact Hf.
  - rewrite (ren_edges_complete r rho _ (children_bound r a nd C Ea)).
    destruct (ir_node _ _ _ _ _ _ _ R a nd Ea) as [nd' [En [M1 [M2 [M3 M4]]]]].
    destruct (idx_lookup_complete s_r (rho a) nd' En) as [b' Eb]. fold ix in Eb.
    rewrite <- M1, <- M4 in Eb. rewrite Eb.
    destruct (idx_lookup_sound s_r _ _ _ Eb) as [nd2 [E2 [L2 C2]]].
    assert (b' = rho a) by (apply (Huniq _ _ _ _ E2 En); congruence). subst b'.
    exists (PositiveMap.add a (rho a) r). split; [reflexivity|]. split; [|split].
    + intros x y F. destruct (Pos.eq_dec x a) as [->|N].
      * rewrite PositiveMap.gss in F. inversion F. split; [exists nd; exact Ea|reflexivity].
      * rewrite PositiveMap.gso in F by exact N. exact (G _ _ F).
    + intros x y F. destruct (Pos.eq_dec x a) as [->|N].
      * rewrite PositiveMap.gss. f_equal. symmetry. apply (G _ _ F).
      * rewrite PositiveMap.gso by exact N. exact F.
    + apply PositiveMap.gss.
Qed.

Lemma bind_list_complete : forall k l r, good r -> covers r (S k) ->
  (forall p, In p l -> In p els /\ nlevel (snd p) = k) ->
  exists r', bind_list ix fixed r l = Some r' /\ good r' /\ mono r r' /\
             forall p, In p l -> PositiveMap.find (fst p) r' = Some (rho (fst p)).
Proof.
  intros k. induction l as [|p l IH]; simpl; intros r G C HP.
  - exists r. split; [reflexivity|]. split; [exact G|]. split; [intros x y F; exact F|intros p []].
  - destruct (HP p (or_introl eq_refl)) as [Hin Hl].
    destruct (bind_node_complete r p G ltac:(rewrite Hl; exact C) Hin) as [r1 [E1 [G1 [M1 B1]]]].
    rewrite E1.
    destruct (IH r1 G1 (covers_mono _ _ _ M1 C) (fun q Hq => HP q (or_intror Hq))) as [r2 [E2 [G2 [M2 B2]]]].
    exists r2. split; [exact E2|]. split; [exact G2|]. split; [intros x y F; apply M2; apply M1; exact F|].
    intros q [<-|Hq]; [apply M2; exact B1|apply B2; exact Hq].
Qed.

Lemma bind_levels_complete : forall n r, good r -> covers r n ->
  exists r', bind_levels ix fixed (build_lvl els) n r = Some r' /\ good r' /\ covers r' 0.
Proof.
  induction n as [|k IH]; simpl; intros r G C; [exists r; auto|].
  destruct (bind_list_complete k (lvl_get (build_lvl els) k) r G C) as [r1 [E1 [G1 [M1 B1]]]].
  { intros p Hp. apply build_lvl_spec in Hp. exact Hp. }
  rewrite E1. apply (IH r1 G1).
  intros a nd Ea [Hf|Hl]; [apply M1; apply (C a nd Ea); left; exact Hf|].
  destruct (Nat.eq_dec (nlevel nd) k) as [Ek|Nk].
  - apply (B1 (a, nd)). apply build_lvl_spec. split; [apply find_node_elements; exact Ea|exact Ek].
  - apply M1. apply (C a nd Ea). right. lia.
Qed.

Lemma check_all_complete : forall r, good r -> covers r 0 ->
  forall l inv0, (forall p, In p l -> In p els) -> NoDup (map fst l) ->
  (forall b a, PositiveMap.find b inv0 = Some a -> b = rho a /\ in_m s_m a /\ ~ In a (map fst l)) ->
  exists inv, check_all rc fixed r s_r l inv0 = Some inv.
Proof.
  intros r G C. induction l as [|[a nd] l IH]; simpl; intros inv0 HP ND HI; [eauto|].
  pose proof (in_els _ (HP _ (or_introl eq_refl))) as Ea. simpl in Ea.
  inversion ND as [|? ? Hna ND']; subst.
  unfold check_node. simpl.
  rewrite (C a nd Ea (or_intror (Nat.le_0_l _))).
  destruct (ir_node _ _ _ _ _ _ _ R a nd Ea) as [nd' [En Mn]]. rewrite En.
  rewrite (node_match_b_complete rc r rho nd nd' Mn
             (children_bound r a nd (fun c ndc Ec _ => C c ndc Ec (or_intror (Nat.le_0_l _))) Ea)).
  assert (Tf : (if fixed a then Pos.eqb (rho a) a else true) = true).
  { destruct (fixed a) eqn:Hf; [|reflexivity]. apply Pos.eqb_eq.
    apply (ir_fixed _ _ _ _ _ _ _ R a (ex_intro _ nd Ea) Hf). }
  rewrite Tf. simpl.
  destruct (PositiveMap.find (rho a) inv0) as [a'|] eqn:Fi.
  - exfalso. destruct (HI _ _ Fi) as [E1 [I1 N1]].
    assert (a = a') by (apply (ir_inj _ _ _ _ _ _ _ R); [exists nd; exact Ea|exact I1|exact E1]).
    subst a'. apply N1. left. reflexivity.
  - apply IH; [intros q Hq; apply HP; right; exact Hq|exact ND'|].
    intros b a' F. destruct (Pos.eq_dec b (rho a)) as [->|N].
    + rewrite PositiveMap.gss in F. inversion F; subst a'. split; [reflexivity|]. split; [exists nd; exact Ea|exact Hna].
    + rewrite PositiveMap.gso in F by exact N. destruct (HI _ _ F) as [E1 [I1 N1]].
      split; [exact E1|]. split; [exact I1|]. intros Hin. apply N1. right. exact Hin.
Qed.

Theorem iso_core_complete :
  exists r, iso_core rc onto fixed s_m s_r roots = Some r /\
            forall a, in_m s_m a -> PositiveMap.find a r = Some (rho a).
Proof.
  unfold iso_core, iso_with. fold els. fold ix.
  destruct (bind_levels_complete (nlevels s_m) (bind_fixed fixed els)) as [r [EB [G C]]].
  - unfold bind_fixed. apply bind_fixed_good; [|auto].
    intros a b F. rewrite PositiveMap.gempty in F. discriminate.
  - intros a nd Ea [Hf|Hl]; [|pose proof (Hlev a nd Ea); lia].
    unfold bind_fixed. rewrite (bind_fixed_all els _ (a, nd)); [| apply find_node_elements; exact Ea | exact Hf].
    simpl. f_equal. symmetry. apply (ir_fixed _ _ _ _ _ _ _ R a (ex_intro _ nd Ea) Hf).
  - rewrite EB.
    destruct (check_all_complete r G C els (PositiveMap.empty positive)) as [inv EC].
    + auto.
    + apply elements_keys_nodup.
    + intros b a F. rewrite PositiveMap.gempty in F. discriminate.
    + rewrite EC. destruct (check_all_spec _ _ _ _ _ _ _ EC) as [C1 _].
      assert (B : forall a, in_m s_m a -> PositiveMap.find a r = Some (rho a)).
      { intros a [nd Ea]. apply (C a nd Ea). right. lia. }
      assert (TO : (if onto then onto_b s_r inv else true) = true).
      { destruct onto eqn:Ho; [|reflexivity]. unfold onto_b. apply forallb_forall. intros [j nd'] Hj. simpl.
        apply find_node_elements in Hj.
        destruct (ir_onto _ _ _ _ _ _ _ R eq_refl j nd' Hj) as [a [[nd Ea] Ej]].
        apply find_node_elements in Ea. destruct (C1 _ Ea) as [b [n2 [F [_ [_ [_ Fi]]]]]]. simpl in *.
        assert (b = j). { apply find_node_elements in Ea. rewrite (B a (ex_intro _ nd Ea)) in F. congruence. }
        subst b. rewrite Fi. reflexivity. }
      assert (TR : roots_b r roots = true).
      { unfold roots_b. apply forallb_forall. intros p Hp.
        destruct (ir_roots _ _ _ _ _ _ _ R p Hp) as [Hin Hr].
        rewrite (ren_edge_complete r rho (fst p)).
        - apply edge_eqb_eq. exact Hr.
        - intros id Eid. unfold root_in in Hin. rewrite Eid in Hin. apply B. exact Hin. }
      rewrite TO, TR. simpl. exists r. split; [reflexivity|exact B].
Qed.

End Complete.

(** ** Tie to DD/Rename.v: [iso_rel] with [onto] = "[rename_snap rho s_m] and [s_r] store the same nodes" *)

Definition norc (nd : node) : node := mkNode (nlevel nd) (nchildren nd) (nstored nd) 0.

Lemma norc_match : forall rho nd nd', node_match false rho nd nd' <-> norc (rename_node rho nd) = norc nd'.
Proof.
  intros rho [l ch st c] [l' ch' st' c']. unfold node_match, norc, rename_node. simpl. split.
  - intros [-> [-> [_ ->]]]. reflexivity.
  - intros E. inversion E. repeat split; auto. discriminate.
Qed.

Theorem iso_rel_rename : forall rc fixed s_m s_r roots rho, injective rho ->
  iso_rel rc true fixed s_m s_r roots rho ->
  forall j, option_map norc (find_node (rename_snap rho s_m) j) = option_map norc (find_node s_r j) /\
            (rc = true -> find_node (rename_snap rho s_m) j = find_node s_r j).
Proof.
  intros rc fixed s_m s_r roots rho Hinj R j.
  destruct (find_node (rename_snap rho s_m) j) as [nd1|] eqn:E1.
  - destruct (find_rename_inv rho Hinj s_m j nd1 E1) as [id [nd [-> [E ->]]]].
    destruct (ir_node _ _ _ _ _ _ _ R id nd E) as [nd' [En M]]. rewrite En. simpl.
    destruct nd as [l ch st c], nd' as [l' ch' st' c']. destruct M as [M1 [M2 [M3 M4]]].
    unfold norc, rename_node. simpl in *. subst. split; [reflexivity|]. intros Hrc. rewrite (M3 Hrc). reflexivity.
  - destruct (find_node s_r j) as [nd'|] eqn:En; [|split; reflexivity]. exfalso.
    destruct (ir_onto _ _ _ _ _ _ _ R eq_refl j nd' En) as [a [[nd Ea] <-]].
    rewrite (find_rename rho Hinj s_m a), Ea in E1. discriminate.
Qed.

(** ... and back: the relation is nothing more than that *)
Theorem rename_iso_rel : forall fixed s_m s_r roots rho, injective rho ->
  (forall j, option_map norc (find_node (rename_snap rho s_m) j) = option_map norc (find_node s_r j)) ->
  (forall a, in_m s_m a -> fixed a = true -> rho a = a) ->
  (forall p, In p roots -> root_in s_m (fst p) /\ rename_edge rho (fst p) = snd p) ->
  iso_rel false true fixed s_m s_r roots rho.
Proof.
  intros fixed s_m s_r roots rho Hinj HE HF HR. constructor; auto.
  - intros a nd Ea. specialize (HE (rho a)). rewrite (find_rename rho Hinj s_m a), Ea in HE. simpl in HE.
    destruct (find_node s_r (rho a)) as [nd'|]; [|discriminate]. exists nd'. split; [reflexivity|].
    apply norc_match. simpl in HE. congruence.
  - intros _ j nd' En. specialize (HE j). rewrite En in HE.
    destruct (find_node (rename_snap rho s_m) j) as [nd1|] eqn:E1; [|discriminate].
    destruct (find_rename_inv rho Hinj s_m j nd1 E1) as [id [nd [-> [E _]]]]. exists id. split; [exists nd; exact E|reflexivity].
Qed.

(** ** Semantics: mapped edges mean the same (all kinds; an embedding suffices) *)

Lemma kind_eqb_true : forall a b, kind_eqb a b = true -> a = b.
Proof. intros [] []; simpl; intros E; try discriminate; reflexivity. Qed.

Lemma terms_eqb_true : forall a b, terms_eqb a b = true -> a = b.
Proof.
  induction a as [|[x1 x2] a IH]; intros [|[y1 y2] b]; simpl; intros E; try discriminate; [reflexivity|].
  apply andb_true_iff in E. destruct E as [E E3]. apply andb_true_iff in E. destruct E as [E1 E2].
  apply N.eqb_eq in E1. apply N.eqb_eq in E2. subst. f_equal. apply IH. exact E3.
Qed.

Lemma hdr_eqb_true : forall s_m s_r, hdr_eqb s_m s_r = true ->
  s_kind s_m = s_kind s_r /\ s_v2l s_m = s_v2l s_r /\ s_l2v s_m = s_l2v s_r /\ s_terms s_m = s_terms s_r.
Proof.
  intros s_m s_r E. unfold hdr_eqb in E.
  apply andb_true_iff in E. destruct E as [E E4]. apply andb_true_iff in E. destruct E as [E E3].
  apply andb_true_iff in E. destruct E as [E1 E2].
  apply kind_eqb_true in E1. apply nat_list_eqb_eq in E2. apply nat_list_eqb_eq in E3. apply terms_eqb_true in E4. auto.
Qed.

Definition closed (s : snap) : Prop :=
  forall a nd e c, find_node s a = Some nd -> In e (nchildren nd) -> eref e = RN c -> in_m s c.

Definition ref_in (s : snap) (x : ref) : Prop := match x with RN id => in_m s id | RT _ => True end.

Section SemIso.
Variables (rc onto : bool) (fixed : positive -> bool) (s_m s_r : snap).
Variable roots : list (edge * edge).
Variable rho : positive -> positive.
Hypothesis R : iso_rel rc onto fixed s_m s_r roots rho.
Hypothesis Hk : s_kind s_m = s_kind s_r.
Hypothesis Hn : nlevels s_m = nlevels s_r.
Hypothesis Ht : s_terms s_m = s_terms s_r.
Hypothesis Hc : closed s_m.

Lemma term_val_iso : forall t, term_val s_r t = term_val s_m t.
Proof. intros t. unfold term_val. rewrite Ht. reflexivity. Qed.

Lemma child_in : forall a nd i e, find_node s_m a = Some nd -> nth_error (nchildren nd) i = Some e -> ref_in s_m (eref e).
Proof.
  intros a nd i e Ea En. apply nth_error_In in En. unfold ref_in.
  destruct (eref e) as [t|c] eqn:Er; [exact I|]. exact (Hc a nd e c Ea En Er).
Qed.

Lemma semk_iso : forall f x c, ref_in s_m x -> semk s_r f (rename_ref rho x) c = semk s_m f x c.
Proof.
  induction f as [|f IH]; intros [t|id] c Hin; simpl rename_ref;
    try (rewrite !semk_T; apply term_val_iso); [reflexivity|].
  rewrite !semk_S. destruct Hin as [nd Ea]. rewrite Ea.
  destruct (ir_node _ _ _ _ _ _ _ R id nd Ea) as [nd' [En [M1 [_ [_ M4]]]]]. rewrite En.
  rewrite <- M4, <- M1, nth_error_map.
  destruct (nth_error (nchildren nd) (c (nlevel nd))) as [e|] eqn:Ee; [|reflexivity].
  cbn [option_map]. apply (IH (eref e) c). exact (child_in id nd _ e Ea Ee).
Qed.

Lemma semc_iso : forall f e c, ref_in s_m (eref e) -> semc s_r f (rename_edge rho e) c = semc s_m f e c.
Proof.
  induction f as [|f IH]; intros e c Hin; destruct (eref e) as [t|id] eqn:Ee.
  - rewrite (semc_T _ _ (rename_edge rho e) c t), (semc_T _ _ e c t); [reflexivity | exact Ee | simpl; rewrite Ee; reflexivity].
  - rewrite (semc_O _ (rename_edge rho e) c (rho id)), (semc_O _ e c id); [reflexivity | exact Ee | simpl; rewrite Ee; reflexivity].
  - rewrite (semc_T _ _ (rename_edge rho e) c t), (semc_T _ _ e c t); [reflexivity | exact Ee | simpl; rewrite Ee; reflexivity].
  - rewrite (semc_S _ _ (rename_edge rho e) c (rho id)) by (simpl; rewrite Ee; reflexivity).
    rewrite (semc_S _ _ e c id Ee). destruct Hin as [nd Ea]. rewrite Ea.
    destruct (ir_node _ _ _ _ _ _ _ R id nd Ea) as [nd' [En [M1 [_ [_ M4]]]]]. rewrite En.
    rewrite <- M4, <- M1, nth_error_map.
    destruct (nth_error (nchildren nd) (c (nlevel nd))) as [e'|] eqn:Ee'; [|reflexivity].
    cbn [option_map]. rewrite IH by exact (child_in id nd _ e' Ea Ee'). reflexivity.
Qed.

Lemma semz_iso : forall f lvl x c, ref_in s_m x -> semz s_r f lvl (rename_ref rho x) c = semz s_m f lvl x c.
Proof.
  induction f as [|f IH]; intros lvl [t|id] c Hin; simpl rename_ref;
    try (rewrite !semz_T, term_val_iso, Hn; reflexivity); [reflexivity|].
  rewrite !semz_S. destruct Hin as [nd Ea]. rewrite Ea.
  destruct (ir_node _ _ _ _ _ _ _ R id nd Ea) as [nd' [En [M1 [_ [_ M4]]]]]. rewrite En.
  rewrite <- M4, <- M1, nth_error_map.
  destruct (Nat.ltb (nlevel nd) lvl); [reflexivity|].
  destruct (all_lo c lvl (nlevel nd - lvl)); [|reflexivity].
  destruct (nth_error (nchildren nd) (c (nlevel nd))) as [e|] eqn:Ee; [|reflexivity].
  cbn [option_map]. apply (IH _ (eref e) c). exact (child_in id nd _ e Ea Ee).
Qed.

Theorem iso_sem_edge : forall e c, ref_in s_m (eref e) ->
  sem_edge s_r (rename_edge rho e) c = sem_edge s_m e c.
Proof.
  intros e c Hin. unfold sem_edge. rewrite <- Hk, <- Hn. destruct (s_kind s_m).
  - apply (semk_iso _ (eref e) c Hin).
  - rewrite semc_iso by exact Hin. reflexivity.
  - rewrite (semz_iso _ 0 (eref e) c Hin). reflexivity.
  - apply (semk_iso _ (eref e) c Hin).
  - apply (semk_iso _ (eref e) c Hin).
Qed.

(** the ZBDD family (sets of levels) of mapped references *)
Theorem iso_famz : forall f x, ref_in s_m x -> famz s_r f (rename_ref rho x) = famz s_m f x.
Proof.
  induction f as [|f IH]; intros [t|id] Hin; simpl rename_ref;
    try (rewrite !famz_T, term_val_iso; reflexivity); [reflexivity|].
  rewrite !famz_S. destruct Hin as [nd Ea]. rewrite Ea.
  destruct (ir_node _ _ _ _ _ _ _ R id nd Ea) as [nd' [En [M1 [_ [_ M4]]]]]. rewrite En.
  rewrite <- M4, <- M1.
  destruct (nchildren nd) as [|hi [|lo [|x l]]] eqn:Ech; try reflexivity.
  cbn [map rename_edge eref].
  rewrite (IH (eref hi)), (IH (eref lo)); [reflexivity| |].
  - apply (child_in id nd 1 lo Ea). rewrite Ech. reflexivity.
  - apply (child_in id nd 0 hi Ea). rewrite Ech. reflexivity.
Qed.

End SemIso.

(** ** The checker's verdict, semantically *)

Theorem iso_with_sem : forall ix rc onto fixed s_m s_r roots r,
  iso_with ix rc onto fixed s_m s_r roots = Some r -> hdr_eqb s_m s_r = true -> closed s_m ->
  forall p, In p roots -> forall c, sem_edge s_r (snd p) c = sem_edge s_m (fst p) c.
Proof.
  intros ix rc onto fixed s_m s_r roots r E H Hc p Hp c.
  destruct (iso_with_sound _ _ _ _ _ _ _ _ E) as [rho [_ [_ [_ R]]]].
  destruct (hdr_eqb_true _ _ H) as [H1 [_ [H3 H4]]].
  destruct (ir_roots _ _ _ _ _ _ _ R p Hp) as [Hin <-].
  apply (iso_sem_edge rc onto fixed s_m s_r roots rho R H1 ltac:(unfold nlevels; rewrite H3; reflexivity) H4 Hc).
  exact Hin.
Qed.

Theorem iso_with_famz : forall ix rc onto fixed s_m s_r roots r,
  iso_with ix rc onto fixed s_m s_r roots = Some r -> hdr_eqb s_m s_r = true -> closed s_m ->
  forall p, In p roots -> forall f, famz s_r f (eref (snd p)) = famz s_m f (eref (fst p)).
Proof.
  intros ix rc onto fixed s_m s_r roots r E H Hc p Hp f.
  destruct (iso_with_sound _ _ _ _ _ _ _ _ E) as [rho [_ [_ [_ R]]]].
  destruct (hdr_eqb_true _ _ H) as [_ [_ [_ H4]]].
  destruct (ir_roots _ _ _ _ _ _ _ R p Hp) as [Hin <-].
  apply (iso_famz rc onto fixed s_m s_r roots rho R H4 Hc). exact Hin.
Qed.

Lemma wf_closed : forall s, WF s -> closed s.
Proof.
  intros s H a nd e c Ea He Ec. destruct (wf_child s H a nd e Ea He) as [O _]. rewrite Ec in O. exact O.
Qed.

(** ** Completeness for well-formed tables, and the form with an [old] table *)

Theorem iso_core_complete_wf : forall rc onto fixed s_m s_r roots rho,
  WF s_m -> WF s_r -> iso_rel rc onto fixed s_m s_r roots rho ->
  exists r, iso_core rc onto fixed s_m s_r roots = Some r /\
            forall a, in_m s_m a -> PositiveMap.find a r = Some (rho a).
Proof.
  intros rc onto fixed s_m s_r roots rho Wm Wr R.
  apply (iso_core_complete rc onto fixed s_m s_r roots rho R).
  - exact (wf_level s_m Wm).
  - intros a nd e c Ea He Ec. destruct (wf_child s_m Wm a nd e Ea He) as [O L]. rewrite Ec in O, L.
    destruct O as [ndc Ecn]. exists ndc. split; [exact Ecn|]. rewrite (rlevel_node s_m c ndc Ecn) in L. exact L.
  - exact (wf_unique s_r Wr).
Qed.

Definition old_in (old s : snap) : Prop :=
  forall id nd, find_node old id = Some nd ->
    exists nd', find_node s id = Some nd' /\ nlevel nd = nlevel nd' /\ nstored nd = nstored nd' /\ nchildren nd = nchildren nd'.

Lemma old_in_b_spec : forall old s, old_in_b old s = true <-> old_in old s.
Proof.
  intros old s. unfold old_in_b, old_in. rewrite forallb_forall. split.
  - intros H id nd E. apply find_node_elements in E. specialize (H _ E). simpl in H.
    destruct (find_node s id) as [nd'|]; [|discriminate]. exists nd'. split; [reflexivity|].
    unfold same_shape_b in H. apply andb_true_iff in H. destruct H as [H H3]. apply andb_true_iff in H. destruct H as [H1 H2].
    apply Nat.eqb_eq in H1. apply Nat.eqb_eq in H2. apply edges_eqb_eq in H3. auto.
  - intros H [id nd] E. apply (find_node_elements old) in E. destruct (H id nd E) as [nd' [En [H1 [H2 H3]]]]. simpl.
    rewrite En. unfold same_shape_b. rewrite H1, H2, H3, !Nat.eqb_refl. simpl. apply edges_eqb_eq. reflexivity.
Qed.

Lemma in_snap_b_spec : forall s id, in_snap_b s id = true <-> in_m s id.
Proof.
  intros s id. unfold in_snap_b, in_m. destruct (find_node s id) as [nd|]; split; intros H; eauto; [discriminate|].
  destruct H as [x H]. discriminate.
Qed.

(** [iso_ext_b old s_m s_r roots] (the checker of the brief): the old nodes are stored unchanged in both
    tables, and the rest of the model's table is the rest of the real table up to an injective renaming
    that fixes the old ids and maps the roots *)
Theorem iso_ext_b_sound : forall old s_m s_r roots r, iso_ext_b old s_m s_r roots = Some r ->
  old_in old s_m /\ old_in old s_r /\
  exists rho, injective rho /\ (forall a, in_m s_m a -> PositiveMap.find a r = Some (rho a)) /\
    (forall a, in_m old a -> rho a = a) /\ iso_rel false true (in_snap_b old) s_m s_r roots rho.
Proof.
  intros old s_m s_r roots r E. unfold iso_ext_b in E.
  destruct (old_in_b old s_m && old_in_b old s_r) eqn:T; [|discriminate].
  apply andb_true_iff in T. destruct T as [T1 T2]. apply old_in_b_spec in T1. apply old_in_b_spec in T2.
  split; [exact T1|]. split; [exact T2|].
  destruct (iso_with_sound _ _ _ _ _ _ _ _ E) as [rho [Hinj [_ [B R]]]].
  exists rho. split; [exact Hinj|]. split; [exact B|]. split; [|exact R].
  intros a [nd Ea]. destruct (T1 a nd Ea) as [nd' [En _]].
  apply (ir_fixed _ _ _ _ _ _ _ R a (ex_intro _ nd' En)). apply in_snap_b_spec. exists nd. exact Ea.
Qed.

Theorem iso_ext_b_complete : forall old s_m s_r roots rho, WF s_m -> WF s_r ->
  old_in old s_m -> old_in old s_r -> iso_rel false true (in_snap_b old) s_m s_r roots rho ->
  exists r, iso_ext_b old s_m s_r roots = Some r /\ forall a, in_m s_m a -> PositiveMap.find a r = Some (rho a).
Proof.
  intros old s_m s_r roots rho Wm Wr O1 O2 R. unfold iso_ext_b.
  rewrite (proj2 (old_in_b_spec old s_m) O1), (proj2 (old_in_b_spec old s_r) O2). simpl.
  apply (iso_core_complete_wf _ _ _ _ _ _ rho Wm Wr R).
Qed.

(** the embedding variant: the real table may hold further nodes *)
Theorem iso_emb_b_sound : forall old s_m s_r roots r, iso_emb_b old s_m s_r roots = Some r ->
  old_in old s_m /\ old_in old s_r /\
  exists rho, injective rho /\ (forall a, in_m s_m a -> PositiveMap.find a r = Some (rho a)) /\
    iso_rel false false (in_snap_b old) s_m s_r roots rho.
Proof.
  intros old s_m s_r roots r E. unfold iso_emb_b in E.
  destruct (old_in_b old s_m && old_in_b old s_r) eqn:T; [|discriminate].
  apply andb_true_iff in T. destruct T as [T1 T2]. apply old_in_b_spec in T1. apply old_in_b_spec in T2.
  split; [exact T1|]. split; [exact T2|].
  destruct (iso_with_sound _ _ _ _ _ _ _ _ E) as [rho [Hinj [_ [B R]]]]. exists rho. auto.
Qed.

(** a new node of the model is never mapped onto an old id *)
Lemma iso_new_not_fixed : forall rc onto fixed s_m s_r roots rho, iso_rel rc onto fixed s_m s_r roots rho ->
  forall a o, in_m s_m a -> in_m s_m o -> fixed o = true -> a <> o -> rho a <> o.
Proof.
  intros rc onto fixed s_m s_r roots rho R a o Ia Io Hf Hne E. apply Hne.
  apply (ir_inj _ _ _ _ _ _ _ R a o Ia Io). rewrite (ir_fixed _ _ _ _ _ _ _ R o Io Hf). exact E.
Qed.

(** whole snapshots: header, handles, nodes *)
Lemma handle_pairs_spec : forall a b l, handle_pairs a b = Some l ->
  map fst a = map fst b /\ l = combine (map snd a) (map snd b).
Proof.
  induction a as [|x a IH]; intros [|y b] l E; simpl in E; try discriminate; [inversion E; auto|].
  destruct (N.eqb (fst x) (fst y)) eqn:Ex; [|discriminate].
  destruct (handle_pairs a b) as [l'|] eqn:El; [|discriminate]. inversion E; subst l.
  apply N.eqb_eq in Ex. destruct (IH _ _ El) as [H1 H2]. simpl. rewrite Ex, H1, H2. auto.
Qed.

Theorem iso_snap_b_sound : forall fixed s_m s_r roots r, iso_snap_b fixed s_m s_r roots = Some r ->
  s_kind s_m = s_kind s_r /\ s_v2l s_m = s_v2l s_r /\ s_l2v s_m = s_l2v s_r /\ s_terms s_m = s_terms s_r /\
  map fst (s_handles s_m) = map fst (s_handles s_r) /\
  exists rho, injective rho /\ (forall a, in_m s_m a -> PositiveMap.find a r = Some (rho a)) /\
    iso_rel false true fixed s_m s_r
      (combine (map snd (s_handles s_m)) (map snd (s_handles s_r)) ++ roots) rho.
Proof.
  intros fixed s_m s_r roots r E. unfold iso_snap_b in E.
  destruct (hdr_eqb s_m s_r) eqn:H; [|discriminate].
  destruct (handle_pairs (s_handles s_m) (s_handles s_r)) as [hp|] eqn:Hp; [|discriminate].
  destruct (hdr_eqb_true _ _ H) as [H1 [H2 [H3 H4]]]. destruct (handle_pairs_spec _ _ _ Hp) as [H5 ->].
  repeat (split; [assumption|]).
  destruct (iso_with_sound _ _ _ _ _ _ _ _ E) as [rho [Hinj [_ [B R]]]]. exists rho. auto.
Qed.

(** ** A concrete instance (the hypotheses are satisfiable; the checker tells the tables apart) *)

Definition ex_e (r : ref) : edge := mkEdge r false.
Definition ex_tab (top : positive) (lo : ref) : snap :=
  mkSnap KBdd
    (PositiveMap.add top (mkNode 0 [ex_e (RN 1); ex_e lo] 0 1)
       (PositiveMap.add 1%positive (mkNode 1 [ex_e (RT 1); ex_e (RT 0)] 1 1) (PositiveMap.empty node)))
    [(0%N, 0%N); (1%N, 1%N)] [0; 1] [0; 1] [(0%N, ex_e (RN top))].
Definition ex_old : snap :=
  mkSnap KBdd (PositiveMap.add 1%positive (mkNode 1 [ex_e (RT 1); ex_e (RT 0)] 1 1) (PositiveMap.empty node))
    [(0%N, 0%N); (1%N, 1%N)] [0; 1] [0; 1] [].

Example ex_iso_accepts :
  wf_b (ex_tab 5 (RT 0)) = true /\ wf_b (ex_tab 9 (RT 0)) = true /\
  option_map (fun r => (PositiveMap.find 1%positive r, PositiveMap.find 5%positive r))
    (iso_ext_b ex_old (ex_tab 5 (RT 0)) (ex_tab 9 (RT 0)) [(ex_e (RN 5), ex_e (RN 9))])
  = Some (Some 1%positive, Some 9%positive) /\
  (exists r, iso_snap_b (in_snap_b ex_old) (ex_tab 5 (RT 0)) (ex_tab 9 (RT 0)) [] = Some r).
Proof. repeat split; try (vm_compute; reflexivity). eexists. vm_compute. reflexivity. Qed.

Example ex_iso_rejects :
  iso_ext_b ex_old (ex_tab 5 (RT 0)) (ex_tab 9 (RT 1)) [] = None /\
  iso_ext_b ex_old (ex_tab 5 (RT 0)) (ex_tab 9 (RT 0)) [(ex_e (RN 5), ex_e (RN 1))] = None /\
  iso_ext_b (ex_tab 5 (RT 0)) (ex_tab 5 (RT 0)) (ex_tab 9 (RT 0)) [] = None.
Proof. repeat split; vm_compute; reflexivity. Qed.
