(** * MTBDD<F64>: the instance of the generic function-level model (DD/MtG.v)
      for the float terminal type [F64]
      (oxidd-rules-mtbdd/src/terminal/f64.rs; scalar model: Num/F64.v)

    A value of the Rust type [F64] is represented by the 64-bit pattern
    [f64::to_bits] of the wrapped float as an [N]; this is exactly what
    [impl PartialEq / Hash for F64] look at, so the code of a value (its
    identity in the hash-consing terminal store) is the pattern itself.  The
    values that occur are the NORMALISED patterns ([f64_normalb]: fixpoints of
    [F64::from]: no -0.0, a single NaN).  The operations are those of
    Num/F64.v (Flocq binary64, round to nearest even, followed by the
    normalisation of [F64::from]) transported from [Z] to [N].

    Executable definitions only; laws and theorems: DD/MtF64Proofs.v. *)

From Coq Require Import List NArith ZArith PArith Bool Arith.
From OxiVerif Require Import DD.Table DD.Sem DD.Build DD.Apply Num.F64 DD.MtG.
Import ListNotations.

(** a binary operation of Num/F64.v on patterns of type [N] *)
Definition f64n_lift2 (op : Z -> Z -> Z) (a b : N) : N := Z.to_N (op (Z.of_N a) (Z.of_N b)).

(** [impl NumberBase for F64] + [impl PartialOrd for F64] + the normalisation
    invariant, as a terminal algebra *)
#[export] Instance f64_alg : talg := {|
  tV := N;
  t_code := fun v => v;
  t_decode := fun n => n;
  t_zero := Z.to_N f64_zero;                 (* [Self(0.)] *)
  t_one := Z.to_N f64_one;                   (* [Self(1.)] *)
  t_nan := Z.to_N f64_nan;                   (* [Self(f64::NAN)] *)
  t_add := f64n_lift2 f64_add;               (* [Self::from(self.0 + rhs.0)] *)
  t_sub := f64n_lift2 f64_sub;
  t_mul := f64n_lift2 f64_mul;
  t_div := f64n_lift2 f64_div;
  t_cmp := fun a b => f64_partial_cmp (Z.of_N a) (Z.of_N b);
  t_is_zero := fun a => f64_is_zero (Z.of_N a);
  t_is_one := fun a => f64_is_one (Z.of_N a);
  t_is_nan := fun a => f64_is_nan (Z.of_N a);
  t_wfb := fun a => f64_normalb (Z.of_N a)
|}.

(** [MTBDDOp as u8] back to the operator (the driver passes operators as numbers) *)
Definition mop_of_code (k : N) : mop :=
  match k with
  | 0 => MAdd | 1 => MSub | 2 => MMul | 3 => MDiv | 4 => MMin | _ => MMax
  end%N.

(** the scalar operation of an operator on bit patterns ([Z], as in Num/F64.v) *)
Definition f64_mop (o : mop) : Z -> Z -> Z :=
  match o with
  | MAdd => f64_add | MSub => f64_sub | MMul => f64_mul
  | MDiv => f64_div | MMin => f64_min | MMax => f64_max
  end.

(** ** The MTBDD<F64> operations (names for the extraction) *)

Section Ops.
Variable gt : ref -> ref -> bool.
Variable C : Type.
Variable cget : C -> N -> list ref -> option ref.
Variable cadd : C -> N -> list ref -> ref -> C.

(** [MTBDDFunction<F64>::add_edge] ... [max_edge] (= [apply_bin::<_, F64, OP>]) *)
Definition f64m_apply_bin (fuel : nat) (s : snap) (c : C) (k : N) (f g : ref) :=
  mt_apply_bin (TA := f64_alg) gt C cget cadd fuel s c (mop_of_code k) f g.

(** [ite_edge] (= [apply_ite::<_, F64>]) *)
Definition f64m_apply_ite (fuel : nat) (s : snap) (c : C) (f g h : ref) :=
  mt_apply_ite (TA := f64_alg) C cget cadd fuel s c f g h.

(** [restrict_edge] *)
Definition f64m_restrict (fuel : nat) (s : snap) (c : C) (f vars : ref) :=
  mt_restrict (TA := f64_alg) C cget cadd fuel s c f vars.

End Ops.

(** [constant_edge(manager, F64::from(f64::from_bits(x)))]: the only way to
    obtain a value of the type from a float is [F64::from] *)
Definition f64m_const (s : snap) (x : Z) : snap * ref :=
  mt_const (TA := f64_alg) s (Z.to_N (f64_from_bits x)).

(** [var_edge] *)
Definition f64m_var (s : snap) (v : nat) : option (snap * ref) := mt_var (TA := f64_alg) s v.

(** [eval_edge] *)
Definition f64m_eval (s : snap) (r : ref) (args : list (nat * bool)) : option N :=
  mt_eval (TA := f64_alg) s r args.

(** the invariant: well-formed MTBDD table, every terminal value normalised *)
Definition f64m_ok_b (s : snap) : bool := mt_ok_b (TA := f64_alg) s.

(** the cube recogniser *)
Definition f64m_cube_lits (fuel : nat) (s : snap) (r : ref) : option (list (nat * bool)) :=
  cube_lits (TA := f64_alg) fuel s r.
