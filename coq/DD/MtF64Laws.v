(** * MTBDD<F64>: the scalar laws of the generic function-level development
      ([tlaws], DD/MtGBase.v) hold for the float terminal type as the code
      defines it (normalised binary64; DD/MtF64.v, Num/F64.v)

    Every law is discharged from a theorem of Num/F64Proofs.v.  The short-cuts
    of [terminal_bin] are laws of IEEE-754 arithmetic only BECAUSE values are
    normalised: [x + 0 = x] fails for [x = -0.0] ([f64_add_zero_r_negzero]), a
    NaN operand is recognised by [is_nan] (a comparison of bit patterns with
    [f64::NAN]) only because every NaN is the one pattern, and [min]/[max] of
    two different edges never see [+0]/[-0] (equal as floats, different
    terminals).  A short-cut [x * 0 = 0] - which the code deliberately does not
    have - would NOT be a law ([f64_mul_zero_not_law]: [x] = infinity or NaN).

    The theorems depend on the classical axioms of Coq's real numbers through
    Flocq (see Num/F64Proofs.v). *)

From Coq Require Import List NArith ZArith PArith Bool Arith Lia.
From Flocq Require Import IEEE754.Binary IEEE754.Bits.
From OxiVerif Require Import DD.Table DD.MtG DD.MtGBase Num.F64 Num.F64Proofs DD.MtF64.
Import ListNotations.
Local Open Scope Z_scope.

Lemma of_N_eq_iff (a : N) (k : Z) : 0 <= k -> (Z.of_N a = k <-> a = Z.to_N k).
Proof.
  intros Hk. split.
  - intros <-. now rewrite N2Z.id.
  - intros ->. now apply Z2N.id.
Qed.

Lemma f64_consts_nonneg : 0 <= f64_zero /\ 0 <= f64_one /\ 0 <= f64_nan.
Proof. repeat split; intros E; vm_compute in E; discriminate. Qed.

Lemma f64_lift2_range op a b : 0 <= f64_lift2 op a b < 2 ^ 64.
Proof. apply to_bits_range. Qed.

Lemma f64n_lift2_add a b : Z.of_N (f64n_lift2 f64_add a b) = f64_add (Z.of_N a) (Z.of_N b).
Proof. apply Z2N.id. apply f64_lift2_range. Qed.
Lemma f64n_lift2_sub a b : Z.of_N (f64n_lift2 f64_sub a b) = f64_sub (Z.of_N a) (Z.of_N b).
Proof. apply Z2N.id. apply f64_lift2_range. Qed.
Lemma f64n_lift2_mul a b : Z.of_N (f64n_lift2 f64_mul a b) = f64_mul (Z.of_N a) (Z.of_N b).
Proof. apply Z2N.id. apply f64_lift2_range. Qed.
Lemma f64n_lift2_div a b : Z.of_N (f64n_lift2 f64_div a b) = f64_div (Z.of_N a) (Z.of_N b).
Proof. apply Z2N.id. apply f64_lift2_range. Qed.

Lemma of_N_nan : Z.of_N (Z.to_N f64_nan) = f64_nan.
Proof. apply Z2N.id. apply f64_consts_nonneg. Qed.

(** the generic [t_min]/[t_max] at [f64_alg] are [f64_min]/[f64_max] of Num/F64.v *)
Lemma f64n_min a b : Z.of_N (t_min (TA := f64_alg) a b) = f64_min (Z.of_N a) (Z.of_N b).
Proof.
  unfold t_min, f64_min. cbn [t_cmp f64_alg t_nan].
  destruct (f64_partial_cmp (Z.of_N a) (Z.of_N b)) as [[| |]|]; reflexivity.
Qed.
Lemma f64n_max a b : Z.of_N (t_max (TA := f64_alg) a b) = f64_max (Z.of_N a) (Z.of_N b).
Proof.
  unfold t_max, f64_max. cbn [t_cmp f64_alg t_nan].
  destruct (f64_partial_cmp (Z.of_N a) (Z.of_N b)) as [[| |]|]; reflexivity.
Qed.

(** the six operators of the generic model at [f64_alg], in terms of Num/F64.v *)
Theorem f64_mop_eval : forall o (x y : N),
  Z.of_N (mop_eval (TA := f64_alg) o x y) = f64_mop o (Z.of_N x) (Z.of_N y).
Proof.
  intros [] x y; cbn [mop_eval f64_mop t_add t_sub t_mul t_div f64_alg].
  - apply f64n_lift2_add. - apply f64n_lift2_sub. - apply f64n_lift2_mul.
  - apply f64n_lift2_div. - apply f64n_min. - apply f64n_max.
Qed.

(** values of the Rust type = normalised patterns *)
Lemma f64_twf_iff (v : N) : twf (A := f64_alg) v <-> f64_normal (Z.of_N v).
Proof. unfold twf. cbn [t_wfb f64_alg]. apply f64_normalb_spec. Qed.

#[export] Instance f64_laws : tlaws f64_alg.
Proof.
  destruct f64_consts_nonneg as (Z0 & Z1 & Zn).
  constructor.
  - reflexivity.
  - reflexivity.
  - intros a. cbn [t_is_zero t_zero f64_alg]. rewrite f64_is_zero_spec. now apply of_N_eq_iff.
  - intros a. cbn [t_is_one t_one f64_alg]. rewrite f64_is_one_spec. now apply of_N_eq_iff.
  - intros a. cbn [t_is_nan t_nan f64_alg]. rewrite f64_is_nan_spec. now apply of_N_eq_iff.
  - cbn [t_zero t_one f64_alg]. intros E. vm_compute in E. discriminate.
  - apply f64_twf_iff. cbn [t_zero f64_alg]. rewrite Z2N.id by exact Z0. apply f64_consts_normal.
  - apply f64_twf_iff. cbn [t_one f64_alg]. rewrite Z2N.id by exact Z1. apply f64_consts_normal.
  - apply f64_twf_iff. cbn [t_nan f64_alg]. rewrite Z2N.id by exact Zn. apply f64_consts_normal.
  - intros a b _ _. apply f64_twf_iff. cbn [t_add f64_alg]. rewrite f64n_lift2_add. apply f64_add_normal.
  - intros a b _ _. apply f64_twf_iff. cbn [t_sub f64_alg]. rewrite f64n_lift2_sub. apply f64_sub_normal.
  - intros a b _ _. apply f64_twf_iff. cbn [t_mul f64_alg]. rewrite f64n_lift2_mul. apply f64_mul_normal.
  - intros a b _ _. apply f64_twf_iff. cbn [t_div f64_alg]. rewrite f64n_lift2_div. apply f64_div_normal.
  - intros t x Ht Hx. apply f64_twf_iff in Hx. apply N2Z.inj. cbn [t_add f64_alg].
    rewrite f64n_lift2_add. now apply f64_add_zero_l.
  - intros t x Ht Hx. apply f64_twf_iff in Hx. apply N2Z.inj. cbn [t_add f64_alg].
    rewrite f64n_lift2_add. now apply f64_add_zero_r.
  - intros t x Ht Hx. apply f64_twf_iff in Hx. apply N2Z.inj. cbn [t_sub f64_alg].
    rewrite f64n_lift2_sub. now apply f64_sub_zero_r.
  - intros t x Ht Hx. apply f64_twf_iff in Hx. apply N2Z.inj. cbn [t_mul f64_alg].
    rewrite f64n_lift2_mul. now apply f64_mul_one_l.
  - intros t x Ht Hx. apply f64_twf_iff in Hx. apply N2Z.inj. cbn [t_mul f64_alg].
    rewrite f64n_lift2_mul. now apply f64_mul_one_r.
  - intros t x Ht Hx. apply f64_twf_iff in Hx. apply N2Z.inj. cbn [t_div f64_alg].
    rewrite f64n_lift2_div. now apply f64_div_one_r.
  - intros t x Ht _. cbn [t_is_nan f64_alg] in Ht.
    pose proof (f64_nan_absorbing (Z.of_N t) (Z.of_N x) Ht) as
      (A1 & A2 & A3 & A4 & A5 & A6 & A7 & A8 & A9 & A10 & A11 & A12).
    cbn [t_add t_sub t_mul t_div t_nan f64_alg].
    repeat split; apply N2Z.inj; rewrite of_N_nan;
      rewrite ?f64n_lift2_add, ?f64n_lift2_sub, ?f64n_lift2_mul, ?f64n_lift2_div, ?f64n_min, ?f64n_max;
      assumption.
  - intros a b _ _. apply N2Z.inj. cbn [t_add f64_alg]. rewrite !f64n_lift2_add. apply f64_add_comm.
  - intros a b _ _. apply N2Z.inj. cbn [t_mul f64_alg]. rewrite !f64n_lift2_mul. apply f64_mul_comm.
  - intros a b Ha Hb. apply f64_twf_iff in Ha, Hb. apply N2Z.inj. rewrite !f64n_min.
    now apply f64_min_comm.
  - intros a b Ha Hb. apply f64_twf_iff in Ha, Hb. apply N2Z.inj. rewrite !f64n_max.
    now apply f64_max_comm.
  - intros a Ha. apply f64_twf_iff in Ha. apply N2Z.inj. rewrite f64n_min. now apply f64_min_idem.
  - intros a Ha. apply f64_twf_iff in Ha. apply N2Z.inj. rewrite f64n_max. now apply f64_max_idem.
Qed.

(** ** Why the normalisation matters, and a short-cut that is not a law *)

Definition f64_INF_N : N := Z.to_N f64_INF.

(** [x * 0 = 0] is not a law of the type: for [x] = +infinity (and for NaN)
    the product is NaN.  [terminal_bin] has no such arm ("Don't optimize the
    case where one of the operands is 0. 0 * NaN is still NaN."); a variant
    that returned the zero operand before looking at the other one would be
    unsound, also on normalised values. *)
Theorem f64_mul_zero_not_law :
  exists t x : N, t_is_zero (talg := f64_alg) t = true /\ twf (A := f64_alg) x /\
    t_mul (talg := f64_alg) x t <> t /\ t_mul (talg := f64_alg) t x <> t /\
    t_mul (talg := f64_alg) x t = t_nan (talg := f64_alg).
Proof.
  exists 0%N, f64_INF_N. repeat split; try (vm_compute; reflexivity);
    intros E; vm_compute in E; discriminate.
Qed.

(** with the (impossible) operand -0.0 the zero short-cuts of Add and Sub
    would be wrong: [-0.0 + 0 = +0.0], a different terminal *)
Theorem f64_zero_shortcuts_need_normalisation :
  let negz := Z.to_N f64_NEG_ZERO_bits in
  twf (A := f64_alg) negz -> False.
Proof. cbv zeta. intros E. vm_compute in E. discriminate. Qed.

Theorem f64_zero_shortcut_fails_on_negzero :
  let negz := Z.to_N f64_NEG_ZERO_bits in
  t_is_zero (talg := f64_alg) (t_zero (talg := f64_alg)) = true /\
  t_add (talg := f64_alg) negz t_zero <> negz /\ t_sub (talg := f64_alg) negz t_zero <> negz.
Proof. cbv zeta. repeat split; intros E; vm_compute in E; discriminate. Qed.
