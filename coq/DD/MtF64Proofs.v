(** * MTBDD<F64> at function level: the theorems of the generic development
      (DD/MtG*.v) instantiated with [f64_alg] / [f64_laws], read in terms of
      the scalar model Num/F64.v, and a concrete MTBDD<F64> table

    - [f64_invariant]: what [MtOK] means for F64 tables: well-formed, every
      terminal value a normalised pattern; decided by [f64m_ok_b];
    - [f64_terms_normalised]: in such a table no terminal holds -0.0, every NaN
      terminal holds the pattern of [f64::NAN], no two terminals hold the same
      value - hence at most one NaN terminal;
    - [f64_apply_pointwise], [f64_apply_nan], [f64_apply_normalised],
      [f64_canonical]: apply = pointwise lifting of the Flocq operation +
      normalisation, NaN propagates, the result table is normalised again, the
      result is THE reference with that meaning;
    - [f64_ite_*], [f64_restrict_*], [f64_const_ok], [f64_var_ok];
    - [exf_*]: a table built by the model itself (x0, x1, 0.5 * x0 + x1) with
      runs that produce NaN, infinities and -0.0 candidates. *)

From Coq Require Import List NArith ZArith PArith Bool Arith Lia FMapPositive.
From Flocq Require Import IEEE754.Binary IEEE754.Bits.
From OxiVerif Require Import DD.Table DD.TableProofs DD.Canon DD.Sem DD.Build DD.BuildProofs
  DD.Apply DD.ApplyProofs DD.ApplyEvalProofs DD.MtG DD.MtGBase DD.MtGProofs DD.MtGIte DD.MtGRestrict
  DD.MtGTop Num.F64 Num.F64Proofs DD.MtF64 DD.MtF64Laws.
Import ListNotations.

(** ** The invariant *)

Theorem f64_invariant : forall s,
  (f64m_ok_b s = true <-> MtOK (TA := f64_alg) s) /\
  (MtOK (TA := f64_alg) s <->
   (WF s /\ s_kind s = KMtbdd /\ forall t c, term_val s t = Some c -> f64_normal (Z.of_N c))).
Proof.
  intros s. split; [apply mt_ok_b_spec|]. split.
  - intros B. split; [apply (mo_wf s B)|]. split; [apply (mo_kind s B)|].
    intros t c E. apply f64_twf_iff. apply (mo_vals s B t c E).
  - intros (W & K & V). constructor; [exact W | exact K|].
    intros t c E. apply f64_twf_iff. apply (V t c E).
Qed.

(** every terminal stored is normalised: no -0.0, a single NaN pattern, and
    values are hash-consed (one terminal per value) *)
Definition f64_terms_normalised (s : snap) : Prop :=
  (forall t c, term_val s t = Some c ->
     f64_normal (Z.of_N c) /\
     Z.of_N c <> f64_NEG_ZERO_bits /\
     (is_nan 53 1024 (b64_of_bits (Z.of_N c)) = true -> Z.of_N c = f64_NAN_bits)) /\
  (forall t1 t2 c, term_val s t1 = Some c -> term_val s t2 = Some c -> t1 = t2) /\
  (forall t1 t2 c1 c2, term_val s t1 = Some c1 -> term_val s t2 = Some c2 ->
     is_nan 53 1024 (b64_of_bits (Z.of_N c1)) = true ->
     is_nan 53 1024 (b64_of_bits (Z.of_N c2)) = true -> t1 = t2).

Theorem f64_ok_terms_normalised : forall s, MtOK (TA := f64_alg) s -> f64_terms_normalised s.
Proof.
  intros s B. pose proof (mo_wf s B) as H.
  assert (V : forall t c, term_val s t = Some c -> f64_normal (Z.of_N c)).
  { intros t c E. apply f64_twf_iff. apply (mo_vals s B t c E). }
  assert (U : forall t1 t2 c, term_val s t1 = Some c -> term_val s t2 = Some c -> t1 = t2)
    by (intros t1 t2 c E1 E2; apply (term_val_inj s t1 t2 c H E1 E2)).
  split; [|split; [exact U|]].
  - intros t c E. pose proof (V t c E) as Hn. split; [exact Hn|].
    apply f64_normal_char in Hn. tauto.
  - intros t1 t2 c1 c2 E1 E2 N1 N2.
    pose proof (V t1 c1 E1) as H1. pose proof (V t2 c2 E2) as H2.
    apply f64_normal_char in H1, H2.
    assert (Ec : c1 = c2) by (apply N2Z.inj; rewrite (proj2 (proj2 H1) N1), (proj2 (proj2 H2) N2); reflexivity).
    subst c2. apply (U t1 t2 c1 E1 E2).
Qed.

(** the value of reference [r] under the choice [c0] is the pattern [x] *)
Definition fvalue (s : snap) (r : ref) (c0 : nat -> nat) (x : N) : Prop :=
  semk s (FUEL s) r c0 = Some x.

Lemma fvalue_mvalue : forall s r c0 x, fvalue s r c0 x <-> mvalue (TA := f64_alg) s r c0 x.
Proof. intros. reflexivity. Qed.

(** ** apply_bin *)

Section F64Apply.
Variable gt : ref -> ref -> bool.
Variable C : Type.
Variable cget : C -> N -> list ref -> option ref.
Variable cadd : C -> N -> list ref -> ref -> C.
Hypothesis Hlossy : lossy cget cadd.

(** add/sub/mul/div/min/max on MTBDD<F64>: with enough fuel the algorithm
    returns, for every normalised table and correct cache, a reference whose
    value under every choice is the Flocq operation + normalisation
    ([f64_mop], Num/F64.v) of the operands' values *)
Theorem f64_apply_pointwise : forall op fuel s c f g,
  MtOK (TA := f64_alg) s -> MCacheOK (TA := f64_alg) cget s c -> ref_ok s f -> ref_ok s g ->
  FUEL s <= fuel ->
  exists s' c' r,
    mt_apply_bin (TA := f64_alg) gt C cget cadd fuel s c op f g = Some (s', c', r) /\
    MtOK (TA := f64_alg) s' /\ mext s s' /\ MCacheOK (TA := f64_alg) cget s' c' /\ ref_ok s' r /\
    forall c0, bchoice c0 -> exists x y z : N,
      fvalue s f c0 x /\ fvalue s g c0 y /\ fvalue s' r c0 z /\
      Z.of_N z = f64_mop op (Z.of_N x) (Z.of_N y).
Proof.
  intros op fuel s c f g B O Hf Hg Hfuel.
  destruct (mt_apply_bin_sound gt C cget cadd Hlossy op fuel s c f g B O Hf Hg Hfuel)
    as (s' & c' & r & E & B' & X & O' & Hr & P).
  exists s', c', r. repeat (split; [assumption|]).
  intros c0 Hc. destruct (P c0 Hc) as (x & y & Vx & Vy & Vr).
  exists x, y, (mop_eval (TA := f64_alg) op x y).
  split; [exact Vx|]. split; [exact Vy|]. split; [exact Vr|]. apply f64_mop_eval.
Qed.

(** NaN propagates pointwise: where an operand is NaN the result is (the one) NaN *)
Theorem f64_apply_nan : forall op fuel s c f g s' c' r,
  MtOK (TA := f64_alg) s -> MCacheOK (TA := f64_alg) cget s c -> ref_ok s f -> ref_ok s g ->
  FUEL s <= fuel ->
  mt_apply_bin (TA := f64_alg) gt C cget cadd fuel s c op f g = Some (s', c', r) ->
  forall c0, bchoice c0 ->
    (fvalue s f c0 (Z.to_N f64_nan) \/ fvalue s g c0 (Z.to_N f64_nan)) ->
    fvalue s' r c0 (Z.to_N f64_nan).
Proof.
  intros op fuel s c f g s' c' r B O Hf Hg Hfuel E c0 Hc Hn.
  destruct (f64_apply_pointwise op fuel s c f g B O Hf Hg Hfuel)
    as (s1 & c1 & r1 & E1 & _ & _ & _ & _ & P).
  rewrite E in E1. inversion E1; subst s1 c1 r1. clear E1.
  destruct (P c0 Hc) as (x & y & z & Vx & Vy & Vz & Ez).
  assert (Zn : Z.of_N (Z.to_N f64_nan) = f64_nan) by apply of_N_nan.
  assert (z = Z.to_N f64_nan).
  { apply N2Z.inj. rewrite Ez, Zn. unfold fvalue in *.
    destruct Hn as [Hn|Hn].
    - assert (x = Z.to_N f64_nan) by congruence. subst x. rewrite Zn.
      pose proof (f64_nan_absorbing f64_nan (Z.of_N y) eq_refl) as A. destruct op; simpl; tauto.
    - assert (y = Z.to_N f64_nan) by congruence. subst y. rewrite Zn.
      pose proof (f64_nan_absorbing f64_nan (Z.of_N x) eq_refl) as A. destruct op; simpl; tauto. }
  subst z. exact Vz.
Qed.

(** every terminal of the result table is normalised *)
Theorem f64_apply_normalised : forall op fuel s c f g s' c' r,
  MtOK (TA := f64_alg) s -> MCacheOK (TA := f64_alg) cget s c -> ref_ok s f -> ref_ok s g ->
  FUEL s <= fuel ->
  mt_apply_bin (TA := f64_alg) gt C cget cadd fuel s c op f g = Some (s', c', r) ->
  f64_terms_normalised s'.
Proof.
  intros op fuel s c f g s' c' r B O Hf Hg Hfuel E.
  destruct (mt_apply_bin_sound gt C cget cadd Hlossy op fuel s c f g B O Hf Hg Hfuel)
    as (s1 & c1 & r1 & E1 & B' & _).
  rewrite E in E1. inversion E1; subst. apply f64_ok_terms_normalised. exact B'.
Qed.

End F64Apply.

(** canonicity: in a normalised table two references with the same values
    under all choices are the same reference (so handle equality decides
    function equality - also for NaN and zero values, thanks to the
    normalisation) *)
Theorem f64_canonical : forall s r1 r2,
  MtOK (TA := f64_alg) s -> ref_ok s r1 -> ref_ok s r2 ->
  (forall c0, bchoice c0 -> semk s (FUEL s) r1 c0 = semk s (FUEL s) r2 c0) -> r1 = r2.
Proof.
  intros s r1 r2 B O1 O2 Hs.
  destruct (denm_exists s r1 B O1) as [phi D1].
  apply (denm_canon s r1 r2 phi B D1). split; [exact O2|].
  intros c0 Hc. unfold FUEL in Hs. rewrite <- (Hs c0 Hc). apply (proj2 D1 c0 Hc).
Qed.

(** ** Constants and variables *)

(** [constant(F64::from(f64::from_bits(x)))] for an arbitrary pattern [x]:
    the terminal holds the normalised pattern *)
Theorem f64_const_ok : forall s x s' r, MtOK (TA := f64_alg) s -> f64m_const s x = (s', r) ->
  MtOK (TA := f64_alg) s' /\ mext s s' /\ ref_ok s' r /\
  (forall c0, fvalue s' r c0 (Z.to_N (f64_from_bits x))) /\
  Z.of_N (Z.to_N (f64_from_bits x)) = f64_from_bits x /\
  (forall r0, DenM (TA := f64_alg) s r0 (fun _ => Z.to_N (f64_from_bits x)) -> s' = s /\ r = r0).
Proof.
  intros s x s' r B E. unfold f64m_const in E.
  assert (R : (0 <= f64_from_bits x < 2 ^ 64)%Z) by apply to_bits_range.
  assert (Zx : Z.of_N (Z.to_N (f64_from_bits x)) = f64_from_bits x) by (apply Z2N.id; lia).
  assert (W : twf (A := f64_alg) (Z.to_N (f64_from_bits x))).
  { apply f64_twf_iff. rewrite Zx. apply f64_from_bits_normal. }
  destruct (mt_const_ok s _ s' r B W E) as (B' & X & D & S).
  split; [exact B'|]. split; [exact X|]. split; [apply (proj1 D)|].
  split; [|split; [exact Zx | exact S]].
  intros c0. unfold fvalue, FUEL.
  destruct (denm_const_term s' r _ B' D) as (t & -> & Et). rewrite semk_T. exact Et.
Qed.

Theorem f64_var_ok : forall s v, MtOK (TA := f64_alg) s -> v < nlevels s ->
  exists lvl s' r, nth_error (s_v2l s) v = Some lvl /\ f64m_var s v = Some (s', r) /\
    MtOK (TA := f64_alg) s' /\ mext s s' /\ ref_ok s' r /\
    forall c0, bchoice c0 ->
      fvalue s' r c0 (if Nat.eqb (c0 lvl) 0 then Z.to_N f64_one else Z.to_N f64_zero).
Proof.
  intros s v B Hv. destruct (mt_var_ok s v B Hv) as (lvl & s' & r & E1 & E2 & B' & X & D).
  exists lvl, s', r. repeat (split; [assumption|]). split; [apply (proj1 D)|].
  intros c0 Hc. unfold fvalue, FUEL. rewrite (proj2 D c0 Hc). cbn [t_code f64_alg].
  destruct (Nat.eqb (c0 lvl) 0); reflexivity.
Qed.

(** ** A concrete MTBDD<F64> table (hypotheses satisfiable, model runs) *)

Definition fgt_id (a b : ref) : bool :=
  match a, b with
  | RN x, RN y => Pos.ltb y x
  | RN _, RT _ => true
  | RT x, RT y => N.ltb y x
  | RT _, RN _ => false
  end.

(** a fresh manager with two variables *)
Definition exf0 : snap := mkSnap KMtbdd (PositiveMap.empty node) [] [0; 1] [0; 1] [].

Definition fbin (s : snap) (c : acache) (k : N) (f g : ref) :=
  f64m_apply_bin fgt_id acache ac_get ac_add (S (nlevels s)) s c k f g.

Definition f64_HALF : Z := 0x3FE0000000000000.
Definition f64_MONE : Z := 0xBFF0000000000000.
Definition f64_1P5 : Z := 0x3FF8000000000000.

(** x0, x1, f = 0.5 * x0 + x1, built by the model *)
Definition exf_build : option (snap * acache * (ref * ref * ref)) :=
  match f64m_var exf0 0 with
  | Some (s1, x0) =>
    match f64m_var s1 1 with
    | Some (s2, x1) =>
      let '(s3, half) := f64m_const s2 f64_HALF in
      match fbin s3 [] 2 half x0 with
      | Some (s4, c4, m) =>
        match fbin s4 c4 0 m x1 with
        | Some (s5, c5, f) => Some (s5, c5, (x0, x1, f))
        | None => None
        end
      | None => None
      end
    | None => None
    end
  | None => None
  end.

Definition exf1 : snap := match exf_build with Some (s, _, _) => s | None => exf0 end.
Definition exf_x0 : ref := match exf_build with Some (_, _, (x, _, _)) => x | None => RT 0 end.
Definition exf_x1 : ref := match exf_build with Some (_, _, (_, x, _)) => x | None => RT 0 end.
Definition exf_f : ref := match exf_build with Some (_, _, (_, _, x)) => x | None => RT 0 end.

Example exf0_ok : MtOK (TA := f64_alg) exf0.
Proof. apply mt_ok_b_spec. vm_compute. reflexivity. Qed.

Example exf1_ok : MtOK (TA := f64_alg) exf1.
Proof. apply mt_ok_b_spec. vm_compute. reflexivity. Qed.

(** value table by [eval]: assignments (x0, x1) = 00, 10, 01, 11, as patterns in [Z] *)
Definition fvt (s : snap) (r : ref) : list (option Z) :=
  map (fun p : bool * bool => option_map Z.of_N (f64m_eval s r [(0, fst p); (1, snd p)]))
      [(false, false); (true, false); (false, true); (true, true)].

Definition frun_vt (res : option (snap * acache * ref)) : list (option Z) :=
  match res with Some (s, _, r) => fvt s r | None => [] end.

Example exf_f_table : fvt exf1 exf_f = [Some f64_zero; Some f64_HALF; Some f64_one; Some f64_1P5].
Proof. vm_compute. reflexivity. Qed.

(** NaN, infinities and -0.0 candidates at function level:
    x0 * inf = [0*inf = NaN, inf]; (-1) * x0 = [-0.0 -> +0.0, -1] (so it shares
    the terminal 0 with x0); f / x1 = [0/0 = NaN, 0.5/0 = +inf, 1, 1.5];
    f - f = the terminal 0 *)
Example exf_special :
  (let '(s, i) := f64m_const exf1 f64_INF in frun_vt (fbin s [] 2 exf_x0 i))
  = [Some f64_nan; Some f64_INF; Some f64_nan; Some f64_INF] /\
  (let '(s, m1) := f64m_const exf1 f64_MONE in frun_vt (fbin s [] 2 m1 exf_x0))
  = [Some f64_zero; Some f64_MONE; Some f64_zero; Some f64_MONE] /\
  frun_vt (fbin exf1 [] 3 exf_f exf_x1) = [Some f64_nan; Some f64_INF; Some f64_one; Some f64_1P5] /\
  (match fbin exf1 [] 1 exf_f exf_f with
   | Some (s, _, RT t) => term_val s t = Some 0%N
   | _ => False
   end).
Proof. vm_compute. repeat split; reflexivity. Qed.

(** ite with a condition that is not 0-1-valued (f = 0, 0.5, 1, 1.5): every
    non-zero value (also NaN) selects the then-operand; restrict(f, x0 := 1) *)
Example exf_ite_restrict :
  frun_vt (f64m_apply_ite acache ac_get ac_add 3 exf1 [] exf_f exf_x0 exf_x1)
  = [Some f64_zero; Some f64_one; Some f64_zero; Some f64_one] /\
  (let '(s, n) := f64m_const exf1 f64_nan in
   frun_vt (f64m_apply_ite acache ac_get ac_add 3 s [] n exf_x0 exf_x1))
  = [Some f64_zero; Some f64_one; Some f64_zero; Some f64_one] /\
  f64m_cube_lits 3 exf1 exf_x0 = Some [(0, true)] /\
  frun_vt (f64m_restrict acache ac_get ac_add 3 exf1 [] exf_f exf_x0)
  = [Some f64_HALF; Some f64_HALF; Some f64_1P5; Some f64_1P5].
Proof. vm_compute. repeat split; reflexivity. Qed.

Theorem f64_hypotheses_satisfiable :
  MtOK (TA := f64_alg) exf0 /\ MtOK (TA := f64_alg) exf1 /\ MCacheOK (TA := f64_alg) ac_get exf1 [] /\
  ref_ok exf1 exf_f /\ ref_ok exf1 exf_x0 /\ Cube (TA := f64_alg) exf1 exf_x0 [(0, true)] /\
  fvt exf1 exf_f = [Some f64_zero; Some f64_HALF; Some f64_one; Some f64_1P5].
Proof.
  split; [exact exf0_ok|]. split; [exact exf1_ok|]. split; [apply mac_empty_ok|].
  split; [vm_compute; eexists; reflexivity|]. split; [vm_compute; eexists; reflexivity|].
  split; [apply (cube_lits_sound exf1 exf1_ok 3); vm_compute; reflexivity | exact exf_f_table].
Qed.
