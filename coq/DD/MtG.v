(** * The recursive apply algorithms of the MTBDD kind, generic in the terminal type

    The same model as DD/ApplyMtbdd.v (which is the instance for the terminal
    type [I64]), with the terminal type abstracted into the class [talg]:
    the Rust trait [NumberBase] (oxidd-core/src/function.rs: [zero], [one],
    [nan], [add], [sub], [mul], [div], the default methods [is_zero],
    [is_one], [is_nan]) plus [PartialOrd::partial_cmp] and [Eq] (through the
    coding [t_code] of values as numbers, which is how the hash-consing
    terminal store of oxidd-manager-index identifies values).  Instances:
    [MtF64.f64_alg] (terminal/f64.rs, DD/MtF64.v) and [MtI64.i64_alg]
    (terminal/i64.rs).

    Executable definitions only (proofs: DD/MtG*.v).  Mirrors
    oxidd-rules-mtbdd/src/lib.rs ([MTBDDOp], [terminal_bin], [reduce]) and
    oxidd-rules-mtbdd/src/apply_rec.rs ([apply_bin], [restrict] with its
    tail-recursive [inner], [apply_ite], [constant_edge], [var_edge],
    [eval_edge]); these Rust functions are generic in [T: NumberBase], and so
    is this model.

    Recursion is on explicit fuel, [None] = fuel exhausted or one of the
    code's [unwrap]s would panic / a reference dangles.  The apply cache is
    abstract as in DD/Apply.v; the edge order [f > g] used to normalise
    commutative operand pairs is the argument [gt]. *)

From Coq Require Import List NArith ZArith PArith Bool Arith FMapPositive.
From OxiVerif Require Import DD.Table DD.Sem DD.Build DD.Apply.
Import ListNotations.

(** ** The terminal type *)

(** [T: NumberBase + PartialOrd + Eq + Hash]: the operations [terminal_bin]
    and the apply algorithms use.  [t_code]/[t_decode]: values as numbers (the
    identity of a value for [Eq]/[Hash]); [t_wfb]: the values that occur (the
    invariant of the Rust type, e.g. "normalised" for [F64]). *)
Class talg : Type := mkTalg {
  tV : Type;
  t_code : tV -> N;
  t_decode : N -> tV;
  t_zero : tV;                              (* [NumberBase::zero()] *)
  t_one : tV;                               (* [NumberBase::one()] *)
  t_nan : tV;                               (* [NumberBase::nan()] *)
  t_add : tV -> tV -> tV;                   (* [NumberBase::add] *)
  t_sub : tV -> tV -> tV;
  t_mul : tV -> tV -> tV;
  t_div : tV -> tV -> tV;
  t_cmp : tV -> tV -> option comparison;    (* [PartialOrd::partial_cmp] *)
  t_is_zero : tV -> bool;                   (* [NumberBase::is_zero] ... *)
  t_is_one : tV -> bool;
  t_is_nan : tV -> bool;
  t_wfb : tV -> bool
}.

Section Alg.
Context {TA : talg}.

(** the (Terminal, Terminal) arm of [terminal_bin] for [MTBDDOp::Min] /
    [MTBDDOp::Max], as a scalar operation *)
Definition t_min (a b : tV) : tV :=
  match t_cmp a b with
  | Some Lt | Some Eq => a
  | Some Gt => b
  | None => t_nan
  end.
Definition t_max (a b : tV) : tV :=
  match t_cmp a b with
  | Some Gt | Some Eq => a
  | Some Lt => b
  | None => t_nan
  end.

(** ** Terminals *)

Definition set_terms (s : snap) (l : list (N * N)) : snap :=
  mkSnap (s_kind s) (s_nodes s) l (s_v2l s) (s_l2v s) (s_handles s).

Definition max_term (l : list (N * N)) : N :=
  fold_left (fun m (p : N * N) => N.max m (fst p)) l 0%N.

(** a terminal id that is not in use (the slot the terminal store hands out) *)
Definition fresh_term (s : snap) : N := N.succ (max_term (s_terms s)).

(** [Manager::get_terminal(value)]: the terminal with that value if there is
    one, otherwise a new terminal *)
Definition get_terminal (s : snap) (v : tV) : snap * ref :=
  match rassoc_N (s_terms s) (t_code v) with
  | Some t => (s, RT t)
  | None =>
    let t := fresh_term s in
    (set_terms s ((t, t_code v) :: s_terms s), RT t)
  end.

(** [Manager::get_node]: [Node::Inner(node)] or [Node::Terminal(value)] *)
Inductive mview := MI (nd : node) | MT (v : tV).

Definition mt_view (s : snap) (r : ref) : option mview :=
  match r with
  | RN id => match find_node s id with Some nd => Some (MI nd) | None => None end
  | RT t => match term_val s t with Some c => Some (MT (t_decode c)) | None => None end
  end.

(** ** Operators *)

(** the binary members of [enum MTBDDOp] *)
Inductive mop := MAdd | MSub | MMul | MDiv | MMin | MMax.

(** [MTBDDOp as u8] (Add, Sub, Mul, Div, Min, Max, Ite, Restrict) *)
Definition mop_code (o : mop) : N :=
  match o with
  | MAdd => 0 | MSub => 1 | MMul => 2 | MDiv => 3 | MMin => 4 | MMax => 5
  end%N.
Definition mcode_ite : N := 6%N.
Definition mcode_restrict : N := 7%N.

(** the scalar operation an operator lifts *)
Definition mop_eval (o : mop) : tV -> tV -> tV :=
  match o with
  | MAdd => t_add | MSub => t_sub | MMul => t_mul
  | MDiv => t_div | MMin => t_min | MMax => t_max
  end.

(** [enum Operation]: a finished result (in a table that may have gained a
    terminal) or the normalised (operator, operands) triple that is used as
    the cache key *)
Inductive mtb_res :=
| MDone (s' : snap) (r : ref)
| MBin (o : mop) (a b : ref).

(** [Done(m.get_terminal(val)?)] *)
Definition done_val (s : snap) (v : tV) : mtb_res :=
  let '(s', r) := get_terminal s v in MDone s' r.

(** a guard [(Terminal(t), _) if t.borrow().p()] *)
Definition is_t (p : tV -> bool) (v : mview) : bool :=
  match v with MT a => p a | MI _ => false end.

Section Gt.
(** the (unobservable) edge order used to normalise commutative operand pairs *)
Variable gt : ref -> ref -> bool.

(** [terminal_bin::<OP>], arm by arm in the order of the source; [vf], [vg]
    are [m.get_node(f)], [m.get_node(g)] *)
Definition mt_tb (s : snap) (op : mop) (f g : ref) (vf vg : mview) : mtb_res :=
  match op with
  | MAdd =>
    match vf, vg with
    | MT a, MT b => done_val s (t_add a b)
    | _, _ =>
      if is_t t_is_zero vf then MDone s g
      else if is_t t_is_zero vg then MDone s f
      else if is_t t_is_nan vf || is_t t_is_nan vg then done_val s t_nan
      else if gt f g then MBin MAdd g f
      else MBin MAdd f g
    end
  | MSub =>
    match vf, vg with
    | MT a, MT b => done_val s (t_sub a b)
    | _, _ =>
      if is_t t_is_zero vg then MDone s f
      else if is_t t_is_nan vf || is_t t_is_nan vg then done_val s t_nan
      else MBin MSub f g
    end
  | MMul =>
    match vf, vg with
    | MT a, MT b => done_val s (t_mul a b)
    | _, _ =>
      if is_t t_is_one vf then MDone s g
      else if is_t t_is_one vg then MDone s f
      else if is_t t_is_nan vf || is_t t_is_nan vg then done_val s t_nan
      else if gt f g then MBin MMul g f
      else MBin MMul f g
    end
  | MDiv =>
    match vf, vg with
    | MT a, MT b => done_val s (t_div a b)
    | _, _ =>
      if is_t t_is_one vg then MDone s f
      else if is_t t_is_nan vf || is_t t_is_nan vg then done_val s t_nan
      else MBin MDiv f g
    end
  | MMin =>
    if ref_eqb f g then MDone s f else
    match vf, vg with
    | MT a, MT b =>
      match t_cmp a b with
      | Some Lt | Some Eq => MDone s f
      | Some Gt => MDone s g
      | None => done_val s t_nan
      end
    | _, _ =>
      if is_t t_is_nan vf || is_t t_is_nan vg then done_val s t_nan
      else if gt f g then MBin MMin g f
      else MBin MMin f g
    end
  | MMax =>
    if ref_eqb f g then MDone s f else
    match vf, vg with
    | MT a, MT b =>
      match t_cmp a b with
      | Some Gt | Some Eq => MDone s f
      | Some Lt => MDone s g
      | None => done_val s t_nan
      end
    | _, _ =>
      if is_t t_is_nan vf || is_t t_is_nan vg then done_val s t_nan
      else if gt f g then MBin MMax g f
      else MBin MMax f g
    end
  end.

(** [node.level()]: the stored level of an inner node, [None] = a terminal
    ([LevelNo::MAX], below every level) *)
Definition olevel (v : mview) : option nat :=
  match v with MI nd => Some (nstored nd) | MT _ => None end.

(** [std::cmp::min] on levels *)
Definition omin (a b : option nat) : option nat :=
  match a, b with
  | Some x, Some y => Some (Nat.min x y)
  | Some x, None => Some x
  | None, Some y => Some y
  | None, None => None
  end.

(** the cofactor pair used by the recursion: the children when the node is
    at the top-most level [lvl], the edge itself otherwise (always for
    terminals) *)
Definition mt_cof (r : ref) (v : mview) (lvl : nat) : option (ref * ref) :=
  match v with
  | MI nd => cof2 r nd lvl
  | MT _ => Some (r, r)
  end.

Section Cache.
Variable C : Type.
Variable cget : C -> N -> list ref -> option ref.
Variable cadd : C -> N -> list ref -> ref -> C.

(** [apply_bin::<OP>] *)
Fixpoint mt_apply_bin (fuel : nat) (s : snap) (c : C) (op : mop) (f g : ref)
  : option (snap * C * ref) :=
  match fuel with
  | O => None
  | S n =>
    match mt_view s f, mt_view s g with
    | Some vf, Some vg =>
      match mt_tb s op f g vf vg with
      | MDone s' h => Some (s', c, h)
      | MBin o a b =>
        match cget c (mop_code o) [a; b] with
        | Some h => Some (s, c, h)
        | None =>
          match omin (olevel vf) (olevel vg) with
          | None => None           (* both terminals: [unwrap_inner] would panic *)
          | Some lvl =>
            match mt_cof f vf lvl, mt_cof g vg lvl with
            | Some (f0, f1), Some (g0, g1) =>
              match mt_apply_bin n s c op f0 g0 with
              | None => None
              | Some (s1, c1, t) =>
                match mt_apply_bin n s1 c1 op f1 g1 with
                | None => None
                | Some (s2, c2, e) =>
                  let '(s3, h) := mk_node s2 lvl [E t; E e] in
                  Some (s3, cadd c2 (mop_code o) [a; b] (eref h), eref h)
                end
              end
            | _, _ => None
            end
          end
        end
      end
    | _, _ => None
    end
  end.

(** [apply_ite]: [if f { g } else { h }] for a 0-1-valued [f].  A terminal
    condition other than 0 is treated as true (the [debug_assert!] that it is
    1 is not modelled: the theorems assume a 0-1-valued condition). *)
Fixpoint mt_apply_ite (fuel : nat) (s : snap) (c : C) (f g h : ref)
  : option (snap * C * ref) :=
  match fuel with
  | O => None
  | S n =>
    if ref_eqb g h then Some (s, c, g)
    else
      match mt_view s f with
      | None => None
      | Some (MT t) => Some (s, c, if t_is_zero t then h else g)
      | Some (MI fnode) =>
        match cget c mcode_ite [f; g; h] with
        | Some r => Some (s, c, r)
        | None =>
          match mt_view s g, mt_view s h with
          | Some vg, Some vh =>
            match omin (omin (Some (nstored fnode)) (olevel vg)) (olevel vh) with
            | None => None
            | Some lvl =>
              match cof2 f fnode lvl, mt_cof g vg lvl, mt_cof h vh lvl with
              | Some (ft, fe), Some (gt', ge), Some (ht, he) =>
                match mt_apply_ite n s c ft gt' ht with
                | None => None
                | Some (s1, c1, t) =>
                  match mt_apply_ite n s1 c1 fe ge he with
                  | None => None
                  | Some (s2, c2, e) =>
                    let '(s3, r) := mk_node s2 lvl [E t; E e] in
                    Some (s3, cadd c2 mcode_ite [f; g; h] (eref r), eref r)
                  end
                end
              | _, _, _ => None
              end
            end
          | _, _ => None
          end
        end
      end
  end.

(** [InnerResult] of [restrict] *)
Inductive rin_res :=
| RDone (r : ref)
| RRec (vars f : ref) (fnode : node).

(** the tail-recursive [inner] of [restrict]: [f] points to [fnode] at
    [flevel], [vars] points to [vnode]; walks down the cube (and [f], when a
    literal's variable is the top variable of [f]) until [f] is above the
    top-most remaining literal *)
Fixpoint mt_restrict_inner (fuel : nat) (s : snap) (f : ref) (fnode : node) (flevel : nat)
    (vars : ref) (vnode : node) : option rin_res :=
  match fuel with
  | O => None
  | S n =>
    let vlevel := nstored vnode in
    if Nat.ltb flevel vlevel then Some (RRec vars f fnode)          (* f above vars *)
    else
      match nchildren vnode with
      | [vt; ve] =>
        if Nat.ltb vlevel flevel then
          (* vars above f: skip the literal *)
          match mt_view s (eref vt) with
          | None => None
          | Some (MI nd) => mt_restrict_inner n s f fnode flevel (eref vt) nd
          | Some (MT t) =>
            if t_is_one t then Some (RDone f)
            else
              match mt_view s (eref ve) with
              | None => None
              | Some (MI nd) => mt_restrict_inner n s f fnode flevel (eref ve) nd
              | Some (MT _) => Some (RDone f)
              end
          end
        else
          (* top literal at the level of f: select the branch *)
          match nchildren fnode with
          | [ft; fe] =>
            let continue (f' vars' : ref) (vnode' : node) :=
              match mt_view s f' with
              | None => None
              | Some (MI fnode') => mt_restrict_inner n s f' fnode' (nstored fnode') vars' vnode'
              | Some (MT _) => Some (RDone f')
              end in
            match mt_view s (eref vt) with
            | None => None
            | Some (MI nd) => continue (eref ft) (eref vt) nd        (* positive literal *)
            | Some (MT t) =>
              if t_is_one t then Some (RDone (eref ft))            (* positive literal, last *)
              else
                match mt_view s (eref ve) with                       (* negative literal *)
                | None => None
                | Some (MI nd) => continue (eref fe) (eref ve) nd
                | Some (MT _) => Some (RDone (eref fe))
                end
            end
          | _ => None
          end
      | _ => None
      end
  end.

(** enough fuel for [mt_restrict_inner]: every call moves [f] or [vars] down *)
Definition rin_fuel (s : snap) : nat := S (nlevels s + nlevels s).

(** [restrict]: [vars] is a cube (a product of literals [x] resp. [1 - x]) *)
Fixpoint mt_restrict (fuel : nat) (s : snap) (c : C) (f vars : ref)
  : option (snap * C * ref) :=
  match fuel with
  | O => None
  | S n =>
    match mt_view s f, mt_view s vars with
    | Some (MI fnode), Some (MI vnode) =>
      match mt_restrict_inner (rin_fuel s) s f fnode (nstored fnode) vars vnode with
      | None => None
      | Some (RDone r) => Some (s, c, r)
      | Some (RRec vars' f' fnode') =>
        match cget c mcode_restrict [f'; vars'] with
        | Some r => Some (s, c, r)
        | None =>
          match nchildren fnode' with
          | [ft; fe] =>
            match mt_restrict n s c (eref ft) vars' with
            | None => None
            | Some (s1, c1, t) =>
              match mt_restrict n s1 c1 (eref fe) vars' with
              | None => None
              | Some (s2, c2, e) =>
                let '(s3, r) := mk_node s2 (nstored fnode') [E t; E e] in
                Some (s3, cadd c2 mcode_restrict [f'; vars'] (eref r), eref r)
              end
            end
          | _ => None
          end
        end
      end
    | Some _, Some _ => Some (s, c, f)
    | _, _ => None
    end
  end.

End Cache.
End Gt.

(** ** Constants and variables *)

(** [constant_edge] *)
Definition mt_const (s : snap) (v : tV) : snap * ref := get_terminal s v.

(** [var_edge]: the node (level of [v], [1], [0]) *)
Definition mt_var (s : snap) (v : nat) : option (snap * ref) :=
  match nth_error (s_v2l s) v with
  | Some lvl =>
    let '(s1, t) := get_terminal s t_one in
    let '(s2, e) := get_terminal s1 t_zero in
    let '(s3, h) := get_or_insert s2 lvl [E t; E e] in
    Some (s3, eref h)
  | None => None
  end.

(** ** Evaluation *)

(** the inner loop of [eval_edge]: [choices l = true] = take child 1 *)
Fixpoint mt_eval_walk (fuel : nat) (s : snap) (r : ref) (choices : nat -> bool) : option tV :=
  match r with
  | RT t => match term_val s t with Some v => Some (t_decode v) | None => None end
  | RN id =>
    match fuel with
    | O => None
    | S n =>
      match find_node s id with
      | None => None
      | Some nd =>
        match nth_error (nchildren nd) (if choices (nstored nd) then 1 else 0) with
        | None => None
        | Some e => mt_eval_walk n s (eref e) choices
        end
      end
    end
  end.

(** [eval_edge]; the bit set is built as for BDDs ([choices_of] of DD/Apply.v) *)
Definition mt_eval (s : snap) (r : ref) (args : list (nat * bool)) : option tV :=
  mt_eval_walk (S (nlevels s)) s r (choices_of s args (fun _ => false)).

(** ** The invariant the theorems assume, as a checker for real snapshots *)

(** a well-formed MTBDD table whose terminal values are values of the Rust
    type ([t_wfb]: e.g. payloads in the i64 range, normalised bit patterns) *)
Definition mt_ok_b (s : snap) : bool :=
  wf_b s && kind_eqb (s_kind s) KMtbdd
  && forallb (fun p : N * N => t_wfb (t_decode (snd p))) (s_terms s).

(** [r] is a cube in the sense of [restrict]: a chain of nodes (level, rest, 0)
    (positive literal) or (level, 0, rest) (negative literal) ending in the
    terminal 1; returns the literals as (level, polarity) *)
Fixpoint cube_lits (fuel : nat) (s : snap) (r : ref) : option (list (nat * bool)) :=
  match r with
  | RT t =>
    match term_val s t with
    | Some c => if t_is_one (t_decode c) then Some [] else None
    | None => None
    end
  | RN id =>
    match fuel with
    | O => None
    | S n =>
      match find_node s id with
      | None => None
      | Some nd =>
        match nchildren nd with
        | [a; b] =>
          let zero (e : edge) :=
            match eref e with
            | RT t => match term_val s t with Some c => t_is_zero (t_decode c) | None => false end
            | RN _ => false
            end in
          if zero b then
            match cube_lits n s (eref a) with
            | Some l => Some ((nlevel nd, true) :: l)
            | None => None
            end
          else if zero a then
            match cube_lits n s (eref b) with
            | Some l => Some ((nlevel nd, false) :: l)
            | None => None
            end
          else None
        | _ => None
        end
      end
    end
  end.

End Alg.
