(** * Foundations for the generic MTBDD apply proofs (DD/MtG.v)

    The development of DD/ApplyMtbddBase.v with the terminal type abstracted:
    everything is proved from the scalar laws collected in the class [tlaws]
    (instances: [MtF64Proofs.f64_laws] for the normalised binary64 values of
    terminal/f64.rs, [MtI64.i64_laws] for terminal/i64.rs).

    - [tlaws]: the laws of the terminal type the function-level proofs need;
    - [MtOK]: the invariant (well-formed MTBDD table whose terminal values are
      values of the Rust type: [t_wfb]), decided by [mt_ok_b];
    - [mext s s'], [DenM s r phi], [get_terminal_ok], independence of levels,
      Shannon cofactors, the node step ([mk_node]), canonicity inside one table. *)

From Coq Require Import List NArith ZArith PArith Bool Arith Lia FMapPositive.
From OxiVerif Require Import DD.Table DD.TableProofs DD.Canon DD.Sem DD.Build DD.BuildProofs
  DD.Apply DD.ApplyProofs DD.MtG.
Import ListNotations.

Notation cupd := TableProofs.upd.

(** the values of the Rust type *)
Definition twf {A : talg} (v : tV) : Prop := t_wfb v = true.

(** ** The scalar laws

    One field per fact the proofs use; the comment names the place in
    oxidd-rules-mtbdd/src/lib.rs [terminal_bin] / apply_rec.rs that relies on it.
    Laws about values are only required for values of the Rust type ([twf]). *)
Class tlaws (A : talg) : Prop := mkTlaws {
  (* values <-> their identity for Eq/Hash *)
  t_decode_code : forall v : tV, t_decode (t_code v) = v;
  t_code_decode : forall n : N, t_code (t_decode n) = n;
  (* [is_zero]/[is_one]/[is_nan] = comparison with the constant *)
  t_is_zero_spec : forall a : tV, t_is_zero a = true <-> a = t_zero;
  t_is_one_spec : forall a : tV, t_is_one a = true <-> a = t_one;
  t_is_nan_spec : forall a : tV, t_is_nan a = true <-> a = t_nan;
  t_zero_ne_one : @t_zero A <> t_one;
  (* the constants and the results of the operations are values of the type *)
  t_zero_wf : twf t_zero;
  t_one_wf : twf t_one;
  t_nan_wf : twf t_nan;
  t_add_wf : forall a b : tV, twf a -> twf b -> twf (t_add a b);
  t_sub_wf : forall a b : tV, twf a -> twf b -> twf (t_sub a b);
  t_mul_wf : forall a b : tV, twf a -> twf b -> twf (t_mul a b);
  t_div_wf : forall a b : tV, twf a -> twf b -> twf (t_div a b);
  (* Add: [(Terminal(t), _) if t.is_zero() => g], [(_, Terminal(t)) if t.is_zero() => f] *)
  t_add_zero_l : forall t x : tV, t_is_zero t = true -> twf x -> t_add t x = x;
  t_add_zero_r : forall t x : tV, t_is_zero t = true -> twf x -> t_add x t = x;
  (* Sub: [(_, Terminal(t)) if t.is_zero() => f] *)
  t_sub_zero_r : forall t x : tV, t_is_zero t = true -> twf x -> t_sub x t = x;
  (* Mul: [(Terminal(t), _) if t.is_one() => g], [(_, Terminal(t)) if t.is_one() => f] *)
  t_mul_one_l : forall t x : tV, t_is_one t = true -> twf x -> t_mul t x = x;
  t_mul_one_r : forall t x : tV, t_is_one t = true -> twf x -> t_mul x t = x;
  (* Div: [(_, Terminal(t)) if t.is_one() => f] *)
  t_div_one_r : forall t x : tV, t_is_one t = true -> twf x -> t_div x t = x;
  (* all six: [(Terminal(t), _) | (_, Terminal(t)) if t.is_nan() => nan] *)
  t_nan_absorbing : forall t x : tV, t_is_nan t = true -> twf x ->
    t_add t x = t_nan /\ t_add x t = t_nan /\
    t_sub t x = t_nan /\ t_sub x t = t_nan /\
    t_mul t x = t_nan /\ t_mul x t = t_nan /\
    t_div t x = t_nan /\ t_div x t = t_nan /\
    t_min t x = t_nan /\ t_min x t = t_nan /\
    t_max t x = t_nan /\ t_max x t = t_nan;
  (* Add, Mul, Min, Max: [_ if f > g => Binary(op, g, f)] *)
  t_add_comm : forall a b : tV, twf a -> twf b -> t_add a b = t_add b a;
  t_mul_comm : forall a b : tV, twf a -> twf b -> t_mul a b = t_mul b a;
  t_min_comm : forall a b : tV, twf a -> twf b -> t_min a b = t_min b a;
  t_max_comm : forall a b : tV, twf a -> twf b -> t_max a b = t_max b a;
  (* Min, Max: [if f == g { return f }] *)
  t_min_idem : forall a : tV, twf a -> t_min a a = a;
  t_max_idem : forall a : tV, twf a -> t_max a a = a
}.

Section Base.
Context {TA : talg} {TL : tlaws TA}.

Lemma twfb_true : forall a : tV, t_wfb a = true <-> twf a.
Proof. intros a. reflexivity. Qed.

Lemma t_is_zero_zero : t_is_zero t_zero = true.
Proof. apply t_is_zero_spec. reflexivity. Qed.
Lemma t_is_one_one : t_is_one t_one = true.
Proof. apply t_is_one_spec. reflexivity. Qed.
Lemma t_is_zero_one : t_is_zero t_one = false.
Proof.
  destruct (t_is_zero t_one) eqn:E; [|reflexivity]. apply t_is_zero_spec in E.
  exfalso. apply t_zero_ne_one. symmetry. exact E.
Qed.
Lemma t_is_one_zero : t_is_one t_zero = false.
Proof.
  destruct (t_is_one t_zero) eqn:E; [|reflexivity]. apply t_is_one_spec in E.
  exfalso. apply t_zero_ne_one. exact E.
Qed.

Lemma code_inj : forall a b, t_code a = t_code b -> a = b.
Proof. intros a b E. rewrite <- (t_decode_code a), <- (t_decode_code b), E. reflexivity. Qed.

(** ** The invariant *)

Record MtOK (s : snap) : Prop := mkMtOK {
  mo_wf : WF s;
  mo_kind : s_kind s = KMtbdd;
  mo_vals : forall t c, term_val s t = Some c -> twf (t_decode c)
}.

Theorem mt_ok_b_spec : forall s, mt_ok_b s = true <-> MtOK s.
Proof.
  intros s. unfold mt_ok_b. rewrite !andb_true_iff, wf_b_spec, forallb_forall. split.
  - intros [[H Hk] Hv]. constructor; auto.
    + destruct (s_kind s); simpl in Hk; congruence.
    + intros t c E. apply assoc_N_In in E. specialize (Hv _ E). simpl in Hv.
      apply twfb_true. exact Hv.
  - intros B. pose proof (mo_wf s B) as H. split; [split|].
    + exact H.
    + rewrite (mo_kind s B). reflexivity.
    + intros [t c] Hin. simpl. apply twfb_true. apply (mo_vals s B t).
      apply In_assoc_N; [apply (wf_term_ids s H) | exact Hin].
Qed.

Lemma mt_kary : forall s, MtOK s -> kary (s_kind s).
Proof. intros s B. rewrite (mo_kind s B). split; discriminate. Qed.

Lemma mchoice_ok : forall s c, MtOK s -> (choice_ok s c <-> bchoice c).
Proof. intros s c B. unfold choice_ok, bchoice. rewrite (mo_kind s B). reflexivity. Qed.

Lemma mt_children : forall s id nd, MtOK s -> find_node s id = Some nd ->
  exists a b, nchildren nd = [a; b].
Proof.
  intros s id nd B E. pose proof (wf_arity s (mo_wf s B) id nd E) as L.
  rewrite (mo_kind s B) in L. simpl in L.
  destruct (nchildren nd) as [|a [|b [|x r]]]; simpl in L; try discriminate. eauto.
Qed.

(** ** Table extension with new nodes and new terminals *)

Record mext (s s' : snap) : Prop := mkMext {
  mx_kind : s_kind s' = s_kind s;
  mx_terms : forall t c, term_val s t = Some c -> term_val s' t = Some c;
  mx_v2l : s_v2l s' = s_v2l s;
  mx_l2v : s_l2v s' = s_l2v s;
  mx_handles : s_handles s' = s_handles s;
  mx_nodes : forall id nd, find_node s id = Some nd -> find_node s' id = Some nd
}.

Lemma mext_refl : forall s, mext s s.
Proof. intros s. constructor; auto. Qed.

Lemma mext_trans : forall s1 s2 s3, mext s1 s2 -> mext s2 s3 -> mext s1 s3.
Proof.
  intros s1 s2 s3 A B. constructor.
  - rewrite (mx_kind _ _ B). apply (mx_kind _ _ A).
  - intros t c E. apply (mx_terms _ _ B). apply (mx_terms _ _ A). exact E.
  - rewrite (mx_v2l _ _ B). apply (mx_v2l _ _ A).
  - rewrite (mx_l2v _ _ B). apply (mx_l2v _ _ A).
  - rewrite (mx_handles _ _ B). apply (mx_handles _ _ A).
  - intros id nd E. apply (mx_nodes _ _ B). apply (mx_nodes _ _ A). exact E.
Qed.

Lemma mext_of_extends : forall s s', extends s s' -> mext s s'.
Proof.
  intros s s' X. constructor; try apply X.
  intros t c E. rewrite (ext_term_val _ _ t X). exact E.
Qed.

Lemma mx_nlevels : forall s s', mext s s' -> nlevels s' = nlevels s.
Proof. intros s s' X. unfold nlevels. rewrite (mx_l2v _ _ X). reflexivity. Qed.

Lemma mx_ref_ok : forall s s' r, mext s s' -> ref_ok s r -> ref_ok s' r.
Proof.
  intros s s' [t|id] X; simpl.
  - intros [c E]. exists c. apply (mx_terms _ _ X). exact E.
  - intros [nd E]. exists nd. apply (mx_nodes _ _ X). exact E.
Qed.

Lemma mx_rlevel : forall s s' r, mext s s' -> ref_ok s r -> rlevel s' r = rlevel s r.
Proof.
  intros s s' [t|id] X; simpl.
  - intros _. apply mx_nlevels. exact X.
  - intros [nd E]. rewrite E, (mx_nodes _ _ X id nd E). reflexivity.
Qed.

(** every reference of [s] means in [s'] what it meant in [s], whatever the fuel *)
Lemma semk_mext : forall s s', WF s -> mext s s' ->
  forall f r c, ref_ok s r -> semk s' f r c = semk s f r c.
Proof.
  intros s s' H X. induction f as [|f IH]; intros r c Hok.
  - destruct r as [t|id]; [|reflexivity]. rewrite !semk_T. destruct Hok as [v E].
    rewrite E. apply (mx_terms _ _ X). exact E.
  - destruct r as [t|id].
    + rewrite !semk_T. destruct Hok as [v E]. rewrite E. apply (mx_terms _ _ X). exact E.
    + rewrite !semk_S. destruct Hok as [nd E]. rewrite E, (mx_nodes _ _ X id nd E).
      destruct (nth_error (nchildren nd) (c (nlevel nd))) as [e|] eqn:He; [|reflexivity].
      apply IH. apply (child_nth s H id nd _ e E He).
Qed.

(** [MtOK] survives the insertion of nodes *)
Lemma mtok_extends : forall s s', MtOK s -> extends s s' -> WF s' -> MtOK s'.
Proof.
  intros s s' B X H'. constructor.
  - exact H'.
  - rewrite (ext_kind _ _ X). apply (mo_kind s B).
  - intros t c. rewrite (ext_term_val _ _ t X). apply (mo_vals s B).
Qed.

(** ** Denotations *)

Definition mfun := (nat -> nat) -> tV.

Definition DenM (s : snap) (r : ref) (phi : mfun) : Prop :=
  ref_ok s r /\
  forall c, bchoice c -> semk s (S (nlevels s)) r c = Some (t_code (phi c)).

Lemma denm_ext : forall s r phi phi', DenM s r phi ->
  (forall c, bchoice c -> phi c = phi' c) -> DenM s r phi'.
Proof. intros s r phi phi' [A B] E. split; [exact A|]. intros c Hc. rewrite <- E by exact Hc. auto. Qed.

Lemma denm_unique : forall s r phi phi', DenM s r phi -> DenM s r phi' ->
  forall c, bchoice c -> phi c = phi' c.
Proof.
  intros s r phi phi' [_ A] [_ B] c Hc. apply code_inj.
  specialize (A c Hc). specialize (B c Hc). congruence.
Qed.

(** the value of a reference is the t_code of one of the table's terminals *)
Lemma semk_is_term : forall s f r c v, semk s f r c = Some v -> exists t, term_val s t = Some v.
Proof.
  intros s. induction f as [|f IH]; intros r c v E.
  - destruct r as [t|id]; [rewrite semk_T in E; eauto | discriminate].
  - destruct r as [t|id]; [rewrite semk_T in E; eauto|].
    rewrite semk_S in E. destruct (find_node s id) as [nd|]; [|discriminate].
    destruct (nth_error (nchildren nd) (c (nlevel nd))) as [e|]; [|discriminate].
    eapply IH; eauto.
Qed.

(** the values of a denoted function are values of the Rust type *)
Lemma denm_wf : forall s r phi, MtOK s -> DenM s r phi -> forall c, bchoice c -> twf (phi c).
Proof.
  intros s r phi B [_ D] c Hc. destruct (semk_is_term s _ _ _ _ (D c Hc)) as [t E].
  rewrite <- (t_decode_code (phi c)). apply (mo_vals s B t _ E).
Qed.

Lemma denm_exists : forall s r, MtOK s -> ref_ok s r -> exists phi, DenM s r phi.
Proof.
  intros s r B Hok.
  exists (fun c => match semk s (S (nlevels s)) r c with Some n => t_decode n | None => t_nan end).
  split; [exact Hok|]. intros c Hc.
  pose proof (rlevel_le s (mo_wf s B) r).
  destruct (semk_total s (mo_wf s B) (S (nlevels s)) r c Hok (proj2 (mchoice_ok s c B) Hc) ltac:(lia))
    as [v Ev].
  rewrite Ev, t_code_decode. reflexivity.
Qed.

Lemma denm_mext : forall s s' r phi, MtOK s -> mext s s' -> DenM s r phi -> DenM s' r phi.
Proof.
  intros s s' r phi B X [A D]. split; [apply (mx_ref_ok _ _ _ X A)|].
  intros c Hc. rewrite (mx_nlevels _ _ X), (semk_mext s s' (mo_wf s B) X _ _ c A). auto.
Qed.

Lemma denm_extends : forall s s' r phi, MtOK s -> extends s s' -> DenM s r phi -> DenM s' r phi.
Proof. intros s s' r phi B X. apply denm_mext; [exact B | apply mext_of_extends; exact X]. Qed.

Lemma denm_term : forall s t v, term_val s t = Some (t_code v) -> DenM s (RT t) (fun _ => v).
Proof. intros s t v E. split; [exists (t_code v); exact E|]. intros c _. rewrite semk_T. exact E. Qed.

(** ** [mt_view] *)

Lemma mt_view_total : forall s r, ref_ok s r -> exists v, mt_view s r = Some v.
Proof. intros s [t|id] [x E]; simpl; rewrite E; eauto. Qed.

Lemma mt_view_MI : forall s r nd, mt_view s r = Some (MI nd) ->
  exists id, r = RN id /\ find_node s id = Some nd.
Proof.
  intros s [t|id] nd; simpl.
  - destruct (term_val s t); discriminate.
  - destruct (find_node s id) as [n|] eqn:E; [|discriminate]. intros Hx. inversion Hx; subst. eauto.
Qed.

Lemma mt_view_MT : forall s r v, mt_view s r = Some (MT v) ->
  exists t, r = RT t /\ term_val s t = Some (t_code v).
Proof.
  intros s [t|id] v; simpl.
  - destruct (term_val s t) as [c|] eqn:E; [|discriminate]. intros Hx. inversion Hx; subst.
    exists t. rewrite t_code_decode. auto.
  - destruct (find_node s id); discriminate.
Qed.

Lemma view_denm_T : forall s r v phi, DenM s r phi -> mt_view s r = Some (MT v) ->
  forall c, bchoice c -> phi c = v.
Proof.
  intros s r v phi [_ D] V c Hc. destruct (mt_view_MT s r v V) as [t [-> E]].
  specialize (D c Hc). rewrite semk_T, E in D. apply code_inj. congruence.
Qed.

(** ** Independence of the levels above a reference *)

Definition indepM (phi : mfun) (L : nat) : Prop :=
  forall c c', bchoice c -> bchoice c' -> (forall l, L <= l -> c l = c' l) -> phi c = phi c'.

Definition cofM (phi : mfun) (lvl i : nat) : mfun := fun c => phi (cupd c lvl i).

Lemma denm_indep : forall s r phi, WF s -> DenM s r phi -> indepM phi (rlevel s r).
Proof.
  intros s r phi H [_ D] c c' Hc Hc' E. apply code_inj.
  pose proof (D c Hc) as A. pose proof (D c' Hc') as A'.
  rewrite (semk_ext s H _ r c c' E) in A. congruence.
Qed.

Lemma indepM_mono : forall phi L L', indepM phi L -> L' <= L -> indepM phi L'.
Proof. intros phi L L' I Hle c c' Hc Hc' E. apply I; auto. intros l Hl. apply E. lia. Qed.

Lemma indepM_cof : forall phi L lvl i, indepM phi L -> lvl <= L -> i < 2 -> indepM (cofM phi lvl i) (S lvl).
Proof.
  intros phi L lvl i I Hle Hi c c' Hc Hc' E. unfold cofM.
  apply I; try (apply bchoice_upd; assumption).
  intros l Hl. unfold cupd. destruct (Nat.eqb_spec l lvl); [reflexivity|]. apply E. lia.
Qed.

Lemma denm_upd_self : forall s r phi c lvl, WF s -> DenM s r phi -> bchoice c ->
  cofM phi lvl (c lvl) c = phi c.
Proof.
  intros s r phi c lvl H D Hc. unfold cofM.
  apply (denm_indep s r phi H D); [apply bchoice_upd; auto | exact Hc|].
  intros l _. unfold cupd. destruct (Nat.eqb_spec l lvl); [subst; reflexivity | reflexivity].
Qed.

(** a reference whose function ignores all levels below [L] sits at level [L]
    or deeper (a consequence of canonicity) *)
Lemma denm_level : forall s r phi L, MtOK s -> DenM s r phi -> L <= nlevels s ->
  indepM phi L -> L <= rlevel s r.
Proof.
  intros s r phi L B [Hok D] HL I.
  pose proof (mo_wf s B) as H. pose proof (mt_kary s B) as Hk.
  destruct (le_lt_dec L (rlevel s r)) as [Hle|Hlt]; [exact Hle|]. exfalso.
  destruct r as [t|id]; [simpl in Hlt; lia|].
  destruct Hok as [nd E]. rewrite (rlevel_node s id nd E) in Hlt.
  apply (reduced_kary s Hk _ (wf_reduced s H id nd E)).
  intros a b Ha Hb.
  destruct (In_nth_error _ _ Ha) as [i Hi]. destruct (In_nth_error _ _ Hb) as [j Hj].
  destruct (child_nth s H id nd i a E Hi) as [Oa La].
  destruct (child_nth s H id nd j b E Hj) as [Ob Lb].
  apply (child_edge_eq s id id nd nd a b H (proj1 Hk) E E Ha Hb).
  apply (canon_kary s H Hk _ _ Oa Ob). intros c Hc.
  apply (mchoice_ok s c B) in Hc.
  pose proof (child_index s H id nd i a E Hi) as Hi2.
  pose proof (child_index s H id nd j b E Hj) as Hj2.
  rewrite (mo_kind s B) in Hi2, Hj2. simpl in Hi2, Hj2.
  pose proof (child_sem s H id nd i a c E Hi) as Sa.
  pose proof (child_sem s H id nd j b c E Hj) as Sb.
  unfold semn in Sa, Sb. rewrite Sa, Sb.
  rewrite (D _ (bchoice_upd c (nlevel nd) i Hc Hi2)), (D _ (bchoice_upd c (nlevel nd) j Hc Hj2)).
  f_equal. f_equal. apply I; try (apply bchoice_upd; assumption).
  intros l Hl. unfold cupd. destruct (Nat.eqb_spec l (nlevel nd)); [lia | reflexivity].
Qed.

(** ** Shannon cofactors of a reference *)

Lemma denm_child : forall s id nd i e phi, MtOK s -> DenM s (RN id) phi ->
  find_node s id = Some nd -> nth_error (nchildren nd) i = Some e ->
  DenM s (eref e) (cofM phi (nlevel nd) i).
Proof.
  intros s id nd i e phi B [_ D] E He. pose proof (mo_wf s B) as H.
  split; [apply (child_nth s H id nd i e E He)|].
  intros c Hc. pose proof (child_sem s H id nd i e c E He) as S. unfold semn in S. rewrite S.
  pose proof (child_index s H id nd i e E He) as Hi. rewrite (mo_kind s B) in Hi. simpl in Hi.
  apply D. apply bchoice_upd; assumption.
Qed.

Lemma denm_skip : forall s r phi lvl i, WF s -> DenM s r phi -> lvl < rlevel s r -> i < 2 ->
  DenM s r (cofM phi lvl i).
Proof.
  intros s r phi lvl i H D Hl Hi. apply (denm_ext s r phi); [exact D|].
  intros c Hc. unfold cofM. apply (denm_indep s r phi H D); [exact Hc | apply bchoice_upd; auto|].
  intros l Hle. unfold cupd. destruct (Nat.eqb_spec l lvl); [lia | reflexivity].
Qed.

(** what [cof2] returns for a node at or below the split level *)
Lemma cof2_okM : forall s id nd phi lvl, MtOK s -> DenM s (RN id) phi ->
  find_node s id = Some nd -> lvl <= nlevel nd ->
  exists ft fe, cof2 (RN id) nd lvl = Some (ft, fe) /\
    DenM s ft (cofM phi lvl 0) /\ DenM s fe (cofM phi lvl 1) /\
    lvl < rlevel s ft /\ lvl < rlevel s fe.
Proof.
  intros s id nd phi lvl B D E Hle. pose proof (mo_wf s B) as H.
  unfold cof2. rewrite (wf_stored s H id nd E).
  destruct (Nat.eqb_spec (nlevel nd) lvl) as [Heq|Hne].
  - destruct (mt_children s id nd B E) as [a [b Ech]]. rewrite Ech.
    assert (Ha : nth_error (nchildren nd) 0 = Some a) by (rewrite Ech; reflexivity).
    assert (Hb : nth_error (nchildren nd) 1 = Some b) by (rewrite Ech; reflexivity).
    exists (eref a), (eref b). subst lvl.
    split; [reflexivity|].
    split; [apply (denm_child s id nd 0 a phi B D E Ha)|].
    split; [apply (denm_child s id nd 1 b phi B D E Hb)|].
    split; [apply (child_nth s H id nd 0 a E Ha) | apply (child_nth s H id nd 1 b E Hb)].
  - assert (Hl : lvl < rlevel s (RN id)) by (rewrite (rlevel_node s id nd E); lia).
    exists (RN id), (RN id). split; [reflexivity|].
    split; [apply denm_skip; auto|]. split; [apply denm_skip; auto|]. auto.
Qed.

(** the same for [mt_cof] (inner node or terminal) *)
Lemma mt_cof_ok : forall s r v phi lvl, MtOK s -> DenM s r phi -> mt_view s r = Some v ->
  lvl <= rlevel s r -> lvl < nlevels s ->
  exists ft fe, mt_cof r v lvl = Some (ft, fe) /\
    DenM s ft (cofM phi lvl 0) /\ DenM s fe (cofM phi lvl 1) /\
    lvl < rlevel s ft /\ lvl < rlevel s fe.
Proof.
  intros s r v phi lvl B D V Hle Hl. pose proof (mo_wf s B) as H. destruct v as [nd|x].
  - destruct (mt_view_MI s r nd V) as [id [-> E]]. simpl mt_cof.
    rewrite (rlevel_node s id nd E) in Hle. apply cof2_okM; assumption.
  - destruct (mt_view_MT s r x V) as [t [-> E]]. simpl mt_cof.
    exists (RT t), (RT t). split; [reflexivity|].
    split; [apply denm_skip; auto|]. split; [apply denm_skip; auto|]. simpl. auto.
Qed.

(** the level [olevel] reports is [rlevel] (terminals: below all levels) *)
Lemma olevel_rlevel : forall s r v, WF s -> mt_view s r = Some v ->
  match olevel v with
  | Some l => l = rlevel s r /\ l < nlevels s
  | None => rlevel s r = nlevels s
  end.
Proof.
  intros s r v H V. destruct v as [nd|x]; simpl.
  - destruct (mt_view_MI s r nd V) as [id [-> E]].
    rewrite (wf_stored s H id nd E), (rlevel_node s id nd E).
    split; [reflexivity | apply (wf_level s H id nd E)].
  - destruct (mt_view_MT s r x V) as [t [-> _]]. reflexivity.
Qed.

(** ** The node step shared by the algorithms *)

Lemma node_stepM : forall s lvl t e P0 P1 s' h, MtOK s -> lvl < nlevels s ->
  DenM s t P0 -> DenM s e P1 -> indepM P0 (S lvl) -> indepM P1 (S lvl) ->
  mk_node s lvl [E t; E e] = (s', h) ->
  MtOK s' /\ extends s s' /\
  DenM s' (eref h) (fun c => if Nat.eqb (c lvl) 0 then P0 c else P1 c).
Proof.
  intros s lvl t e P0 P1 s' h B Hl Dt De I0 I1 Hm.
  pose proof (mo_wf s B) as H. pose proof (mt_kary s B) as Hk.
  assert (Lt : S lvl <= rlevel s t) by (apply (denm_level s t P0); auto).
  assert (Le : S lvl <= rlevel s e) by (apply (denm_level s e P1); auto).
  assert (Hch : children_ok s lvl [E t; E e]).
  { split; [rewrite (mo_kind s B); reflexivity|].
    intros x [<-|[<-|[]]]; simpl; (split; [|split; [lia | reflexivity]]);
      [apply (proj1 Dt) | apply (proj1 De)]. }
  destruct (mk_node_wf s lvl _ s' h H Hk Hl Hch Hm) as [W [X [O [T [Sold [Sh _]]]]]].
  split; [apply (mtok_extends s s' B X W)|]. split; [exact X|].
  split; [exact O|]. intros c Hc.
  pose proof (Hc lvl) as Hc2.
  destruct (c lvl) as [|[|k]] eqn:Ec; [| |lia].
  - rewrite (Sh c 0 (E t) Ec eq_refl). simpl. apply (proj2 Dt c Hc).
  - rewrite (Sh c 1 (E e) Ec eq_refl). simpl. apply (proj2 De c Hc).
Qed.

(** recombining the two cofactor results *)
Lemma shannon_pickM : forall (c : nat -> nat) lvl (G : nat -> tV), bchoice c ->
  (if Nat.eqb (c lvl) 0 then G 0 else G 1) = G (c lvl).
Proof.
  intros c lvl G Hc. pose proof (Hc lvl). destruct (c lvl) as [|[|k]]; [reflexivity | reflexivity | lia].
Qed.

(** ** Canonicity inside one table *)

Lemma denm_canon : forall s r1 r2 phi, MtOK s -> DenM s r1 phi -> DenM s r2 phi -> r1 = r2.
Proof.
  intros s r1 r2 phi B [O1 D1] [O2 D2].
  apply (canon_kary s (mo_wf s B) (mt_kary s B) r1 r2 O1 O2).
  intros c Hc. apply (mchoice_ok s c B) in Hc. rewrite (D1 c Hc), (D2 c Hc). reflexivity.
Qed.

(** the cofactor of an existing function w.r.t. a level at or above its root exists *)
Lemma denm_cof_exists : forall s r Phi lvl i, MtOK s -> DenM s r Phi ->
  lvl <= rlevel s r -> lvl < nlevels s -> i < 2 -> exists r', DenM s r' (cofM Phi lvl i).
Proof.
  intros s r Phi lvl i B D Hle Hl Hi. pose proof (mo_wf s B) as H.
  destruct r as [t|id].
  - exists (RT t). apply denm_skip; auto.
  - destruct (proj1 D) as [nd En]. rewrite (rlevel_node s id nd En) in Hle.
    destruct (cof2_okM s id nd Phi lvl B D En Hle) as [ft [fe [_ [D0 [D1 _]]]]].
    destruct i as [|[|k]]; [exists ft; exact D0 | exists fe; exact D1 | lia].
Qed.

(** if the function to be built already has a reference, [mk_node] returns it
    and leaves the table alone *)
Lemma mk_node_stableM : forall s lvl t e P0 P1 s' h r0, MtOK s -> lvl < nlevels s ->
  DenM s t P0 -> DenM s e P1 -> indepM P0 (S lvl) -> indepM P1 (S lvl) ->
  mk_node s lvl [E t; E e] = (s', h) ->
  DenM s r0 (fun c => if Nat.eqb (c lvl) 0 then P0 c else P1 c) ->
  s' = s /\ eref h = r0.
Proof.
  intros s lvl t e P0 P1 s' h r0 B Hl Dt De I0 I1 Hm D0.
  destruct (node_stepM s lvl t e P0 P1 s' h B Hl Dt De I0 I1 Hm) as [B' [X Dh]].
  assert (Eh : eref h = r0) by (apply (denm_canon s' _ _ _ B' Dh (denm_extends s s' _ _ B X D0))).
  split; [|exact Eh].
  unfold mk_node in Hm. destruct (all_equal [E t; E e]); [inversion Hm; reflexivity|].
  unfold get_or_insert in Hm. destruct (find_dup s lvl [E t; E e]); inversion Hm; [reflexivity|].
  exfalso. subst h. simpl in Eh. subst r0. destruct (proj1 D0) as [nd En].
  rewrite fresh_id_free in En. discriminate.
Qed.

(** ** [get_terminal]: hash-consing of terminal values *)

Lemma rassoc_N_none : forall l v, rassoc_N l v = None -> ~ In v (map snd l).
Proof.
  induction l as [|[a b] r IH]; intros v E Hin; [destruct Hin|]. simpl in E, Hin.
  destruct (N.eqb_spec b v) as [->|Hne]; [discriminate|].
  destruct Hin as [Hin|Hin]; [contradiction | apply (IH v E Hin)].
Qed.

Lemma max_term_ge : forall (l : list (N * N)) m,
  (m <= fold_left (fun m (p : N * N) => N.max m (fst p)) l m)%N /\
  forall p, In p l -> (fst p <= fold_left (fun m (p : N * N) => N.max m (fst p)) l m)%N.
Proof.
  induction l as [|x l IH]; intros m; simpl.
  - split; [lia | intros p []].
  - destruct (IH (N.max m (fst x))) as [A B]. split; [lia|].
    intros p [<-|Hp]; [lia | auto].
Qed.

Lemma fresh_term_free : forall s, term_val s (fresh_term s) = None.
Proof.
  intros s. destruct (term_val s (fresh_term s)) as [c|] eqn:E; [|reflexivity].
  exfalso. apply assoc_N_In in E.
  destruct (max_term_ge (s_terms s) 0%N) as [_ B]. specialize (B _ E). simpl in B.
  unfold fresh_term, max_term in B. lia.
Qed.

(** adding a terminal with a fresh id and a fresh value *)
Section AddTerm.
Variable s : snap.
Variable t c : N.
Hypothesis B : MtOK s.
Hypothesis Hfree : term_val s t = None.
Hypothesis Hnew : ~ In c (map snd (s_terms s)).
Hypothesis Hwf : twf (t_decode c).

Let s' := set_terms s ((t, c) :: s_terms s).

Lemma addt_term_val : forall k, term_val s' k = if N.eqb t k then Some c else term_val s k.
Proof. intros k. reflexivity. Qed.

Lemma addt_mext : mext s s'.
Proof.
  constructor; try reflexivity; [|auto].
  intros k v E. rewrite addt_term_val. destruct (N.eqb_spec t k) as [->|Hne]; [congruence | exact E].
Qed.

Lemma addt_ref_ok : forall r, ref_ok s r -> ref_ok s' r.
Proof. intros r. apply mx_ref_ok. apply addt_mext. Qed.

Lemma addt_rlevel : forall r, rlevel s' r = rlevel s r.
Proof. intros [k|id]; reflexivity. Qed.

Lemma addt_wf : WF s'.
Proof.
  pose proof (mo_wf s B) as H. pose proof (mt_kary s B) as Hk.
  constructor.
  - apply (wf_perm_len s H).
  - apply (wf_perm_v2l s H).
  - apply (wf_perm_l2v s H).
  - intros id nd E. apply (wf_arity s H id nd E).
  - intros id nd E. apply (wf_stored s H id nd E).
  - intros id nd E. apply (wf_level s H id nd E).
  - intros id nd e E Hin. destruct (wf_child s H id nd e E Hin) as [A L].
    split; [apply addt_ref_ok; exact A | rewrite addt_rlevel; exact L].
  - intros id nd E. apply (reduced_kary_iff s' (nchildren nd) Hk).
    apply (reduced_kary_iff s (nchildren nd) Hk). apply (wf_reduced s H id nd E).
  - intros Hb id nd e E Hin. apply (wf_tags s H Hb id nd e E Hin).
  - intros id1 id2 n1 n2 E1 E2. apply (wf_unique s H id1 id2 n1 n2 E1 E2).
  - simpl. constructor; [|apply (wf_term_ids s H)].
    intros Hin. apply in_map_iff in Hin. destruct Hin as [[k v] [Ek Hin]]. simpl in Ek. subst k.
    pose proof Hfree as F. unfold term_val in F.
    rewrite (In_assoc_N (s_terms s) t v (wf_term_ids s H) Hin) in F. discriminate.
  - simpl. constructor; [exact Hnew | apply (wf_term_vals s H)].
  - intros h Hin. destruct (wf_handles s H h Hin) as [A T].
    split; [apply addt_ref_ok; exact A | exact T].
Qed.

Lemma addt_ok : MtOK s'.
Proof.
  constructor; [apply addt_wf | apply (mo_kind s B)|].
  intros k v. rewrite addt_term_val. destruct (N.eqb_spec t k) as [->|Hne].
  - intros E. inversion E; subst. exact Hwf.
  - apply (mo_vals s B).
Qed.

End AddTerm.

(** a reference that denotes a constant is the terminal with that value *)
Lemma denm_const_term : forall s r v, MtOK s -> DenM s r (fun _ => v) ->
  exists t, r = RT t /\ term_val s t = Some (t_code v).
Proof.
  intros s r v B D. pose proof (mo_wf s B) as H.
  assert (L : nlevels s <= rlevel s r).
  { apply (denm_level s r _ (nlevels s) B D (le_n _)). intros c c' _ _ _. reflexivity. }
  destruct r as [t|id].
  - exists t. split; [reflexivity|].
    pose proof (proj2 D (fun _ => 0) ltac:(intros l; lia)) as E. rewrite semk_T in E. exact E.
  - exfalso. destruct (proj1 D) as [nd E]. rewrite (rlevel_node s id nd E) in L.
    pose proof (wf_level s H id nd E). lia.
Qed.

Theorem get_terminal_ok : forall s v s' r, MtOK s -> twf v -> get_terminal s v = (s', r) ->
  MtOK s' /\ mext s s' /\ DenM s' r (fun _ => v) /\
  (forall r0, DenM s r0 (fun _ => v) -> s' = s /\ r = r0).
Proof.
  intros s v s' r B Hv. pose proof (mo_wf s B) as H. unfold get_terminal.
  destruct (rassoc_N (s_terms s) (t_code v)) as [t|] eqn:Er; intros Heq; inversion Heq; subst s' r; clear Heq.
  - assert (Et : term_val s t = Some (t_code v)).
    { apply rassoc_N_In in Er. apply In_assoc_N; [apply (wf_term_ids s H) | exact Er]. }
    split; [exact B|]. split; [apply mext_refl|]. split; [apply denm_term; exact Et|].
    intros r0 D0. split; [reflexivity|].
    destruct (denm_const_term s r0 v B D0) as [t0 [-> E0]].
    f_equal. apply (term_val_inj s t t0 (t_code v) H Et E0).
  - pose proof (rassoc_N_none _ _ Er) as Hnew.
    assert (Hwf : twf (t_decode (t_code v))) by (rewrite t_decode_code; exact Hv).
    pose proof (fresh_term_free s) as Hfree.
    split; [apply (addt_ok s (fresh_term s) (t_code v) B Hfree Hnew Hwf)|].
    split; [apply (addt_mext s (fresh_term s) (t_code v) Hfree)|].
    split.
    + apply denm_term. rewrite addt_term_val, N.eqb_refl. reflexivity.
    + intros r0 D0. exfalso.
      destruct (denm_const_term s r0 v B D0) as [t0 [-> E0]].
      apply Hnew. apply assoc_N_In in E0. apply (in_map snd) in E0. exact E0.
Qed.

(** [get_terminal] never fails to deliver a value that is already there *)
Lemma get_terminal_existing : forall s v t, WF s -> term_val s t = Some (t_code v) ->
  get_terminal s v = (s, RT t).
Proof.
  intros s v t H E. unfold get_terminal.
  pose proof (assoc_N_In _ _ _ E) as Hin.
  destruct (rassoc_N_total _ _ _ Hin) as [t' Et]. rewrite Et.
  pose proof (rassoc_N_In _ _ _ Et) as Hin'.
  rewrite (nodup_snd_inj (s_terms s) t' t (t_code v) (wf_term_vals s H) Hin' Hin). reflexivity.
Qed.

End Base.
