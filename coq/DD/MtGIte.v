(** * Correctness of the MTBDD if-then-else (generic, DD/MtG.v: [mt_apply_ite] =
      [apply_ite] of oxidd-rules-mtbdd/src/apply_rec.rs)

    [mt_apply_ite_ok]: the result denotes
    [fun c => if is_zero (phi c) then theta c else psi c] - for a 0-1-valued
    condition [phi] this is "psi where phi = 1, theta where phi = 0"
    ([mt_apply_ite_01]); the table is only extended, [MtOK]/[MCacheOK] are
    preserved, an existing reference of the result function is returned
    unchanged. *)

From Coq Require Import List NArith ZArith PArith Bool Arith Lia FMapPositive.
From OxiVerif Require Import DD.Table DD.TableProofs DD.Canon DD.Sem DD.Build DD.BuildProofs
  DD.Apply DD.ApplyProofs DD.MtG DD.MtGBase DD.MtGProofs.
Import ListNotations.

Section IG.
Context {TA : talg} {TL : tlaws TA}.

Section IteSec.
Variable gt : ref -> ref -> bool.
Variable C : Type.
Variable cget : C -> N -> list ref -> option ref.
Variable cadd : C -> N -> list ref -> ref -> C.
Hypothesis Hlossy : lossy cget cadd.

Lemma mt_apply_ite_S : forall n s c f g h,
  mt_apply_ite C cget cadd (S n) s c f g h =
    if ref_eqb g h then Some (s, c, g)
    else
      match mt_view s f with
      | None => None
      | Some (MT t) => Some (s, c, if t_is_zero t then h else g)
      | Some (MI fnode) =>
        match cget c mcode_ite [f; g; h] with
        | Some r => Some (s, c, r)
        | None =>
          match mt_view s g, mt_view s h with
          | Some vg, Some vh =>
            match omin (omin (Some (nstored fnode)) (olevel vg)) (olevel vh) with
            | None => None
            | Some lvl =>
              match cof2 f fnode lvl, mt_cof g vg lvl, mt_cof h vh lvl with
              | Some (ft, fe), Some (gt', ge), Some (ht, he) =>
                match mt_apply_ite C cget cadd n s c ft gt' ht with
                | None => None
                | Some (s1, c1, t) =>
                  match mt_apply_ite C cget cadd n s1 c1 fe ge he with
                  | None => None
                  | Some (s2, c2, e) =>
                    let '(s3, r) := mk_node s2 lvl [E t; E e] in
                    Some (s3, cadd c2 mcode_ite [f; g; h] (eref r), eref r)
                  end
                end
              | _, _, _ => None
              end
            end
          | _, _ => None
          end
        end
      end.
Proof. reflexivity. Qed.

(** the split level of three operands the first of which is an inner node *)
Lemma omin3_level : forall s idf fnode g h vg vh, WF s ->
  find_node s idf = Some fnode -> mt_view s g = Some vg -> mt_view s h = Some vh ->
  omin (omin (Some (nstored fnode)) (olevel vg)) (olevel vh)
  = Some (Nat.min (Nat.min (nlevel fnode) (rlevel s g)) (rlevel s h)).
Proof.
  intros s idf fnode g h vg vh H Ef Vg Vh.
  pose proof (olevel_rlevel s g vg H Vg) as Lg. pose proof (olevel_rlevel s h vh H Vh) as Lh.
  pose proof (wf_level s H idf fnode Ef) as Hlf.
  rewrite (wf_stored s H idf fnode Ef).
  destruct (olevel vg) as [lg|], (olevel vh) as [lh|]; simpl.
  - destruct Lg as [-> ?], Lh as [-> ?]. reflexivity.
  - destruct Lg as [-> ?]. rewrite Lh. f_equal. lia.
  - destruct Lh as [-> ?]. rewrite Lg. f_equal. lia.
  - rewrite Lg, Lh. f_equal. lia.
Qed.

Theorem mt_apply_ite_ok : forall fuel s c f g h phi psi theta,
  MtOK s -> MCacheOK cget s c -> DenM s f phi -> DenM s g psi -> DenM s h theta ->
  nlevels s - Nat.min (Nat.min (rlevel s f) (rlevel s g)) (rlevel s h) < fuel ->
  mresult_ok C cget s c (mt_apply_ite C cget cadd fuel s c f g h)
             (fun c0 => if t_is_zero (phi c0) then theta c0 else psi c0).
Proof.
  induction fuel as [|n IH]; intros s c f g h phi psi theta B O Df Dg Dh Hfuel; [lia|].
  pose proof (mo_wf s B) as H.
  rewrite mt_apply_ite_S.
  destruct (ref_eqb g h) eqn:Egh.
  { apply ref_eqb_eq in Egh. subst h.
    pose proof (denm_unique s g psi theta Dg Dh) as U.
    apply mresult_ok_here; auto. apply (denm_ext s g psi); [exact Dg|].
    intros c0 Hc. rewrite <- (U c0 Hc). destruct (t_is_zero (phi c0)); reflexivity. }
  destruct (mt_view_total s f (proj1 Df)) as [vf Vf]. rewrite Vf.
  destruct vf as [fnode|tv].
  2:{ pose proof (view_denm_T s f tv phi Df Vf) as U.
      apply mresult_ok_here; auto. destruct (t_is_zero tv) eqn:Ez.
      - apply (denm_ext s h theta); [exact Dh|]. intros c0 Hc. rewrite (U c0 Hc), Ez. reflexivity.
      - apply (denm_ext s g psi); [exact Dg|]. intros c0 Hc. rewrite (U c0 Hc), Ez. reflexivity. }
  destruct (mt_view_MI s f fnode Vf) as [idf [-> Ef]].
  destruct (cget c mcode_ite [RN idf; g; h]) as [r|] eqn:Ec.
  { destruct (O _ _ _ Ec eq_refl) as [pa [pb [pc [Da [Db [Dc Dr]]]]]].
    apply mresult_ok_here; auto. apply (denm_ext s r _ _ Dr). intros c0 Hc.
    rewrite (denm_unique s _ pa phi Da Df c0 Hc), (denm_unique s _ pb psi Db Dg c0 Hc),
            (denm_unique s _ pc theta Dc Dh c0 Hc). reflexivity. }
  destruct (mt_view_total s g (proj1 Dg)) as [vg Vg]. destruct (mt_view_total s h (proj1 Dh)) as [vh Vh].
  rewrite Vg, Vh.
  rewrite (omin3_level s idf fnode g h vg vh H Ef Vg Vh).
  rewrite (rlevel_node s idf fnode Ef) in Hfuel.
  pose proof (wf_level s H idf fnode Ef) as Hlf.
  pose proof (rlevel_le s H g) as Hlg. pose proof (rlevel_le s H h) as Hlh.
  set (lvl := Nat.min (Nat.min (nlevel fnode) (rlevel s g)) (rlevel s h)) in *.
  assert (Hlvl : lvl < nlevels s) by lia.
  destruct (cof2_okM s idf fnode phi lvl B Df Ef ltac:(lia)) as [ft [fe [Ecf [Dft [Dfe [Lft Lfe]]]]]].
  destruct (mt_cof_ok s g vg psi lvl B Dg Vg ltac:(lia) Hlvl) as [gt' [ge [Ecg [Dgt [Dge [Lgt Lge]]]]]].
  destruct (mt_cof_ok s h vh theta lvl B Dh Vh ltac:(lia) Hlvl) as [ht [he [Ech [Dht [Dhe [Lht Lhe]]]]]].
  rewrite Ecf, Ecg, Ech.
  destruct (IH s c ft gt' ht _ _ _ B O Dft Dgt Dht ltac:(lia)) as [s1 [c1 [t [E1 [B1 [X1 [O1 [D1 S1]]]]]]]].
  rewrite E1.
  assert (Dfe1 : DenM s1 fe (cofM phi lvl 1)) by (apply (denm_mext s s1 _ _ B X1 Dfe)).
  assert (Dge1 : DenM s1 ge (cofM psi lvl 1)) by (apply (denm_mext s s1 _ _ B X1 Dge)).
  assert (Dhe1 : DenM s1 he (cofM theta lvl 1)) by (apply (denm_mext s s1 _ _ B X1 Dhe)).
  assert (Hf1 : nlevels s1 - Nat.min (Nat.min (rlevel s1 fe) (rlevel s1 ge)) (rlevel s1 he) < n).
  { rewrite (mx_nlevels _ _ X1), (mx_rlevel _ _ _ X1 (proj1 Dfe)),
            (mx_rlevel _ _ _ X1 (proj1 Dge)), (mx_rlevel _ _ _ X1 (proj1 Dhe)). lia. }
  destruct (IH s1 c1 fe ge he _ _ _ B1 O1 Dfe1 Dge1 Dhe1 Hf1) as [s2 [c2 [e [E2 [B2 [X2 [O2 [D2 S2]]]]]]]].
  rewrite E2.
  destruct (mk_node s2 lvl [Build.E t; Build.E e]) as [s3 r] eqn:Em.
  assert (D1' : DenM s2 t (fun c0 => if t_is_zero (cofM phi lvl 0 c0) then cofM theta lvl 0 c0 else cofM psi lvl 0 c0))
    by (apply (denm_mext s1 s2 _ _ B1 X2 D1)).
  assert (Ip : indepM phi (nlevel fnode))
    by (rewrite <- (rlevel_node s idf fnode Ef); apply (denm_indep s _ phi H Df)).
  assert (Iq : indepM psi (rlevel s g)) by (apply (denm_indep s _ psi H Dg)).
  assert (Ir : indepM theta (rlevel s h)) by (apply (denm_indep s _ theta H Dh)).
  assert (II : forall i, i < 2 ->
            indepM (fun c0 => if t_is_zero (cofM phi lvl i c0) then cofM theta lvl i c0 else cofM psi lvl i c0) (S lvl)).
  { intros i Hi x y Hx Hy Exy.
    rewrite (indepM_cof phi _ lvl i Ip ltac:(lia) Hi x y Hx Hy Exy).
    rewrite (indepM_cof psi _ lvl i Iq ltac:(lia) Hi x y Hx Hy Exy).
    rewrite (indepM_cof theta _ lvl i Ir ltac:(lia) Hi x y Hx Hy Exy). reflexivity. }
  assert (Hl2 : lvl < nlevels s2)
    by (rewrite (mx_nlevels _ _ X2), (mx_nlevels _ _ X1); exact Hlvl).
  destruct (node_stepM s2 lvl t e _ _ s3 r B2 Hl2 D1' D2 (II 0 ltac:(lia)) (II 1 ltac:(lia)) Em)
    as [B3 [X3 Dr]].
  assert (X03 : mext s s3).
  { eapply mext_trans; [|apply mext_of_extends; exact X3]. eapply mext_trans; eauto. }
  assert (Heq : forall c0, bchoice c0 ->
            (if Nat.eqb (c0 lvl) 0
             then (if t_is_zero (cofM phi lvl 0 c0) then cofM theta lvl 0 c0 else cofM psi lvl 0 c0)
             else (if t_is_zero (cofM phi lvl 1 c0) then cofM theta lvl 1 c0 else cofM psi lvl 1 c0))
            = if t_is_zero (phi c0) then theta c0 else psi c0).
  { intros c0 Hc.
    rewrite (shannon_pickM c0 lvl
               (fun i => if t_is_zero (cofM phi lvl i c0) then cofM theta lvl i c0 else cofM psi lvl i c0) Hc).
    rewrite (denm_upd_self s _ phi c0 lvl H Df Hc), (denm_upd_self s _ psi c0 lvl H Dg Hc),
            (denm_upd_self s _ theta c0 lvl H Dh Hc).
    reflexivity. }
  assert (Dres : DenM s3 (eref r) (fun c0 => if t_is_zero (phi c0) then theta c0 else psi c0))
    by (apply (denm_ext _ _ _ _ Dr Heq)).
  exists s3, (cadd c2 mcode_ite [RN idf; g; h] (eref r)), (eref r).
  split; [reflexivity|]. split; [exact B3|]. split; [exact X03|].
  split; [|split; [exact Dres|]].
  { apply (mcacheok_add C cget cadd Hlossy);
      [apply (mcacheok_mext C cget s2 s3 c2 B2 (mext_of_extends _ _ X3) O2)|].
    intros _. exists phi, psi, theta.
    split; [apply (denm_mext s s3 _ _ B X03 Df)|].
    split; [apply (denm_mext s s3 _ _ B X03 Dg)|].
    split; [apply (denm_mext s s3 _ _ B X03 Dh) | exact Dres]. }
  intros r0 D0.
  assert (J : indepM (fun c0 => if t_is_zero (phi c0) then theta c0 else psi c0) lvl).
  { intros x y Hx Hy Exy.
    rewrite (indepM_mono phi _ lvl Ip ltac:(lia) x y Hx Hy Exy).
    rewrite (indepM_mono psi _ lvl Iq ltac:(lia) x y Hx Hy Exy).
    rewrite (indepM_mono theta _ lvl Ir ltac:(lia) x y Hx Hy Exy). reflexivity. }
  assert (L0 : lvl <= rlevel s r0) by (apply (denm_level s r0 _ lvl B D0 ltac:(lia) J)).
  destruct (denm_cof_exists s r0 _ lvl 0 B D0 L0 Hlvl ltac:(lia)) as [q0 Dq0].
  destruct (denm_cof_exists s r0 _ lvl 1 B D0 L0 Hlvl ltac:(lia)) as [q1 Dq1].
  destruct (S1 q0 Dq0) as [Es1 Et]. subst s1 t.
  destruct (S2 q1 Dq1) as [Es2 Ee]. subst s2 e.
  destruct (mk_node_stableM s lvl q0 q1 _ _ s3 r r0 B Hlvl D1' D2 (II 0 ltac:(lia)) (II 1 ltac:(lia)) Em)
    as [Es3 Ehr]; auto.
  apply (denm_ext s r0 _ _ D0). intros c0 Hc. symmetry. apply Heq. exact Hc.
Qed.

(** the property's reading: where the condition is 0 the else-operand is
    selected, elsewhere (in particular where it is 1) the then-operand; no
    assumption on the condition is needed for this model of the release build
    (the t_code [debug_assert!]s that a terminal condition other than 0 is 1) *)
Theorem mt_apply_ite_select : forall fuel s c f g h phi psi theta,
  MtOK s -> MCacheOK cget s c -> DenM s f phi -> DenM s g psi -> DenM s h theta ->
  nlevels s - Nat.min (Nat.min (rlevel s f) (rlevel s g)) (rlevel s h) < fuel ->
  exists s' c' r, mt_apply_ite C cget cadd fuel s c f g h = Some (s', c', r) /\
    MtOK s' /\ mext s s' /\ MCacheOK cget s' c' /\
    exists rho, DenM s' r rho /\
      forall c0, bchoice c0 ->
        (phi c0 = t_one -> rho c0 = psi c0) /\ (phi c0 = t_zero -> rho c0 = theta c0) /\
        (phi c0 <> t_zero -> rho c0 = psi c0).
Proof.
  intros fuel s c f g h phi psi theta B O Df Dg Dh Hfuel.
  destruct (mt_apply_ite_ok fuel s c f g h phi psi theta B O Df Dg Dh Hfuel)
    as [s' [c' [r [E [B' [X [O' [D _]]]]]]]].
  exists s', c', r. repeat (split; [assumption|]).
  eexists. split; [exact D|]. intros c0 Hc. cbv beta.
  split; [intros ->; rewrite t_is_zero_one; reflexivity|].
  split; [intros ->; rewrite t_is_zero_zero; reflexivity|].
  intros Hnz. destruct (t_is_zero (phi c0)) eqn:Ez; [|reflexivity].
  apply t_is_zero_spec in Ez. contradiction.
Qed.

End IteSec.

End IG.
