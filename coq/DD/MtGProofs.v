(** * Correctness of the MTBDD apply algorithm for binary operators
      (generic in the terminal type, DD/MtG.v: [mt_tb] = [terminal_bin], [mt_apply_bin] = [apply_bin])

    - [mt_tb_sound]: every arm of [terminal_bin] is discharged from a scalar
      law of the class [tlaws] (DD/MtGBase.v): a finished result denotes the pointwise
      operation, the normalised triple (operator, a, b) has the operator that
      was asked for and either the operands as given or - only for an operator
      that was proved commutative - swapped;
    - [Cube], [ovr]: what [restrict]'s second operand has to be, and the
      assignment override it stands for;
    - [MCacheOK]: every entry a cache can serve is semantically correct: the
      key (operator t_code, operands) determines the pointwise meaning of the
      memoised value;
    - [mt_apply_bin_ok]: with fuel [S (nlevels s)] the algorithm returns
      (never [None]) a well-formed extension of the table, a correct cache and
      a reference denoting [fun c => op (phi c) (psi c)], for every cache that
      only ever serves what was added ([lossy]); if that function already has
      a reference, this reference is returned and the table is unchanged. *)

From Coq Require Import List NArith ZArith PArith Bool Arith Lia FMapPositive.
From OxiVerif Require Import DD.Table DD.TableProofs DD.Canon DD.Sem DD.Build DD.BuildProofs
  DD.Apply DD.ApplyProofs DD.MtG DD.MtGBase.
Import ListNotations.

Section PG.
Context {TA : talg} {TL : tlaws TA}.

(** ** Cubes *)

(** [r] is a product of literals: a chain of nodes (level, rest, 0) (positive
    literal [x]) or (level, 0, rest) (negative literal [1 - x]) that ends in
    the terminal 1.  [lits] = the literals as (level, polarity), top-down. *)
Inductive Cube (s : snap) : ref -> list (nat * bool) -> Prop :=
| CubeOne : forall t, term_val s t = Some (t_code t_one) -> Cube s (RT t) []
| CubePos : forall id nd rest t0 lits,
    find_node s id = Some nd -> nchildren nd = [E rest; E (RT t0)] ->
    term_val s t0 = Some (t_code t_zero) -> Cube s rest lits ->
    Cube s (RN id) ((nlevel nd, true) :: lits)
| CubeNeg : forall id nd rest t0 lits,
    find_node s id = Some nd -> nchildren nd = [E (RT t0); E rest] ->
    term_val s t0 = Some (t_code t_zero) -> Cube s rest lits ->
    Cube s (RN id) ((nlevel nd, false) :: lits).

(** the choice [c] with the levels of the literals forced (child 0 = the
    level's variable is true) *)
Definition ovr (lits : list (nat * bool)) (c : nat -> nat) : nat -> nat :=
  fun l => match assoc_nat lits l with
           | Some b => if b then 0 else 1
           | None => c l
           end.

Lemma ovr_bchoice : forall lits c, bchoice c -> bchoice (ovr lits c).
Proof.
  intros lits c Hc l. unfold ovr. destruct (assoc_nat lits l) as [[]|]; [lia | lia | apply Hc].
Qed.

Lemma cube_mext : forall s s' r lits, mext s s' -> Cube s r lits -> Cube s' r lits.
Proof.
  intros s s' r lits X Hc. induction Hc.
  - apply CubeOne. apply (mx_terms _ _ X). assumption.
  - eapply CubePos; eauto; [apply (mx_nodes _ _ X); assumption | apply (mx_terms _ _ X); assumption].
  - eapply CubeNeg; eauto; [apply (mx_nodes _ _ X); assumption | apply (mx_terms _ _ X); assumption].
Qed.

Lemma code_zero_one : t_code t_zero <> t_code t_one.
Proof. intros E. apply code_inj in E. apply t_zero_ne_one. exact E. Qed.

(** the literal list of a cube is determined by the reference *)
Lemma cube_fun : forall s r l1 l2, Cube s r l1 -> Cube s r l2 -> l1 = l2.
Proof.
  intros s r l1 l2 H1. revert l2.
  induction H1 as [t Et | id nd rest t0 lits En Ech Et Hr IH | id nd rest t0 lits En Ech Et Hr IH];
    intros l2 H2; inversion H2; subst; try reflexivity.
  - match goal with Hn : find_node s id = Some ?nd' |- _ => rewrite En in Hn; inversion Hn; subst nd' end.
    match goal with Hc : nchildren nd = _ |- _ => rewrite Ech in Hc; inversion Hc; subst end.
    f_equal. apply IH. assumption.
  - exfalso.
    match goal with Hn : find_node s id = Some ?nd' |- _ => rewrite En in Hn; inversion Hn; subst nd' end.
    match goal with Hc : nchildren nd = _ |- _ => rewrite Ech in Hc; inversion Hc; subst end.
    inversion Hr; subst. apply code_zero_one. congruence.
  - exfalso.
    match goal with Hn : find_node s id = Some ?nd' |- _ => rewrite En in Hn; inversion Hn; subst nd' end.
    match goal with Hc : nchildren nd = _ |- _ => rewrite Ech in Hc; inversion Hc; subst end.
    match goal with Hq : Cube s (RT _) _ |- _ => inversion Hq; subst end. apply code_zero_one. congruence.
  - match goal with Hn : find_node s id = Some ?nd' |- _ => rewrite En in Hn; inversion Hn; subst nd' end.
    match goal with Hc : nchildren nd = _ |- _ => rewrite Ech in Hc; inversion Hc; subst end.
    f_equal. apply IH. assumption.
Qed.

(** ** Every arm of [terminal_bin] *)

(** a finished result: the table is only extended, the result denotes [Phi],
    and if [Phi] already had a reference nothing was created *)
Definition tb_done_ok (s s' : snap) (r : ref) (Phi : mfun) : Prop :=
  MtOK s' /\ mext s s' /\ DenM s' r Phi /\
  (forall r0, DenM s r0 Phi -> s' = s /\ r = r0).

Lemma done_here : forall s r Phi, MtOK s -> DenM s r Phi -> tb_done_ok s s r Phi.
Proof.
  intros s r Phi B D. split; [exact B|]. split; [apply mext_refl|]. split; [exact D|].
  intros r0 D0. split; [reflexivity | apply (denm_canon s r r0 Phi B D D0)].
Qed.

Lemma done_val_ok : forall s v (Phi : mfun) (Q : mop -> ref -> ref -> Prop),
  MtOK s -> twf v -> (forall c, bchoice c -> Phi c = v) ->
  match done_val s v with
  | MDone s' r => tb_done_ok s s' r Phi
  | MBin o a b => Q o a b
  end.
Proof.
  intros s v Phi Q B Hv HP. unfold done_val. destruct (get_terminal s v) as [s' r] eqn:Eg.
  destruct (get_terminal_ok s v s' r B Hv Eg) as [B' [X [D S]]].
  split; [exact B'|]. split; [exact X|].
  split; [apply (denm_ext s' r _ _ D); intros c Hc; symmetry; apply HP; exact Hc|].
  intros r0 D0. apply S. apply (denm_ext s r0 _ _ D0). exact HP.
Qed.

Lemma mop_code_inj : forall o o', mop_code o = mop_code o' -> o = o'.
Proof. intros [] [] E; simpl in E; try discriminate; reflexivity. Qed.

(** the operators whose operands [terminal_bin] may swap *)
Definition mop_comm (o : mop) : Prop :=
  forall x y : tV, twf x -> twf y -> mop_eval o x y = mop_eval o y x.

Section TB.
Variable gt : ref -> ref -> bool.

Definition tb_post (s : snap) (op : mop) (f g : ref) (vf vg : mview) (phi psi : mfun)
    (res : mtb_res) : Prop :=
  match res with
  | MDone s' r => tb_done_ok s s' r (fun c => mop_eval op (phi c) (psi c))
  | MBin o a b =>
    o = op /\ ((exists nd, vf = MI nd) \/ (exists nd, vg = MI nd)) /\
    ((a = f /\ b = g) \/ (a = g /\ b = f /\ mop_comm op))
  end.

Lemma tb_post_swap : forall s op f g vf vg phi psi,
  ((exists nd, vf = MI nd) \/ (exists nd, vg = MI nd)) -> mop_comm op ->
  tb_post s op f g vf vg phi psi (if gt f g then MBin op g f else MBin op f g).
Proof.
  intros s op f g vf vg phi psi Hi Hc. destruct (gt f g); simpl.
  - split; [reflexivity|]. split; [exact Hi|]. right. auto.
  - split; [reflexivity|]. split; [exact Hi|]. left. auto.
Qed.

Lemma tb_post_keep : forall s op f g vf vg phi psi,
  ((exists nd, vf = MI nd) \/ (exists nd, vg = MI nd)) ->
  tb_post s op f g vf vg phi psi (MBin op f g).
Proof. intros. simpl. split; [reflexivity|]. split; [assumption|]. left. auto. Qed.

Theorem mt_tb_sound : forall s op f g vf vg phi psi, MtOK s ->
  DenM s f phi -> DenM s g psi -> mt_view s f = Some vf -> mt_view s g = Some vg ->
  tb_post s op f g vf vg phi psi (mt_tb gt s op f g vf vg).
Proof.
  intros s op f g vf vg phi psi B Df Dg Vf Vg.
  assert (Ff : forall a, vf = MT a -> forall c, bchoice c -> phi c = a)
    by (intros a -> c Hc; apply (view_denm_T s f a phi Df Vf c Hc)).
  assert (Fg : forall a, vg = MT a -> forall c, bchoice c -> psi c = a)
    by (intros a -> c Hc; apply (view_denm_T s g a psi Dg Vg c Hc)).
  pose proof (denm_wf s f phi B Df) as Wf. pose proof (denm_wf s g psi B Dg) as Wg.
  assert (Wa : forall a, vf = MT a -> twf a).
  { intros a ->. destruct (mt_view_MT s f a Vf) as [t [_ E]].
    rewrite <- (t_decode_code a). apply (mo_vals s B t _ E). }
  assert (Wb : forall a, vg = MT a -> twf a).
  { intros a ->. destruct (mt_view_MT s g a Vg) as [t [_ E]].
    rewrite <- (t_decode_code a). apply (mo_vals s B t _ E). }
  assert (Fe : ref_eqb f g = true -> forall c, bchoice c -> phi c = psi c).
  { intros E c Hc. apply ref_eqb_eq in E. subst g. apply (denm_unique s f phi psi Df Dg c Hc). }
  (* the four shapes of a finished result *)
  assert (RF : forall law : (forall c, bchoice c -> mop_eval op (phi c) (psi c) = phi c),
             tb_post s op f g vf vg phi psi (MDone s f)).
  { intros law. apply done_here; [exact B|]. apply (denm_ext s f phi _ Df).
    intros c Hc. symmetry. apply law. exact Hc. }
  assert (RG : forall law : (forall c, bchoice c -> mop_eval op (phi c) (psi c) = psi c),
             tb_post s op f g vf vg phi psi (MDone s g)).
  { intros law. apply done_here; [exact B|]. apply (denm_ext s g psi _ Dg).
    intros c Hc. symmetry. apply law. exact Hc. }
  assert (RV : forall v, twf v -> (forall c, bchoice c -> mop_eval op (phi c) (psi c) = v) ->
             tb_post s op f g vf vg phi psi (done_val s v)).
  { intros v Hv law. unfold tb_post.
    apply (done_val_ok s v (fun c => mop_eval op (phi c) (psi c))); auto. }
  (* NaN operand *)
  assert (NaNf : forall a, vf = MT a -> t_is_nan a = true ->
             forall c, bchoice c -> mop_eval op (phi c) (psi c) = t_nan).
  { intros a Ea En c Hc. rewrite (Ff a Ea c Hc).
    pose proof (t_nan_absorbing a (psi c) En (Wg c Hc)) as L. destruct op; simpl; tauto. }
  assert (NaNg : forall a, vg = MT a -> t_is_nan a = true ->
             forall c, bchoice c -> mop_eval op (phi c) (psi c) = t_nan).
  { intros a Ea En c Hc. rewrite (Fg a Ea c Hc).
    pose proof (t_nan_absorbing a (phi c) En (Wf c Hc)) as L. destruct op; simpl; tauto. }
  assert (Wnan : twf t_nan) by apply t_nan_wf.
  assert (In1 : forall nd, vf = MI nd -> (exists n, vf = MI n) \/ (exists n, vg = MI n))
    by (intros nd E; left; eauto).
  assert (In2 : forall nd, vg = MI nd -> (exists n, vf = MI n) \/ (exists n, vg = MI n))
    by (intros nd E; right; eauto).
  destruct op; unfold mt_tb.
  - (* Add *)
    destruct vf as [nf|a], vg as [ng|b]; simpl is_t; cbv iota beta.
    + simpl. apply tb_post_swap; [eauto | intros x y; apply t_add_comm].
    + destruct (t_is_zero b) eqn:Ez.
      { apply RF. intros c Hc. simpl. rewrite (Fg b eq_refl c Hc). apply t_add_zero_r; auto. }
      destruct (t_is_nan b) eqn:En; simpl orb; cbv iota.
      { apply RV; [exact Wnan | apply (NaNg b eq_refl En)]. }
      apply tb_post_swap; [eauto | intros x y; apply t_add_comm].
    + destruct (t_is_zero a) eqn:Ez.
      { apply RG. intros c Hc. simpl. rewrite (Ff a eq_refl c Hc). apply t_add_zero_l; auto. }
      destruct (t_is_nan a) eqn:En; simpl orb; cbv iota.
      { apply RV; [exact Wnan | apply (NaNf a eq_refl En)]. }
      apply tb_post_swap; [eauto | intros x y; apply t_add_comm].
    + apply RV; [apply t_add_wf; auto|].
      intros c Hc. simpl. rewrite (Ff a eq_refl c Hc), (Fg b eq_refl c Hc). reflexivity.
  - (* Sub *)
    destruct vf as [nf|a], vg as [ng|b]; simpl is_t; cbv iota beta.
    + simpl. apply tb_post_keep; eauto.
    + destruct (t_is_zero b) eqn:Ez.
      { apply RF. intros c Hc. simpl. rewrite (Fg b eq_refl c Hc). apply t_sub_zero_r; auto. }
      destruct (t_is_nan b) eqn:En; simpl orb; cbv iota.
      { apply RV; [exact Wnan | apply (NaNg b eq_refl En)]. }
      apply tb_post_keep; eauto.
    + destruct (t_is_nan a) eqn:En; simpl orb; cbv iota.
      { apply RV; [exact Wnan | apply (NaNf a eq_refl En)]. }
      apply tb_post_keep; eauto.
    + apply RV; [apply t_sub_wf; auto|].
      intros c Hc. simpl. rewrite (Ff a eq_refl c Hc), (Fg b eq_refl c Hc). reflexivity.
  - (* Mul *)
    destruct vf as [nf|a], vg as [ng|b]; simpl is_t; cbv iota beta.
    + simpl. apply tb_post_swap; [eauto | intros x y; apply t_mul_comm].
    + destruct (t_is_one b) eqn:Ez.
      { apply RF. intros c Hc. simpl. rewrite (Fg b eq_refl c Hc). apply t_mul_one_r; auto. }
      destruct (t_is_nan b) eqn:En; simpl orb; cbv iota.
      { apply RV; [exact Wnan | apply (NaNg b eq_refl En)]. }
      apply tb_post_swap; [eauto | intros x y; apply t_mul_comm].
    + destruct (t_is_one a) eqn:Ez.
      { apply RG. intros c Hc. simpl. rewrite (Ff a eq_refl c Hc). apply t_mul_one_l; auto. }
      destruct (t_is_nan a) eqn:En; simpl orb; cbv iota.
      { apply RV; [exact Wnan | apply (NaNf a eq_refl En)]. }
      apply tb_post_swap; [eauto | intros x y; apply t_mul_comm].
    + apply RV; [apply t_mul_wf; auto|].
      intros c Hc. simpl. rewrite (Ff a eq_refl c Hc), (Fg b eq_refl c Hc). reflexivity.
  - (* Div *)
    destruct vf as [nf|a], vg as [ng|b]; simpl is_t; cbv iota beta.
    + simpl. apply tb_post_keep; eauto.
    + destruct (t_is_one b) eqn:Ez.
      { apply RF. intros c Hc. simpl. rewrite (Fg b eq_refl c Hc). apply t_div_one_r; auto. }
      destruct (t_is_nan b) eqn:En; simpl orb; cbv iota.
      { apply RV; [exact Wnan | apply (NaNg b eq_refl En)]. }
      apply tb_post_keep; eauto.
    + destruct (t_is_nan a) eqn:En; simpl orb; cbv iota.
      { apply RV; [exact Wnan | apply (NaNf a eq_refl En)]. }
      apply tb_post_keep; eauto.
    + apply RV; [apply t_div_wf; auto|].
      intros c Hc. simpl. rewrite (Ff a eq_refl c Hc), (Fg b eq_refl c Hc). reflexivity.
  - (* Min *)
    destruct (ref_eqb f g) eqn:Efg.
    { apply RF. intros c Hc. simpl. rewrite <- (Fe eq_refl c Hc). apply t_min_idem. apply (Wf c Hc). }
    destruct vf as [nf|a], vg as [ng|b]; simpl is_t; cbv iota beta.
    + simpl. apply tb_post_swap; [eauto | intros x y; apply t_min_comm].
    + destruct (t_is_nan b) eqn:En; simpl orb; cbv iota.
      { apply RV; [exact Wnan | apply (NaNg b eq_refl En)]. }
      apply tb_post_swap; [eauto | intros x y; apply t_min_comm].
    + destruct (t_is_nan a) eqn:En; simpl orb; cbv iota.
      { apply RV; [exact Wnan | apply (NaNf a eq_refl En)]. }
      apply tb_post_swap; [eauto | intros x y; apply t_min_comm].
    + assert (M : forall c, bchoice c -> mop_eval MMin (phi c) (psi c) = t_min a b)
        by (intros c Hc; simpl; rewrite (Ff a eq_refl c Hc), (Fg b eq_refl c Hc); reflexivity).
      unfold t_min in M.
      destruct (t_cmp a b) as [[| |]|].
      * apply RF. intros c Hc. rewrite (M c Hc). symmetry. apply (Ff a eq_refl c Hc).
      * apply RF. intros c Hc. rewrite (M c Hc). symmetry. apply (Ff a eq_refl c Hc).
      * apply RG. intros c Hc. rewrite (M c Hc). symmetry. apply (Fg b eq_refl c Hc).
      * apply RV; [exact Wnan | exact M].
  - (* Max *)
    destruct (ref_eqb f g) eqn:Efg.
    { apply RF. intros c Hc. simpl. rewrite <- (Fe eq_refl c Hc). apply t_max_idem. apply (Wf c Hc). }
    destruct vf as [nf|a], vg as [ng|b]; simpl is_t; cbv iota beta.
    + simpl. apply tb_post_swap; [eauto | intros x y; apply t_max_comm].
    + destruct (t_is_nan b) eqn:En; simpl orb; cbv iota.
      { apply RV; [exact Wnan | apply (NaNg b eq_refl En)]. }
      apply tb_post_swap; [eauto | intros x y; apply t_max_comm].
    + destruct (t_is_nan a) eqn:En; simpl orb; cbv iota.
      { apply RV; [exact Wnan | apply (NaNf a eq_refl En)]. }
      apply tb_post_swap; [eauto | intros x y; apply t_max_comm].
    + assert (M : forall c, bchoice c -> mop_eval MMax (phi c) (psi c) = t_max a b)
        by (intros c Hc; simpl; rewrite (Ff a eq_refl c Hc), (Fg b eq_refl c Hc); reflexivity).
      unfold t_max in M.
      destruct (t_cmp a b) as [[| |]|].
      * apply RF. intros c Hc. rewrite (M c Hc). symmetry. apply (Ff a eq_refl c Hc).
      * apply RG. intros c Hc. rewrite (M c Hc). symmetry. apply (Fg b eq_refl c Hc).
      * apply RF. intros c Hc. rewrite (M c Hc). symmetry. apply (Ff a eq_refl c Hc).
      * apply RV; [exact Wnan | exact M].
Qed.

End TB.

(** ** Caches *)

Section CacheSec.
Variable gt : ref -> ref -> bool.
Variable C : Type.
Variable cget : C -> N -> list ref -> option ref.
Variable cadd : C -> N -> list ref -> ref -> C.
Hypothesis Hlossy : lossy cget cadd.

(** an entry is correct in table [s]: the key determines the pointwise
    meaning of the value *)
Definition mentry_ok (s : snap) (opc : N) (args : list ref) (r : ref) : Prop :=
  match args with
  | [f; g] =>
    (forall o, opc = mop_code o ->
       exists phi psi, DenM s f phi /\ DenM s g psi /\
                       DenM s r (fun c => mop_eval o (phi c) (psi c))) /\
    (opc = mcode_restrict ->
       exists phi lits, DenM s f phi /\ Cube s g lits /\
                        DenM s r (fun c => phi (ovr lits c)))
  | [f; g; h] => opc = mcode_ite ->
      exists phi psi theta, DenM s f phi /\ DenM s g psi /\ DenM s h theta /\
        DenM s r (fun c => if t_is_zero (phi c) then theta c else psi c)
  | _ => True
  end.

Definition MCacheOK (s : snap) (c : C) : Prop :=
  forall opc args r, cget c opc args = Some r -> mentry_ok s opc args r.

Lemma mentry_ok_mext : forall s s' opc args r, MtOK s -> mext s s' ->
  mentry_ok s opc args r -> mentry_ok s' opc args r.
Proof.
  intros s s' opc args r B X. unfold mentry_ok.
  destruct args as [|f [|g [|h [|x rest]]]]; auto.
  - intros [H1 H2]. split.
    + intros o Hc. destruct (H1 o Hc) as [phi [psi [A [A' D]]]]. exists phi, psi.
      repeat split; eapply denm_mext; eauto.
    + intros Hc. destruct (H2 Hc) as [phi [lits [A [Cu D]]]]. exists phi, lits.
      split; [eapply denm_mext; eauto|]. split; [eapply cube_mext; eauto | eapply denm_mext; eauto].
  - intros Hx Hc. destruct (Hx Hc) as [phi [psi [theta [A [A' [A'' D]]]]]]. exists phi, psi, theta.
    repeat split; eapply denm_mext; eauto.
Qed.

Lemma mcacheok_mext : forall s s' c, MtOK s -> mext s s' -> MCacheOK s c -> MCacheOK s' c.
Proof. intros s s' c B X O opc args r E. eapply mentry_ok_mext; eauto. Qed.

Lemma mcacheok_add : forall s c opc args r, MCacheOK s c -> mentry_ok s opc args r ->
  MCacheOK s (cadd c opc args r).
Proof.
  intros s c opc args r O Hn opc' args' r' E.
  destruct (Hlossy _ _ _ _ _ _ _ E) as [[-> [-> ->]]|E']; [exact Hn | apply (O _ _ _ E')].
Qed.

Definition mresult_ok (s : snap) (c : C) (res : option (snap * C * ref)) (Phi : mfun) : Prop :=
  exists s' c' r, res = Some (s', c', r) /\
    MtOK s' /\ mext s s' /\ MCacheOK s' c' /\ DenM s' r Phi /\
    (* if the result function already has a reference, that reference is
       returned and the table is unchanged *)
    (forall r0, DenM s r0 Phi -> s' = s /\ r = r0).

Lemma mresult_ok_ext : forall s c res Phi Phi', mresult_ok s c res Phi ->
  (forall c0, bchoice c0 -> Phi c0 = Phi' c0) -> mresult_ok s c res Phi'.
Proof.
  intros s c res Phi Phi' [s' [c' [r [E [B [X [O [D S]]]]]]]] Hp.
  exists s', c', r. split; [exact E|]. split; [exact B|]. split; [exact X|]. split; [exact O|].
  split; [apply (denm_ext s' r Phi Phi' D Hp)|].
  intros r0 D0. apply S. apply (denm_ext s r0 Phi' Phi D0). intros c0 Hc. symmetry. apply Hp. exact Hc.
Qed.

Lemma mresult_ok_here : forall s c r Phi, MtOK s -> MCacheOK s c -> DenM s r Phi ->
  mresult_ok s c (Some (s, c, r)) Phi.
Proof.
  intros s c r Phi B O D. exists s, c, r.
  split; [reflexivity|]. split; [exact B|]. split; [apply mext_refl|]. split; [exact O|].
  split; [exact D|]. intros r0 D0. split; [reflexivity | apply (denm_canon s r r0 Phi B D D0)].
Qed.

Lemma mresult_ok_done : forall s s' c r Phi, MtOK s -> MCacheOK s c -> tb_done_ok s s' r Phi ->
  mresult_ok s c (Some (s', c, r)) Phi.
Proof.
  intros s s' c r Phi B O [B' [X [D S]]]. exists s', c, r.
  split; [reflexivity|]. split; [exact B'|]. split; [exact X|].
  split; [apply (mcacheok_mext s s' c B X O)|]. split; [exact D | exact S].
Qed.

(** ** [apply_bin] *)

Lemma mt_apply_bin_S : forall n s c op f g,
  mt_apply_bin gt C cget cadd (S n) s c op f g =
  match mt_view s f, mt_view s g with
  | Some vf, Some vg =>
    match mt_tb gt s op f g vf vg with
    | MDone s' h => Some (s', c, h)
    | MBin o a b =>
      match cget c (mop_code o) [a; b] with
      | Some h => Some (s, c, h)
      | None =>
        match omin (olevel vf) (olevel vg) with
        | None => None
        | Some lvl =>
          match mt_cof f vf lvl, mt_cof g vg lvl with
          | Some (f0, f1), Some (g0, g1) =>
            match mt_apply_bin gt C cget cadd n s c op f0 g0 with
            | None => None
            | Some (s1, c1, t) =>
              match mt_apply_bin gt C cget cadd n s1 c1 op f1 g1 with
              | None => None
              | Some (s2, c2, e) =>
                let '(s3, h) := mk_node s2 lvl [E t; E e] in
                Some (s3, cadd c2 (mop_code o) [a; b] (eref h), eref h)
              end
            end
          | _, _ => None
          end
        end
      end
    end
  | _, _ => None
  end.
Proof. reflexivity. Qed.

(** the split level of two operands that are not both terminals *)
Lemma omin_level : forall s f g vf vg, WF s -> mt_view s f = Some vf -> mt_view s g = Some vg ->
  ((exists nd, vf = MI nd) \/ (exists nd, vg = MI nd)) ->
  omin (olevel vf) (olevel vg) = Some (Nat.min (rlevel s f) (rlevel s g)) /\
  Nat.min (rlevel s f) (rlevel s g) < nlevels s.
Proof.
  intros s f g vf vg H Vf Vg Hi.
  pose proof (olevel_rlevel s f vf H Vf) as Lf. pose proof (olevel_rlevel s g vg H Vg) as Lg.
  pose proof (rlevel_le s H f). pose proof (rlevel_le s H g).
  destruct vf as [nf|a], vg as [ng|b]; simpl in *.
  - destruct Lf as [-> ?], Lg as [-> ?]. split; [reflexivity | lia].
  - destruct Lf as [-> ?]. rewrite Lg. split; [f_equal; lia | lia].
  - destruct Lg as [-> ?]. rewrite Lf. split; [f_equal; lia | lia].
  - exfalso. destruct Hi as [[nd E]|[nd E]]; discriminate.
Qed.

Theorem mt_apply_bin_ok : forall op fuel s c f g phi psi,
  MtOK s -> MCacheOK s c -> DenM s f phi -> DenM s g psi ->
  nlevels s - Nat.min (rlevel s f) (rlevel s g) < fuel ->
  mresult_ok s c (mt_apply_bin gt C cget cadd fuel s c op f g)
             (fun c0 => mop_eval op (phi c0) (psi c0)).
Proof.
  intros op. induction fuel as [|n IH]; intros s c f g phi psi B O Df Dg Hfuel; [lia|].
  pose proof (mo_wf s B) as H.
  rewrite mt_apply_bin_S.
  destruct (mt_view_total s f (proj1 Df)) as [vf Vf]. destruct (mt_view_total s g (proj1 Dg)) as [vg Vg].
  rewrite Vf, Vg.
  pose proof (mt_tb_sound gt s op f g vf vg phi psi B Df Dg Vf Vg) as T.
  destruct (mt_tb gt s op f g vf vg) as [s' r|o a b] eqn:Etb; simpl in T.
  - apply mresult_ok_done; assumption.
  - destruct T as [-> [Hin Hab]].
    destruct (cget c (mop_code op) [a; b]) as [h|] eqn:Ec.
    + (* cache hit *)
      destruct (proj1 (O _ _ _ Ec) op eq_refl) as [pa [pb [Da [Db Dh]]]].
      apply mresult_ok_here; auto. apply (denm_ext s h _ _ Dh). intros c0 Hc.
      destruct Hab as [[-> ->]|[-> [-> Hcomm]]].
      * rewrite (denm_unique s _ pa phi Da Df c0 Hc), (denm_unique s _ pb psi Db Dg c0 Hc). reflexivity.
      * rewrite (denm_unique s _ pa psi Da Dg c0 Hc), (denm_unique s _ pb phi Db Df c0 Hc).
        apply Hcomm; [apply (denm_wf s _ psi B Dg c0 Hc) | apply (denm_wf s _ phi B Df c0 Hc)].
    + destruct (omin_level s f g vf vg H Vf Vg Hin) as [El Hlvl]. rewrite El.
      set (lvl := Nat.min (rlevel s f) (rlevel s g)) in *.
      destruct (mt_cof_ok s f vf phi lvl B Df Vf ltac:(lia) Hlvl) as [ft [fe [Ecf [Dft [Dfe [Lft Lfe]]]]]].
      destruct (mt_cof_ok s g vg psi lvl B Dg Vg ltac:(lia) Hlvl) as [gt' [ge [Ecg [Dgt [Dge [Lgt Lge]]]]]].
      rewrite Ecf, Ecg.
      destruct (IH s c ft gt' _ _ B O Dft Dgt ltac:(lia)) as [s1 [c1 [t [E1 [B1 [X1 [O1 [D1 S1]]]]]]]].
      rewrite E1.
      assert (Dfe1 : DenM s1 fe (cofM phi lvl 1)) by (apply (denm_mext s s1 _ _ B X1 Dfe)).
      assert (Dge1 : DenM s1 ge (cofM psi lvl 1)) by (apply (denm_mext s s1 _ _ B X1 Dge)).
      assert (Hf1 : nlevels s1 - Nat.min (rlevel s1 fe) (rlevel s1 ge) < n).
      { rewrite (mx_nlevels _ _ X1), (mx_rlevel _ _ _ X1 (proj1 Dfe)), (mx_rlevel _ _ _ X1 (proj1 Dge)). lia. }
      destruct (IH s1 c1 fe ge _ _ B1 O1 Dfe1 Dge1 Hf1) as [s2 [c2 [e [E2 [B2 [X2 [O2 [D2 S2]]]]]]]].
      rewrite E2.
      destruct (mk_node s2 lvl [Build.E t; Build.E e]) as [s3 h] eqn:Em.
      assert (D1' : DenM s2 t (fun c0 => mop_eval op (cofM phi lvl 0 c0) (cofM psi lvl 0 c0)))
        by (apply (denm_mext s1 s2 _ _ B1 X2 D1)).
      assert (Ip : indepM phi (rlevel s f)) by (apply (denm_indep s _ phi H Df)).
      assert (Iq : indepM psi (rlevel s g)) by (apply (denm_indep s _ psi H Dg)).
      assert (II : forall i, i < 2 ->
                indepM (fun c0 => mop_eval op (cofM phi lvl i c0) (cofM psi lvl i c0)) (S lvl)).
      { intros i Hi x y Hx Hy Exy. f_equal.
        - apply (indepM_cof phi _ lvl i Ip ltac:(lia) Hi); auto.
        - apply (indepM_cof psi _ lvl i Iq ltac:(lia) Hi); auto. }
      assert (Hl2 : lvl < nlevels s2)
        by (rewrite (mx_nlevels _ _ X2), (mx_nlevels _ _ X1); exact Hlvl).
      destruct (node_stepM s2 lvl t e _ _ s3 h B2 Hl2 D1' D2 (II 0 ltac:(lia)) (II 1 ltac:(lia)) Em)
        as [B3 [X3 Dh]].
      assert (X03 : mext s s3).
      { eapply mext_trans; [|apply mext_of_extends; exact X3]. eapply mext_trans; eauto. }
      assert (Heq : forall c0, bchoice c0 ->
                (if Nat.eqb (c0 lvl) 0 then mop_eval op (cofM phi lvl 0 c0) (cofM psi lvl 0 c0)
                 else mop_eval op (cofM phi lvl 1 c0) (cofM psi lvl 1 c0))
                = mop_eval op (phi c0) (psi c0)).
      { intros c0 Hc.
        rewrite (shannon_pickM c0 lvl
                   (fun i => mop_eval op (cofM phi lvl i c0) (cofM psi lvl i c0)) Hc).
        rewrite (denm_upd_self s _ phi c0 lvl H Df Hc), (denm_upd_self s _ psi c0 lvl H Dg Hc).
        reflexivity. }
      assert (Dres : DenM s3 (eref h) (fun c0 => mop_eval op (phi c0) (psi c0)))
        by (apply (denm_ext _ _ _ _ Dh Heq)).
      exists s3, (cadd c2 (mop_code op) [a; b] (eref h)), (eref h).
      split; [reflexivity|]. split; [exact B3|]. split; [exact X03|].
      split; [|split; [exact Dres|]].
      { apply mcacheok_add; [apply (mcacheok_mext s2 s3 c2 B2 (mext_of_extends _ _ X3) O2)|].
        split.
        - intros o Ho. apply mop_code_inj in Ho. subst o.
          pose proof (denm_mext s s3 _ _ B X03 Df) as Df3.
          pose proof (denm_mext s s3 _ _ B X03 Dg) as Dg3.
          destruct Hab as [[-> ->]|[-> [-> Hcomm]]].
          + exists phi, psi. auto.
          + exists psi, phi. split; [exact Dg3|]. split; [exact Df3|].
            apply (denm_ext _ _ _ _ Dres). intros c0 Hc0.
            apply Hcomm; [apply (denm_wf s _ phi B Df c0 Hc0) | apply (denm_wf s _ psi B Dg c0 Hc0)].
        - intros Hx. exfalso. destruct op; discriminate. }
      intros r0 D0.
      assert (J : indepM (fun c0 => mop_eval op (phi c0) (psi c0)) lvl).
      { intros x y Hx Hy Exy. f_equal.
        - apply (indepM_mono phi _ lvl Ip ltac:(lia)); auto.
        - apply (indepM_mono psi _ lvl Iq ltac:(lia)); auto. }
      assert (L0 : lvl <= rlevel s r0) by (apply (denm_level s r0 _ lvl B D0 ltac:(lia) J)).
      destruct (denm_cof_exists s r0 _ lvl 0 B D0 L0 Hlvl ltac:(lia)) as [q0 Dq0].
      destruct (denm_cof_exists s r0 _ lvl 1 B D0 L0 Hlvl ltac:(lia)) as [q1 Dq1].
      destruct (S1 q0 Dq0) as [Es1 Et]. subst s1 t.
      destruct (S2 q1 Dq1) as [Es2 Ee]. subst s2 e.
      destruct (mk_node_stableM s lvl q0 q1 _ _ s3 h r0 B Hlvl D1' D2 (II 0 ltac:(lia)) (II 1 ltac:(lia)) Em)
        as [Es3 Eh]; auto.
      apply (denm_ext s r0 _ _ D0). intros c0 Hc. symmetry. apply Heq. exact Hc.
Qed.

End CacheSec.

End PG.

Arguments MCacheOK {TA C}.
Arguments mentry_ok {TA} s opc args r : simpl never.
