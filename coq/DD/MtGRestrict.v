(** * Correctness of the MTBDD restrict (generic, DD/MtG.v: [mt_restrict_inner],
      [mt_restrict] = [restrict] of oxidd-rules-mtbdd/src/apply_rec.rs)

    For a cube [vars] with literal list [lits] ([Cube], DD/MtGProofs.v)
    [mt_restrict_ok]: the result denotes [fun c => phi (ovr lits c)]: the
    operand's function with the levels of the literals forced. *)

From Coq Require Import List NArith ZArith PArith Bool Arith Lia FMapPositive.
From OxiVerif Require Import DD.Table DD.TableProofs DD.Canon DD.Sem DD.Build DD.BuildProofs
  DD.Apply DD.ApplyProofs DD.MtG DD.MtGBase DD.MtGProofs.
Import ListNotations.

Section RG.
Context {TA : talg} {TL : tlaws TA}.

(** ** Overrides and cubes *)

Lemma denm_pointwise : forall s r phi c c', WF s -> DenM s r phi -> bchoice c -> bchoice c' ->
  (forall l, c l = c' l) -> phi c = phi c'.
Proof. intros s r phi c c' H D Hc Hc' E. apply (denm_indep s r phi H D c c' Hc Hc'). intros l _. apply E. Qed.

Lemma assoc_nat_none : forall (lits : list (nat * bool)) l,
  (forall b, ~ In (l, b) lits) -> assoc_nat lits l = None.
Proof.
  induction lits as [|[k b] r IH]; intros l Hn; [reflexivity|]. simpl.
  destruct (Nat.eqb_spec k l) as [->|Hne].
  - exfalso. apply (Hn b). left. reflexivity.
  - apply IH. intros b' Hin. apply (Hn b'). right. exact Hin.
Qed.

(** a level that carries no literal keeps its choice *)
Lemma ovr_other : forall lits c l, (forall b, ~ In (l, b) lits) -> ovr lits c l = c l.
Proof. intros lits c l Hn. unfold ovr. rewrite (assoc_nat_none lits l Hn). reflexivity. Qed.

Lemma ovr_nil : forall c l, ovr [] c l = c l.
Proof. reflexivity. Qed.

Lemma ovr_cons : forall k b lits c l,
  ovr ((k, b) :: lits) c l = if Nat.eqb k l then (if b then 0 else 1) else ovr lits c l.
Proof. intros. unfold ovr. simpl. destruct (Nat.eqb k l); reflexivity. Qed.

(** [ovr] keeps two choices equal where they were equal *)
Lemma ovr_agree : forall lits c c' (P : nat -> Prop),
  (forall l, P l -> c l = c' l) -> forall l, P l -> ovr lits c l = ovr lits c' l.
Proof. intros lits c c' P E l Hl. unfold ovr. destruct (assoc_nat lits l); [reflexivity | apply E; exact Hl]. Qed.

(** the literals of a cube sit at the root's level or deeper, inside the table *)
Lemma cube_levels : forall s r lits, WF s -> Cube s r lits ->
  forall l b, In (l, b) lits -> rlevel s r <= l /\ l < nlevels s.
Proof.
  intros s r lits H Hc. induction Hc as [t Et | id nd rest t0 lits En Ech Et Hr IH | id nd rest t0 lits En Ech Et Hr IH];
    intros l b Hin.
  - destruct Hin.
  - rewrite (rlevel_node s id nd En). destruct Hin as [Hin|Hin].
    + inversion Hin; subst. split; [lia | apply (wf_level s H id nd En)].
    + destruct (IH l b Hin) as [A A'].
      assert (Hch : nth_error (nchildren nd) 0 = Some (E rest)) by (rewrite Ech; reflexivity).
      destruct (child_nth s H id nd 0 _ En Hch) as [_ L]. simpl in L. lia.
  - rewrite (rlevel_node s id nd En). destruct Hin as [Hin|Hin].
    + inversion Hin; subst. split; [lia | apply (wf_level s H id nd En)].
    + destruct (IH l b Hin) as [A A'].
      assert (Hch : nth_error (nchildren nd) 1 = Some (E rest)) by (rewrite Ech; reflexivity).
      destruct (child_nth s H id nd 1 _ En Hch) as [_ L]. simpl in L. lia.
Qed.

Lemma cube_ovr_below : forall s r lits c l, WF s -> Cube s r lits -> l < rlevel s r ->
  ovr lits c l = c l.
Proof.
  intros s r lits c l H Hc Hl. apply ovr_other. intros b Hin.
  destruct (cube_levels s r lits H Hc l b Hin). lia.
Qed.

Lemma cube_ovr_above : forall s r lits c l, WF s -> Cube s r lits -> nlevels s <= l ->
  ovr lits c l = c l.
Proof.
  intros s r lits c l H Hc Hl. apply ovr_other. intros b Hin.
  destruct (cube_levels s r lits H Hc l b Hin). lia.
Qed.

(** a cube that is a terminal has no literals and is the terminal 1 *)
Lemma cube_term : forall s t lits, Cube s (RT t) lits ->
  lits = [] /\ term_val s t = Some (t_code t_one).
Proof. intros s t lits Hc. inversion Hc; subst. auto. Qed.

(** a terminal operand: forcing levels does not change a constant *)
Lemma denm_term_ovr : forall s t P r lits, WF s -> DenM s (RT t) P -> Cube s r lits ->
  DenM s (RT t) (fun c => P (ovr lits c)).
Proof.
  intros s t P r lits H D Hc. apply (denm_ext s (RT t) P); [exact D|].
  intros c Hcb. apply (denm_indep s (RT t) P H D); [exact Hcb | apply ovr_bchoice; exact Hcb|].
  intros l Hl. simpl in Hl. symmetry. apply (cube_ovr_above s r lits c l H Hc Hl).
Qed.

(** ** The tail-recursive walk *)

Lemma mt_restrict_inner_S : forall n s f fnode flevel vars vnode,
  mt_restrict_inner (S n) s f fnode flevel vars vnode =
    let vlevel := nstored vnode in
    if Nat.ltb flevel vlevel then Some (RRec vars f fnode)
    else
      match nchildren vnode with
      | [vt; ve] =>
        if Nat.ltb vlevel flevel then
          match mt_view s (eref vt) with
          | None => None
          | Some (MI nd) => mt_restrict_inner n s f fnode flevel (eref vt) nd
          | Some (MT t) =>
            if t_is_one t then Some (RDone f)
            else
              match mt_view s (eref ve) with
              | None => None
              | Some (MI nd) => mt_restrict_inner n s f fnode flevel (eref ve) nd
              | Some (MT _) => Some (RDone f)
              end
          end
        else
          match nchildren fnode with
          | [ft; fe] =>
            let continue (f' vars' : ref) (vnode' : node) :=
              match mt_view s f' with
              | None => None
              | Some (MI fnode') => mt_restrict_inner n s f' fnode' (nstored fnode') vars' vnode'
              | Some (MT _) => Some (RDone f')
              end in
            match mt_view s (eref vt) with
            | None => None
            | Some (MI nd) => continue (eref ft) (eref vt) nd
            | Some (MT t) =>
              if t_is_one t then Some (RDone (eref ft))
              else
                match mt_view s (eref ve) with
                | None => None
                | Some (MI nd) => continue (eref fe) (eref ve) nd
                | Some (MT _) => Some (RDone (eref fe))
                end
            end
          | _ => None
          end
      | _ => None
      end.
Proof. reflexivity. Qed.

(** what the walk establishes *)
Definition rin_post (s : snap) (L : nat) (phi : mfun) (lits : list (nat * bool)) (res : rin_res) : Prop :=
  match res with
  | RDone r => DenM s r (fun c => phi (ovr lits c))
  | RRec vars' f' fnode' =>
    exists id' phi' lits', f' = RN id' /\ find_node s id' = Some fnode' /\ DenM s f' phi' /\
      Cube s vars' lits' /\ nlevel fnode' < rlevel s vars' /\ L <= nlevel fnode' /\
      (forall c, bchoice c -> phi' (ovr lits' c) = phi (ovr lits c))
  end.

Lemma rin_post_ext : forall s L phi phi2 lits lits2 res,
  rin_post s L phi lits res ->
  (forall c, bchoice c -> phi (ovr lits c) = phi2 (ovr lits2 c)) ->
  rin_post s L phi2 lits2 res.
Proof.
  intros s L phi phi2 lits lits2 [r|v f fn] Hp E; simpl in *.
  - apply (denm_ext s r _ _ Hp). exact E.
  - destruct Hp as [id' [phi' [lits' [A1 [A2 [A3 [A4 [A5 [A6 A7]]]]]]]]].
    exists id', phi', lits'. repeat (split; [assumption|]).
    intros c Hc. rewrite (A7 c Hc). apply E. exact Hc.
Qed.

Lemma rin_post_mono : forall s L L' phi lits res, rin_post s L phi lits res -> L' <= L ->
  rin_post s L' phi lits res.
Proof.
  intros s L L' phi lits [r|v f fn] Hp Hle; simpl in *; [exact Hp|].
  destruct Hp as [id' [phi' [lits' [A1 [A2 [A3 [A4 [A5 [A6 A7]]]]]]]]].
  exists id', phi', lits'. repeat (split; [assumption|]). split; [lia | exact A7].
Qed.

(** the value one/zero terminals as [mt_view] sees them *)
Lemma view_one : forall s t, term_val s t = Some (t_code t_one) -> mt_view s (RT t) = Some (MT t_one).
Proof. intros s t E. simpl. rewrite E, t_decode_code. reflexivity. Qed.
Lemma view_zero : forall s t, term_val s t = Some (t_code t_zero) -> mt_view s (RT t) = Some (MT t_zero).
Proof. intros s t E. simpl. rewrite E, t_decode_code. reflexivity. Qed.

(** the rest of a cube, as the walk sees it: an inner node (a further
    literal) or the terminal 1 *)
Lemma cube_rest_view : forall s rest lits, Cube s rest lits ->
  (exists id nd, rest = RN id /\ find_node s id = Some nd /\ mt_view s rest = Some (MI nd)) \/
  (exists t, rest = RT t /\ lits = [] /\ mt_view s rest = Some (MT t_one)).
Proof.
  intros s rest lits Hc. inversion Hc; subst.
  - right. exists t. split; [reflexivity|]. split; [reflexivity | apply view_one; assumption].
  - left. exists id, nd. split; [reflexivity|]. split; [assumption|]. simpl.
    match goal with Hn : find_node s id = Some nd |- _ => rewrite Hn end. reflexivity.
  - left. exists id, nd. split; [reflexivity|]. split; [assumption|]. simpl.
    match goal with Hn : find_node s id = Some nd |- _ => rewrite Hn end. reflexivity.
Qed.

Theorem mt_restrict_inner_ok : forall fuel s idf fnode idv vnode phi lits,
  MtOK s -> find_node s idf = Some fnode -> find_node s idv = Some vnode ->
  DenM s (RN idf) phi -> Cube s (RN idv) lits ->
  (nlevels s - nlevel fnode) + (nlevels s - nlevel vnode) < fuel ->
  exists res, mt_restrict_inner fuel s (RN idf) fnode (nlevel fnode) (RN idv) vnode = Some res /\
    rin_post s (nlevel fnode) phi lits res.
Proof.
  induction fuel as [|n IH]; intros s idf fnode idv vnode phi lits B Ef Ev Df Hcube Hfuel; [lia|].
  pose proof (mo_wf s B) as H.
  rewrite mt_restrict_inner_S. cbv zeta.
  rewrite (wf_stored s H idv vnode Ev).
  pose proof (wf_level s H idf fnode Ef) as Hlf. pose proof (wf_level s H idv vnode Ev) as Hlv.
  destruct (Nat.ltb_spec (nlevel fnode) (nlevel vnode)) as [Hfv|Hfv].
  { (* f above vars *)
    eexists. split; [reflexivity|]. unfold rin_post.
    exists idf, phi, lits. split; [reflexivity|]. split; [exact Ef|]. split; [exact Df|].
    split; [exact Hcube|]. split; [rewrite (rlevel_node s idv vnode Ev); exact Hfv|].
    split; [lia|]. intros c _. reflexivity. }
  assert (Ipf : indepM phi (nlevel fnode))
    by (rewrite <- (rlevel_node s idf fnode Ef); apply (denm_indep s _ phi H Df)).
  (* the continuation after selecting a branch of [f] *)
  assert (Cont : forall f' P rest lits1 idr ndr,
            DenM s f' P -> nlevel fnode < rlevel s f' ->
            rest = RN idr -> find_node s idr = Some ndr -> Cube s rest lits1 ->
            nlevel vnode < nlevel ndr ->
            exists res,
              match mt_view s f' with
              | None => None
              | Some (MI fnode') => mt_restrict_inner n s f' fnode' (nstored fnode') rest ndr
              | Some (MT _) => Some (RDone f')
              end = Some res /\ rin_post s (nlevel fnode) P lits1 res).
  { intros f' P rest lits1 idr ndr DP Lf' -> Er Hc1 Lr.
    destruct (mt_view_total s f' (proj1 DP)) as [v' V']. rewrite V'. destruct v' as [fnode'|x].
    - destruct (mt_view_MI s f' fnode' V') as [id' [-> E']].
      rewrite (wf_stored s H id' fnode' E').
      rewrite (rlevel_node s id' fnode' E') in Lf'.
      pose proof (wf_level s H id' fnode' E').
      destruct (IH s id' fnode' idr ndr P lits1 B E' Er DP Hc1 ltac:(lia)) as [res [Eres Pres]].
      exists res. split; [exact Eres|]. apply (rin_post_mono _ _ _ _ _ _ Pres). lia.
    - destruct (mt_view_MT s f' x V') as [t [-> _]].
      eexists. split; [reflexivity|]. simpl. apply (denm_term_ovr s t P (RN idr) lits1 H DP Hc1). }
  inversion Hcube as [| id nd rest t0 lits1 En Ech Et0 Hrest | id nd rest t0 lits1 En Ech Et0 Hrest];
    subst; rewrite Ev in En; inversion En; subst nd; rewrite Ech.
  - (* positive literal *)
    assert (Hch0 : nth_error (nchildren vnode) 0 = Some (E rest)) by (rewrite Ech; reflexivity).
    destruct (child_nth s H idv vnode 0 _ Ev Hch0) as [_ Lrest]. simpl in Lrest.
    destruct (Nat.ltb_spec (nlevel vnode) (nlevel fnode)) as [Hvf|Hvf].
    + (* vars above f: the literal's level is irrelevant for [phi] *)
      assert (Skip : forall c, bchoice c -> phi (ovr lits1 c) = phi (ovr ((nlevel vnode, true) :: lits1) c)).
      { intros c Hc. apply Ipf; try (apply ovr_bchoice; exact Hc).
        intros l Hl. rewrite ovr_cons. destruct (Nat.eqb_spec (nlevel vnode) l); [lia | reflexivity]. }
      simpl eref.
      destruct (cube_rest_view s rest lits1 Hrest) as [[idr [ndr [-> [Er Vr]]]]|[t [-> [-> Vr]]]]; rewrite Vr.
      * rewrite (rlevel_node s idr ndr Er) in Lrest.
        destruct (IH s idf fnode idr ndr phi lits1 B Ef Er Df Hrest ltac:(lia)) as [res [Eres Pres]].
        exists res. split; [exact Eres|]. apply (rin_post_ext _ _ _ _ _ _ _ Pres Skip).
      * cbv iota beta. rewrite t_is_one_one. eexists. split; [reflexivity|]. simpl. apply (denm_ext s _ phi _ Df).
        intros c Hc. rewrite <- (Skip c Hc). apply (denm_pointwise s _ phi _ _ H Df Hc (ovr_bchoice _ _ Hc)).
        intros l. reflexivity.
    + (* the literal's variable is the top variable of f: then-branch *)
      assert (Elv : nlevel vnode = nlevel fnode) by lia.
      destruct (mt_children s idf fnode B Ef) as [a [b Echf]]. rewrite Echf.
      assert (Ha : nth_error (nchildren fnode) 0 = Some a) by (rewrite Echf; reflexivity).
      pose proof (denm_child s idf fnode 0 a phi B Df Ef Ha) as Da.
      destruct (child_nth s H idf fnode 0 a Ef Ha) as [_ La].
      assert (Sel : forall c, bchoice c ->
                cofM phi (nlevel fnode) 0 (ovr lits1 c) = phi (ovr ((nlevel vnode, true) :: lits1) c)).
      { intros c Hc. unfold cofM.
        apply (denm_pointwise s _ phi _ _ H Df);
          [apply bchoice_upd; [apply ovr_bchoice; exact Hc | lia] | apply ovr_bchoice; exact Hc|].
        intros l. rewrite ovr_cons, Elv. unfold cupd. rewrite (Nat.eqb_sym l).
        destruct (Nat.eqb (nlevel fnode) l); reflexivity. }
      simpl eref.
      destruct (cube_rest_view s rest lits1 Hrest) as [[idr [ndr [-> [Er Vr]]]]|[t [-> [-> Vr]]]]; rewrite Vr.
      * rewrite (rlevel_node s idr ndr Er) in Lrest.
        destruct (Cont (eref a) _ (RN idr) lits1 idr ndr Da La eq_refl Er Hrest Lrest) as [res [Eres Pres]].
        exists res. split; [exact Eres|]. apply (rin_post_ext _ _ _ _ _ _ _ Pres Sel).
      * cbv iota beta. rewrite t_is_one_one. eexists. split; [reflexivity|]. simpl. apply (denm_ext s _ _ _ Da).
        intros c Hc. rewrite <- (Sel c Hc). unfold cofM.
        apply (denm_pointwise s _ phi _ _ H Df);
          [apply bchoice_upd; [exact Hc | lia]
          | apply bchoice_upd; [apply ovr_bchoice; exact Hc | lia]|].
        intros l. reflexivity.
  - (* negative literal *)
    assert (Hch1 : nth_error (nchildren vnode) 1 = Some (E rest)) by (rewrite Ech; reflexivity).
    destruct (child_nth s H idv vnode 1 _ Ev Hch1) as [_ Lrest]. simpl in Lrest.
    simpl eref. rewrite (view_zero s t0 Et0).
    cbv iota beta. rewrite t_is_one_zero.
    destruct (Nat.ltb_spec (nlevel vnode) (nlevel fnode)) as [Hvf|Hvf].
    + assert (Skip : forall c, bchoice c -> phi (ovr lits1 c) = phi (ovr ((nlevel vnode, false) :: lits1) c)).
      { intros c Hc. apply Ipf; try (apply ovr_bchoice; exact Hc).
        intros l Hl. rewrite ovr_cons. destruct (Nat.eqb_spec (nlevel vnode) l); [lia | reflexivity]. }
      destruct (cube_rest_view s rest lits1 Hrest) as [[idr [ndr [-> [Er Vr]]]]|[t [-> [-> Vr]]]]; rewrite Vr.
      * rewrite (rlevel_node s idr ndr Er) in Lrest.
        destruct (IH s idf fnode idr ndr phi lits1 B Ef Er Df Hrest ltac:(lia)) as [res [Eres Pres]].
        exists res. split; [exact Eres|]. apply (rin_post_ext _ _ _ _ _ _ _ Pres Skip).
      * eexists. split; [reflexivity|]. simpl. apply (denm_ext s _ phi _ Df).
        intros c Hc. rewrite <- (Skip c Hc). apply (denm_pointwise s _ phi _ _ H Df Hc (ovr_bchoice _ _ Hc)).
        intros l. reflexivity.
    + assert (Elv : nlevel vnode = nlevel fnode) by lia.
      destruct (mt_children s idf fnode B Ef) as [a [b Echf]]. rewrite Echf.
      assert (Hb : nth_error (nchildren fnode) 1 = Some b) by (rewrite Echf; reflexivity).
      pose proof (denm_child s idf fnode 1 b phi B Df Ef Hb) as Db.
      destruct (child_nth s H idf fnode 1 b Ef Hb) as [_ Lb].
      assert (Sel : forall c, bchoice c ->
                cofM phi (nlevel fnode) 1 (ovr lits1 c) = phi (ovr ((nlevel vnode, false) :: lits1) c)).
      { intros c Hc. unfold cofM.
        apply (denm_pointwise s _ phi _ _ H Df);
          [apply bchoice_upd; [apply ovr_bchoice; exact Hc | lia] | apply ovr_bchoice; exact Hc|].
        intros l. rewrite ovr_cons, Elv. unfold cupd. rewrite (Nat.eqb_sym l).
        destruct (Nat.eqb (nlevel fnode) l); reflexivity. }
      destruct (cube_rest_view s rest lits1 Hrest) as [[idr [ndr [-> [Er Vr]]]]|[t [-> [-> Vr]]]]; rewrite Vr.
      * rewrite (rlevel_node s idr ndr Er) in Lrest.
        destruct (Cont (eref b) _ (RN idr) lits1 idr ndr Db Lb eq_refl Er Hrest Lrest) as [res [Eres Pres]].
        exists res. split; [exact Eres|]. apply (rin_post_ext _ _ _ _ _ _ _ Pres Sel).
      * eexists. split; [reflexivity|]. simpl. apply (denm_ext s _ _ _ Db).
        intros c Hc. rewrite <- (Sel c Hc). unfold cofM.
        apply (denm_pointwise s _ phi _ _ H Df);
          [apply bchoice_upd; [exact Hc | lia]
          | apply bchoice_upd; [apply ovr_bchoice; exact Hc | lia]|].
        intros l. reflexivity.
Qed.

(** ** [restrict] *)

Section RestrictSec.
Variable C : Type.
Variable cget : C -> N -> list ref -> option ref.
Variable cadd : C -> N -> list ref -> ref -> C.
Hypothesis Hlossy : lossy cget cadd.

Lemma mt_restrict_S : forall n s c f vars,
  mt_restrict C cget cadd (S n) s c f vars =
    match mt_view s f, mt_view s vars with
    | Some (MI fnode), Some (MI vnode) =>
      match mt_restrict_inner (rin_fuel s) s f fnode (nstored fnode) vars vnode with
      | None => None
      | Some (RDone r) => Some (s, c, r)
      | Some (RRec vars' f' fnode') =>
        match cget c mcode_restrict [f'; vars'] with
        | Some r => Some (s, c, r)
        | None =>
          match nchildren fnode' with
          | [ft; fe] =>
            match mt_restrict C cget cadd n s c (eref ft) vars' with
            | None => None
            | Some (s1, c1, t) =>
              match mt_restrict C cget cadd n s1 c1 (eref fe) vars' with
              | None => None
              | Some (s2, c2, e) =>
                let '(s3, r) := mk_node s2 (nstored fnode') [E t; E e] in
                Some (s3, cadd c2 mcode_restrict [f'; vars'] (eref r), eref r)
              end
            end
          | _ => None
          end
        end
      end
    | Some _, Some _ => Some (s, c, f)
    | _, _ => None
    end.
Proof. reflexivity. Qed.

Theorem mt_restrict_ok : forall fuel s c f vars phi lits,
  MtOK s -> MCacheOK cget s c -> DenM s f phi -> Cube s vars lits ->
  nlevels s - rlevel s f < fuel ->
  mresult_ok C cget s c (mt_restrict C cget cadd fuel s c f vars) (fun c0 => phi (ovr lits c0)).
Proof.
  induction fuel as [|n IH]; intros s c f vars phi lits B O Df Hcube Hfuel; [lia|].
  pose proof (mo_wf s B) as H.
  rewrite mt_restrict_S.
  destruct (mt_view_total s f (proj1 Df)) as [vf Vf]. rewrite Vf.
  assert (Ovars : ref_ok s vars).
  { inversion Hcube; subst; simpl; eauto. }
  destruct (mt_view_total s vars Ovars) as [vv Vv]. rewrite Vv.
  (* the two early exits *)
  assert (Exit1 : forall x, vf = MT x -> mresult_ok C cget s c (Some (s, c, f)) (fun c0 => phi (ovr lits c0))).
  { intros x ->. destruct (mt_view_MT s f x Vf) as [t [-> _]].
    apply mresult_ok_here; auto. apply (denm_term_ovr s t phi vars lits H Df Hcube). }
  assert (Exit2 : forall x, vv = MT x -> mresult_ok C cget s c (Some (s, c, f)) (fun c0 => phi (ovr lits c0))).
  { intros x ->. destruct (mt_view_MT s vars x Vv) as [t [-> _]].
    destruct (cube_term s t lits Hcube) as [-> _].
    apply mresult_ok_here; auto. }
  destruct vf as [fnode|x]; [|destruct vv; apply (Exit1 x eq_refl)].
  destruct vv as [vnode|x]; [|apply (Exit2 x eq_refl)].
  destruct (mt_view_MI s f fnode Vf) as [idf [-> Ef]].
  destruct (mt_view_MI s vars vnode Vv) as [idv [-> Ev]].
  rewrite (wf_stored s H idf fnode Ef).
  pose proof (wf_level s H idf fnode Ef) as Hlf. pose proof (wf_level s H idv vnode Ev) as Hlv.
  destruct (mt_restrict_inner_ok (rin_fuel s) s idf fnode idv vnode phi lits B Ef Ev Df Hcube
              ltac:(unfold rin_fuel; lia)) as [res [Eres Pres]].
  rewrite Eres. destruct res as [r|vars' f' fnode']; simpl in Pres.
  { apply mresult_ok_here; auto. }
  destruct Pres as [id' [phi' [lits' [-> [E' [Df' [Hcube' [Lv' [Lf' Eq']]]]]]]]].
  apply (mresult_ok_ext C cget s c _ (fun c0 => phi' (ovr lits' c0))); [|exact Eq'].
  rewrite (rlevel_node s idf fnode Ef) in Hfuel.
  destruct (cget c mcode_restrict [RN id'; vars']) as [r|] eqn:Ec.
  { destruct (proj2 (O _ _ _ Ec) eq_refl) as [pa [la [Da [Ca Dr]]]].
    apply mresult_ok_here; auto. apply (denm_ext s r _ _ Dr). intros c0 Hc.
    rewrite (cube_fun s vars' la lits' Ca Hcube').
    apply (denm_unique s _ pa phi' Da Df' _ (ovr_bchoice _ _ Hc)). }
  destruct (mt_children s id' fnode' B E') as [a [b Ech]]. rewrite Ech.
  rewrite (wf_stored s H id' fnode' E').
  pose proof (wf_level s H id' fnode' E') as Hl'.
  set (lvl := nlevel fnode') in *.
  assert (Ha : nth_error (nchildren fnode') 0 = Some a) by (rewrite Ech; reflexivity).
  assert (Hb : nth_error (nchildren fnode') 1 = Some b) by (rewrite Ech; reflexivity).
  pose proof (denm_child s id' fnode' 0 a phi' B Df' E' Ha) as Da.
  pose proof (denm_child s id' fnode' 1 b phi' B Df' E' Hb) as Db.
  destruct (child_nth s H id' fnode' 0 a E' Ha) as [Oa La].
  destruct (child_nth s H id' fnode' 1 b E' Hb) as [Ob Lb].
  fold lvl in Da, Db, La, Lb.
  destruct (IH s c (eref a) vars' _ lits' B O Da Hcube' ltac:(lia)) as [s1 [c1 [t [E1 [B1 [X1 [O1 [D1 S1]]]]]]]].
  rewrite E1.
  assert (Db1 : DenM s1 (eref b) (cofM phi' lvl 1)) by (apply (denm_mext s s1 _ _ B X1 Db)).
  assert (Hcube1 : Cube s1 vars' lits') by (apply (cube_mext s s1 _ _ X1 Hcube')).
  assert (Hf1 : nlevels s1 - rlevel s1 (eref b) < n)
    by (rewrite (mx_nlevels _ _ X1), (mx_rlevel _ _ _ X1 Ob); lia).
  destruct (IH s1 c1 (eref b) vars' _ lits' B1 O1 Db1 Hcube1 Hf1) as [s2 [c2 [e [E2 [B2 [X2 [O2 [D2 S2]]]]]]]].
  rewrite E2.
  destruct (mk_node s2 lvl [Build.E t; Build.E e]) as [s3 r] eqn:Em.
  assert (D1' : DenM s2 t (fun c0 => cofM phi' lvl 0 (ovr lits' c0)))
    by (apply (denm_mext s1 s2 _ _ B1 X2 D1)).
  assert (Ip : indepM phi' lvl)
    by (unfold lvl; rewrite <- (rlevel_node s id' fnode' E'); apply (denm_indep s _ phi' H Df')).
  assert (II : forall i, i < 2 -> indepM (fun c0 => cofM phi' lvl i (ovr lits' c0)) (S lvl)).
  { intros i Hi x y Hx Hy Exy.
    apply (indepM_cof phi' _ lvl i Ip (le_n _) Hi); try (apply ovr_bchoice; assumption).
    intros l Hl. apply (ovr_agree lits' x y (fun l => S lvl <= l)); assumption. }
  assert (Hl2 : lvl < nlevels s2)
    by (rewrite (mx_nlevels _ _ X2), (mx_nlevels _ _ X1); exact Hl').
  destruct (node_stepM s2 lvl t e _ _ s3 r B2 Hl2 D1' D2 (II 0 ltac:(lia)) (II 1 ltac:(lia)) Em)
    as [B3 [X3 Dr]].
  assert (X03 : mext s s3).
  { eapply mext_trans; [|apply mext_of_extends; exact X3]. eapply mext_trans; eauto. }
  (* the level of the node carries no literal *)
  assert (Nolit : forall c0, ovr lits' c0 lvl = c0 lvl)
    by (intros c0; apply (cube_ovr_below s vars' lits' c0 lvl H Hcube' Lv')).
  assert (Heq : forall c0, bchoice c0 ->
            (if Nat.eqb (c0 lvl) 0 then cofM phi' lvl 0 (ovr lits' c0) else cofM phi' lvl 1 (ovr lits' c0))
            = phi' (ovr lits' c0)).
  { intros c0 Hc.
    rewrite (shannon_pickM c0 lvl (fun i => cofM phi' lvl i (ovr lits' c0)) Hc).
    rewrite <- (Nolit c0).
    apply (denm_upd_self s _ phi' (ovr lits' c0) lvl H Df' (ovr_bchoice _ _ Hc)). }
  assert (Dres : DenM s3 (eref r) (fun c0 => phi' (ovr lits' c0)))
    by (apply (denm_ext _ _ _ _ Dr Heq)).
  exists s3, (cadd c2 mcode_restrict [RN id'; vars'] (eref r)), (eref r).
  split; [reflexivity|]. split; [exact B3|]. split; [exact X03|].
  split; [|split; [exact Dres|]].
  { apply (mcacheok_add C cget cadd Hlossy);
      [apply (mcacheok_mext C cget s2 s3 c2 B2 (mext_of_extends _ _ X3) O2)|].
    split.
    - intros o Ho. exfalso. destruct o; discriminate.
    - intros _. exists phi', lits'.
      split; [apply (denm_mext s s3 _ _ B X03 Df')|].
      split; [apply (cube_mext s s3 _ _ X03 Hcube') | exact Dres]. }
  intros r0 D0.
  assert (J : indepM (fun c0 => phi' (ovr lits' c0)) lvl).
  { intros x y Hx Hy Exy. apply Ip; try (apply ovr_bchoice; assumption).
    intros l Hl. apply (ovr_agree lits' x y (fun l => lvl <= l)); assumption. }
  assert (L0 : lvl <= rlevel s r0) by (apply (denm_level s r0 _ lvl B D0 ltac:(lia) J)).
  (* cofactor of the composed function = composed cofactor *)
  assert (Cof : forall i c0, bchoice c0 -> i < 2 ->
            cofM (fun c1 => phi' (ovr lits' c1)) lvl i c0 = cofM phi' lvl i (ovr lits' c0)).
  { intros i c0 Hc Hi. unfold cofM.
    apply (denm_pointwise s _ phi' _ _ H Df');
      [apply ovr_bchoice; apply bchoice_upd; assumption
      | apply bchoice_upd; [apply ovr_bchoice; assumption | assumption]|].
    intros l. unfold cupd at 2. destruct (Nat.eqb_spec l lvl) as [->|Hne].
    - rewrite Nolit. unfold cupd. rewrite Nat.eqb_refl. reflexivity.
    - unfold ovr. destruct (assoc_nat lits' l); [reflexivity|].
      unfold cupd. destruct (Nat.eqb_spec l lvl); [contradiction | reflexivity]. }
  destruct (denm_cof_exists s r0 _ lvl 0 B D0 L0 Hl' ltac:(lia)) as [q0 Dq0].
  destruct (denm_cof_exists s r0 _ lvl 1 B D0 L0 Hl' ltac:(lia)) as [q1 Dq1].
  assert (Dq0' : DenM s q0 (fun c0 => cofM phi' lvl 0 (ovr lits' c0)))
    by (apply (denm_ext s q0 _ _ Dq0); intros c0 Hc; apply Cof; [exact Hc | lia]).
  assert (Dq1' : DenM s q1 (fun c0 => cofM phi' lvl 1 (ovr lits' c0)))
    by (apply (denm_ext s q1 _ _ Dq1); intros c0 Hc; apply Cof; [exact Hc | lia]).
  destruct (S1 q0 Dq0') as [Es1 Et]. subst s1 t.
  destruct (S2 q1 Dq1') as [Es2 Ee]. subst s2 e.
  destruct (mk_node_stableM s lvl q0 q1 _ _ s3 r r0 B Hl' D1' D2 (II 0 ltac:(lia)) (II 1 ltac:(lia)) Em)
    as [Es3 Ehr]; auto.
  apply (denm_ext s r0 _ _ D0). intros c0 Hc. symmetry. apply Heq. exact Hc.
Qed.

End RestrictSec.

End RG.
